(* Mesh.v — executable MIRROR of the stdlib mesh_ node (src/hgraph/runtime/mesh_node.cpp) running the
   fixed program of cxx/mesh_driver.cpp:

     mesh_(Body, val, link1, link2 [, __keys__]);
     Body(key, val, l1, l2): tag(key); seen = probe(key, val); d1 = mesh_ref(l1); d2 = mesh_ref(l2);
                             out = comb(key, seen, d1, d2) = (val + 3*d1 + 7*d2) rem 1000003

   Mirrored line for line (state and control flow):
     mesh_evaluate_impl            [mesh_eval]   retire / key set / queued removals / candidates / settle loop
     the settle loop               [settle_loop] [pass] [process_entry]: (rank, slot) snapshot per pass, settled
                                   skip, due-or-paused test, pause, the guard; with [m_fix] the repaired rule of
                                   /repo commit 1c89b1b (pending_min_rank), without it the loop before that commit
     create_instance / remove_instance / retire_slot / erase_retired_before / process_graphs_to_remove
     KeySlotStore slot allocation  [acquire]  (LIFO free list, capacity doubling from 8)
     add_dependency / re_rank / remove_dependency, `dependents` as an insertion-ordered dense map
     mesh_subscribe_evaluate_impl  [sub_eval]  (dependency registration, pause, bind value input, publish)
     graph.cpp evaluate_impl (nested) [child_eval]: cursor, resume, next_scheduled_time cache, per-node slots
     graph.cpp nested_schedule_node_impl [schedule] incl. the child_schedule_observer of the mesh
   Contract level: time-series endpoints are values (a dictionary element is its value; a forwarding link is
   the key it points at); a tick of an output schedules every node whose active input is bound to it.
   Executable definitions only; lemmas are in MeshFacts.v. *)
Require Import Base.

Record sub := mkSub {
  sb_has : bool;
  sb_dep : Z;
  sb_vb : option Z;
  sb_ob : option Z }.
Definition set_sb_has (v : bool) (x : sub) : sub := mkSub v (sb_dep x) (sb_vb x) (sb_ob x).
Definition set_sb_dep (v : Z) (x : sub) : sub := mkSub (sb_has x) v (sb_vb x) (sb_ob x).
Definition set_sb_vb (v : option Z) (x : sub) : sub := mkSub (sb_has x) (sb_dep x) v (sb_ob x).
Definition set_sb_ob (v : option Z) (x : sub) : sub := mkSub (sb_has x) (sb_dep x) (sb_vb x) v.

Record child := mkChild {
  c_clock : Z;
  c_cache : Z;
  c_slots : list Z;
  c_cursor : nat;
  c_evalg : bool;
  c_started : bool;
  c_sub1 : sub;
  c_sub2 : sub;
  c_pvalid : bool;
  c_pval : Z;
  c_ib : list bool }.
Definition set_c_clock (v : Z) (x : child) : child := mkChild v (c_cache x) (c_slots x) (c_cursor x) (c_evalg x) (c_started x) (c_sub1 x) (c_sub2 x) (c_pvalid x) (c_pval x) (c_ib x).
Definition set_c_cache (v : Z) (x : child) : child := mkChild (c_clock x) v (c_slots x) (c_cursor x) (c_evalg x) (c_started x) (c_sub1 x) (c_sub2 x) (c_pvalid x) (c_pval x) (c_ib x).
Definition set_c_slots (v : list Z) (x : child) : child := mkChild (c_clock x) (c_cache x) v (c_cursor x) (c_evalg x) (c_started x) (c_sub1 x) (c_sub2 x) (c_pvalid x) (c_pval x) (c_ib x).
Definition set_c_cursor (v : nat) (x : child) : child := mkChild (c_clock x) (c_cache x) (c_slots x) v (c_evalg x) (c_started x) (c_sub1 x) (c_sub2 x) (c_pvalid x) (c_pval x) (c_ib x).
Definition set_c_evalg (v : bool) (x : child) : child := mkChild (c_clock x) (c_cache x) (c_slots x) (c_cursor x) v (c_started x) (c_sub1 x) (c_sub2 x) (c_pvalid x) (c_pval x) (c_ib x).
Definition set_c_started (v : bool) (x : child) : child := mkChild (c_clock x) (c_cache x) (c_slots x) (c_cursor x) (c_evalg x) v (c_sub1 x) (c_sub2 x) (c_pvalid x) (c_pval x) (c_ib x).
Definition set_c_sub1 (v : sub) (x : child) : child := mkChild (c_clock x) (c_cache x) (c_slots x) (c_cursor x) (c_evalg x) (c_started x) v (c_sub2 x) (c_pvalid x) (c_pval x) (c_ib x).
Definition set_c_sub2 (v : sub) (x : child) : child := mkChild (c_clock x) (c_cache x) (c_slots x) (c_cursor x) (c_evalg x) (c_started x) (c_sub1 x) v (c_pvalid x) (c_pval x) (c_ib x).
Definition set_c_pvalid (v : bool) (x : child) : child := mkChild (c_clock x) (c_cache x) (c_slots x) (c_cursor x) (c_evalg x) (c_started x) (c_sub1 x) (c_sub2 x) v (c_pval x) (c_ib x).
Definition set_c_pval (v : Z) (x : child) : child := mkChild (c_clock x) (c_cache x) (c_slots x) (c_cursor x) (c_evalg x) (c_started x) (c_sub1 x) (c_sub2 x) (c_pvalid x) v (c_ib x).
Definition set_c_ib (v : list bool) (x : child) : child := mkChild (c_clock x) (c_cache x) (c_slots x) (c_cursor x) (c_evalg x) (c_started x) (c_sub1 x) (c_sub2 x) (c_pvalid x) (c_pval x) v.

Record entry := mkEntry {
  e_key : Z;
  e_rank : Z;
  e_paused : bool;
  e_settled : Z;
  e_child : child;
  e_live : bool }.
Definition set_e_key (v : Z) (x : entry) : entry := mkEntry v (e_rank x) (e_paused x) (e_settled x) (e_child x) (e_live x).
Definition set_e_rank (v : Z) (x : entry) : entry := mkEntry (e_key x) v (e_paused x) (e_settled x) (e_child x) (e_live x).
Definition set_e_paused (v : bool) (x : entry) : entry := mkEntry (e_key x) (e_rank x) v (e_settled x) (e_child x) (e_live x).
Definition set_e_settled (v : Z) (x : entry) : entry := mkEntry (e_key x) (e_rank x) (e_paused x) v (e_child x) (e_live x).
Definition set_e_child (v : child) (x : entry) : entry := mkEntry (e_key x) (e_rank x) (e_paused x) (e_settled x) v (e_live x).
Definition set_e_live (v : bool) (x : entry) : entry := mkEntry (e_key x) (e_rank x) (e_paused x) (e_settled x) (e_child x) v.

Record mesh := mkMesh {
  m_fix : bool;
  m_d0 : list (Z * Z);
  m_d1 : list (Z * Z);
  m_d2 : list (Z * Z);
  m_keys : list Z;
  m_kvalid : bool;
  m_cap : nat;
  m_free : list nat;
  m_entries : list (option entry);
  m_perase : list nat;
  m_retire : Z;
  m_deps : list (Z * list Z);
  m_torem : list Z;
  m_cand : list nat;
  m_maxrank : Z;
  m_primed : bool;
  m_outval : list (Z * Z);
  m_outel : list Z;
  m_modified : list (Z * Z);
  m_removed : list Z;
  m_now : Z;
  m_pmin : Z;
  m_ev : list line;
  m_err : Z;
  m_oob : bool }.
Definition set_m_fix (v : bool) (x : mesh) : mesh := mkMesh v (m_d0 x) (m_d1 x) (m_d2 x) (m_keys x) (m_kvalid x) (m_cap x) (m_free x) (m_entries x) (m_perase x) (m_retire x) (m_deps x) (m_torem x) (m_cand x) (m_maxrank x) (m_primed x) (m_outval x) (m_outel x) (m_modified x) (m_removed x) (m_now x) (m_pmin x) (m_ev x) (m_err x) (m_oob x).
Definition set_m_d0 (v : list (Z * Z)) (x : mesh) : mesh := mkMesh (m_fix x) v (m_d1 x) (m_d2 x) (m_keys x) (m_kvalid x) (m_cap x) (m_free x) (m_entries x) (m_perase x) (m_retire x) (m_deps x) (m_torem x) (m_cand x) (m_maxrank x) (m_primed x) (m_outval x) (m_outel x) (m_modified x) (m_removed x) (m_now x) (m_pmin x) (m_ev x) (m_err x) (m_oob x).
Definition set_m_d1 (v : list (Z * Z)) (x : mesh) : mesh := mkMesh (m_fix x) (m_d0 x) v (m_d2 x) (m_keys x) (m_kvalid x) (m_cap x) (m_free x) (m_entries x) (m_perase x) (m_retire x) (m_deps x) (m_torem x) (m_cand x) (m_maxrank x) (m_primed x) (m_outval x) (m_outel x) (m_modified x) (m_removed x) (m_now x) (m_pmin x) (m_ev x) (m_err x) (m_oob x).
Definition set_m_d2 (v : list (Z * Z)) (x : mesh) : mesh := mkMesh (m_fix x) (m_d0 x) (m_d1 x) v (m_keys x) (m_kvalid x) (m_cap x) (m_free x) (m_entries x) (m_perase x) (m_retire x) (m_deps x) (m_torem x) (m_cand x) (m_maxrank x) (m_primed x) (m_outval x) (m_outel x) (m_modified x) (m_removed x) (m_now x) (m_pmin x) (m_ev x) (m_err x) (m_oob x).
Definition set_m_keys (v : list Z) (x : mesh) : mesh := mkMesh (m_fix x) (m_d0 x) (m_d1 x) (m_d2 x) v (m_kvalid x) (m_cap x) (m_free x) (m_entries x) (m_perase x) (m_retire x) (m_deps x) (m_torem x) (m_cand x) (m_maxrank x) (m_primed x) (m_outval x) (m_outel x) (m_modified x) (m_removed x) (m_now x) (m_pmin x) (m_ev x) (m_err x) (m_oob x).
Definition set_m_kvalid (v : bool) (x : mesh) : mesh := mkMesh (m_fix x) (m_d0 x) (m_d1 x) (m_d2 x) (m_keys x) v (m_cap x) (m_free x) (m_entries x) (m_perase x) (m_retire x) (m_deps x) (m_torem x) (m_cand x) (m_maxrank x) (m_primed x) (m_outval x) (m_outel x) (m_modified x) (m_removed x) (m_now x) (m_pmin x) (m_ev x) (m_err x) (m_oob x).
Definition set_m_cap (v : nat) (x : mesh) : mesh := mkMesh (m_fix x) (m_d0 x) (m_d1 x) (m_d2 x) (m_keys x) (m_kvalid x) v (m_free x) (m_entries x) (m_perase x) (m_retire x) (m_deps x) (m_torem x) (m_cand x) (m_maxrank x) (m_primed x) (m_outval x) (m_outel x) (m_modified x) (m_removed x) (m_now x) (m_pmin x) (m_ev x) (m_err x) (m_oob x).
Definition set_m_free (v : list nat) (x : mesh) : mesh := mkMesh (m_fix x) (m_d0 x) (m_d1 x) (m_d2 x) (m_keys x) (m_kvalid x) (m_cap x) v (m_entries x) (m_perase x) (m_retire x) (m_deps x) (m_torem x) (m_cand x) (m_maxrank x) (m_primed x) (m_outval x) (m_outel x) (m_modified x) (m_removed x) (m_now x) (m_pmin x) (m_ev x) (m_err x) (m_oob x).
Definition set_m_entries (v : list (option entry)) (x : mesh) : mesh := mkMesh (m_fix x) (m_d0 x) (m_d1 x) (m_d2 x) (m_keys x) (m_kvalid x) (m_cap x) (m_free x) v (m_perase x) (m_retire x) (m_deps x) (m_torem x) (m_cand x) (m_maxrank x) (m_primed x) (m_outval x) (m_outel x) (m_modified x) (m_removed x) (m_now x) (m_pmin x) (m_ev x) (m_err x) (m_oob x).
Definition set_m_perase (v : list nat) (x : mesh) : mesh := mkMesh (m_fix x) (m_d0 x) (m_d1 x) (m_d2 x) (m_keys x) (m_kvalid x) (m_cap x) (m_free x) (m_entries x) v (m_retire x) (m_deps x) (m_torem x) (m_cand x) (m_maxrank x) (m_primed x) (m_outval x) (m_outel x) (m_modified x) (m_removed x) (m_now x) (m_pmin x) (m_ev x) (m_err x) (m_oob x).
Definition set_m_retire (v : Z) (x : mesh) : mesh := mkMesh (m_fix x) (m_d0 x) (m_d1 x) (m_d2 x) (m_keys x) (m_kvalid x) (m_cap x) (m_free x) (m_entries x) (m_perase x) v (m_deps x) (m_torem x) (m_cand x) (m_maxrank x) (m_primed x) (m_outval x) (m_outel x) (m_modified x) (m_removed x) (m_now x) (m_pmin x) (m_ev x) (m_err x) (m_oob x).
Definition set_m_deps (v : list (Z * list Z)) (x : mesh) : mesh := mkMesh (m_fix x) (m_d0 x) (m_d1 x) (m_d2 x) (m_keys x) (m_kvalid x) (m_cap x) (m_free x) (m_entries x) (m_perase x) (m_retire x) v (m_torem x) (m_cand x) (m_maxrank x) (m_primed x) (m_outval x) (m_outel x) (m_modified x) (m_removed x) (m_now x) (m_pmin x) (m_ev x) (m_err x) (m_oob x).
Definition set_m_torem (v : list Z) (x : mesh) : mesh := mkMesh (m_fix x) (m_d0 x) (m_d1 x) (m_d2 x) (m_keys x) (m_kvalid x) (m_cap x) (m_free x) (m_entries x) (m_perase x) (m_retire x) (m_deps x) v (m_cand x) (m_maxrank x) (m_primed x) (m_outval x) (m_outel x) (m_modified x) (m_removed x) (m_now x) (m_pmin x) (m_ev x) (m_err x) (m_oob x).
Definition set_m_cand (v : list nat) (x : mesh) : mesh := mkMesh (m_fix x) (m_d0 x) (m_d1 x) (m_d2 x) (m_keys x) (m_kvalid x) (m_cap x) (m_free x) (m_entries x) (m_perase x) (m_retire x) (m_deps x) (m_torem x) v (m_maxrank x) (m_primed x) (m_outval x) (m_outel x) (m_modified x) (m_removed x) (m_now x) (m_pmin x) (m_ev x) (m_err x) (m_oob x).
Definition set_m_maxrank (v : Z) (x : mesh) : mesh := mkMesh (m_fix x) (m_d0 x) (m_d1 x) (m_d2 x) (m_keys x) (m_kvalid x) (m_cap x) (m_free x) (m_entries x) (m_perase x) (m_retire x) (m_deps x) (m_torem x) (m_cand x) v (m_primed x) (m_outval x) (m_outel x) (m_modified x) (m_removed x) (m_now x) (m_pmin x) (m_ev x) (m_err x) (m_oob x).
Definition set_m_primed (v : bool) (x : mesh) : mesh := mkMesh (m_fix x) (m_d0 x) (m_d1 x) (m_d2 x) (m_keys x) (m_kvalid x) (m_cap x) (m_free x) (m_entries x) (m_perase x) (m_retire x) (m_deps x) (m_torem x) (m_cand x) (m_maxrank x) v (m_outval x) (m_outel x) (m_modified x) (m_removed x) (m_now x) (m_pmin x) (m_ev x) (m_err x) (m_oob x).
Definition set_m_outval (v : list (Z * Z)) (x : mesh) : mesh := mkMesh (m_fix x) (m_d0 x) (m_d1 x) (m_d2 x) (m_keys x) (m_kvalid x) (m_cap x) (m_free x) (m_entries x) (m_perase x) (m_retire x) (m_deps x) (m_torem x) (m_cand x) (m_maxrank x) (m_primed x) v (m_outel x) (m_modified x) (m_removed x) (m_now x) (m_pmin x) (m_ev x) (m_err x) (m_oob x).
Definition set_m_outel (v : list Z) (x : mesh) : mesh := mkMesh (m_fix x) (m_d0 x) (m_d1 x) (m_d2 x) (m_keys x) (m_kvalid x) (m_cap x) (m_free x) (m_entries x) (m_perase x) (m_retire x) (m_deps x) (m_torem x) (m_cand x) (m_maxrank x) (m_primed x) (m_outval x) v (m_modified x) (m_removed x) (m_now x) (m_pmin x) (m_ev x) (m_err x) (m_oob x).
Definition set_m_modified (v : list (Z * Z)) (x : mesh) : mesh := mkMesh (m_fix x) (m_d0 x) (m_d1 x) (m_d2 x) (m_keys x) (m_kvalid x) (m_cap x) (m_free x) (m_entries x) (m_perase x) (m_retire x) (m_deps x) (m_torem x) (m_cand x) (m_maxrank x) (m_primed x) (m_outval x) (m_outel x) v (m_removed x) (m_now x) (m_pmin x) (m_ev x) (m_err x) (m_oob x).
Definition set_m_removed (v : list Z) (x : mesh) : mesh := mkMesh (m_fix x) (m_d0 x) (m_d1 x) (m_d2 x) (m_keys x) (m_kvalid x) (m_cap x) (m_free x) (m_entries x) (m_perase x) (m_retire x) (m_deps x) (m_torem x) (m_cand x) (m_maxrank x) (m_primed x) (m_outval x) (m_outel x) (m_modified x) v (m_now x) (m_pmin x) (m_ev x) (m_err x) (m_oob x).
Definition set_m_now (v : Z) (x : mesh) : mesh := mkMesh (m_fix x) (m_d0 x) (m_d1 x) (m_d2 x) (m_keys x) (m_kvalid x) (m_cap x) (m_free x) (m_entries x) (m_perase x) (m_retire x) (m_deps x) (m_torem x) (m_cand x) (m_maxrank x) (m_primed x) (m_outval x) (m_outel x) (m_modified x) (m_removed x) v (m_pmin x) (m_ev x) (m_err x) (m_oob x).
Definition set_m_pmin (v : Z) (x : mesh) : mesh := mkMesh (m_fix x) (m_d0 x) (m_d1 x) (m_d2 x) (m_keys x) (m_kvalid x) (m_cap x) (m_free x) (m_entries x) (m_perase x) (m_retire x) (m_deps x) (m_torem x) (m_cand x) (m_maxrank x) (m_primed x) (m_outval x) (m_outel x) (m_modified x) (m_removed x) (m_now x) v (m_ev x) (m_err x) (m_oob x).
Definition set_m_ev (v : list line) (x : mesh) : mesh := mkMesh (m_fix x) (m_d0 x) (m_d1 x) (m_d2 x) (m_keys x) (m_kvalid x) (m_cap x) (m_free x) (m_entries x) (m_perase x) (m_retire x) (m_deps x) (m_torem x) (m_cand x) (m_maxrank x) (m_primed x) (m_outval x) (m_outel x) (m_modified x) (m_removed x) (m_now x) (m_pmin x) v (m_err x) (m_oob x).
Definition set_m_err (v : Z) (x : mesh) : mesh := mkMesh (m_fix x) (m_d0 x) (m_d1 x) (m_d2 x) (m_keys x) (m_kvalid x) (m_cap x) (m_free x) (m_entries x) (m_perase x) (m_retire x) (m_deps x) (m_torem x) (m_cand x) (m_maxrank x) (m_primed x) (m_outval x) (m_outel x) (m_modified x) (m_removed x) (m_now x) (m_pmin x) (m_ev x) v (m_oob x).
Definition set_m_oob (v : bool) (x : mesh) : mesh := mkMesh (m_fix x) (m_d0 x) (m_d1 x) (m_d2 x) (m_keys x) (m_kvalid x) (m_cap x) (m_free x) (m_entries x) (m_perase x) (m_retire x) (m_deps x) (m_torem x) (m_cand x) (m_maxrank x) (m_primed x) (m_outval x) (m_outel x) (m_modified x) (m_removed x) (m_now x) (m_pmin x) (m_ev x) (m_err x) v.


(* ------------------------------------------------------------------ small utilities *)
Definition zmem (k : Z) (l : list Z) : bool := existsb (Z.eqb k) l.
Definition nmem (k : nat) (l : list nat) : bool := existsb (Nat.eqb k) l.

Fixpoint zlookup (k : Z) (l : list (Z * Z)) : option Z :=
  match l with [] => None | (a, b) :: r => if a =? k then Some b else zlookup k r end.
Definition zhas (k : Z) (l : list (Z * Z)) : bool := match zlookup k l with Some _ => true | None => false end.
Definition zdel (k : Z) (l : list (Z * Z)) : list (Z * Z) := filter (fun p => negb (fst p =? k)) l.
Definition zput (k v : Z) (l : list (Z * Z)) : list (Z * Z) := zdel k l ++ [(k, v)].
Definition zadd (k : Z) (l : list Z) : list Z := if zmem k l then l else l ++ [k].
Definition zrem (k : Z) (l : list Z) : list Z := filter (fun x => negb (x =? k)) l.
Definition nadd (k : nat) (l : list nat) : list nat := if nmem k l then l else l ++ [k].
Definition nrem (k : nat) (l : list nat) : list nat := filter (fun x => negb (Nat.eqb x k)) l.
Definition oeqb (a : option Z) (k : Z) : bool := match a with Some x => x =? k | None => false end.

(* ankerl::unordered_dense erase: the last element moves into the hole *)
Fixpoint replace_first (k v : Z) (l : list Z) : list Z :=
  match l with [] => [] | x :: r => if x =? k then v :: r else x :: replace_first k v r end.
Definition dense_erase (k : Z) (l : list Z) : list Z :=
  if zmem k l then
    let lastv := last l 0 in
    let l' := removelast l in
    if lastv =? k then l' else replace_first k lastv l'
  else l.
Definition dense_erase_at {A} (i : nat) (l : list A) : list A :=
  match rev l with
  | [] => []
  | lastv :: _ => let l' := removelast l in if Nat.ltb i (length l') then set_nth i lastv l' else l'
  end.

(* insertion sorts *)
Fixpoint zins (x : Z) (l : list Z) : list Z :=
  match l with [] => [x] | y :: r => if x <=? y then x :: l else y :: zins x r end.
Definition zsort (l : list Z) : list Z := fold_right zins [] l.
Fixpoint pins (x : Z * Z) (l : list (Z * Z)) : list (Z * Z) :=
  match l with [] => [x] | y :: r => if fst x <=? fst y then x :: l else y :: pins x r end.
Definition psort (l : list (Z * Z)) : list (Z * Z) := fold_right pins [] l.
Definition rle (a b : Z * nat) : bool :=
  (fst a <? fst b) || ((fst a =? fst b) && Nat.leb (snd a) (snd b)).
Fixpoint rins (x : Z * nat) (l : list (Z * nat)) : list (Z * nat) :=
  match l with [] => [x] | y :: r => if rle x y then x :: l else y :: rins x r end.
Definition rsort (l : list (Z * nat)) : list (Z * nat) := fold_right rins [] l.
Fixpoint flat (l : list (Z * Z)) : list Z := match l with [] => [] | (a, b) :: r => a :: b :: flat r end.

(* node indices of the child graph (observed: tag, probe, nothing, mesh_subscribe x2, comb) *)
Definition N_TAG := 0%nat. Definition N_PROBE := 1%nat. Definition N_SUB1 := 3%nat.
Definition N_SUB2 := 4%nat. Definition N_COMB := 5%nat. Definition N_COUNT := 6%nat.
Definition E_CYCLE : Z := 3. Definition E_SETTLE : Z := 4. Definition E_FUEL : Z := 9.
Definition MODULUS : Z := 1000003.

Definition no_sub : sub := mkSub false 0 None None.
Definition new_child (t : Z) (ib : list bool) : child :=
  mkChild t MAX_DT (repeat MIN_DT N_COUNT) 0 false true no_sub no_sub false 0 ib.
Definition empty_mesh (fx : bool) : mesh :=
  mkMesh fx [] [] [] [] false 0 [] [] [] MIN_DT [] [] [] 0 false [] [] [] [] MIN_DT MAX_DT [] 0 false.

Definition emit (l : line) (m : mesh) : mesh := set_m_ev (l :: m_ev m) m.
Definition failed (m : mesh) : bool := negb (m_err m =? 0).
Definition raise (code : Z) (m : mesh) : mesh := if failed m then m else set_m_err code m.

Definition dict_of (w : nat) (m : mesh) : list (Z * Z) :=
  match w with O => m_d0 m | S O => m_d1 m | _ => m_d2 m end.

(* ------------------------------------------------------------------ the slot store *)
Definition get_entry (m : mesh) (slot : nat) : option entry := nth slot (m_entries m) None.
Definition put_entry (slot : nat) (e : entry) (m : mesh) : mesh :=
  set_m_entries (set_nth slot (Some e) (m_entries m)) m.
Definition upd_entry (slot : nat) (f : entry -> entry) (m : mesh) : mesh :=
  match get_entry m slot with Some e => put_entry slot (f e) m | None => m end.
Definition upd_child (slot : nat) (f : child -> child) (m : mesh) : mesh :=
  upd_entry slot (fun e => set_e_child (f (e_child e)) e) m.
Definition get_sub (c : child) (w : nat) : sub := if Nat.eqb w 1 then c_sub1 c else c_sub2 c.
Definition upd_sub (slot w : nat) (f : sub -> sub) (m : mesh) : mesh :=
  upd_child slot (fun c => if Nat.eqb w 1 then set_c_sub1 (f (c_sub1 c)) c else set_c_sub2 (f (c_sub2 c)) c) m.

Definition live_key (k : Z) (oe : option entry) : bool :=
  match oe with Some e => e_live e && (e_key e =? k) | None => false end.
Fixpoint find_from (k : Z) (i : nat) (l : list (option entry)) : option nat :=
  match l with [] => None | oe :: r => if live_key k oe then Some i else find_from k (S i) r end.
Definition find_slot (m : mesh) (k : Z) : option nat := find_from k 0 (m_entries m).
Definition find_entry (m : mesh) (k : Z) : option entry :=
  match find_slot m k with Some s => get_entry m s | None => None end.
Definition live_count (m : mesh) : nat :=
  length (filter (fun oe => match oe with Some e => e_live e | None => false end) (m_entries m)).
Definition pending_key (k : Z) (m : mesh) : bool :=
  existsb (fun oe => match oe with Some e => negb (e_live e) && (e_key e =? k) | None => false end) (m_entries m).

(* KeySlotStore::acquire_free_slot: pop the free stack, growing the capacity when it is empty *)
Definition acquire (m : mesh) : mesh * nat :=
  match m_free m with
  | s :: r => (set_m_free r m, s)
  | [] =>
      let newcap := Nat.max (S (live_count m)) (Nat.max 8 (2 * m_cap m)) in
      let fresh := seq (m_cap m) (newcap - m_cap m) in
      let m1 := set_m_entries (m_entries m ++ repeat None (newcap - m_cap m)) (set_m_cap newcap m) in
      match fresh with
      | s :: r => (set_m_free r m1, s)
      | [] => (m1, m_cap m)
      end
  end.

(* ------------------------------------------------------------------ `dependents` (dense map, insertion order) *)
Fixpoint dep_index (d : Z) (i : nat) (l : list (Z * list Z)) : option nat :=
  match l with [] => None | (x, _) :: r => if x =? d then Some i else dep_index d (S i) r end.
Definition dep_find (m : mesh) (d : Z) : option nat := dep_index d 0 (m_deps m).
Definition dep_set (m : mesh) (d : Z) : list Z :=
  match dep_find m d with Some i => snd (nth i (m_deps m) (0, [])) | None => [] end.
Definition has_dependents (m : mesh) (k : Z) : bool := negb (Nat.eqb (length (dep_set m k)) 0).
Definition dep_insert (d k : Z) (m : mesh) : mesh :=
  match dep_find m d with
  | None => set_m_deps (m_deps m ++ [(d, [k])]) m
  | Some i => set_m_deps (update i (fun p => (fst p, zadd k (snd p))) (m_deps m)) m
  end.
Definition queue_removal (d : Z) (m : mesh) : mesh := set_m_torem (m_torem m ++ [d]) m.
(* MeshNodeView::remove_dependency *)
Definition remove_dependency (k d : Z) (m : mesh) : mesh :=
  match dep_find m d with
  | None => m
  | Some i =>
      let s' := dense_erase k (dep_set m d) in
      match s' with
      | [] => queue_removal d (set_m_deps (dense_erase_at i (m_deps m)) m)
      | _ => set_m_deps (set_nth i (d, s') (m_deps m)) m
      end
  end.
(* remove_requester_edges: walk the dense map erasing the requester, queueing emptied dependencies *)
Fixpoint requester_edges (fuel i : nat) (k : Z) (m : mesh) : mesh :=
  match fuel with
  | O => m
  | S f =>
      match nth_error (m_deps m) i with
      | None => m
      | Some (d, s) =>
          match dense_erase k s with
          | [] => requester_edges f i k (queue_removal d (set_m_deps (dense_erase_at i (m_deps m)) m))
          | s' => requester_edges f (S i) k (set_m_deps (set_nth i (d, s') (m_deps m)) m)
          end
      end
  end.

(* ------------------------------------------------------------------ scheduling of child nodes *)
Definition note_rank (slot : nat) (m : mesh) : mesh :=
  match get_entry m slot with Some e => set_m_pmin (Z.min (m_pmin m) (e_rank e)) m | None => m end.
Definition add_cand (slot : nat) (m : mesh) : mesh :=
  let m1 := set_m_cand (nadd slot (m_cand m)) m in if m_fix m then note_rank slot m1 else m1.

(* graph.cpp nested_schedule_node_impl (+ schedule_node_impl, + the mesh child_schedule_observer) *)
Definition schedule (slot node : nat) (t : Z) (m : mesh) : mesh :=
  match get_entry m slot with
  | None => m
  | Some e =>
      let c := e_child e in
      if negb (c_started c) then m else
      let cur := c_clock c in
      let sl := nth node (c_slots c) MIN_DT in
      let c1 := if (sl <=? cur) || (t <? sl)
                then let c' := set_c_slots (set_nth node t (c_slots c)) c in
                     if (cur <? t) && (t <? c_cache c) then set_c_cache t c' else c'
                else c in
      let idle := negb (c_evalg c) in
      let c2 := if idle && (t <? c_cache c1) then set_c_cache t c1 else c1 in
      let m1 := put_entry slot (set_e_child c2 e) m in
      if negb idle then m1 else
      if t <=? m_now m then add_cand slot m1 else m1
  end.

(* add_mesh_evaluation_slot *)
Definition add_slot (os : option nat) (m : mesh) : mesh :=
  match os with
  | None => m
  | Some s => match get_entry m s with Some e => if e_live e then add_cand s m else m | None => m end
  end.

(* a tick of the mesh output element [k]: every mesh_subscribe whose value input is bound to it, and every comb
   reading it through a forwarding link, is scheduled *)
Definition tick_reader (k : Z) (t : Z) (m : mesh) (slot : nat) : mesh :=
  match get_entry m slot with
  | None => m
  | Some e =>
      if negb (e_live e) then m else
      let c := e_child e in
      let m1 := if oeqb (sb_vb (c_sub1 c)) k then schedule slot N_SUB1 t m else m in
      let m2 := if oeqb (sb_ob (c_sub1 c)) k then schedule slot N_COMB t m1 else m1 in
      let m3 := if oeqb (sb_vb (c_sub2 c)) k then schedule slot N_SUB2 t m2 else m2 in
      if oeqb (sb_ob (c_sub2 c)) k then schedule slot N_COMB t m3 else m3
  end.
Definition element_tick (k t : Z) (m : mesh) : mesh := fold_left (tick_reader k t) (seq 0 (m_cap m)) m.

(* ------------------------------------------------------------------ instance lifecycle *)
Definition create_instance (k rank t : Z) (m : mesh) : mesh :=
  match find_slot m k with
  | Some _ => m
  | None =>
      let m0 := if pending_key k m then set_m_oob true m else m in       (* resurrection: not modelled *)
      let '(m1, slot) := acquire m0 in
      let ib := [zhas k (m_d0 m); zhas k (m_d1 m); zhas k (m_d2 m)] in
      let e := mkEntry k rank true MIN_DT (new_child t ib) true in
      let m2 := set_m_outel (zadd k (m_outel m1)) (put_entry slot e m1) in
      let m3 := schedule slot N_COMB t (schedule slot N_PROBE t (schedule slot N_TAG t m2)) in
      let m4 := if nth 1 ib false then schedule slot N_SUB1 t m3 else m3 in
      let m5 := if nth 2 ib false then schedule slot N_SUB2 t m4 else m4 in
      set_m_maxrank (Z.max (m_maxrank m5) rank) (add_slot (Some slot) m5)
  end.

Definition remove_instance (k t : Z) (m : mesh) : mesh :=
  match find_slot m k with
  | None => m
  | Some slot =>
      let m1 := if zmem k (m_outel m)
                then set_m_modified (zdel k (m_modified m))
                       (set_m_removed (m_removed m ++ [k])
                          (set_m_outval (zdel k (m_outval m)) (set_m_outel (zrem k (m_outel m)) m)))
                else m in
      let m2 := requester_edges (S (length (m_deps m1))) 0 k m1 in
      let m3 := set_m_retire t (set_m_cand (nrem slot (m_cand m2)) m2) in
      set_m_perase (m_perase m3 ++ [slot])
        (upd_entry slot (fun e => set_e_live false (set_e_child (set_c_started false (e_child e)) e)) m3)
  end.

Definition erase_retired_before (t : Z) (m : mesh) : mesh :=
  match m_perase m with
  | [] => m
  | pe =>
      if (m_retire m =? MIN_DT) || (t <=? m_retire m) then m else
      set_m_retire MIN_DT
        (set_m_perase []
           (set_m_free (fold_left (fun f s => s :: f) pe (m_free m))
              (set_m_entries (fold_left (fun l s => set_nth s None l) pe (m_entries m)) m)))
  end.

Definition process_to_remove (t : Z) (m : mesh) : mesh :=
  let lst := m_torem m in
  fold_left (fun m' k => if negb (has_dependents m' k) && negb (m_kvalid m' && zmem k (m_keys m'))
                         then remove_instance k t m' else m')
            lst (set_m_torem [] m).

(* ------------------------------------------------------------------ ranking *)
Fixpoint re_rank (fuel : nat) (k d : Z) (stack : list Z) (m : mesh) : mesh :=
  match fuel with
  | O => raise E_FUEL m
  | S f =>
      match find_slot m k, find_entry m d with
      | Some ks, Some de =>
          match get_entry m ks with
          | None => m
          | Some ke =>
              if e_rank de <? e_rank ke then m else
              let r := e_rank de + 1 in
              let m1 := set_m_maxrank (Z.max (m_maxrank m) r) (put_entry ks (set_e_rank r ke) m) in
              let stack' := k :: stack in
              (fix walk (ds : list Z) (m' : mesh) : mesh :=
                 match ds with
                 | [] => m'
                 | x :: rest =>
                     if failed m' then m' else
                     if zmem x stack' then raise E_CYCLE m' else walk rest (re_rank f x k stack' m')
                 end) (dep_set m1 k) m1
          end
      | _, _ => m
      end
  end.

Definition rank_fuel (m : mesh) : nat := S (S (m_cap m)).

(* MeshNodeView::add_dependency *)
Definition add_dependency (k d t : Z) (m : mesh) : mesh * bool :=
  if k =? d then (raise E_CYCLE m, false) else
  let m1 := dep_insert d k m in
  match find_entry m1 k with
  | None => (m1, false)
  | Some ke =>
      match find_entry m1 d with
      | None => let m2 := create_instance d 0 t m1 in (re_rank (rank_fuel m2) k d [] m2, false)
      | Some de =>
          if e_rank ke <=? e_rank de then (re_rank (rank_fuel m1) k d [] m1, false)
          else if e_settled de =? t then (m1, true)
          else if e_paused de then (m1, false)
          else (m1, t <? c_cache (e_child de))
      end
  end.

(* ------------------------------------------------------------------ the nodes of a child graph *)
Definition child_of (m : mesh) (slot : nat) : child :=
  match get_entry m slot with Some e => e_child e | None => new_child 0 [] end.
Definition key_of (m : mesh) (slot : nat) : Z := match get_entry m slot with Some e => e_key e | None => 0 end.

Definition sub_remove_dep (slot w : nat) (m : mesh) : mesh :=
  let sb := get_sub (child_of m slot) w in
  if sb_has sb
  then upd_sub slot w (fun s => set_sb_dep 0 (set_sb_has false s)) (remove_dependency (key_of m slot) (sb_dep sb) m)
  else m.
Definition sub_clear_links (slot w : nat) (t : Z) (m : mesh) : mesh :=
  let sb := get_sub (child_of m slot) w in
  let m1 := upd_sub slot w (set_sb_vb None) m in
  match sb_ob sb with
  | Some _ => schedule slot N_COMB t (upd_sub slot w (set_sb_ob None) m1)
  | None => m1
  end.

(* mesh_subscribe_evaluate_impl; false = pause *)
Definition sub_eval (slot w : nat) (t : Z) (m : mesh) : mesh * bool :=
  let k := key_of m slot in
  let m0 := emit [15; k; Z.of_nat w] m in
  let item := if nth w (c_ib (child_of m0 slot)) false then zlookup k (dict_of w m0) else None in
  match item with
  | None => (sub_clear_links slot w t (sub_remove_dep slot w m0), true)
  | Some j =>
      let sb := get_sub (child_of m0 slot) w in
      let m1 := if sb_has sb && (sb_dep sb =? j) then m0
                else upd_sub slot w (fun s => set_sb_has true (set_sb_dep j s))
                       (sub_clear_links slot w t (sub_remove_dep slot w m0)) in
      let '(m2, ok) := add_dependency k j t m1 in
      if failed m2 then (m2, false) else
      if negb ok then (m2, false) else
      if zmem j (m_outel m2) then
        let sb2 := get_sub (child_of m2 slot) w in
        let changed := negb (oeqb (sb_ob sb2) j) in
        let m3 := upd_sub slot w (fun s => set_sb_ob (Some j) (set_sb_vb (Some j) s)) m2 in
        (if zhas j (m_outval m3) && changed then schedule slot N_COMB t m3 else m3, true)
      else (sub_clear_links slot w t m2, true)
  end.

Definition probe_eval (slot : nat) (t : Z) (m : mesh) : mesh :=
  let k := key_of m slot in
  let c := child_of m slot in
  match (if nth 0 (c_ib c) false then zlookup k (m_d0 m) else None) with
  | Some v => schedule slot N_COMB t
                (upd_child slot (fun c' => set_c_pval v (set_c_pvalid true c')) (emit [12; k; v] m))
  | None => m
  end.

Definition read_dep (m : mesh) (sb : sub) : Z * Z :=
  match sb_ob sb with
  | Some j => match zlookup j (m_outval m) with Some v => (1, v) | None => (0, 0) end
  | None => (0, 0)
  end.

Definition comb_eval (slot : nat) (t : Z) (m : mesh) : mesh :=
  let k := key_of m slot in
  let c := child_of m slot in
  let a := if c_pvalid c then c_pval c else 0 in
  let '(v1, d1) := read_dep m (c_sub1 c) in
  let '(v2, d2) := read_dep m (c_sub2 c) in
  let r := Z.rem (a + 3 * d1 + 7 * d2) MODULUS in
  let m1 := emit [13; k; b2z (c_pvalid c); a; v1; d1; v2; d2; r] m in
  element_tick k t (set_m_modified (zput k r (m_modified m1)) (set_m_outval (zput k r (m_outval m1)) m1)).

Definition node_eval (slot node : nat) (t : Z) (m : mesh) : mesh * bool :=
  if Nat.eqb node N_PROBE then (probe_eval slot t m, true)
  else if Nat.eqb node N_SUB1 then sub_eval slot 1 t m
  else if Nat.eqb node N_SUB2 then sub_eval slot 2 t m
  else if Nat.eqb node N_COMB then (comb_eval slot t m, true)
  else (m, true).

(* graph.cpp evaluate_impl of a nested graph: the node loop from the cursor; false = paused *)
Definition finish_child (slot : nat) (m : mesh) : mesh :=
  emit [16; key_of m slot] (upd_child slot (fun c => set_c_evalg false (set_c_cursor 0 c)) m).
Fixpoint node_loop (fuel slot : nat) (t : Z) (m : mesh) : mesh * bool :=
  match fuel with
  | O => (finish_child slot m, true)
  | S f =>
      let c := child_of m slot in
      let cur := c_cursor c in
      if Nat.leb N_COUNT cur then (finish_child slot m, true) else
      let s := nth cur (c_slots c) MIN_DT in
      if s =? t then
        let '(m1, ok) := node_eval slot cur t m in
        if failed m1 then (emit [16; key_of m1 slot] m1, false) else
        if ok then node_loop f slot t (upd_child slot (fun c' => set_c_cursor (S cur) c') m1)
        else (emit [16; key_of m1 slot] (upd_child slot (set_c_evalg false) m1), false)
      else
        let m1 := if t <? s then upd_child slot (fun c' => set_c_cache (Z.min (c_cache c') s) c') m else m in
        node_loop f slot t (upd_child slot (fun c' => set_c_cursor (S cur) c') m1)
  end.

Definition child_eval (slot : nat) (t : Z) (m : mesh) : mesh * bool :=
  let c := child_of m slot in
  let resuming := negb (Nat.eqb (c_cursor c) 0) in
  let m1 := upd_child slot (fun c' => set_c_evalg true (set_c_clock t c')) m in
  let m2 := if resuming then m1
            else emit [11; key_of m slot] (upd_child slot (fun c' => set_c_cursor 0 (set_c_cache MAX_DT c')) m1) in
  node_loop (S N_COUNT) slot t m2.

(* bind_instance_inputs in the settle loop: a boundary input whose dictionary element appeared / went away *)
Definition bind_one (slot w node : nat) (t : Z) (m : mesh) : mesh :=
  let want := zhas (key_of m slot) (dict_of w m) in
  if Bool.eqb want (nth w (c_ib (child_of m slot)) false) then m
  else schedule slot node t (upd_child slot (fun c => set_c_ib (set_nth w want (c_ib c)) c) m).
Definition bind_inputs (slot : nat) (t : Z) (m : mesh) : mesh :=
  bind_one slot 2 N_SUB2 t (bind_one slot 1 N_SUB1 t (bind_one slot 0 N_PROBE t m)).

(* ------------------------------------------------------------------ the settle loop *)
Inductive verdict := Skipped | Evaluated | Deferred.

(* the body of `for (const auto &ranked : storage.evaluation_order)` for one entry *)
Definition process_entry (slot : nat) (t : Z) (m : mesh) : mesh * verdict :=
  match get_entry m slot with
  | None => (m, Skipped)
  | Some e =>
      if negb (e_live e) then (m, Skipped) else
      if e_settled e =? t then (m, Skipped) else
      if m_fix m && (m_pmin m <? e_rank e) then (m, Deferred) else
      let m1 := bind_inputs slot t m in
      match get_entry m1 slot with
      | None => (m1, Skipped)
      | Some e1 =>
          let due := c_cache (e_child e1) <=? t in
          if negb due && negb (e_paused e1) then (m1, Skipped) else
          let m2 := upd_entry slot (set_e_paused false) m1 in
          let '(m3, ok) := child_eval slot t m2 in
          if failed m3 then (m3, Evaluated) else
          if ok then (upd_entry slot (set_e_settled t) m3, Evaluated)
          else let m4 := upd_entry slot (set_e_paused true) m3 in
               ((if m_fix m4 then note_rank slot m4 else m4), Evaluated)
      end
  end.

(* one pass over the snapshot; returns (state, evaluated, deferred) *)
Fixpoint pass (order : list (Z * nat)) (t : Z) (m : mesh) (ev : bool) : mesh * bool * bool :=
  match order with
  | [] => (m, ev, false)
  | (_, slot) :: rest =>
      let '(m1, v) := process_entry slot t m in
      if failed m1 then (m1, true, false) else
      match v with
      | Deferred => (m1, ev, true)
      | Evaluated => pass rest t m1 true
      | Skipped => pass rest t m1 ev
      end
  end.

(* materialize_mesh_evaluation_order *)
Definition snapshot (m : mesh) : list (Z * nat) :=
  rsort (flat_map (fun s => match get_entry m s with
                            | Some e => if e_live e then [(e_rank e, s)] else []
                            | None => [] end) (m_cand m)).

Fixpoint settle_loop (fuel : nat) (guard : nat) (t : Z) (m : mesh) : mesh :=
  match fuel with
  | O => raise E_FUEL m
  | S f =>
      let order := snapshot m in
      let '(m1, evaluated, deferred) := pass order t (set_m_pmin MAX_DT m) false in
      if failed m1 then m1 else
      if Nat.ltb (live_count m1 + 64) (S guard) then raise E_SETTLE m1 else
      if evaluated || deferred then settle_loop f (S guard) t m1 else m1
  end.

(* mesh_evaluate_impl.  [added]/[removedk]: the key-set delta of this cycle; [mods]: keys whose element of
   val / link1 / link2 was set or erased this cycle *)
Definition create_missing (t : Z) (m : mesh) (ks : list Z) : mesh :=
  fold_left (fun m' k => match find_slot m' k with None => create_instance k (m_maxrank m') t m' | Some _ => m' end) ks m.
Definition remove_undepended (t : Z) (m : mesh) (ks : list Z) : mesh :=
  fold_left (fun m' k => if has_dependents m' k then m' else remove_instance k t m') ks m.
Definition stale_keys (m : mesh) : list Z :=
  flat_map (fun oe => match oe with
                      | Some e => if e_live e && negb (zmem (e_key e) (m_keys m)) && negb (has_dependents m (e_key e))
                                  then [e_key e] else []
                      | None => [] end) (m_entries m).

Definition mesh_eval (fuel : nat) (t : Z) (added removedk mods : list Z) (m : mesh) : mesh :=
  let m0 := erase_retired_before t m in
  if negb (m_kvalid m0) then m0 else
  let m1 := if negb (m_primed m0)
            then set_m_primed true (create_missing t (fold_left (fun m' k => remove_instance k t m') (stale_keys m0) m0) (m_keys m0))
            else remove_undepended t (create_missing t m0 added) removedk in
  let m2 := process_to_remove t m1 in
  let m3 := fold_left (fun m' k => add_slot (find_slot m' k) m') mods m2 in
  let m4 := settle_loop fuel 0 t m3 in
  if failed m4 then m4 else
  set_m_cand [] (process_to_remove t m4).

(* ------------------------------------------------------------------ the run: sources, cycles, printing *)
Record op := mkOp { o_which : Z; o_t : Z; o_code : Z; o_key : Z; o_val : Z }.
Record hdr := mkHdr { h_start : Z; h_end : Z; h_explicit : Z; h_ops : list op }.

Fixpoint decode (w : wire) (h : hdr) : hdr :=
  match w with
  | [] => h
  | l :: r =>
      let h' :=
        match l with
        | 1 :: a :: b :: _ => mkHdr a b (h_explicit h) (h_ops h)
        | 2 :: e :: _ => mkHdr (h_start h) (h_end h) e (h_ops h)
        | 3 :: wh :: t :: c :: k :: v :: _ =>
            if (0 <=? wh) && (wh <=? 3) then mkHdr (h_start h) (h_end h) (h_explicit h) (h_ops h ++ [mkOp wh t c k v]) else h
        | _ => h
        end in
      decode r h'
  end.

Fixpoint zdedup (l : list Z) : list Z :=
  match l with [] => [] | x :: r => if zmem x r then zdedup r else x :: zdedup r end.

(* the three dictionary sources and the key-set source at one engine time; returns
   (state, ticked, added keys, removed keys, modified element keys) *)
Definition apply_op (acc : mesh * bool * list Z * list Z * list Z) (o : op)
  : mesh * bool * list Z * list Z * list Z :=
  let '(m, tk, ad, rm, md) := acc in
  let k := o_key o in
  if o_which o =? 3 then
    if (o_code o =? 1) && negb (zmem k (m_keys m)) then (set_m_kvalid true (set_m_keys (m_keys m ++ [k]) m), true, ad ++ [k], rm, md)
    else if (o_code o =? 2) && zmem k (m_keys m) then (set_m_keys (zrem k (m_keys m)) m, true, ad, rm ++ [k], md)
    else acc
  else
    let w := Z.to_nat (o_which o) in
    let d := dict_of w m in
    let setd := fun d' => match w with O => set_m_d0 d' m | S O => set_m_d1 d' m | _ => set_m_d2 d' m end in
    if o_code o =? 1 then (setd (zput k (o_val o) d), true, ad, rm, md ++ [k])
    else if (o_code o =? 2) && zhas k d then (setd (zdel k d), true, ad, rm, md ++ [k])
    else acc.

(* union of the dictionary key sets (no explicit __keys__): keys in order of first appearance *)
Definition union_keys (ops : list op) (acc : mesh * bool * list Z * list Z * list Z) : mesh * bool * list Z * list Z * list Z :=
  let '(m, tk, ad, rm, md) := acc in
  let '(m1, ad1) := fold_left (fun (p : mesh * list Z) o =>
                                 let '(m', a) := p in
                                 if (o_which o <=? 2) && (o_code o =? 1) && negb (zmem (o_key o) (m_keys m'))
                                 then (set_m_kvalid true (set_m_keys (m_keys m' ++ [o_key o]) m'), a ++ [o_key o]) else p)
                              ops (m, ad) in
  let gone := filter (fun k => negb (zhas k (m_d0 m1) || zhas k (m_d1 m1) || zhas k (m_d2 m1))) (m_keys m1) in
  let m2 := set_m_keys (filter (fun k => negb (zmem k gone)) (m_keys m1)) m1 in
  ((if tk then set_m_kvalid true m2 else m2), tk, ad1, rm ++ gone, md).

(* the source tick reaches the child inputs that are bound to the element *)
Definition notify_sources (t : Z) (ops : list op) (m : mesh) : mesh :=
  fold_left (fun m' o =>
               if 2 <? o_which o then m' else
               let w := Z.to_nat (o_which o) in
               match find_slot m' (o_key o) with
               | Some s => if nth w (c_ib (child_of m' s)) false && zhas (o_key o) (dict_of w m')
                           then schedule s (match w with O => N_PROBE | S O => N_SUB1 | _ => N_SUB2 end) t m' else m'
               | None => m'
               end) ops m.

Definition sink_lines (m : mesh) : wire :=
  match m_modified m, m_removed m with
  | [], [] => []
  | _, _ => [30 :: flat (psort (m_modified m)); 31 :: zsort (m_removed m);
             34 :: flat (psort (m_outval m)); 35 :: zsort (m_outel m)]
  end.

Definition cycle (fuel : nat) (explicit : bool) (t : Z) (ops : list op) (m : mesh) : mesh * wire :=
  let acc := fold_left apply_op ops (m, false, [], [], []) in
  let '(m1, tk, ad, rm, md) := if explicit then acc else union_keys ops acc in
  if negb tk then (m1, []) else
  let m2 := set_m_removed [] (set_m_modified [] (set_m_ev [] (set_m_now t m1))) in
  let m3 := notify_sources t ops m2 in
  let m4 := mesh_eval fuel t ad rm md m3 in
  let body := rev (m_ev m4) ++ (if failed m4 then [] else sink_lines m4) in
  let out := match body with [] => [] | _ => [10; t] :: body end in
  (m4, if m_oob m4 then [[99]] else if failed m4 then out ++ [[19; m_err m4]] else out).

Fixpoint drive (fuel : nat) (explicit : bool) (times : list Z) (ops : list op) (m : mesh) : wire :=
  match times with
  | [] => []
  | t :: rest =>
      let '(m1, out) := cycle fuel explicit t (filter (fun o => o_t o =? t) ops) m in
      if failed m1 then out else out ++ drive fuel explicit rest ops m1
  end.

Definition run_mesh_with (fx : bool) (w : wire) : wire :=
  let h := decode w (mkHdr 1 10 0 []) in
  if (h_start h <? 1) || (h_end h <=? h_start h) || (1000000 <? h_end h) then [[19; 1]] else
  let ops := filter (fun o => (h_start h <=? o_t o) && (o_t o <? h_end h)) (h_ops h) in   (* the engine stops before end_time *)
  let times := zsort (zdedup (map o_t ops)) in
  let nk := length (zdedup (map o_key ops ++ map o_val ops)) in
  let out := drive (nk + 70) (negb (h_explicit h =? 0)) times ops (empty_mesh fx) in
  (* [99]: an instance was re-created while its slot was still pending erase (resurrection of the stopped child
     graph) - outside the modelled domain, the whole case is answered [[99]] *)
  if existsb (fun l => match l with [99] => true | _ => false end) out then [[99]] else out.

(* the model of the tree as it is (repaired settle loop, /repo commit 1c89b1b) *)
Definition run_mesh (w : wire) : wire := run_mesh_with true w.
(* the settle loop before that commit: the refuted variant, and the mutant mesh_unfixed_settle_snapshot *)
Definition run_mesh_old (w : wire) : wire := run_mesh_with false w.
