(* Switch.v — property C12.  Two models and the wire decoding.

   (1) MIRROR of src/hgraph/runtime/switch_node.cpp (SwitchNodeStorage: two
       fixed graph slots, active_slot / previous_slot / active_key;
       switch_evaluate, activate_branch, switch_teardown, select_branch,
       switch_node_stop) together with the pieces of the nested-graph runtime it
       drives: src/hgraph/runtime/graph.cpp nested_schedule_node_impl (push half),
       start_impl / stop_impl / evaluate_impl of a nested graph with
       propagate_nested_parent_schedule (pull half), schedule_node_impl of the
       parent for the switch node's own slot; nested_bindings.h
       bind_sampled_input_to_source / schedule_sampled_input_consumers;
       node.cpp evaluate_impl (readiness gate, scheduler advance / re-arm).
       A branch graph holds one body node.

   (2) SPECIFICATION: the switch is "the currently selected branch, alone": one
       instance, replaced by a FRESH one (state 0, empty scheduler, inputs
       sampled at the switch time) whenever the key selects; nothing of a
       replaced instance survives.

   User code of a branch is an arbitrary function [b_step]
   (state -> woke -> inputs -> state' * emitted value * timer request); the
   harness vocabulary (a table of integer parameters) is one instance, used for
   extraction.  Executable definitions only; the theorems are in SwitchFacts.v. *)
Require Import Base Sched.

(* ------------------------------------------------------------------ *)
(*  Branch bodies, sources, instances                                  *)
(* ------------------------------------------------------------------ *)

(* what user code sees of one input *)
Record inview := mkIv { v_valid : bool; v_mod : bool; v_val : Z }.

Record body := mkBody {
  b_sos  : bool;                                    (* start hook does sched.schedule(now + b_sd) *)
  b_sd   : Z;                                       (* 0: arm for the start cycle itself; > 0: a later timer *)
  b_step : Z -> bool -> list inview -> Z * option Z * option Z }.

Record branch := mkBr { br_usekey : bool; br_body : body }.

Record swspec := mkSw {
  s_nts     : nat;                                  (* number of time-series arguments (0..2) *)
  s_reload  : bool;                                 (* reload_on_ticked *)
  s_cases   : list (Z * branch);
  s_default : option branch;
  s_set     : bool }.                               (* output shape: false = TS<int>, true = TSS<int> *)

(* an outer output: value (None = not valid) and last modified time *)
Definition srcv := (option Z * Z)%type.
Definition no_src : srcv := (None, MIN_DT).

(* ---- the switch-owned output ----
   Scalar shape: [o_val].  Set shape (TSS<int>): [o_set] are the members (sorted,
   duplicate free), [o_old] the members before the first mutation of the cycle
   [o_lmt] — the delta of that cycle is the difference of the two (a member
   removed and re-added in one cycle is in neither added nor removed, as in
   TSSDataMutationView).  Every mutation, even one that changes nothing (adding a
   present member, clearing an empty set), marks the output modified. *)
Record outv := mkO { o_val : option Z; o_set : list Z; o_old : list Z; o_valid : bool; o_lmt : Z }.
Definition out0 : outv := mkO None [] [] false MIN_DT.

Fixpoint set_ins (v : Z) (l : list Z) : list Z :=
  match l with
  | [] => [v]
  | x :: r => if v <? x then v :: l else if v =? x then l else x :: set_ins v r
  end.
Definition mem (v : Z) (l : list Z) : bool := existsb (Z.eqb v) l.

(* begin_mutation(t): the first mutation of a cycle starts a new delta *)
Definition touch (t : Z) (o : outv) : outv :=
  if o_lmt o <? t then mkO (o_val o) (o_set o) (o_set o) true t else mkO (o_val o) (o_set o) (o_old o) true t.

(* a branch body's emission written through the forwarding terminal into the switch output:
   out.set(v) for a scalar, out.add(v) for a set *)
Definition emit_out (setsh : bool) (t v : Z) (o : outv) : outv :=
  if setsh then let o1 := touch t o in mkO (o_val o1) (set_ins v (o_set o1)) (o_old o1) true t
  else mkO (Some v) (o_set o) (o_old o) true t.

(* switch_node.cpp reset_switch_output: clear_collection(t) for a collection output,
   nothing for a scalar TS *)
Definition reset_out (setsh : bool) (t : Z) (o : outv) : outv :=
  if setsh then let o1 := touch t o in mkO (o_val o1) [] (o_old o1) true t else o.

(* what the recording sink prints when the output ticked *)
Definition rec_line (setsh : bool) (t : Z) (o : outv) : line :=
  if setsh then
    let add := filter (fun x => negb (mem x (o_old o))) (o_set o) in
    let rem := filter (fun x => negb (mem x (o_set o))) (o_old o) in
    [21; t; 1; 1; Z.of_nat (length (o_set o)); Z.of_nat (length add); Z.of_nat (length rem)] ++ o_set o ++ add ++ rem
  else [20; t; 1; 1; match o_val o with Some v => v | None => 0 end].

(* TSInputView of a sampled-bound child input: modified at the sample time or
   when the source ticked *)
Definition view_of (now samp : Z) (s : srcv) : inview :=
  match fst s with
  | Some v => mkIv true ((samp =? now) || (snd s =? now)) v
  | None => mkIv false (samp =? now) 0
  end.

(* the outer outputs a branch is bound to: the key (when consumed) then the ts arguments *)
Definition bound_srcs (sp : swspec) (br : branch) (srcs : list srcv) : list srcv :=
  (if br_usekey br then firstn 1 srcs else []) ++ firstn (s_nts sp) (skipn 1 srcs).

(* one running instance of a branch body: user state, NodeSchedulerState, sample time *)
Record inst := mkInst { i_br : branch; i_id : Z; i_state : Z; i_sch : sched; i_samp : Z }.

Definition fresh_inst (br : branch) (id t : Z) : inst := mkInst br id 0 empty_sched t.

Definition views (sp : swspec) (now : Z) (srcs : list srcv) (i : inst) : list inview :=
  map (view_of now (i_samp i)) (bound_srcs sp (i_br i) srcs).

Definition iv_line (v : inview) : line := [b2z (v_valid v); b2z (v_mod v); v_val v].

(* select_branch: exact key, else default, else none *)
Fixpoint find_case (k : Z) (cs : list (Z * branch)) : option branch :=
  match cs with
  | [] => None
  | (k', b) :: r => if k' =? k then Some b else find_case k r
  end.

Definition select_branch (sp : swspec) (k : Z) : option branch :=
  match find_case k (s_cases sp) with
  | Some b => Some b
  | None => s_default sp
  end.

(* ---- the body node: start hook and one evaluation (node.cpp evaluate_impl) ---- *)

(* start hook; returns the graph push of NodeScheduler::schedule *)
Definition inst_start (t : Z) (i : inst) : inst * option Z :=
  if b_sos (br_body (i_br i)) then
    let '(s', push) := schedule t false (t + b_sd (br_body (i_br i))) 0 (i_sch i) in
    (mkInst (i_br i) (i_id i) (i_state i) s' (i_samp i), push)
  else (i, None).

Record nres := mkRes {
  r_inst : inst;
  r_log  : list line;          (* oldest first *)
  r_emit : option Z;
  r_push : list Z }.           (* graph.schedule_node(self, w) calls, in order *)

Definition opt_list {A} (o : option A) : list A := match o with Some a => [a] | None => [] end.

Definition node_eval (now : Z) (ivs : list inview) (i : inst) : nres :=
  let s := i_sch i in
  let scheduled_now := is_scheduled_now now s in
  let do_eval := match ivs with [] => true | _ => forallb v_valid ivs end in
  if do_eval then
    let '(st', em, wk) := b_step (br_body (i_br i)) (i_state i) scheduled_now ivs in
    let l26 := [26; now; i_id i; i_state i; b2z scheduled_now] ++ concat (map iv_line ivs) in
    let l27 := match em with Some v => [[27; now; i_id i; v]] | None => [] end in
    let '(s1, push1, l28) :=
      match wk with
      | Some d => let '(s', p) := schedule now true (now + d) 0 s in (s', p, [[28; now; i_id i; now + d]])
      | None => (s, None, [])
      end in
    let '(s2, push2) :=
      if scheduled_now then advance now s1
      else (s1, if is_scheduled s1 then Some (next_scheduled_time s1) else None) in
    mkRes (mkInst (i_br i) (i_id i) st' s2 (i_samp i)) (l26 :: l27 ++ l28) em (opt_list push1 ++ opt_list push2)
  else
    let '(s2, push2) :=
      if scheduled_now then advance now s
      else (s, if is_scheduled s then Some (next_scheduled_time s) else None) in
    mkRes (mkInst (i_br i) (i_id i) (i_state i) s2 (i_samp i)) [] None (opt_list push2).

(* ------------------------------------------------------------------ *)
(*  Scripted sources                                                   *)
(* ------------------------------------------------------------------ *)

Definition hist := list (Z * Z * Z).                 (* (source, time, value); first entry wins *)

Definition wired (sp : swspec) (k : Z) : bool := (0 <=? k) && (k <=? Z.of_nat (s_nts sp)).

Definition tick_of (sp : swspec) (h : hist) (k t : Z) : option Z :=
  if wired sp k then
    match find (fun e => (fst (fst e) =? k) && (snd (fst e) =? t)) h with
    | Some e => Some (snd e)
    | None => None
    end
  else None.

Definition ticks_at (sp : swspec) (h : hist) (t : Z) : list (option Z) :=
  [tick_of sp h 0 t; tick_of sp h 1 t; tick_of sp h 2 t].

Definition apply_tick (t : Z) (s : srcv) (tk : option Z) : srcv :=
  match tk with Some v => (Some v, t) | None => s end.

Fixpoint apply_ticks (t : Z) (srcs : list srcv) (tks : list (option Z)) : list srcv :=
  match srcs, tks with
  | s :: r, tk :: r' => apply_tick t s tk :: apply_ticks t r r'
  | _, _ => srcs
  end.

Definition is_some {A} (o : option A) : bool := match o with Some _ => true | None => false end.

(* earliest tick of a wired source strictly after [now] (MAX_DT when none) *)
Definition next_tick (sp : swspec) (h : hist) (now : Z) : Z :=
  fold_left (fun acc e => let t := snd (fst e) in
                          if wired sp (fst (fst e)) && (now <? t) && (t <? acc) then t else acc) h MAX_DT.

(* did an outer output this branch is bound to tick? *)
Definition bound_ticked (sp : swspec) (br : branch) (tks : list (option Z)) : bool :=
  existsb is_some ((if br_usekey br then firstn 1 tks else []) ++ firstn (s_nts sp) (skipn 1 tks)).

(* ------------------------------------------------------------------ *)
(*  (2) SPECIFICATION: the selected branch, alone                      *)
(* ------------------------------------------------------------------ *)

(* a lone instance is evaluated when its own timer is due or an input ticked
   (or was just sampled) *)
Definition due (now : Z) (ivs : list inview) (i : inst) : bool :=
  is_scheduled_now now (i_sch i) || existsb (fun v => v_valid v && v_mod v) ivs.

Definition alone_cycle (sp : swspec) (t : Z) (srcs : list srcv) (i : inst) : inst * option Z :=
  let ivs := views sp t srcs i in
  if due t ivs i then let r := node_eval t ivs i in (r_inst r, r_emit r) else (i, None).

Record sst := mkS {
  s_now   : Z;
  s_srcs  : list srcv;
  s_cur   : option (Z * inst);       (* selected key and the one live instance *)
  s_ninst : Z;
  s_out   : outv;                    (* the output container *)
  s_outs  : list line;               (* what a recorder on the output sees, newest first *)
  s_cycles : list Z;                 (* cycle times, newest first *)
  s_err   : Z }.

Definition key_tick (srcs : list srcv) (t : Z) : option Z :=
  match srcs with
  | (Some k, lm) :: _ => if lm =? t then Some k else None
  | _ => None
  end.

Definition need_switch (sp : swspec) (cur : option Z) (k : Z) : bool :=
  match cur with
  | None => true
  | Some k0 => s_reload sp || negb (k =? k0)
  end.

(* a key tick that selects replaces the instance by a fresh, started one; whatever
   the replaced instance had published in a collection output is removed *)
Definition spec_switch (sp : swspec) (t : Z) (s : sst) : sst :=
  match key_tick (s_srcs s) t with
  | Some k =>
      if need_switch sp (option_map fst (s_cur s)) k then
        match select_branch sp k with
        | Some br =>
            mkS (s_now s) (s_srcs s) (Some (k, fst (inst_start t (fresh_inst br (s_ninst s) t))))
                (s_ninst s + 1)
                (match s_cur s with Some _ => reset_out (s_set sp) t (s_out s) | None => s_out s end)
                (s_outs s) (s_cycles s) (s_err s)
        | None => mkS (s_now s) (s_srcs s) (s_cur s) (s_ninst s) (s_out s) (s_outs s) (s_cycles s) 2
        end
      else s
  | None => s
  end.

(* the one live instance runs alone and writes the output *)
Definition spec_eval (sp : swspec) (t : Z) (s : sst) : sst :=
  match s_cur s with
  | None => s
  | Some (k, i) =>
      let '(i', em) := alone_cycle sp t (s_srcs s) i in
      mkS (s_now s) (s_srcs s) (Some (k, i')) (s_ninst s)
          (match em with Some v => emit_out (s_set sp) t v (s_out s) | None => s_out s end)
          (s_outs s) (s_cycles s) (s_err s)
  end.

(* a recorder on the output *)
Definition spec_rec (sp : swspec) (t : Z) (s : sst) : sst :=
  if o_lmt (s_out s) =? t
  then mkS (s_now s) (s_srcs s) (s_cur s) (s_ninst s) (s_out s) (rec_line (s_set sp) t (s_out s) :: s_outs s)
           (s_cycles s) (s_err s)
  else s.

Definition spec_cycle (sp : swspec) (h : hist) (t : Z) (s : sst) : sst :=
  let s0 := mkS t (apply_ticks t (s_srcs s) (ticks_at sp h t)) (s_cur s) (s_ninst s) (s_out s) (s_outs s)
                (t :: s_cycles s) (s_err s) in
  let s1 := spec_switch sp t s0 in
  if negb (s_err s1 =? 0) then s1 else spec_rec sp t (spec_eval sp t s1).

Definition inst_wake (now : Z) (i : inst) : Z :=
  match events (i_sch i) with
  | e :: _ => if now <? fst e then fst e else MAX_DT
  | [] => MAX_DT
  end.

Definition spec_next (sp : swspec) (h : hist) (s : sst) : Z :=
  Z.min (next_tick sp h (s_now s))
        (match s_cur s with Some (_, i) => inst_wake (s_now s) i | None => MAX_DT end).

Fixpoint spec_loop (sp : swspec) (h : hist) (end_ : Z) (fuel : nat) (s : sst) : sst :=
  match fuel with
  | O => mkS (s_now s) (s_srcs s) (s_cur s) (s_ninst s) (s_out s) (s_outs s) (s_cycles s) 9
  | S f =>
      if negb (s_err s =? 0) then s else
      let next := spec_next sp h s in
      if (next =? MAX_DT) || (end_ <=? next) then s else
      spec_loop sp h end_ f (spec_cycle sp h next s)
  end.

Definition init_srcs : list srcv := [no_src; no_src; no_src].
Definition spec_init (start : Z) : sst := mkS (start - 1) init_srcs None 0 out0 [] [] 0.
Definition spec_run (sp : swspec) (h : hist) (start end_ : Z) (fuel : nat) : sst :=
  spec_loop sp h end_ fuel (spec_init start).

(* ------------------------------------------------------------------ *)
(*  (1) MIRROR of switch_node.cpp and the nested graph runtime         *)
(* ------------------------------------------------------------------ *)

(* a constructed branch graph (GraphValue in a slot) with its one body node *)
Record child := mkChild {
  c_inst    : inst;
  c_started : bool;          (* graph started; node started, its inputs subscribed *)
  c_slot    : Z;             (* graph_schedule[0] *)
  c_nst     : Z;             (* next_scheduled_time cache *)
  c_etime   : Z }.           (* the child graph's own evaluation_time *)

Definition set_inst (i : inst) (c : child) : child := mkChild i (c_started c) (c_slot c) (c_nst c) (c_etime c).
Definition set_nst (n : Z) (c : child) : child := mkChild (c_inst c) (c_started c) (c_slot c) n (c_etime c).

(* graph.cpp nested_schedule_node_impl (with schedule_node_impl inlined).
   [evaluating]: the child is inside its own evaluate.  Returns the child, the
   push to the parent (parent.graph().schedule_node(parent, when)), and whether
   "cannot schedule a node in the past" was thrown. *)
Definition child_schedule (evaluating : bool) (pnow when : Z) (c : child) : child * option Z * bool :=
  let w := Z.max when pnow in
  if w <? c_etime c then (c, None, true) else
  let c1 :=
    if (c_slot c <=? c_etime c) || (w <? c_slot c)
    then mkChild (c_inst c) (c_started c) w
                 (if (c_etime c <? w) && (w <? c_nst c) then w else c_nst c) (c_etime c)
    else c in
  let c2 := if c_started c && negb evaluating && (w <? c_nst c1) then set_nst w c1 else c1 in
  if negb (c_started c) || evaluating then (c2, None, false) else (c2, Some w, false).

(* make_nested_graph: a constructed, not yet started graph; inputs bound sampled at t *)
Definition new_child (br : branch) (id t : Z) : child :=
  mkChild (fresh_inst br id t) false MIN_DT MAX_DT MIN_DT.

(* graph.cpp start_impl (nested) + node.cpp start_impl of the body node *)
Definition child_start (t : Z) (c : child) : child :=
  if c_started c then c else
  let c0 := mkChild (c_inst c) false (c_slot c) (c_nst c) t in
  let '(i', push) := inst_start t (c_inst c0) in
  let c1 := set_inst i' c0 in
  let c2 := match push with Some w => fst (fst (child_schedule false t w c1)) | None => c1 end in
  let nst := if (t <=? c_slot c2) && (c_slot c2 <? MAX_DT) then c_slot c2 else MAX_DT in
  mkChild (c_inst c2) true (c_slot c2) nst t.

(* nested_bindings.h schedule_sampled_input_consumers: one schedule_node per
   binding whose target is active and valid *)
Fixpoint sample_consumers (t : Z) (ivs : list inview) (c : child) : child * list Z :=
  match ivs with
  | [] => (c, [])
  | v :: r =>
      if v_valid v then
        let '(c1, p, _) := child_schedule false t t c in
        let '(c2, ps) := sample_consumers t r c1 in (c2, opt_list p ++ ps)
      else sample_consumers t r c
  end.

(* graph.cpp stop_impl *)
Definition child_stop (t : Z) (c : child) : child * bool :=
  if negb (c_started c) then (c, false) else
  if t <? c_etime c then (c, true) else
  (mkChild (c_inst c) false (c_slot c) (c_nst c) t, false).

Record cres := mkCres {
  cr_child : child;
  cr_log   : list line;       (* oldest first *)
  cr_emit  : option Z;
  cr_push  : option Z;        (* propagate_nested_parent_schedule *)
  cr_err   : Z }.

Fixpoint push_all (t : Z) (ws : list Z) (c : child) : child * bool :=
  match ws with
  | [] => (c, false)
  | w :: r =>
      let '(c1, _, e) := child_schedule true t w c in
      if e then (c1, true) else push_all t r c1
  end.

(* graph.cpp evaluate_impl (nested, one node, fresh cycle) *)
Definition child_evaluate (t : Z) (ivs : list inview) (c : child) : cres :=
  if negb (c_started c) then mkCres c [] None None 5 else
  let c0 := mkChild (c_inst c) true (c_slot c) MAX_DT t in
  let l24 := [24; t; i_id (c_inst c)] in
  if c_slot c0 =? t then
    let r := node_eval t ivs (c_inst c0) in
    let c1 := set_inst (r_inst r) c0 in
    let '(c2, e) := push_all t (r_push r) c1 in
    mkCres c2 (l24 :: [25; t; i_id (c_inst c); 0] :: r_log r) (r_emit r)
           (if c_nst c2 <? MAX_DT then Some (c_nst c2) else None) (if e then 3 else 0)
  else
    let c1 := if (t <? c_slot c0) && (c_slot c0 <? c_nst c0) then set_nst (c_slot c0) c0 else c0 in
    mkCres c1 [l24] None (if c_nst c1 <? MAX_DT then Some (c_nst c1) else None) 0.

(* ---- SwitchNodeStorage and the parent ---- *)
Record swst := mkW {
  w_g0 : option child; w_g1 : option child;      (* graphs[0], graphs[1] *)
  w_active : option bool;                        (* active_slot (false = 0, true = 1) *)
  w_prev   : option bool;                        (* previous_slot *)
  w_akey   : option Z }.                         (* active_key *)

Definition getg (b : bool) (w : swst) : option child := if b then w_g1 w else w_g0 w.
Definition setg (b : bool) (c : option child) (w : swst) : swst :=
  if b then mkW (w_g0 w) c (w_active w) (w_prev w) (w_akey w)
  else mkW c (w_g1 w) (w_active w) (w_prev w) (w_akey w).

Record mst := mkM {
  m_now   : Z;
  m_srcs  : list srcv;
  m_w     : swst;
  m_pslot : Z;                 (* the parent graph's schedule slot of the switch node *)
  m_ninst : Z;
  m_out   : outv;              (* the switch output *)
  m_log   : list line;         (* newest first *)
  m_err   : Z }.

Definition set_w (w : swst) (m : mst) : mst :=
  mkM (m_now m) (m_srcs m) w (m_pslot m) (m_ninst m) (m_out m) (m_log m) (m_err m).
Definition set_err (e : Z) (m : mst) : mst :=
  mkM (m_now m) (m_srcs m) (m_w m) (m_pslot m) (m_ninst m) (m_out m) (m_log m) e.
Definition add_log (ls : list line) (m : mst) : mst :=
  mkM (m_now m) (m_srcs m) (m_w m) (m_pslot m) (m_ninst m) (m_out m) (rev ls ++ m_log m) (m_err m).
Definition set_out (o : outv) (m : mst) : mst :=
  mkM (m_now m) (m_srcs m) (m_w m) (m_pslot m) (m_ninst m) o (m_log m) (m_err m).

(* graph.cpp schedule_node_impl on the parent graph, for the switch node *)
Definition parent_schedule (when : Z) (m : mst) : mst :=
  if when <? m_now m then set_err 3 m else
  if (m_pslot m <=? m_now m) || (when <? m_pslot m)
  then mkM (m_now m) (m_srcs m) (m_w m) when (m_ninst m) (m_out m) (m_log m) (m_err m)
  else m.

Definition parent_schedule_opt (w : option Z) (m : mst) : mst :=
  match w with Some t => parent_schedule t m | None => m end.

Fixpoint parent_schedule_all (ws : list Z) (m : mst) : mst :=
  match ws with [] => m | w :: r => parent_schedule_all r (parent_schedule w m) end.

(* switch_teardown (non-forwarding outputs): stop the active graph, then
   reset_switch_output when [reset] (always, from activate_branch; not from switch_node_stop) *)
Definition switch_teardown (setsh reset : bool) (t : Z) (m : mst) : mst :=
  let w := m_w m in
  match w_active w with
  | None => m
  | Some a =>
      match getg a w with
      | None => m
      | Some c =>
          let '(c', e) := child_stop t c in
          let lg := if c_started c then [[23; t; i_id (c_inst c); b2z a]] else [] in
          let w1 := setg a (Some c') w in
          let w2 := mkW (w_g0 w1) (w_g1 w1) None (Some a) None in
          let m1 := add_log lg (set_w w2 m) in
          if e then set_err 7 m1 else
          if reset then set_out (reset_out setsh t (m_out m1)) m1 else m1
      end
  end.

(* activate_branch *)
Definition activate_branch (sp : swspec) (br : branch) (k t : Z) (m : mst) : mst :=
  let w := m_w m in
  let next := match w_active w with Some a => negb a | None => false end in
  if match w_prev w with Some p => negb (Bool.eqb p next) | None => false end then set_err 4 m else
  (* storage.graphs[next_slot] = GraphValue{} destroys what the slot held: it must not be running *)
  if match getg next w with Some c => c_started c | None => false end then set_err 6 m else
  let c0 := new_child br (m_ninst m) t in
  let w1 := setg next (Some c0) (mkW (w_g0 w) (w_g1 w) (w_active w) None (w_akey w)) in
  let m1 := mkM (m_now m) (m_srcs m) w1 (m_pslot m) (m_ninst m + 1) (m_out m) (m_log m) (m_err m) in
  let m2 := switch_teardown (s_set sp) true t m1 in
  if negb (m_err m2 =? 0) then m2 else
  let w2 := m_w m2 in
  let w3 := mkW (w_g0 w2) (w_g1 w2) (Some next) (w_prev w2) (Some k) in
  let c1 := child_start t c0 in
  let ivs := views sp t (m_srcs m) (c_inst c1) in
  let '(c2, pushes) := sample_consumers t ivs c1 in
  let m3 := set_w (setg next (Some c2) w3) m2 in
  parent_schedule_all pushes (add_log [[22; t; i_id (c_inst c0); b2z next]] m3).

(* switch_evaluate, first half: a key tick (or no active branch yet) selects *)
Definition select_phase (sp : swspec) (t : Z) (m : mst) : mst :=
  match m_srcs m with
  | (Some k, lm) :: _ =>
      let w := m_w m in
      if (lm =? t) || negb (is_some (w_active w)) then
        let same_key := is_some (w_active w) && match w_akey w with Some k0 => k =? k0 | None => false end in
        if negb (is_some (w_active w)) || s_reload sp || negb same_key then
          match select_branch sp k with
          | None => set_err 2 m
          | Some br => activate_branch sp br k t m
          end
        else m
      else m
  | _ => m
  end.

(* switch_evaluate, second half: evaluate the active child graph only *)
Definition eval_phase (sp : swspec) (t : Z) (m1 : mst) : mst :=
  let w := m_w m1 in
  match w_active w with
  | None => m1
  | Some a =>
      match getg a w with
      | None => m1
      | Some c =>
          let r := child_evaluate t (views sp t (m_srcs m1) (c_inst c)) c in
          let m2 := add_log (cr_log r) (set_w (setg a (Some (cr_child r)) w) m1) in
          let m3 := match cr_emit r with Some v => set_out (emit_out (s_set sp) t v (m_out m2)) m2 | None => m2 end in
          if negb (cr_err r =? 0) then set_err (cr_err r) m3 else parent_schedule_opt (cr_push r) m3
      end
  end.

Definition switch_evaluate (sp : swspec) (t : Z) (m : mst) : mst :=
  let m1 := select_phase sp t m in
  if negb (m_err m1 =? 0) then m1 else eval_phase sp t m1.

(* notification of a started child whose bound outer output ticked *)
Definition notify_child (sp : swspec) (t : Z) (tks : list (option Z)) (b : bool) (m : mst) : mst :=
  match getg b (m_w m) with
  | Some c =>
      if c_started c && bound_ticked sp (i_br (c_inst c)) tks then
        let '(c', p, e) := child_schedule false t t c in
        let m1 := set_w (setg b (Some c') (m_w m)) m in
        if e then set_err 3 m1 else parent_schedule_opt p m1
      else m
  | None => m
  end.

(* the recording sink on the switch output runs when the output ticked *)
Definition rec_phase (sp : swspec) (t : Z) (m : mst) : mst :=
  if negb (m_err m =? 0) then m else
  if o_lmt (m_out m) =? t then add_log [rec_line (s_set sp) t (m_out m)] m else m.

(* one cycle of the root graph at time t *)
Definition mirror_cycle (sp : swspec) (h : hist) (t : Z) (m : mst) : mst :=
  let tks := ticks_at sp h t in
  let m0 := mkM t (apply_ticks t (m_srcs m) tks) (m_w m) (m_pslot m) (m_ninst m) (m_out m)
                ([10; t] :: m_log m) (m_err m) in
  let m1 := if existsb is_some tks then parent_schedule t m0 else m0 in
  let m2 := notify_child sp t tks true (notify_child sp t tks false m1) in
  if negb (m_err m2 =? 0) then m2 else
  let m3 := if m_pslot m2 =? t then switch_evaluate sp t (add_log [[11; t]] m2) else m2 in
  rec_phase sp t m3.

Definition mirror_next (sp : swspec) (h : hist) (m : mst) : Z :=
  Z.min (next_tick sp h (m_now m)) (if m_now m <? m_pslot m then m_pslot m else MAX_DT).

Fixpoint mirror_loop (sp : swspec) (h : hist) (end_ : Z) (fuel : nat) (m : mst) : mst :=
  match fuel with
  | O => set_err 9 m
  | S f =>
      if negb (m_err m =? 0) then m else
      let next := mirror_next sp h m in
      if (next =? MAX_DT) || (end_ <=? next) then m else
      mirror_loop sp h end_ f (mirror_cycle sp h next m)
  end.

Definition empty_w : swst := mkW None None None None None.
Definition mirror_init (start : Z) : mst := mkM (start - 1) init_srcs empty_w MIN_DT 0 out0 [] 0.
Definition mirror_run (sp : swspec) (h : hist) (start end_ : Z) (fuel : nat) : mst :=
  mirror_loop sp h end_ fuel (mirror_init start).

(* switch_node_stop at the end of the run (or after an escaped exception) *)
Definition finish (m : mst) : mst :=
  let e := m_err m in
  set_err e (switch_teardown false false (m_now m) (set_err 0 m)).

(* ------------------------------------------------------------------ *)
(*  Wire format (see gen/switch.py)                                    *)
(* ------------------------------------------------------------------ *)

Record bparams := mkBP {
  p_sos : bool; p_etick : bool; p_ewake : bool; p_rtick : bool; p_rwake : bool;
  p_d : Z; p_c : Z; p_m : Z; p_l : Z; p_acc : Z; p_cnt : Z; p_wk : Z;
  p_erun : bool;                     (* emit on every run of the user code, whatever caused it *)
  p_sd : Z }.                        (* delay of the timer armed in the start hook (when p_sos) *)

Definition dflt_bp : bparams := mkBP false true false false false 1 0 0 1 0 0 0 false 0.

Definition table_step (p : bparams) (st : Z) (woke : bool) (ivs : list inview) : Z * option Z * option Z :=
  let ticked := existsb (fun v => v_valid v && v_mod v) ivs in
  let sum_mod := fold_left (fun a v => if v_valid v && v_mod v then a + v_val v else a) ivs 0 in
  let sum_valid := fold_left (fun a v => if v_valid v then a + v_val v else a) ivs 0 in
  let s1 := if ticked then st + p_acc p * sum_mod + p_cnt p else st in
  let s2 := if woke then s1 + p_wk p else s1 in
  (s2,
   if p_erun p || (ticked && p_etick p) || (woke && p_ewake p) then Some (p_c p + p_m p * s2 + p_l p * sum_valid) else None,
   if (ticked && p_rtick p) || (woke && p_rwake p) then Some (p_d p) else None).

Definition table_body (p : bparams) : body := mkBody (p_sos p) (p_sd p) (table_step p).

Definition NSLOT : Z := 6.

Record dcase := mkD {
  d_start : Z; d_end : Z; d_nts : Z; d_reload : bool;
  d_ents : list (Z * Z * bool);              (* key, table slot, usekey — in file order *)
  d_dflt : option (Z * bool);
  d_tab  : list bparams;                      (* NSLOT entries *)
  d_hist : hist;
  d_shape : Z;
  d_depth : Z }.

Definition dcase0 : dcase := mkD 1 10 1 false [] None (repeat dflt_bp 6) [] 0 0.

Definition decode_line (d : dcase) (l : line) : dcase :=
  match l with
  | 1 :: s :: e :: _ => mkD s e (d_nts d) (d_reload d) (d_ents d) (d_dflt d) (d_tab d) (d_hist d) (d_shape d) (d_depth d)
  | 2 :: n :: r :: rest => mkD (d_start d) (d_end d) n (z2b r) (d_ents d) (d_dflt d) (d_tab d) (d_hist d)
                               (match rest with sh :: _ => sh | [] => 0 end)
                               (match rest with _ :: dp :: _ => dp | _ => 0 end)
  | 3 :: k :: sl :: uk :: _ =>
      mkD (d_start d) (d_end d) (d_nts d) (d_reload d) (d_ents d ++ [(k, sl, z2b uk)]) (d_dflt d) (d_tab d) (d_hist d) (d_shape d) (d_depth d)
  | 4 :: sl :: uk :: _ =>
      mkD (d_start d) (d_end d) (d_nts d) (d_reload d) (d_ents d) (Some (sl, z2b uk)) (d_tab d) (d_hist d) (d_shape d) (d_depth d)
  | 5 :: sl :: sos :: et :: ew :: rt :: rw :: dd :: c :: mm :: ll :: acc :: cnt :: wk :: rest =>
      if (0 <=? sl) && (sl <? NSLOT) then
        mkD (d_start d) (d_end d) (d_nts d) (d_reload d) (d_ents d) (d_dflt d)
            (set_nth (Z.to_nat sl) (mkBP (z2b sos) (z2b et) (z2b ew) (z2b rt) (z2b rw) dd c mm ll acc cnt wk
                                       (match rest with e :: _ => z2b e | [] => false end)
                                       (match rest with _ :: sd :: _ => sd | _ => 0 end)) (d_tab d))
            (d_hist d) (d_shape d) (d_depth d)
      else d
  | 6 :: k :: t :: v :: _ =>
      if (0 <=? k) && (k <=? 2) then
        mkD (d_start d) (d_end d) (d_nts d) (d_reload d) (d_ents d) (d_dflt d) (d_tab d) (d_hist d ++ [(k, t, v)]) (d_shape d) (d_depth d)
      else d
  | _ => d
  end.

Definition decode (w : wire) : dcase := fold_left decode_line w dcase0.

Definition slot_ok (sl : Z) : bool := (0 <=? sl) && (sl <? NSLOT).

Definition case_ok (d : dcase) : bool :=
  (0 <=? d_nts d) && (d_nts d <=? 2) && (0 <=? d_shape d) && (d_shape d <=? 1) &&
  (0 <=? d_depth d) && (d_depth d <=? 2) && ((d_depth d =? 0) || (d_shape d =? 0)) &&
  (negb (match d_ents d with [] => true | _ => false end) || is_some (d_dflt d)) &&
  forallb (fun e => slot_ok (snd (fst e))) (d_ents d) &&
  match d_dflt d with Some (sl, _) => slot_ok sl | None => true end &&
  (1 <=? d_start d) && (d_start d <? d_end d) && (d_end d <=? 100000).

Definition mk_branch (d : dcase) (sl : Z) (uk : bool) : branch :=
  mkBr uk (table_body (nth (Z.to_nat sl) (d_tab d) dflt_bp)).

Definition spec_of (d : dcase) : swspec :=
  mkSw (Z.to_nat (d_nts d)) (d_reload d)
       (map (fun e => (fst (fst e), mk_branch d (snd (fst e)) (snd e))) (d_ents d))
       (match d_dflt d with Some (sl, uk) => Some (mk_branch d sl uk) | None => None end)
       (d_shape d =? 1).

Definition final_lines (setsh : bool) (m : mst) : wire :=
  (if m_err m =? 0 then [] else [[29; m_err m]]) ++
  [if setsh
   then [31; b2z (o_valid (m_out m)); o_lmt (m_out m); Z.of_nat (length (o_set (m_out m)))] ++ o_set (m_out m)
   else [30; b2z (is_some (o_val (m_out m))); match o_val (m_out m) with Some v => v | None => 0 end; o_lmt (m_out m)]].

(* A case with d_depth > 0 wraps every branch body in d_depth nested graph nodes
   (nested_<G>).  The wrapper is TRANSPARENT in this model: the run is the same, and
   the driver's reference pass (the same case with the body inlined, recorder lines
   only, re-coded 20 -> 40) is the model's own recorder stream. *)
Definition ref_lines (log : list line) : wire :=
  flat_map (fun l => match l with 20 :: r => [40 :: r] | _ => [] end) log.

Definition run_switch (w : wire) : wire :=
  let d := decode w in
  if negb (case_ok d) then [[29; 9]] else
  let m := finish (mirror_run (spec_of d) (d_hist d) (d_start d) (d_end d) (Z.to_nat (d_end d - d_start d) + 1)) in
  (if 0 <? d_depth d then ref_lines (rev (m_log m)) else []) ++
  rev (m_log m) ++ final_lines (s_set (spec_of d)) m.

(* the specification's observable: the output ticks, as recorder lines *)
Definition spec_lines (s : sst) : wire := rev (s_outs s).
