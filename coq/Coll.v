(* Coll.v — MIRROR models of the slot-backed collection time-series storage of hgraph
   (property C05).  Executable definitions only; proofs are in CollFacts.v.

   Mirrored C++ (state and control flow, line for line where it matters):
     include/hgraph/types/utils/key_slot_store.h          KeySlotStore  -> [kstore]
       (slot lifecycle Free / Live / PendingErase of impl/stable_slot_store_impl.h,
        free-slot stack, pending-erase list + count, reserve_to growth policy,
        insert / reuse_existing_slot (resurrection) / remove_slot / erase_pending)
     src/hgraph/types/metadata/ts_data_slot_ops.cpp       TSSSlotStorage -> [tss], TSDSlotStorage -> [tsd]
       (added_/removed_/modified_/value_published_ bitsets, delta_time_, prepare_delta
        "roll only on a NEWER time", ensure_delta_capacity, insert_key / remove_key with the
        add-then-remove and remove-then-add cancellation, record_child_modified)
     src/hgraph/types/time_series/ts_data/set_view.cpp    TSSDataMutationView add/remove/clear/touch/reserve
     src/hgraph/types/time_series/ts_data/dict_view.cpp   TSDDataMutationView at/set/erase/clear/touch/reserve
     src/hgraph/types/time_series/ts_output/{set,dict}_view.cpp   the guarded reads (added()/removed() only
        when modified() resp. structural_delta_current())
     src/hgraph/types/metadata/ts_data_atomic_ops.cpp     TS<int> child: value + last_modified_time,
        copy_value_from returning "first write for this time"
     src/hgraph/types/time_series/ts_data/types.cpp       TSDataTracking::record_modified (monotonic),
        TSParentLink::notify_child_modified
   Keys and child values are Z; slot indices are nat; times are Z microseconds. *)
Require Import Base.

(* ------------------------------------------------------------------ small utilities *)
Fixpoint insert_sorted (x : Z) (l : list Z) : list Z :=
  match l with
  | [] => [x]
  | y :: r => if x <=? y then x :: l else y :: insert_sorted x r
  end.
Definition sortz (l : list Z) : list Z := fold_right insert_sorted [] l.

Definition resize (n : nat) (l : list bool) : list bool := firstn n l ++ repeat false (n - length l).
Definition clear_bits (l : list bool) : list bool := map (fun _ => false) l.
Definition bit (i : nat) (l : list bool) : bool := nth i l false.   (* slot < size && test(slot) *)
Definition zn (n : nat) : Z := Z.of_nat n.

(* ------------------------------------------------------------------ KeySlotStore *)
Inductive sstate := SFree | SLive | SPend.
Definition sstate_eqb (a b : sstate) : bool :=
  match a, b with SFree, SFree | SLive, SLive | SPend, SPend => true | _, _ => false end.
Definition sstate_code (a : sstate) : Z := match a with SFree => 0 | SLive => 1 | SPend => 2 end.

Record slot := mkSlot { s_st : sstate; s_key : Z }.
Definition free_slot := mkSlot SFree 0.
Definition constructed (s : slot) : bool := negb (sstate_eqb (s_st s) SFree).
Definition live (s : slot) : bool := sstate_eqb (s_st s) SLive.
Definition pend (s : slot) : bool := sstate_eqb (s_st s) SPend.

Record kstore := mkK {
  ks_slots : list slot;        (* key_storage: state + key per slot; capacity = length *)
  ks_free : list nat;          (* m_free_slots, head = back() of the vector *)
  ks_pend : list nat;          (* m_pending_erase_slots, in push order (may hold stale entries) *)
  ks_pcount : nat              (* m_pending_erase_count *)
}.
Definition k_empty := mkK [] [] [] 0.
Definition ks_cap (s : kstore) : nat := length (ks_slots s).
Definition slot_at (s : kstore) (i : nat) : slot := nth i (ks_slots s) free_slot.
Definition ks_size (s : kstore) : nat := length (filter live (ks_slots s)).   (* m_size *)

(* index of the first element satisfying p *)
Fixpoint find_from {A} (p : A -> bool) (i : nat) (l : list A) : option nat :=
  match l with
  | [] => None
  | x :: r => if p x then Some i else find_from p (S i) r
  end.
(* find_stored_slot: the constructed slot holding [k], live or pending erase *)
Definition stored_p (k : Z) (s : slot) : bool := constructed s && (s_key s =? k).
Definition find_stored (s : kstore) (k : Z) : option nat := find_from (stored_p k) 0 (ks_slots s).
(* find_slot: only if live *)
Definition find_live (s : kstore) (k : Z) : option nat :=
  match find_stored s k with
  | Some i => if live (slot_at s i) then Some i else None
  | None => None
  end.

(* reserve_to(capacity): new slots are Free and pushed on the free stack so that the lowest
   new index is popped first. *)
Definition k_reserve (c : nat) (s : kstore) : kstore :=
  let old := ks_cap s in
  if (c <=? old)%nat then s
  else mkK (ks_slots s ++ repeat free_slot (c - old)) (seq old (c - old) ++ ks_free s) (ks_pend s) (ks_pcount s).

(* acquire_free_slot *)
Definition k_acquire (s : kstore) : nat * kstore :=
  let s1 := match ks_free s with
            | [] => k_reserve (Nat.max (ks_size s + 1) (Nat.max 8 (ks_cap s * 2))) s
            | _ => s
            end in
  match ks_free s1 with
  | f :: r => (f, mkK (ks_slots s1) r (ks_pend s1) (ks_pcount s1))
  | [] => (0%nat, s1)     (* unreachable: a reserve always yields a free slot *)
  end.

Record ins_result := mkIns { ir_slot : nat; ir_inserted : bool; ir_constructed : bool }.

(* insert(key) with reuse_existing_slot *)
Definition k_insert (k : Z) (s : kstore) : ins_result * kstore :=
  match find_stored s k with
  | Some i =>
      if pend (slot_at s i) then
        let pc := (ks_pcount s - 1)%nat in
        (mkIns i true false,
         mkK (set_nth i (mkSlot SLive k) (ks_slots s)) (ks_free s)
             (if (pc =? 0)%nat then [] else ks_pend s) pc)
      else (mkIns i false false, s)
  | None =>
      let '(i, s1) := k_acquire s in
      (mkIns i true true, mkK (set_nth i (mkSlot SLive k) (ks_slots s1)) (ks_free s1) (ks_pend s1) (ks_pcount s1))
  end.

(* remove_slot(slot): logical removal, physical erase deferred *)
Definition k_remove_slot (i : nat) (s : kstore) : bool * kstore :=
  if live (slot_at s i) then
    (true, mkK (set_nth i (mkSlot SPend (s_key (slot_at s i))) (ks_slots s)) (ks_free s)
               (ks_pend s ++ [i]) (S (ks_pcount s)))
  else (false, s).

(* erase_pending(): walks the pending list in order, frees every slot that is still pending *)
Fixpoint erase_list (l : list nat) (slots : list slot) (free : list nat) : list slot * list nat :=
  match l with
  | [] => (slots, free)
  | i :: r =>
      if pend (nth i slots free_slot)
      then erase_list r (set_nth i free_slot slots) (i :: free)
      else erase_list r slots free
  end.
Definition k_erase_pending (s : kstore) : kstore :=
  if (ks_pcount s =? 0)%nat then s
  else let '(sl, fr) := erase_list (ks_pend s) (ks_slots s) (ks_free s) in mkK sl fr [] 0.

(* slot-order iteration used by every Range: keys of the slots satisfying a predicate *)
Fixpoint keys_where (f : nat -> slot -> bool) (i : nat) (l : list slot) : list Z :=
  match l with
  | [] => []
  | x :: r => if f i x then s_key x :: keys_where f (S i) r else keys_where f (S i) r
  end.
Definition live_keys (s : kstore) : list Z := keys_where (fun _ x => live x) 0 (ks_slots s).

(* ------------------------------------------------------------------ TSS<int> *)
Record tss := mkT {
  t_ks : kstore;
  t_add : list bool;        (* added_   *)
  t_rem : list bool;        (* removed_ *)
  t_dt : Z;                 (* delta_time_ *)
  t_lmt : Z                 (* tracking_.last_modified_time *)
}.
Definition tss_empty := mkT k_empty [] [] MIN_DT MIN_DT.

Definition t_ensure (s : tss) : tss :=   (* ensure_delta_capacity *)
  let c := ks_cap (t_ks s) in
  if (length (t_add s) =? c)%nat then s
  else mkT (t_ks s) (resize c (t_add s)) (resize c (t_rem s)) (t_dt s) (t_lmt s).

Definition t_prepare (t : Z) (s : tss) : tss :=   (* prepare_delta *)
  if t <=? t_dt s then t_ensure s
  else t_ensure (mkT (k_erase_pending (t_ks s)) (clear_bits (t_add s)) (clear_bits (t_rem s)) t (t_lmt s)).

(* storage level: returns (changed, state) *)
Definition t_insert_key (t k : Z) (s : tss) : bool * tss :=
  let s1 := t_prepare t s in
  let '(r, ks') := k_insert k (t_ks s1) in
  let s2 := t_ensure (mkT ks' (t_add s1) (t_rem s1) (t_dt s1) (t_lmt s1)) in
  if negb (ir_inserted r) then (false, s2)
  else if bit (ir_slot r) (t_rem s2)
       then (true, mkT (t_ks s2) (t_add s2) (set_nth (ir_slot r) false (t_rem s2)) (t_dt s2) (t_lmt s2))
       else (true, mkT (t_ks s2) (set_nth (ir_slot r) true (t_add s2)) (t_rem s2) (t_dt s2) (t_lmt s2)).

Definition t_remove_key (t k : Z) (s : tss) : bool * tss :=
  let s1 := t_prepare t s in
  match find_live (t_ks s1) k with
  | None => (false, s1)
  | Some i =>
      let '(ok, ks') := k_remove_slot i (t_ks s1) in
      if negb ok then (false, s1)
      else
        let s2 := t_ensure (mkT ks' (t_add s1) (t_rem s1) (t_dt s1) (t_lmt s1)) in
        if bit i (t_add s2)
        then (true, mkT (t_ks s2) (set_nth i false (t_add s2)) (t_rem s2) (t_dt s2) (t_lmt s2))
        else (true, mkT (t_ks s2) (t_add s2) (set_nth i true (t_rem s2)) (t_dt s2) (t_lmt s2))
  end.

(* TSDataTracking::record_modified is monotonic; mark_modified = record + notify parent (no parent here) *)
Definition t_mark (t : Z) (s : tss) : tss :=
  if t <=? t_lmt s then s else mkT (t_ks s) (t_add s) (t_rem s) (t_dt s) t.
Definition t_touch (t : Z) (s : tss) : bool * tss :=
  let s1 := t_prepare t s in (negb (t_lmt s1 =? t), s1).
Definition t_touch_mark (t : Z) (s : tss) : tss :=
  let '(b, s1) := t_touch t s in if b then t_mark t s1 else s1.

(* view level (TSSDataMutationView) *)
Definition tss_add (t k : Z) (s : tss) : bool * tss :=
  let '(ch, s1) := t_insert_key t k s in
  (ch, if ch then t_mark t s1 else t_touch_mark t s1).
Definition tss_remove (t k : Z) (s : tss) : bool * tss :=
  let '(ch, s1) := t_remove_key t k s in
  (ch, if ch then t_mark t s1 else t_touch_mark t s1).
Definition tss_clear (t : Z) (s : tss) : tss :=
  let keys := live_keys (t_ks s) in
  let '(newly, s1) := t_touch t s in
  let s2 := fold_left (fun st k => snd (tss_remove t k st)) keys s1 in
  if newly then t_mark t s2 else s2.
Definition tss_reserve (c : nat) (s : tss) : tss :=
  t_ensure (mkT (k_reserve c (t_ks s)) (t_add s) (t_rem s) (t_dt s) (t_lmt s)).

Inductive sop := SAdd (k : Z) | SRemove (k : Z) | SClear | SReserve (c : nat) | STouch | SNop.

Definition tss_op (t : Z) (o : sop) (s : tss) : Z * tss :=
  match o with
  | SAdd k => let '(b, s') := tss_add t k s in (b2z b, s')
  | SRemove k => let '(b, s') := tss_remove t k s in (b2z b, s')
  | SClear => (0, tss_clear t s)
  | SReserve c => (0, tss_reserve c s)
  | STouch => (0, t_touch_mark t s)
  | SNop => (-1, s)
  end.

(* one engine cycle: the scripted mutations applied in order at time t *)
Definition tss_cycle (t : Z) (ops : list sop) (s : tss) : tss :=
  fold_left (fun st o => snd (tss_op t o st)) ops s.
Definition tss_run (h : list (Z * list sop)) : tss :=
  fold_left (fun st c => tss_cycle (fst c) (snd c) st) h tss_empty.

(* ---- reads *)
Definition tss_value (s : tss) : list Z := live_keys (t_ks s).
Definition tss_raw_added (s : tss) : list Z := keys_where (fun i _ => bit i (t_add s)) 0 (ks_slots (t_ks s)).
Definition tss_raw_removed (s : tss) : list Z := keys_where (fun i _ => bit i (t_rem s)) 0 (ks_slots (t_ks s)).
Definition tss_modified (t : Z) (s : tss) : bool := negb (t =? MIN_DT) && (t_lmt s =? t).
Definition tss_valid (s : tss) : bool := negb (t_lmt s =? MIN_DT).
(* TSSOutputView::added()/removed(): empty unless modified() *)
Definition tss_added (t : Z) (s : tss) : list Z := if tss_modified t s then tss_raw_added s else [].
Definition tss_removed (t : Z) (s : tss) : list Z := if tss_modified t s then tss_raw_removed s else [].

(* ------------------------------------------------------------------ TSD<int, TS<int>> *)
Record child := mkC { c_val : Z; c_lmt : Z }.       (* TS<int>: value + last_modified_time *)
Definition child0 := mkC 0 MIN_DT.
Definition c_valid (c : child) : bool := negb (c_lmt c =? MIN_DT).

Record tsd := mkD {
  d_ks : kstore;
  d_ch : list child;        (* values_: one child per slot, constructed exactly when the key slot is *)
  d_add : list bool;
  d_rem : list bool;
  d_mod : list bool;        (* modified_ *)
  d_pub : list bool;        (* value_published_ *)
  d_dt : Z;                 (* delta_time_ *)
  d_lmt : Z;                (* tracking_.last_modified_time *)
  d_kslmt : Z               (* key_set_tracking_.last_modified_time *)
}.
Definition tsd_empty := mkD k_empty [] [] [] [] [] MIN_DT MIN_DT MIN_DT.
Definition child_at (s : tsd) (i : nat) : child := nth i (d_ch s) child0.

Definition resize_ch (n : nat) (l : list child) : list child := firstn n l ++ repeat child0 (n - length l).

Definition d_ensure (s : tsd) : tsd :=
  let c := ks_cap (d_ks s) in
  let ch := if (length (d_ch s) =? c)%nat then d_ch s else resize_ch c (d_ch s) in
  if (length (d_add s) =? c)%nat then mkD (d_ks s) ch (d_add s) (d_rem s) (d_mod s) (d_pub s) (d_dt s) (d_lmt s) (d_kslmt s)
  else mkD (d_ks s) ch (resize c (d_add s)) (resize c (d_rem s)) (resize c (d_mod s)) (resize c (d_pub s))
           (d_dt s) (d_lmt s) (d_kslmt s).

Definition d_prepare (t : Z) (s : tsd) : tsd :=
  if t <=? d_dt s then d_ensure s
  else
    let ks' := k_erase_pending (d_ks s) in
    d_ensure (mkD ks' (d_ch s) (clear_bits (d_add s)) (clear_bits (d_rem s))
                  (clear_bits (d_mod s)) (d_pub s) t (d_lmt s) (d_kslmt s)).

Definition rec_mod (t cur : Z) : Z := if t <=? cur then cur else t.   (* record_modified, monotonic *)

Definition d_set_bits (s : tsd) (a r m p : list bool) : tsd :=
  mkD (d_ks s) (d_ch s) a r m p (d_dt s) (d_lmt s) (d_kslmt s).

(* storage insert_key; returns (slot, changed, state) *)
Definition d_insert_key (t k : Z) (s : tsd) : nat * bool * tsd :=
  let s1 := d_prepare t s in
  let '(r, ks') := k_insert k (d_ks s1) in
  let i := ir_slot r in
  let s2 := d_ensure (mkD ks' (d_ch s1) (d_add s1) (d_rem s1) (d_mod s1) (d_pub s1) (d_dt s1) (d_lmt s1) (d_kslmt s1)) in
  (* a newly constructed key slot gets a default-constructed (invalid) child *)
  let s3 := if ir_constructed r
            then mkD (d_ks s2) (set_nth i child0 (d_ch s2)) (d_add s2) (d_rem s2) (d_mod s2) (d_pub s2) (d_dt s2) (d_lmt s2) (d_kslmt s2)
            else s2 in
  if negb (ir_inserted r) then (i, false, s3)
  else
    let s4 := if bit i (d_rem s3)
              then d_set_bits s3 (d_add s3) (set_nth i false (d_rem s3)) (d_mod s3) (set_nth i true (d_pub s3))
              else if c_valid (child_at s3 i)
                   then d_set_bits s3 (set_nth i true (d_add s3)) (d_rem s3) (d_mod s3) (set_nth i true (d_pub s3))
                   else s3 in
    (* restore_modified_on_resurrection (the repair of KF-tsd-set-erase-set-C05): a resurrected, published
       child that was already modified in this cycle is reported as modified again *)
    let s5 := if negb (ir_constructed r) && bit i (d_pub s4) && (c_lmt (child_at s4 i) =? t)
              then d_set_bits s4 (d_add s4) (d_rem s4) (set_nth i true (d_mod s4)) (d_pub s4)
              else s4 in
    (i, true, mkD (d_ks s5) (d_ch s5) (d_add s5) (d_rem s5) (d_mod s5) (d_pub s5) (d_dt s5) (d_lmt s5) (rec_mod t (d_kslmt s5))).

Definition d_remove_key (t k : Z) (s : tsd) : bool * tsd :=
  let s1 := d_prepare t s in
  match find_live (d_ks s1) k with
  | None => (false, s1)
  | Some i =>
      let '(ok, ks') := k_remove_slot i (d_ks s1) in
      if negb ok then (false, s1)
      else
        let s2 := d_ensure (mkD ks' (d_ch s1) (d_add s1) (d_rem s1) (d_mod s1) (d_pub s1) (d_dt s1) (d_lmt s1) (d_kslmt s1)) in
        let s3 := if bit i (d_pub s2)
                  then if bit i (d_add s2)
                       then d_set_bits s2 (set_nth i false (d_add s2)) (d_rem s2) (d_mod s2) (set_nth i false (d_pub s2))
                       else d_set_bits s2 (d_add s2) (set_nth i true (d_rem s2)) (d_mod s2) (set_nth i false (d_pub s2))
                  else s2 in
        (true, mkD (d_ks s3) (d_ch s3) (d_add s3) (d_rem s3) (set_nth i false (d_mod s3)) (d_pub s3) (d_dt s3) (d_lmt s3)
                   (rec_mod t (d_kslmt s3)))
  end.

(* record_child_modified(slot, t) *)
Definition d_child_modified (i : nat) (t : Z) (s : tsd) : tsd :=
  if negb (live (slot_at (d_ks s) i)) then s
  else
    let s1 := d_prepare t s in
    if negb (c_valid (child_at s1 i)) then
      let s2 := d_set_bits s1 (d_add s1) (d_rem s1) (set_nth i false (d_mod s1)) (d_pub s1) in
      if negb (bit i (d_pub s2)) then s2
      else if bit i (d_add s2)
           then d_set_bits s2 (set_nth i false (d_add s2)) (d_rem s2) (d_mod s2) (set_nth i false (d_pub s2))
           else d_set_bits s2 (d_add s2) (set_nth i true (d_rem s2)) (d_mod s2) (set_nth i false (d_pub s2))
    else
      let s2 := if negb (bit i (d_pub s1))
                then if bit i (d_rem s1)
                     then d_set_bits s1 (d_add s1) (set_nth i false (d_rem s1)) (d_mod s1) (set_nth i true (d_pub s1))
                     else d_set_bits s1 (set_nth i true (d_add s1)) (d_rem s1) (d_mod s1) (set_nth i true (d_pub s1))
                else s1 in
      d_set_bits s2 (d_add s2) (d_rem s2) (set_nth i true (d_mod s2)) (d_pub s2).

Definition d_mark (t : Z) (s : tsd) : tsd :=
  mkD (d_ks s) (d_ch s) (d_add s) (d_rem s) (d_mod s) (d_pub s) (d_dt s) (rec_mod t (d_lmt s)) (d_kslmt s).
Definition d_touch (t : Z) (s : tsd) : bool * tsd :=
  let s1 := d_prepare t s in (negb (d_lmt s1 =? t), s1).
Definition d_touch_mark (t : Z) (s : tsd) : tsd :=
  let '(b, s1) := d_touch t s in if b then d_mark t s1 else s1.

(* TSDDataMutationView::at(key): insert_key + apply_slot_mutation_result *)
Definition tsd_at (t k : Z) (s : tsd) : nat * tsd :=
  let '(i, ch, s1) := d_insert_key t k s in
  (i, if ch then d_mark t s1 else s1).

(* child.begin_mutation(t).copy_value_from(v) on the TS<int> child in slot i: assigns the value, and only
   the FIRST write for this time records the modification and notifies the parent dictionary. *)
Definition tsd_child_write (t : Z) (i : nat) (v : Z) (s : tsd) : tsd :=
  let c := child_at s i in
  let s1 := mkD (d_ks s) (set_nth i (mkC v (c_lmt c)) (d_ch s)) (d_add s) (d_rem s) (d_mod s) (d_pub s) (d_dt s) (d_lmt s) (d_kslmt s) in
  if c_lmt c <? t then
    let s2 := mkD (d_ks s1) (set_nth i (mkC v t) (d_ch s1)) (d_add s1) (d_rem s1) (d_mod s1) (d_pub s1) (d_dt s1) (d_lmt s1) (d_kslmt s1) in
    d_mark t (d_child_modified i t s2)
  else s1.

Definition tsd_set (t k v : Z) (s : tsd) : tsd :=
  let '(i, s1) := tsd_at t k s in tsd_child_write t i v s1.
Definition tsd_erase (t k : Z) (s : tsd) : bool * tsd :=
  let '(ch, s1) := d_remove_key t k s in
  (ch, if ch then d_mark t s1 else d_touch_mark t s1).
Definition tsd_clear (t : Z) (s : tsd) : tsd :=
  let keys := live_keys (d_ks s) in
  let '(newly, s1) := d_touch t s in
  let s2 := fold_left (fun st k => snd (tsd_erase t k st)) keys s1 in
  if newly then d_mark t s2 else s2.
Definition tsd_reserve (c : nat) (s : tsd) : tsd :=
  d_ensure (mkD (k_reserve c (d_ks s)) (d_ch s) (d_add s) (d_rem s) (d_mod s) (d_pub s) (d_dt s) (d_lmt s) (d_kslmt s)).
Definition tsd_touch (t : Z) (s : tsd) : tsd :=
  let s1 := d_touch_mark t s in
  if d_kslmt s1 =? MIN_DT
  then mkD (d_ks s1) (d_ch s1) (d_add s1) (d_rem s1) (d_mod s1) (d_pub s1) (d_dt s1) (d_lmt s1) (rec_mod t (d_kslmt s1))
  else s1.

(* The element of a live key written through ITS OWN output view (TSDOutputView::at(k) is a read-only look-up,
   then child.begin_mutation(t).copy_value_from(v)): no dictionary-level operation at all - this is how nested-graph
   outputs and map_ children write.  The dictionary learns of it only through record_child_modified, which must
   itself roll the delta window when this is the first thing that reaches the storage in the cycle. *)
Definition tsd_write (t k v : Z) (s : tsd) : Z * tsd :=
  match find_live (d_ks s) k with
  | Some i => (0, tsd_child_write t i v s)
  | None => (-2, s)
  end.

Inductive dop := DSet (k v : Z) | DErase (k : Z) | DClear | DReserve (c : nat) | DTouch | DCreate (k : Z) | DWrite (k v : Z) | DNop.

Definition tsd_op (t : Z) (o : dop) (s : tsd) : Z * tsd :=
  match o with
  | DSet k v => (0, tsd_set t k v s)
  | DErase k => let '(b, s') := tsd_erase t k s in (b2z b, s')
  | DClear => (0, tsd_clear t s)
  | DReserve c => (0, tsd_reserve c s)
  | DTouch => (0, tsd_touch t s)
  | DCreate k => let '(i, s') := tsd_at t k s in (zn i, s')
  | DWrite k v => tsd_write t k v s
  | DNop => (-1, s)
  end.
Definition tsd_cycle (t : Z) (ops : list dop) (s : tsd) : tsd :=
  fold_left (fun st o => snd (tsd_op t o st)) ops s.
Definition tsd_run (h : list (Z * list dop)) : tsd :=
  fold_left (fun st c => tsd_cycle (fst c) (snd c) st) h tsd_empty.

(* ---- reads (TSDOutputView) *)
Definition tsd_keys (s : tsd) : list Z := live_keys (d_ks s).
Definition tsd_modified (t : Z) (s : tsd) : bool := negb (t =? MIN_DT) && (d_lmt s =? t).
Definition tsd_struct_current (t : Z) (s : tsd) : bool := negb (t =? MIN_DT) && (d_dt s =? t).
Definition tsd_raw_added (s : tsd) : list Z :=
  keys_where (fun i x => constructed x && bit i (d_add s)) 0 (ks_slots (d_ks s)).
Definition tsd_raw_removed (s : tsd) : list Z :=
  keys_where (fun i x => constructed x && bit i (d_rem s)) 0 (ks_slots (d_ks s)).
Definition tsd_added (t : Z) (s : tsd) : list Z := if tsd_struct_current t s then tsd_raw_added s else [].
Definition tsd_removed (t : Z) (s : tsd) : list Z := if tsd_struct_current t s then tsd_raw_removed s else [].
Definition tsd_raw_modified (s : tsd) : list Z :=
  keys_where (fun i x => live x && bit i (d_mod s)) 0 (ks_slots (d_ks s)).
Definition tsd_modified_keys (t : Z) (s : tsd) : list Z := if tsd_modified t s then tsd_raw_modified s else [].
Definition tsd_valid_keys (s : tsd) : list Z :=
  keys_where (fun i x => live x && c_valid (child_at s i)) 0 (ks_slots (d_ks s)).
(* value of a key: the child's value when the key is live *)
Definition tsd_get (s : tsd) (k : Z) : option Z :=
  match find_live (d_ks s) k with
  | Some i => if c_valid (child_at s i) then Some (c_val (child_at s i)) else None
  | None => None
  end.
