(* InternShare.v — sharing is COMPLETE: with sharing on, two executed node statements that intern and have
   equal keys (same definition, schemas, scalars, and inputs resolved to the same instances) always get the
   same instance — whatever statements were executed in between (in particular consumers of the first
   one's hidden error output, which amend that instance in place: error capture is not a state of the
   wiring model, see [captured] in Intern.v). *)
Require Import Base Rank RankLemmas RankFacts Intern InternFacts.
From Coq Require Import Arith Permutation Lia.
Local Open Scope nat_scope.

Definition shared_key (prog : list stmt) (w : wst) (l : nat) (k : key) : Prop :=
  exists d ins rins, nth_error prog l = Some (StNode d ins) /\ interns d = true /\
    resolve_inputs (w_env w) (w_phs w) ins = Some rins /\ k = make_key d (eff_inputs d rins).

Definition TInv (prog : list stmt) (done : list nat) (w : wst) : Prop :=
  forall l k, In l done -> shared_key prog w l k ->
  exists i, tab_find k (w_tab w) = Some i /\ alookup l (w_env w) = Some i.

Lemma tab_find_cons_other k k0 i0 t i :
  tab_find k0 t = None -> tab_find k t = Some i -> tab_find k ((k0, i0) :: t) = Some i.
Proof.
  intros Hn Hs. simpl. destruct (key_eqb k0 k) eqn:E; auto.
  apply key_eqb_eq in E. subst. congruence.
Qed.

Lemma tab_find_cons_same k i t : tab_find k ((k, i) :: t) = Some i.
Proof. simpl. assert (E : key_eqb k k = true) by (apply key_eqb_eq; reflexivity). rewrite E. reflexivity. Qed.

(* the key a statement had when it was executed is the key it has in any later state *)
Lemma shared_key_back prog done w w' l k :
  WInv prog done w -> w_le w w' -> In l done -> shared_key prog w' l k -> shared_key prog w l k.
Proof.
  intros I (Hi & He & Hp) Hl (d & ins & rins & Hn & Hint & R & ->).
  destruct (wi_node_done _ _ _ I l d ins Hl Hn) as (i & Hi0).
  destruct (wi_env _ _ _ I l i Hi0) as (d0 & ins0 & r0 & it & A & _ & C & _).
  rewrite Hn in A. injection A as <- <-.
  pose proof (resolve_inputs_mono _ _ _ _ He Hp _ _ C) as C'. rewrite R in C'. injection C' as ->.
  exists d, ins, r0. auto.
Qed.

Lemma tinv_step prog done w l s w' :
  WInv prog done w -> TInv prog done w -> ~ In l done -> nth_error prog l = Some s ->
  wire_stmt true w l s = Ok w' -> TInv prog (l :: done) w'.
Proof.
  intros I T Hfresh Hs Hw.
  destruct (winv_step true prog done w l s w' I Hfresh Hs Hw) as [I' Hle].
  assert (Hlnone : alookup l (w_env w) = None).
  { destruct (alookup l (w_env w)) as [i|] eqn:E; auto. exfalso. apply Hfresh. eapply wi_env_done; eauto. }
  assert (Hold : forall l0 k, In l0 done -> shared_key prog w' l0 k ->
                 exists i, tab_find k (w_tab w) = Some i /\ alookup l0 (w_env w) = Some i).
  { intros l0 k Hl0 Hk. apply (T l0 k Hl0). eapply shared_key_back; eauto. }
  destruct s as [d ins| |h l' p|a b|pa la|pa la rc]; cbn [wire_stmt] in Hw.
  - unfold wire_node, wire_node_gen in Hw.
    destruct (resolve_inputs (w_env w) (w_phs w) ins) as [rins0|] eqn:R; [|discriminate].
    cbv zeta in Hw. set (rins := eff_inputs d rins0) in *.
    destruct (all_passive rins); [discriminate|].
    destruct (if true && interns d then tab_find (make_key d rins) (w_tab w) else None) as [i|] eqn:Tf.
    + injection Hw as <-. intros l0 k [<-|Hl0] Hk; cbn [w_tab w_env].
      * destruct Hk as (d1 & ins1 & r1 & Hn & Hint & R1 & ->). rewrite Hs in Hn. injection Hn as <- <-.
        cbn [w_env w_phs] in R1.
        pose proof (resolve_inputs_mono _ _ _ _ (env_le_cons (w_env w) l i Hlnone) (phs_le_refl _) _ _ R) as R'.
        rewrite R1 in R'. injection R' as ->. simpl in Tf. rewrite Hint in Tf.
        exists i. split; [exact Tf|]. rewrite alookup_cons, Nat.eqb_refl. reflexivity.
      * destruct (Hold l0 k Hl0 Hk) as (j & A & B). exists j. split; auto.
        apply (env_le_cons (w_env w) l i Hlnone). exact B.
    + injection Hw as <-. intros l0 k [<-|Hl0] Hk; cbn [w_tab w_env].
      * destruct Hk as (d1 & ins1 & r1 & Hn & Hint & R1 & ->). rewrite Hs in Hn. injection Hn as <- <-.
        cbn [w_env w_phs] in R1.
        pose proof (resolve_inputs_mono _ _ _ _ (env_le_cons (w_env w) l (length (w_insts w)) Hlnone) (phs_le_refl _) _ _ R) as R'.
        rewrite R1 in R'. injection R' as ->. rewrite Hint.
        exists (length (w_insts w)). split; [apply tab_find_cons_same|]. rewrite alookup_cons, Nat.eqb_refl. reflexivity.
      * destruct (Hold l0 k Hl0 Hk) as (j & A & B). exists j. split.
        -- destruct (interns d) eqn:Ei; auto. simpl in Tf. apply tab_find_cons_other; auto.
        -- apply (env_le_cons (w_env w) l (length (w_insts w)) Hlnone). exact B.
  - injection Hw as <-. intros l0 k [<-|Hl0] Hk; cbn [w_tab w_env].
    + destruct Hk as (d1 & ins1 & r1 & Hn & _). congruence.
    + apply (Hold l0 k Hl0 Hk).
  - destruct (memb h (w_phs w)); [|discriminate]. destruct (alookup l' (w_env w)); [|discriminate].
    destruct (alookup h (w_binds w)); [discriminate|]. injection Hw as <-.
    intros l0 k [<-|Hl0] Hk; cbn [w_tab w_env].
    + destruct Hk as (d1 & ins1 & r1 & Hn & _). congruence.
    + apply (Hold l0 k Hl0 Hk).
  - destruct (alookup a (w_env w)); [|discriminate]. destruct (alookup b (w_env w)); [|discriminate].
    destruct (_ =? _); [discriminate|].
    destruct (existsb _ (w_deps w)); injection Hw as <-; intros l0 k [<-|Hl0] Hk; cbn [w_tab w_env];
      try (destruct Hk as (d1 & ins1 & r1 & Hn & _); congruence); apply (Hold l0 k Hl0 Hk).
  - destruct (alookup la (w_env w)); [|discriminate]. injection Hw as <-.
    intros l0 k [<-|Hl0] Hk; [destruct Hk as (d1 & ins1 & r1 & Hn & _); congruence | apply (Hold l0 k Hl0 Hk)].
  - destruct (alookup la (w_env w)); [|discriminate]. injection Hw as <-.
    intros l0 k [<-|Hl0] Hk; [destruct Hk as (d1 & ins1 & r1 & Hn & _); congruence | apply (Hold l0 k Hl0 Hk)].
Qed.

Lemma tinv_from prog : forall order done w w',
  WInv prog done w -> TInv prog done w -> NoDup (order ++ done) -> wire_from true prog order w = Ok w' ->
  TInv prog (rev order ++ done) w'.
Proof.
  induction order as [|l r IH]; intros done w w' I T Hnd Hw; simpl in *.
  - injection Hw as <-. exact T.
  - destruct (nth_error prog l) as [s|] eqn:Es; [|discriminate].
    destruct (wire_stmt true w l s) as [w1|c] eqn:Ew; [|discriminate].
    apply NoDup_cons_iff in Hnd. destruct Hnd as [Hl Hnd].
    assert (Hfresh : ~ In l done) by (intros H; apply Hl; apply in_app_iff; right; exact H).
    destruct (winv_step true prog done w l s w1 I Hfresh Es Ew) as [I1 _].
    pose proof (tinv_step prog done w l s w1 I T Hfresh Es Ew) as T1.
    rewrite <- app_assoc. simpl. apply (IH (l :: done) w1 w' I1 T1); auto.
    apply NoDup_app_intro.
    + apply NoDup_app_inv in Hnd. tauto.
    + apply NoDup_cons_iff. split; auto. apply NoDup_app_inv in Hnd. tauto.
    + intros x Hx [<-|Hd].
      * apply Hl. apply in_app_iff. left; exact Hx.
      * apply NoDup_app_inv in Hnd. destruct Hnd as (_ & _ & Hdis). apply (Hdis x Hx Hd).
Qed.

(* sharing is complete: equal keys => one instance *)
Lemma equal_keys_share prog order w l1 l2 k :
  NoDup order -> wire_prog true prog order = Ok w -> In l1 order -> In l2 order ->
  shared_key prog w l1 k -> shared_key prog w l2 k ->
  exists i, alookup l1 (w_env w) = Some i /\ alookup l2 (w_env w) = Some i.
Proof.
  intros Hnd Hw H1 H2 K1 K2. unfold wire_prog in Hw.
  assert (T : TInv prog (rev order) w).
  { pose proof (tinv_from prog order [] w0 w (winv_init prog)) as H. rewrite !app_nil_r in H. apply H; auto.
    intros l k0 []. }
  destruct (T l1 k (proj1 (in_rev _ _) H1) K1) as (i1 & A1 & B1).
  destruct (T l2 k (proj1 (in_rev _ _) H2) K2) as (i2 & A2 & B2).
  rewrite A1 in A2. injection A2 as <-. exists i1. auto.
Qed.
