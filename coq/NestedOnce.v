(* NestedOnce.v — C01 for child graphs: in one engine cycle every node of every graph is evaluated at most
   once, including cycles that pause (a node's evaluate returns false) and are re-entered any number of
   times.  Evaluations are counted on the lifecycle trace: lines [11; g; j; t] (before_node_evaluation). *)
Require Import Base Sched SchedFacts Nested NestedWitness NestedFacts.
From Coq Require Import ZifyBool.

Definition is11 (g j : nat) (l : line) : bool :=
  match l with 11 :: g' :: j' :: _ => (g' =? Z.of_nat g) && (j' =? Z.of_nat j) | _ => false end.
(* how many times node j of graph g has been evaluated so far *)
Definition cnt (g j : nat) (w : world) : nat := length (filter (is11 g j) (w_log w)).

Definition L11 (w w' : world) : Prop := forall g j, cnt g j w' = cnt g j w.
Lemma L11_refl w : L11 w w. Proof. intros g j; reflexivity. Qed.
Lemma L11_trans a b c : L11 a b -> L11 b c -> L11 a c.
Proof. intros H1 H2 g j. rewrite H2, H1; auto. Qed.
Lemma L11_log w w' : w_log w' = w_log w -> L11 w w'.
Proof. intros H g j. unfold cnt. rewrite H. reflexivity. Qed.
Lemma L11_emit l w : (forall g j, is11 g j l = false) -> L11 w (emit l w).
Proof. intros H g j. unfold cnt, emit; simpl. rewrite H. reflexivity. Qed.
Lemma L11_set_err e w : L11 w (set_err e w). Proof. apply L11_log; reflexivity. Qed.
Lemma L11_upd_g g f w : L11 w (upd_g g f w). Proof. apply L11_log; reflexivity. Qed.
Lemma L11_upd_node g i f w : L11 w (upd_node g i f w). Proof. apply L11_log; reflexivity. Qed.

Lemma log_sched_local g i when w : w_log (sched_local g i when w) = w_log w.
Proof. unfold sched_local; cbv zeta. destruct (_ <? _); auto. destruct (_ || _); auto. Qed.
Lemma log_sched_at d T : forall g i when w, w_log (sched_at d T g i when w) = w_log w.
Proof.
  induction d as [|d IH]; intros g i when w; simpl.
  - destruct (gc_parent _) as [[pg pn]|]; auto using log_sched_local.
  - destruct (gc_parent _) as [[pg pn]|]; auto using log_sched_local.
    destruct (negb (ok _)); auto using log_sched_local.
    destruct (g_started _ && negb _).
    + rewrite IH. destruct (_ && _); simpl; auto using log_sched_local.
    + destruct (_ && _); simpl; auto using log_sched_local.
Qed.
Lemma L11_sched_local g i when w : L11 w (sched_local g i when w).
Proof. apply L11_log, log_sched_local. Qed.
Lemma L11_sched_at d T g i when w : L11 w (sched_at d T g i when w).
Proof. apply L11_log, log_sched_at. Qed.

Lemma L11_notify_nodes T sub now g : forall cs j w, L11 w (notify_nodes T sub now g cs j w).
Proof.
  induction cs as [|c r IH]; intros j w; simpl; [apply L11_refl|].
  eapply L11_trans; [|apply IH]. destruct (_ && _); [apply L11_sched_at|apply L11_refl].
Qed.

Lemma L11_notify_graphs T sub now : forall gs g w, L11 w (notify_graphs T sub now gs g w).
Proof.
  induction gs as [|gc r IH]; intros g w; simpl; [apply L11_refl|].
  eapply L11_trans; [apply L11_notify_nodes|apply IH].
Qed.

Lemma L11_notify T p now w : L11 w (notify T p now w).
Proof. apply L11_notify_graphs. Qed.
Lemma L11_notify_link T x now w : L11 w (notify_link T x now w).
Proof. apply L11_notify_graphs. Qed.

Lemma L11_opt_schedule T g i o w : L11 w (opt_schedule T g i o w).
Proof. destruct o; simpl; [apply L11_sched_at|apply L11_refl]. Qed.

Ltac l11_step :=
  first [ apply L11_refl | (apply L11_emit; intros; reflexivity) | apply L11_set_err | apply L11_upd_node | apply L11_sched_at
        | apply L11_notify | apply L11_notify_link | apply L11_opt_schedule | apply L11_sched_local ].
Ltac l11_chain := repeat (first [ l11_step | eapply L11_trans; [|l11_step] ]).

Lemma L11_do_op T g i st opi o w : L11 w (do_op T g i st opi o w).
Proof.
  unfold do_op. destruct (negb (ok w)); [apply L11_refl|].
  destruct o; try apply L11_refl; try apply L11_set_err; try apply L11_sched_at.
  - destruct (c_sched _); [|apply L11_refl]. destruct (schedule _ _ _ _ _) as [s' push].
    set (w1 := opt_schedule _ _ _ _ _).
    assert (K : L11 w w1) by (unfold w1; eapply L11_trans; [apply L11_upd_node|apply L11_opt_schedule]).
    destruct (ok w1); auto.
  - destruct (c_sched _); [|apply L11_refl]. eapply L11_trans; [apply L11_upd_node|(apply L11_emit; intros; reflexivity)].
  - destruct (c_sched _); [|apply L11_refl]. eapply L11_trans; [apply L11_upd_node|(apply L11_emit; intros; reflexivity)].
  - destruct (c_sched _); [|apply L11_refl]. destruct (pop_tag _ _ _). eapply L11_trans; [apply L11_upd_node|(apply L11_emit; intros; reflexivity)].
  - destruct (c_sched _); [|apply L11_refl]. eapply L11_trans; [apply L11_upd_node|(apply L11_emit; intros; reflexivity)].
  - destruct (_ && _); [|apply L11_refl].
    eapply L11_trans; [apply L11_upd_node|]. eapply L11_trans; [apply L11_notify|(apply L11_emit; intros; reflexivity)].
  - destruct (_ && _); [apply L11_sched_at|apply L11_refl].
  - destruct (_ && _); [apply L11_sched_at|apply L11_refl].
Qed.

Lemma L11_do_ops T g i st : forall os opi w, L11 w (do_ops T g i st opi os w).
Proof.
  induction os as [|o r IH]; intros opi w; simpl; [apply L11_refl|].
  eapply L11_trans; [apply L11_do_op|apply IH].
Qed.

Lemma L11_write_err T g i code now w : L11 w (write_err T g i code now w).
Proof. unfold write_err. eapply L11_trans; [apply L11_upd_node|apply L11_notify]. Qed.

Lemma L11_start_plain T beh g i w : L11 w (start_plain T beh g i w).
Proof.
  unfold start_plain. set (w1 := do_ops _ _ _ _ _ _ _).
  assert (K : L11 w w1) by apply L11_do_ops.
  destruct (negb (ok w1)); auto.
  destruct (c_sos _).
  - eapply L11_trans; eauto. eapply L11_trans; [apply L11_upd_node|apply L11_sched_at].
  - eapply L11_trans; eauto. apply L11_upd_node.
Qed.

Lemma L11_sampled T child now : forall bs w, L11 w (sampled T child now bs w).
Proof.
  induction bs as [|b r IH]; intros w; simpl; [apply L11_refl|].
  eapply L11_trans; [|apply IH]. destruct (match nth_error _ _ with Some _ => _ | None => _ end); [apply L11_sched_at|apply L11_refl].
Qed.

Lemma L11_pull T g i child w : L11 w (pull T g i child w).
Proof. unfold pull. destruct (_ =? _); [apply L11_refl|apply L11_sched_at]. Qed.

Lemma L11_run_user T beh g i w : L11 w (run_user T beh g i w).
Proof.
  unfold run_user. eapply L11_trans; [|apply L11_do_ops].
  eapply L11_trans; [apply L11_upd_node|(apply L11_emit; intros; reflexivity)].
Qed.

Lemma L11_capture T g i now w : L11 w (capture T g i now w).
Proof.
  unfold capture. destruct (_ && _); [|apply L11_refl].
  eapply L11_trans; [apply L11_set_err|apply L11_write_err].
Qed.

Lemma L11_rearm T g i sn now w : L11 w (rearm T g i sn now w).
Proof.
  unfold rearm. destruct (c_sched _); [|apply L11_refl].
  destruct sn.
  - destruct (advance _ _) as [s' push]. eapply L11_trans; [apply L11_upd_node|apply L11_opt_schedule].
  - destruct (is_scheduled _); [apply L11_sched_at|apply L11_refl].
Qed.

Lemma L11_eval_plain T beh g i w : L11 w (eval_plain T beh g i w).
Proof.
  unfold eval_plain. destruct (negb (n_started _)); [apply L11_refl|].
  match goal with |- L11 w (if negb (ok ?w1) then _ else _) => assert (K : L11 w w1) end.
  { destruct (match c_ins _ with [] => true | _ => _ end); [|apply L11_refl].
    eapply L11_trans; [apply L11_run_user|apply L11_capture]. }
  destruct (negb (ok _)); auto.
  eapply L11_trans; [exact K|apply L11_rearm].
Qed.

Lemma L11_eval_pauser T beh g i w : L11 w (eval_pauser T beh g i w).
Proof.
  unfold eval_pauser. destruct (negb (n_started _)); [apply L11_refl|].
  destruct (_ <? _).
  - eapply L11_trans; [|apply L11_set_err]. eapply L11_trans; [|(apply L11_emit; intros; reflexivity)]. apply L11_upd_node.
  - eapply L11_trans; [apply L11_upd_node|apply L11_run_user].
Qed.

Lemma L11_relink T g i w : L11 w (relink T g i w).
Proof.
  unfold relink. destruct (_ && _); [|apply L11_refl].
  eapply L11_trans; [apply L11_upd_node|apply L11_notify_link].
Qed.

Lemma L11_catch T g i now w : L11 w (catch T g i now w).
Proof.
  unfold catch, caught. eapply L11_trans; [|apply L11_pull].
  destruct (negb (ok w)); [|apply L11_refl].
  eapply L11_trans; [apply L11_set_err|apply L11_write_err].
Qed.


(* ------------------------------------------------------------------ frames of "one level down" *)
(* evaluating graph c: world shape kept; cursors and evaluation counts of every graph with a smaller id
   (in particular of every ancestor) untouched *)
Definition fr (b : nat) (w w' : world) : Prop :=
  length (w_gs w') = length (w_gs w)
  /\ forall g', (g' < b)%nat -> g_cursor (gat g' w') = g_cursor (gat g' w) /\ forall j, cnt g' j w' = cnt g' j w.
Definition ev_fr (ev : nat -> Z -> world -> world) : Prop := forall c t w, fr c w (ev c t w).

Lemma fr_refl b w : fr b w w. Proof. split; auto. Qed.
Lemma fr_trans b x y z : fr b x y -> fr b y z -> fr b x z.
Proof.
  intros [L1 H1] [L2 H2]. split; [congruence|]. intros g' Hg. destruct (H1 g' Hg) as [A1 B1]. destruct (H2 g' Hg) as [A2 B2].
  split; [congruence|]. intros j. rewrite B2, B1. reflexivity.
Qed.
Lemma fr_weaken b b' w w' : (b' <= b)%nat -> fr b w w' -> fr b' w w'.
Proof. intros Hb [L H]. split; auto. intros g' Hg. apply H. lia. Qed.
Lemma fr_Keep b w w' : Keep w w' -> L11 w w' -> fr b w w'.
Proof. intros [L K] C. split; auto. intros g' _. split; [apply (kg_cursor _ _ (K g'))|intros j; apply C]. Qed.
Lemma fr_upd_g b c f w : (b <= c)%nat -> fr b w (upd_g c f w).
Proof.
  intros H. split; [apply upd_g_len|]. intros g' Hg. rewrite gat_upd_other by lia. split; [reflexivity|]. intros j. apply L11_upd_g.
Qed.

Lemma cnt_emit11 g j g' i t w :
  cnt g j (emit [11; Z.of_nat g'; Z.of_nat i; t] w) = (cnt g j w + (if (g' =? g)%nat && (i =? j)%nat then 1 else 0))%nat.
Proof.
  unfold cnt, emit; simpl.
  destruct (Nat.eqb_spec g' g) as [->|Hg]; destruct (Nat.eqb_spec i j) as [->|Hi]; simpl.
  - rewrite !Z.eqb_refl. simpl. lia.
  - replace (Z.of_nat i =? Z.of_nat j) with false by lia. rewrite andb_false_r. lia.
  - replace (Z.of_nat g' =? Z.of_nat g) with false by lia. simpl. lia.
  - replace (Z.of_nat g' =? Z.of_nat g) with false by lia. simpl. lia.
Qed.

Section ONCE.
  Variable T : tcfg.
  Variable beh : behaviour.
  Hypothesis HT : wf_tree T.

  Lemma fr_reenter ev c now : ev_fr ev -> forall n w, fr c w (reenter ev n c now w).
  Proof.
    intros Hev. induction n as [|n IH]; intros w; simpl; [apply fr_refl|].
    destruct (_ =? _); [|apply fr_refl].
    eapply fr_trans; [|apply IH]. eapply fr_trans; [apply fr_Keep; [apply Keep_set_err|apply L11_set_err]|apply Hev].
  Qed.

  Lemma fr_eval_node ev g i w : ev_fr ev -> fr (S g) w (eval_node T beh ev g i w).
  Proof.
    intros Hev. unfold eval_node. destruct (is_nested _) eqn:E.
    - unfold eval_nested. destruct (negb (n_started _)); [apply fr_refl|].
      assert (Hc : (S g <= c_child (ncfg_at T g i))%nat) by (pose proof (child_gt T HT _ _ E); lia).
      assert (F1 : fr (S g) w (ev (c_child (ncfg_at T g i)) (now_of g w) (relink T g i w))).
      { eapply fr_trans; [apply fr_Keep; [apply Keep_relink|apply L11_relink]|]. eapply fr_weaken; [exact Hc|apply Hev]. }
      destruct (_ =? 1); auto.
      destruct (_ =? 4); [eapply fr_trans; [exact F1|eapply fr_weaken; [exact Hc|apply fr_reenter; auto]]|].
      destruct (_ =? PAUSED); auto.
      eapply fr_trans; [exact F1|apply fr_Keep; [apply Keep_catch|apply L11_catch]].
    - destruct (_ =? 5); [apply fr_Keep; [apply Keep_eval_pauser|apply L11_eval_pauser]|apply fr_Keep; [apply Keep_eval_plain|apply L11_eval_plain]].
  Qed.

  (* one step of the scan at index i: only node i of g may be evaluated, once *)
  Lemma scan_step_once ev g i w0 : ev_fr ev ->
    let w1 := if slot_at i (gat g w0) =? g_now (gat g w0)
              then eval_node T beh ev g i (emit [11; Z.of_nat g; Z.of_nat i; g_now (gat g w0)] w0)
              else if g_now (gat g w0) <? slot_at i (gat g w0)
                   then (if slot_at i (gat g w0) <? g_nst (gat g w0) then upd_g g (g_set_nst (slot_at i (gat g w0))) w0 else w0)
                   else w0 in
    fr g w0 w1 /\ g_cursor (gat g w1) = g_cursor (gat g w0)
    /\ forall j, (cnt g j w1 <= cnt g j w0 + (if (i =? j)%nat then 1 else 0))%nat.
  Proof.
    intros Hev. cbv zeta. destruct (_ =? _).
    - destruct (fr_eval_node ev g i (emit [11; Z.of_nat g; Z.of_nat i; g_now (gat g w0)] w0) Hev) as [L H].
      split; [|split].
      + split; [exact L|]. intros g' Hg. destruct (H g' ltac:(lia)) as [A B]. split; [exact A|].
        intros j. rewrite B, cnt_emit11. replace (g =? g')%nat with false by lia. simpl. lia.
      + destruct (H g ltac:(lia)) as [A _]. exact A.
      + intros j. destruct (H g ltac:(lia)) as [_ B]. rewrite B, cnt_emit11, Nat.eqb_refl. simpl. lia.
    - destruct (_ <? _); [destruct (_ <? _)|].
      + split; [apply fr_upd_g; lia|split]. apply (gat_upd_proj g_cursor); reflexivity.
        intros j. rewrite (L11_upd_g g _ w0 g j). lia.
      + split; [apply fr_refl|split; auto]. intros j; lia.
      + split; [apply fr_refl|split; auto]. intros j; lia.
  Qed.

  (* the scan of graph g, from index i, k steps: node j of g is evaluated at most once, and only if
     i <= j < i + k; graphs with smaller ids are not touched *)
  Lemma scan_once ev g : ev_fr ev -> forall k i w,
    fr g w (scan T beh ev g i k w)
    /\ forall j, (cnt g j (scan T beh ev g i k w) <= cnt g j w + (if (i <=? j)%nat && (j <? i + k)%nat then 1 else 0))%nat.
  Proof.
    intros Hev. induction k as [|k IH]; intros i w; simpl.
    - split; [apply fr_refl|]. intros j. lia.
    - destruct (negb (ok w)); [split; [apply fr_refl|intros j; lia]|].
      set (w0 := upd_g g (g_set_cursor (Z.of_nat i)) w).
      destruct (scan_step_once ev g i w0 Hev) as (F1 & _ & C1). cbv zeta in F1, C1.
      match goal with |- fr g w (if negb (ok ?w') then _ else _) /\ _ => set (w1 := w') in * end.
      assert (F0 : fr g w w0) by (apply fr_upd_g; lia).
      assert (C0 : forall j, cnt g j w0 = cnt g j w) by (intros j; apply L11_upd_g).
      destruct (negb (ok w1)).
      + split; [eapply fr_trans; eauto|]. intros j. specialize (C1 j). rewrite C0 in C1.
        destruct (Nat.eqb_spec i j); [|lia]. subst. replace (j <=? j)%nat with true by lia. replace (j <? j + S k)%nat with true by lia. simpl. lia.
      + destruct (IH (S i) w1) as [F2 C2]. split; [eapply fr_trans; [exact F0|eapply fr_trans; eauto]|].
        intros j. specialize (C1 j). specialize (C2 j). rewrite C0 in C1.
        destruct (Nat.eqb_spec i j) as [->|Hn].
        * replace (S j <=? j)%nat with false in C2 by lia. simpl in C2.
          replace (j <=? j)%nat with true by lia. replace (j <? j + S k)%nat with true by lia. simpl. lia.
        * destruct ((S i <=? j)%nat && (j <? S i + k)%nat) eqn:E2.
          -- replace (i <=? j)%nat with true by lia. replace (j <? i + S k)%nat with true by lia. simpl. lia.
          -- destruct ((i <=? j)%nat && (j <? i + S k)%nat); lia.
  Qed.

  (* where the scan stops when it does not complete (an exception or a pause): the cursor sits on the node
     being evaluated, and no node after it has been evaluated *)
  Lemma scan_exit ev g : ev_fr ev -> forall k i w,
    (g < length (w_gs w))%nat -> ok w = true -> ok (scan T beh ev g i k w) = false ->
    exists c, (i <= c < i + k)%nat /\ g_cursor (gat g (scan T beh ev g i k w)) = Z.of_nat c
              /\ forall j, (c < j)%nat -> (cnt g j (scan T beh ev g i k w) <= cnt g j w)%nat.
  Proof.
    intros Hev. induction k as [|k IH]; intros i w Lg Hok Hbad; simpl in *; [congruence|].
    rewrite Hok in *. cbn [negb] in *.
    set (w0 := upd_g g (g_set_cursor (Z.of_nat i)) w) in *.
    assert (E0 : g_cursor (gat g w0) = Z.of_nat i) by (unfold w0; rewrite gat_upd_same; auto).
    assert (C0 : forall j, cnt g j w0 = cnt g j w) by (intros j; apply L11_upd_g).
    destruct (scan_step_once ev g i w0 Hev) as (F1 & K1 & C1). cbv zeta in F1, K1, C1.
    match type of Hbad with ok (if negb (ok ?w') then _ else _) = false => set (w1 := w') in * end.
    destruct (ok w1) eqn:E1; cbn [negb] in *.
    - destruct (IH (S i) w1) as (c & Hc & Ec & Hj); auto.
      { destruct F1 as [L _]. rewrite L. unfold w0. rewrite upd_g_len. auto. }
      exists c. split; [lia|split; auto]. intros j Hlt. specialize (Hj j Hlt). specialize (C1 j). rewrite C0 in C1.
      replace (i =? j)%nat with false in C1 by lia. lia.
    - exists i. split; [lia|split; [congruence|]]. intros j Hlt. specialize (C1 j). rewrite C0 in C1.
      replace (i =? j)%nat with false in C1 by lia. lia.
  Qed.

  Lemma fr_eval_graph rr : forall f, ev_fr (eval_graph f T beh rr).
  Proof.
    induction f as [|f IH]; intros c t w; simpl; [split; auto|].
    match goal with |- fr c w (if negb (ok (scan _ _ _ _ ?st ?n ?w1)) then _ else _) => assert (F1 : fr c w w1) end.
    { destruct (_ && _); [apply (fr_upd_g c c); lia|].
      eapply fr_trans; [apply (fr_upd_g c c); lia|]. eapply fr_trans; [apply (fr_upd_g c c); lia|].
      apply fr_Keep; [apply Keep_emit|apply L11_emit; intros; reflexivity]. }
    match goal with |- fr c w (if negb (ok ?w2) then _ else _) => assert (F2 : fr c w w2)
      by (eapply fr_trans; [exact F1|apply (proj1 (scan_once _ c IH _ _ _))]) end.
    destruct (negb (ok _)); [eapply fr_trans; [exact F2|apply (fr_upd_g c c); lia]|].
    eapply fr_trans; [exact F2|]. eapply fr_trans; [apply (fr_upd_g c c); lia|]. eapply fr_trans; [|apply (fr_upd_g c c); lia].
    destruct (gc_parent (gcfg_at T c)) as [[pg pn]|]; [|apply fr_refl].
    destruct (_ <? _); [|apply fr_refl]. apply fr_Keep; [apply Keep_sched_at|apply L11_sched_at].
  Qed.

  (* ---- one entry of evaluate_impl on graph g (fresh or resumed) ---- *)
  Definition entry (f : nat) (rr : bool) (g : nat) (t : Z) (w : world) : world := eval_graph (S f) T beh rr g t w.

  (* every node of g is evaluated at most once per entry *)
  Lemma entry_once f rr g t w j : (cnt g j (entry f rr g t w) <= cnt g j w + 1)%nat.
  Proof.
    unfold entry. cbn [eval_graph]. cbv zeta.
    match goal with |- (cnt g j (if negb (ok (scan _ _ ?ev _ ?st ?n ?w1)) then _ else _) <= _)%nat =>
      assert (C1 : cnt g j w1 = cnt g j w); [|destruct (scan_once ev g (fr_eval_graph rr f) n st w1) as [_ C2]; specialize (C2 j)] end.
    { destruct (_ && _); [apply L11_upd_g|]. rewrite (L11_emit [10; Z.of_nat g; t] _ ltac:(intros; reflexivity) g j). rewrite !(L11_upd_g _ _ _ g j). reflexivity. }
    rewrite C1 in C2.
    match goal with |- (cnt g j (if negb (ok ?ww) then _ else _) <= _)%nat => set (w2 := ww) in * end.
    assert (B : (cnt g j w2 <= cnt g j w + 1)%nat).
    { revert C2. match goal with |- context [if ?b then 1%nat else 0%nat] => destruct b end; intros; fold w2 in C2; lia. }
    destruct (negb (ok w2)); [rewrite (L11_upd_g _ _ _ g j); auto|].
    rewrite (L11_upd_g _ _ _ g j).
    destruct (gc_parent (gcfg_at T g)) as [[pg pn]|]; [|rewrite (L11_upd_g _ _ _ g j); auto].
    destruct (_ <? _); [|rewrite (L11_upd_g _ _ _ g j); auto].
    rewrite (L11_sched_at _ _ _ _ _ _ g j), (L11_upd_g _ _ _ g j); auto.
  Qed.

  (* a RESUMED entry - the previous one was suspended (not failed) with the cursor on node k <> 0 - evaluates
     no node before k again *)
  Lemma resume_skips_evaluated f rr g t w k j :
    (g < length (w_gs w))%nat -> g_failed (gat g w) = false -> g_cursor (gat g w) = Z.of_nat k -> k <> 0%nat ->
    (j < k)%nat -> (cnt g j (entry f rr g t w) <= cnt g j w)%nat.
  Proof.
    intros Lg Hf Hk Hk0 Hj. unfold entry. cbn [eval_graph]. cbv zeta.
    rewrite Hf, Hk. replace (Z.of_nat k =? 0) with false by lia. replace (Z.of_nat k =? -1) with false by lia.
    replace ((if rr then negb false else true) && negb false && negb false) with true by (destruct rr; reflexivity).
    set (w0 := upd_g g (fun s => g_set_flags (g_started s) true false (g_set_now t s)) w).
    assert (E0 : g_cursor (gat g w0) = Z.of_nat k) by (unfold w0; rewrite gat_upd_same; auto).
    rewrite E0, Nat2Z.id.
    destruct (scan_once (eval_graph f T beh rr) g (fr_eval_graph rr f) (length (gc_nodes (gcfg_at T g)) - k) k w0) as [_ C2].
    specialize (C2 j). replace (k <=? j)%nat with false in C2 by lia. simpl in C2.
    assert (C0 : cnt g j w0 = cnt g j w) by apply L11_upd_g. rewrite C0 in C2.
    match goal with |- (cnt g j (if negb (ok ?ww) then _ else _) <= _)%nat => set (w2 := ww) in * end.
    destruct (negb (ok w2)); [rewrite (L11_upd_g _ _ _ g j); lia|].
    rewrite (L11_upd_g _ _ _ g j).
    destruct (gc_parent (gcfg_at T g)) as [[pg pn]|]; [|rewrite (L11_upd_g _ _ _ g j); lia].
    destruct (_ <? _); [|rewrite (L11_upd_g _ _ _ g j); lia].
    rewrite (L11_sched_at _ _ _ _ _ _ g j), (L11_upd_g _ _ _ g j); lia.
  Qed.

  Lemma sched_local_err_cases g i when w : w_err (sched_local g i when w) = w_err w \/ w_err (sched_local g i when w) = 3.
  Proof. unfold sched_local; cbv zeta. destruct (_ <? _); [right; reflexivity|]. destruct (_ || _); left; reflexivity. Qed.

  Lemma sched_at_err_cases d : forall g i when w,
    w_err (sched_at d T g i when w) = w_err w \/ w_err (sched_at d T g i when w) = 3 \/ w_err (sched_at d T g i when w) = 9.
  Proof.
    induction d as [|d IH]; intros g i when w; simpl.
    - destruct (gc_parent _) as [[pg pn]|]; [right; right; reflexivity|]. destruct (sched_local_err_cases g i when w); auto.
    - destruct (gc_parent _) as [[pg pn]|]; [|destruct (sched_local_err_cases g i when w); auto].
      set (w1 := sched_local g i _ w). assert (E1 := sched_local_err_cases g i (Z.max (Z.max when (now_of pg w)) (now_of 0 w)) w). fold w1 in E1.
      destruct (negb (ok w1)); [destruct E1; auto|].
      match goal with |- context [if ?b then sched_at d T pg pn ?wh ?w2 else _] => assert (E2 : w_err w2 = w_err w1) by (destruct (_ && _); reflexivity) end.
      destruct (g_started _ && negb _).
      + match goal with |- context [sched_at d T pg pn ?wh ?w2] => destruct (IH pg pn wh w2) as [H|[H|H]] end; rewrite H; auto.
        rewrite E2. destruct E1 as [E1|E1]; rewrite E1; auto.
      + rewrite E2. destruct E1 as [E1|E1]; rewrite E1; auto.
  Qed.

  (* an entry that is PAUSED (some node's evaluate returned false) leaves the cursor ON that node, with no
     node after it evaluated, and evaluation_failed clear *)
  Lemma entry_suspended f rr g t w :
    (g < length (w_gs w))%nat -> ok w = true -> w_err (entry f rr g t w) = PAUSED ->
    g_failed (gat g (entry f rr g t w)) = false
    /\ exists c, g_cursor (gat g (entry f rr g t w)) = Z.of_nat c
                 /\ forall j, (c < j)%nat -> (cnt g j (entry f rr g t w) <= cnt g j w)%nat.
  Proof.
    intros Lg Hok Hbad. unfold entry in *. cbn [eval_graph] in *. cbv zeta in *.
    match type of Hbad with w_err (if negb (ok (scan _ _ ?ev _ ?st ?n ?ww)) then _ else _) = _ => set (w1 := ww) in * end.
    match type of Hbad with w_err (if negb (ok (scan _ _ ?ev _ ?st _ w1)) then _ else _) = _ => set (st0 := st) in * end.
    set (n0 := (length (gc_nodes (gcfg_at T g)) - st0)%nat) in *.
    assert (L1 : (g < length (w_gs w1))%nat).
    { unfold w1. destruct (_ && _); [rewrite upd_g_len; auto|]. simpl. rewrite !update_length. auto. }
    assert (O1 : ok w1 = true) by (unfold w1; destruct (_ && _); exact Hok).
    assert (C1 : forall j, cnt g j w1 = cnt g j w).
    { intros j. unfold w1. destruct (_ && _); [apply L11_upd_g|].
      rewrite (L11_emit [10; Z.of_nat g; t] _ ltac:(intros; reflexivity) g j). rewrite !(L11_upd_g _ _ _ g j). reflexivity. }
    set (w2 := scan T beh (eval_graph f T beh rr) g st0 n0 w1) in *.
    destruct (ok w2) eqn:E2; cbn [negb] in *.
    - (* the scan completed: the tail can only fail with "schedule in the past", never pause *)
      exfalso. unfold ok in E2. unfold upd_g in Hbad. simpl w_err in Hbad. unfold PAUSED in Hbad.
      destruct (gc_parent (gcfg_at T g)) as [[pg pn]|]; [|simpl w_err in Hbad; lia].
      destruct (_ <? _); [|simpl w_err in Hbad; lia].
      match type of Hbad with w_err (sched_at ?d T pg pn ?wh ?ww) = _ => destruct (sched_at_err_cases d pg pn wh ww) as [H|[H|H]] end;
        rewrite H in Hbad; simpl w_err in Hbad; lia.
    - destruct (scan_exit (eval_graph f T beh rr) g (fr_eval_graph rr f) n0 st0 w1 L1 O1 E2) as (c & _ & Ec & Hj).
      fold w2 in Ec, Hj.
      assert (L2 : (g < length (w_gs w2))%nat).
      { destruct (scan_once (eval_graph f T beh rr) g (fr_eval_graph rr f) n0 st0 w1) as [[L _] _]. fold w2 in L. lia. }
      assert (Hb2 : w_err w2 = PAUSED) by exact Hbad.
      rewrite gat_upd_same by auto. split; [simpl; rewrite Hb2; reflexivity|]. exists c. split; [exact Ec|].
      intros j Hlt. rewrite (L11_upd_g _ _ _ g j). rewrite <- C1. apply Hj; auto.
  Qed.

  (* THE PAIR: a paused entry followed by its re-entry (same graph, same time): every node other than the
     one the cycle was suspended on is evaluated at most once over both *)
  Theorem pause_resume_once f f' rr g t w j :
    (g < length (w_gs w))%nat -> ok w = true ->
    let w' := entry f rr g t w in
    w_err w' = PAUSED ->
    j <> Z.to_nat (g_cursor (gat g w')) ->
    (cnt g j (entry f' rr g t (set_err 0 w')) <= cnt g j w + 1)%nat.
  Proof.
    intros Lg Hok w' Hp Hj.
    destruct (entry_suspended f rr g t w Lg Hok Hp) as (Hf & c & Ec & Hafter). fold w' in Hf, Ec, Hafter.
    rewrite Ec, Nat2Z.id in Hj.
    assert (L' : (g < length (w_gs (set_err 0 w')))%nat).
    { destruct (fr_eval_graph rr (S f) g t w) as [L _]. change (g < length (w_gs (eval_graph (S f) T beh rr g t w)))%nat. rewrite L. auto. }
    assert (C' : cnt g j (set_err 0 w') = cnt g j w') by reflexivity.
    destruct (lt_dec c j).
    - assert (A := entry_once f' rr g t (set_err 0 w') j). specialize (Hafter j l). lia.
    - assert (Hlt : (j < c)%nat) by lia.
      assert (A := resume_skips_evaluated f' rr g t (set_err 0 w') c j L' Hf Ec ltac:(lia) Hlt).
      assert (B := entry_once f rr g t w j). fold w' in B. lia.
  Qed.

  (* a resumed entry that is paused again leaves the cursor at or after where it resumed *)
  Lemma resumed_suspended f rr g t w k :
    (g < length (w_gs w))%nat -> ok w = true ->
    g_failed (gat g w) = false -> g_cursor (gat g w) = Z.of_nat k -> k <> 0%nat ->
    w_err (entry f rr g t w) = PAUSED ->
    exists c, (k <= c)%nat /\ g_cursor (gat g (entry f rr g t w)) = Z.of_nat c /\ g_failed (gat g (entry f rr g t w)) = false.
  Proof.
    intros Lg Hok Hf Hk Hk0 Hbad. unfold entry in *. cbn [eval_graph] in *. cbv zeta in *.
    rewrite Hf, Hk in *. replace (Z.of_nat k =? 0) with false in * by lia. replace (Z.of_nat k =? -1) with false in * by lia.
    replace ((if rr then negb false else true) && negb false && negb false) with true in * by (destruct rr; reflexivity).
    set (w0 := upd_g g (fun s => g_set_flags (g_started s) true false (g_set_now t s)) w) in *.
    assert (E0 : g_cursor (gat g w0) = Z.of_nat k) by (unfold w0; rewrite gat_upd_same; auto).
    rewrite E0, Nat2Z.id in *.
    assert (L0 : (g < length (w_gs w0))%nat) by (unfold w0; rewrite upd_g_len; auto).
    set (n0 := (length (gc_nodes (gcfg_at T g)) - k)%nat) in *.
    set (w2 := scan T beh (eval_graph f T beh rr) g k n0 w0) in *.
    destruct (ok w2) eqn:E2; cbn [negb] in *.
    - exfalso. unfold ok in E2. unfold upd_g in Hbad. simpl w_err in Hbad. unfold PAUSED in Hbad.
      destruct (gc_parent (gcfg_at T g)) as [[pg pn]|]; [|simpl w_err in Hbad; lia].
      destruct (_ <? _); [|simpl w_err in Hbad; lia].
      match type of Hbad with w_err (sched_at ?d T pg pn ?wh ?ww) = _ => destruct (sched_at_err_cases d pg pn wh ww) as [H|[H|H]] end;
        rewrite H in Hbad; simpl w_err in Hbad; lia.
    - destruct (scan_exit (eval_graph f T beh rr) g (fr_eval_graph rr f) n0 k w0 L0 Hok E2) as (c & Hc & Ec & _).
      fold w2 in Ec.
      assert (L2 : (g < length (w_gs w2))%nat).
      { destruct (scan_once (eval_graph f T beh rr) g (fr_eval_graph rr f) n0 k w0) as [[L _] _]. fold w2 in L. lia. }
      assert (Hb2 : w_err w2 = PAUSED) by exact Hbad.
      exists c. rewrite gat_upd_same by auto. split; [lia|split; [exact Ec|simpl; rewrite Hb2; reflexivity]].
  Qed.

  (* the owner's re-entry loop on graph g (what kind 4 / mesh_ does), any number of times *)
  Fixpoint resume_loop (f : nat) (rr : bool) (g : nat) (t : Z) (n : nat) (w : world) : world :=
    match n with
    | O => w
    | S n' => if w_err w =? PAUSED then resume_loop f rr g t n' (entry f rr g t (set_err 0 w)) else w
    end.

  (* ANY NUMBER OF RESUMES: once the cursor of a suspended cycle has passed node j, no number of re-entries
     of that cycle evaluates node j again *)
  Theorem passed_never_again f rr g t j : forall n w k,
    (g < length (w_gs w))%nat -> g_failed (gat g w) = false -> g_cursor (gat g w) = Z.of_nat k -> (j < k)%nat ->
    (cnt g j (resume_loop f rr g t n w) <= cnt g j w)%nat.
  Proof.
    induction n as [|n IH]; intros w k Lg Hf Hk Hj; simpl; [lia|].
    destruct (w_err w =? PAUSED) eqn:Ep; [|lia].
    set (w1 := set_err 0 w).
    assert (A := resume_skips_evaluated f rr g t w1 k j Lg Hf Hk ltac:(lia) Hj).
    destruct (w_err (entry f rr g t w1) =? PAUSED) eqn:Ep2.
    - destruct (resumed_suspended f rr g t w1 k Lg eq_refl Hf Hk ltac:(lia) ltac:(lia)) as (c & Hc & Ec & Hf2).
      assert (L2 : (g < length (w_gs (entry f rr g t w1)))%nat).
      { destruct (fr_eval_graph rr (S f) g t w1) as [L _]. change (g < length (w_gs (eval_graph (S f) T beh rr g t w1)))%nat. rewrite L. auto. }
      specialize (IH (entry f rr g t w1) c L2 Hf2 Ec ltac:(lia)).
      change (cnt g j w1) with (cnt g j w) in A. lia.
    - destruct n; simpl; [|rewrite Ep2]; change (cnt g j w1) with (cnt g j w) in A; lia.
  Qed.
End ONCE.
