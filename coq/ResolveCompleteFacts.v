(* ResolveCompleteFacts.v — Part E: completeness of the matchers.

   If some substitution sigma that extends the current map makes the pattern an instance of
   the argument, the matcher succeeds and its result is still below sigma (it binds nothing
   sigma does not bind, and binds it to the same thing).  Hence a failed match means that NO
   consistent assignment of the variables exists, and a successful one is the least such
   assignment.  Stated for scalar patterns, sizes, and time-series patterns without a TSB
   schema variable (a TSB schema variable compares up to bundle names, so "the same thing"
   would have to be read up to [tty_equiv] there). *)
Require Import Base Resolve ResolveMatchFacts.
From Coq Require Import ZifyBool.

Lemma sub_cons_in {A} (l s : list (Z * A)) v x : sub l s -> afind v s = Some x -> sub ((v, x) :: l) s.
Proof.
  intros H Hv k y. cbn [afind]. destruct (v =? k) eqn:E; auto.
  intros Hy. inversion Hy; subst. assert (v = k) by lia. subst. auto.
Qed.

Lemma extends_put_sc_in m s v x : extends m s -> afind v (r_sc s) = Some x -> extends (put_sc m v x) s.
Proof. intros [A [B C]] H. unfold extends, put_sc; cbn. repeat split; auto. apply sub_cons_in; auto. Qed.
Lemma extends_put_ts_in m s v x : extends m s -> afind v (r_ts s) = Some x -> extends (put_ts m v x) s.
Proof. intros [A [B C]] H. unfold extends, put_ts; cbn. repeat split; auto. apply sub_cons_in; auto. Qed.
Lemma extends_put_sz_in m s v x : extends m s -> afind v (r_sz s) = Some x -> extends (put_sz m v x) s.
Proof. intros [A [B C]] H. unfold extends, put_sz; cbn. repeat split; auto. apply sub_cons_in; auto. Qed.

Lemma match_list_complete {P T : Type} (f : P -> T -> rmap -> option rmap) (g : rmap -> P -> T -> bool) ps :
  Forall (fun p => forall t m s, extends m s -> g s p t = true -> exists m', f p t m = Some m' /\ extends m' s) ps ->
  forall ts m s, extends m s -> forall2b (g s) ps ts = true -> exists m', match_list f ps ts m = Some m' /\ extends m' s.
Proof.
  induction 1 as [|p r Hp _ IH]; intros [|t ts] m s X; cbn [match_list forall2b]; try discriminate.
  - intros _. exists m. auto.
  - intros H. apply andb_prop in H. destruct H as [H1 H2].
    destruct (Hp _ _ _ X H1) as [m1 [E1 X1]]. rewrite E1. apply IH; auto.
Qed.

Lemma smatch_complete p : forall s m sg, extends m sg -> sinst sg p s = true ->
  exists m', smatch p s m = Some m' /\ extends m' sg.
Proof.
  induction p as [v cn | c | | c IH | c IH | ps IH | c IH | k v IHk IHv] using spat_ind'; intros s m sg X; cbn [smatch sinst].
  - destruct (afind v (r_sc sg)) as [b|] eqn:Eb; [|discriminate]. intros H. apply andb_prop in H. destruct H as [H1 H2].
    destruct (afind v (r_sc m)) as [b'|] eqn:Em.
    + pose proof X as [_ [Xs _]]. rewrite (Xs _ _ Em) in Eb. inversion Eb; subst. rewrite H1, H2. cbn [andb].
      exists m. auto.
    + rewrite H2. exists (put_sc m v s). split; auto. apply extends_put_sc_in; auto.
      apply sty_eqb_eq in H1. subst. auto.
  - intros H. rewrite H. exists m. auto.
  - destruct s; try discriminate; intros _; exists m; auto.
  - destruct s; try discriminate; auto. destruct (hom_elem l); [auto | discriminate].
  - destruct s; try discriminate; auto. destruct (hom_elem l); [auto | discriminate].
  - destruct s; try discriminate.
    apply (match_list_complete (fun q x m => smatch q x m) sinst ps); auto.
  - destruct s; try discriminate; auto.
  - destruct s; try discriminate. intros H. apply andb_prop in H. destruct H as [H1 H2].
    destruct (IHk _ _ _ X H1) as [m1 [E1 X1]]. rewrite E1. apply IHv; auto.
Qed.

Lemma szmatch_complete sz n m sg : extends m sg -> szinst sg sz n = true ->
  exists m', szmatch sz n m = Some m' /\ extends m' sg.
Proof.
  intros X. destruct sz as [k|v cn]; cbn [szmatch szinst].
  - intros H. rewrite H. exists m. auto.
  - destruct (afind v (r_sz sg)) as [b|] eqn:Eb; [|discriminate]. intros H. apply andb_prop in H. destruct H as [H1 H2].
    destruct (afind v (r_sz m)) as [b'|] eqn:Em.
    + pose proof X as [_ [_ Xz]]. rewrite (Xz _ _ Em) in Eb. inversion Eb; subst. rewrite H1, H2. cbn [andb].
      exists m. auto.
    + rewrite H2. exists (put_sz m v n). split; auto. apply extends_put_sz_in; auto.
      assert (b = n) by lia. subst. auto.
Qed.

(* no TSB schema variable anywhere in the pattern *)
Fixpoint no_bv (p : tpat) : bool :=
  match p with
  | PTsbVar _ => false
  | PTsl _ e => no_bv e
  | PTsd _ v => no_bv v
  | PTsb _ _ fps => forallb (fun fq => no_bv (snd fq)) fps
  | PRef q => no_bv q
  | _ => true
  end.

Lemma match_list_complete_fields (Q : rmap -> Prop) (f : tpat -> tty -> rmap -> option rmap) (g : rmap -> tpat -> tty -> bool)
      (fps : list (Z * tpat)) :
  Forall (fun fq => no_bv (snd fq) = true -> forall t m s, Q s -> extends m s -> g s (snd fq) t = true ->
                    exists m', f (snd fq) t m = Some m' /\ extends m' s) fps ->
  forallb (fun fq => no_bv (snd fq)) fps = true ->
  forall (tfs : list (Z * tty)) m s, Q s -> extends m s -> forall2b (fun fq gx => g s (snd fq) (snd gx)) fps tfs = true ->
  exists m', match_list (fun fq gx m => f (snd fq) (snd gx) m) fps tfs m = Some m' /\ extends m' s.
Proof.
  induction 1 as [|fq r Hq _ IH]; intros HB [|gx tfs] m s HQ X; cbn [match_list forall2b]; try discriminate.
  - intros _. exists m. auto.
  - cbn [forallb] in HB. apply andb_prop in HB. destruct HB as [HB1 HB2].
    intros H. apply andb_prop in H. destruct H as [H1 H2].
    destruct (Hq HB1 _ _ _ HQ X H1) as [m1 [E1 X1]]. rewrite E1. apply IH; auto.
Qed.

Lemma tmatch_complete p : no_bv p = true -> forall t m sg, extends m sg -> tinst sg p t = true ->
  exists m', tmatch p t m = Some m' /\ extends m' sg.
Proof.
  induction p as [v cn | c | sp | sp | sz e IH | k v IH | a per mn sp | nd nm fps IH | v | q IH | ] using tpat_ind';
    intros HB t0 m sg X; cbn [tmatch tinst is_pref]; cbn [no_bv] in HB.
  - destruct (afind v (r_ts sg)) as [b|] eqn:Eb; [|discriminate]. intros H. apply andb_prop in H. destruct H as [H1 H2].
    destruct (afind v (r_ts m)) as [b'|] eqn:Em.
    + pose proof X as [Xt _]. rewrite (Xt _ _ Em) in Eb. inversion Eb; subst. rewrite H1, H2. cbn [andb]. exists m. auto.
    + rewrite H2. exists (put_ts m v (strip_refs t0)). split; auto. apply extends_put_ts_in; auto.
      apply tty_eqb_eq in H1. subst. auto.
  - intros H. rewrite H. exists m. auto.
  - destruct (strip_refs t0); try discriminate. apply smatch_complete; auto.
  - destruct (strip_refs t0); try discriminate. apply smatch_complete; auto.
  - destruct (strip_refs t0); try discriminate. intros H. apply andb_prop in H. destruct H as [H1 H2].
    destruct (szmatch_complete _ _ _ _ X H1) as [m1 [E1 X1]]. rewrite E1. apply IH; auto.
  - destruct (strip_refs t0); try discriminate. intros H. apply andb_prop in H. destruct H as [H1 H2].
    destruct (smatch_complete _ _ _ _ X H1) as [m1 [E1 X1]]. rewrite E1. apply IH; auto.
  - destruct (strip_refs t0); try discriminate. intros H. apply andb_prop in H. destruct H as [H1 H2].
    destruct (smatch_complete _ _ _ _ X H1) as [m1 [E1 X1]]. rewrite E1, H2. exists m1. auto.
  - destruct (strip_refs t0); try discriminate. intros H. apply andb_prop in H. destruct H as [H1 H2]. rewrite H1.
    apply (match_list_complete_fields (fun _ => True) tmatch tinst fps); auto.
    eapply Forall_impl; [|exact IH]. cbn beta. intros fq Hq Hb t1 m1 s1 _. apply Hq; auto.
  - discriminate.
  - destruct t0; try discriminate. apply IH; auto.
  - destruct (strip_refs t0); try discriminate. intros _. exists m. auto.
Qed.

(* no scalar variable is bound to a named bundle: the input direction's "a variable bound to a bundle takes any
   descendant" rule makes matching depend on which position binds first, so completeness is stated without it *)
Definition no_bundle_binding (sg : rmap) : Prop :=
  forall v b, afind v (r_sc sg) = Some b -> bundle_id b = None.

Lemma bundle_is_a_base s b : bundle_is_a s b = true -> bundle_id b <> None.
Proof. destruct s, b; cbn; discriminate. Qed.

Lemma imatch_complete p : no_bv p = true -> forall t m sg, no_bundle_binding sg -> extends m sg -> iinst sg p t = true ->
  exists m', imatch p t m = Some m' /\ extends m' sg.
Proof.
  induction p as [v cn | c | sp | sp | sz e IH | k v IH | a per mn sp | nd nm fps IH | v | q IH | ] using tpat_ind';
    intros HB t0 m sg NB X; cbn [imatch iinst]; cbn [no_bv] in HB.
  - apply tmatch_complete; auto.
  - intros H. rewrite H. exists m. auto.
  - destruct (strip_refs t0); try discriminate. intros H.
    assert (sinst sg sp s = true) as HS.
    { apply orb_prop in H. destruct H as [H|H]; auto. destruct sp; cbn [bound_bundle_accepts] in H; try discriminate.
      destruct (afind v (r_sc sg)) as [b|] eqn:E; [|discriminate]. apply bundle_is_a_base in H. specialize (NB _ _ E). contradiction. }
    destruct sp; try (apply smatch_complete; auto; fail).
    destruct (afind v (r_sc m)) as [b|] eqn:E; [|apply smatch_complete; auto].
    destruct (bundle_is_a s b) eqn:EB; [|apply smatch_complete; auto].
    apply bundle_is_a_base in EB. pose proof X as [_ [Xs _]]. specialize (NB _ _ (Xs _ _ E)). contradiction.
  - apply tmatch_complete; auto.
  - destruct (strip_refs t0); try discriminate. intros H. apply andb_prop in H. destruct H as [H1 H2].
    destruct (szmatch_complete _ _ _ _ X H1) as [m1 [E1 X1]]. rewrite E1. apply IH; auto.
  - destruct (strip_refs t0); try discriminate. intros H. apply andb_prop in H. destruct H as [H1 H2].
    destruct (smatch_complete _ _ _ _ X H1) as [m1 [E1 X1]]. rewrite E1. apply IH; auto.
  - apply tmatch_complete; auto.
  - destruct (strip_refs t0); try discriminate. intros H. apply andb_prop in H. destruct H as [H1 H2]. rewrite H1.
    apply (match_list_complete_fields no_bundle_binding imatch iinst fps); auto.
  - discriminate.
  - apply IH; auto.
  - intros _. exists m. auto.
Qed.
