(* ResolveSubstFacts.v — Part D: substituting the bindings into a pattern gives the
   argument type, up to exactly the slack the matcher allows.

   [srel s' s]  (scalar layer): equal, except that the substitution of a homogeneous
                tuple pattern tuple[T, ...] is the variadic tuple while the argument may
                be a fixed tuple whose fields are all T.
   [drel a b]   (time-series layer, on dereferenced schemas): equal up to bundle names,
                a SIGNAL on the pattern side accepts anything, a TSL pattern of size 0
                accepts any size, scalars related by [srel].
   [accepts_in t' t] := drel (deref t') (deref t): REF wrappers are transparent in the
                input direction (the consumer adapts). *)
Require Import Base Resolve ResolveMatchFacts.
From Coq Require Import ZifyBool.

Fixpoint srel (a b : sty) {struct a} : bool :=
  match a, b with
  | SAtom x, SAtom y => x =? y
  | STuple l, STuple l' => forall2b (fun x y => srel x y) l l'
  | SList e, SList e' => srel e e'
  | SList e, STuple l => match hom_elem l with Some x => srel e x | None => false end
  | SSet e, SSet e' => srel e e'
  | SMap k v, SMap k' v' => srel k k' && srel v v'
  | SBundle i ps, SBundle j ps' => sty_eqb (SBundle i ps) (SBundle j ps')
  | _, _ => false
  end.

Fixpoint drel (a b : tty) {struct a} : bool :=
  match a, b with
  | TSignal, _ => true
  | TTs x, TTs y => srel x y || bundle_is_a y x        (* a TS[Base] position takes a TS[Derived] *)
  | TTss x, TTss y => srel x y
  | TTsl x n, TTsl y n' => ((n =? 0) || (n =? n')) && drel x y
  | TTsd k v, TTsd k' v' => srel k k' && drel v v'
  | TTsw x p m, TTsw y p' m' => srel x y && (p =? p') && (m =? m')
  | TTsb _ fs, TTsb _ fs' => forall2b (fun ft gt => (fst ft =? fst gt) && drel (snd ft) (snd gt)) fs fs'
  | TRef x, TRef y => drel x y
  | _, _ => false
  end.

Definition accepts_in (t' t : tty) : bool := drel (deref t') (deref t).

Lemma srel_refl s : srel s s = true.
Proof.
  induction s as [a | l IH | e IH | e IH | k v IHk IHv | id ps IH] using sty_ind'; cbn [srel]; auto.
  - apply Z.eqb_refl.
  - apply forall2b_refl. exact IH.
  - rewrite IHk, IHv. auto.
  - apply sty_eqb_refl.
Qed.

Lemma drel_refl t : drel t t = true.
Proof.
  induction t as [s | s | e n IH | k v IH | s p m | nm fs IH | t IH | ] using tty_ind'; cbn [drel]; auto.
  - rewrite srel_refl. auto.
  - apply srel_refl.
  - rewrite IH, Z.eqb_refl, orb_true_r. auto.
  - rewrite srel_refl, IH. auto.
  - rewrite srel_refl, !Z.eqb_refl. auto.
  - apply forall2b_refl. eapply Forall_impl; [|exact IH]. cbn beta. intros ft H. rewrite Z.eqb_refl, H. auto.
Qed.

Lemma equiv_drel a : forall b, tty_equiv a b = true -> drel a b = true.
Proof.
  induction a as [s | s | e n IH | k v IH | s p m | nm fs IH | t IH | ] using tty_ind';
    intros [s' | s' | e' n' | k' v' | s' p' m' | nm' fs' | t' | ]; cbn [tty_equiv drel]; try discriminate; auto; intros H.
  - apply sty_eqb_eq in H. subst. rewrite srel_refl. auto.
  - apply sty_eqb_eq in H. subst. apply srel_refl.
  - apply andb_prop in H. destruct H as [H1 H2]. rewrite (IH _ H2), H1, orb_true_r. auto.
  - apply andb_prop in H. destruct H as [H1 H2]. apply sty_eqb_eq in H1. subst. rewrite srel_refl, (IH _ H2). auto.
  - apply andb_prop in H. destruct H as [H1 H3]. apply andb_prop in H1. destruct H1 as [H1 H2].
    apply sty_eqb_eq in H1. subst. rewrite srel_refl, H2, H3. auto.
  - revert H. apply forall2b_impl. eapply Forall_impl; [|exact IH]. cbn beta.
    intros ft Hq gt Hx. apply andb_prop in Hx. destruct Hx as [Hf Hy]. rewrite Hf, (Hq _ Hy). auto.
Qed.

Lemma forall2b_map {A B A' B'} (f : A' -> B' -> bool) (g : A -> A') (h : B -> B') l : forall l',
  forall2b f (map g l) (map h l') = forall2b (fun x y => f (g x) (h y)) l l'.
Proof. induction l as [|x r IH]; intros [|y r']; cbn [map forall2b]; auto. rewrite IH. auto. Qed.

Lemma equiv_deref a : forall b, tty_equiv a b = true -> tty_equiv (deref a) (deref b) = true.
Proof.
  induction a as [s | s | e n IH | k v IH | s p m | nm fs IH | t IH | ] using tty_ind';
    intros [s' | s' | e' n' | k' v' | s' p' m' | nm' fs' | t' | ]; cbn [tty_equiv deref]; try discriminate; auto; intros H.
  - apply andb_prop in H. destruct H as [H1 H2]. rewrite H1, (IH _ H2). auto.
  - apply andb_prop in H. destruct H as [H1 H2]. rewrite H1, (IH _ H2). auto.
  - rewrite forall2b_map. revert H. apply forall2b_impl. eapply Forall_impl; [|exact IH]. cbn beta.
    intros ft Hq gt Hx. cbn [fst snd]. apply andb_prop in Hx. destruct Hx as [Hf Hy]. rewrite Hf, (Hq _ Hy). auto.
Qed.

Lemma deref_strip t : deref (strip_refs t) = deref t.
Proof. induction t; cbn [strip_refs deref]; auto. Qed.

Lemma strip_idem t : strip_refs (strip_refs t) = strip_refs t.
Proof. induction t; cbn [strip_refs]; auto. Qed.

Lemma deref_mk_ref t : deref (mk_ref t) = deref t.
Proof. destruct t; cbn [mk_ref deref]; auto. Qed.

Lemma deref_of_stripped t u : strip_refs t = u -> deref t = deref u.
Proof. intros <-. symmetry. apply deref_strip. Qed.

Lemma drel_of_accepts a b : tty_equiv a b || ts_bundle_is_a b a = true -> drel a b = true.
Proof.
  intros H. apply orb_prop in H. destruct H as [H|H]; [apply equiv_drel; auto|].
  destruct b, a; cbn [ts_bundle_is_a] in H; try discriminate. cbn [drel]. rewrite H. apply orb_true_r.
Qed.

(* ---- scalar layer ---- *)

Lemma mapM_forall2b {P S T} (f : P -> option S) (g : P -> T -> bool) (r : S -> T -> bool) ps :
  Forall (fun p => forall t s', g p t = true -> f p = Some s' -> r s' t = true) ps ->
  forall l l', forall2b g ps l = true -> mapM f ps = Some l' -> forall2b r l' l = true.
Proof.
  induction 1 as [|p ps' Hp _ IH]; intros [|t l] l'; cbn [forall2b mapM]; try discriminate.
  - intros _ H; inversion H; subst. auto.
  - intros H1 H2. apply andb_prop in H1. destruct H1 as [G1 G2].
    destruct (f p) as [s1|] eqn:E; cbn [obind] in H2; [|discriminate].
    destruct (mapM f ps') as [l1|] eqn:E2; cbn [option_map] in H2; [|discriminate].
    inversion H2; subst. cbn [forall2b]. rewrite (Hp _ _ G1 eq_refl), (IH _ _ G2 eq_refl). auto.
Qed.

Lemma s_subst_rel m p : forall s s', sinst m p s = true -> sresolve p m = Some s' -> srel s' s = true.
Proof.
  induction p as [v cn | c | | c IH | c IH | ps IH | c IH | k v IHk IHv] using spat_ind'; intros s s'; cbn [sinst sresolve].
  - destruct (afind v (r_sc m)) as [b|]; [|discriminate]. intros H1 H2. inversion H2; subst.
    apply andb_prop in H1. destruct H1 as [H1 _]. apply sty_eqb_eq in H1. subst. apply srel_refl.
  - intros H1 H2. inversion H2; subst. apply sty_eqb_eq in H1. subst. apply srel_refl.
  - discriminate.
  - discriminate.
  - destruct (sresolve c m) as [e'|] eqn:E; cbn [option_map]; [|discriminate]. intros H1 H2. inversion H2; subst.
    destruct s; try discriminate; cbn [srel].
    + destruct (hom_elem l); [|discriminate]. eapply IH; eauto.
    + eapply IH; eauto.
  - destruct (mapM (fun q => sresolve q m) ps) as [l'|] eqn:E; cbn [option_map]; [|discriminate]. intros H1 H2. inversion H2; subst.
    destruct s; try discriminate. cbn [srel].
    eapply (mapM_forall2b (fun q => sresolve q m) (fun q x => sinst m q x) (fun x y => srel x y)); eauto.
  - destruct (sresolve c m) as [e'|] eqn:E; cbn [option_map]; [|discriminate]. intros H1 H2. inversion H2; subst.
    destruct s; try discriminate. cbn [srel]. eapply IH; eauto.
  - destruct (sresolve k m) as [a'|] eqn:E1; cbn [obind]; [|discriminate].
    destruct (sresolve v m) as [b'|] eqn:E2; cbn [option_map]; [|discriminate]. intros H1 H2. inversion H2; subst.
    destruct s; try discriminate. cbn [srel]. apply andb_prop in H1. destruct H1 as [G1 G2].
    rewrite (IHk _ _ G1 eq_refl), (IHv _ _ G2 eq_refl). auto.
Qed.

Lemma sz_subst_rel m sz n n' : szinst m sz n = true -> szresolve sz m = Some n' -> (n' =? 0) || (n' =? n) = true.
Proof.
  destruct sz as [k|v cn]; cbn [szinst szresolve].
  - intros H1 H2. inversion H2; subst. auto.
  - destruct (afind v (r_sz m)) as [b|]; [|discriminate]. intros H1 H2. inversion H2; subst.
    apply andb_prop in H1. destruct H1 as [H1 _]. rewrite H1. apply orb_true_r.
Qed.

(* ---- time-series layer ---- *)

Lemma fields_subst_rel (m : rmap) (g : rmap -> tpat -> tty -> bool) fps :
  Forall (fun fq => forall t t', g m (snd fq) t = true -> tresolve (snd fq) m = Some t' -> drel (deref t') (deref t) = true) fps ->
  forall tfs fs', fnames_eqb fps tfs = true ->
    forall2b (fun fq gx => g m (snd fq) (snd gx)) fps tfs = true ->
    mapM (fun fq => option_map (pair (fst fq)) (tresolve (snd fq) m)) fps = Some fs' ->
    forall2b (fun ft gt => (fst ft =? fst gt) && drel (snd ft) (snd gt))
             (map (fun ft => (fst ft, deref (snd ft))) fs') (map (fun ft => (fst ft, deref (snd ft))) tfs) = true.
Proof.
  unfold fnames_eqb.
  induction 1 as [|fq fps' Hq _ IH]; intros [|gx tfs] fs'; cbn [forall2b mapM map length combine forallb]; try discriminate.
  - intros _ _ H; inversion H; subst. auto.
  - intros HN H1 H2. apply andb_prop in HN. destruct HN as [HL HN]. apply andb_prop in HN. destruct HN as [HF HN].
    apply andb_prop in H1. destruct H1 as [G1 G2].
    destruct (tresolve (snd fq) m) as [t1|] eqn:E; cbn [option_map obind] in H2; [|discriminate].
    destruct (mapM (fun fq0 => option_map (pair (fst fq0)) (tresolve (snd fq0) m)) fps') as [l1|] eqn:E2;
      cbn [option_map] in H2; [|discriminate].
    inversion H2; subst. cbn [map forall2b fst snd].
    rewrite (Hq _ _ G1 eq_refl). cbn [fst snd] in HF. rewrite HF. cbn [andb].
    apply IH; auto. cbn [length] in HL. rewrite HN. replace (length fps' =? length tfs)%nat with true; auto.
Qed.

(* generic direction: a non-REF position compares against the REF-stripped argument *)
Lemma t_subst_rel m p : forall t t', tinst m p t = true -> tresolve p m = Some t' -> drel (deref t') (deref t) = true.
Proof.
  induction p as [v cn | c | sp | sp | sz e IH | k v IH | a per mn sp | nd nm fps IH | v | q IH | ] using tpat_ind';
    intros t0 t'; cbn [tinst tresolve is_pref].
  - destruct (afind v (r_ts m)) as [b|]; [|discriminate]. intros H1 H2. inversion H2; subst.
    apply andb_prop in H1. destruct H1 as [H1 _]. apply tty_eqb_eq in H1. subst. rewrite deref_strip. apply drel_refl.
  - intros H1 H2. inversion H2; subst. rewrite <- (deref_strip t0). apply equiv_drel, equiv_deref. auto.
  - destruct (sresolve sp m) as [s'|] eqn:E; cbn [option_map]; [|discriminate]. intros H1 H2. inversion H2; subst.
    destruct (strip_refs t0) eqn:ES; try discriminate. rewrite (deref_of_stripped _ _ ES). cbn [deref drel].
    rewrite (s_subst_rel _ _ _ _ H1 E). auto.
  - destruct (sresolve sp m) as [s'|] eqn:E; cbn [option_map]; [|discriminate]. intros H1 H2. inversion H2; subst.
    destruct (strip_refs t0) eqn:ES; try discriminate. rewrite (deref_of_stripped _ _ ES). cbn [deref drel].
    eapply s_subst_rel; eauto.
  - destruct (tresolve e m) as [e'|] eqn:E1; cbn [obind]; [|discriminate].
    destruct (szresolve sz m) as [n'|] eqn:E2; cbn [option_map]; [|discriminate]. intros H1 H2. inversion H2; subst.
    destruct (strip_refs t0) eqn:ES; try discriminate. rewrite (deref_of_stripped _ _ ES). cbn [deref drel].
    apply andb_prop in H1. destruct H1 as [G1 G2]. rewrite (sz_subst_rel _ _ _ _ G1 E2), (IH _ _ G2 eq_refl). auto.
  - destruct (sresolve k m) as [k'|] eqn:E1; cbn [obind]; [|discriminate].
    destruct (tresolve v m) as [v'|] eqn:E2; cbn [option_map]; [|discriminate]. intros H1 H2. inversion H2; subst.
    destruct (strip_refs t0) eqn:ES; try discriminate. rewrite (deref_of_stripped _ _ ES). cbn [deref drel].
    apply andb_prop in H1. destruct H1 as [G1 G2]. rewrite (s_subst_rel _ _ _ _ G1 E1), (IH _ _ G2 eq_refl). auto.
  - destruct (sresolve sp m) as [s'|] eqn:E; cbn [obind]; [|discriminate]. destruct a; [discriminate|].
    intros H1 H2. inversion H2; subst.
    destruct (strip_refs t0) eqn:ES; try discriminate. rewrite (deref_of_stripped _ _ ES). cbn [deref drel].
    apply andb_prop in H1. destruct H1 as [G1 G2]. cbn [orb] in G2. apply andb_prop in G2. destruct G2 as [G2 G3]. rewrite (s_subst_rel _ _ _ _ G1 E), G2, G3. auto.
  - destruct (mapM (fun fq => option_map (pair (fst fq)) (tresolve (snd fq) m)) fps) as [fs'|] eqn:E; cbn [option_map]; [|discriminate].
    intros H1 H2. inversion H2; subst.
    destruct (strip_refs t0) eqn:ES; try discriminate. rewrite (deref_of_stripped _ _ ES). cbn [deref drel].
    apply andb_prop in H1. destruct H1 as [G1 G2]. apply andb_prop in G1. destruct G1 as [_ GN].
    eapply (fields_subst_rel m tinst); eauto.
  - intros H1 H2. destruct (strip_refs t0) eqn:ES; try discriminate.
    rewrite H2 in H1. rewrite (deref_of_stripped _ _ ES). apply equiv_drel, equiv_deref. auto.
  - destruct (tresolve q m) as [q'|] eqn:E; cbn [option_map]; [|discriminate]. intros H1 H2. inversion H2; subst.
    destruct t0; try discriminate. rewrite deref_mk_ref. cbn [deref]. eapply IH; eauto.
  - intros H1 H2. inversion H2; subst. cbn [deref drel]. auto.
Qed.

(* input direction *)
Lemma i_subst_rel m p : forall t t', iinst m p t = true -> tresolve p m = Some t' -> accepts_in t' t = true.
Proof.
  unfold accepts_in.
  induction p as [v cn | c | sp | sp | sz e IH | k v IH | a per mn sp | nd nm fps IH | v | q IH | ] using tpat_ind';
    intros t0 t'; cbn [iinst].
  - intros H1 H2. rewrite <- (deref_strip t0). eapply t_subst_rel; eauto.
  - cbn [tresolve]. intros H1 H2. inversion H2; subst. unfold input_accepts in H1. rewrite <- (deref_strip t0).
    destruct t'; try (apply drel_of_accepts; exact H1). cbn [deref drel]. auto.
  - cbn [tresolve]. destruct (sresolve sp m) as [s'|] eqn:E; cbn [option_map]; [|discriminate]. intros H1 H2. inversion H2; subst.
    destruct (strip_refs t0) eqn:ES; try discriminate. rewrite (deref_of_stripped _ _ ES). cbn [deref drel].
    apply orb_prop in H1. destruct H1 as [H1|H1]; [rewrite (s_subst_rel _ _ _ _ H1 E); auto|].
    destruct sp; cbn [bound_bundle_accepts] in H1; try discriminate. cbn [sresolve] in E. rewrite E in H1. rewrite H1.
    apply orb_true_r.
  - intros H1 H2. rewrite <- (deref_strip t0). eapply t_subst_rel; eauto.
  - cbn [tresolve]. destruct (tresolve e m) as [e'|] eqn:E1; cbn [obind]; [|discriminate].
    destruct (szresolve sz m) as [n'|] eqn:E2; cbn [option_map]; [|discriminate]. intros H1 H2. inversion H2; subst.
    destruct (strip_refs t0) eqn:ES; try discriminate. rewrite (deref_of_stripped _ _ ES). cbn [deref drel].
    apply andb_prop in H1. destruct H1 as [G1 G2]. rewrite (sz_subst_rel _ _ _ _ G1 E2), (IH _ _ G2 eq_refl). auto.
  - cbn [tresolve]. destruct (sresolve k m) as [k'|] eqn:E1; cbn [obind]; [|discriminate].
    destruct (tresolve v m) as [v'|] eqn:E2; cbn [option_map]; [|discriminate]. intros H1 H2. inversion H2; subst.
    destruct (strip_refs t0) eqn:ES; try discriminate. rewrite (deref_of_stripped _ _ ES). cbn [deref drel].
    apply andb_prop in H1. destruct H1 as [G1 G2]. rewrite (s_subst_rel _ _ _ _ G1 E1), (IH _ _ G2 eq_refl). auto.
  - intros H1 H2. rewrite <- (deref_strip t0). eapply t_subst_rel; eauto.
  - cbn [tresolve].
    destruct (mapM (fun fq => option_map (pair (fst fq)) (tresolve (snd fq) m)) fps) as [fs'|] eqn:E; cbn [option_map]; [|discriminate].
    intros H1 H2. inversion H2; subst.
    destruct (strip_refs t0) eqn:ES; try discriminate. rewrite (deref_of_stripped _ _ ES). cbn [deref drel].
    apply andb_prop in H1. destruct H1 as [G1 G2]. apply andb_prop in G1. destruct G1 as [_ GN].
    eapply (fields_subst_rel m iinst); eauto.
  - cbn [tresolve]. intros H1 H2. destruct (strip_refs t0) eqn:ES; try discriminate.
    rewrite H2 in H1. rewrite (deref_of_stripped _ _ ES). apply equiv_drel, equiv_deref. auto.
  - cbn [tresolve]. destruct (tresolve q m) as [q'|] eqn:E; cbn [option_map]; [|discriminate]. intros H1 H2. inversion H2; subst.
    rewrite deref_mk_ref. replace (deref t0) with (deref (match t0 with TRef u => u | _ => t0 end)) by (destruct t0; auto).
    eapply IH; eauto.
  - cbn [tresolve]. intros H1 H2. inversion H2; subst. cbn [deref drel]. auto.
Qed.

(* output direction: the resolved output accepts the requested one; a top-level variable that
   took a requested REF verbatim resolves to that very REF schema *)
Lemma o_subst_rel m p t t' : oinst m p t = true -> tresolve p m = Some t' -> accepts_in t' t = true.
Proof.
  unfold accepts_in. destruct p; cbn [oinst]; try apply t_subst_rel.
  destruct (is_ref t); [|apply t_subst_rel]. cbn [tresolve].
  destruct (afind v (r_ts m)) as [b|]; [|discriminate]. intros H1 H2. inversion H2; subst. apply equiv_drel. auto.
Qed.

Require Import ResolveFacts.

(* the output the caller requested is accepted by the resolved output of the selection *)
Theorem selected_output_satisfies_request_lemma : forall cs q s e,
  resolve cs q = OSel s -> c_has_out (s_cand s) = true -> q_expected q = Some e ->
  exists t, output_of s = Some t /\ accepts_in t e = true.
Proof.
  intros cs q s e H HO HE. destruct (resolve_sel_in _ _ _ H) as [_ HT].
  destruct (try_match_sound_lemma _ _ _ _ HT) as [nargs [dused [_ [_ [_ [HR [HX _]]]]]]].
  destruct (HR HO) as [t Ht]. exists t. split; [unfold output_of; rewrite HO; auto|].
  eapply o_subst_rel; eauto.
Qed.

Lemma Forall2_weaken {A B} (P Q : A -> B -> Prop) l l' :
  (forall a b, P a b -> Q a b) -> Forall2 P l l' -> Forall2 Q l l'.
Proof. intros H. induction 1; constructor; auto. Qed.

(* every time-series argument of the selection is accepted by the substituted parameter pattern *)
Theorem selected_params_accept_arguments_lemma : forall c q m k,
  try_match c q = TMOk m k ->
  exists nargs dused, normalize (c_defaults c) (q_args q) = Some (nargs, dused) /\
  Forall2 (fun pr a => match pr, a with
                       | PIn p, ATs t => forall t', tresolve p m = Some t' -> accepts_in t' t = true
                       | PScal sp, ASc v => forall s', sresolve sp m = Some s' -> srel s' v = true \/ coercible v s' = true
                       | _, _ => True
                       end) (c_params c) nargs.
Proof.
  intros c q m k H. destruct (try_match_sound_lemma _ _ _ _ H) as [nargs [dused [HN [_ [HF _]]]]].
  exists nargs, dused. split; auto.
  eapply Forall2_weaken; [|exact HF]. intros [p|sp] [t|v| |]; cbn [arg_inst]; auto.
  - intros HI t' Ht. eapply i_subst_rel; eauto.
  - destruct sp; try (intros HI s' Hs; left; eapply s_subst_rel; eauto; fail).
    intros [->|HC] s' Hs; cbn [sresolve] in Hs; inversion Hs; subst; [left; apply srel_refl | right; auto].
Qed.

(* FINDING S1: for scalar parameters the rank is not monotone in specificity.  The generic
   Scalar[~T] accepts every value the specific Scalar[Map[~K, ~V]] accepts (and more), yet
   ranks lower (1 < 3), so the generic overload is selected for a mapping argument. *)
Theorem specific_scalar_pattern_wins_refuted_lemma :
  exists generic specific q s,
    c_params generic = [PScal (PSVar 1 [])] /\
    c_params specific = [PScal (PSMap (PSVar 2 []) (PSVar 3 []))] /\
    (forall v, exists m', smatch (PSVar 1 []) v empty_rmap = Some m') /\
    smatch (PSMap (PSVar 2 []) (PSVar 3 [])) (SAtom 1) empty_rmap = None /\
    (exists m k, try_match specific q = TMOk m k) /\
    c_rank generic < c_rank specific /\
    resolve [specific; generic] q = OSel s /\ s_cand s = generic.
Proof.
  exists (mk_cand 1 false PSignal [PScal (PSVar 1 [])]),
         (mk_cand 2 false PSignal [PScal (PSMap (PSVar 2 []) (PSVar 3 []))]),
         (mkQuery None None empty_rmap [] [ASc (SMap (SAtom 1) (SAtom 3))]).
  eexists. split; [reflexivity|]. split; [reflexivity|]. split.
  - intros v. cbn. eexists. reflexivity.
  - split; [reflexivity|]. split; [vm_compute; eexists; eexists; reflexivity|].
    split; [vm_compute; reflexivity|]. split; vm_compute; reflexivity.
Qed.

(* FINDING S1 inside a time-series parameter: TS[~T] (1 + 100) outranks TS[Mapping[~K, ~V]]
   (1 + 1 + 50 + 50): two variables at half budget plus one level of structure cost more than
   one variable at full budget. *)
Theorem specific_ts_pattern_wins_refuted_lemma :
  exists generic specific q s,
    c_params generic = [PIn (PTs (PSVar 1 []))] /\
    c_params specific = [PIn (PTs (PSMap (PSVar 2 []) (PSVar 3 [])))] /\
    (forall t m m', imatch (PTs (PSMap (PSVar 2 []) (PSVar 3 []))) t m = Some m' -> exists m'', imatch (PTs (PSVar 1 [])) t empty_rmap = Some m'') /\
    imatch (PTs (PSMap (PSVar 2 []) (PSVar 3 []))) (TTs (SAtom 1)) empty_rmap = None /\
    imatch (PTs (PSVar 1 [])) (TTs (SAtom 1)) empty_rmap <> None /\
    (exists m k, try_match specific q = TMOk m k) /\
    c_rank generic = 101 /\ c_rank specific = 102 /\
    resolve [specific; generic] q = OSel s /\ s_cand s = generic.
Proof.
  exists (mk_cand 1 false PSignal [PIn (PTs (PSVar 1 []))]),
         (mk_cand 2 false PSignal [PIn (PTs (PSMap (PSVar 2 []) (PSVar 3 [])))]),
         (mkQuery None None empty_rmap [] [ATs (TTs (SMap (SAtom 1) (SAtom 3)))]).
  eexists. split; [reflexivity|]. split; [reflexivity|]. split.
  - intros t m m'. cbn [imatch]. destruct (strip_refs t); try discriminate. intros _. cbn. eexists. reflexivity.
  - split; [reflexivity|]. split; [cbn; discriminate|]. split; [vm_compute; eexists; eexists; reflexivity|].
    split; [vm_compute; reflexivity|]. split; [vm_compute; reflexivity|]. split; vm_compute; reflexivity.
Qed.
