(* FeedbackFacts.v — theorems about the feedback pair on the flat engine (Feedback.v). *)
Require Import Base Sched SchedFacts Engine EngineFacts Feedback.
From Coq Require Import ZifyBool.

(* ------------------------------------------------------------------ *)
(* Part 1.  What the evaluation of ONE node can change (frame facts)    *)
(* ------------------------------------------------------------------ *)
Section Frame.
Variable cfgs : list ncfg.
Notation n := (length cfgs).
Notation cfg := (EngineFacts.cfg cfgs).

(* node j has, in state g, a subscribed (run-time active) input bound to the output of node src:
   activate_input_slots sets the flags to the declared i_active at start, user code may change them
   with make_passive / make_active *)
Definition ract (g : gst) (src j : nat) : bool :=
  existsb (fun sa => (i_src (fst sa) =? src)%nat && snd sa) (combine (c_ins (cfg j)) (n_act (node_at j g))).

Lemma ract_act g g' src j : n_act (node_at j g') = n_act (node_at j g) -> ract g' src j = ract g src j.
Proof. intros H. unfold ract. rewrite H. reflexivity. Qed.

(* the node under evaluation did not write its output: nobody else's slot moved *)
Definition quiet (i : nat) (g g' : gst) : Prop :=
  n_val (node_at i g') = n_val (node_at i g) /\ n_lmt (node_at i g') = n_lmt (node_at i g) /\
  forall m, m <> i -> slot_at m g' = slot_at m g.

(* it notified the observers of its output now - it WROTE (n_val = Some _) or it INVALIDATED its
   output (OInvalidate: n_val = None) - and exactly its started subscribed readers are due now *)
Definition fwrote (i : nat) (g g' : gst) : Prop :=
  n_lmt (node_at i g') = g_now g /\
  (forall m, m <> i -> slot_at m g' = slot_at m g \/ (ract g i m = true /\ slot_at m g' = g_now g)) /\
  (forall m, m <> i -> (m < n)%nat -> (m < length (g_slots g))%nat -> ract g i m = true ->
             n_started (node_at m g) = true -> slot_at m g' = g_now g).

Record frame (st : bool) (i : nat) (g g' : gst) : Prop := {
  fr_now : g_now g' = g_now g;
  fr_ls : length (g_slots g') = length (g_slots g);
  fr_ln : length (g_nodes g') = length (g_nodes g);
  fr_nodes : forall m, m <> i -> node_at m g' = node_at m g;
  fr_started : n_started (node_at i g') = n_started (node_at i g);
  fr_nst : g_nst g' <= g_nst g;
  fr_gt : g_now g < g_nst g -> g_now g < g_nst g';
  fr_out : quiet i g g' \/ (st = true /\ fwrote i g g') }.

Lemma frame_refl st i g : frame st i g g.
Proof. constructor; auto; try lia. left. unfold quiet. repeat split; auto. Qed.

Lemma frame_trans st i g g1 g2 : frame st i g g1 -> frame st i g1 g2 -> frame st i g g2.
Proof.
  intros [A1 A2 A3 A4 A5 A6 A7 A8] [B1 B2 B3 B4 B5 B6 B7 B8].
  constructor.
  1-3: congruence.
  - intros m Hm. rewrite B4, A4; auto.
  - congruence.
  - lia.
  - intros H. rewrite <- A1. apply B7. rewrite A1. auto.
  - destruct A8 as [(Q1 & Q2 & Q3)|(S1 & W1 & W3 & W4)]; destruct B8 as [(R1 & R2 & R3)|(S2 & V1 & V3 & V4)].
    + left. repeat split; try congruence. intros m Hm. rewrite R3, Q3; auto.
    + right. split; auto. repeat split; try congruence.
      * intros m Hm. destruct (V3 m Hm) as [X|[X Y]]; [left; rewrite X; auto|right; split; [|congruence]].
        rewrite <- X. symmetry. apply ract_act. rewrite A4; auto.
      * intros m Hm Hn Hl Ha Hs. rewrite <- A1. apply V4; auto; try congruence.
        -- rewrite <- Ha. apply ract_act. rewrite A4; auto.
        -- rewrite A4; auto.
    + right. split; auto. repeat split; try congruence.
      * intros m Hm. rewrite R3 by auto. apply W3; auto.
      * intros m Hm Hn Hl Ha Hs. rewrite R3 by auto. apply W4; auto.
    + right. split; auto. repeat split; try congruence.
      * intros m Hm. destruct (V3 m Hm) as [X|[X Y]].
        -- rewrite X. apply W3; auto.
        -- right. split; [|congruence]. rewrite <- X. symmetry. apply ract_act. rewrite A4; auto.
      * intros m Hm Hn Hl Ha Hs. rewrite <- A1. apply V4; auto; try congruence.
        -- rewrite <- Ha. apply ract_act. rewrite A4; auto.
        -- rewrite A4; auto.
Qed.

Lemma frame_emit st i l g : frame st i g (emit l g).
Proof. constructor; auto; try (simpl; lia). left. unfold quiet. repeat split; auto. Qed.

Lemma frame_set_err st i e g : frame st i g (set_err e g).
Proof. constructor; auto; try (simpl; lia). left. unfold quiet. repeat split; auto. Qed.

Lemma node_at_upd_gen i f g :
  node_at i (upd_node i f g) = if (i <? length (g_nodes g))%nat then f (node_at i g) else node_at i g.
Proof.
  destruct (i <? length (g_nodes g))%nat eqn:E.
  - apply node_at_upd_same. apply Nat.ltb_lt; auto.
  - apply Nat.ltb_ge in E. unfold node_at, upd_node; simpl. rewrite !nth_overflow; auto. rewrite update_length; auto.
Qed.

Lemma frame_upd st i f g :
  (forall x, n_val (f x) = n_val x /\ n_lmt (f x) = n_lmt x /\ n_started (f x) = n_started x) ->
  frame st i g (upd_node i f g).
Proof.
  intros H. constructor.
  - reflexivity.
  - reflexivity.
  - unfold upd_node; simpl. apply update_length.
  - intros m Hm. apply node_at_upd_other; auto.
  - rewrite node_at_upd_gen. destruct (_ <? _)%nat; auto. apply H.
  - simpl. lia.
  - simpl. auto.
  - left. unfold quiet. rewrite node_at_upd_gen. destruct (_ <? _)%nat; repeat split; auto; apply H.
Qed.

Lemma frame_sched_self st i w g : frame st i g (schedule_node i w g).
Proof.
  destruct (schedule_node_spec i w g) as (N1 & N2 & _).
  constructor.
  - exact N1.
  - apply schedule_node_len.
  - rewrite N2; auto.
  - intros m _. apply node_at_schedule_node.
  - rewrite node_at_schedule_node; auto.
  - apply schedule_node_nst_le.
  - apply schedule_node_nst_gt.
  - left. unfold quiet. rewrite node_at_schedule_node. repeat split; auto. intros m Hm. apply schedule_node_slot_other; auto.
Qed.

Lemma frame_opt_sched st i p g : frame st i g (opt_schedule i p g).
Proof. destruct p; simpl; [apply frame_sched_self|apply frame_refl]. Qed.

(* a notification: schedule_node j now *)
Lemma sched_now_spec j g :
  let g' := schedule_node j (g_now g) g in
  g_now g' = g_now g /\ g_nodes g' = g_nodes g /\ g_nst g' = g_nst g /\ g_err g' = g_err g /\
  length (g_slots g') = length (g_slots g) /\
  (forall m, m <> j -> slot_at m g' = slot_at m g) /\
  ((j < length (g_slots g))%nat -> slot_at j g' = g_now g).
Proof.
  cbn zeta.
  destruct (schedule_node_spec j (g_now g) g) as (N1 & N2 & _ & _ & N4). specialize (N4 ltac:(lia)).
  destruct N4 as (E & Y & _).
  assert (AP : sn_applies j (g_now g) g = true) by (unfold sn_applies; lia).
  destruct (Y AP) as [YS YN].
  replace ((g_now g <? g_now g) && (g_now g <? g_nst g)) with false in YN by lia.
  repeat split; auto.
  - apply schedule_node_len.
  - intros m Hm. apply schedule_node_slot_other; auto.
  - intros Hj. unfold slot_at. rewrite YS. apply slot_at_set_same; auto.
Qed.

Lemma notify_spec l : forall j src g,
  (forall m c, nth_error l m = Some c -> c = cfg (j + m)) ->
  let g' := notify_from l j src g in
  g_now g' = g_now g /\ g_nodes g' = g_nodes g /\ g_nst g' = g_nst g /\ g_err g' = g_err g /\
  length (g_slots g') = length (g_slots g) /\
  (forall m, slot_at m g' = slot_at m g \/
             ((j <= m < j + length l)%nat /\ ract g src m = true /\ slot_at m g' = g_now g)) /\
  (forall m, (j <= m < j + length l)%nat -> (m < length (g_slots g))%nat -> ract g src m = true ->
             n_started (node_at m g) = true -> slot_at m g' = g_now g).
Proof.
  induction l as [|c r IH]; intros j src g Hl; cbn zeta.
  - simpl. repeat split; auto. intros; simpl in *; lia.
  - simpl notify_from.
    assert (Hc : c = cfg j) by (rewrite (Hl 0%nat c eq_refl); f_equal; lia).
    set (b := existsb (fun sa => (i_src (fst sa) =? src)%nat && snd sa) (combine (c_ins c) (n_act (node_at j g))) && n_started (node_at j g)).
    set (g1 := if b then schedule_node j (g_now g) g else g).
    assert (G1 : g_now g1 = g_now g /\ g_nodes g1 = g_nodes g /\ g_nst g1 = g_nst g /\ g_err g1 = g_err g /\
                 length (g_slots g1) = length (g_slots g) /\
                 (forall m, m <> j -> slot_at m g1 = slot_at m g) /\
                 (b = true -> (j < length (g_slots g))%nat -> slot_at j g1 = g_now g) /\
                 (b = false -> slot_at j g1 = slot_at j g)).
    { unfold g1. destruct b.
      - destruct (sched_now_spec j g) as (A & B & C & D & E & F & G). repeat split; auto. discriminate.
      - repeat split; auto. discriminate. }
    destruct G1 as (A1 & A2 & A3 & A4 & A5 & A6 & A7 & A8).
    specialize (IH (S j) src g1).
    assert (Hl' : forall m c0, nth_error r m = Some c0 -> c0 = cfg (S j + m)).
    { intros m c0 Hm. rewrite (Hl (S m) c0 Hm). f_equal. lia. }
    destruct (IH Hl') as (B1 & B2 & B3 & B4 & B5 & B6 & B7).
    fold b. fold g1.
    assert (ND : forall m, node_at m g1 = node_at m g) by (intros; unfold node_at; rewrite A2; auto).
    assert (RA : forall m, ract g1 src m = ract g src m) by (intros; apply ract_act; rewrite ND; auto).
    repeat split; try congruence.
    + intros m. destruct (B6 m) as [X|(X1 & X2 & X3)].
      * destruct (Nat.eq_dec m j) as [->|Hne].
        -- destruct b eqn:Eb.
           ++ destruct (Nat.lt_ge_cases j (length (g_slots g))) as [Hlt|Hge].
              ** right. split; [simpl; lia|]. split.
                 --- unfold b in Eb. apply andb_true_iff in Eb. unfold ract. rewrite <- Hc. tauto.
                 --- rewrite X. rewrite A7; auto.
              ** left. rewrite X. unfold slot_at. rewrite !nth_overflow; auto; lia.
           ++ left. rewrite X. apply A8; auto.
        -- left. rewrite X. apply A6; auto.
      * right. split; [simpl; lia|]. split; [rewrite <- RA; auto|congruence].
    + intros m Hm Hlen Ha Hs. destruct (Nat.eq_dec m j) as [->|Hne].
      * assert (Eb : b = true).
        { unfold b. apply andb_true_iff. split; auto. unfold ract in Ha. rewrite <- Hc in Ha. exact Ha. }
        destruct (B6 j) as [X|(X1 & _)]; [|lia]. rewrite X. apply A7; auto.
      * rewrite <- A1. apply B7; auto; try (simpl in Hm; lia); [rewrite RA; auto|rewrite ND; auto].
Qed.

(* changing the output (a write or an invalidation) and notifying the subscribers *)
Lemma frame_notify i f g :
  (forall x, n_lmt (f x) = g_now g /\ n_started (f x) = n_started x) ->
  (i < length (g_nodes g))%nat ->
  frame true i g (notify_from cfgs 0 i (upd_node i f g)).
Proof.
  intros Hf Hi.
  set (g1 := upd_node i f g).
  assert (Hl : forall m c, nth_error cfgs m = Some c -> c = cfg (0 + m)).
  { intros m c Hm. apply (cfgs_nth_error cfgs m c Hm). }
  destruct (notify_spec cfgs 0%nat i g1 Hl) as (B1 & B2 & B3 & B4 & B5 & B6 & B7).
  assert (ND : forall m, node_at m (notify_from cfgs 0 i g1) = node_at m g1) by (intros; unfold node_at; rewrite B2; auto).
  assert (NI : node_at i g1 = f (node_at i g)) by (apply node_at_upd_same; auto).
  constructor.
  - rewrite B1. reflexivity.
  - rewrite B5. reflexivity.
  - rewrite B2. unfold g1, upd_node; simpl. apply update_length.
  - intros m Hm. rewrite ND. apply node_at_upd_other; auto.
  - rewrite ND, NI. apply Hf.
  - rewrite B3. simpl. lia.
  - rewrite B3. simpl. auto.
  - right. split; auto. repeat split.
    + rewrite ND, NI. apply Hf.
    + intros m Hm. destruct (B6 m) as [X|(_ & X2 & X3)]; [left; exact X|right; split; auto].
      rewrite <- X2. symmetry. apply ract_act. unfold g1. rewrite node_at_upd_other; auto.
    + intros m Hm Hn Hlen Ha Hs. apply B7; auto; try (simpl; lia).
      * rewrite <- Ha. apply ract_act. unfold g1. rewrite node_at_upd_other; auto.
      * unfold g1. rewrite node_at_upd_other; auto.
Qed.

Lemma frame_write i v g :
  (i < length (g_nodes g))%nat ->
  frame true i g (notify_from cfgs 0 i (upd_node i (set_out v (g_now g)) g)).
Proof. intros Hi. apply frame_notify; [intros x; split; reflexivity|auto]. Qed.

Lemma set_sch_keeps s x : n_val (set_sch s x) = n_val x /\ n_lmt (set_sch s x) = n_lmt x /\ n_started (set_sch s x) = n_started x.
Proof. repeat split. Qed.

(* one operation of user code of node i *)
Lemma frame_do_op st i opi o g :
  (i < length (g_nodes g))%nat -> frame st i g (do_op cfgs i st opi o g).
Proof.
  intros Hi. unfold do_op. destruct (negb (g_err g =? 0)); [apply frame_refl|]. cbn zeta.
  destruct o.
  - destruct (c_sched _); [|apply frame_refl]. destruct (schedule _ _ _ _ _) as [s' p].
    eapply frame_trans; [|apply frame_emit]. eapply frame_trans; [|apply frame_opt_sched].
    apply frame_upd; apply set_sch_keeps.
  - destruct (c_sched _); [|apply frame_refl].
    eapply frame_trans; [|apply frame_emit]. apply frame_upd; apply set_sch_keeps.
  - destruct (c_sched _); [|apply frame_refl].
    eapply frame_trans; [|apply frame_emit]. apply frame_upd; apply set_sch_keeps.
  - destruct (c_sched _); [|apply frame_refl]. destruct (pop_tag _ _ _) as [s' w].
    eapply frame_trans; [|apply frame_emit]. apply frame_upd; apply set_sch_keeps.
  - destruct (c_sched _); [|apply frame_refl].
    eapply frame_trans; [|apply frame_emit]. apply frame_upd; apply set_sch_keeps.
  - destruct (c_out _ && st) eqn:E; [|apply frame_refl].
    assert (st = true) by (apply andb_true_iff in E; tauto). subst st.
    eapply frame_trans; [|apply frame_emit]. apply frame_write; auto.
  - apply frame_sched_self.
  - apply frame_set_err.
  - destruct (is_list_entry _ _); apply frame_upd; intros x; repeat split.
  - destruct (is_list_entry _ _); apply frame_upd; intros x; repeat split.
  - destruct (c_out _ && st) eqn:E; [|apply frame_refl].
    assert (st = true) by (apply andb_true_iff in E; tauto). subst st.
    destruct (n_val (node_at i g)); [|apply frame_emit].
    eapply frame_trans; [|apply frame_emit]. apply frame_notify; [intros x; split; reflexivity|auto].
  - apply frame_refl.
Qed.

Lemma frame_do_ops st i os : forall opi g,
  (i < length (g_nodes g))%nat -> frame st i g (do_ops cfgs i st opi os g).
Proof.
  induction os as [|o r IH]; intros opi g Hi; simpl; [apply frame_refl|].
  eapply frame_trans; [apply frame_do_op; auto|].
  apply IH. rewrite (fr_ln _ _ _ _ (frame_do_op st i opi o g Hi)). auto.
Qed.

Lemma inc_runs_keeps x : n_val (inc_runs x) = n_val x /\ n_lmt (inc_runs x) = n_lmt x /\ n_started (inc_runs x) = n_started x.
Proof. repeat split. Qed.
Lemma inc_evals_keeps x : n_val (inc_evals x) = n_val x /\ n_lmt (inc_evals x) = n_lmt x /\ n_started (inc_evals x) = n_started x.
Proof. repeat split. Qed.

(* node.cpp evaluate_impl of a native node *)
Lemma frame_eval_node beh i g :
  (i < length (g_nodes g))%nat -> frame true i g (eval_node cfgs beh i g).
Proof.
  intros Hi. unfold eval_node. destruct (negb (n_started (node_at i g))); [apply frame_refl|]. cbn zeta.
  match goal with |- context [if negb (g_err ?x =? 0) then _ else _] => set (g1 := x) end.
  assert (F1 : frame true i g g1).
  { unfold g1. destruct (match c_ins (nth i cfgs dflt_cfg) with [] => true | _ :: _ => ready (nth i cfgs dflt_cfg) g end); [|apply frame_refl].
    eapply frame_trans; [|apply frame_do_ops; simpl; rewrite update_length; auto].
    eapply frame_trans; [|apply frame_emit]. apply frame_upd; apply inc_runs_keeps. }
  destruct (negb (g_err g1 =? 0)); auto.
  destruct (c_sched (nth i cfgs dflt_cfg)); auto. simpl andb.
  destruct (is_scheduled_now (g_now g) (n_sch (node_at i g))).
  - destruct (advance (g_now g) (n_sch (node_at i g1))) as [s' p].
    eapply frame_trans; [exact F1|].
    eapply frame_trans; [|apply frame_opt_sched]. apply frame_upd; apply set_sch_keeps.
  - destruct (is_scheduled (n_sch (node_at i g1))); auto.
    eapply frame_trans; [exact F1|apply frame_sched_self].
Qed.

(* node.cpp start_impl: user code runs unstarted, so it cannot write *)
Lemma set_started_keeps x : n_val (set_started x) = n_val x /\ n_lmt (set_started x) = n_lmt x.
Proof. repeat split. Qed.

End Frame.

(* ------------------------------------------------------------------ *)
(* Part 2.  The two feedback callbacks                                  *)
(* ------------------------------------------------------------------ *)
Section Callbacks.
Variable cfgs : list ncfg.
Notation n := (length cfgs).
Notation cfg := (EngineFacts.cfg cfgs).

Lemma ract_source g j s : cfg s = source_cfg -> ract cfgs g j s = false.
Proof. intros H. unfold ract. rewrite H. reflexivity. Qed.

(* the sink's subscriptions are what activate_input_slots made them: ts active, ts_self passive *)
Lemma ract_sink g j k p s :
  cfg k = sink_cfg p s -> n_act (node_at k g) = [true; false] -> ract cfgs g j k = true -> j = p.
Proof.
  intros H Ha. unfold ract. rewrite H, Ha. simpl. rewrite !andb_false_r, !orb_false_r, andb_true_r.
  intros E. apply Nat.eqb_eq in E. auto.
Qed.

Lemma ract_sink_prod g k p s :
  cfg k = sink_cfg p s -> n_act (node_at k g) = [true; false] -> ract cfgs g p k = true.
Proof. intros H Ha. unfold ract. rewrite H, Ha. simpl. rewrite Nat.eqb_refl. reflexivity. Qed.

Lemma ready_sink p s g : ready (sink_cfg p s) g = true <-> n_val (node_at p g) <> None.
Proof.
  unfold ready, sink_cfg, slot_valid, read_input; simpl.
  destruct (n_val (node_at p g)); simpl; split; intros; congruence.
Qed.

Lemma state_at_set_same s (v : option Z) l : (s < length l)%nat -> nth s (set_nth s v l) None = v.
Proof. intros H. unfold set_nth. rewrite nth_update_same; auto. Qed.

(* evaluate_feedback_source *)
Lemma eval_source_spec j x :
  (j < length (g_nodes (f_g x)))%nat -> cfg j = source_cfg ->
  let x' := eval_source cfgs j x in
  frame cfgs true j (f_g x) (f_g x') /\ f_st x' = f_st x /\ slot_at j (f_g x') = slot_at j (f_g x) /\
  (n_started (node_at j (f_g x)) = true ->
     match state_at j x with
     | Some v => n_lmt (node_at j (f_g x')) = g_now (f_g x) /\ n_val (node_at j (f_g x')) = Some v
     | None => n_val (node_at j (f_g x')) = n_val (node_at j (f_g x)) /\ n_lmt (node_at j (f_g x')) = n_lmt (node_at j (f_g x))
     end).
Proof.
  intros Hj Hc. cbn zeta. unfold eval_source. cbn zeta. simpl f_g. simpl f_st.
  destruct (n_started (node_at j (f_g x))) eqn:St; simpl negb; cbv iota.
  2:{ split; [apply frame_emit|]. repeat split; auto. discriminate. }
  destruct (state_at j x) as [v|] eqn:Es.
  - set (g1 := upd_node j (set_out v (g_now (f_g x))) (f_g x)).
    assert (Hl : forall m c, nth_error cfgs m = Some c -> c = cfg (0 + m)).
    { intros m c Hm. apply (cfgs_nth_error cfgs m c Hm). }
    destruct (notify_spec cfgs cfgs 0%nat j g1 Hl) as (B1 & B2 & B3 & B4 & B5 & B6 & B7).
    split; [eapply frame_trans; [apply frame_write; auto|apply frame_emit]|].
    split; auto. split.
    + change (slot_at j (notify_from cfgs 0 j g1) = slot_at j (f_g x)).
      destruct (B6 j) as [X|(_ & X & _)]; [exact X|]. rewrite ract_source in X by auto. discriminate.
    + intros _. change (n_lmt (node_at j (notify_from cfgs 0 j g1)) = g_now (f_g x) /\ n_val (node_at j (notify_from cfgs 0 j g1)) = Some v).
      assert (ND : node_at j (notify_from cfgs 0 j g1) = node_at j g1) by (unfold node_at; rewrite B2; auto).
      rewrite ND. unfold g1. rewrite node_at_upd_same by auto. simpl. auto.
  - split; [apply frame_emit|]. repeat split; auto.
Qed.

(* evaluate_feedback_sink *)
Lemma eval_sink_spec j x pp ss :
  cfg j = sink_cfg pp ss ->
  let g := f_g x in let x' := eval_sink cfgs j x in let g' := f_g x' in
  g_now g' = g_now g /\ g_nodes g' = g_nodes g /\ length (g_slots g') = length (g_slots g) /\
  length (f_st x') = length (f_st x) /\ g_nst g' <= g_nst g /\ (g_now g < g_nst g -> g_now g < g_nst g') /\
  (forall m, m <> ss -> slot_at m g' = slot_at m g) /\ (forall m, m <> ss -> state_at m x' = state_at m x) /\
  ((n_started (node_at j g) = true /\ exists v, n_val (node_at pp g) = Some v /\
      ((ss < length (f_st x))%nat -> state_at ss x' = Some v) /\
      ((ss < length (g_slots g))%nat -> slot_at ss g <= g_now g -> g_now g < g_nst g ->
          slot_at ss g' = g_now g + 1 /\ g_nst g' <= g_now g + 1))
   \/ ((n_started (node_at j g) = false \/ n_val (node_at pp g) = None) /\
       state_at ss x' = state_at ss x /\ slot_at ss g' = slot_at ss g)).
Proof.
  intros Hc. cbn zeta. unfold eval_sink. fold (cfg j). rewrite Hc. cbn zeta.
  change (sink_src (sink_cfg pp ss)) with ss. change (sink_prod (sink_cfg pp ss)) with pp.
  destruct (n_started (node_at j (f_g x))) eqn:St; simpl negb; cbv iota.
  2:{ simpl. repeat split; auto; try lia; try solve [right; auto]. }
  destruct (ready (sink_cfg pp ss) (f_g x)) eqn:Er.
  - apply ready_sink in Er. destruct (n_val (node_at pp (f_g x))) as [v|] eqn:Ev; [|congruence].
    simpl f_g. simpl f_st.
    set (g := f_g x).
    destruct (schedule_node_spec ss (g_now g + MIN_TD) g) as (N1 & N2 & _ & _ & N4).
    unfold MIN_TD in *. specialize (N4 ltac:(lia)). destruct N4 as (_ & Y1 & Y2).
    repeat split; auto.
    + apply schedule_node_len.
    + unfold set_nth. apply update_length.
    + apply schedule_node_nst_le.
    + apply schedule_node_nst_gt.
    + intros m Hm. apply schedule_node_slot_other; auto.
    + intros m Hm. unfold state_at; simpl. unfold set_nth. apply nth_update_other; auto.
    + left. split; auto. exists v. split; auto. split.
      * intros Hl. unfold state_at; simpl. apply state_at_set_same; auto.
      * intros Hl Hs Hn.
        assert (AP : sn_applies ss (g_now g + 1) g = true) by (unfold sn_applies; lia).
        destruct (Y1 AP) as [YS YN]. split.
        -- change (slot_at ss (schedule_node ss (g_now g + 1) g) = g_now g + 1).
           unfold slot_at. rewrite YS. apply slot_at_set_same; auto.
        -- change (g_nst (schedule_node ss (g_now g + 1) g) <= g_now g + 1).
           rewrite YN. destruct ((g_now g <? g_now g + 1) && (g_now g + 1 <? g_nst g)) eqn:E; lia.
  - simpl. repeat split; auto; try lia. right. split; auto.
    right. destruct (n_val (node_at pp (f_g x))) eqn:Ev; auto.
    assert (ready (sink_cfg pp ss) (f_g x) = true) by (apply ready_sink; congruence). congruence.
Qed.

End Callbacks.

(* ------------------------------------------------------------------ *)
(* Part 3.  One feedback pair through one engine cycle                  *)
(* ------------------------------------------------------------------ *)
Section Pair.
Variable cfgs : list ncfg.
Variable kinds : list fkind.
Variable beh : behaviour.
Notation n := (length cfgs).
Notation cfg := (EngineFacts.cfg cfgs).
Notation kind := (kind_at kinds).

(* What the wiring layer guarantees about a graph with feedback (graph_wiring.cpp, control.h):
   every edge points forward in node order - in particular a source is ranked before its
   readers and before its sink, and a sink after its producer (the ts_self edge is rank-free,
   the source is a PullSource without inputs); the two node kinds have the schemas that
   make_feedback_*_node give them; a source is bound at most once. *)
Record fb_wf : Prop := {
  wf_len : length kinds = n;
  wf_rank : well_ranked cfgs;
  wf_source : forall i init, kind i = FSource init -> cfg i = source_cfg;
  wf_sink : forall i, kind i = FSink -> exists p s init, cfg i = sink_cfg p s /\ kind s = FSource init;
  wf_pair : forall k k', kind k = FSink -> kind k' = FSink -> sink_src (cfg k) = sink_src (cfg k') -> k = k' }.

Lemma kind_lt i : kind i <> FNative -> (i < length kinds)%nat.
Proof.
  intros H. destruct (Nat.lt_ge_cases i (length kinds)); auto.
  exfalso. apply H. unfold kind_at. apply nth_overflow; auto.
Qed.

Hypothesis WF : fb_wf.
Variables (k p s : nat) (init : option Z).
Hypothesis HK : kind k = FSink.
Hypothesis HC : cfg k = sink_cfg p s.
Hypothesis HS : kind s = FSource init.

Record base (t : Z) (x : xst) : Prop := {
  b_now : g_now (f_g x) = t;
  b_ls : length (g_slots (f_g x)) = n;
  b_ln : length (g_nodes (f_g x)) = n;
  b_lst : length (f_st x) = n;
  b_started : forall i, (i < n)%nat -> n_started (node_at i (f_g x)) = true;
  b_nst : t < g_nst (f_g x);
  b_actk : n_act (node_at k (f_g x)) = [true; false] }.

Lemma k_lt : (k < n)%nat.
Proof. rewrite <- (wf_len WF). apply kind_lt. rewrite HK. discriminate. Qed.
Lemma s_lt_k : (s < k)%nat.
Proof. apply (wf_rank WF k (mkIn s false false None false) k_lt). fold (cfg k). rewrite HC. simpl. auto. Qed.
Lemma p_lt_k : (p < k)%nat.
Proof. apply (wf_rank WF k (mkIn p true true None false) k_lt). fold (cfg k). rewrite HC. simpl. auto. Qed.
Lemma s_cfg : cfg s = source_cfg.
Proof. apply (wf_source WF s init HS). Qed.

Definition same_out (i : nat) (g g' : gst) : Prop :=
  n_val (node_at i g') = n_val (node_at i g) /\ n_lmt (node_at i g') = n_lmt (node_at i g).

(* everything the scan step at node j does that matters to the pair (k, p, s) *)
Record eff (t : Z) (j : nat) (x x' : xst) : Prop := {
  e_base : base t x';
  e_nst : g_nst (f_g x') <= g_nst (f_g x);
  e_nodes : forall m, m <> j -> node_at m (f_g x') = node_at m (f_g x);
  e_state : j <> k -> state_at s x' = state_at s x;
  e_slot_s : j <> k -> slot_at s (f_g x') = slot_at s (f_g x);
  e_slot_k : j <> p -> slot_at k (f_g x') = slot_at k (f_g x);
  e_src : j = s ->
     (slot_at s (f_g x) = t /\
      match state_at s x with
      | Some v => n_lmt (node_at s (f_g x')) = t /\ n_val (node_at s (f_g x')) = Some v
      | None => same_out s (f_g x) (f_g x')
      end) \/ (slot_at s (f_g x) <> t /\ same_out s (f_g x) (f_g x'));
  e_prod : j = p ->
     (same_out p (f_g x) (f_g x') /\ slot_at k (f_g x') = slot_at k (f_g x)) \/
     (n_lmt (node_at p (f_g x')) = t /\ slot_at k (f_g x') = t);
  e_sink : j = k ->
     (slot_at k (f_g x) = t /\ exists v, n_val (node_at p (f_g x)) = Some v /\ state_at s x' = Some v /\
        (slot_at s (f_g x) <= t -> slot_at s (f_g x') = t + 1 /\ g_nst (f_g x') <= t + 1)) \/
     ((slot_at k (f_g x) <> t \/ n_val (node_at p (f_g x)) = None) /\
      state_at s x' = state_at s x /\ slot_at s (f_g x') = slot_at s (f_g x)) }.

Lemma step_eff t j x :
  (j < n)%nat -> base t x -> eff t j x (fscan_step cfgs kinds beh j x).
Proof.
  intros Hj [B1 B2 B3 B4 B5 B6 B7]. unfold fscan_step. cbn zeta.
  pose proof k_lt as KL. pose proof s_lt_k as SK. pose proof p_lt_k as PK. pose proof s_cfg as SC.
  destruct (slot_at j (f_g x) =? g_now (f_g x)) eqn:E.
  - (* the node is due: evaluated *)
    assert (Es : slot_at j (f_g x) = t) by lia.
    set (g0 := upd_node j inc_evals (emit [11; Z.of_nat j; g_now (f_g x)] (f_g x))).
    assert (G0n : g_now g0 = t) by exact B1.
    assert (G0l : length (g_nodes g0) = n) by (unfold g0, upd_node; simpl; rewrite update_length; auto).
    assert (G0o : forall m, m <> j -> node_at m g0 = node_at m (f_g x)).
    { intros m Hm. unfold g0. rewrite node_at_upd_other; auto. }
    assert (G0j : node_at j g0 = inc_evals (node_at j (f_g x))).
    { unfold g0. rewrite node_at_upd_same; auto. simpl. lia. }
    assert (G0s : forall m, n_started (node_at m g0) = n_started (node_at m (f_g x)) /\
                            n_val (node_at m g0) = n_val (node_at m (f_g x)) /\ n_lmt (node_at m g0) = n_lmt (node_at m (f_g x))).
    { intros m. destruct (Nat.eq_dec m j) as [->|Hm]; [rewrite G0j; auto|rewrite G0o; auto]. }
    assert (G0a : forall m, n_act (node_at m g0) = n_act (node_at m (f_g x))).
    { intros m. destruct (Nat.eq_dec m j) as [->|Hm]; [rewrite G0j; auto|rewrite G0o; auto]. }
    assert (AK0 : n_act (node_at k g0) = [true; false]) by (rewrite G0a; auto).
    assert (G0sl : forall m, slot_at m g0 = slot_at m (f_g x)) by reflexivity.
    assert (G0nst : g_nst g0 = g_nst (f_g x)) by reflexivity.
    assert (G0ls : length (g_slots g0) = n) by exact B2.
    unfold eval_any. simpl f_g. simpl f_st. fold g0.
    destruct (kind j) eqn:Kj.
    + (* native node *)
      assert (Njs : j <> s) by (intros ->; congruence).
      assert (Njk : j <> k) by (intros ->; congruence).
      pose proof (frame_eval_node cfgs beh j g0 ltac:(lia)) as [F1 F2 F3 F4 F5 F6 F7 F8].
      assert (AK : n_act (node_at k (eval_node cfgs beh j g0)) = [true; false]) by (rewrite F4; auto).
      constructor; simpl f_g; simpl f_st; try contradiction.
      * constructor; try exact AK; simpl; try congruence; try lia.
        intros i Hi. destruct (Nat.eq_dec i j) as [->|Hne].
        -- rewrite F5. rewrite (proj1 (G0s j)). auto.
        -- rewrite F4 by auto. rewrite (proj1 (G0s i)). auto.
      * lia.
      * intros m Hm. rewrite F4, G0o; auto.
      * reflexivity.
      * intros _. destruct F8 as [(Q1 & Q2 & Q3)|(_ & W1 & W3 & W4)].
        -- rewrite Q3; auto.
        -- destruct (W3 s ltac:(auto)) as [X|[X _]]; [rewrite X; auto|]. rewrite ract_source in X; auto. discriminate.
      * intros Hp. destruct F8 as [(Q1 & Q2 & Q3)|(_ & W1 & W3 & W4)].
        -- rewrite Q3; auto.
        -- destruct (W3 k ltac:(auto)) as [X|[X _]]; [rewrite X; auto|]. apply (ract_sink cfgs g0 j k p s HC AK0) in X. contradiction.
      * intros ->. destruct F8 as [(Q1 & Q2 & Q3)|(_ & W1 & W3 & W4)].
        -- left. split; [split|]; try (rewrite Q3; auto). rewrite Q1; apply G0s. rewrite Q2; apply G0s.
        -- right. split; [congruence|]. rewrite <- G0n. apply W4; auto; try lia.
           ++ apply (ract_sink_prod cfgs g0 k p s HC AK0).
           ++ rewrite (proj1 (G0s k)). auto.
    + (* a feedback source *)
      assert (Njk : j <> k) by (intros ->; congruence).
      assert (Cj : cfg j = source_cfg) by (apply (wf_source WF j init0 Kj)).
      destruct (eval_source_spec cfgs j (mkF g0 (f_st x)) ltac:(simpl f_g; rewrite G0l; exact Hj) Cj) as ([F1 F2 F3 F4 F5 F6 F7 F8] & S1 & S2 & S3).
      cbn [f_g f_st] in *.
      assert (Stj : n_started (node_at j g0) = true) by (rewrite (proj1 (G0s j)); auto).
      specialize (S3 Stj).
      assert (AK : n_act (node_at k (f_g (eval_source cfgs j {| f_g := g0; f_st := f_st x |}))) = [true; false]) by (rewrite F4; auto).
      constructor; try contradiction.
      * constructor; try exact AK; try congruence; try lia.
        intros i Hi. destruct (Nat.eq_dec i j) as [->|Hne].
        -- rewrite F5. auto.
        -- rewrite F4 by auto. rewrite (proj1 (G0s i)). auto.
      * lia.
      * intros m Hm. rewrite F4, G0o; auto.
      * intros _. unfold state_at. rewrite S1. reflexivity.
      * intros _. destruct (Nat.eq_dec j s) as [->|Njs]; [rewrite S2; auto|].
        destruct F8 as [(Q1 & Q2 & Q3)|(_ & W1 & W3 & W4)].
        -- rewrite Q3; auto.
        -- destruct (W3 s ltac:(auto)) as [X|[X _]]; [rewrite X; auto|]. rewrite ract_source in X; auto. discriminate.
      * intros Hp. destruct F8 as [(Q1 & Q2 & Q3)|(_ & W1 & W3 & W4)].
        -- rewrite Q3; auto.
        -- destruct (W3 k ltac:(auto)) as [X|[X _]]; [rewrite X; auto|]. apply (ract_sink cfgs g0 j k p s HC AK0) in X. contradiction.
      * intros ->. left. split; auto.
        change (state_at s {| f_g := g0; f_st := f_st x |}) with (state_at s x) in S3.
        destruct (state_at s x) as [v|].
        -- rewrite <- G0n. exact S3.
        -- destruct S3 as [X Y]. split; [rewrite X|rewrite Y]; apply G0s.
      * intros ->. destruct F8 as [(Q1 & Q2 & Q3)|(_ & W1 & W3 & W4)].
        -- left. split; [split|]; try (rewrite Q3; auto). rewrite Q1; apply G0s. rewrite Q2; apply G0s.
        -- right. split; [congruence|]. rewrite <- G0n. apply W4; auto; try lia.
           ++ apply (ract_sink_prod cfgs g0 k p s HC AK0).
           ++ rewrite (proj1 (G0s k)). auto.
    + (* a feedback sink *)
      assert (Njs : j <> s) by (intros ->; congruence).
      destruct (wf_sink WF j Kj) as (pp & ss & ii & Cj & Kss).
      destruct (eval_sink_spec cfgs j (mkF g0 (f_st x)) pp ss Cj) as (A1 & A2 & A3 & A4 & A5 & A6 & A7 & A8 & A9).
      cbn [f_g f_st] in *.
      set (x' := eval_sink cfgs j {| f_g := g0; f_st := f_st x |}) in *.
      assert (ND : forall m, node_at m (f_g x') = node_at m g0) by (intros; unfold node_at; rewrite A2; auto).
      assert (Nssk : k <> ss) by (intros <-; congruence).
      assert (Hss : j <> k -> s <> ss).
      { intros Hne <-. apply Hne. apply (wf_pair WF j k Kj HK). rewrite Cj, HC. reflexivity. }
      assert (AK : n_act (node_at k (f_g x')) = [true; false]) by (rewrite ND; auto).
      constructor; try contradiction.
      * constructor; try exact AK; try congruence; try lia.
        intros i Hi. rewrite ND. rewrite (proj1 (G0s i)). auto.
      * lia.
      * intros m Hm. rewrite ND. apply G0o; auto.
      * intros Hne. rewrite A8; auto.
      * intros Hne. rewrite A7; auto.
      * intros _. rewrite A7; auto.
      * intros ->. left. split; [split; rewrite ND; apply G0s|]. rewrite A7; auto.
      * intros ->. assert (pp = p /\ ss = s) as [-> ->].
        { rewrite HC in Cj. unfold sink_cfg in Cj. inversion Cj; auto. }
        destruct A9 as [(_ & v & V1 & V2 & V3)|([X|X] & Y1 & Y2)].
        -- left. split; auto. exists v. split; [rewrite <- (proj1 (proj2 (G0s p))); auto|]. split; [apply V2; lia|].
           intros Hle. rewrite <- G0n. apply V3; try lia. rewrite G0sl, G0n. exact Hle.
        -- rewrite (proj1 (G0s k)) in X. rewrite B5 in X by auto. discriminate.
        -- right. split; [right; rewrite <- (proj1 (proj2 (G0s p))); auto|]. split; auto.
  - (* not due: the slot is only folded into the cached next time *)
    assert (Es : slot_at j (f_g x) <> t) by lia.
    set (x' := if g_now (f_g x) <? slot_at j (f_g x) then {| f_g := fold_slot (slot_at j (f_g x)) (f_g x); f_st := f_st x |} else x).
    assert (X : g_now (f_g x') = g_now (f_g x) /\ g_slots (f_g x') = g_slots (f_g x) /\ g_nodes (f_g x') = g_nodes (f_g x) /\
                f_st x' = f_st x /\ g_nst (f_g x') <= g_nst (f_g x) /\ g_now (f_g x) < g_nst (f_g x')).
    { unfold x'. destruct (g_now (f_g x) <? slot_at j (f_g x)) eqn:E2; [|repeat split; auto; lia].
      unfold fold_slot. destruct (slot_at j (f_g x) <? g_nst (f_g x)) eqn:E3; simpl; repeat split; auto; lia. }
    destruct X as (X1 & X2 & X3 & X4 & X5 & X6).
    assert (ND : forall m, node_at m (f_g x') = node_at m (f_g x)) by (intros; unfold node_at; rewrite X3; auto).
    assert (SL : forall m, slot_at m (f_g x') = slot_at m (f_g x)) by (intros; unfold slot_at; rewrite X2; auto).
    assert (ST : forall m, state_at m x' = state_at m x) by (intros; unfold state_at; rewrite X4; auto).
    constructor; auto; try lia.
    + constructor; try congruence; try lia; try solve [rewrite ND; auto]; try solve [intros i Hi; rewrite ND; auto].
    + intros ->. right. split; auto. split; rewrite ND; auto.
    + intros ->. left. split; [split; rewrite ND; auto|auto].
    + intros ->. right. split; auto.
Qed.

(* the producer's write / the source's tick in the current cycle, as a reader sees them *)
Definition tick_now (i : nat) (g : gst) : option Z :=
  if n_lmt (node_at i g) =? g_now g then n_val (node_at i g) else None.

(* the invariant of the scan, for the pair: [pend] is the value captured in the previous
   cycle (or the initial value before the first one) *)
Record PI (pend : option Z) (t : Z) (j : nat) (x : xst) : Prop := {
  pi_base : base t x;
  pi_src_le : n_lmt (node_at s (f_g x)) <= t;
  pi_src_before : (j <= s)%nat -> n_lmt (node_at s (f_g x)) < t /\
       match pend with Some v => state_at s x = Some v /\ slot_at s (f_g x) = t | None => slot_at s (f_g x) < t end;
  pi_src_after : (s < j)%nat -> tick_now s (f_g x) = pend /\ ((j <= k)%nat -> slot_at s (f_g x) <= t);
  pi_prod_le : n_lmt (node_at p (f_g x)) <= t;
  pi_prod_before : (j <= p)%nat -> n_lmt (node_at p (f_g x)) < t;
  pi_sink_le : slot_at k (f_g x) <= t;
  pi_sink_before : (j <= k)%nat -> (slot_at k (f_g x) = t <-> n_lmt (node_at p (f_g x)) = t);
  pi_after : (k < j)%nat ->
       match tick_now p (f_g x) with
       | Some v => state_at s x = Some v /\ slot_at s (f_g x) = t + 1 /\ g_nst (f_g x) <= t + 1
       | None => slot_at s (f_g x) <= t
       end }.

Lemma PI_step pend t j x :
  (j < n)%nat -> PI pend t j x -> PI pend t (S j) (fscan_step cfgs kinds beh j x).
Proof.
  intros Hj [P0 P1 P2 P3 P4 P5 P6 P7 P8].
  pose proof (step_eff t j x Hj P0) as [E0 E1 E2 E3 E4 E5 E6 E7 E8].
  pose proof s_lt_k as SK. pose proof p_lt_k as PK.
  set (x' := fscan_step cfgs kinds beh j x) in *.
  assert (Nt : g_now (f_g x) = t) by (destruct P0; auto).
  assert (Nt' : g_now (f_g x') = t) by (destruct E0; auto).
  constructor; auto.
  - (* source: lmt <= t *)
    destruct (Nat.eq_dec j s) as [->|Hne]; [|rewrite E2; auto].
    destruct (E6 eq_refl) as [[_ X]|[_ [X Y]]].
    + destruct (state_at s x); [lia|destruct X as [X Y]; rewrite Y; auto].
    + rewrite Y; auto.
  - intros Hle. assert (j <> s) by lia. assert (j <> k) by lia.
    rewrite E2, E3, E4 by auto. apply P2. lia.
  - intros Hlt. destruct (Nat.eq_dec j s) as [->|Hne].
    + assert (Hk : s <> k) by lia. destruct (P2 ltac:(lia)) as [L1 L2].
      rewrite (E4 Hk). unfold tick_now. rewrite Nt'.
      destruct (E6 eq_refl) as [[X1 X2]|[X1 [X2 X3]]].
      * destruct pend as [v|]; [|lia]. destruct L2 as [L2 L3]. rewrite L2 in X2. destruct X2 as [Y1 Y2].
        rewrite Y1, Y2. rewrite Z.eqb_refl. split; auto. lia.
      * destruct pend as [v|]; [destruct L2; contradiction|].
        rewrite X3. replace (n_lmt (node_at s (f_g x)) =? t) with false by lia. split; auto. lia.
    + destruct (P3 ltac:(lia)) as [L1 L2]. split.
      * unfold tick_now in *. rewrite Nt'. rewrite E2 by auto. rewrite <- Nt. exact L1.
      * intros Hk. rewrite E4 by lia. apply L2. lia.
  - (* producer: lmt <= t *)
    destruct (Nat.eq_dec j p) as [->|Hne]; [|rewrite E2; auto].
    destruct (E7 eq_refl) as [[[X Y] _]|[X _]]; [rewrite Y; auto|lia].
  - intros Hle. rewrite E2 by lia. apply P5. lia.
  - (* sink slot <= t *)
    destruct (Nat.eq_dec j p) as [->|Hne]; [|rewrite E5; auto].
    destruct (E7 eq_refl) as [[_ X]|[_ X]]; [rewrite X; auto|lia].
  - intros Hle. destruct (Nat.eq_dec j p) as [->|Hne].
    + destruct (E7 eq_refl) as [[[X Y] Z']|[X Z']].
      * rewrite Z', Y. apply P7. lia.
      * rewrite X, Z'. tauto.
    + rewrite E5, E2 by auto. apply P7. lia.
  - intros Hlt. destruct (Nat.eq_dec j k) as [->|Hne].
    + assert (Hp : p <> k) by lia.
      assert (TN : tick_now p (f_g x') = tick_now p (f_g x)).
      { unfold tick_now. rewrite Nt', Nt. rewrite E2 by auto. reflexivity. }
      rewrite TN. unfold tick_now. rewrite Nt.
      destruct (P3 ltac:(lia)) as [_ L2]. specialize (L2 ltac:(lia)).
      destruct (E8 eq_refl) as [[X1 (v & V1 & V2 & V3)]|[X1 [X2 X3]]].
      * apply P7 in X1; [|lia]. rewrite X1, Z.eqb_refl, V1. split; auto.
      * rewrite X3. destruct X1 as [X1|X1].
        -- assert (n_lmt (node_at p (f_g x)) <> t) by (intros Q; apply X1; apply P7; auto; lia).
           replace (n_lmt (node_at p (f_g x)) =? t) with false by lia. auto.
        -- rewrite X1. destruct (n_lmt (node_at p (f_g x)) =? t); auto.
    + assert (Hp : p <> j) by lia.
      assert (TN : tick_now p (f_g x') = tick_now p (f_g x)).
      { unfold tick_now. rewrite Nt', Nt. rewrite E2 by auto. reflexivity. }
      rewrite TN. rewrite E3, E4 by auto. specialize (P8 ltac:(lia)).
      destruct (tick_now p (f_g x)); [|auto]. destruct P8 as (A & B & C). repeat split; auto. lia.
Qed.

Lemma fscan_err_sticky m : forall j x, g_err (f_g x) <> 0 -> fscan cfgs kinds beh j m x = x.
Proof. destruct m; simpl; auto. intros j x H. replace (negb (g_err (f_g x) =? 0)) with true by lia. auto. Qed.

Lemma fscan_PI pend t m : forall j x,
  (j + m = n)%nat -> PI pend t j x -> g_err (f_g (fscan cfgs kinds beh j m x)) = 0 ->
  PI pend t n (fscan cfgs kinds beh j m x).
Proof.
  induction m as [|m IH]; intros j x Hjm H Herr; simpl in *.
  - replace n with j by lia. exact H.
  - destruct (negb (g_err (f_g x) =? 0)) eqn:E0; [lia|].
    apply IH; auto; [lia|]. apply PI_step; auto. lia.
Qed.

(* the invariant between two cycles; the next cycle is at [g_nst] *)
Record FB (pend : option Z) (x : xst) : Prop := {
  fb_ls : length (g_slots (f_g x)) = n;
  fb_ln : length (g_nodes (f_g x)) = n;
  fb_lst : length (f_st x) = n;
  fb_started : forall i, (i < n)%nat -> n_started (node_at i (f_g x)) = true;
  fb_lmt_s : n_lmt (node_at s (f_g x)) < g_nst (f_g x);
  fb_lmt_p : n_lmt (node_at p (f_g x)) < g_nst (f_g x);
  fb_slot_k : slot_at k (f_g x) < g_nst (f_g x);
  fb_actk : n_act (node_at k (f_g x)) = [true; false];
  fb_pend : match pend with
            | Some v => state_at s x = Some v /\ slot_at s (f_g x) = g_nst (f_g x)
            | None => slot_at s (f_g x) < g_nst (f_g x)
            end }.

(* ONE ENGINE CYCLE: the source ticks in it exactly the value captured before it (and only
   then); whatever the producer writes in it is captured for the next smallest step, for
   which a cycle is requested whatever else is (not) scheduled. *)
Lemma fcycle_pair pend x :
  FB pend x -> g_nst (f_g x) < MAX_DT ->
  let t := g_nst (f_g x) in
  let x' := fcycle cfgs kinds beh t x in
  g_err (f_g x') = 0 ->
  g_now (f_g x') = t /\ tick_now s (f_g x') = pend /\ FB (tick_now p (f_g x')) x' /\
  t < g_nst (f_g x') /\ (tick_now p (f_g x') <> None -> g_nst (f_g x') = t + MIN_TD).
Proof.
  intros [L1 L2 L3 St A1 A2 A3 AK A4] Hlt. cbn zeta. unfold fcycle. cbn zeta. simpl f_g. simpl f_st.
  set (t := g_nst (f_g x)).
  set (x0 := {| f_g := begin_cycle t (f_g x); f_st := f_st x |}).
  intros Herr.
  pose proof s_lt_k as SK. pose proof p_lt_k as PK. pose proof k_lt as KL.
  assert (H0 : PI pend t 0 x0).
  { constructor; simpl; try lia.
    - constructor; simpl; auto.
    - fold t in A1. unfold node_at in *; simpl. lia.
    - intros _. fold t in A1, A4. unfold node_at, slot_at, state_at in *; simpl. split; [lia|]. destruct pend; auto.
    - fold t in A2. unfold node_at in *; simpl. lia.
    - intros _. fold t in A2. unfold node_at in *; simpl. lia.
    - fold t in A3. unfold slot_at in *; simpl. lia.
    - intros _. fold t in A2, A3. unfold node_at, slot_at in *; simpl. lia. }
  pose proof (fscan_PI pend t n 0%nat x0 ltac:(lia) H0 Herr) as [[B1 B2 B3 B4 B5 B6 B7] P1 P2 P3 P4 P5 P6 P7 P8].
  set (x1 := fscan cfgs kinds beh 0 n x0) in *.
  change (g_now (f_g x1) = t /\ tick_now s (f_g x1) = pend /\
          FB (tick_now p (f_g x1)) {| f_g := emit [20; t; g_nst (f_g x1)] (f_g x1); f_st := f_st x1 |} /\
          t < g_nst (f_g x1) /\ (tick_now p (f_g x1) <> None -> g_nst (f_g x1) = t + MIN_TD)).
  specialize (P8 ltac:(lia)). destruct (P3 ltac:(lia)) as [R _].
  split; auto. split; auto. split; [|split; auto].
  - constructor; simpl; auto; try lia.
    + change (n_lmt (node_at s (f_g x1)) < g_nst (f_g x1)). lia.
    + change (n_lmt (node_at p (f_g x1)) < g_nst (f_g x1)). lia.
    + change (slot_at k (f_g x1) < g_nst (f_g x1)). lia.
    + change (match tick_now p (f_g x1) with
            | Some v => state_at s x1 = Some v /\ slot_at s (f_g x1) = g_nst (f_g x1)
            | None => slot_at s (f_g x1) < g_nst (f_g x1) end).
      destruct (tick_now p (f_g x1)); [|lia]. destruct P8 as (X & Y & Z'). split; auto. lia.
  - intros Hw. destruct (tick_now p (f_g x1)); [|congruence]. unfold MIN_TD. lia.
Qed.

End Pair.

(* ------------------------------------------------------------------ *)
(* Part 4.  Whole runs                                                  *)
(* ------------------------------------------------------------------ *)
(* the states at the end of every cycle of a run *)
Fixpoint fstates (cfgs : list ncfg) (kinds : list fkind) (beh : behaviour) (end_ : Z) (fuel : nat) (x : xst) : list xst :=
  match fuel with
  | O => []
  | S f =>
      let g := f_g x in
      if negb (g_err g =? 0) then [] else
      if (g_nst g =? MAX_DT) || (end_ <=? g_nst g) then [] else
      let x' := fcycle cfgs kinds beh (g_nst g) x in x' :: fstates cfgs kinds beh end_ f x'
  end.

(* the stream of (time, value) ticks of node i's output over those cycles *)
Definition ticks_of (i : nat) (l : list xst) : list (Z * Z) :=
  flat_map (fun x => match tick_now i (f_g x) with Some v => [(g_now (f_g x), v)] | None => [] end) l.

Definition shift (tv : Z * Z) : Z * Z := (fst tv + MIN_TD, snd tv).
Definition deliverable (end_ : Z) (tv : Z * Z) : bool := fst tv + MIN_TD <? end_.

Section Run.
Variable cfgs : list ncfg.
Variable kinds : list fkind.
Variable beh : behaviour.
Notation n := (length cfgs).
Notation cfg := (EngineFacts.cfg cfgs).
Notation kind := (kind_at kinds).
Hypothesis WF : fb_wf cfgs kinds.
Variables (k p s : nat) (init : option Z).
Hypothesis HK : kind k = FSink.
Hypothesis HC : cfg k = sink_cfg p s.
Hypothesis HS : kind s = FSource init.

Lemma frun_err_sticky end_ fuel : forall x, g_err (f_g x) <> 0 -> g_err (f_g (frun cfgs kinds beh end_ fuel x)) <> 0.
Proof.
  induction fuel as [|f IH]; intros x H; simpl.
  - lia.
  - replace (negb (g_err (f_g x) =? 0)) with true by lia. auto.
Qed.

Definition pend_prefix (end_ : Z) (pend : option Z) (x : xst) : list (Z * Z) :=
  match pend with
  | Some v => if g_nst (f_g x) <? end_ then [(g_nst (f_g x), v)] else []
  | None => []
  end.

Lemma run_shift end_ fuel : forall pend x,
  FB cfgs k p s pend x -> end_ <= MAX_DT ->
  g_err (f_g (frun cfgs kinds beh end_ fuel x)) = 0 ->
  ticks_of s (fstates cfgs kinds beh end_ fuel x) =
  pend_prefix end_ pend x ++ map shift (filter (deliverable end_) (ticks_of p (fstates cfgs kinds beh end_ fuel x))).
Proof.
  induction fuel as [|f IH]; intros pend x HF He Herr.
  - simpl in Herr. lia.
  - simpl in *. destruct (negb (g_err (f_g x) =? 0)) eqn:E0; [lia|].
    destruct ((g_nst (f_g x) =? MAX_DT) || (end_ <=? g_nst (f_g x))) eqn:Es.
    + simpl. unfold pend_prefix. destruct pend; auto.
      replace (g_nst (f_g x) <? end_) with false by lia. reflexivity.
    + set (x' := fcycle cfgs kinds beh (g_nst (f_g x)) x) in *.
      assert (Herr' : g_err (f_g x') = 0).
      { destruct (Z.eq_dec (g_err (f_g x')) 0); auto. exfalso. revert Herr. apply frun_err_sticky; auto. }
      destruct (fcycle_pair cfgs kinds beh WF k p s init HK HC HS pend x HF ltac:(lia) Herr') as (N & R & F' & Gt & W).
      fold x' in N, R, F', Gt, W.
      specialize (IH (tick_now p (f_g x')) x' F' He Herr).
      unfold ticks_of in *. cbn [flat_map]. rewrite IH, R, N. clear IH.
      unfold pend_prefix. replace (g_nst (f_g x) <? end_) with true by lia.
      destruct (tick_now p (f_g x')) as [w|] eqn:Ew.
      * rewrite (W ltac:(congruence)). cbn [app filter].
        change (deliverable end_ (g_nst (f_g x), w)) with (g_nst (f_g x) + MIN_TD <? end_).
        destruct (g_nst (f_g x) + MIN_TD <? end_); destruct pend; cbn [map app]; reflexivity.
      * destruct pend; cbn [map app]; reflexivity.
Qed.

(* ---- the start phase ---- *)
Lemma start_node_spec behs i g :
  (i < length (g_nodes g))%nat ->
  let g' := start_node cfgs behs i g in
  g_now g' = g_now g /\ length (g_slots g') = length (g_slots g) /\ length (g_nodes g') = length (g_nodes g) /\
  (forall m, m <> i -> node_at m g' = node_at m g) /\ (forall m, m <> i -> slot_at m g' = slot_at m g) /\
  n_val (node_at i g') = n_val (node_at i g) /\ n_lmt (node_at i g') = n_lmt (node_at i g) /\
  (g_err g' = 0 -> n_started (node_at i g') = true).
Proof.
  intros Hi. cbn zeta. unfold start_node.
  destruct (negb (g_err g =? 0)) eqn:E0; [repeat split; auto; intros; lia|]. cbn zeta.
  (* activate_input_slots *)
  set (ga := upd_node i (set_act (map i_active (c_ins (nth i cfgs dflt_cfg)))) g).
  assert (Hia : (i < length (g_nodes ga))%nat) by (unfold ga, upd_node; simpl; rewrite update_length; auto).
  set (ops := behs i (-1) (g_now ga) (read_inputs (nth i cfgs dflt_cfg) ga) (n_sch (node_at i ga))).
  pose proof (frame_do_ops cfgs false i ops 0 ga Hia) as [F1 F2 F3 F4 F5 F6 F7 F8].
  set (g1 := do_ops cfgs i false 0 ops ga) in *.
  destruct F8 as [(Q1 & Q2 & Q3)|[X _]]; [|discriminate].
  assert (G1 : g_now g1 = g_now g /\ length (g_slots g1) = length (g_slots g) /\ length (g_nodes g1) = length (g_nodes g) /\
          (forall m, m <> i -> node_at m g1 = node_at m g) /\ (forall m, m <> i -> slot_at m g1 = slot_at m g) /\
          n_val (node_at i g1) = n_val (node_at i g) /\ n_lmt (node_at i g1) = n_lmt (node_at i g)).
  { split; [rewrite F1; reflexivity|]. split; [rewrite F2; reflexivity|].
    split; [rewrite F3; unfold ga, upd_node; simpl; apply update_length|].
    split; [intros m Hm; rewrite F4 by auto; unfold ga; apply node_at_upd_other; auto|].
    split; [intros m Hm; rewrite Q3 by auto; reflexivity|].
    split; [rewrite Q1|rewrite Q2]; unfold ga; rewrite node_at_upd_same by auto; reflexivity. }
  destruct G1 as (C1 & C2 & C3 & C4 & C5 & C6 & C7).
  destruct (negb (g_err g1 =? 0)) eqn:E1; [repeat split; auto; intros; lia|].
  set (g2 := upd_node i set_started g1).
  assert (G2 : g_now g2 = g_now g /\ length (g_slots g2) = length (g_slots g) /\ length (g_nodes g2) = length (g_nodes g) /\
          (forall m, m <> i -> node_at m g2 = node_at m g) /\ (forall m, slot_at m g2 = slot_at m g1) /\
          n_val (node_at i g2) = n_val (node_at i g) /\ n_lmt (node_at i g2) = n_lmt (node_at i g) /\
          n_started (node_at i g2) = true).
  { unfold g2. repeat split; auto.
    - unfold upd_node; simpl. rewrite update_length. auto.
    - intros m Hm. rewrite node_at_upd_other; auto.
    - rewrite node_at_upd_same by lia. simpl. auto.
    - rewrite node_at_upd_same by lia. simpl. auto.
    - rewrite node_at_upd_same by lia. reflexivity. }
  destruct G2 as (A1 & A2 & A3 & A4 & A5 & A6 & A7 & A8).
  destruct (c_sos (nth i cfgs dflt_cfg)).
  - destruct (schedule_node_spec i (g_now g2) g2) as (N1 & N2 & _).
    assert (ND : forall m, node_at m (schedule_node i (g_now g2) g2) = node_at m g2) by (intros; apply node_at_schedule_node).
    repeat split; try congruence;
      try solve [rewrite schedule_node_len; auto];
      try solve [intros m Hm; rewrite schedule_node_slot_other by auto; rewrite A5; auto];
      try solve [intros m Hm; rewrite ?ND; auto];
      try solve [rewrite ND; auto]; try solve [intros _; rewrite ND; auto].
  - repeat split; auto; try solve [intros m Hm; rewrite A5; auto].
Qed.

(* the start of the two feedback kinds: only a source with an initial delta arms itself; the
   subscriptions of a feedback node stay what activate_input_slots made them (no user code) *)
Lemma start_node_fb_slot i g :
  (i < length (g_nodes g))%nat -> (i < length (g_slots g))%nat -> g_err (start_node cfgs (fb_beh kinds beh) i g) = 0 ->
  (kind i = FSink \/ kind i = FSource None -> c_sos (cfg i) = false ->
     slot_at i (start_node cfgs (fb_beh kinds beh) i g) = slot_at i g /\
     n_act (node_at i (start_node cfgs (fb_beh kinds beh) i g)) = map i_active (c_ins (cfg i))) /\
  (forall v, kind i = FSource (Some v) -> c_sos (cfg i) = false -> slot_at i g <= g_now g ->
     slot_at i (start_node cfgs (fb_beh kinds beh) i g) = g_now g).
Proof.
  intros Hi Hs. unfold start_node. fold (cfg i).
  destruct (negb (g_err g =? 0)) eqn:E0; [intros; lia|]. cbn zeta.
  set (ga := upd_node i (set_act (map i_active (c_ins (cfg i)))) g).
  assert (Ea : negb (g_err ga =? 0) = false) by exact E0.
  assert (Na : g_now ga = g_now g) by reflexivity.
  assert (Hia : (i < length (g_nodes ga))%nat) by (unfold ga, upd_node; simpl; rewrite update_length; auto).
  intros Herr. split.
  - intros Hk Hsos. rewrite Hsos in *. unfold fb_beh in *.
    assert (Eo : (match kind i with
                  | FNative => beh i (-1) (g_now ga) (read_inputs (cfg i) ga) (n_sch (node_at i ga))
                  | FSource (Some _) => if -1 =? -1 then [ORaw 0] else []
                  | _ => [] end) = []) by (destruct Hk as [Hk|Hk]; rewrite Hk; reflexivity).
    rewrite Eo in *. simpl do_ops in *. rewrite Ea in *.
    split; [reflexivity|].
    rewrite node_at_upd_same by exact Hia. simpl. unfold ga. rewrite node_at_upd_same by exact Hi. reflexivity.
  - intros v Hk Hsos Hle. unfold fb_beh in *. rewrite Hk in *. rewrite Hsos in *. simpl do_ops in *. unfold do_op in *. rewrite Ea in *.
    rewrite Na in *. rewrite Z.add_0_r in *.
    destruct (schedule_node_spec i (g_now g) ga) as (_ & _ & _ & _ & N4). specialize (N4 ltac:(rewrite Na; lia)).
    destruct N4 as (Er & Y & _).
    assert (AP : sn_applies i (g_now g) ga = true) by (unfold sn_applies; change (slot_at i ga) with (slot_at i g); rewrite Na; lia).
    destruct (Y AP) as [YS _].
    replace (negb (g_err (schedule_node i (g_now g) ga) =? 0)) with false by (change (g_err ga) with (g_err g) in Er; lia).
    change (slot_at i (schedule_node i (g_now g) ga) = g_now g).
    unfold slot_at. rewrite YS. apply slot_at_set_same; auto.
Qed.

Record SQ (start : Z) (i : nat) (g : gst) : Prop := {
  sq_now : g_now g = start;
  sq_ls : length (g_slots g) = n;
  sq_ln : length (g_nodes g) = n;
  sq_lmt : forall m, n_lmt (node_at m g) = MIN_DT;
  sq_started : forall m, (m < i)%nat -> n_started (node_at m g) = true;
  sq_k : slot_at k g = MIN_DT;
  sq_actk : (k < i)%nat -> n_act (node_at k g) = [true; false];
  sq_s : slot_at s g = if (s <? i)%nat then (match init with Some _ => start | None => MIN_DT end) else MIN_DT }.

Lemma start_nodes_SQ start m : forall i g,
  MIN_DT < start -> (i + m = n)%nat -> SQ start i g ->
  g_err (start_nodes cfgs (fb_beh kinds beh) i m g) = 0 -> SQ start n (start_nodes cfgs (fb_beh kinds beh) i m g).
Proof.
  pose proof (s_lt_k cfgs kinds WF k p s HK HC) as SK. pose proof (k_lt cfgs kinds WF k HK) as KL.
  pose proof (s_cfg cfgs kinds WF s init HS) as SC.
  induction m as [|m IH]; intros i g Hst Him H Herr; simpl in *.
  - replace n with i by lia. exact H.
  - assert (Herr1 : g_err (start_node cfgs (fb_beh kinds beh) i g) = 0).
    { destruct (Z.eq_dec (g_err (start_node cfgs (fb_beh kinds beh) i g)) 0); auto.
      rewrite start_nodes_err_sticky in Herr by auto. contradiction. }
    apply IH; auto; [lia|].
    destruct H as [Q1 Q2 Q3 Q4 Q5 Q6 QA Q7].
    destruct (start_node_spec (fb_beh kinds beh) i g ltac:(lia)) as (A1 & A2 & A3 & A4 & A5 & A6 & A7 & A8).
    destruct (start_node_fb_slot i g ltac:(lia) ltac:(lia) Herr1) as [S1 S2].
    assert (SKC : c_sos (cfg k) = false) by (rewrite HC; reflexivity).
    constructor; try congruence.
    + intros m0. destruct (Nat.eq_dec m0 i) as [->|Hne]; [rewrite A7; auto|rewrite A4; auto].
    + intros m0 Hm0. destruct (Nat.eq_dec m0 i) as [->|Hne]; [apply A8; auto|rewrite A4; auto; apply Q5; lia].
    + destruct (Nat.eq_dec k i) as [<-|Hne]; [|rewrite A5; auto].
      rewrite (proj1 (S1 (or_introl HK) SKC)); auto.
    + intros Hki. destruct (Nat.eq_dec k i) as [<-|Hne].
      * rewrite (proj2 (S1 (or_introl HK) SKC)). rewrite HC. reflexivity.
      * rewrite A4 by auto. apply QA. lia.
    + destruct (Nat.eq_dec s i) as [<-|Hne].
      * replace (s <? S s)%nat with true by (symmetry; apply Nat.ltb_lt; lia).
        replace (s <? s)%nat with false in Q7 by (symmetry; apply Nat.ltb_ge; lia).
        destruct init as [v|].
        -- rewrite <- Q1. apply (S2 v); auto; [rewrite SC; reflexivity|]. rewrite Q7. unfold MIN_DT in *. lia.
        -- rewrite (proj1 (S1 (or_intror HS) ltac:(rewrite SC; reflexivity))); auto.
      * rewrite A5 by auto. rewrite Q7.
        destruct (s <? i)%nat eqn:E1; destruct (s <? S i)%nat eqn:E2; auto.
        -- apply Nat.ltb_lt in E1. apply Nat.ltb_ge in E2. lia.
        -- apply Nat.ltb_ge in E1. apply Nat.ltb_lt in E2. lia.
Qed.

Lemma fstart_FB start :
  MIN_DT < start -> start <= MAX_DT -> g_err (f_g (fstart cfgs kinds beh start)) = 0 ->
  FB cfgs k p s init (fstart cfgs kinds beh start) /\ g_now (f_g (fstart cfgs kinds beh start)) = start /\
  start <= g_nst (f_g (fstart cfgs kinds beh start)) /\
  (init <> None -> g_nst (f_g (fstart cfgs kinds beh start)) = start).
Proof.
  intros Hst HsM. unfold fstart. simpl f_g. unfold start_graph.
  pose proof (s_lt_k cfgs kinds WF k p s HK HC) as SK. pose proof (k_lt cfgs kinds WF k HK) as KL.
  set (g0 := mkG start (repeat MIN_DT n) MAX_DT (repeat init_n n) [] 0).
  assert (H0 : SQ start 0 g0).
  { constructor; simpl; auto; try apply repeat_length.
    - intros m. unfold node_at; simpl. destruct (Nat.lt_ge_cases m n).
      + rewrite nth_repeat. reflexivity.
      + rewrite nth_overflow; [reflexivity|rewrite repeat_length; auto].
    - intros; lia.
    - unfold slot_at; simpl. rewrite nth_repeat. reflexivity.
    - intros; lia.
    - unfold slot_at; simpl. rewrite nth_repeat. reflexivity. }
  set (g1 := start_nodes cfgs (fb_beh kinds beh) 0 n g0).
  destruct (negb (g_err g1 =? 0)) eqn:E1; [intros; lia|]. intros _.
  pose proof (start_nodes_SQ start n 0%nat g0 Hst ltac:(lia) H0 ltac:(fold g1; lia)) as [Q1 Q2 Q3 Q4 Q5 Q6 QA Q7].
  fold g1 in Q1, Q2, Q3, Q4, Q5, Q6, QA, Q7.
  destruct (seed_fold_le (g_now g1) (g_slots g1) MAX_DT) as [F1 F2].
  assert (G : forall l acc, g_now g1 <= acc -> g_now g1 <= fold_left (fun a sc => if (g_now g1 <=? sc) && (sc <? a) then sc else a) l acc).
  { induction l as [|y r IH]; intros acc Ha; simpl; auto. apply IH. destruct ((g_now g1 <=? y) && (y <? acc)) eqn:E; lia. }
  specialize (G (g_slots g1) MAX_DT ltac:(lia)).
  set (nst := fold_left (fun a sc => if (g_now g1 <=? sc) && (sc <? a) then sc else a) (g_slots g1) MAX_DT) in *.
  assert (ND : forall m, node_at m (seed_cache g1) = node_at m g1) by reflexivity.
  assert (SL : forall m, slot_at m (seed_cache g1) = slot_at m g1) by reflexivity.
  assert (NS : g_nst (seed_cache g1) = nst) by reflexivity.
  assert (Q7' : slot_at s g1 = match init with Some _ => start | None => MIN_DT end).
  { rewrite Q7. replace (s <? n)%nat with true by (symmetry; apply Nat.ltb_lt; lia). reflexivity. }
  assert (NI : init <> None -> nst = start).
  { intros Hi. assert (Q7s : slot_at s g1 = start) by (rewrite Q7'; destruct init; congruence).
    assert (nst <= start); [|lia].
    rewrite <- Q7s. apply F2; [unfold slot_at; apply nth_In; lia|rewrite Q7s, Q1; lia]. }
  split; [|split; [exact Q1|split; [rewrite NS; lia|rewrite NS; exact NI]]].
  constructor; simpl f_g; simpl f_st; auto.
  - rewrite map_length. apply (wf_len cfgs kinds WF).
  - rewrite ND, NS, Q4. lia.
  - rewrite ND, NS, Q4. lia.
  - rewrite SL, NS, Q6. lia.
  - rewrite SL, NS.
    assert (St : state_at s {| f_g := seed_cache g1; f_st := map state0_of kinds |} = state0_of (FSource init)).
    { unfold state_at; simpl. change None with (state0_of FNative). rewrite map_nth. fold (kind s). rewrite HS. reflexivity. }
    rewrite St, Q7'. clear St HS.
    destruct init as [v|]; [|lia]. split; auto. rewrite NI; congruence.
Qed.

(* THE SHIFT THEOREM for one pair of any graph *)
Theorem feedback_shift_l start end_ fuel :
  MIN_DT < start -> end_ <= MAX_DT ->
  g_err (f_g (fsim cfgs kinds beh start end_ fuel)) = 0 ->
  let sts := fstates cfgs kinds beh end_ fuel (fstart cfgs kinds beh start) in
  ticks_of s sts =
  (match init with Some v => if start <? end_ then [(start, v)] else [] | None => [] end) ++
  map shift (filter (deliverable end_) (ticks_of p sts)).
Proof.
  intros Hst He Herr. cbn zeta. unfold fsim in Herr.
  destruct (Z_le_gt_dec start MAX_DT) as [HsM|HsM].
  - assert (E0 : g_err (f_g (fstart cfgs kinds beh start)) = 0).
    { destruct (Z.eq_dec (g_err (f_g (fstart cfgs kinds beh start))) 0); auto.
      exfalso. revert Herr. apply frun_err_sticky; auto. }
    destruct (fstart_FB start Hst HsM E0) as (F & N & G & NI).
    rewrite (run_shift end_ fuel init _ F He Herr). f_equal.
    unfold pend_prefix. clear F Herr E0. destruct init as [v|]; auto.
    rewrite NI by congruence. reflexivity.
  - (* start beyond the end of time: no cycle at all *)
    assert (Hn : forall x, end_ <= g_nst (f_g x) \/ g_nst (f_g x) = MAX_DT -> fstates cfgs kinds beh end_ fuel x = []).
    { intros x Hx. destruct fuel; simpl; auto. destruct (negb (g_err (f_g x) =? 0)); auto.
      replace ((g_nst (f_g x) =? MAX_DT) || (end_ <=? g_nst (f_g x))) with true by lia. auto. }
    replace (start <? end_) with false by lia.
    assert (E0 : g_err (f_g (fstart cfgs kinds beh start)) = 0).
    { destruct (Z.eq_dec (g_err (f_g (fstart cfgs kinds beh start))) 0); auto.
      exfalso. revert Herr. apply frun_err_sticky; auto. }
    rewrite Hn; [destruct init; reflexivity|].
    (* the seeded cache is a slot >= start or MAX_DT *)
    unfold fstart, start_graph in *. simpl f_g in *.
    set (g1 := start_nodes cfgs (fb_beh kinds beh) 0 n _) in *.
    destruct (negb (g_err g1 =? 0)) eqn:E1; [lia|].
    assert (Now1 : g_now g1 = start) by (unfold g1; rewrite start_nodes_now; reflexivity).
    unfold seed_cache; simpl. rewrite Now1.
    assert (G : forall l acc, (start <= acc) -> start <= fold_left (fun a sc => if (start <=? sc) && (sc <? a) then sc else a) l acc \/
                fold_left (fun a sc => if (start <=? sc) && (sc <? a) then sc else a) l acc = acc).
    { induction l as [|y r IH]; intros acc Ha; simpl; auto.
      destruct ((start <=? y) && (y <? acc)) eqn:E; [|apply IH; auto].
      left. destruct (IH y ltac:(lia)) as [X|X]; lia. }
    assert (G2 : forall l acc, acc <= MAX_DT -> acc < start -> acc = MAX_DT ->
                 fold_left (fun a sc => if (start <=? sc) && (sc <? a) then sc else a) l acc = acc).
    { induction l as [|y r IH]; intros acc Ha Hb Hc; simpl; auto.
      replace ((start <=? y) && (y <? acc)) with false by lia. apply IH; auto. }
    right. apply G2; lia.
Qed.

End Run.

(* ------------------------------------------------------------------ *)
(* Part 5.  Consequences                                                *)
(* ------------------------------------------------------------------ *)
Section Consequences.
Variable cfgs : list ncfg.
Variable kinds : list fkind.
Variable beh : behaviour.
Notation n := (length cfgs).
Notation cfg := (EngineFacts.cfg cfgs).
Notation kind := (kind_at kinds).
Hypothesis WF : fb_wf cfgs kinds.

(* every value the reader side ever shows was written exactly one smallest step earlier
   (or is the declared initial value at the start time): never in the reader's own cycle *)
Lemma never_same_cycle_l k p s init start end_ fuel :
  kind k = FSink -> cfg k = sink_cfg p s -> kind s = FSource init ->
  MIN_DT < start -> end_ <= MAX_DT ->
  g_err (f_g (fsim cfgs kinds beh start end_ fuel)) = 0 ->
  let sts := fstates cfgs kinds beh end_ fuel (fstart cfgs kinds beh start) in
  forall t v, In (t, v) (ticks_of s sts) ->
    (t = start /\ init = Some v) \/ In (t - MIN_TD, v) (ticks_of p sts).
Proof.
  intros HK HC HS Hst He Herr sts t v Hin. unfold sts in *.
  rewrite (feedback_shift_l cfgs kinds beh WF k p s init HK HC HS start end_ fuel Hst He Herr) in Hin.
  apply in_app_or in Hin. destruct Hin as [Hin|Hin].
  - left. destruct init as [w|]; [|destruct Hin]. destruct (start <? end_); [|destruct Hin].
    destruct Hin as [Heq|[]]. inversion Heq. auto.
  - right. apply in_map_iff in Hin. destruct Hin as ([t0 v0] & Heq & Hin). apply filter_In in Hin. destruct Hin as [Hin _].
    unfold shift in Heq. simpl in Heq. inversion Heq. subst. replace (t0 + MIN_TD - MIN_TD) with t0 by lia. exact Hin.
Qed.

(* no loss: every write whose delivery time lies inside the run is delivered, one step later *)
Lemma no_loss_l k p s init start end_ fuel :
  kind k = FSink -> cfg k = sink_cfg p s -> kind s = FSource init ->
  MIN_DT < start -> end_ <= MAX_DT ->
  g_err (f_g (fsim cfgs kinds beh start end_ fuel)) = 0 ->
  let sts := fstates cfgs kinds beh end_ fuel (fstart cfgs kinds beh start) in
  forall t v, In (t, v) (ticks_of p sts) -> t + MIN_TD < end_ -> In (t + MIN_TD, v) (ticks_of s sts).
Proof.
  intros HK HC HS Hst He Herr sts t v Hin Hlt. unfold sts in *.
  rewrite (feedback_shift_l cfgs kinds beh WF k p s init HK HC HS start end_ fuel Hst He Herr).
  apply in_or_app. right. apply in_map_iff. exists (t, v). split; [reflexivity|].
  apply filter_In. split; auto. unfold deliverable. simpl. lia.
Qed.

(* the cycle of the delivery exists whatever else is (not) scheduled *)
Lemma delivery_cycle_exists_l k p s init pend x end_ f w :
  kind k = FSink -> cfg k = sink_cfg p s -> kind s = FSource init ->
  FB cfgs k p s pend x -> g_nst (f_g x) < MAX_DT -> end_ <= MAX_DT ->
  let t := g_nst (f_g x) in
  let x' := fcycle cfgs kinds beh t x in
  g_err (f_g x') = 0 -> tick_now p (f_g x') = Some w -> t + MIN_TD < end_ ->
  exists rest, fstates cfgs kinds beh end_ (S f) x' = fcycle cfgs kinds beh (t + MIN_TD) x' :: rest.
Proof.
  intros HK HC HS HF Hlt He t x' Herr Hw Hend.
  destruct (fcycle_pair cfgs kinds beh WF k p s init HK HC HS pend x HF Hlt Herr) as (N & R & F' & Gt & W).
  fold t in N, Gt, W. fold x' in N, R, F', Gt, W.
  specialize (W ltac:(congruence)).
  change (fstates cfgs kinds beh end_ (S f) x') with
    (if negb (g_err (f_g x') =? 0) then [] else
     if (g_nst (f_g x') =? MAX_DT) || (end_ <=? g_nst (f_g x')) then [] else
     fcycle cfgs kinds beh (g_nst (f_g x')) x' :: fstates cfgs kinds beh end_ f (fcycle cfgs kinds beh (g_nst (f_g x')) x')).
  replace (negb (g_err (f_g x') =? 0)) with false by lia. rewrite W.
  replace ((t + MIN_TD =? MAX_DT) || (end_ <=? t + MIN_TD)) with false by lia.
  eexists. reflexivity.
Qed.

(* ---- quiescence of loops that are read only passively ---- *)
(* in state g nobody is subscribed to source i: every reader's input is passive at run time
   (declared passive and not re-activated, or made passive by user code) *)
Definition unread_source (g : gst) (i : nat) : Prop :=
  (exists init, kind i = FSource init) /\ forall j, ract cfgs g i j = false.

Lemma eval_source_unread j x :
  (forall m, ract cfgs (f_g x) j m = false) ->
  let x' := eval_source cfgs j x in
  g_now (f_g x') = g_now (f_g x) /\ (forall m, slot_at m (f_g x') = slot_at m (f_g x)) /\
  g_nst (f_g x') = g_nst (f_g x) /\ g_err (f_g x') = g_err (f_g x) /\ f_st x' = f_st x /\
  length (g_nodes (f_g x')) = length (g_nodes (f_g x)) /\
  (forall m, m <> j -> node_at m (f_g x') = node_at m (f_g x)) /\
  (forall m, n_act (node_at m (f_g x')) = n_act (node_at m (f_g x))).
Proof.
  intros Hun. cbn zeta. unfold eval_source. cbn zeta. simpl f_g. simpl f_st.
  destruct (negb (n_started (node_at j (f_g x)))); [repeat split; auto|].
  destruct (state_at j x) as [v|]; [|repeat split; auto].
  set (g1 := upd_node j (set_out v (g_now (f_g x))) (f_g x)).
  assert (Hl : forall m c, nth_error cfgs m = Some c -> c = cfg (0 + m)).
  { intros m c Hm. apply (cfgs_nth_error cfgs m c Hm). }
  assert (NA : forall m, n_act (node_at m g1) = n_act (node_at m (f_g x))).
  { intros m. unfold g1. destruct (Nat.eq_dec m j) as [->|Hm]; [|rewrite node_at_upd_other; auto].
    rewrite node_at_upd_gen. destruct (_ <? _)%nat; reflexivity. }
  destruct (notify_spec cfgs cfgs 0%nat j g1 Hl) as (B1 & B2 & B3 & B4 & B5 & B6 & B7).
  assert (ND : forall m, node_at m (notify_from cfgs 0 j g1) = node_at m g1) by (intros; unfold node_at; rewrite B2; auto).
  repeat split; auto.
  - intros m. change (slot_at m (notify_from cfgs 0 j g1) = slot_at m g1).
    destruct (B6 m) as [X|(_ & X & _)]; auto. rewrite (ract_act cfgs (f_g x) g1 j m (NA m)) in X. rewrite Hun in X. discriminate.
  - change (length (g_nodes (notify_from cfgs 0 j g1)) = length (g_nodes (f_g x))). rewrite B2.
    unfold g1, upd_node; simpl. apply update_length.
  - intros m Hm. change (node_at m (notify_from cfgs 0 j g1) = node_at m (f_g x)).
    rewrite ND. unfold g1. apply node_at_upd_other; auto.
  - intros m. change (n_act (node_at m (notify_from cfgs 0 j g1)) = n_act (node_at m (f_g x))). rewrite ND. apply NA.
Qed.

Record QI (T : Z) (x0 x : xst) : Prop := {
  q_now : g_now (f_g x) = T;
  q_nst : g_nst (f_g x) = MAX_DT;
  q_err : g_err (f_g x) = g_err (f_g x0);
  q_st : f_st x = f_st x0;
  q_slots : forall m, slot_at m (f_g x) = slot_at m (f_g x0);
  q_nodes : forall m, (forall init, kind m <> FSource init) -> node_at m (f_g x) = node_at m (f_g x0);
  q_act : forall m, n_act (node_at m (f_g x)) = n_act (node_at m (f_g x0)) }.

Lemma fscan_QI T x0 m : forall j x,
  (forall i, (j <= i < j + m)%nat -> slot_at i (f_g x0) <= T) ->
  (forall i, (j <= i < j + m)%nat -> slot_at i (f_g x0) = T -> unread_source (f_g x0) i) ->
  QI T x0 x -> QI T x0 (fscan cfgs kinds beh j m x).
Proof.
  induction m as [|m IH]; intros j x Hle Hun H; simpl; auto.
  destruct (negb (g_err (f_g x) =? 0)); auto.
  apply IH.
  - intros i Hi. apply Hle. lia.
  - intros i Hi. apply Hun. lia.
  - destruct H as [Q1 Q2 Q3 Q4 Q5 Q6 Q7]. unfold fscan_step. cbn zeta. rewrite Q5, Q1.
    destruct (slot_at j (f_g x0) =? T) eqn:E.
    + destruct (Hun j ltac:(lia) ltac:(lia)) as [[init Hk] Hact].
      unfold eval_any. simpl f_g. rewrite Hk.
      set (x1 := {| f_g := upd_node j inc_evals (emit [11; Z.of_nat j; T] (f_g x)); f_st := f_st x |}).
      assert (NA1 : forall m0, n_act (node_at m0 (f_g x1)) = n_act (node_at m0 (f_g x0))).
      { intros m0. rewrite <- Q7. unfold x1; simpl f_g. destruct (Nat.eq_dec m0 j) as [->|Hm]; [|rewrite node_at_upd_other; auto].
        rewrite node_at_upd_gen. destruct (_ <? _)%nat; reflexivity. }
      assert (Hact1 : forall m0, ract cfgs (f_g x1) j m0 = false).
      { intros m0. rewrite (ract_act cfgs (f_g x0) (f_g x1) j m0 (NA1 m0)). apply Hact. }
      destruct (eval_source_unread j x1 Hact1) as (A1 & A2 & A3 & A4 & A5 & A6 & A7 & A8).
      assert (X1 : g_now (f_g x1) = T) by exact Q1.
      assert (X2 : g_nst (f_g x1) = MAX_DT) by exact Q2.
      assert (X3 : g_err (f_g x1) = g_err (f_g x0)) by exact Q3.
      assert (X4 : f_st x1 = f_st x0) by exact Q4.
      constructor; try congruence;
        try solve [intros m0; rewrite A2; apply Q5];
        try solve [intros m0; rewrite A8; apply NA1].
      intros m0 Hm0. assert (m0 <> j) by (intros ->; apply (Hm0 init); auto).
      rewrite A7 by auto. unfold x1; simpl f_g. rewrite node_at_upd_other by auto. apply Q6; auto.
    + specialize (Hle j ltac:(lia)). replace (T <? slot_at j (f_g x0)) with false by lia.
      constructor; auto.
Qed.

(* If everything that is due at the next cycle is a feedback source to which nobody is
   subscribed (run-time activity n_act: the declared i_active unless user code called
   make_passive / make_active), and nothing is armed later, that cycle delivers the values and
   the engine is then idle: the run loop stops there, whatever the end time. *)
Lemma passive_quiesce_l x :
  let T := g_nst (f_g x) in
  (forall i, (i < n)%nat -> slot_at i (f_g x) <= T) ->
  (forall i, (i < n)%nat -> slot_at i (f_g x) = T -> unread_source (f_g x) i) ->
  let x' := fcycle cfgs kinds beh T x in
  g_nst (f_g x') = MAX_DT /\
  (forall end_ fuel, frun cfgs kinds beh end_ (S fuel) x' = x') /\
  (forall m, (forall init, kind m <> FSource init) -> node_at m (f_g x') = node_at m (f_g x)) /\
  f_st x' = f_st x.
Proof.
  intros T Hle Hun x'. unfold x', fcycle. cbn zeta. simpl f_g. simpl f_st.
  set (x0 := {| f_g := begin_cycle T (f_g x); f_st := f_st x |}).
  assert (H0 : QI T x0 x0) by (constructor; auto).
  assert (Hun0 : forall i, (0 <= i < 0 + n)%nat -> slot_at i (f_g x0) = T -> unread_source (f_g x0) i).
  { intros i Hi He. destruct (Hun i ltac:(lia) He) as [K A]. split; auto. }
  pose proof (fscan_QI T x0 n 0%nat x0 ltac:(intros i Hi; apply Hle; lia) Hun0 H0) as [Q1 Q2 Q3 Q4 Q5 Q6 Q7].
  set (x1 := fscan cfgs kinds beh 0 n x0) in *.
  split; [exact Q2|]. split; [|split; [intros m Hm; apply (Q6 m Hm)|exact Q4]].
  intros end_ fuel. simpl.
  destruct (negb (g_err (f_g x1) =? 0)); auto.
  rewrite Q2. rewrite Z.eqb_refl. reflexivity.
Qed.

End Consequences.

(* ------------------------------------------------------------------ *)
(* Part 6.  Why the ranking matters: a counter-model                    *)
(* ------------------------------------------------------------------ *)
(* a graph given in the wire format of the correspondence check, and its run *)
Definition graph_of (w : wire) : list ncfg * list fkind :=
  let ns := parse_fnodes w in (map fst ns, map snd ns).

Definition run_of (w : wire) : xst * list xst :=
  let '(cfgs, kinds) := graph_of w in
  let '(s, e) := window w in
  let fuel := (Z.to_nat (e - s) + 1)%nat in
  (fsim cfgs kinds (script_beh w) s e fuel,
   fstates cfgs kinds (script_beh w) e fuel (fstart cfgs kinds (script_beh w) s)).

(* producer 0 writes 10, 20, 30 at 1, 2, 3; the sink is node 1, the source node 2: ranked AFTER its sink *)
Definition cm_case : wire :=
  [[1;1;8]; [2;0;1;0;1;0;0]; [5;1;0;2]; [4;2;0;0];
   [3;0;-1;1;0;0]; [3;0;0;6;10;0]; [3;0;0;1;1;0]; [3;0;1;6;20;0]; [3;0;1;1;1;0]; [3;0;2;6;30;0]].

Lemma source_after_sink_loses :
  let '(cfgs, kinds) := graph_of cm_case in
  let '(x, sts) := run_of cm_case in
  kind_at kinds 1 = FSink /\ EngineFacts.cfg cfgs 1 = sink_cfg 0 2 /\ kind_at kinds 2 = FSource None /\
  g_err (f_g x) = 0 /\
  ticks_of 0 sts = [(1, 10); (2, 20); (3, 30)] /\
  ticks_of 2 sts = [(4, 30)].
Proof. vm_compute. split; [reflexivity|]. split; [reflexivity|]. split; [reflexivity|]. split; [reflexivity|]. split; reflexivity. Qed.

Lemma needs_source_before_sink_refuted_l :
  exists cfgs kinds beh k p s start end_ fuel,
    kind_at kinds k = FSink /\ EngineFacts.cfg cfgs k = sink_cfg p s /\ kind_at kinds s = FSource None /\
    (p < k)%nat /\ (k < s)%nat /\ MIN_DT < start /\ end_ <= MAX_DT /\
    g_err (f_g (fsim cfgs kinds beh start end_ fuel)) = 0 /\
    let sts := fstates cfgs kinds beh end_ fuel (fstart cfgs kinds beh start) in
    ticks_of s sts <> map shift (filter (deliverable end_) (ticks_of p sts)).
Proof.
  exists (fst (graph_of cm_case)), (snd (graph_of cm_case)), (script_beh cm_case), 1%nat, 0%nat, 2%nat, 1, 8, 8%nat.
  split; [vm_compute; reflexivity|]. split; [vm_compute; reflexivity|]. split; [vm_compute; reflexivity|].
  split; [lia|]. split; [lia|]. split; [vm_compute; reflexivity|]. split; [vm_compute; intros H; discriminate|].
  split; [vm_compute; reflexivity|].
  vm_compute. intros H. discriminate.
Qed.

(* evaluating a sink never touches any node's output: the value it captures becomes
   visible only through the source's own evaluation, in a later cycle *)
Lemma eval_sink_nodes cfgs i x : g_nodes (f_g (eval_sink cfgs i x)) = g_nodes (f_g x).
Proof.
  unfold eval_sink. cbn zeta.
  destruct (negb (n_started (node_at i (f_g x)))); simpl; auto.
  destruct (ready (nth i cfgs dflt_cfg) (f_g x)); simpl; auto.
  destruct (schedule_node_spec (sink_src (nth i cfgs dflt_cfg)) (g_now (f_g x) + MIN_TD) (f_g x)) as (_ & N & _). exact N.
Qed.

(* a producer that INVALIDATED its output (OInvalidate) does notify the sink - it is an active
   subscriber - but evaluate_feedback_sink sits behind the node gate valid_inputs = {0}: with the
   producer invalid the callback does not run.  Nothing is captured, nothing is scheduled: an
   invalidation is not forwarded through a feedback, the reader side keeps the last delivered value. *)
Lemma sink_ignores_invalid_producer_l cfgs j x p s :
  EngineFacts.cfg cfgs j = sink_cfg p s -> n_val (node_at p (f_g x)) = None ->
  let x' := eval_sink cfgs j x in
  g_nodes (f_g x') = g_nodes (f_g x) /\ f_st x' = f_st x /\ g_slots (f_g x') = g_slots (f_g x) /\
  g_nst (f_g x') = g_nst (f_g x).
Proof.
  intros Hc Hv. cbn zeta. unfold eval_sink. fold (EngineFacts.cfg cfgs j). rewrite Hc. cbn zeta.
  destruct (negb (n_started (node_at j (f_g x)))); [repeat split|].
  destruct (ready (sink_cfg p s) (f_g x)) eqn:Er; [|repeat split].
  apply ready_sink in Er. congruence.
Qed.
