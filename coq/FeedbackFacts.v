(* FeedbackFacts.v — theorems about the feedback pair on the flat engine (Feedback.v). *)
Require Import Base Sched SchedFacts Engine EngineFacts Feedback.
From Coq Require Import ZifyBool.

(* evaluating a sink never touches any node's output: the value it captures becomes
   visible only through the source's own evaluation, in a later cycle *)
Lemma eval_sink_nodes cfgs i x : g_nodes (f_g (eval_sink cfgs i x)) = g_nodes (f_g x).
Proof.
  unfold eval_sink. cbn zeta.
  destruct (negb (n_started (node_at i (f_g x)))); simpl; auto.
  destruct (ready (nth i cfgs dflt_cfg) (f_g x)); simpl; auto.
  destruct (schedule_node_spec (sink_src (nth i cfgs dflt_cfg)) (g_now (f_g x) + MIN_TD) (f_g x)) as (_ & N & _). exact N.
Qed.
