(* FeedbackFacts.v — theorems about the feedback pair on the flat engine (Feedback.v). *)
Require Import Base Sched SchedFacts Engine EngineFacts Feedback.
From Coq Require Import ZifyBool.

(* ------------------------------------------------------------------ *)
(* Part 1.  What the evaluation of ONE node can change (frame facts)    *)
(* ------------------------------------------------------------------ *)
Section Frame.
Variable cfgs : list ncfg.
Notation n := (length cfgs).
Notation cfg := (EngineFacts.cfg cfgs).

(* node j has an ACTIVE input bound to the output of node src *)
Definition act_from (src j : nat) : bool :=
  existsb (fun s => (i_src s =? src)%nat && i_active s) (c_ins (cfg j)).

(* the node under evaluation did not write its output: nobody else's slot moved *)
Definition quiet (i : nat) (g g' : gst) : Prop :=
  n_val (node_at i g') = n_val (node_at i g) /\ n_lmt (node_at i g') = n_lmt (node_at i g) /\
  forall m, m <> i -> slot_at m g' = slot_at m g.

(* it wrote: its output is modified now, and exactly its started active readers are due now *)
Definition wrote (i : nat) (g g' : gst) : Prop :=
  n_lmt (node_at i g') = g_now g /\ n_val (node_at i g') <> None /\
  (forall m, m <> i -> slot_at m g' = slot_at m g \/ (act_from i m = true /\ slot_at m g' = g_now g)) /\
  (forall m, m <> i -> (m < n)%nat -> (m < length (g_slots g))%nat -> act_from i m = true ->
             n_started (node_at m g) = true -> slot_at m g' = g_now g).

Record frame (st : bool) (i : nat) (g g' : gst) : Prop := {
  fr_now : g_now g' = g_now g;
  fr_ls : length (g_slots g') = length (g_slots g);
  fr_ln : length (g_nodes g') = length (g_nodes g);
  fr_nodes : forall m, m <> i -> node_at m g' = node_at m g;
  fr_started : n_started (node_at i g') = n_started (node_at i g);
  fr_nst : g_nst g' <= g_nst g;
  fr_gt : g_now g < g_nst g -> g_now g < g_nst g';
  fr_out : quiet i g g' \/ (st = true /\ wrote i g g') }.

Lemma frame_refl st i g : frame st i g g.
Proof. constructor; auto; try lia. left. unfold quiet. repeat split; auto. Qed.

Lemma frame_trans st i g g1 g2 : frame st i g g1 -> frame st i g1 g2 -> frame st i g g2.
Proof.
  intros [A1 A2 A3 A4 A5 A6 A7 A8] [B1 B2 B3 B4 B5 B6 B7 B8].
  constructor.
  1-3: congruence.
  - intros m Hm. rewrite B4, A4; auto.
  - congruence.
  - lia.
  - intros H. rewrite <- A1. apply B7. rewrite A1. auto.
  - destruct A8 as [(Q1 & Q2 & Q3)|(S1 & W1 & W2 & W3 & W4)]; destruct B8 as [(R1 & R2 & R3)|(S2 & V1 & V2 & V3 & V4)].
    + left. repeat split; try congruence. intros m Hm. rewrite R3, Q3; auto.
    + right. split; auto. repeat split; try congruence.
      * intros m Hm. destruct (V3 m Hm) as [X|[X Y]]; [left; rewrite X; auto|right; split; auto; congruence].
      * intros m Hm Hn Hl Ha Hs. rewrite <- A1. apply V4; auto; try congruence. rewrite A4; auto.
    + right. split; auto. repeat split; try congruence.
      * intros m Hm. rewrite R3 by auto. apply W3; auto.
      * intros m Hm Hn Hl Ha Hs. rewrite R3 by auto. apply W4; auto.
    + right. split; auto. repeat split; try congruence.
      * intros m Hm. destruct (V3 m Hm) as [X|[X Y]].
        -- rewrite X. apply W3; auto.
        -- right. split; auto. congruence.
      * intros m Hm Hn Hl Ha Hs. rewrite <- A1. apply V4; auto; try congruence. rewrite A4; auto.
Qed.

Lemma frame_emit st i l g : frame st i g (emit l g).
Proof. constructor; auto; try (simpl; lia). left. unfold quiet. repeat split; auto. Qed.

Lemma frame_set_err st i e g : frame st i g (set_err e g).
Proof. constructor; auto; try (simpl; lia). left. unfold quiet. repeat split; auto. Qed.

Lemma node_at_upd_gen i f g :
  node_at i (upd_node i f g) = if (i <? length (g_nodes g))%nat then f (node_at i g) else node_at i g.
Proof.
  destruct (i <? length (g_nodes g))%nat eqn:E.
  - apply node_at_upd_same. apply Nat.ltb_lt; auto.
  - apply Nat.ltb_ge in E. unfold node_at, upd_node; simpl. rewrite !nth_overflow; auto. rewrite update_length; auto.
Qed.

Lemma frame_upd st i f g :
  (forall x, n_val (f x) = n_val x /\ n_lmt (f x) = n_lmt x /\ n_started (f x) = n_started x) ->
  frame st i g (upd_node i f g).
Proof.
  intros H. constructor.
  - reflexivity.
  - reflexivity.
  - unfold upd_node; simpl. apply update_length.
  - intros m Hm. apply node_at_upd_other; auto.
  - rewrite node_at_upd_gen. destruct (_ <? _)%nat; auto. apply H.
  - simpl. lia.
  - simpl. auto.
  - left. unfold quiet. rewrite node_at_upd_gen. destruct (_ <? _)%nat; repeat split; auto; apply H.
Qed.

Lemma frame_sched_self st i w g : frame st i g (schedule_node i w g).
Proof.
  destruct (schedule_node_spec i w g) as (N1 & N2 & _).
  constructor.
  - exact N1.
  - apply schedule_node_len.
  - rewrite N2; auto.
  - intros m _. apply node_at_schedule_node.
  - rewrite node_at_schedule_node; auto.
  - apply schedule_node_nst_le.
  - apply schedule_node_nst_gt.
  - left. unfold quiet. rewrite node_at_schedule_node. repeat split; auto. intros m Hm. apply schedule_node_slot_other; auto.
Qed.

Lemma frame_opt_sched st i p g : frame st i g (opt_schedule i p g).
Proof. destruct p; simpl; [apply frame_sched_self|apply frame_refl]. Qed.

(* a notification: schedule_node j now *)
Lemma sched_now_spec j g :
  let g' := schedule_node j (g_now g) g in
  g_now g' = g_now g /\ g_nodes g' = g_nodes g /\ g_nst g' = g_nst g /\ g_err g' = g_err g /\
  length (g_slots g') = length (g_slots g) /\
  (forall m, m <> j -> slot_at m g' = slot_at m g) /\
  ((j < length (g_slots g))%nat -> slot_at j g' = g_now g).
Proof.
  cbn zeta.
  destruct (schedule_node_spec j (g_now g) g) as (N1 & N2 & _ & _ & N4). specialize (N4 ltac:(lia)).
  destruct N4 as (E & Y & _).
  assert (AP : sn_applies j (g_now g) g = true) by (unfold sn_applies; lia).
  destruct (Y AP) as [YS YN].
  replace ((g_now g <? g_now g) && (g_now g <? g_nst g)) with false in YN by lia.
  repeat split; auto.
  - apply schedule_node_len.
  - intros m Hm. apply schedule_node_slot_other; auto.
  - intros Hj. unfold slot_at. rewrite YS. apply slot_at_set_same; auto.
Qed.

Lemma notify_spec l : forall j src g,
  (forall m c, nth_error l m = Some c -> c = cfg (j + m)) ->
  let g' := notify_from l j src g in
  g_now g' = g_now g /\ g_nodes g' = g_nodes g /\ g_nst g' = g_nst g /\ g_err g' = g_err g /\
  length (g_slots g') = length (g_slots g) /\
  (forall m, slot_at m g' = slot_at m g \/
             ((j <= m < j + length l)%nat /\ act_from src m = true /\ slot_at m g' = g_now g)) /\
  (forall m, (j <= m < j + length l)%nat -> (m < length (g_slots g))%nat -> act_from src m = true ->
             n_started (node_at m g) = true -> slot_at m g' = g_now g).
Proof.
  induction l as [|c r IH]; intros j src g Hl; cbn zeta.
  - simpl. repeat split; auto. intros; simpl in *; lia.
  - simpl notify_from.
    assert (Hc : c = cfg j) by (rewrite (Hl 0%nat c eq_refl); f_equal; lia).
    set (b := existsb (fun s => (i_src s =? src)%nat && i_active s) (c_ins c) && n_started (node_at j g)).
    set (g1 := if b then schedule_node j (g_now g) g else g).
    assert (G1 : g_now g1 = g_now g /\ g_nodes g1 = g_nodes g /\ g_nst g1 = g_nst g /\ g_err g1 = g_err g /\
                 length (g_slots g1) = length (g_slots g) /\
                 (forall m, m <> j -> slot_at m g1 = slot_at m g) /\
                 (b = true -> (j < length (g_slots g))%nat -> slot_at j g1 = g_now g) /\
                 (b = false -> slot_at j g1 = slot_at j g)).
    { unfold g1. destruct b.
      - destruct (sched_now_spec j g) as (A & B & C & D & E & F & G). repeat split; auto. discriminate.
      - repeat split; auto. discriminate. }
    destruct G1 as (A1 & A2 & A3 & A4 & A5 & A6 & A7 & A8).
    specialize (IH (S j) src g1).
    assert (Hl' : forall m c0, nth_error r m = Some c0 -> c0 = cfg (S j + m)).
    { intros m c0 Hm. rewrite (Hl (S m) c0 Hm). f_equal. lia. }
    destruct (IH Hl') as (B1 & B2 & B3 & B4 & B5 & B6 & B7).
    fold b. fold g1.
    assert (ND : forall m, node_at m g1 = node_at m g) by (intros; unfold node_at; rewrite A2; auto).
    repeat split; try congruence.
    + intros m. destruct (B6 m) as [X|(X1 & X2 & X3)].
      * destruct (Nat.eq_dec m j) as [->|Hne].
        -- destruct b eqn:Eb.
           ++ destruct (Nat.lt_ge_cases j (length (g_slots g))) as [Hlt|Hge].
              ** right. split; [simpl; lia|]. split.
                 --- unfold b in Eb. apply andb_true_iff in Eb. unfold act_from. rewrite <- Hc. tauto.
                 --- rewrite X. rewrite A7; auto.
              ** left. rewrite X. unfold slot_at. rewrite !nth_overflow; auto; lia.
           ++ left. rewrite X. apply A8; auto.
        -- left. rewrite X. apply A6; auto.
      * right. split; [simpl; lia|]. split; auto. congruence.
    + intros m Hm Hlen Ha Hs. destruct (Nat.eq_dec m j) as [->|Hne].
      * assert (Eb : b = true).
        { unfold b. apply andb_true_iff. split; auto. unfold act_from in Ha. rewrite <- Hc in Ha. exact Ha. }
        destruct (B6 j) as [X|(X1 & _)]; [|lia]. rewrite X. apply A7; auto.
      * rewrite <- A1. apply B7; auto; try (simpl in Hm; lia). rewrite ND. auto.
Qed.

(* writing the output and notifying the subscribers *)
Lemma frame_write i v g :
  (i < length (g_nodes g))%nat ->
  frame true i g (notify_from cfgs 0 i (upd_node i (set_out v (g_now g)) g)).
Proof.
  intros Hi.
  set (g1 := upd_node i (set_out v (g_now g)) g).
  assert (Hl : forall m c, nth_error cfgs m = Some c -> c = cfg (0 + m)).
  { intros m c Hm. apply (cfgs_nth_error cfgs m c Hm). }
  destruct (notify_spec cfgs 0%nat i g1 Hl) as (B1 & B2 & B3 & B4 & B5 & B6 & B7).
  assert (ND : forall m, node_at m (notify_from cfgs 0 i g1) = node_at m g1) by (intros; unfold node_at; rewrite B2; auto).
  assert (NI : node_at i g1 = set_out v (g_now g) (node_at i g)) by (apply node_at_upd_same; auto).
  constructor.
  - rewrite B1. reflexivity.
  - rewrite B5. reflexivity.
  - rewrite B2. unfold g1, upd_node; simpl. apply update_length.
  - intros m Hm. rewrite ND. apply node_at_upd_other; auto.
  - rewrite ND, NI. reflexivity.
  - rewrite B3. simpl. lia.
  - rewrite B3. simpl. auto.
  - right. split; auto. repeat split.
    + rewrite ND, NI. reflexivity.
    + rewrite ND, NI. simpl. discriminate.
    + intros m Hm. destruct (B6 m) as [X|(_ & X2 & X3)]; [left; exact X|right; split; auto].
    + intros m Hm Hn Hlen Ha Hs. apply B7; auto; try (simpl; lia).
      unfold g1. rewrite node_at_upd_other; auto.
Qed.

Lemma set_sch_keeps s x : n_val (set_sch s x) = n_val x /\ n_lmt (set_sch s x) = n_lmt x /\ n_started (set_sch s x) = n_started x.
Proof. repeat split. Qed.

(* one operation of user code of node i *)
Lemma frame_do_op st i opi o g :
  (i < length (g_nodes g))%nat -> frame st i g (do_op cfgs i st opi o g).
Proof.
  intros Hi. unfold do_op. destruct (negb (g_err g =? 0)); [apply frame_refl|]. cbn zeta.
  destruct o.
  - destruct (c_sched _); [|apply frame_refl]. destruct (schedule _ _ _ _ _) as [s' p].
    eapply frame_trans; [|apply frame_emit]. eapply frame_trans; [|apply frame_opt_sched].
    apply frame_upd; apply set_sch_keeps.
  - destruct (c_sched _); [|apply frame_refl].
    eapply frame_trans; [|apply frame_emit]. apply frame_upd; apply set_sch_keeps.
  - destruct (c_sched _); [|apply frame_refl].
    eapply frame_trans; [|apply frame_emit]. apply frame_upd; apply set_sch_keeps.
  - destruct (c_sched _); [|apply frame_refl]. destruct (pop_tag _ _ _) as [s' w].
    eapply frame_trans; [|apply frame_emit]. apply frame_upd; apply set_sch_keeps.
  - destruct (c_sched _); [|apply frame_refl].
    eapply frame_trans; [|apply frame_emit]. apply frame_upd; apply set_sch_keeps.
  - destruct (c_out _ && st) eqn:E; [|apply frame_refl].
    assert (st = true) by (apply andb_true_iff in E; tauto). subst st.
    eapply frame_trans; [|apply frame_emit]. apply frame_write; auto.
  - apply frame_sched_self.
  - apply frame_set_err.
  - apply frame_refl.
Qed.

Lemma frame_do_ops st i os : forall opi g,
  (i < length (g_nodes g))%nat -> frame st i g (do_ops cfgs i st opi os g).
Proof.
  induction os as [|o r IH]; intros opi g Hi; simpl; [apply frame_refl|].
  eapply frame_trans; [apply frame_do_op; auto|].
  apply IH. rewrite (fr_ln _ _ _ _ (frame_do_op st i opi o g Hi)). auto.
Qed.

Lemma inc_runs_keeps x : n_val (inc_runs x) = n_val x /\ n_lmt (inc_runs x) = n_lmt x /\ n_started (inc_runs x) = n_started x.
Proof. repeat split. Qed.
Lemma inc_evals_keeps x : n_val (inc_evals x) = n_val x /\ n_lmt (inc_evals x) = n_lmt x /\ n_started (inc_evals x) = n_started x.
Proof. repeat split. Qed.

(* node.cpp evaluate_impl of a native node *)
Lemma frame_eval_node beh i g :
  (i < length (g_nodes g))%nat -> frame true i g (eval_node cfgs beh i g).
Proof.
  intros Hi. unfold eval_node. destruct (negb (n_started (node_at i g))); [apply frame_refl|]. cbn zeta.
  match goal with |- context [if negb (g_err ?x =? 0) then _ else _] => set (g1 := x) end.
  assert (F1 : frame true i g g1).
  { unfold g1. destruct (match c_ins (nth i cfgs dflt_cfg) with [] => true | _ :: _ => ready (nth i cfgs dflt_cfg) g end); [|apply frame_refl].
    eapply frame_trans; [|apply frame_do_ops; simpl; rewrite update_length; auto].
    eapply frame_trans; [|apply frame_emit]. apply frame_upd; apply inc_runs_keeps. }
  destruct (negb (g_err g1 =? 0)); auto.
  destruct (c_sched (nth i cfgs dflt_cfg)); auto. simpl andb.
  destruct (is_scheduled_now (g_now g) (n_sch (node_at i g))).
  - destruct (advance (g_now g) (n_sch (node_at i g1))) as [s' p].
    eapply frame_trans; [exact F1|].
    eapply frame_trans; [|apply frame_opt_sched]. apply frame_upd; apply set_sch_keeps.
  - destruct (is_scheduled (n_sch (node_at i g1))); auto.
    eapply frame_trans; [exact F1|apply frame_sched_self].
Qed.

(* node.cpp start_impl: user code runs unstarted, so it cannot write *)
Lemma set_started_keeps x : n_val (set_started x) = n_val x /\ n_lmt (set_started x) = n_lmt x.
Proof. repeat split. Qed.

End Frame.

(* ------------------------------------------------------------------ *)
(* Part 2.  The two feedback callbacks                                  *)
(* ------------------------------------------------------------------ *)
Section Callbacks.
Variable cfgs : list ncfg.
Notation n := (length cfgs).
Notation cfg := (EngineFacts.cfg cfgs).

Lemma act_from_source j s : cfg s = source_cfg -> act_from cfgs j s = false.
Proof. intros H. unfold act_from. rewrite H. reflexivity. Qed.

Lemma act_from_sink j k p s : cfg k = sink_cfg p s -> act_from cfgs j k = true -> j = p.
Proof.
  intros H. unfold act_from. rewrite H. simpl. rewrite !andb_false_r, !orb_false_r, andb_true_r.
  intros E. apply Nat.eqb_eq in E. auto.
Qed.

Lemma act_from_sink_prod k p s : cfg k = sink_cfg p s -> act_from cfgs p k = true.
Proof. intros H. unfold act_from. rewrite H. simpl. rewrite Nat.eqb_refl. reflexivity. Qed.

Lemma ready_sink p s g : ready (sink_cfg p s) g = true <-> n_val (node_at p g) <> None.
Proof.
  unfold ready, sink_cfg, read_input; simpl.
  destruct (n_val (node_at p g)); simpl; split; intros; congruence.
Qed.

Lemma state_at_set_same s (v : option Z) l : (s < length l)%nat -> nth s (set_nth s v l) None = v.
Proof. intros H. unfold set_nth. rewrite nth_update_same; auto. Qed.

(* evaluate_feedback_source *)
Lemma eval_source_spec j x :
  (j < length (g_nodes (f_g x)))%nat -> cfg j = source_cfg ->
  let x' := eval_source cfgs j x in
  frame cfgs true j (f_g x) (f_g x') /\ f_st x' = f_st x /\ slot_at j (f_g x') = slot_at j (f_g x) /\
  (n_started (node_at j (f_g x)) = true ->
     match state_at j x with
     | Some v => n_lmt (node_at j (f_g x')) = g_now (f_g x) /\ n_val (node_at j (f_g x')) = Some v
     | None => n_val (node_at j (f_g x')) = n_val (node_at j (f_g x)) /\ n_lmt (node_at j (f_g x')) = n_lmt (node_at j (f_g x))
     end).
Proof.
  intros Hj Hc. cbn zeta. unfold eval_source. cbn zeta. simpl f_g. simpl f_st.
  destruct (n_started (node_at j (f_g x))) eqn:St; simpl negb; cbv iota.
  2:{ split; [apply frame_emit|]. repeat split; auto. discriminate. }
  destruct (state_at j x) as [v|] eqn:Es.
  - set (g1 := upd_node j (set_out v (g_now (f_g x))) (f_g x)).
    assert (Hl : forall m c, nth_error cfgs m = Some c -> c = cfg (0 + m)).
    { intros m c Hm. apply (cfgs_nth_error cfgs m c Hm). }
    destruct (notify_spec cfgs cfgs 0%nat j g1 Hl) as (B1 & B2 & B3 & B4 & B5 & B6 & B7).
    split; [eapply frame_trans; [apply frame_write; auto|apply frame_emit]|].
    split; auto. split.
    + change (slot_at j (notify_from cfgs 0 j g1) = slot_at j (f_g x)).
      destruct (B6 j) as [X|(_ & X & _)]; [exact X|]. rewrite act_from_source in X by auto. discriminate.
    + intros _. change (n_lmt (node_at j (notify_from cfgs 0 j g1)) = g_now (f_g x) /\ n_val (node_at j (notify_from cfgs 0 j g1)) = Some v).
      assert (ND : node_at j (notify_from cfgs 0 j g1) = node_at j g1) by (unfold node_at; rewrite B2; auto).
      rewrite ND. unfold g1. rewrite node_at_upd_same by auto. simpl. auto.
  - split; [apply frame_emit|]. repeat split; auto.
Qed.

(* evaluate_feedback_sink *)
Lemma eval_sink_spec j x pp ss :
  cfg j = sink_cfg pp ss ->
  let g := f_g x in let x' := eval_sink cfgs j x in let g' := f_g x' in
  g_now g' = g_now g /\ g_nodes g' = g_nodes g /\ length (g_slots g') = length (g_slots g) /\
  length (f_st x') = length (f_st x) /\ g_nst g' <= g_nst g /\ (g_now g < g_nst g -> g_now g < g_nst g') /\
  (forall m, m <> ss -> slot_at m g' = slot_at m g) /\ (forall m, m <> ss -> state_at m x' = state_at m x) /\
  ((n_started (node_at j g) = true /\ exists v, n_val (node_at pp g) = Some v /\
      ((ss < length (f_st x))%nat -> state_at ss x' = Some v) /\
      ((ss < length (g_slots g))%nat -> slot_at ss g <= g_now g -> g_now g < g_nst g ->
          slot_at ss g' = g_now g + 1 /\ g_nst g' <= g_now g + 1))
   \/ ((n_started (node_at j g) = false \/ n_val (node_at pp g) = None) /\
       state_at ss x' = state_at ss x /\ slot_at ss g' = slot_at ss g)).
Proof.
  intros Hc. cbn zeta. unfold eval_sink. fold (cfg j). rewrite Hc. cbn zeta.
  change (sink_src (sink_cfg pp ss)) with ss. change (sink_prod (sink_cfg pp ss)) with pp.
  destruct (n_started (node_at j (f_g x))) eqn:St; simpl negb; cbv iota.
  2:{ simpl. repeat split; auto; try lia; try solve [right; auto]. }
  destruct (ready (sink_cfg pp ss) (f_g x)) eqn:Er.
  - apply ready_sink in Er. destruct (n_val (node_at pp (f_g x))) as [v|] eqn:Ev; [|congruence].
    simpl f_g. simpl f_st.
    set (g := f_g x).
    destruct (schedule_node_spec ss (g_now g + MIN_TD) g) as (N1 & N2 & _ & _ & N4).
    unfold MIN_TD in *. specialize (N4 ltac:(lia)). destruct N4 as (_ & Y1 & Y2).
    repeat split; auto.
    + apply schedule_node_len.
    + unfold set_nth. apply update_length.
    + apply schedule_node_nst_le.
    + apply schedule_node_nst_gt.
    + intros m Hm. apply schedule_node_slot_other; auto.
    + intros m Hm. unfold state_at; simpl. unfold set_nth. apply nth_update_other; auto.
    + left. split; auto. exists v. split; auto. split.
      * intros Hl. unfold state_at; simpl. apply state_at_set_same; auto.
      * intros Hl Hs Hn.
        assert (AP : sn_applies ss (g_now g + 1) g = true) by (unfold sn_applies; lia).
        destruct (Y1 AP) as [YS YN]. split.
        -- change (slot_at ss (schedule_node ss (g_now g + 1) g) = g_now g + 1).
           unfold slot_at. rewrite YS. apply slot_at_set_same; auto.
        -- change (g_nst (schedule_node ss (g_now g + 1) g) <= g_now g + 1).
           rewrite YN. destruct ((g_now g <? g_now g + 1) && (g_now g + 1 <? g_nst g)) eqn:E; lia.
  - simpl. repeat split; auto; try lia. right. split; auto.
    right. destruct (n_val (node_at pp (f_g x))) eqn:Ev; auto.
    assert (ready (sink_cfg pp ss) (f_g x) = true) by (apply ready_sink; congruence). congruence.
Qed.

End Callbacks.
