(* Feedback.v — mirror model of the feedback pair on top of the flat engine (Engine.v):
     src/hgraph/runtime/feedback_node.cpp
        start_feedback_source_with_initial_delta, evaluate_feedback_source,
        evaluate_feedback_sink, make_feedback_source_node, make_feedback_sink_node
     src/hgraph/types/time_series/ts_delta.cpp  apply_delta / delta_has_effect_atomic (TS<int>)
   Both node kinds are *native* nodes: they pass through the very same
   node.cpp start_impl / evaluate_impl gate and graph.cpp scan as every other node,
   so the engine functions of Engine.v are reused unchanged for the start phase,
   for native nodes, for schedule_node (min-semantics of the graph slot) and for the
   notification of active inputs; only the two evaluate callbacks are new, and the
   scan / cycle / run loop are re-stated over the extended state (gst + the per-source
   delta state).  Executable definitions only; theorems are in FeedbackFacts.v. *)
Require Import Base Sched Engine.

(* ---- node kinds ---- *)
Inductive fkind :=
| FNative                       (* a node of Engine.v, user code = behaviour *)
| FSource (init : option Z)     (* make_feedback_source_node(schema, has_initial_delta); scalars = init *)
| FSink.                        (* make_feedback_sink_node: inputs [ts (active, required); ts_self (passive)] *)

(* the graph state plus NodeView::state() of every node (only sources use it):
   "the captured delta waiting to be emitted next step" *)
Record xst := mkF { f_g : gst; f_st : list (option Z) }.

Definition kind_at (kinds : list fkind) (i : nat) : fkind := nth i kinds FNative.
Definition state_at (i : nat) (x : xst) : option Z := nth i (f_st x) None.

(* NodeTypeMetaData of the two kinds, in the vocabulary of Engine.ncfg *)
Definition source_cfg : ncfg := mkCfg false false true 0 [].
Definition sink_cfg (p s : nat) : ncfg :=
  mkCfg false false false 1 [mkIn p true true None false; mkIn s false false None false].

Definition init_of (k : fkind) : option Z := match k with FSource i => i | _ => None end.

(* the state slot of a source before anything was captured: the scalars (initial delta) copied by the
   start hook, otherwise the default-constructed delta value of the planned state (0 for TS<int>).  It is
   observable only through the lifecycle observer line 17 (the source is never scheduled before a capture). *)
Definition state0_of (k : fkind) : option Z :=
  match k with FSource (Some v) => Some v | FSource None => Some 0 | _ => None end.

(* start hooks.  Native nodes run user code; a source with an initial delta runs
   start_feedback_source_with_initial_delta: state := scalars (done in [fstart]) and
   graph->schedule_node(self, start_time), which is the raw request [ORaw 0]. *)
Definition fb_beh (kinds : list fkind) (beh : behaviour) : behaviour :=
  fun i k now ivs s =>
    match kind_at kinds i with
    | FNative => beh i k now ivs s
    | FSource (Some _) => if k =? -1 then [ORaw 0] else []
    | _ => []
    end.

Definition fstart (cfgs : list ncfg) (kinds : list fkind) (beh : behaviour) (start : Z) : xst :=
  mkF (start_graph cfgs (fb_beh kinds beh) start) (map state0_of kinds).

(* ---- observation lines written by the lifecycle observer after a feedback node ran ---- *)
Definition oval (o : option Z) : Z := match o with Some v => v | None => 0 end.
Definition ohas (o : option Z) : Z := match o with Some _ => 1 | None => 0 end.

Definition out_line (i : nat) (g : gst) : line :=
  let n := node_at i g in [16; Z.of_nat i; g_now g; ohas (n_val n); oval (n_val n); n_lmt n].

(* ---- evaluate_feedback_source behind node.cpp evaluate_impl (no inputs: always "ready") ----
   apply_delta(output, state): delta_has_effect_atomic = state.has_value(); then the output
   is set (it ticks) and its subscribers (active inputs) are notified. *)
Definition eval_source (cfgs : list ncfg) (i : nat) (x : xst) : xst :=
  let g := f_g x in
  let g1 :=
    if negb (n_started (node_at i g)) then g else
    match state_at i x with
    | Some v => notify_from cfgs 0 i (upd_node i (set_out v (g_now g)) g)
    | None => g
    end in
  mkF (emit (out_line i g1) g1) (f_st x).

(* ---- evaluate_feedback_sink behind node.cpp evaluate_impl (valid_inputs = {0}) ----
   The paired source is recovered from the output bound to input 1 (ts_self); the
   producer's delta (for TS<int>: its value) is copied into that node's state and the
   node is scheduled for evaluation_time + MIN_TD through the raw graph request. *)
Definition sink_prod (c : ncfg) : nat := match c_ins c with p :: _ => i_src p | [] => 0%nat end.
Definition sink_src (c : ncfg) : nat := match c_ins c with _ :: s :: _ => i_src s | _ => 0%nat end.

Definition eval_sink (cfgs : list ncfg) (i : nat) (x : xst) : xst :=
  let g := f_g x in
  let c := nth i cfgs dflt_cfg in
  let s := sink_src c in
  let x1 :=
    if negb (n_started (node_at i g)) then x else
    if ready c g then
      let v := n_val (node_at (sink_prod c) g) in
      mkF (schedule_node s (g_now g + MIN_TD) g) (set_nth s v (f_st x))
    else x in
  mkF (emit [17; Z.of_nat i; g_now g; Z.of_nat s; slot_at s (f_g x1); ohas (state_at s x1); oval (state_at s x1)] (f_g x1))
      (f_st x1).

Definition eval_any (cfgs : list ncfg) (kinds : list fkind) (beh : behaviour) (i : nat) (x : xst) : xst :=
  match kind_at kinds i with
  | FNative => mkF (eval_node cfgs beh i (f_g x)) (f_st x)
  | FSource _ => eval_source cfgs i x
  | FSink => eval_sink cfgs i x
  end.

(* ---- graph.cpp evaluate_impl: the forward scan, over the extended state ---- *)
Definition fold_slot (sc : Z) (g : gst) : gst :=
  if sc <? g_nst g then mkG (g_now g) (g_slots g) sc (g_nodes g) (g_log g) (g_err g) else g.

Definition fscan_step (cfgs : list ncfg) (kinds : list fkind) (beh : behaviour) (i : nat) (x : xst) : xst :=
  let g := f_g x in
  let sc := slot_at i g in
  if sc =? g_now g then
    eval_any cfgs kinds beh i (mkF (upd_node i inc_evals (emit [11; Z.of_nat i; g_now g] g)) (f_st x))
  else if g_now g <? sc then mkF (fold_slot sc g) (f_st x)
  else x.

Fixpoint fscan (cfgs : list ncfg) (kinds : list fkind) (beh : behaviour) (i : nat) (k : nat) (x : xst) : xst :=
  match k with
  | O => x
  | S k' =>
      if negb (g_err (f_g x) =? 0) then x else
      fscan cfgs kinds beh (S i) k' (fscan_step cfgs kinds beh i x)
  end.

Definition begin_cycle (t : Z) (g : gst) : gst :=
  mkG t (g_slots g) MAX_DT (g_nodes g) ([10; t] :: g_log g) (g_err g).

(* one engine cycle at time t; the observer's after-graph-evaluation line carries the
   cached next scheduled time *)
Definition fcycle (cfgs : list ncfg) (kinds : list fkind) (beh : behaviour) (t : Z) (x : xst) : xst :=
  let x1 := fscan cfgs kinds beh 0 (length cfgs) (mkF (begin_cycle t (f_g x)) (f_st x)) in
  mkF (emit [20; t; g_nst (f_g x1)] (f_g x1)) (f_st x1).

(* ---- executor.cpp run_storage with advance_simulation ---- *)
Fixpoint frun (cfgs : list ncfg) (kinds : list fkind) (beh : behaviour) (end_ : Z) (fuel : nat) (x : xst) : xst :=
  match fuel with
  | O => mkF (set_err 9 (f_g x)) (f_st x)              (* out of fuel: excluded by theorem *)
  | S f =>
      let g := f_g x in
      if negb (g_err g =? 0) then x else
      let next := g_nst g in
      if (next =? MAX_DT) || (end_ <=? next) then x else
      frun cfgs kinds beh end_ f (fcycle cfgs kinds beh next x)
  end.

Definition fsim (cfgs : list ncfg) (kinds : list fkind) (beh : behaviour) (start end_ : Z) (fuel : nat) : xst :=
  frun cfgs kinds beh end_ fuel (fstart cfgs kinds beh start).

(* =====================  wire format  =====================
   1 start end
   2 i uses_sched sched_on_start has_out nin vmode (src active required)*   native node (as family core)
   4 i has_init init                                                         feedback source
   5 i producer source                                                       feedback sink
   3 i k code a b                                                            script op (as family core)
   Node lines appear in node order; the index is the position. *)
Definition parse_fnode (l : line) : option (ncfg * fkind) :=
  match l with
  | 2 :: _ => match parse_node l with Some c => Some (c, FNative) | None => None end
  | 4 :: _ :: hi :: v :: _ => Some (source_cfg, FSource (if z2b hi then Some v else None))
  | 5 :: _ :: p :: s :: _ => Some (sink_cfg (Z.to_nat p) (Z.to_nat s), FSink)
  | _ => None
  end.

Fixpoint parse_fnodes (w : wire) : list (ncfg * fkind) :=
  match w with
  | [] => []
  | l :: r => match parse_fnode l with Some c => c :: parse_fnodes r | None => parse_fnodes r end
  end.

Definition run_feedback (w : wire) : wire :=
  let ns := parse_fnodes w in
  let cfgs := map fst ns in
  let kinds := map snd ns in
  let '(s, e) := window w in
  let x := fsim cfgs kinds (script_beh w) s e (Z.to_nat (e - s) + 1) in
  let g := f_g x in
  rev (g_log g) ++ (if g_err g =? 0 then [] else [[19; g_err g]]) ++ final_lines cfgs g.
