(* TsdValueFacts.v — the VALUE half of the TSD step statement for the repaired insert rule:
   a key that is neither removed nor modified in a cycle keeps its value. *)
Require Import Base Coll CollFacts TsdFacts.
From Coq Require Import ZifyBool Arith.
Local Open Scope Z_scope.

(* between cycles: nothing is stamped later than the delta window *)
Definition CLb (s : tsd) : Prop :=
  d_lmt s <= d_dt s /\ forall i, constructed (dst s i) = true -> c_lmt (child_at s i) <= d_dt s.

(* before the first mutation of a cycle reaches the storage, slots and children are those of the start state *)
Definition VFresh (a s : tsd) : Prop :=
  d_dt s = d_dt a /\ d_lmt s = d_lmt a /\ forall i, dst s i = dst a i /\ child_at s i = child_at a i.

(* after the roll: every child was either written in this cycle - and then a live published key is marked
   modified - or it is untouched: never written, or exactly the child the key had when the cycle started *)
Definition VI (a : tsd) (t : Z) (s : tsd) : Prop :=
  d_lmt s <= t /\
  forall i k x, dst s i = mkSlot x k -> x <> SFree ->
    (c_lmt (child_at s i) = t /\ d_lmt s = t /\ (x = SLive -> dp s i = true -> dm s i = true))
 \/ (c_lmt (child_at s i) < t /\
     (c_valid (child_at s i) = false \/ exists j, dst a j = mkSlot SLive k /\ child_at a j = child_at s i)).

Lemma vi_transfer a t s s' :
  (forall i, dst s' i = dst s i /\ child_at s' i = child_at s i /\ dp s' i = dp s i /\ dm s' i = dm s i) ->
  (d_lmt s' = d_lmt s \/ d_lmt s' = t) ->
  VI a t s -> VI a t s'.
Proof.
  intros PW L [M V]. split; [destruct L; lia|].
  intros i k x Q NF. destruct (PW i) as [P1 [P2 [P3 P4]]]. rewrite P1 in Q. rewrite P2, P3, P4.
  destruct (V i k x Q NF) as [[A1 [A2 A3]]|B]; [left|right; exact B].
  split; [exact A1|]. split; [destruct L; lia|exact A3].
Qed.

Lemma d_mark_lmt t s : d_lmt s <= t -> d_lmt (d_mark t s) = t.
Proof. intros H. unfold d_mark, rec_mod. cbn [d_lmt]. destruct (Z.leb_spec t (d_lmt s)); lia. Qed.

Lemma vi_mark a t s : VI a t s -> VI a t (d_mark t s).
Proof.
  intros V. apply (vi_transfer a t s); auto.
  right. apply d_mark_lmt. apply V.
Qed.

Lemma d_prepare_roll_ch t s : DInv s -> d_dt s < t -> d_ch (d_prepare t s) = d_ch s.
Proof.
  intros T H. unfold d_prepare. destruct (Z.leb_spec t (d_dt s)); [lia|].
  destruct (k_erase_pending_spec (d_ks s) (di_k s T)) as [_ [C1 _]].
  unfold d_ensure. cbn [d_ks d_ch d_add]. rewrite C1, (di_lc s T), Nat.eqb_refl.
  destruct (length (clear_bits (d_add s)) =? ks_cap (d_ks s))%nat; reflexivity.
Qed.

Lemma vi_roll a t s :
  DInv s -> VFresh a s -> CLb a -> d_dt a < t -> VI a t (d_prepare t s).
Proof.
  intros T [FD [FL FP]] [CL1 CL2] H.
  destruct (d_prepare_roll t s T ltac:(lia)) as [_ [_ [L1 [B1 S1]]]].
  pose proof (d_prepare_roll_ch t s T ltac:(lia)) as CH.
  split; [lia|].
  intros i k x Q NF. rewrite S1 in Q.
  assert (CA : child_at (d_prepare t s) i = child_at a i).
  { unfold child_at. rewrite CH. apply (FP i). }
  destruct (pend (dst s i)) eqn:P; [inversion Q; congruence|].
  destruct (FP i) as [F1 _].
  assert (XL : x = SLive).
  { destruct x; auto; [congruence|]. rewrite Q in P. discriminate. }
  right. rewrite CA. split.
  - assert (c_lmt (child_at a i) <= d_dt a); [|lia]. apply CL2. rewrite <- F1, Q. apply constructed_iff. exact NF.
  - right. exists i. split; auto. rewrite <- F1, Q, XL. reflexivity.
Qed.

Lemma vi_insert a t k s i ch s' :
  0 < t -> DInv s -> VI a t s -> d_insert_core t k s = (i, ch, s') -> VI a t s'.
Proof.
  intros PT T [M V] H.
  destruct (d_insert_core_spec t k s i ch s' T H) as [T' [_ [L' [_ [SI [_ [_ [OTH [AT _]]]]]]]]].
  split; [lia|].
  intros j k' x Q NF. destruct (Nat.eq_dec j i) as [E|E].
  - subst j. rewrite SI in Q. inversion Q; subst x k'.
    destruct AT as [[_ [LV [A1 [A2 A3]]]]|[[_ [PD [A3 A4]]]|[_ [FR A3]]]].
    + rewrite A1, A2, A3, L'. apply (V i k SLive LV). discriminate.
    + rewrite A3, L'. destruct (V i k SPend PD ltac:(discriminate)) as [[B1 [B2 _]]|B]; [left|right; exact B].
      split; [exact B1|]. split; [exact B2|]. intros _. apply A4. exact B1.
    + right. rewrite A3. split; [unfold child0; cbn [c_lmt]; unfold MIN_DT; lia|left; reflexivity].
  - destruct (OTH j E) as [O1 [O2 [O3 O4]]]. rewrite O1 in Q. rewrite O2, O3, O4, L'. apply (V j k' x Q NF).
Qed.

Lemma vi_remove a t k s ch s' :
  DInv s -> VI a t s -> d_remove_core t k s = (ch, s') -> VI a t s'.
Proof.
  intros T [M V] H.
  destruct (d_remove_core_spec t k s ch s' T H) as [_ [_ [L' [_ [[_ E]|[_ [i [LV [PD [CH OTH]]]]]]]]]].
  - subst s'. split; auto.
  - split; [lia|]. intros j k' x Q NF. rewrite CH, L'. destruct (Nat.eq_dec j i) as [E|E].
    + subst j. rewrite PD in Q. inversion Q; subst x k'.
      destruct (V i k SLive LV ltac:(discriminate)) as [[B1 [B2 _]]|B]; [left|right; exact B].
      split; [exact B1|]. split; [exact B2|]. intros X; discriminate X.
    + destruct (OTH j E) as [O1 [O2 O3]]. rewrite O1 in Q. rewrite O2, O3. apply (V j k' x Q NF).
Qed.

Lemma vi_child_write a t i v k s :
  0 < t -> DInv s -> dst s i = mkSlot SLive k -> d_dt s = t -> VI a t s -> VI a t (tsd_child_write t i v s).
Proof.
  intros PT T LV DT [M V].
  destruct (tsd_child_write_spec t i v k s T LV DT PT) as [_ [_ [_ [SI [OTH AT]]]]].
  set (s' := tsd_child_write t i v s) in *.
  assert (LM : d_lmt s' <= t /\ (d_lmt s = t -> d_lmt s' = t)).
  { destruct AT as [[_ [_ [_ [_ L]]]]|[_ [_ [_ [_ L]]]]]; rewrite L; unfold rec_mod; [destruct (Z.leb_spec t (d_lmt s)); lia|lia]. }
  split; [apply LM|].
  intros j k' x Q NF. destruct (Nat.eq_dec j i) as [E|E].
  - subst j. rewrite SI in Q. inversion Q; subst x k'. left.
    destruct AT as [[LT [A1 [A2 [A3 L]]]]|[GE [A1 [A2 [A3 L]]]]].
    + rewrite A1, A2, L. cbn [c_lmt]. split; [reflexivity|]. split; [unfold rec_mod; destruct (Z.leb_spec t (d_lmt s)); lia|auto].
    + destruct (V i k SLive LV ltac:(discriminate)) as [[B1 [B2 B3]]|[B1 _]]; [|lia].
      rewrite A1, A2, A3, L. cbn [c_lmt]. auto.
  - destruct (OTH j E) as [O1 [O2 [O3 O4]]]. rewrite O1 in Q. rewrite O2, O3, O4.
    destruct (V j k' x Q NF) as [[B1 [B2 B3]]|B]; [left|right; exact B].
    split; [exact B1|]. split; [apply LM; exact B2|exact B3].
Qed.

(* ------------------------------------------------------------------ no stale modification marks *)
(* after the roll, a modified mark sits only on a slot whose child carries THIS cycle's stamp *)
Definition MJ (t : Z) (s : tsd) : Prop := forall i, dm s i = true -> c_lmt (child_at s i) = t.

Lemma mj_transfer t s s' :
  (forall i, dm s' i = dm s i /\ child_at s' i = child_at s i) -> MJ t s -> MJ t s'.
Proof. intros PW J i Q. destruct (PW i) as [P1 P2]. rewrite P1 in Q. rewrite P2. apply J. exact Q. Qed.

Lemma mj_mark t s : MJ t s -> MJ t (d_mark t s).
Proof. apply mj_transfer. auto. Qed.

Lemma mj_roll t s : DInv s -> d_dt s < t -> MJ t (d_prepare t s).
Proof.
  intros T H i Q. destruct (d_prepare_roll t s T H) as [_ [_ [_ [B1 _]]]].
  destruct (B1 i) as [_ [_ [M _]]]. congruence.
Qed.

Lemma mj_insert t k s i ch s' : DInv s -> MJ t s -> d_insert_core t k s = (i, ch, s') -> MJ t s'.
Proof.
  intros T J H.
  destruct (d_insert_core_spec t k s i ch s' T H) as [_ [_ [_ [_ [_ [_ [_ [OTH [AT MO]]]]]]]]].
  intros j Q. destruct (Nat.eq_dec j i) as [E|E].
  - subst j. destruct (MO Q) as [M|M]; [|exact M].
    pose proof (di_bits s T i) as B.
    destruct AT as [[_ [_ [_ [_ A3]]]]|[[_ [PD _]]|[_ [FR _]]]].
    + rewrite A3. apply J. exact M.
    + rewrite PD in B. cbn in B. destruct B as [_ [B _]]. congruence.
    + rewrite FR in B. cbn in B. destruct B as [_ [_ [B _]]]. congruence.
  - destruct (OTH j E) as [_ [O2 [_ O4]]]. rewrite O2 in Q. rewrite O4. apply J. exact Q.
Qed.

Lemma mj_remove t k s ch s' : DInv s -> MJ t s -> d_remove_core t k s = (ch, s') -> MJ t s'.
Proof.
  intros T J H.
  destruct (d_remove_core_spec t k s ch s' T H) as [T' [_ [_ [_ [[_ E]|[_ [i [LV [PD [CH OTH]]]]]]]]]].
  - subst s'. exact J.
  - intros j Q. rewrite CH. destruct (Nat.eq_dec j i) as [E|E].
    + subst j. pose proof (di_bits s' T' i) as B. rewrite PD in B. cbn in B. destruct B as [_ [B _]]. congruence.
    + destruct (OTH j E) as [_ [O2 _]]. rewrite O2 in Q. apply J. exact Q.
Qed.

Lemma mj_child_write t i v k s :
  0 < t -> DInv s -> dst s i = mkSlot SLive k -> d_dt s = t -> MJ t s -> MJ t (tsd_child_write t i v s).
Proof.
  intros PT T LV DT J.
  destruct (tsd_child_write_spec t i v k s T LV DT PT) as [_ [_ [_ [_ [OTH AT]]]]].
  intros j Q. destruct (Nat.eq_dec j i) as [E|E].
  - subst j. destruct AT as [[_ [A1 _]]|[_ [A1 [A2 _]]]].
    + rewrite A1. reflexivity.
    + rewrite A1. cbn [c_lmt]. apply J. rewrite <- A2. exact Q.
  - destruct (OTH j E) as [_ [O2 [_ O4]]]. rewrite O2 in Q. rewrite O4. apply J. exact Q.
Qed.

(* ------------------------------------------------------------------ the cycle *)
Definition VC (a : tsd) (t : Z) (s : tsd) : Prop :=
  (DFresh (inP a) t s /\ VFresh a s) \/ (DMid (inP a) t s /\ VI a t s).

Lemma vc_dc a t s : VC a t s -> DC (inP a) t s.
Proof. intros [[F _]|[M _]]; [left|right]; auto. Qed.

Section Cycle.
  Variables (a : tsd) (t : Z).
  Hypothesis PT : 0 < t.
  Hypothesis CA : CLb a.
  Hypothesis DA : d_dt a < t.

  Lemma vc_prepare s : VC a t s -> DMid (inP a) t (d_prepare t s) /\ VI a t (d_prepare t s).
  Proof.
    intros C. split; [apply d_prepare_step; apply vc_dc; exact C|].
    destruct C as [[[T [D _]] F]|[[T [D _]] V]].
    - apply vi_roll; auto.
    - rewrite d_prepare_same by (auto; lia). exact V.
  Qed.

  Lemma vc_touch_mark s : VC a t s -> DMid (inP a) t (d_touch_mark t s) /\ VI a t (d_touch_mark t s).
  Proof.
    intros C. split; [apply d_touch_mark_step; apply vc_dc; exact C|].
    destruct (vc_prepare s C) as [_ V]. unfold d_touch_mark, d_touch.
    destruct (negb (d_lmt (d_prepare t s) =? t)); [apply vi_mark|]; exact V.
  Qed.

  Lemma vc_at k s i s' : VC a t s -> tsd_at t k s = (i, s') ->
    DMid (inP a) t s' /\ VI a t s' /\ dst s' i = mkSlot SLive k.
  Proof.
    intros C A. destruct (tsd_at_step (inP a) t k s i s' (vc_dc _ _ _ C) A) as [M S].
    split; [exact M|]. split; [|exact S].
    destruct (vc_prepare s C) as [[T _] V].
    unfold tsd_at in A. rewrite d_insert_key_eq in A.
    destruct (d_insert_core t k (d_prepare t s)) as [[j c] s1] eqn:IC.
    pose proof (vi_insert a t k _ j c s1 PT T V IC) as V1.
    injection A as _ Hs. rewrite <- Hs. destruct c; [apply vi_mark|]; exact V1.
  Qed.

  Lemma vc_set k v s : VC a t s -> DMid (inP a) t (tsd_set t k v s) /\ VI a t (tsd_set t k v s).
  Proof.
    intros C. split; [apply tsd_set_step; auto; apply vc_dc; exact C|].
    unfold tsd_set. destruct (tsd_at t k s) as [i s1] eqn:A.
    destruct (vc_at k s i s1 C A) as [[T [D _]] [V S]].
    apply (vi_child_write a t i v k s1 PT T S D V).
  Qed.

  Lemma vc_erase k s c s' : VC a t s -> tsd_erase t k s = (c, s') -> DMid (inP a) t s' /\ VI a t s'.
  Proof.
    intros C A. split; [apply (tsd_erase_step (inP a) t k s c s' (vc_dc _ _ _ C) A)|].
    destruct (vc_prepare s C) as [[T [D O]] V].
    unfold tsd_erase in A. rewrite d_remove_key_eq in A.
    destruct (d_remove_core t k (d_prepare t s)) as [c1 s1] eqn:RC.
    pose proof (vi_remove a t k _ c1 s1 T V RC) as V1.
    destruct (d_remove_core_spec t k _ c1 s1 T RC) as [T1 [D1 [_ [O1 _]]]].
    assert (M1 : DMid (inP a) t s1) by (split; [exact T1|split; [congruence|intros k'; rewrite O1; apply O]]).
    injection A as _ Hs. rewrite <- Hs. destruct c1; [apply vi_mark; exact V1|].
    apply (vc_touch_mark s1). right. auto.
  Qed.

  Lemma vc_clear s : VC a t s -> DMid (inP a) t (tsd_clear t s) /\ VI a t (tsd_clear t s).
  Proof.
    intros C. split; [apply tsd_clear_step; apply vc_dc; exact C|].
    unfold tsd_clear, d_touch. destruct (vc_prepare s C) as [M V].
    assert (F : forall keys s0, DMid (inP a) t s0 /\ VI a t s0 ->
                DMid (inP a) t (fold_left (fun st k => snd (tsd_erase t k st)) keys s0) /\
                VI a t (fold_left (fun st k => snd (tsd_erase t k st)) keys s0)).
    { induction keys as [|k r IH]; intros s0 MV; cbn [fold_left]; auto.
      apply IH. destruct (tsd_erase t k s0) as [c s1] eqn:E. cbn [snd].
      apply (vc_erase k s0 c s1); auto. right. exact MV. }
    destruct (F (live_keys (d_ks s)) (d_prepare t s) (conj M V)) as [M2 V2].
    destruct (negb (d_lmt (d_prepare t s) =? t)); [apply vi_mark|]; exact V2.
  Qed.

  Lemma tsd_reserve_pw c s : DInv s ->
    d_dt (tsd_reserve c s) = d_dt s /\ d_lmt (tsd_reserve c s) = d_lmt s /\
    forall i, dst (tsd_reserve c s) i = dst s i /\ child_at (tsd_reserve c s) i = child_at s i /\
              dp (tsd_reserve c s) i = dp s i /\ dm (tsd_reserve c s) i = dm s i.
  Proof.
    intros T. unfold tsd_reserve.
    destruct (d_ensure_view (k_reserve c (d_ks s)) (d_ch s) (d_add s) (d_rem s) (d_mod s) (d_pub s) (d_dt s) (d_lmt s) (d_kslmt s))
      as [E1 [_ [_ [_ [_ [_ [Edt [Elmt [_ EB]]]]]]]]].
    { rewrite (di_lc s T), (di_la s T). reflexivity. }
    { rewrite (di_lr s T), (di_la s T). reflexivity. }
    { rewrite (di_lm s T), (di_la s T). reflexivity. }
    { rewrite (di_lp s T), (di_la s T). reflexivity. }
    { rewrite (di_la s T), k_reserve_cap. lia. }
    split; [exact Edt|]. split; [exact Elmt|].
    intros i. destruct (EB i) as [_ [_ [B3 [B4 B5]]]]. unfold dst, child_at, dp, dm.
    rewrite E1, B3, B4, B5, k_reserve_slot. auto.
  Qed.

  Lemma vc_reserve c s : VC a t s -> VC a t (tsd_reserve c s).
  Proof.
    intros C. pose proof (tsd_reserve_step (inP a) t c s (vc_dc _ _ _ C)) as D.
    assert (T : DInv s) by (destruct C as [[[T _] _]|[[T _] _]]; exact T).
    destruct (tsd_reserve_pw c s T) as [RD [RL RP]].
    destruct C as [[[_ [DD _]] [FD [FL FP]]]|[[_ [DD _]] V]].
    - left. split.
      + destruct D as [F|[_ [X _]]]; [exact F|lia].
      + split; [lia|]. split; [lia|]. intros i. destruct (RP i) as [R1 [R2 _]]. destruct (FP i) as [F1 F2]. split; congruence.
    - right. split.
      + destruct D as [[_ [X _]]|M]; [lia|exact M].
      + apply (vi_transfer a t s); auto.
  Qed.

  Lemma vc_touch s : VC a t s -> DMid (inP a) t (tsd_touch t s) /\ VI a t (tsd_touch t s).
  Proof.
    intros C. split; [apply tsd_touch_step; apply vc_dc; exact C|].
    destruct (vc_touch_mark s C) as [_ V]. unfold tsd_touch.
    destruct (d_kslmt (d_touch_mark t s) =? MIN_DT); [|exact V].
    apply (vi_transfer a t (d_touch_mark t s)); auto.
  Qed.

  Lemma vc_write k v s : VC a t s -> VC a t (snd (tsd_write t k v s)).
  Proof.
    intros C. unfold tsd_write.
    destruct (find_live (d_ks s) k) as [i|] eqn:F; cbn [snd]; [|exact C].
    pose proof (find_live_some _ _ _ F) as LV. fold (dst s i) in LV.
    assert (T : DInv s) by (destruct C as [[[T _] _]|[[T _] _]]; exact T).
    destruct (Z.lt_ge_cases (c_lmt (child_at s i)) t) as [L|G].
    - rewrite (tsd_child_write_prepare t i v k s T LV L).
      destruct (vc_prepare s C) as [[T1 [D1 O1]] V1].
      assert (LV1 : dst (d_prepare t s) i = mkSlot SLive k).
      { destruct C as [[[_ [D _]] _]|[[_ [D _]] _]].
        - destruct (d_prepare_roll t s T D) as [_ [_ [_ [_ S1]]]]. rewrite S1, LV. reflexivity.
        - rewrite d_prepare_same by (auto; lia). exact LV. }
      destruct (tsd_child_write_spec t i v k (d_prepare t s) T1 LV1 D1 PT) as [T2 [D2 [O2 _]]].
      right. split.
      + split; [exact T2|]. split; [exact D2|]. intros k'. rewrite O2. apply O1.
      + apply (vi_child_write a t i v k (d_prepare t s) PT T1 LV1 D1 V1).
    - destruct C as [[[_ [D _]] [FD [FL FP]]]|[[_ [D O]] V]].
      + (* impossible: before the roll every child still carries a stamp of an earlier cycle *)
        exfalso. destruct (FP i) as [F1 F2]. destruct CA as [_ C2].
        assert (c_lmt (child_at a i) <= d_dt a); [|rewrite F2 in G; lia].
        apply C2. rewrite <- F1, LV. reflexivity.
      + destruct (tsd_child_write_again t i v k s T LV G) as [T2 [D2 [_ [O2 _]]]].
        right. split.
        * split; [exact T2|]. split; [lia|]. intros k'. rewrite O2. apply O.
        * apply (vi_child_write a t i v k s PT T LV D V).
  Qed.

  Lemma vc_op o s : VC a t s -> VC a t (snd (tsd_op t o s)).
  Proof.
    intros C. destruct o as [k v|k| |c| |k|k v|]; cbn [tsd_op snd].
    - right. apply vc_set. exact C.
    - destruct (tsd_erase t k s) as [b s'] eqn:E. cbn [snd]. right. apply (vc_erase k s b s' C E).
    - right. apply vc_clear. exact C.
    - apply vc_reserve. exact C.
    - right. apply vc_touch. exact C.
    - destruct (tsd_at t k s) as [i s'] eqn:E. cbn [snd]. right. destruct (vc_at k s i s' C E) as [M [V _]]. auto.
    - apply vc_write. exact C.
    - exact C.
  Qed.

  Lemma vc_cycle ops : forall s, VC a t s -> VC a t (tsd_cycle t ops s).
  Proof.
    induction ops as [|o r IH]; intros s C; cbn [tsd_cycle fold_left]; auto.
    apply IH. apply vc_op. exact C.
  Qed.

  (* the same walk for the stale-mark invariant *)
  Definition MJC (s : tsd) : Prop := d_dt s = t -> MJ t s.

  Lemma mjc_prepare s : VC a t s -> MJC s -> MJ t (d_prepare t s).
  Proof.
    intros C J. destruct C as [[[T [D _]] _]|[[T [D _]] _]].
    - apply mj_roll; auto.
    - rewrite d_prepare_same by (auto; lia). apply J. exact D.
  Qed.

  Lemma mjc_touch_mark s : VC a t s -> MJC s -> MJ t (d_touch_mark t s).
  Proof.
    intros C J. pose proof (mjc_prepare s C J) as J1. unfold d_touch_mark, d_touch.
    destruct (negb (d_lmt (d_prepare t s) =? t)); [apply mj_mark|]; exact J1.
  Qed.

  Lemma mjc_at k s i s' : VC a t s -> MJC s -> tsd_at t k s = (i, s') -> MJ t s'.
  Proof.
    intros C J A. destruct (vc_prepare s C) as [[T _] _]. pose proof (mjc_prepare s C J) as J1.
    unfold tsd_at in A. rewrite d_insert_key_eq in A.
    destruct (d_insert_core t k (d_prepare t s)) as [[j c] s1] eqn:IC.
    pose proof (mj_insert t k _ j c s1 T J1 IC) as J2.
    injection A as _ Hs. rewrite <- Hs. destruct c; [apply mj_mark|]; exact J2.
  Qed.

  Lemma mjc_erase k s c s' : VC a t s -> MJC s -> tsd_erase t k s = (c, s') -> MJ t s'.
  Proof.
    intros C J A. destruct (vc_prepare s C) as [[T [D O]] V]. pose proof (mjc_prepare s C J) as J1.
    unfold tsd_erase in A. rewrite d_remove_key_eq in A.
    destruct (d_remove_core t k (d_prepare t s)) as [c1 s1] eqn:RC.
    pose proof (mj_remove t k _ c1 s1 T J1 RC) as J2.
    destruct (d_remove_core_spec t k _ c1 s1 T RC) as [T1 [D1 [_ [O1 _]]]].
    pose proof (vi_remove a t k _ c1 s1 T V RC) as V1.
    assert (C1 : VC a t s1).
    { right. split; [|exact V1]. split; [exact T1|]. split; [congruence|]. intros k'. rewrite O1. apply O. }
    injection A as _ Hs. rewrite <- Hs. destruct c1; [apply mj_mark; exact J2|].
    apply (mjc_touch_mark s1 C1). intros _. exact J2.
  Qed.

  Lemma mjc_op o s : VC a t s -> MJC s -> MJC (snd (tsd_op t o s)).
  Proof.
    intros C J DT'. destruct o as [k v|k| |c| |k|k v|]; cbn [tsd_op snd] in *.
    - unfold tsd_set. destruct (tsd_at t k s) as [i s1] eqn:A.
      destruct (vc_at k s i s1 C A) as [[T [D _]] [_ S]].
      apply (mj_child_write t i v k s1 PT T S D). apply (mjc_at k s i s1 C J A).
    - destruct (tsd_erase t k s) as [b s'] eqn:E. cbn [snd]. apply (mjc_erase k s b s' C J E).
    - unfold tsd_clear, d_touch.
      assert (F : forall keys s0, VC a t s0 -> MJC s0 -> d_dt s0 = t ->
                  MJ t (fold_left (fun st k => snd (tsd_erase t k st)) keys s0) /\
                  VC a t (fold_left (fun st k => snd (tsd_erase t k st)) keys s0) /\
                  d_dt (fold_left (fun st k => snd (tsd_erase t k st)) keys s0) = t).
      { induction keys as [|k r IH]; intros s0 C0 J0 D0; cbn [fold_left]; [auto|].
        destruct (tsd_erase t k s0) as [c s1] eqn:E. cbn [snd].
        destruct (vc_erase k s0 c s1 C0 E) as [M1 V1].
        apply IH; [right; auto|intros _; apply (mjc_erase k s0 c s1 C0 J0 E)|apply M1]. }
      destruct (vc_prepare s C) as [M V].
      destruct (F (live_keys (d_ks s)) (d_prepare t s)) as [J2 _]; [right; auto|intros _; apply mjc_prepare; auto|apply M|].
      destruct (negb (d_lmt (d_prepare t s) =? t)); [apply mj_mark|]; exact J2.
    - assert (T : DInv s) by (destruct C as [[[T _] _]|[[T _] _]]; exact T).
      destruct (tsd_reserve_pw c s T) as [RD [_ RP]].
      destruct (vc_reserve c s C) as [[[_ [D _]] _]|[[_ [D _]] _]].
      + exfalso. lia.
      + apply (mj_transfer t s); [intros i; destruct (RP i) as [_ [R2 [_ R4]]]; auto|]. apply J. lia.
    - pose proof (mjc_touch_mark s C J) as J1. unfold tsd_touch.
      destruct (d_kslmt (d_touch_mark t s) =? MIN_DT); [|exact J1]. apply (mj_transfer t (d_touch_mark t s)); auto.
    - destruct (tsd_at t k s) as [i s'] eqn:E. cbn [snd]. apply (mjc_at k s i s' C J E).
    - unfold tsd_write in *. destruct (find_live (d_ks s) k) as [i|] eqn:F; cbn [snd] in *.
      2:{ apply J. exact DT'. }
      pose proof (find_live_some _ _ _ F) as LV. fold (dst s i) in LV.
      assert (T : DInv s) by (destruct C as [[[T _] _]|[[T _] _]]; exact T).
      destruct (Z.lt_ge_cases (c_lmt (child_at s i)) t) as [L|G].
      + rewrite (tsd_child_write_prepare t i v k s T LV L).
        destruct (vc_prepare s C) as [[T1 [D1 _]] _].
        assert (LV1 : dst (d_prepare t s) i = mkSlot SLive k).
        { destruct C as [[[_ [D _]] _]|[[_ [D _]] _]].
          - destruct (d_prepare_roll t s T D) as [_ [_ [_ [_ S1]]]]. rewrite S1, LV. reflexivity.
          - rewrite d_prepare_same by (auto; lia). exact LV. }
        apply (mj_child_write t i v k (d_prepare t s) PT T1 LV1 D1). apply mjc_prepare; auto.
      + destruct (tsd_child_write_again t i v k s T LV G) as [_ [D2 [_ [_ [_ [PW [CO CI]]]]]]].
        assert (DT : d_dt s = t).
        { destruct C as [[[_ [D _]] [_ [_ FP]]]|[[_ [D _]] _]]; [|exact D]. exfalso.
          destruct (FP i) as [F1 F2]. destruct CA as [_ C2].
          assert (c_lmt (child_at a i) <= d_dt a); [|rewrite F2 in G; lia]. apply C2. rewrite <- F1, LV. reflexivity. }
        intros j Q. destruct (PW j) as [_ [P2 _]]. rewrite P2 in Q. pose proof (J DT j Q) as JQ.
        destruct (Nat.eq_dec j i) as [E|E]; [subst j; rewrite CI; exact JQ|rewrite (CO j E); exact JQ].
    - apply J. exact DT'.
  Qed.

  Lemma mjc_cycle ops : forall s, VC a t s -> MJC s -> MJC (tsd_cycle t ops s).
  Proof.
    induction ops as [|o r IH]; intros s C J; cbn [tsd_cycle fold_left]; auto.
    apply IH; [apply vc_op; exact C|apply mjc_op; auto].
  Qed.
End Cycle.

(* ------------------------------------------------------------------ reading a value *)
Lemma tsd_get_some s k i :
  DInv s -> dst s i = mkSlot SLive k ->
  tsd_get s k = if c_valid (child_at s i) then Some (c_val (child_at s i)) else None.
Proof.
  intros T Q. unfold tsd_get.
  assert (F : find_live (d_ks s) k = Some i).
  { unfold find_live. rewrite (find_stored_uniq (d_ks s) k i (di_k s T)); fold (dst s i); rewrite Q; reflexivity. }
  rewrite F. reflexivity.
Qed.

Lemma tsd_get_none s k : DInv s -> (forall i, dst s i <> mkSlot SLive k) -> tsd_get s k = None.
Proof.
  intros T N. unfold tsd_get. destruct (find_live (d_ks s) k) as [i|] eqn:F; [|reflexivity].
  exfalso. apply (N i). apply find_live_some. exact F.
Qed.

Lemma tsd_get_inP s k v : DInv s -> tsd_get s k = Some v -> inP s k.
Proof.
  intros T G. unfold tsd_get in G. destruct (find_live (d_ks s) k) as [i|] eqn:F; [|discriminate].
  pose proof (find_live_some _ _ _ F) as Q. fold (dst s i) in Q.
  destruct (c_valid (child_at s i)) eqn:CV; [|discriminate].
  exists i. split; [exact Q|]. pose proof (di_bits s T i) as B. rewrite Q in B. cbn in B.
  destruct B as [_ [_ [_ B]]]. rewrite B. exact CV.
Qed.

Lemma classic_inP s k : DInv s -> inP s k \/ ~ inP s k.
Proof.
  intros T. destruct (in_dec Z.eq_dec k (tsd_valid_keys s)) as [Y|N]; [left|right]; rewrite <- (tsd_valid_keys_in s k T); auto.
Qed.

Lemma clb_of_vc a t s : 0 < t -> CLb a -> d_dt a < t -> VC a t s -> CLb s.
Proof.
  intros PT [C1 C2] DA [[[T [D _]] [FD [FL FP]]]|[[T [D _]] [M V]]].
  - split; [lia|]. intros i Ci. destruct (FP i) as [F1 F2]. rewrite F2, FD. apply C2. rewrite <- F1. exact Ci.
  - split; [lia|]. intros i Ci. rewrite D.
    destruct (dst s i) as [x k] eqn:Q. assert (NF : x <> SFree) by (apply constructed_iff in Ci; exact Ci).
    destruct (V i k x Q NF) as [[B _]|[B _]]; lia.
Qed.

Lemma vfresh_refl a : VFresh a a.
Proof. split; [reflexivity|]. split; [reflexivity|]. auto. Qed.

Lemma vtrace_inv h : forall s t0 V0,
  DC V0 t0 s -> CLb s -> d_dt s <= t0 -> 0 <= t0 -> dincreasing t0 h ->
  forall a t ops b, In (a, t, ops, b) (tsd_trace s h) ->
    0 < t /\ DInv a /\ VC a t b /\ CLb a /\ d_dt a < t /\ (d_dt b = t -> MJ t b).
Proof.
  induction h as [|[t1 ops1] r IH]; intros s t0 V0 C CL DD P I a t ops b H; simpl in H; [contradiction|].
  destruct I as [I1 I2].
  pose proof (dc_next V0 t0 s t1 C I1) as F.
  assert (VS : VC s t1 s) by (left; split; [exact F|apply vfresh_refl]).
  assert (PT1 : 0 < t1) by lia. assert (DA1 : d_dt s < t1) by lia.
  pose proof (@vc_cycle s t1 PT1 CL DA1) as VCY. pose proof (VCY ops1 s VS) as V1. clear VCY.
  assert (J0 : MJC t1 s) by (intros Q; lia).
  pose proof (@mjc_cycle s t1 PT1 CL DA1 ops1 s VS J0) as J1.
  destruct H as [H|H].
  - inversion H; subst a t ops b. split; [lia|]. split; [apply F|]. split; [exact V1|]. split; [exact CL|]. split; [exact DA1|exact J1].
  - assert (CL1 : CLb (tsd_cycle t1 ops1 s)) by (apply (clb_of_vc s t1); auto).
    assert (DD1 : d_dt (tsd_cycle t1 ops1 s) <= t1) by (destruct V1 as [[[_ [D _]] _]|[[_ [D _]] _]]; lia).
    assert (P1 : 0 <= t1) by lia.
    exact (IH (tsd_cycle t1 ops1 s) t1 (inP s) (vc_dc _ _ _ V1) CL1 DD1 P1 I2 a t ops b H).
Qed.

Lemma clb_empty : CLb tsd_empty.
Proof.
  split; [cbn; lia|]. intros i Ci. unfold dst, slot_at in Ci. simpl in Ci. destruct i; discriminate.
Qed.

(* THE VALUE STEP: in every cycle of every history, a key that is neither removed nor modified keeps its value *)
Lemma tsd_value_step_l h : dincreasing MIN_DT h ->
  forall a t ops b, In (a, t, ops, b) (tsd_trace tsd_empty h) -> tsd_apply_delta_ok a t b.
Proof.
  intros I a t ops b H.
  destruct (vtrace_inv h tsd_empty MIN_DT _ dc_empty clb_empty ltac:(cbn; lia) ltac:(unfold MIN_DT; lia) I a t ops b H) as [PT [TA [C _]]].
  pose proof (vc_dc _ _ _ C) as DCb. pose proof (dc_inv _ _ _ DCb) as TB.
  destruct (dc_char (inP a) t b PT DCb) as [_ [R _]].
  intros k NR NM.
  (* the value in [a], if any, survives into [b] unless the key is removed *)
  assert (KEEP : forall v, tsd_get a k = Some v -> inP b k).
  { intros v G. pose proof (tsd_get_inP a k v TA G) as PA.
    destruct (classic_inP b k TB) as [Y|N]; [exact Y|]. exfalso. apply NR. apply R. auto. }
  destruct C as [[_ [_ [_ FP]]]|[_ [M V]]].
  - (* nothing reached the storage in this cycle *)
    destruct (tsd_get b k) as [v|] eqn:GB.
    + destruct (tsd_get_inP b k v TB GB) as [i [Q _]].
      rewrite (tsd_get_some b k i TB Q) in GB. destruct (FP i) as [F1 F2]. rewrite F1 in Q.
      rewrite (tsd_get_some a k i TA Q), <- F2. exact (eq_sym GB).
    + destruct (tsd_get a k) as [v|] eqn:GA; [|reflexivity].
      destruct (KEEP v eq_refl) as [i [Q P]]. rewrite (tsd_get_some b k i TB Q) in GB.
      pose proof (di_bits b TB i) as B. rewrite Q in B. cbn in B. destruct B as [_ [_ [_ B]]].
      unfold dv in B. rewrite <- B, P in GB. discriminate.
  - destruct (tsd_get b k) as [v|] eqn:GB.
    + destruct (tsd_get_inP b k v TB GB) as [i [Q P]].
      rewrite (tsd_get_some b k i TB Q) in GB.
      destruct (V i k SLive Q ltac:(discriminate)) as [[B1 [B2 B3]]|[B1 [B2|[j [J1 J2]]]]].
      * exfalso. apply NM. unfold tsd_modified_keys, tsd_modified. rewrite B2, Z.eqb_refl.
        destruct (Z.eqb_spec t MIN_DT) as [E|E]; [unfold MIN_DT in E; lia|]. cbn [negb andb].
        apply tsd_raw_modified_in. exists i. split; auto.
      * rewrite B2 in GB. discriminate.
      * rewrite (tsd_get_some a k j TA J1), J2. exact (eq_sym GB).
    + destruct (tsd_get a k) as [v|] eqn:GA; [|reflexivity].
      destruct (KEEP v eq_refl) as [i [Q P]]. rewrite (tsd_get_some b k i TB Q) in GB.
      pose proof (di_bits b TB i) as B. rewrite Q in B. cbn in B. destruct B as [_ [_ [_ B]]].
      unfold dv in B. rewrite <- B, P in GB. discriminate.
Qed.

(* NO STALE MARKS: a key reported as modified in a cycle is a live key whose element carries THIS cycle's stamp,
   i.e. it was written in this cycle (through the dictionary or through its own view).  Together with
   [tsd_value_step_l] and the key theorems: the delta of a cycle is exactly the keys written / added / removed in it. *)
Lemma tsd_modified_written_l h : dincreasing MIN_DT h ->
  forall a t ops b, In (a, t, ops, b) (tsd_trace tsd_empty h) ->
  forall k, In k (tsd_modified_keys t b) ->
  exists i, dst b i = mkSlot SLive k /\ c_lmt (child_at b i) = t /\ tsd_get b k = Some (c_val (child_at b i)).
Proof.
  intros I a t ops b H k Hk.
  destruct (vtrace_inv h tsd_empty MIN_DT _ dc_empty clb_empty ltac:(cbn; lia) ltac:(unfold MIN_DT; lia) I a t ops b H)
    as [PT [TA [C [[CL1 _] [DA J]]]]].
  pose proof (dc_inv _ _ _ (vc_dc _ _ _ C)) as TB.
  unfold tsd_modified_keys in Hk. destruct (tsd_modified t b) eqn:M; [|contradiction].
  unfold tsd_modified in M. apply andb_true_iff in M. destruct M as [_ M]. apply Z.eqb_eq in M.
  assert (DT : d_dt b = t).
  { destruct C as [[_ [_ [FL _]]]|[[_ [D _]] _]]; [lia|exact D]. }
  apply tsd_raw_modified_in in Hk. destruct Hk as [i [Q QM]].
  pose proof (J DT i QM) as ST.
  exists i. split; [exact Q|]. split; [exact ST|].
  rewrite (tsd_get_some b k i TB Q). unfold c_valid. rewrite ST.
  destruct (Z.eqb_spec t MIN_DT) as [E|E]; [unfold MIN_DT in E; lia|reflexivity].
Qed.

(* and conversely: a live, valid key whose element carries this cycle's stamp is reported as modified *)
Lemma tsd_written_modified_l h : dincreasing MIN_DT h ->
  forall a t ops b, In (a, t, ops, b) (tsd_trace tsd_empty h) ->
  forall i k, dst b i = mkSlot SLive k -> c_lmt (child_at b i) = t -> In k (tsd_modified_keys t b).
Proof.
  intros I a t ops b H i k Q ST.
  destruct (vtrace_inv h tsd_empty MIN_DT _ dc_empty clb_empty ltac:(cbn; lia) ltac:(unfold MIN_DT; lia) I a t ops b H)
    as [PT [TA [C [[_ CL2] [DA _]]]]].
  pose proof (dc_inv _ _ _ (vc_dc _ _ _ C)) as TB.
  destruct C as [[_ [_ [_ FP]]]|[_ [M V]]].
  - exfalso. destruct (FP i) as [F1 F2]. assert (c_lmt (child_at a i) <= d_dt a); [|rewrite F2 in ST; lia].
    apply CL2. rewrite <- F1, Q. reflexivity.
  - destruct (V i k SLive Q ltac:(discriminate)) as [[_ [B2 B3]]|[B1 _]]; [|lia].
    unfold tsd_modified_keys, tsd_modified. rewrite B2, Z.eqb_refl.
    destruct (Z.eqb_spec t MIN_DT) as [E|E]; [unfold MIN_DT in E; lia|]. cbn [negb andb].
    apply tsd_raw_modified_in. exists i. split; [exact Q|]. apply B3; [reflexivity|].
    pose proof (di_bits b TB i) as B. rewrite Q in B. cbn in B. destruct B as [_ [_ [_ B]]]. rewrite B.
    unfold dv, c_valid. rewrite ST. destruct (Z.eqb_spec t MIN_DT); [contradiction|reflexivity].
Qed.
