(* PushQInv2.v — preservation of the invariant (PushQInv.v) by the evaluation thread's steps and by
   the global labels; the invariant holds in every reachable state. *)
Require Import Base PushQ PushQInv.
From Coq Require Import ZifyBool.
Local Open Scope nat_scope.

(* ------------------------------------------------------------------ *)
(* preservation: evaluation-thread steps *)

(* consumer steps *)
Ltac t_time I :=
  let T1 := fresh "T1" in let T2 := fresh "T2" in
  destruct (i_time _ I) as [T1 T2]; split; [exact T1|];
  let tb := fresh "tb" in let Htb := fresh "Htb" in
  intros tb Htb; specialize (T2 tb Htb);
  try match goal with Ec : cons _ = _ |- _ => rewrite Ec in T2 end;
  try match goal with Ec : cons _ = _ |- _ => rewrite Ec end;
  cbn [is_reset] in *; try solve [intuition (first [lia | discriminate | congruence])].

Ltac t_log I :=
  let L := fresh "L" in let A := fresh "A" in pose proof (i_log _ I) as L; pose proof (i_acc _ I) as A;
  try match goal with Ec : cons _ = _ |- _ => rewrite Ec in A end; cbn [cons_accepting] in A;
  try rewrite A in *; try exact L.

Ltac cfields I :=
  constructor; unf;
  [ exact (i_cfg _ I) | use1 I i_acc | t_log I | use1 I i_cap | t_time I
  | use1 I i_wake | use1 I i_note | use1 I i_act | use2 I i_det i_act | use1 I i_stp
  | use2 I i_cvs i_acc | use4 I i_cva i_cap i_cfg i_acc
  | exact (i_cur _ I) | exact (i_seq _ I) | exact (i_pps _ I) ].

Lemma inv_cblock s : Inv s -> cons s = CIdle -> flag s || stop_req s = false -> Inv (set_cons CBlocked s).
Proof. intros I Ec Hb. cfields I. Qed.

Lemma inv_cwake s : Inv s -> cons s = CBlocked -> Inv (set_cons CIdle s).
Proof. intros I Ec. cfields I. Qed.

Lemma inv_cbegin s t : Inv s -> cons s = CIdle -> (now s < t)%Z ->
  Inv (set_cons (CReset (flag s)) (set_flag false (set_now t s))).
Proof. intros I Ec Ht. destruct (flag s) eqn:Ef; cfields I. Qed.

Lemma inv_creset_false s : Inv s -> cons s = CReset false -> Inv (set_cons CIdle s).
Proof. intros I Ec. cfields I. Qed.

Lemma inv_crearm s more : Inv s -> cons s = CRearm more ->
  (more = false \/ stop_req s = true -> Inv (set_cons CIdle s)) /\ Inv (set_cons CIdle (set_flag true s)).
Proof.
  intros I Ec. split.
  - intros [->|Hs]; cfields I.
  - cfields I.
Qed.

Lemma inv_cstop s : Inv s -> cons s = CIdle -> Inv (set_cons CStopA (set_closing true s)).
Proof. intros I Ec. cfields I. Qed.

Lemma inv_reqstop s : Inv s -> Inv (set_stop_notifies (S (stop_notifies s)) (set_stop_req true s)).
Proof. intros I. cfields I. Qed.

Lemma inv_reqnotify s n : Inv s -> stop_notifies s = S n -> Inv (notify_exec (set_stop_notifies n s)).
Proof.
  intros I En. unfold notify_exec. cbn [cons set_stop_notifies].
  destruct (cons s) eqn:Ec; cfields I.
Qed.

Lemma inv_clearstop s : Inv s -> cons s = CStopped -> Inv (set_stop_req false s).
Proof.
  intros I Ec. pose proof (i_log s I) as L. pose proof (i_acc s I) as A. rewrite Ec in A. cbn in A. rewrite A in L.
  destruct L as [Lv _]. cfields I.
Qed.

Lemma inv_stopA s : Inv s -> cons s = CStopA -> Inv (set_cons CStopB (set_vals [] (set_accepting false s))).
Proof.
  intros I Ec. cfields I.
  split; [reflexivity|]. exists (vals s). assumption.
Qed.

Lemma cnt_waiting_le_inside l : cnt is_waiting l <= cnt inside l.
Proof. apply cnt_le. intros x; destruct x; simpl; congruence. Qed.
Lemma cnt_woken_le_inside l : cnt is_woken l <= cnt inside l.
Proof. apply cnt_le. intros x; destruct x; simpl; congruence. Qed.

Lemma inv_stopC s : Inv s -> cons s = CStopC -> active s = 0 -> Inv (set_cons CStopped (set_attached false s)).
Proof.
  intros I Ec Ha. pose proof (cnt_waiting_le_inside (prods s)) as Hw. pose proof (i_act s I) as Hact.
  cfields I.
Qed.

Lemma inv_start s : Inv s -> cons s = CStopped ->
  Inv (set_cons CIdle (set_delivered [] (set_accepted [] (set_epoch (S (epoch s))
        (set_active 0 (set_attached true (set_closing false (set_accepting true (set_vals [] s))))))))).
Proof.
  intros I Ec. pose proof (cnt_waiting_le_inside (prods s)) as Hw.
  pose proof (i_act s I) as Hact. pose proof (i_det s I (i_stp s I Ec)) as Hd.
  constructor; unfold get_prod;
  cbn [pol cap vals accepting flag stop_req stop_notifies closing attached active epoch cons now prods accepted delivered
       set_vals set_accepting set_closing set_attached set_active set_epoch set_cons set_delivered set_accepted];
  [ exact (i_cfg _ I) | reflexivity | reflexivity | simpl; lia | split; [exact Logic.I|intros tb []]
  | congruence | use1 I i_note | lia | congruence | congruence
  | congruence | lia
  | exact (i_cur _ I) | intros e [] | constructor ].
Qed.

(* ---- notifications on capacity_available: PWaiting -> PWoken for some producers ---- *)
Record woke (l l' : list prod) : Prop := mkWoke {
  w_len : length l' = length l;
  w_nth : forall p, same_or_woken (nth p l idle_prod) (nth p l' idle_prod);
  w_mark : cnt is_mark l' = cnt is_mark l;
  w_note : cnt is_notify l' = cnt is_notify l;
  w_ins : cnt inside l' = cnt inside l;
  w_sum : cnt is_waiting l' + cnt is_woken l' = cnt is_waiting l + cnt is_woken l
}.

Lemma woke_all l : woke l (map wake l) /\ cnt is_waiting (map wake l) = 0.
Proof.
  split; [constructor|apply cnt_waiting_map_wake].
  - apply map_length. - intros p; apply nth_map_wake.
  - apply cnt_map_wake; reflexivity. - apply cnt_map_wake; reflexivity. - apply cnt_map_wake; reflexivity.
  - rewrite cnt_waiting_map_wake, cnt_woken_map_wake. lia.
Qed.

Lemma woke_first l : woke l (wake_first l) /\ cnt is_waiting (wake_first l) = pred (cnt is_waiting l).
Proof.
  destruct (cnt_waiting_wake_first l) as [H1 H2].
  split; [constructor|exact H1].
  - apply length_wake_first. - intros p; apply nth_wake_first.
  - apply cnt_wake_first; reflexivity. - apply cnt_wake_first; reflexivity. - apply cnt_wake_first; reflexivity.
  - rewrite H1, H2. destruct (cnt is_waiting l); simpl; lia.
Qed.

Lemma woke_one l w : w < length l -> pc (nth w l idle_prod) = PWaiting ->
  woke l (update w (set_pc PWoken) l) /\ cnt is_waiting (update w (set_pc PWoken) l) = pred (cnt is_waiting l).
Proof.
  intros Hw E.
  assert (Cs : forall f, cnt f (update w (set_pc PWoken) l) + b2n (f PWaiting) = cnt f l + b2n (f PWoken)).
  { intros f. pose proof (cnt_update f w (set_pc PWoken) l idle_prod Hw) as C. rewrite E in C. exact C. }
  pose proof (Cs is_mark) as Cm. pose proof (Cs is_notify) as Cn. pose proof (Cs inside) as Ci.
  pose proof (Cs is_waiting) as Cw. pose proof (Cs is_woken) as Ck. cbn in Cm, Cn, Ci, Cw, Ck.
  split; [constructor|]; try lia.
  - apply update_length.
  - intros p. rewrite nth_update_eq. destruct (Nat.eqb_spec w p) as [<-|Hne]; simpl; [|left; reflexivity].
    destruct (Nat.ltb_spec w (length l)); [|left; reflexivity]. right. split; [exact E|reflexivity].
Qed.

Lemma notify_one_spec w s : exists l', notify_one w s = set_prods l' s /\ woke (prods s) l' /\
  cnt is_waiting l' = pred (cnt is_waiting (prods s)).
Proof.
  unfold notify_one. destruct (is_waiting (pc (get_prod w s))) eqn:E.
  - unfold goto, upd_prod. exists (update w (set_pc PWoken) (prods s)). split; [reflexivity|].
    unfold get_prod in E. destruct (pc (nth w (prods s) idle_prod)) eqn:E2; try discriminate.
    apply woke_one; [|exact E2].
    destruct (Nat.lt_ge_cases w (length (prods s))) as [H|H]; [exact H|].
    rewrite nth_overflow in E2 by exact H. discriminate.
  - exists (wake_first (prods s)). split; [reflexivity|]. apply woke_first.
Qed.

Lemma woke_frames s l' acc :
  woke (prods s) l' ->
  (forall p0, p0 < length (prods s) -> pc (get_prod p0 s) <> PIdle ->
     e_pid (cur (get_prod p0 s)) = p0 /\ nsent (get_prod p0 s) = S (e_seq (cur (get_prod p0 s)))) ->
  (forall e, In e acc -> e_seq e < bound (get_prod (e_pid e) s)) ->
  (forall p0, p0 < length l' -> pc (nth p0 l' idle_prod) <> PIdle ->
     e_pid (cur (nth p0 l' idle_prod)) = p0 /\ nsent (nth p0 l' idle_prod) = S (e_seq (cur (nth p0 l' idle_prod)))) /\
  (forall e, In e acc -> e_seq e < bound (nth (e_pid e) l' idle_prod)).
Proof.
  intros Wk Hcur Hseq. unfold get_prod in *. split.
  - intros q Hq Hpc. rewrite (w_len _ _ Wk) in Hq.
    destruct (w_nth _ _ Wk q) as [Eq|[Ew Eq]]; rewrite Eq in *.
    + apply Hcur; assumption.
    + cbn [cur nsent set_pc]. apply Hcur; [exact Hq|rewrite Ew; discriminate].
  - intros e He. specialize (Hseq e He).
    destruct (w_nth _ _ Wk (e_pid e)) as [Eq|[Ew Eq]]; rewrite Eq; [exact Hseq|].
    unfold bound in *. cbn [pc nsent set_pc pre_adm]. rewrite Ew in Hseq. exact Hseq.
Qed.

Ltac wfields I F1 F2 :=
  constructor; unf;
  [ exact (i_cfg _ I) | use1 I i_acc | t_log I | use1 I i_cap | t_time I
  | use1 I i_wake | use1 I i_note | use1 I i_act | use2 I i_det i_act | use1 I i_stp
  | use2 I i_cvs i_acc | use4 I i_cva i_cap i_cfg i_acc
  | exact F1 | exact F2 | exact (i_pps _ I) ].

Lemma inv_woke s l' c' : Inv s -> woke (prods s) l' ->
  (exists more, cons s = CPopped more /\ c' = CRearm more /\
     ((pol s = Queue /\ cnt is_waiting l' = pred (cnt is_waiting (prods s))) \/ (pol s <> Queue /\ cnt is_waiting l' = 0))) \/
  (cons s = CStopB /\ c' = CStopC /\ cnt is_waiting l' = 0) ->
  Inv (set_cons c' (set_prods l' s)).
Proof.
  intros I Wk Hc.
  destruct (woke_frames s l' (accepted s) Wk (i_cur s I) (i_seq s I)) as [F1 F2].
  destruct Wk as [Wl _ Wm Wn Wi Ws].
  destruct Hc as [(more & Ec & -> & [[Hp Hw]|[Hp Hw]])|(Ec & -> & Hw)]; wfields I F1 F2.
  
Qed.

Lemma flatd_snoc d t b : flatd (d ++ [(t, b)]) = flatd d ++ b.
Proof. rewrite flatd_app. unfold flatd at 2. simpl. rewrite app_nil_r. reflexivity. Qed.

Lemma inv_time_snoc s b c' : Inv s -> is_reset (cons s) = true -> is_reset c' = false -> b <> [] ->
  (pol s = Queue -> length b = 1) ->
  increasingZ (map fst (delivered s ++ [(now s, b)])) /\
  forall tb, In tb (delivered s ++ [(now s, b)]) ->
    (fst tb <= now s)%Z /\ (is_reset c' = true -> (fst tb < now s)%Z) /\ snd tb <> [] /\ (pol s = Queue -> length (snd tb) = 1).
Proof.
  intros I Hr Hc Hb Hq. destruct (i_time s I) as [T1 T2]. split.
  - rewrite map_app. simpl. apply increasingZ_snoc; [exact T1|].
    intros x Hx. apply in_map_iff in Hx. destruct Hx as [tb [<- Htb]]. apply (T2 tb Htb). exact Hr.
  - intros tb Htb. apply in_app_or in Htb. destruct Htb as [Htb|[<-|[]]].
    + destruct (T2 tb Htb) as (A & B & C & D). repeat split; auto; try (rewrite Hc; discriminate).
    + simpl. repeat split; auto; try lia; try (rewrite Hc; discriminate).
Qed.

Lemma inv_pop s : Inv s -> cons s = CReset true -> Inv (pop s).
Proof.
  intros I Ec. unfold pop.
  pose proof (i_acc s I) as A. rewrite Ec in A. cbn in A.
  pose proof (i_log s I) as L. rewrite A in L.
  destruct (vals s) as [|v r] eqn:Ev.
  { destruct (pol s); cfields I. }
  assert (Hr : is_reset (cons s) = true) by (rewrite Ec; reflexivity).
  destruct (pol s) eqn:Epol.
  - (* Queue *)
    destruct (inv_time_snoc s [v] (CPopped (negb (is_nil r))) I Hr eq_refl) as [T1 T2]; [discriminate|reflexivity|].
    pose proof (i_cap s I) as Cp. rewrite Ev in Cp. simpl in Cp.
    pose proof (i_cva s I) as Cv. rewrite Ev, Ec, A, Epol in Cv. simpl in Cv.
    constructor; unf;
    [ exact (i_cfg _ I) | exact A | rewrite A, flatd_snoc, L, <- app_assoc; reflexivity | intros Hc; specialize (Cp Hc); lia
    | split; [exact T1|exact T2]
    | destruct r; simpl; [congruence|auto] | use1 I i_note | use1 I i_act | use2 I i_det i_act | use1 I i_stp
    | rewrite A; congruence | intros Hw _; destruct (Cv Hw eq_refl) as [C1 [[C2 _]|C2]]; [discriminate|split; [exact C1|right; simpl; lia]]
    | exact (i_cur _ I) | exact (i_seq _ I) | exact (i_pps _ I) ].
  - (* Burst *)
    destruct (inv_time_snoc s (v :: r) (CPopped false) I Hr eq_refl) as [T1 T2]; [discriminate|rewrite Epol; discriminate|].
    constructor; unf;
    [ exact (i_cfg _ I) | exact A | rewrite A, flatd_snoc, L, app_nil_r; reflexivity | simpl; lia
    | split; [exact T1|exact T2]
    | congruence | use1 I i_note | use1 I i_act | use2 I i_det i_act | use1 I i_stp
    | rewrite A; congruence
    | intros Hw _; pose proof (i_cva s I Hw A) as [C1 _]; split; [exact C1|left; split; [exact Epol|reflexivity]]
    | exact (i_cur _ I) | exact (i_seq _ I) | exact (i_pps _ I) ].
  - (* Confl *)
    destruct (inv_time_snoc s (v :: r) (CPopped false) I Hr eq_refl) as [T1 T2]; [discriminate|rewrite Epol; discriminate|].
    constructor; unf;
    [ exact (i_cfg _ I) | exact A | rewrite A, flatd_snoc, L, app_nil_r; reflexivity | simpl; lia
    | split; [exact T1|exact T2]
    | congruence | use1 I i_note | use1 I i_act | use2 I i_det i_act | use1 I i_stp
    | rewrite A; congruence
    | intros Hw _; pose proof (i_cva s I Hw A) as [C1 _]; pose proof (i_cfg s I Epol); congruence
    | exact (i_cur _ I) | exact (i_seq _ I) | exact (i_pps _ I) ].
Qed.

Lemma inv_popped_confl s more : Inv s -> cons s = CPopped more -> pol s = Confl -> Inv (set_cons (CRearm more) s).
Proof. intros I Ec Epol. cfields I. Qed.

(* ---- every step preserves the invariant ---- *)
Lemma inv_step s l s' : Inv s -> step l s = Some s' -> Inv s'.
Proof.
  intros I H. destruct l as [p h|p v k|p|p| | |t|w| | | | | ]; cbn [step] in H.
  - (* LBind *)
    destruct (pc (get_prod p s)) eqn:E; try discriminate.
    destruct (Nat.ltb_spec p (length (prods s))); inversion H; subst. apply inv_bind; assumption.
  - (* LBegin *)
    destruct (pc (get_prod p s)) eqn:E; try discriminate.
    destruct (Nat.ltb_spec p (length (prods s))); inversion H; subst. apply inv_begin; assumption.
  - (* LProd *)
    destruct (Nat.ltb_spec p (length (prods s))) as [Hp|]; [|discriminate].
    unfold prod_step in H. destruct (pc (get_prod p s)) eqn:E; try discriminate.
    + (* PEnter *)
      destruct (inv_enter s p I Hp E) as [I1 I2].
      destruct (negb (Nat.eqb (handle (get_prod p s)) (epoch s)) || closing s || negb (attached s)) eqn:Hb; inversion H; subst; [exact I1|].
      apply orb_false_iff in Hb. destruct Hb as [Hb Ha]. apply orb_false_iff in Hb. destruct Hb as [_ Hc].
      apply I2; [exact Hc|destruct (attached s); [reflexivity|discriminate]].
    + destruct (inv_stopchk s p I Hp E) as [I1 I2]. destruct (stop_req s); inversion H; subst; assumption.
    + inversion H; subst. apply inv_admit; auto.
    + inversion H; subst. apply inv_admit; auto.
    + destruct (inv_mark s p I Hp E) as [I1 I2]. destruct (stop_req s) eqn:Hs; inversion H; subst; [apply I1; reflexivity|exact I2].
    + inversion H; subst. apply inv_notify; assumption.
    + inversion H; subst. apply inv_leave; assumption.
  - (* LSpur *)
    destruct (pc (get_prod p s)) eqn:E; try discriminate. inversion H; subst.
    destruct (Nat.lt_ge_cases p (length (prods s))) as [Hp|Hp]; [apply inv_spur; assumption|].
    unfold get_prod in E. rewrite nth_overflow in E by exact Hp. discriminate.
  - (* LCBlock *)
    destruct (cons s) eqn:Ec; try discriminate. destruct (flag s || stop_req s) eqn:Hb; inversion H; subst.
    apply inv_cblock; assumption.
  - destruct (cons s) eqn:Ec; try discriminate. inversion H; subst. apply inv_cwake; assumption.
  - destruct (cons s) eqn:Ec; try discriminate. destruct (Z.ltb_spec (now s) t); inversion H; subst.
    apply inv_cbegin; assumption.
  - (* LCons *)
    unfold cons_step in H. destruct (cons s) as [| | |pend|more|more| | | ] eqn:Ec; try discriminate.
    + destruct pend; inversion H; subst; [apply inv_pop; assumption|apply inv_creset_false; assumption].
    + inversion H; subst. destruct (pol s) eqn:Epol.
      * destruct (notify_one_spec w s) as (l' & -> & Wk & Hw). apply inv_woke; [exact I|exact Wk|].
        left. exists more. repeat split; auto.
      * destruct (woke_all (prods s)) as [Wk Hw]. apply (inv_woke s (map wake (prods s))); [exact I|exact Wk|].
        left. exists more. repeat split; auto. right. split; [congruence|exact Hw].
      * apply inv_popped_confl; assumption.
    + destruct (inv_crearm s more I Ec) as [I1 I2].
      destruct more; [destruct (stop_req s) eqn:Hs|]; inversion H; subst; auto.
    + inversion H; subst. apply inv_stopA; assumption.
    + inversion H; subst. destruct (woke_all (prods s)) as [Wk Hw]. apply (inv_woke s (map wake (prods s))); [exact I|exact Wk|].
      right. repeat split; auto.
    + destruct (Nat.eqb_spec (active s) 0); inversion H; subst. apply inv_stopC; assumption.
  - destruct (cons s) eqn:Ec; try discriminate. inversion H; subst. apply inv_cstop; assumption.
  - destruct (cons s) eqn:Ec; try discriminate. inversion H; subst. apply inv_start; assumption.
  - inversion H; subst. apply inv_reqstop; assumption.
  - destruct (stop_notifies s) eqn:En; inversion H; subst. apply inv_reqnotify; assumption.
  - destruct (cons s) eqn:Ec; try discriminate. inversion H; subst. apply inv_clearstop; assumption.
Qed.

Lemma inv_do_step s l : Inv s -> Inv (do_step s l).
Proof. intros I. unfold do_step. destruct (step l s) eqn:E; [eapply inv_step; eauto|exact I]. Qed.

Lemma inv_run ls s : Inv s -> Inv (run ls s).
Proof. revert s; induction ls as [|l r IH]; intros s I; simpl; [exact I|]. apply IH. apply inv_do_step. exact I. Qed.

Theorem inv_reach pl c n ls : Inv (reach pl c n ls).
Proof. apply inv_run. apply inv_init. Qed.
