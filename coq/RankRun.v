(* RankRun.v — the executable entry point of family `rank` (acceptor shape, PIPE = True):
   decodes a case (program, statement orders) followed by the line [-1] and the implementation's
   observation, and checks the implementation against the mirror model:
     - same verdict per order (built / rejection code),
     - same interning (node count; which statement every statement was merged into),
     - the implementation's node order is accepted by [valid_ranking] on the model's rank edges,
     - the compiled edge list equals the model's emitted edges (as a multiset),
     - the implementation's node order EQUALS the model's Kahn order (ready lists seeded and extended in
       insertion order, push sources first) - reason 9 otherwise; [valid_ranking] above is what the
       theorems of C01 are about, the equality pins the documented tie-break,
     - the compiled nodes with error capture are the instances whose error output is read,
     - the active-input list of every compiled native node is the one of the statement that CREATED
       the node (the passive marker of later, merged statements is lost: first statement wins).
   Output: [[1; orders; orders whose order equals the model's own Kahn order]] or [[0; k; reason]]. *)
Require Import Base Rank Intern.
From Coq Require Import Arith.

Definition zn (z : Z) : nat := Z.to_nat z.

Fixpoint parse_src (fuel : nat) (ts : list Z) : option (src * list Z) :=
  match fuel with
  | O => None
  | S f =>
      match ts with
      | 0 :: r :: np :: rest => Some (SPeer (zn r) (map zn (firstn (zn np) rest)) 0, skipn (zn np) rest)
      | 6 :: r :: _ :: rest => Some (SPeer (zn r) [] 1, rest)   (* error output; third token: ErrorCaptureOptions, not part of the wiring model *)
      | 7 :: r :: np :: rest => Some (SPeer (zn r) (map zn (firstn (zn np) rest)) 2, skipn (zn np) rest)
      | 1 :: h :: np :: rest => Some (SDelay (zn h) (map zn (firstn (zn np) rest)), skipn (zn np) rest)
      | 2 :: rest => Some (SNull, rest)
      | 3 :: k :: rest =>
          match (fix go (k : nat) (ts : list Z) : option (list src * list Z) :=
                   match k with
                   | O => Some ([], ts)
                   | S k' =>
                       match parse_src f ts with
                       | Some (s, ts') =>
                           match go k' ts' with Some (ss, ts'') => Some (s :: ss, ts'') | None => None end
                       | None => None
                       end
                   end) (zn k) rest with
          | Some (cs, ts') => Some (SStruct cs, ts')
          | None => None
          end
      | _ => None
      end
  end.

(* An extra FLOAT scalar field (line [14, label, code]: 0 -> 0.0, 1 -> -0.0, 2 -> 1.5, 3 -> -1.5).  The scalar part
   of the key is compared with Value::equals, i.e. IEEE ==, under which 0.0 = -0.0: mirrored by giving both
   the same number (known finding KF-C06-signed-zero-scalars-merged; docs/rank-fix-1.patch separates them). *)
Definition fscalar (code : Z) : Z := if code <=? 1 then 1000 else 1000 + code.
Definition add_fscalar (code : Z) (p : list stmt) : list stmt :=
  match p with
  | StNode d ins :: r =>
      StNode {| nd_def := nd_def d; nd_sch := nd_sch d;
                nd_scal := Some ((match nd_scal d with Some l => l | None => [] end) ++ [fscalar code]);
                nd_uniq := nd_uniq d; nd_push := nd_push d |} ins :: r
  | _ => p
  end.

Definition add_input (i : input) (p : list stmt) : list stmt :=
  match p with StNode d ins :: r => StNode d (ins ++ [i]) :: r | _ => p end.

Definition norm_out (kind out : Z) : Z :=
  if (kind =? 5) || (kind =? 9) then 0   (* 9: a sink that declares recordable state: still output-less, never interned *)
  else if (kind =? 3) || (kind =? 4) then (if out =? 2 then 2 else 1)
  else if out =? 0 then 0 else if out =? 2 then 2 else 1.

(* the program is accumulated in reverse *)
Definition decode_line (p : list stmt) (l : line) : list stmt :=
  match l with
  | 2 :: _ :: kind :: def :: uniq :: out :: has_sc :: nsc :: rest =>
      let special := (kind =? 3) || (kind =? 4) || (kind =? 5) || (kind =? 6) || (kind =? 7) || (kind =? 8) || (kind =? 9) in
      (* kinds 6, 7: nested_<SinkAndOutG> / try_except_<SinkG> wrapper nodes (deferred-builder add_node): one
         definition each, no scalars, an output - so they are interned like any value node *)
      StNode {| nd_def := if kind =? 4 then 100%nat else if kind =? 5 then 101%nat
                          else if kind =? 6 then 102%nat else if kind =? 7 then 103%nat else if kind =? 8 then 104%nat else if kind =? 9 then 105%nat
                          else if (def <? 0) || (7 <? def) then 7%nat else zn def;
                nd_sch := [norm_out kind out];
                nd_scal := if special then None else if has_sc =? 0 then None else Some (firstn (zn nsc) rest);
                nd_uniq := negb (uniq =? 0) || (kind =? 3) || (kind =? 4);
                nd_push := kind =? 3 |} [] :: p
  | 3 :: _ :: _ :: rank :: ntp :: rest =>
      match parse_src 64 (skipn (zn ntp) rest) with
      | Some (s, _) => add_input {| in_src := s; in_tpath := map zn (firstn (zn ntp) rest);
                                   in_rank := Z.odd rank; in_passive := 2 <=? rank |} p
      | None => p
      end
  | 14 :: _ :: code :: _ => add_fscalar code p
  | 4 :: _ => StPlace :: p
  | 5 :: _ :: ph :: ref :: np :: rest => StBind (zn ph) (zn ref) (map zn (firstn (zn np) rest)) :: p
  | 6 :: _ :: a :: b :: _ => StDep (zn a) (zn b) :: p
  | 10 :: _ :: path :: ref :: _ => StAnchor (zn path) (zn ref) :: p
  | 11 :: _ :: path :: ref :: rc :: _ => StClient (zn path) (zn ref) (negb (rc =? 0)) :: p
  | _ => p
  end.

Definition decode_prog (c : wire) : list stmt := rev (fold_left decode_line c []).

Definition decode_orders (c : wire) : list (list nat) :=
  flat_map (fun l => match l with 8 :: _ :: r => [map zn r] | _ => [] end) c.

Fixpoint split_case (w : wire) (acc : wire) : wire * wire :=
  match w with
  | [] => (rev acc, [])
  | [-1] :: r => (rev acc, r)
  | l :: r => split_case r (l :: acc)
  end.

(* lines of the observation with tag t for order k, tag and k stripped *)
Definition obs (impl : wire) (t k : Z) : list line :=
  flat_map (fun l => match l with t' :: k' :: r => if (t' =? t) && (k' =? k) then [r] else [] | _ => [] end) impl.

Definition decode_cedge (l : line) : option cedge :=
  match l with
  | s :: kind :: t :: nsp :: rest =>
      let sp := firstn (zn nsp) rest in
      match skipn (zn nsp) rest with
      | ntp :: rest' => Some (zn s, zn kind :: map zn sp, zn t, map zn (firstn (zn ntp) rest'))
      | [] => None
      end
  | _ => None
  end.

Definition cedge_eqb (a b : cedge) : bool :=
  match a, b with
  | (s, sp, t, tp), (s', sp', t', tp') =>
      (s =? s')%nat && list_eqb Nat.eqb sp sp' && (t =? t')%nat && list_eqb Nat.eqb tp tp'
  end.

Fixpoint remove_first (e : cedge) (l : list cedge) : option (list cedge) :=
  match l with
  | [] => None
  | x :: r => if cedge_eqb x e then Some r else match remove_first e r with Some r' => Some (x :: r') | None => None end
  end.

Fixpoint multiset_eqb (a b : list cedge) : bool :=
  match a with
  | [] => match b with [] => true | _ => false end
  | x :: r => match remove_first x b with Some b' => multiset_eqb r b' | None => false end
  end.

Fixpoint all_some {A} (l : list (option A)) : option (list A) :=
  match l with
  | [] => Some []
  | Some x :: r => match all_some r with Some r' => Some (x :: r') | None => None end
  | None :: _ => None
  end.

Definition creator_inst (w : wst) (c : Z) : option nat :=
  if c <? 0 then None
  else match alookup (zn c) (w_env w) with
       | Some i => match nth_error (w_insts w) i with
                   | Some it => if (i_label it =? zn c)%nat then Some i else None
                   | None => None
                   end
       | None => None
       end.

(* every reported active list [creator; slots...] equals the model's for that instance *)
Definition active_ok (w : wst) (l : line) : bool :=
  match l with
  | c :: slots =>
      match creator_inst w c with
      | Some i => match nth_error (w_insts w) i with
                  | Some it => list_eqb Nat.eqb (map zn slots) (active_slots it)
                  | None => false
                  end
      | None => false
      end
  | [] => false
  end.

(* the compiled nodes with error capture are exactly the instances whose error output some input reads *)
Definition captures_ok (w : wst) (creators : list Z) (capt : list Z) : bool :=
  forallb (fun c => match creator_inst w c with
                    | Some i => Bool.eqb (captured w i) (existsb (Z.eqb c) capt)
                    | None => false
                    end) creators.

Definition model_reps (w : wst) (n : nat) : list Z :=
  map (fun l => match alookup l (w_env w) with
                | Some i => match nth_error (w_insts w) i with Some it => Z.of_nat (i_label it) | None => -1 end
                | None => -1
                end) (seq 0 n).

(* 0 = accepted; otherwise the reason; second component: the order equals the model's Kahn order *)
Definition check_order (prog : list stmt) (order : list nat) (impl : wire) (k : Z) : Z * bool :=
  let code := match obs impl 20 k with (c :: _) :: _ => c | _ => -9 end in
  match compile prog order with
  | Rejected c => ((if code =? c then 0 else 1), false)
  | Built w g o es =>
      if negb (code =? 0) then (1, false)
      else
        match obs impl 21 k with
        | (n :: creators) :: _ =>
            match all_some (map (creator_inst w) creators) with
            | None => (3, false)
            | Some io =>
                if negb ((zn n =? length (w_insts w))%nat && (length creators =? zn n)%nat) then (4, false)
                else if negb (rg_wfb g && valid_ranking g io) then (5, false)
                else if negb (match obs impl 23 k with r :: _ => list_eqb Z.eqb r (model_reps w (length prog)) | [] => false end)
                then (6, false)
                else
                  match all_some (map decode_cedge (obs impl 22 k)) with
                  | None => (7, false)
                  | Some ies =>
                      if multiset_eqb (map (fun e => match e with (s, sp, t, tp) => (pos s io, sp, pos t io, tp) end) es) ies
                      then (if negb (forallb (active_ok w) (obs impl 27 k)) then (8, false)
                            else if negb (captures_ok w creators (match obs impl 30 k with c :: _ => c | [] => [] end)) then (10, false)
                            (* the compiled order must be THE order of build_ranked_graph: insertion-order tie-break *)
                            else if list_eqb Nat.eqb io o then (0, true) else (9, false))
                      else (7, false)
                  end
            end
        | _ => (2, false)
        end
  end.

Fixpoint check_orders (prog : list stmt) (orders : list (list nat)) (impl : wire) (k : Z) : list (Z * Z * bool) :=
  match orders with
  | [] => []
  | o :: r => let '(c, ex) := check_order prog o impl k in (k, c, ex) :: check_orders prog r impl (k + 1)
  end.

Definition run_rank (w : wire) : wire :=
  let '(c, impl) := split_case w [] in
  let prog := decode_prog c in
  let orders := decode_orders c in
  let rs := check_orders prog orders impl 0 in
  match filter (fun r => match r with (_, c, _) => negb (c =? 0) end) rs with
  | [] => [[1; Z.of_nat (length rs); Z.of_nat (length (filter (fun r => match r with (_, _, ex) => ex end) rs))]]
  | bad => map (fun r => match r with (k, c, _) => [0; k; c] end) bad
  end.
