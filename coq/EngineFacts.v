(* EngineFacts.v — theorems about the flat engine model (Engine.v). *)
Require Import Base Sched SchedFacts Engine.
From Coq Require Import ZifyBool Sorted.

(* ------------------------------------------------------------------ *)
(* Frame facts of the primitive state updates                           *)
(* ------------------------------------------------------------------ *)
Lemma emit_fields l g :
  g_now (emit l g) = g_now g /\ g_slots (emit l g) = g_slots g /\ g_nst (emit l g) = g_nst g /\
  g_nodes (emit l g) = g_nodes g /\ g_err (emit l g) = g_err g.
Proof. repeat split. Qed.

Lemma slot_at_set_same i w g :
  (i < length (g_slots g))%nat -> nth i (set_nth i w (g_slots g)) MIN_DT = w.
Proof. intros H. unfold set_nth. rewrite nth_update_same; auto. Qed.

Lemma slot_at_set_other i j w l : i <> j -> nth j (set_nth i w l) MIN_DT = nth j l MIN_DT.
Proof. intros H. unfold set_nth. apply nth_update_other; auto. Qed.

(* schedule_node: a complete description *)
Definition sn_applies (i : nat) (when : Z) (g : gst) : bool :=
  (slot_at i g <=? g_now g) || (when <? slot_at i g).

Lemma schedule_node_spec i when g :
  let g' := schedule_node i when g in
  g_now g' = g_now g /\ g_nodes g' = g_nodes g /\ g_log g' = g_log g /\
  (when < g_now g -> g_err g' = 3 /\ g_slots g' = g_slots g /\ g_nst g' = g_nst g) /\
  (g_now g <= when ->
     g_err g' = g_err g /\
     (sn_applies i when g = true ->
        g_slots g' = set_nth i when (g_slots g) /\
        g_nst g' = (if (g_now g <? when) && (when <? g_nst g) then when else g_nst g)) /\
     (sn_applies i when g = false -> g_slots g' = g_slots g /\ g_nst g' = g_nst g)).
Proof.
  unfold schedule_node, sn_applies. cbn zeta.
  destruct (when <? g_now g) eqn:E1.
  - simpl. repeat split; try lia; intros; lia.
  - destruct ((slot_at i g <=? g_now g) || (when <? slot_at i g)) eqn:E2; simpl;
      repeat split; auto; try lia; intros; try discriminate; auto.
Qed.

Lemma schedule_node_len i when g : length (g_slots (schedule_node i when g)) = length (g_slots g).
Proof.
  unfold schedule_node. destruct (when <? g_now g); simpl; auto.
  destruct ((slot_at i g <=? g_now g) || (when <? slot_at i g)); simpl; auto.
  unfold set_nth. apply update_length.
Qed.

Lemma schedule_node_nst_le i when g : g_nst (schedule_node i when g) <= g_nst g.
Proof.
  unfold schedule_node. destruct (when <? g_now g); simpl; try lia.
  destruct ((slot_at i g <=? g_now g) || (when <? slot_at i g)); simpl; try lia.
  destruct ((g_now g <? when) && (when <? g_nst g)) eqn:E; lia.
Qed.

Lemma schedule_node_nst_gt i when g : g_now g < g_nst g -> g_now g < g_nst (schedule_node i when g).
Proof.
  intros H. unfold schedule_node. destruct (when <? g_now g); simpl; auto.
  destruct ((slot_at i g <=? g_now g) || (when <? slot_at i g)); simpl; auto.
  destruct ((g_now g <? when) && (when <? g_nst g)) eqn:E; lia.
Qed.

(* the slot of the scheduled node afterwards, when no error *)
Lemma schedule_node_slot_self i when g :
  (i < length (g_slots g))%nat -> g_now g <= when ->
  let g' := schedule_node i when g in
  (slot_at i g' = when /\ (g_now g < when -> g_nst g' <= when)) \/
  (slot_at i g' = slot_at i g /\ g_now g < slot_at i g <= when).
Proof.
  intros Hi Hw. cbn zeta. unfold schedule_node.
  replace (when <? g_now g) with false by lia.
  destruct ((slot_at i g <=? g_now g) || (when <? slot_at i g)) eqn:E.
  - left. unfold slot_at at 1. simpl. rewrite slot_at_set_same by auto. split; auto.
    intros. destruct ((g_now g <? when) && (when <? g_nst g)) eqn:E2; lia.
  - right. split; auto. lia.
Qed.

Lemma schedule_node_slot_other i j when g :
  i <> j -> slot_at j (schedule_node i when g) = slot_at j g.
Proof.
  intros H. unfold schedule_node. destruct (when <? g_now g); simpl; auto.
  destruct ((slot_at i g <=? g_now g) || (when <? slot_at i g)); simpl; auto.
  unfold slot_at; simpl. apply slot_at_set_other; auto.
Qed.

(* ------------------------------------------------------------------ *)
(* Generic list / state helpers                                         *)
(* ------------------------------------------------------------------ *)
Lemma node_at_upd_same i f g : (i < length (g_nodes g))%nat -> node_at i (upd_node i f g) = f (node_at i g).
Proof. intros H. unfold node_at, upd_node; simpl. apply nth_update_same; auto. Qed.

Lemma node_at_upd_other i j f g : i <> j -> node_at j (upd_node i f g) = node_at j g.
Proof. intros H. unfold node_at, upd_node; simpl. apply nth_update_other; auto. Qed.

Lemma upd_node_fields i f g :
  g_now (upd_node i f g) = g_now g /\ g_slots (upd_node i f g) = g_slots g /\ g_nst (upd_node i f g) = g_nst g /\
  g_log (upd_node i f g) = g_log g /\ g_err (upd_node i f g) = g_err g /\
  length (g_nodes (upd_node i f g)) = length (g_nodes g).
Proof. repeat split. unfold upd_node; simpl. apply update_length. Qed.

(* events of the results of scheduler operations are old events or the new one *)
Lemma schedule_events_sub now (started : bool) when tag s x :
  Inv s -> In x (events (fst (schedule now started when tag s))) ->
  In x (events s) \/ (x = (when, tag) /\ ~ (if started then when <= now else when < now)).
Proof.
  intros HI Hin.
  destruct (if started then when <=? now else when <? now) eqn:E.
  - rewrite schedule_ignored in Hin by (destruct started; lia). auto.
  - assert (Hacc : ~ (if started then when <= now else when < now)) by (destruct started; lia).
    apply (schedule_pending now started when tag s x HI Hacc) in Hin.
    destruct Hin as [->|[Hin _]]; auto.
Qed.

Lemma un_schedule_tag_sub t s x : In x (events (un_schedule_tag t s)) -> In x (events s).
Proof.
  unfold un_schedule_tag. destruct (tag_find t (tags s)); simpl; auto. apply del_subset.
Qed.

Lemma un_schedule_first_sub s x : In x (events (un_schedule_first s)) -> In x (events s).
Proof. unfold un_schedule_first. destruct (events s) eqn:E; simpl; auto. rewrite E; auto. Qed.

Lemma pop_tag_sub t d s x : In x (events (fst (pop_tag t d s))) -> In x (events s).
Proof. unfold pop_tag. destruct (tag_find t (tags s)); simpl; auto. apply del_subset. Qed.

Lemma first_time_in d l : l <> [] -> exists tg, In (first_time d l, tg) l.
Proof. destruct l as [|[w t] r]; [congruence|]. intros _. exists t. left; auto. Qed.

Lemma first_time_min d (s : sched) e : Inv s -> In e (events s) -> first_time d (events s) <= fst e.
Proof.
  intros [Hs _] Hin. destruct (events s) as [|y r] eqn:E; [destruct Hin|].
  simpl. apply (sorted_head_min y r e Hs Hin).
Qed.

(* ------------------------------------------------------------------ *)
(* The scheduling invariant of one evaluation cycle                     *)
(* ------------------------------------------------------------------ *)
Section EngineInv.
Variable cfgs : list ncfg.
Variable beh : behaviour.
Notation n := (length cfgs).
Definition cfg (i : nat) : ncfg := nth i cfgs dflt_cfg.

(* the ranking property the wiring layer establishes (C01): producers first *)
Definition well_ranked : Prop :=
  forall i s, (i < n)%nat -> In s (c_ins (cfg i)) -> (i_src s < i)%nat.

Definition pending (g : gst) (i : nat) : list ev := events (n_sch (node_at i g)).

Record base_ok (g : gst) : Prop := {
  bo_ls : length (g_slots g) = n;
  bo_ln : length (g_nodes g) = n;
  bo_inv : forall i, (i < n)%nat -> Inv (n_sch (node_at i g));
  bo_started : forall i, (i < n)%nat -> n_started (node_at i g) = true;
  bo_nst : g_now g < g_nst g }.

(* a node the scan has already passed: armed no later than its earliest pending event *)
Definition node_done (g : gst) (i : nat) : Prop :=
  c_sched (cfg i) = true -> forall e, In e (pending g i) -> g_now g < slot_at i g /\ slot_at i g <= fst e.
(* a node the scan has not reached: nothing pending in the past; due now, or armed *)
Definition node_todo (g : gst) (i : nat) : Prop :=
  c_sched (cfg i) = true -> forall e, In e (pending g i) ->
    g_now g <= fst e /\ (slot_at i g = g_now g \/ (g_now g < slot_at i g /\ slot_at i g <= fst e)).
Definition cache_ok (g : gst) (i : nat) : Prop := g_now g < slot_at i g -> g_nst g <= slot_at i g.
(* the node under evaluation *)
Definition cur_ok (d : bool) (g : gst) (k : nat) : Prop :=
  (c_sched (cfg k) = true -> forall e, In e (pending g k) -> g_now g < fst e \/ (d = true /\ g_now g = fst e)) /\
  (slot_at k g = g_now g \/ (g_now g < slot_at k g /\ g_nst g <= slot_at k g)).

Definition OI (d : bool) (k : nat) (g : gst) : Prop :=
  base_ok g /\ (forall i, (i < k)%nat -> node_done g i /\ cache_ok g i) /\ cur_ok d g k /\
  (forall i, (k < i < n)%nat -> node_todo g i).

Definition SI (k : nat) (g : gst) : Prop :=
  base_ok g /\ (forall i, (i < k)%nat -> node_done g i /\ cache_ok g i) /\
  (forall i, (k <= i < n)%nat -> node_todo g i).

Definition same_core (g g' : gst) : Prop :=
  g_now g' = g_now g /\ g_slots g' = g_slots g /\ g_nst g' = g_nst g /\ g_nodes g' = g_nodes g.

Lemma OI_same_core d k g g' : same_core g g' -> OI d k g -> OI d k g'.
Proof.
  destruct g, g'. unfold same_core; simpl. intros (-> & -> & -> & ->) H.
  destruct H as ([A1 A2 A3 A4 A5] & B & C & D).
  split; [constructor; auto|]. split; [exact B|]. split; [exact C|exact D].
Qed.

Lemma OI_emit d k l g : OI d k g -> OI d k (emit l g).
Proof. apply OI_same_core. repeat split. Qed.

(* updating fields of node k other than its scheduler state *)
Lemma OI_upd_other d k f g :
  (k < n)%nat ->
  (forall x, n_sch (f x) = n_sch x) -> (forall x, n_started x = true -> n_started (f x) = true) ->
  OI d k g -> OI d k (upd_node k f g).
Proof.
  intros Hk Hs Hst ([A1 A2 A3 A4 A5] & B & C & D).
  assert (NA : forall i, n_sch (node_at i (upd_node k f g)) = n_sch (node_at i g)).
  { intros i. destruct (Nat.eq_dec k i) as [->|Hne].
    - rewrite node_at_upd_same by lia. apply Hs.
    - rewrite node_at_upd_other; auto. }
  split.
  { constructor; simpl; auto.
    - unfold upd_node; simpl. rewrite update_length; auto.
    - intros i Hi. rewrite NA; auto.
    - intros i Hi. destruct (Nat.eq_dec k i) as [->|Hne].
      + rewrite node_at_upd_same by lia. apply Hst; auto.
      + rewrite node_at_upd_other; auto. }
  unfold node_done, node_todo, cur_ok, cache_ok, pending in *.
  split; [|split].
  - intros i Hi. specialize (B i Hi). rewrite NA. exact B.
  - rewrite NA. exact C.
  - intros i Hi. specialize (D i Hi). rewrite NA. exact D.
Qed.

(* replacing the scheduler state of node k *)
Lemma OI_set_sch d k s' g :
  (k < n)%nat -> Inv s' -> (forall e, In e (events s') -> g_now g < fst e \/ (d = true /\ g_now g = fst e)) ->
  OI d k g -> OI d k (upd_node k (set_sch s') g).
Proof.
  intros Hk HI He ([A1 A2 A3 A4 A5] & B & C & D).
  assert (NO : forall i, i <> k -> node_at i (upd_node k (set_sch s') g) = node_at i g).
  { intros i Hne. rewrite node_at_upd_other; auto. }
  assert (NS : node_at k (upd_node k (set_sch s') g) = set_sch s' (node_at k g)).
  { rewrite node_at_upd_same by lia. auto. }
  split.
  { constructor; simpl; auto.
    - unfold upd_node; simpl. rewrite update_length; auto.
    - intros i Hi. destruct (Nat.eq_dec i k) as [->|Hne]; [rewrite NS; auto|rewrite NO; auto].
    - intros i Hi. destruct (Nat.eq_dec i k) as [->|Hne]; [rewrite NS; simpl; auto|rewrite NO; auto]. }
  unfold node_done, node_todo, cur_ok, cache_ok, pending in *.
  split; [|split].
  - intros i Hi. rewrite NO by lia. apply B; auto.
  - rewrite NS. simpl. split; [intros _; exact He|apply C].
  - intros i Hi. rewrite NO by lia. apply D; auto.
Qed.

(* a self-request of node k for a time that is not in the past *)
Lemma OI_schedule_self d k w g :
  (k < n)%nat -> g_now g <= w -> OI d k g -> OI d k (schedule_node k w g).
Proof.
  intros Hk Hw ([A1 A2 A3 A4 A5] & B & C & D).
  pose proof (schedule_node_spec k w g) as (N1 & N2 & _ & _ & N4). specialize (N4 Hw). destruct N4 as (_ & _).
  assert (SO : forall i, i <> k -> slot_at i (schedule_node k w g) = slot_at i g)
    by (intros; apply schedule_node_slot_other; auto).
  assert (ND : forall i, node_at i (schedule_node k w g) = node_at i g) by (intros; unfold node_at; rewrite N2; auto).
  pose proof (schedule_node_nst_le k w g) as NL.
  split.
  { constructor; auto.
    - rewrite schedule_node_len; auto.
    - rewrite N2; auto.
    - intros i Hi. rewrite ND; auto.
    - intros i Hi. rewrite ND; auto.
    - rewrite N1. apply schedule_node_nst_gt; auto. }
  unfold node_done, node_todo, cur_ok, cache_ok, pending in *. rewrite N1.
  split; [|split].
  - intros i Hi. rewrite ND, SO by lia. destruct (B i Hi) as [B1 B2]. split; auto. intros; specialize (B2 H); lia.
  - rewrite ND. destruct C as [C1 C2]. split; auto.
    destruct (schedule_node_slot_self k w g ltac:(lia) Hw) as [[S1 S2]|[S1 S2]].
    + destruct (Z.eq_dec w (g_now g)); [left; lia|right; split; [lia|rewrite S1; apply S2; lia]].
    + right. rewrite S1. destruct C2 as [C2|C2]; lia.
  - intros i Hi. rewrite ND, SO by lia. apply D; auto.
Qed.

(* a notification of a node the scan has not reached yet *)
Lemma OI_notify_later d k j g :
  (k < j < n)%nat -> OI d k g -> OI d k (schedule_node j (g_now g) g).
Proof.
  intros Hj ([A1 A2 A3 A4 A5] & B & C & D).
  pose proof (schedule_node_spec j (g_now g) g) as (N1 & N2 & _ & _ & N4). specialize (N4 ltac:(lia)).
  destruct N4 as (_ & Y & _).
  assert (AP : sn_applies j (g_now g) g = true) by (unfold sn_applies; lia).
  destruct (Y AP) as [YS YN].
  replace ((g_now g <? g_now g) && (g_now g <? g_nst g)) with false in YN by lia.
  assert (SO : forall i, i <> j -> slot_at i (schedule_node j (g_now g) g) = slot_at i g)
    by (intros; apply schedule_node_slot_other; auto).
  assert (SJ : slot_at j (schedule_node j (g_now g) g) = g_now g).
  { unfold slot_at. rewrite YS. apply slot_at_set_same. lia. }
  assert (ND : forall i, node_at i (schedule_node j (g_now g) g) = node_at i g) by (intros; unfold node_at; rewrite N2; auto).
  split.
  { constructor; auto.
    - rewrite schedule_node_len; auto.
    - rewrite N2; auto.
    - intros i Hi. rewrite ND; auto.
    - intros i Hi. rewrite ND; auto.
    - rewrite N1, YN; auto. }
  unfold node_done, node_todo, cur_ok, cache_ok, pending in *. rewrite N1, YN.
  split; [|split].
  - intros i Hi. rewrite ND, SO by lia. apply B; auto.
  - rewrite ND, SO by lia. exact C.
  - intros i Hi. rewrite ND. destruct (Nat.eq_dec i j) as [->|Hne].
    + rewrite SJ. intros Hc e He. destruct (D j Hi Hc e He) as [D1 _]. split; auto.
    + rewrite SO by auto. apply D; auto.
Qed.

(* notify_from: every node it schedules has an active input from [src], hence lies after it *)
Lemma OI_notify_from d k l j g :
  well_ranked -> (k < n)%nat ->
  (forall m c, nth_error l m = Some c -> (j + m < n)%nat /\ c = cfg (j + m)) ->
  OI d k g -> OI d k (notify_from l j k g).
Proof.
  intros WR Hk. revert j g. induction l as [|c r IH]; intros j g Hl H; simpl; auto.
  apply IH.
  - intros m c' Hm. specialize (Hl (S m) c' Hm). replace (S j + m)%nat with (j + S m)%nat by lia. auto.
  - destruct (existsb (fun sa => (i_src (fst sa) =? k)%nat && snd sa) (combine (c_ins c) (n_act (node_at j g))) && n_started (node_at j g)) eqn:E; auto.
    apply andb_true_iff in E. destruct E as [E _]. apply existsb_exists in E. destruct E as [[s a] [Hs Es]].
    apply in_combine_l in Hs. simpl in Es.
    destruct (Hl 0%nat c eq_refl) as [Hj Hc]. rewrite Nat.add_0_r in *. subst c.
    pose proof (WR j s Hj Hs) as Hlt.
    assert (i_src s = k) by lia. subst k.
    apply OI_notify_later; auto.
Qed.

Lemma cfgs_nth_error m c : nth_error cfgs m = Some c -> (0 + m < n)%nat /\ c = cfg (0 + m).
Proof.
  intros H. simpl. split.
  - apply nth_error_Some. rewrite H. discriminate.
  - unfold cfg. symmetry. apply nth_error_nth; auto.
Qed.

(* the current node's pending events stay >= now under every scheduler operation (started) *)
Lemma cur_events_ge d k g :
  (k < n)%nat -> OI d k g -> c_sched (cfg k) = true ->
  forall e, In e (events (n_sch (node_at k g))) -> g_now g < fst e \/ (d = true /\ g_now g = fst e).
Proof. intros Hk (_ & _ & [C _] & _) Hc. exact (C Hc). Qed.

(* one operation of user code of the node under evaluation *)
Lemma OI_do_op d k opi o g :
  well_ranked -> (k < n)%nat -> OI d k g ->
  g_err (do_op cfgs k true opi o g) = 0 -> OI d k (do_op cfgs k true opi o g).
Proof.
  intros WR Hk H. unfold do_op.
  destruct (negb (g_err g =? 0)) eqn:E0; [auto|].
  fold (cfg k). cbn zeta.
  assert (HI : Inv (n_sch (node_at k g))) by (destruct H as ([_ _ A _ _] & _); auto).
  destruct o.
  - (* OSchedule *)
    destruct (c_sched (cfg k)) eqn:Hc; auto.
    destruct (schedule (g_now g) true (g_now g + delta) tag (n_sch (node_at k g))) as [s' push] eqn:Es.
    intros Herr. apply OI_emit.
    assert (Hs' : s' = fst (schedule (g_now g) true (g_now g + delta) tag (n_sch (node_at k g)))) by (rewrite Es; auto).
    assert (HI' : Inv s') by (rewrite Hs'; apply inv_schedule; auto).
    assert (Hev : forall e, In e (events s') -> g_now g < fst e \/ (d = true /\ g_now g = fst e)).
    { intros e He. rewrite Hs' in He. apply schedule_events_sub in He; auto.
      destruct He as [He|[-> Hacc]]; [eapply cur_events_ge; eauto|simpl in *; lia]. }
    pose proof (OI_set_sch d k s' g Hk HI' Hev H) as H1.
    destruct push as [w|]; simpl; auto.
    (* the pushed time is the new earliest event, hence >= now *)
    assert (Hw : g_now g <= w).
    { destruct (Z_le_gt_dec (g_now g + delta) (g_now g)) as [Hle|Hgt].
      - rewrite schedule_ignored in Es by (simpl; lia). inversion Es.
      - pose proof (push_is_new_earliest (n_sch (node_at k g)) (g_now g) true (g_now g + delta) tag HI ltac:(simpl; lia)) as P.
        rewrite Es in P. simpl in P. lia. }
    apply OI_schedule_self; auto.
  - (* OUnschedTag *)
    destruct (c_sched (cfg k)) eqn:Hc; auto. intros _. apply OI_emit. apply OI_set_sch; auto.
    + apply inv_un_schedule_tag; auto.
    + intros e He. apply un_schedule_tag_sub in He. eapply cur_events_ge; eauto.
  - (* OUnschedFirst *)
    destruct (c_sched (cfg k)) eqn:Hc; auto. intros _. apply OI_emit. apply OI_set_sch; auto.
    + apply inv_un_schedule_first; auto.
    + intros e He. apply un_schedule_first_sub in He. eapply cur_events_ge; eauto.
  - (* OPopTag *)
    destruct (c_sched (cfg k)) eqn:Hc; auto.
    destruct (pop_tag tag MIN_DT (n_sch (node_at k g))) as [s' w] eqn:Es. intros _. apply OI_emit.
    assert (Hs' : s' = fst (pop_tag tag MIN_DT (n_sch (node_at k g)))) by (rewrite Es; auto).
    apply OI_set_sch; auto.
    + rewrite Hs'. apply inv_pop_tag; auto.
    + intros e He. rewrite Hs' in He. apply pop_tag_sub in He. eapply cur_events_ge; eauto.
  - (* OReset *)
    destruct (c_sched (cfg k)) eqn:Hc; auto. intros _. apply OI_emit. apply OI_set_sch; auto.
    + apply inv_reset.
    + intros e [].
  - (* OEmit *)
    destruct (c_out (cfg k) && true) eqn:Hc; auto. intros _. apply OI_emit.
    apply OI_notify_from; auto.
    + intros m c Hm. apply cfgs_nth_error; auto.
    + apply OI_upd_other; auto.
  - (* ORaw *)
    intros Herr.
    destruct (Z_lt_ge_dec (g_now g + delta) (g_now g)) as [Hlt|Hge].
    + exfalso. pose proof (schedule_node_spec k (g_now g + delta) g) as (_ & _ & _ & X & _).
      destruct (X Hlt) as [X1 _]. lia.
    + apply OI_schedule_self; auto; lia.
  - (* OThrow *) simpl. intros; lia.
  - (* OMakePassive *) destruct (is_list_entry _ _); intros _; apply OI_upd_other; auto.
  - (* OMakeActive *) destruct (is_list_entry _ _); intros _; apply OI_upd_other; auto.
  - (* OInvalidate *)
    destruct (c_out (cfg k) && true) eqn:Hc; auto.
    destruct (n_val (node_at k g)); intros _; apply OI_emit; auto.
    apply OI_notify_from; auto.
    + intros m c Hm. apply cfgs_nth_error; auto.
    + apply OI_upd_other; auto.
  - (* ONop *) auto.
Qed.

Lemma do_op_err_sticky cfgs' i st opi o g : g_err g <> 0 -> do_op cfgs' i st opi o g = g.
Proof. intros H. unfold do_op. replace (negb (g_err g =? 0)) with true by lia. auto. Qed.

Lemma do_ops_err_sticky cfgs' i st opi os g : g_err g <> 0 -> do_ops cfgs' i st opi os g = g.
Proof.
  revert opi g; induction os as [|o r IH]; intros opi g H; simpl; auto.
  rewrite do_op_err_sticky by auto. apply IH; auto.
Qed.

Lemma OI_do_ops d k os opi g :
  well_ranked -> (k < n)%nat -> OI d k g ->
  g_err (do_ops cfgs k true opi os g) = 0 -> OI d k (do_ops cfgs k true opi os g).
Proof.
  intros WR Hk. revert opi g. induction os as [|o r IH]; intros opi g H Herr; simpl in *; auto.
  destruct (Z.eq_dec (g_err (do_op cfgs k true opi o g)) 0) as [E|E].
  - apply IH; auto. apply OI_do_op; auto.
  - rewrite do_ops_err_sticky in Herr by auto. contradiction.
Qed.

(* ---- from the scan invariant to the node under evaluation and back ---- *)
Lemma SI_to_OI k g :
  (k < n)%nat -> SI k g -> slot_at k g = g_now g ->
  OI (c_sched (cfg k) && is_scheduled_now (g_now g) (n_sch (node_at k g))) k g.
Proof.
  intros Hk (A & B & D) Hs. split; auto. split; auto. split.
  - split; [|left; auto].
    intros Hc e He. rewrite Hc. simpl.
    destruct (D k ltac:(lia) Hc e He) as [D1 _].
    destruct (Z.eq_dec (g_now g) (fst e)) as [E|E]; [|left; lia].
    right. split; auto.
    (* an event at time now exists and all events are >= now, so the first one is now *)
    unfold is_scheduled_now. unfold pending in He. destruct (events (n_sch (node_at k g))) as [|y r] eqn:Ev; [destruct He|].
    pose proof (first_time_min 0 (n_sch (node_at k g)) e (bo_inv g A k Hk)) as M. rewrite Ev in M. specialize (M He). simpl in M.
    destruct (D k ltac:(lia) Hc y) as [Dy _]; [unfold pending; rewrite Ev; left; auto|]. lia.
  - intros i Hi. apply D. lia.
Qed.

Lemma OI_rearm_to_SI d k g :
  (k < n)%nat -> OI d k g ->
  (c_sched (cfg k) = true -> forall e, In e (pending g k) -> g_now g < slot_at k g /\ slot_at k g <= fst e) ->
  SI (S k) g.
Proof.
  intros Hk (A & B & [C1 C2] & D) Hd. split; auto. split.
  - intros i Hi. destruct (Nat.eq_dec i k) as [->|Hne]; [|apply B; lia].
    split; [exact Hd|]. unfold cache_ok. destruct C2 as [C2|C2]; lia.
  - intros i Hi. apply D. lia.
Qed.

(* after the node's own evaluation: consume due events / re-arm (node.cpp evaluate_impl tail) *)
Lemma rearm_done d k g :
  (k < n)%nat -> OI d k g -> c_sched (cfg k) = true ->
  let s := n_sch (node_at k g) in
  let g' := if d then (let '(s', push) := advance (g_now g) s in opt_schedule k push (upd_node k (set_sch s') g))
            else if is_scheduled s then schedule_node k (next_scheduled_time s) g else g in
  SI (S k) g'.
Proof.
  intros Hk H Hc. cbn zeta.
  assert (HI : Inv (n_sch (node_at k g))) by (destruct H as ([_ _ A _ _] & _); auto).
  assert (Lk : (k < length (g_nodes g))%nat) by (destruct H as ([_ L _ _ _] & _); lia).
  destruct d.
  - (* fired by the scheduler: advance *)
    destruct (advance (g_now g) (n_sch (node_at k g))) as [s' push] eqn:Ea.
    assert (Hs' : s' = fst (advance (g_now g) (n_sch (node_at k g)))) by (rewrite Ea; auto).
    assert (HI' : Inv s') by (rewrite Hs'; apply inv_advance; auto).
    assert (Hev : forall e, In e (events s') -> g_now g < fst e).
    { intros e He. rewrite Hs', advance_consumes_due_only in He by auto. apply filter_In in He. lia. }
    assert (H1 : OI false k (upd_node k (set_sch s') g)).
    { pose proof (OI_set_sch true k s' g Hk HI' ltac:(intros e He; left; auto) H) as X.
      destruct X as (A & B & [C1 C2] & D). split; auto. split; auto. split; auto. split; auto.
      intros _ e He. left. unfold pending in He. rewrite node_at_upd_same in He by exact Lk.
      simpl in He. auto. }
    assert (NK : n_sch (node_at k (upd_node k (set_sch s') g)) = s').
    { rewrite node_at_upd_same; auto. }
    clear Hs'. unfold advance in Ea. destruct (drop_due (g_now g) (events (n_sch (node_at k g))) (tags (n_sch (node_at k g)))) as [evs tg] eqn:Ed.
    inversion Ea; subst s' push. clear Ea.
    destruct evs as [|y r].
    + simpl. apply (OI_rearm_to_SI false k _ Hk H1). intros _ e He. unfold pending in He. rewrite NK in He. destruct He.
    + simpl. assert (Hy : g_now g < fst y) by (apply Hev; simpl; auto).
      assert (Hy' : g_now (upd_node k (set_sch {| events := y :: r; tags := tg |}) g) <= fst y) by (unfold upd_node; simpl; lia).
      pose proof (OI_schedule_self false k (fst y) _ Hk Hy' H1) as H2.
      apply (OI_rearm_to_SI false k _ Hk H2). intros _ e He.
      set (gu := upd_node k (set_sch {| events := y :: r; tags := tg |}) g) in *.
      assert (NP : pending (schedule_node k (fst y) gu) k = y :: r).
      { unfold pending, node_at. destruct (schedule_node_spec k (fst y) gu) as (_ & N2 & _). rewrite N2.
        fold (node_at k gu). rewrite NK. auto. }
      rewrite NP in He.
      assert (Hmin : fst y <= fst e) by (apply (sorted_head_min y r e (proj1 HI') He)).
      destruct H1 as ([L1 _ _ _ _] & _ & [_ C2] & _).
      destruct (schedule_node_slot_self k (fst y) gu ltac:(lia) ltac:(simpl; lia)) as [[S1 _]|[S1 S2]].
      * destruct (schedule_node_spec k (fst y) gu) as (N1 & _). rewrite N1. simpl g_now. rewrite S1. simpl in *. lia.
      * destruct (schedule_node_spec k (fst y) gu) as (N1 & _). rewrite N1. rewrite S1. simpl in *. lia.
  - (* ran for another reason: re-arm from the earliest pending event *)
    destruct H as (A & B & [C1 C2] & D).
    assert (Hev : forall e, In e (pending g k) -> g_now g < fst e).
    { intros e He. destruct (C1 Hc e He) as [X|[X _]]; [auto|discriminate]. }
    destruct (is_scheduled (n_sch (node_at k g))) eqn:Eis.
    + unfold is_scheduled in Eis. unfold next_scheduled_time.
      destruct (events (n_sch (node_at k g))) as [|y r] eqn:Ev; [discriminate|]. simpl first_time.
      assert (Hy : g_now g < fst y) by (apply Hev; unfold pending; rewrite Ev; left; auto).
      assert (H0 : OI false k g) by (split; auto; split; auto; split; auto; split; auto).
      pose proof (OI_schedule_self false k (fst y) g Hk ltac:(lia) H0) as H2.
      apply (OI_rearm_to_SI false k _ Hk H2). intros _ e He.
      assert (NP : pending (schedule_node k (fst y) g) k = y :: r).
      { unfold pending, node_at. destruct (schedule_node_spec k (fst y) g) as (_ & N2 & _). rewrite N2.
        fold (node_at k g). auto. }
      rewrite NP in He.
      assert (Hmin : fst y <= fst e).
      { apply (sorted_head_min y r e); auto. rewrite <- Ev. apply HI. }
      destruct A as [L1 _ _ _ _].
      destruct (schedule_node_slot_self k (fst y) g ltac:(lia) ltac:(lia)) as [[S1 _]|[S1 S2]];
        destruct (schedule_node_spec k (fst y) g) as (N1 & _); rewrite N1, S1; lia.
    + apply (OI_rearm_to_SI false k g Hk).
      * split; auto. split; auto. split; auto. split; auto.
      * intros _ e He. unfold is_scheduled in Eis. unfold pending in He.
        destruct (events (n_sch (node_at k g))); [destruct He|discriminate].
Qed.

(* ---- time does not move inside a cycle ---- *)
Lemma schedule_node_now i w g : g_now (schedule_node i w g) = g_now g.
Proof. destruct (schedule_node_spec i w g) as (N1 & _). exact N1. Qed.

Lemma notify_from_now l j src g : g_now (notify_from l j src g) = g_now g.
Proof.
  revert j g; induction l as [|c r IH]; intros j g; simpl; auto.
  rewrite IH. destruct (_ && _); auto. apply schedule_node_now.
Qed.

Lemma do_op_now i st opi o g : g_now (do_op cfgs i st opi o g) = g_now g.
Proof.
  unfold do_op. destruct (negb (g_err g =? 0)); auto. cbn zeta.
  destruct o; repeat match goal with
    | |- context [if ?b then _ else _] => destruct b
    | |- context [let '(_, _) := ?x in _] => destruct x
    end; simpl; auto;
  try (unfold opt_schedule; match goal with |- context [match ?p with Some _ => _ | None => _ end] => destruct p end; simpl; auto);
  rewrite ?notify_from_now, ?schedule_node_now; auto.
Qed.

Lemma do_ops_now i st os opi g : g_now (do_ops cfgs i st opi os g) = g_now g.
Proof.
  revert opi g; induction os as [|o r IH]; intros opi g; simpl; auto.
  rewrite IH. apply do_op_now.
Qed.

(* ---- the evaluation of one node ---- *)
Lemma eval_node_SI k g :
  well_ranked -> (k < n)%nat -> SI k g -> slot_at k g = g_now g ->
  forall l, let g0 := upd_node k inc_evals (emit l g) in
  g_err (eval_node cfgs beh k g0) = 0 -> SI (S k) (eval_node cfgs beh k g0).
Proof.
  intros WR Hk HS Hslot l g0 Herr.
  pose proof (SI_to_OI k g Hk HS Hslot) as H0.
  set (d := c_sched (cfg k) && is_scheduled_now (g_now g) (n_sch (node_at k g))) in *.
  assert (Lk : (k < length (g_nodes g))%nat) by (destruct HS as ([_ L _ _ _] & _); lia).
  assert (H1 : OI d k g0).
  { unfold g0. apply OI_upd_other; auto. apply OI_emit; auto. }
  assert (Nk : n_sch (node_at k g0) = n_sch (node_at k g)).
  { unfold g0. rewrite node_at_upd_same by (simpl; auto). simpl. reflexivity. }
  assert (Now0 : g_now g0 = g_now g) by reflexivity.
  assert (St : n_started (node_at k g0) = true) by (destruct H1 as ([_ _ _ S _] & _); auto).
  unfold eval_node in *. fold (cfg k) in *. rewrite St in *. simpl negb in *. cbv iota in *.
  rewrite Nk, Now0 in *. fold d in Herr |- *.
  match type of Herr with context [if negb (g_err ?x =? 0) then _ else _] => set (g1 := x) in * end.
  assert (Now1 : g_now g1 = g_now g).
  { unfold g1. destruct (match c_ins (cfg k) with [] => true | _ :: _ => ready (cfg k) g0 end); auto.
    rewrite do_ops_now. reflexivity. }
  destruct (negb (g_err g1 =? 0)) eqn:E1.
  { exfalso. assert (X : g_err g1 = 0) by exact Herr. lia. }
  assert (Herr1 : g_err g1 = 0) by lia.
  assert (H2 : OI d k g1).
  { unfold g1 in *. destruct (match c_ins (cfg k) with [] => true | _ :: _ => ready (cfg k) g0 end); auto.
    apply OI_do_ops; auto. apply OI_emit. apply OI_upd_other; auto. }
  destruct (c_sched (cfg k)) eqn:Hc.
  - pose proof (rearm_done d k g1 Hk H2 Hc) as R. cbn zeta in R. rewrite Now1 in R.
    unfold d in *. simpl andb in *. exact R.
  - apply (OI_rearm_to_SI d k g1 Hk H2). intros X; congruence.
Qed.

Lemma opt_schedule_now i p g : g_now (opt_schedule i p g) = g_now g.
Proof. destruct p; simpl; auto. apply schedule_node_now. Qed.

Lemma eval_node_now i g : g_now (eval_node cfgs beh i g) = g_now g.
Proof.
  unfold eval_node. destruct (negb (n_started (node_at i g))); auto. cbn zeta.
  match goal with |- context [if negb (g_err ?x =? 0) then _ else _] => set (g1 := x) end.
  assert (N1 : g_now g1 = g_now g).
  { unfold g1. destruct (match c_ins (nth i cfgs dflt_cfg) with [] => true | _ :: _ => ready (nth i cfgs dflt_cfg) g end); auto.
    rewrite do_ops_now. reflexivity. }
  destruct (negb (g_err g1 =? 0)); auto.
  destruct (c_sched (nth i cfgs dflt_cfg)); auto. simpl andb.
  destruct (is_scheduled_now (g_now g) (n_sch (node_at i g))).
  - destruct (advance (g_now g) (n_sch (node_at i g1))) as [s' p]. rewrite opt_schedule_now. exact N1.
  - destruct (is_scheduled (n_sch (node_at i g1))); auto. rewrite schedule_node_now. exact N1.
Qed.

Lemma scan_now m : forall i g, g_now (scan cfgs beh i m g) = g_now g.
Proof.
  induction m as [|m IH]; intros i g; simpl; auto.
  destruct (negb (g_err g =? 0)); auto. rewrite IH.
  destruct (slot_at i g =? g_now g).
  - rewrite eval_node_now. reflexivity.
  - destruct (g_now g <? slot_at i g); auto. destruct (slot_at i g <? g_nst g); auto.
Qed.

(* ---- the forward scan ---- *)
Lemma scan_err_sticky i m g : g_err g <> 0 -> scan cfgs beh i m g = g.
Proof. destruct m; simpl; auto. intros H. replace (negb (g_err g =? 0)) with true by lia. auto. Qed.

Lemma scan_SI m : forall k g,
  well_ranked -> (k + m = n)%nat -> SI k g ->
  g_err (scan cfgs beh k m g) = 0 -> SI n (scan cfgs beh k m g).
Proof.
  induction m as [|m IH]; intros k g WR Hkm HS Herr.
  - simpl. replace n with k by lia. exact HS.
  - simpl in *. destruct (negb (g_err g =? 0)) eqn:E0; [lia|].
    set (g' := if slot_at k g =? g_now g then _ else _) in *.
    assert (Herr' : g_err g' = 0).
    { destruct (Z.eq_dec (g_err g') 0); auto. rewrite scan_err_sticky in Herr by auto. contradiction. }
    apply IH; auto; [lia|].
    unfold g' in *. clear g'.
    destruct (slot_at k g =? g_now g) eqn:E1.
    + apply eval_node_SI; auto; lia.
    + destruct HS as (A & B & D).
      destruct (g_now g <? slot_at k g) eqn:E2.
      * (* armed for the future: folded into the cache *)
        assert (X : SI (S k) (mkG (g_now g) (g_slots g) (Z.min (g_nst g) (slot_at k g)) (g_nodes g) (g_log g) (g_err g))).
        { destruct A as [A1 A2 A3 A4 A5]. split; [constructor; simpl; auto; lia|]. split.
          - intros i Hi. destruct (Nat.eq_dec i k) as [->|Hne].
            + split.
              * intros Hc e He. destruct (D k ltac:(lia) Hc e He) as [_ [X|X]]; [unfold slot_at in *; simpl in *; lia|].
                unfold slot_at in *; simpl in *. lia.
              * unfold cache_ok, slot_at; simpl. lia.
            + destruct (B i ltac:(lia)) as [B1 B2]. split; [exact B1|].
              unfold cache_ok, slot_at in *; simpl in *. lia.
          - intros i Hi. apply D. lia. }
        destruct (slot_at k g <? g_nst g) eqn:E3.
        -- assert (Em : Z.min (g_nst g) (slot_at k g) = slot_at k g) by lia. rewrite Em in X. exact X.
        -- assert (Em : Z.min (g_nst g) (slot_at k g) = g_nst g) by lia. rewrite Em in X.
           destruct g; simpl in *. exact X.
      * (* stale slot: nothing to do *)
        split; auto. split.
        -- intros i Hi. destruct (Nat.eq_dec i k) as [->|Hne]; [|apply B; lia]. split.
           ++ intros Hc e He. destruct (D k ltac:(lia) Hc e He) as [_ [X|X]]; lia.
           ++ unfold cache_ok. lia.
        -- intros i Hi. apply D. lia.
Qed.

(* ---- the invariant at cycle boundaries ---- *)
Record boundary (g : gst) : Prop := {
  bd_ls : length (g_slots g) = n;
  bd_ln : length (g_nodes g) = n;
  bd_inv : forall i, (i < n)%nat -> Inv (n_sch (node_at i g));
  bd_started : forall i, (i < n)%nat -> n_started (node_at i g) = true;
  (* the cached next time is no later than any armed slot, which is no later than the node's earliest pending event *)
  bd_armed : forall i, (i < n)%nat -> c_sched (cfg i) = true -> forall e, In e (pending g i) ->
             g_nst g <= slot_at i g /\ slot_at i g <= fst e }.

Lemma evaluate_graph_boundary g :
  well_ranked -> boundary g -> g_err g = 0 -> g_nst g < MAX_DT ->
  let g' := evaluate_graph cfgs beh (g_nst g) g in
  g_err g' = 0 -> boundary g' /\ g_now g' = g_nst g /\ g_now g' < g_nst g'.
Proof.
  intros WR [L1 L2 I S AR] He Hlt g' Herr. unfold g', evaluate_graph in *.
  set (g0 := mkG (g_nst g) (g_slots g) MAX_DT (g_nodes g) ([10; g_nst g] :: g_log g) (g_err g)) in *.
  assert (S0 : SI 0 g0).
  { split; [constructor; simpl; auto|]. split; [intros i Hi; lia|].
    intros i Hi Hc e Hin. unfold pending, node_at, slot_at in *. simpl in *.
    destruct (AR i ltac:(lia) Hc e Hin). lia. }
  pose proof (scan_SI n 0%nat g0 WR ltac:(lia) S0 Herr) as (A & B & _).
  set (gf := scan cfgs beh 0 n g0) in *.
  assert (Hnow : g_now gf = g_nst g) by (unfold gf; rewrite scan_now; reflexivity).
  destruct A as [A1 A2 A3 A4 A5].
  split; [|split; [exact Hnow|exact A5]].
  constructor; auto.
  intros i Hi Hc e Hin. destruct (B i Hi) as [B1 B2]. destruct (B1 Hc e Hin) as [X Y].
  unfold cache_ok in B2. lia.
Qed.

(* ------------------------------------------------------------------ *)
(* The start phase                                                      *)
(* ------------------------------------------------------------------ *)
(* Start hooks that use the node scheduler (the documented way a source initiates
   itself).  Mixing the stateless single-shot injectable with the scheduler inside
   one start hook is excluded: on the faithful model it loses the start-cycle request
   or leaves a stale event behind (replayed on the implementation; DESIGN.md 8.3). *)
Definition start_ops_ok (st : Z) : Prop :=
  forall i ivs s o, In o (beh i (-1) st ivs s) ->
    match o with ORaw _ => False | OSchedule d _ => st + d < MAX_DT | _ => True end.

Definition armed (g : gst) (i : nat) : Prop :=
  c_sched (cfg i) = true -> forall e, In e (pending g i) -> g_now g <= slot_at i g /\ slot_at i g <= fst e.

Record start_ok (k : nat) (g : gst) : Prop := {
  so_ls : length (g_slots g) = n;
  so_ln : length (g_nodes g) = n;
  so_inv : forall i, (i < n)%nat -> Inv (n_sch (node_at i g));
  so_started : forall i, (i < k)%nat -> n_started (node_at i g) = true;
  so_armed : forall i, (i < n)%nat -> armed g i }.

Lemma start_ok_same_core k g g' : same_core g g' -> start_ok k g -> start_ok k g'.
Proof.
  destruct g, g'. unfold same_core; simpl. intros (-> & -> & -> & ->) [A B C D E]. constructor; auto.
Qed.

Lemma evs1_facts tag (s : sched) :
  Inv s ->
  let evs1 := if tag =? 0 then events s else
              match tag_find tag (tags s) with Some w => del (w, tag) (events s) | None => events s end in
  StronglySorted ev_lt evs1 /\ (forall x, In x evs1 -> In x (events s)).
Proof.
  intros [Hs _]. cbn zeta. destruct (tag =? 0); [split; auto|].
  destruct (tag_find tag (tags s)); [|split; auto]. split; [apply sorted_del; auto|intros x; apply del_subset].
Qed.

Lemma start_sched_armed k d tag g :
  (k < n)%nat -> start_ok k g -> c_sched (cfg k) = true -> g_now g + d < MAX_DT ->
  let '(s', push) := schedule (g_now g) false (g_now g + d) tag (n_sch (node_at k g)) in
  start_ok k (opt_schedule k push (upd_node k (set_sch s') g)).
Proof.
  intros Hk [L1 L2 I S A] Hc Hmax.
  set (s := n_sch (node_at k g)). assert (HI : Inv s) by (apply I; auto).
  destruct (schedule (g_now g) false (g_now g + d) tag s) as [s' push] eqn:Es.
  assert (Hs' : s' = fst (schedule (g_now g) false (g_now g + d) tag s)) by (rewrite Es; auto).
  assert (HI' : Inv s') by (rewrite Hs'; apply inv_schedule; auto).
  set (gu := upd_node k (set_sch s') g).
  assert (NK : node_at k gu = set_sch s' (node_at k g)) by (unfold gu; rewrite node_at_upd_same; auto; lia).
  assert (NO : forall i, i <> k -> node_at i gu = node_at i g) by (intros; unfold gu; rewrite node_at_upd_other; auto).
  assert (SU : forall i, slot_at i gu = slot_at i g) by reflexivity.
  assert (FR : forall gf, g_nodes gf = g_nodes gu -> length (g_slots gf) = n ->
               (forall i, i <> k -> slot_at i gf = slot_at i g) -> g_now gf = g_now g ->
               (forall e, In e (events s') -> g_now g <= slot_at k gf /\ slot_at k gf <= fst e) ->
               start_ok k gf).
  { intros gf Hn Hl Hso Hnow Hk'.
    assert (NDf : forall i, node_at i gf = node_at i gu) by (intros; unfold node_at; rewrite Hn; auto).
    constructor; auto.
    - rewrite Hn. unfold gu, upd_node; simpl. rewrite update_length; auto.
    - intros i Hi. rewrite NDf. destruct (Nat.eq_dec i k) as [->|Hne]; [rewrite NK; simpl; auto|rewrite NO; auto].
    - intros i Hi. rewrite NDf. destruct (Nat.eq_dec i k) as [->|Hne]; [rewrite NK; simpl; auto|rewrite NO; auto].
    - intros i Hi Hci e He. unfold pending in He. rewrite NDf in He. rewrite Hnow.
      destruct (Nat.eq_dec i k) as [->|Hne].
      + rewrite NK in He. simpl in He. apply Hk'; auto.
      + rewrite NO in He by auto. rewrite Hso by auto. apply A; auto. }
  destruct (Z_lt_ge_dec (g_now g + d) (g_now g)) as [Hneg|Hpos].
  { (* request in the past: ignored *)
    rewrite schedule_ignored in Es by (simpl; lia). inversion Es. subst push. simpl opt_schedule.
    apply FR; auto. intros e He. apply A; auto. unfold pending. fold s. rewrite H0. exact He. }
  assert (Hacc : ~ (if false then g_now g + d <= g_now g else g_now g + d < g_now g)) by (simpl; lia).
  pose proof (schedule_push (g_now g) false (g_now g + d) tag s HI Hacc) as P. rewrite Es in P. cbn zeta in P. simpl snd in P.
  pose proof (evs1_facts tag s HI) as [Hs1 Hsub]. cbn zeta in Hs1, Hsub.
  set (evs1 := if tag =? 0 then events s else match tag_find tag (tags s) with Some w => del (w, tag) (events s) | None => events s end) in *.
  assert (Hpend : forall x, In x (events s') -> x = (g_now g + d, tag) \/ In x evs1).
  { intros x Hx. rewrite Hs' in Hx. unfold schedule in Hx.
    replace (g_now g + d <? g_now g) with false in Hx by lia. simpl in Hx.
    apply In_ins in Hx. destruct Hx as [->|Hx]; auto. right.
    unfold evs1. destruct (tag =? 0); simpl in Hx; auto. }
  assert (Hfirst : forall x, In x evs1 -> first_time MAX_DT evs1 <= fst x).
  { intros x Hx. destruct evs1 as [|y r]; [destruct Hx|]. simpl. apply (sorted_head_min y r x Hs1 Hx). }
  destruct (g_now g + d <? first_time MAX_DT evs1) eqn:Ep; subst push; simpl opt_schedule.
  - (* the earliest moved earlier: pushed to the graph *)
    destruct (schedule_node_spec k (g_now g + d) gu) as (N1 & N2 & _ & _ & _).
    apply FR; auto.
    + rewrite schedule_node_len. exact L1.
    + intros i Hne. rewrite schedule_node_slot_other by auto. apply SU.
    + intros e He.
      assert (Hge : g_now g + d <= fst e).
      { destruct (Hpend e He) as [->|Hin]; [simpl; lia|]. specialize (Hfirst e Hin). lia. }
      destruct (schedule_node_slot_self k (g_now g + d) gu ltac:(unfold gu, upd_node; simpl; lia) ltac:(unfold gu, upd_node; simpl; lia)) as [[S1 _]|[S1 S2]].
      * rewrite S1. lia.
      * rewrite S1. change (g_now gu) with (g_now g) in S2. rewrite SU in *. lia.
  - (* not earlier than what is already armed *)
    apply FR; auto.
    intros e He.
    destruct evs1 as [|y r] eqn:Ee; [simpl in Ep; lia|].
    assert (Hy : In y (events s)) by (apply Hsub; left; auto).
    destruct (A k Hk Hc y Hy) as [Y1 Y2]. rewrite SU.
    destruct (Hpend e He) as [->|Hin].
    + simpl in *. lia.
    + destruct (A k Hk Hc e (Hsub e Hin)); auto.
Qed.

Lemma start_set_sch_sub k s' g :
  (k < n)%nat -> start_ok k g -> Inv s' ->
  (forall e, In e (events s') -> In e (events (n_sch (node_at k g)))) ->
  start_ok k (upd_node k (set_sch s') g).
Proof.
  intros Hk [L1 L2 I S A] HI' Hsub.
  assert (NK : node_at k (upd_node k (set_sch s') g) = set_sch s' (node_at k g)) by (rewrite node_at_upd_same; auto; lia).
  assert (NO : forall i, i <> k -> node_at i (upd_node k (set_sch s') g) = node_at i g) by (intros; rewrite node_at_upd_other; auto).
  constructor; auto.
  - unfold upd_node; simpl. rewrite update_length; auto.
  - intros i Hi. destruct (Nat.eq_dec i k) as [->|Hne]; [rewrite NK; simpl; auto|rewrite NO; auto].
  - intros i Hi. destruct (Nat.eq_dec i k) as [->|Hne]; [rewrite NK; simpl; auto|rewrite NO; auto].
  - intros i Hi Hc e He. unfold pending in He.
    destruct (Nat.eq_dec i k) as [->|Hne].
    + rewrite NK in He. simpl in He. apply (A k Hk Hc e). apply Hsub; auto.
    + rewrite NO in He by auto. apply A; auto.
Qed.

Lemma start_ok_upd_other k i f g :
  (forall x, n_sch (f x) = n_sch x) -> (forall x, n_started x = true -> n_started (f x) = true) ->
  start_ok k g -> start_ok k (upd_node i f g).
Proof.
  intros Hs Hst [L1 L2 I St A].
  assert (NA : forall j, n_sch (node_at j (upd_node i f g)) = n_sch (node_at j g)).
  { intros j. destruct (Nat.eq_dec i j) as [->|Hne]; [|rewrite node_at_upd_other; auto].
    destruct (Nat.lt_ge_cases j (length (g_nodes g))).
    - rewrite node_at_upd_same by lia. apply Hs.
    - unfold node_at, upd_node; simpl. rewrite !nth_overflow; auto. rewrite update_length; auto. }
  constructor; auto.
  - unfold upd_node; simpl. rewrite update_length; auto.
  - intros j Hj. rewrite NA; auto.
  - intros j Hj. destruct (Nat.eq_dec i j) as [->|Hne]; [|rewrite node_at_upd_other; auto].
    destruct (Nat.lt_ge_cases j (length (g_nodes g))).
    + rewrite node_at_upd_same by lia. apply Hst; auto.
    + assert (E : node_at j (upd_node j f g) = node_at j g).
      { unfold node_at, upd_node; simpl. rewrite !nth_overflow; auto. rewrite update_length; auto. }
      rewrite E. auto.
  - intros j Hj Hc e He. unfold pending in *. rewrite NA in He. apply A; auto.
Qed.

Lemma start_do_op k opi o g :
  (k < n)%nat -> start_ok k g ->
  match o with ORaw _ => False | OSchedule d _ => g_now g + d < MAX_DT | _ => True end ->
  start_ok k (do_op cfgs k false opi o g).
Proof.
  intros Hk H Hok. unfold do_op. destruct (negb (g_err g =? 0)); auto. fold (cfg k). cbn zeta.
  assert (HI : Inv (n_sch (node_at k g))) by (destruct H as [_ _ I _ _]; auto).
  destruct o; try contradiction.
  - destruct (c_sched (cfg k)) eqn:Hc; auto.
    pose proof (start_sched_armed k delta tag g Hk H Hc Hok) as X.
    destruct (schedule (g_now g) false (g_now g + delta) tag (n_sch (node_at k g))) as [s' push].
    eapply start_ok_same_core; [|exact X]. repeat split.
  - destruct (c_sched (cfg k)); auto. apply (start_ok_same_core k (upd_node k (set_sch (un_schedule_tag tag (n_sch (node_at k g)))) g)); [repeat split|].
    apply start_set_sch_sub; auto. apply inv_un_schedule_tag; auto. intros e; apply un_schedule_tag_sub.
  - destruct (c_sched (cfg k)); auto. apply (start_ok_same_core k (upd_node k (set_sch (un_schedule_first (n_sch (node_at k g)))) g)); [repeat split|].
    apply start_set_sch_sub; auto. apply inv_un_schedule_first; auto. intros e; apply un_schedule_first_sub.
  - destruct (c_sched (cfg k)); auto.
    destruct (pop_tag tag MIN_DT (n_sch (node_at k g))) as [s' w] eqn:Es.
    assert (Hs' : s' = fst (pop_tag tag MIN_DT (n_sch (node_at k g)))) by (rewrite Es; auto).
    apply (start_ok_same_core k (upd_node k (set_sch s') g)); [repeat split|].
    apply start_set_sch_sub; auto; rewrite Hs'. apply inv_pop_tag; auto. intros e; apply pop_tag_sub.
  - destruct (c_sched (cfg k)); auto. apply (start_ok_same_core k (upd_node k (set_sch (reset (n_sch (node_at k g)))) g)); [repeat split|].
    apply start_set_sch_sub; auto. apply inv_reset. intros e [].
  - replace (c_out (cfg k) && false) with false by (destruct (c_out (cfg k)); auto). auto.
  - apply (start_ok_same_core k g); [repeat split|auto].
  - destruct (is_list_entry _ _); apply start_ok_upd_other; auto.
  - destruct (is_list_entry _ _); apply start_ok_upd_other; auto.
  - replace (c_out (cfg k) && false) with false by (destruct (c_out (cfg k)); auto). auto.
  - auto.
Qed.

Lemma start_do_ops k os : forall opi g,
  (k < n)%nat -> start_ok k g ->
  (forall o, In o os -> match o with ORaw _ => False | OSchedule d _ => g_now g + d < MAX_DT | _ => True end) ->
  start_ok k (do_ops cfgs k false opi os g).
Proof.
  induction os as [|o r IH]; intros opi g Hk H Hok; simpl; auto.
  apply IH; auto.
  - apply start_do_op; auto. apply Hok; left; auto.
  - intros o' Ho'. rewrite do_op_now. apply Hok; right; auto.
Qed.

Lemma start_node_ok k g :
  start_ops_ok (g_now g) -> (k < n)%nat -> start_ok k g ->
  g_err (start_node cfgs beh k g) = 0 -> start_ok (S k) (start_node cfgs beh k g).
Proof.
  intros SO Hk H. unfold start_node. fold (cfg k).
  destruct (negb (g_err g =? 0)) eqn:E0; [intros; lia|]. cbn zeta.
  set (ga := upd_node k (set_act (map i_active (c_ins (cfg k)))) g).
  assert (Ha : start_ok k ga) by (apply start_ok_upd_other; auto).
  set (ops := beh k (-1) (g_now ga) (read_inputs (cfg k) ga) (n_sch (node_at k ga))).
  assert (H1 : start_ok k (do_ops cfgs k false 0 ops ga)).
  { apply start_do_ops; auto. intros o Ho. apply (SO k _ _ o Ho). }
  set (g1 := do_ops cfgs k false 0 ops ga) in *.
  destruct (negb (g_err g1 =? 0)) eqn:E1; [intros; lia|].
  destruct H1 as [L1 L2 I St A].
  set (g2 := upd_node k set_started g1).
  assert (NK : node_at k g2 = set_started (node_at k g1)) by (unfold g2; rewrite node_at_upd_same; auto; lia).
  assert (NO : forall i, i <> k -> node_at i g2 = node_at i g1) by (intros; unfold g2; rewrite node_at_upd_other; auto).
  assert (H2 : start_ok (S k) g2).
  { constructor; auto.
    - unfold g2, upd_node; simpl. rewrite update_length; auto.
    - intros i Hi. destruct (Nat.eq_dec i k) as [->|Hne]; [rewrite NK; simpl; auto|rewrite NO; auto].
    - intros i Hi. destruct (Nat.eq_dec i k) as [->|Hne]; [rewrite NK; simpl; auto|rewrite NO by auto; apply St; lia].
    - intros i Hi Hc e He. unfold pending in He.
      destruct (Nat.eq_dec i k) as [->|Hne]; [rewrite NK in He; simpl in He|rewrite NO in He by auto]; apply A; auto. }
  destruct (c_sos (cfg k)); auto. intros _.
  (* schedule_on_start: the slot becomes the start time *)
  destruct H2 as [M1 M2 MI MS MA].
  destruct (schedule_node_spec k (g_now g2) g2) as (N1 & N2 & _ & _ & N4). specialize (N4 ltac:(lia)).
  destruct N4 as (_ & Y & _).
  assert (AP : sn_applies k (g_now g2) g2 = true) by (unfold sn_applies; lia).
  destruct (Y AP) as [YS _].
  assert (ND : forall i, node_at i (schedule_node k (g_now g2) g2) = node_at i g2) by (intros; unfold node_at; rewrite N2; auto).
  assert (SK : slot_at k (schedule_node k (g_now g2) g2) = g_now g2).
  { unfold slot_at. rewrite YS. apply slot_at_set_same. lia. }
  constructor; auto.
  - rewrite schedule_node_len; auto.
  - rewrite N2; auto.
  - intros i Hi. rewrite ND; auto.
  - intros i Hi. rewrite ND; auto.
  - intros i Hi Hc e He. unfold pending in He. rewrite ND in He. rewrite N1.
    destruct (Nat.eq_dec i k) as [->|Hne].
    + rewrite SK. destruct (MA k Hk Hc e He). lia.
    + rewrite schedule_node_slot_other by auto. apply MA; auto.
Qed.

Lemma start_nodes_now m : forall i g, g_now (start_nodes cfgs beh i m g) = g_now g.
Proof.
  induction m as [|m IH]; intros i g; simpl; auto. rewrite IH. unfold start_node.
  destruct (negb (g_err g =? 0)); auto. cbn zeta.
  match goal with |- context [do_ops cfgs i false 0 ?o ?ga] => set (ops := o); set (gA := ga) end.
  assert (NA : g_now gA = g_now g) by reflexivity.
  destruct (negb (g_err (do_ops cfgs i false 0 ops gA) =? 0)); [rewrite do_ops_now; exact NA|].
  destruct (c_sos (nth i cfgs dflt_cfg)); [rewrite schedule_node_now|]; simpl; rewrite do_ops_now; exact NA.
Qed.

Lemma start_nodes_err_sticky m : forall i g, g_err g <> 0 -> start_nodes cfgs beh i m g = g.
Proof.
  induction m as [|m IH]; intros i g H; simpl; auto.
  assert (E : start_node cfgs beh i g = g) by (unfold start_node; replace (negb (g_err g =? 0)) with true by lia; auto).
  rewrite E. apply IH; auto.
Qed.

Lemma start_nodes_ok m : forall k g,
  start_ops_ok (g_now g) -> (k + m = n)%nat -> start_ok k g ->
  g_err (start_nodes cfgs beh k m g) = 0 -> start_ok n (start_nodes cfgs beh k m g).
Proof.
  induction m as [|m IH]; intros k g SO Hkm H Herr; simpl in *.
  - replace n with k by lia. exact H.
  - assert (E : g_err (start_node cfgs beh k g) = 0).
    { destruct (Z.eq_dec (g_err (start_node cfgs beh k g)) 0); auto.
      rewrite start_nodes_err_sticky in Herr by auto. contradiction. }
    apply IH; auto; [|lia|apply start_node_ok; auto; lia].
    assert (Nn : g_now (start_node cfgs beh k g) = g_now g) by (apply (start_nodes_now 1 k g)).
    rewrite Nn. exact SO.
Qed.

(* seed_cache: the minimum of the slots that are not in the past *)
Lemma seed_fold_le now l : forall acc,
  fold_left (fun a sc => if (now <=? sc) && (sc <? a) then sc else a) l acc <= acc /\
  (forall x, In x l -> now <= x -> fold_left (fun a sc => if (now <=? sc) && (sc <? a) then sc else a) l acc <= x).
Proof.
  induction l as [|y r IH]; intros acc; simpl.
  - split; [lia|intros x []].
  - destruct (IH (if (now <=? y) && (y <? acc) then y else acc)) as [I1 I2]. split.
    + destruct ((now <=? y) && (y <? acc)) eqn:E; lia.
    + intros x [->|Hx] Hn; [|apply I2; auto].
      destruct ((now <=? x) && (x <? acc)) eqn:E; lia.
Qed.

Lemma start_graph_boundary start :
  start_ops_ok start -> start <= MAX_DT -> g_err (start_graph cfgs beh start) = 0 ->
  boundary (start_graph cfgs beh start) /\ g_now (start_graph cfgs beh start) = start /\
  start <= g_nst (start_graph cfgs beh start).
Proof.
  intros SO HsM. unfold start_graph.
  set (g0 := mkG start (repeat MIN_DT n) MAX_DT (repeat init_n n) [] 0).
  assert (H0 : start_ok 0 g0).
  { constructor; simpl; try apply repeat_length.
    - intros i Hi. unfold node_at; simpl. rewrite nth_repeat. apply inv_empty.
    - intros i Hi; lia.
    - intros i Hi Hc e He. unfold pending, node_at in He; simpl in He. rewrite nth_repeat in He. destruct He. }
  set (g1 := start_nodes cfgs beh 0 n g0).
  destruct (negb (g_err g1 =? 0)) eqn:E1; [intros; lia|]. intros _.
  assert (Herr1 : g_err g1 = 0) by lia.
  pose proof (start_nodes_ok n 0%nat g0 SO ltac:(lia) H0 Herr1) as [L1 L2 I St A]. fold g1 in L1, L2, I, St, A.
  assert (Now1 : g_now g1 = start) by (unfold g1; rewrite start_nodes_now; reflexivity).
  unfold seed_cache. simpl.
  destruct (seed_fold_le (g_now g1) (g_slots g1) MAX_DT) as [F1 F2].
  split; [|split; [exact Now1|]].
  - constructor; auto.
    intros i Hi Hc e He. unfold pending, node_at, slot_at in *. simpl in *.
    destruct (A i Hi Hc e He) as [X1 X2]. split; auto.
    apply F2; auto. apply nth_In. lia.
  - (* the seeded cache is not in the past *)
    assert (HM : g_now g1 <= MAX_DT) by lia. rewrite <- Now1. clear - HM.
    assert (G : forall l acc, g_now g1 <= acc -> g_now g1 <= fold_left (fun a sc => if (g_now g1 <=? sc) && (sc <? a) then sc else a) l acc).
    { induction l as [|y r IH]; intros acc Ha; simpl; auto. apply IH. destruct ((g_now g1 <=? y) && (y <? acc)) eqn:E; lia. }
    apply G. exact HM.
Qed.

(* ------------------------------------------------------------------ *)
(* The simulation run loop                                              *)
(* ------------------------------------------------------------------ *)
Fixpoint cycle_times (end_ : Z) (fuel : nat) (g : gst) : list Z :=
  match fuel with
  | O => []
  | S f =>
      if negb (g_err g =? 0) then [] else
      let next := g_nst g in
      if (next =? MAX_DT) || (end_ <=? next) then [] else
      next :: cycle_times end_ f (evaluate_graph cfgs beh next g)
  end.

Lemma run_loop_err_sticky end_ fuel g : g_err g <> 0 -> g_err (run_loop cfgs beh end_ fuel g) <> 0.
Proof.
  destruct fuel; simpl; intros H.
  - lia.
  - replace (negb (g_err g =? 0)) with true by lia. auto.
Qed.

Lemma run_loop_inv end_ fuel : forall g,
  well_ranked -> end_ <= MAX_DT -> boundary g -> g_err g = 0 ->
  let gf := run_loop cfgs beh end_ fuel g in
  g_err gf = 0 ->
  boundary gf /\
  (forall t, In t (cycle_times end_ fuel g) -> g_nst g <= t < end_) /\
  StronglySorted Z.lt (cycle_times end_ fuel g).
Proof.
  induction fuel as [|f IH]; intros g WR HE B He gf Hf; unfold gf in *; simpl in *.
  - lia.
  - rewrite He in *. simpl in *.
    destruct ((g_nst g =? MAX_DT) || (end_ <=? g_nst g)) eqn:Estop.
    + split; auto. split; [intros t []|constructor].
    + set (g' := evaluate_graph cfgs beh (g_nst g) g) in *.
      assert (Herr' : g_err g' = 0).
      { destruct (Z.eq_dec (g_err g') 0); auto. exfalso. apply (run_loop_err_sticky end_ f g'); auto. }
      assert (Hmax : g_nst g < MAX_DT) by lia.
      destruct (evaluate_graph_boundary g WR B He Hmax Herr') as (B' & Hnow & Hgt). fold g' in B', Hnow, Hgt.
      destruct (IH g' WR HE B' Herr' Hf) as (BF & CT & SS).
      split; auto. split.
      * intros t [<-|Ht]; [lia|]. specialize (CT t Ht). lia.
      * constructor; auto. apply Forall_forall. intros t Ht. specialize (CT t Ht). lia.
Qed.

(* ---- what the boundary invariant says, in the property's words ---- *)

(* C02/C18: the next cycle is never later than any pending scheduler event of any node *)
Lemma no_pending_skipped g i e :
  boundary g -> (i < n)%nat -> c_sched (cfg i) = true -> In e (pending g i) -> g_nst g <= fst e.
Proof. intros B Hi Hc He. destruct (bd_armed g B i Hi Hc e He). lia. Qed.

(* C02/C18: when the next cycle is exactly a pending event's time, that node's slot is that time,
   i.e. the scan will evaluate it in that cycle *)
Lemma due_slot_is_now g i e :
  boundary g -> (i < n)%nat -> c_sched (cfg i) = true -> In e (pending g i) -> fst e = g_nst g ->
  slot_at i g = g_nst g.
Proof. intros B Hi Hc He Heq. destruct (bd_armed g B i Hi Hc e He). lia. Qed.

(* C18: after a cycle at t no event with time <= t is still pending: every due event was consumed *)
Lemma due_events_consumed g :
  well_ranked -> boundary g -> g_err g = 0 -> g_nst g < MAX_DT ->
  let g' := evaluate_graph cfgs beh (g_nst g) g in
  g_err g' = 0 ->
  forall i e, (i < n)%nat -> c_sched (cfg i) = true -> In e (pending g' i) -> g_nst g < fst e.
Proof.
  intros WR B He Hlt g' Herr i e Hi Hc Hin.
  destruct (evaluate_graph_boundary g WR B He Hlt Herr) as (B' & Hnow & Hgt). fold g' in B', Hnow, Hgt.
  destruct (bd_armed g' B' i Hi Hc e Hin). lia.
Qed.

(* C02: the whole simulation run *)
Theorem sim_run_invariant start end_ fuel :
  well_ranked -> start_ops_ok start -> start <= MAX_DT -> end_ <= MAX_DT ->
  let g0 := start_graph cfgs beh start in
  let gf := run_sim cfgs beh start end_ fuel in
  g_err gf = 0 ->
  boundary g0 /\ boundary gf /\
  (forall t, In t (cycle_times end_ fuel g0) -> start <= t < end_) /\
  StronglySorted Z.lt (cycle_times end_ fuel g0).
Proof.
  intros WR SO Hs He g0 gf Hf. unfold gf, run_sim in *. fold g0 in Hf |- *.
  assert (E0 : g_err g0 = 0).
  { destruct (Z.eq_dec (g_err g0) 0); auto. exfalso. apply (run_loop_err_sticky end_ fuel g0); auto. }
  destruct (start_graph_boundary start SO Hs E0) as (B0 & Hnow & Hnst). fold g0 in B0, Hnow, Hnst.
  destruct (run_loop_inv end_ fuel g0 WR He B0 E0 Hf) as (BF & CT & SS).
  split; auto. split; auto. split; auto.
  intros t Ht. specialize (CT t Ht). lia.
Qed.

End EngineInv.

(* ------------------------------------------------------------------ *)
(* The cycle lines of the observable log are exactly [cycle_times]      *)
(* ------------------------------------------------------------------ *)
Definition is10 (l : line) : bool := match l with 10 :: _ => true | _ => false end.
Definition log10 (g : gst) : list line := filter is10 (g_log g).

Section Log.
Variable cfgs : list ncfg.
Variable beh : behaviour.

Lemma log10_emit l g : is10 l = false -> log10 (emit l g) = log10 g.
Proof. intros H. unfold log10, emit; simpl. rewrite H. auto. Qed.

Lemma log10_schedule_node i w g : log10 (schedule_node i w g) = log10 g.
Proof. unfold log10. destruct (schedule_node_spec i w g) as (_ & _ & L & _). rewrite L. auto. Qed.

Lemma log10_opt_schedule i p g : log10 (opt_schedule i p g) = log10 g.
Proof. destruct p; simpl; auto. apply log10_schedule_node. Qed.

Lemma log10_notify l : forall j src g, log10 (notify_from l j src g) = log10 g.
Proof.
  induction l as [|c r IH]; intros j src g; simpl; auto.
  rewrite IH. destruct (_ && _); auto. apply log10_schedule_node.
Qed.

Lemma log10_do_op i st opi o g : log10 (do_op cfgs i st opi o g) = log10 g.
Proof.
  unfold do_op. destruct (negb (g_err g =? 0)); auto. cbn zeta.
  destruct o; repeat match goal with
    | |- context [if ?b then _ else _] => destruct b
    | |- context [let '(_, _) := ?x in _] => destruct x
    end; auto;
  rewrite ?log10_emit by reflexivity; rewrite ?log10_opt_schedule, ?log10_notify, ?log10_schedule_node; auto.
Qed.

Lemma log10_do_ops i st os : forall opi g, log10 (do_ops cfgs i st opi os g) = log10 g.
Proof. induction os as [|o r IH]; intros opi g; simpl; auto. rewrite IH. apply log10_do_op. Qed.

Lemma log10_eval_node i g : log10 (eval_node cfgs beh i g) = log10 g.
Proof.
  unfold eval_node. destruct (negb (n_started (node_at i g))); auto. cbn zeta.
  match goal with |- context [if negb (g_err ?x =? 0) then _ else _] => set (g1 := x) end.
  assert (N1 : log10 g1 = log10 g).
  { unfold g1. destruct (match c_ins (nth i cfgs dflt_cfg) with [] => true | _ :: _ => ready (nth i cfgs dflt_cfg) g end); auto.
    rewrite log10_do_ops. rewrite log10_emit by reflexivity. reflexivity. }
  destruct (negb (g_err g1 =? 0)); auto.
  destruct (c_sched (nth i cfgs dflt_cfg)); auto. simpl andb.
  destruct (is_scheduled_now (g_now g) (n_sch (node_at i g))).
  - destruct (advance (g_now g) (n_sch (node_at i g1))) as [s' p]. rewrite log10_opt_schedule. exact N1.
  - destruct (is_scheduled (n_sch (node_at i g1))); auto. rewrite log10_schedule_node. exact N1.
Qed.

Lemma log10_scan m : forall i g, log10 (scan cfgs beh i m g) = log10 g.
Proof.
  induction m as [|m IH]; intros i g; simpl; auto.
  destruct (negb (g_err g =? 0)); auto. rewrite IH.
  destruct (slot_at i g =? g_now g).
  - rewrite log10_eval_node. reflexivity.
  - destruct (g_now g <? slot_at i g); auto. destruct (slot_at i g <? g_nst g); auto.
Qed.

Lemma log10_evaluate_graph t g : log10 (evaluate_graph cfgs beh t g) = [10; t] :: log10 g.
Proof. unfold evaluate_graph. rewrite log10_scan. reflexivity. Qed.

(* the cycle lines, oldest first, written after a state g by the rest of the run *)
Lemma log10_run_loop end_ fuel : forall g,
  g_err (run_loop cfgs beh end_ fuel g) = 0 ->
  rev (log10 (run_loop cfgs beh end_ fuel g)) =
  rev (log10 g) ++ map (fun t => [10; t]) (cycle_times cfgs beh end_ fuel g).
Proof.
  induction fuel as [|f IH]; intros g Hf; simpl in *.
  - lia.
  - destruct (negb (g_err g =? 0)) eqn:E0; [simpl; rewrite app_nil_r; auto|].
    destruct ((g_nst g =? MAX_DT) || (end_ <=? g_nst g)); [simpl; rewrite app_nil_r; auto|].
    rewrite IH by auto. rewrite log10_evaluate_graph. simpl. rewrite <- app_assoc. reflexivity.
Qed.

Lemma log10_start_graph start : log10 (start_graph cfgs beh start) = [].
Proof.
  unfold start_graph. set (g0 := mkG _ _ _ _ _ _).
  assert (G : forall m i g, log10 (start_nodes cfgs beh i m g) = log10 g).
  { induction m as [|m IH]; intros i g; simpl; auto. rewrite IH. unfold start_node.
    destruct (negb (g_err g =? 0)); auto. cbn zeta.
    match goal with |- context [do_ops cfgs i false 0 ?o ?ga] => set (ops := o); set (gA := ga) end.
    assert (NA : log10 gA = log10 g) by reflexivity.
    destruct (negb (g_err (do_ops cfgs i false 0 ops gA) =? 0)); [rewrite log10_do_ops; exact NA|].
    destruct (c_sos (nth i cfgs dflt_cfg)); [rewrite log10_schedule_node|]; unfold log10 at 1; simpl; fold (log10 (do_ops cfgs i false 0 ops gA)); rewrite log10_do_ops; exact NA. }
  destruct (negb (g_err _ =? 0)); [rewrite G; reflexivity|].
  unfold seed_cache, log10; simpl. fold (log10 (start_nodes cfgs beh 0 (length cfgs) g0)). rewrite G. reflexivity.
Qed.

(* C02: the cycle lines the model prints (and the implementation is compared against) are [cycle_times] *)
Theorem observed_cycles start end_ fuel :
  g_err (run_sim cfgs beh start end_ fuel) = 0 ->
  rev (log10 (run_sim cfgs beh start end_ fuel)) =
  map (fun t => [10; t]) (cycle_times cfgs beh end_ fuel (start_graph cfgs beh start)).
Proof.
  intros H. unfold run_sim in *. rewrite log10_run_loop by auto. rewrite log10_start_graph. reflexivity.
Qed.
End Log.

(* ---- statements in the shape the property files use ---- *)
Lemma sim_times_strict_l cfgs beh start end_ fuel :
  well_ranked cfgs -> start_ops_ok beh start -> start <= MAX_DT -> end_ <= MAX_DT ->
  g_err (run_sim cfgs beh start end_ fuel) = 0 ->
  (forall t, In t (cycle_times cfgs beh end_ fuel (start_graph cfgs beh start)) -> start <= t < end_) /\
  StronglySorted Z.lt (cycle_times cfgs beh end_ fuel (start_graph cfgs beh start)).
Proof. intros WR SO A B H. destruct (sim_run_invariant cfgs beh start end_ fuel WR SO A B H) as (_ & _ & X & Y). split; auto. Qed.

Lemma boundary_always_l cfgs beh start end_ fuel :
  well_ranked cfgs -> start_ops_ok beh start -> start <= MAX_DT -> end_ <= MAX_DT ->
  g_err (run_sim cfgs beh start end_ fuel) = 0 ->
  boundary cfgs (start_graph cfgs beh start) /\ boundary cfgs (run_sim cfgs beh start end_ fuel).
Proof. intros WR SO A B H. destruct (sim_run_invariant cfgs beh start end_ fuel WR SO A B H) as (X & Y & _). split; auto. Qed.

(* ------------------------------------------------------------------ *)
(* Activation and readiness (C03)                                       *)
(* ------------------------------------------------------------------ *)
Section Activation.
Variable cfgs : list ncfg.
Variable beh : behaviour.

Lemma node_at_schedule_node i w j g : node_at j (schedule_node i w g) = node_at j g.
Proof. unfold node_at. destruct (schedule_node_spec i w g) as (_ & N & _). rewrite N. auto. Qed.

Lemma node_at_opt_schedule i p j g : node_at j (opt_schedule i p g) = node_at j g.
Proof. destruct p; simpl; auto. apply node_at_schedule_node. Qed.

Lemma node_at_notify l : forall j src k g, node_at k (notify_from l j src g) = node_at k g.
Proof.
  induction l as [|c r IH]; intros j src k g; simpl; auto.
  rewrite IH. destruct (_ && _); auto. apply node_at_schedule_node.
Qed.

Lemma node_at_emit l j g : node_at j (emit l g) = node_at j g.
Proof. reflexivity. Qed.

Lemma runs_upd i f j g :
  (forall x, n_runs (f x) = n_runs x) -> n_runs (node_at j (upd_node i f g)) = n_runs (node_at j g).
Proof.
  intros H. unfold node_at, upd_node; simpl.
  destruct (Nat.eq_dec i j) as [->|Hne].
  - destruct (Nat.lt_ge_cases j (length (g_nodes g))).
    + rewrite nth_update_same by auto. apply H.
    + rewrite !nth_overflow; auto. rewrite update_length; auto.
  - rewrite nth_update_other; auto.
Qed.

Lemma do_op_runs i st opi o j g : n_runs (node_at j (do_op cfgs i st opi o g)) = n_runs (node_at j g).
Proof.
  unfold do_op. destruct (negb (g_err g =? 0)); auto. cbn zeta.
  destruct o.
  - destruct (c_sched _); auto. destruct (schedule _ _ _ _ _) as [s' p].
    rewrite node_at_emit, node_at_opt_schedule. apply runs_upd; auto.
  - destruct (c_sched _); auto. rewrite node_at_emit. apply runs_upd; auto.
  - destruct (c_sched _); auto. rewrite node_at_emit. apply runs_upd; auto.
  - destruct (c_sched _); auto. destruct (pop_tag _ _ _) as [s' w]. rewrite node_at_emit. apply runs_upd; auto.
  - destruct (c_sched _); auto. rewrite node_at_emit. apply runs_upd; auto.
  - destruct (_ && _); auto. rewrite node_at_emit, node_at_notify. apply runs_upd; auto.
  - apply f_equal. apply node_at_schedule_node.
  - reflexivity.
  - destruct (is_list_entry _ _); apply runs_upd; auto.
  - destruct (is_list_entry _ _); apply runs_upd; auto.
  - destruct (_ && _); auto. destruct (n_val (node_at i g)); auto.
    rewrite node_at_emit, node_at_notify. apply runs_upd; auto.
  - reflexivity.
Qed.

Lemma do_ops_runs i st os : forall opi j g, n_runs (node_at j (do_ops cfgs i st opi os g)) = n_runs (node_at j g).
Proof. induction os as [|o r IH]; intros opi j g; simpl; auto. rewrite IH. apply do_op_runs. Qed.

(* node.cpp ready_to_evaluate, as a statement about the producers' outputs: a slot required valid has a
   producer holding a value (for a list slot: one of its two producers), and every element of a slot in the
   all-valid selector holds a value *)
Lemma has_val_iff g p : has_val g p = true <-> n_val (node_at p g) <> None.
Proof. unfold has_val. destruct (n_val (node_at p g)); split; intros; congruence. Qed.

Lemma read_valid_iff g s : v_valid (read_input g s) = true <-> n_val (node_at (i_src s) g) <> None.
Proof. unfold read_input. destruct (n_val (node_at (i_src s) g)); simpl; split; intros; congruence. Qed.

Definition slot_has_value (g : gst) (s : inspec) : Prop :=
  n_val (node_at (i_src s) g) <> None \/ exists m, i_mate s = Some m /\ n_val (node_at m g) <> None.

Lemma slot_valid_iff g s : slot_valid g s = true <-> slot_has_value g s.
Proof.
  unfold slot_valid, slot_has_value. destruct (i_mate s) as [m|].
  - rewrite orb_true_iff, read_valid_iff, has_val_iff. split.
    + intros [H|H]; [left; auto|right; exists m; auto].
    + intros [H|(m' & E & H)]; [left; auto|right; inversion E; subst; auto].
  - rewrite read_valid_iff. split; [auto|]. intros [H|(m' & E & _)]; [auto|discriminate].
Qed.

Lemma ready_iff c g :
  ready c g = true <->
  forall s, In s (c_ins c) ->
    ((c_vmode c = 0 \/ i_req s = true) -> slot_has_value g s) /\
    (i_all s = true -> n_val (node_at (i_src s) g) <> None).
Proof.
  unfold ready. rewrite forallb_forall. split; intros H s Hs; specialize (H s Hs).
  - apply andb_true_iff in H. destruct H as [H1 H2]. split.
    + intros Hr.
      assert (Et : (c_vmode c =? 0) || i_req s = true) by (destruct Hr as [Hr|Hr]; rewrite Hr; [reflexivity|apply orb_true_r]).
      rewrite Et in H1. apply slot_valid_iff; auto.
    + intros Ha. rewrite Ha in H2. apply read_valid_iff; auto.
  - destruct H as [H1 H2]. apply andb_true_iff. split.
    + destruct ((c_vmode c =? 0) || i_req s) eqn:E; auto.
      apply slot_valid_iff. apply H1. destruct (c_vmode c =? 0) eqn:Ev; [left; lia|right]. simpl in E. exact E.
    + destruct (i_all s) eqn:Ea; auto. apply read_valid_iff. auto.
Qed.

(* user code of a node runs in its evaluation exactly when the node is started and its
   required inputs are valid (a node without inputs is always ready) *)
Lemma eval_node_runs_iff i g :
  let c := nth i cfgs dflt_cfg in
  (i < length (g_nodes g))%nat ->
  (n_runs (node_at i (eval_node cfgs beh i g)) = n_runs (node_at i g) + 1 <->
     n_started (node_at i g) = true /\ (c_ins c = [] \/ ready c g = true)) /\
  (n_runs (node_at i (eval_node cfgs beh i g)) = n_runs (node_at i g) \/
   n_runs (node_at i (eval_node cfgs beh i g)) = n_runs (node_at i g) + 1).
Proof.
  intros c Hi.
  assert (TAIL : forall g1 (b : bool),
     n_runs (node_at i (if negb (g_err g1 =? 0) then g1 else
        if c_sched c then
          (if b then let '(s', push) := advance (g_now g) (n_sch (node_at i g1)) in opt_schedule i push (upd_node i (set_sch s') g1)
           else if is_scheduled (n_sch (node_at i g1)) then schedule_node i (next_scheduled_time (n_sch (node_at i g1))) g1 else g1)
        else g1)) = n_runs (node_at i g1)).
  { intros g1 b. destruct (negb (g_err g1 =? 0)); auto. destruct (c_sched c); auto. destruct b.
    - destruct (advance _ _) as [s' p]. rewrite node_at_opt_schedule. apply runs_upd; auto.
    - destruct (is_scheduled _); auto. rewrite node_at_schedule_node. auto. }
  unfold eval_node. fold c.
  destruct (n_started (node_at i g)) eqn:St; simpl negb; cbv iota.
  2:{ split; [split; [lia|intros [X _]; discriminate]|left; auto]. }
  cbn zeta. rewrite TAIL.
  destruct (c_ins c) as [|s0 r] eqn:Ec.
  - rewrite do_ops_runs, node_at_emit, node_at_upd_same by auto. simpl.
    split; [split; [intros _; split; auto|lia]|right; auto].
  - destruct (ready c g) eqn:Er.
    + rewrite do_ops_runs, node_at_emit, node_at_upd_same by auto. simpl.
      split; [split; [intros _; split; auto|lia]|right; auto].
    + split; [split; [lia|intros [_ [X|X]]; discriminate]|left; auto].
Qed.

(* notifications reach only nodes that have an input bound to the emitting node which is
   ACTIVE at that moment (declared active and not made passive at run time, or made active) *)
Lemma notify_only_active l : forall j src g k,
  slot_at k (notify_from l j src g) <> slot_at k g ->
  exists m c, nth_error l m = Some c /\ k = (j + m)%nat /\
              exists s a, In (s, a) (combine (c_ins c) (n_act (node_at k g))) /\ i_src s = src /\ a = true.
Proof.
  induction l as [|c r IH]; intros j src g k H; simpl in H; [congruence|].
  destruct (existsb (fun sa => (i_src (fst sa) =? src)%nat && snd sa) (combine (c_ins c) (n_act (node_at j g))) && n_started (node_at j g)) eqn:E.
  - destruct (Nat.eq_dec k j) as [->|Hne].
    + exists 0%nat, c. split; auto. split; [lia|]. apply andb_true_iff in E. destruct E as [E _].
      apply existsb_exists in E. destruct E as [[s a] [Hs Es]]. simpl in Es. exists s, a. split; auto. split; [lia|].
      destruct a; auto. rewrite andb_false_r in Es. discriminate.
    + destruct (IH (S j) src (schedule_node j (g_now g) g) k) as (m & c' & A & B & s & a & C1 & C2 & C3).
      * rewrite (schedule_node_slot_other j k (g_now g) g) by auto. exact H.
      * exists (S m), c'. split; auto. split; [lia|]. exists s, a. rewrite node_at_schedule_node in C1. auto.
  - destruct (IH (S j) src g k H) as (m & c' & A & B & C).
    exists (S m), c'. split; auto. split; auto. lia.
Qed.
End Activation.

(* what a consumer reads is the producer's state: valid iff it has a value, modified iff written this cycle *)
Lemma read_input_spec g s :
  let p := node_at (i_src s) g in
  let v := read_input g s in
  (v_valid v = true <-> n_val p <> None) /\
  (v_valid v = true -> v_mod v = true <-> n_lmt p = g_now g) /\
  (forall x, n_val p = Some x -> v_val v = x) /\ v_lmt v = n_lmt p.
Proof.
  cbn zeta. unfold read_input. destruct (n_val (node_at (i_src s) g)) as [x|]; simpl.
  - split; [split; [congruence|auto]|]. split; [intros _; lia|]. split; auto. intros y Hy; inversion Hy; auto.
  - split; [split; [discriminate|congruence]|]. split; [discriminate|]. split; auto. discriminate.
Qed.

(* an invalidation withdraws the value: from then on (until the next write) every input bound to the
   output reads "not valid", so [ready] fails for every consumer that requires it *)
Lemma invalidate_withdraws cfgs i opi g :
  g_err g = 0 -> c_out (nth i cfgs dflt_cfg) = true -> (i < length (g_nodes g))%nat ->
  n_val (node_at i (do_op cfgs i true opi OInvalidate g)) = None.
Proof.
  intros He Hc Hi. unfold do_op. rewrite He. simpl. rewrite Hc. simpl.
  destruct (n_val (node_at i g)) eqn:Ev.
  - rewrite node_at_emit, node_at_notify. rewrite node_at_upd_same by auto. reflexivity.
  - rewrite node_at_emit. exact Ev.
Qed.

Lemma invalid_input_blocks_user_code c g s :
  In s (c_ins c) -> (c_vmode c = 0 \/ i_req s = true) -> i_mate s = None ->
  n_val (node_at (i_src s) g) = None -> ready c g = false.
Proof.
  intros Hs Hr Hm Hn. destruct (ready c g) eqn:E; auto.
  exfalso. destruct (proj1 (ready_iff c g) E s Hs) as [H1 _].
  destruct (H1 Hr) as [H|(m & Em & _)]; [auto|congruence].
Qed.

(* a slot in the all-valid selector blocks user code while ANY of its elements holds no value *)
Lemma unset_element_blocks_user_code c g s :
  In s (c_ins c) -> i_all s = true -> n_val (node_at (i_src s) g) = None -> ready c g = false.
Proof.
  intros Hs Ha Hn. destruct (ready c g) eqn:E; auto.
  exfalso. destruct (proj1 (ready_iff c g) E s Hs) as [_ H2]. apply (H2 Ha). exact Hn.
Qed.

(* ------------------------------------------------------------------ *)
(* The forward scan: at most once per cycle, producers first (C01)      *)
(* ------------------------------------------------------------------ *)
Section ScanOrder.
Variable cfgs : list ncfg.
Variable beh : behaviour.

Lemma node_at_upd_node_other i f p g : p <> i -> node_at p (upd_node i f g) = node_at p g.
Proof. intros H. apply node_at_upd_other. auto. Qed.

(* user code of node i touches no other node's state *)
Lemma do_op_other i st opi o p g : p <> i -> node_at p (do_op cfgs i st opi o g) = node_at p g.
Proof.
  intros Hp. unfold do_op. destruct (negb (g_err g =? 0)); auto. cbn zeta.
  destruct o.
  - destruct (c_sched _); auto. destruct (schedule _ _ _ _ _) as [s' q].
    rewrite node_at_emit, node_at_opt_schedule. apply node_at_upd_node_other; auto.
  - destruct (c_sched _); auto. rewrite node_at_emit. apply node_at_upd_node_other; auto.
  - destruct (c_sched _); auto. rewrite node_at_emit. apply node_at_upd_node_other; auto.
  - destruct (c_sched _); auto. destruct (pop_tag _ _ _) as [s' w]. rewrite node_at_emit. apply node_at_upd_node_other; auto.
  - destruct (c_sched _); auto. rewrite node_at_emit. apply node_at_upd_node_other; auto.
  - destruct (_ && _); auto. rewrite node_at_emit, node_at_notify. apply node_at_upd_node_other; auto.
  - apply node_at_schedule_node.
  - reflexivity.
  - destruct (is_list_entry _ _); apply node_at_upd_node_other; auto.
  - destruct (is_list_entry _ _); apply node_at_upd_node_other; auto.
  - destruct (_ && _); auto. destruct (n_val (node_at i g)); auto.
    rewrite node_at_emit, node_at_notify. apply node_at_upd_node_other; auto.
  - reflexivity.
Qed.

Lemma do_ops_other i st os : forall opi p g, p <> i -> node_at p (do_ops cfgs i st opi os g) = node_at p g.
Proof. induction os as [|o r IH]; intros opi p g Hp; simpl; auto. rewrite IH by auto. apply do_op_other; auto. Qed.

Lemma eval_node_other i p g : p <> i -> node_at p (eval_node cfgs beh i g) = node_at p g.
Proof.
  intros Hp. unfold eval_node. destruct (negb (n_started (node_at i g))); auto. cbn zeta.
  assert (TAIL : forall g1 (b : bool),
     node_at p (if negb (g_err g1 =? 0) then g1 else
        if c_sched (nth i cfgs dflt_cfg) then
          (if b then let '(s', push) := advance (g_now g) (n_sch (node_at i g1)) in opt_schedule i push (upd_node i (set_sch s') g1)
           else if is_scheduled (n_sch (node_at i g1)) then schedule_node i (next_scheduled_time (n_sch (node_at i g1))) g1 else g1)
        else g1) = node_at p g1).
  { intros g1 b. destruct (negb (g_err g1 =? 0)); auto. destruct (c_sched _); auto. destruct b.
    - destruct (advance _ _) as [s' q]. rewrite node_at_opt_schedule. apply node_at_upd_node_other; auto.
    - destruct (is_scheduled _); auto. apply node_at_schedule_node. }
  rewrite TAIL.
  destruct (match c_ins (nth i cfgs dflt_cfg) with [] => true | _ => ready (nth i cfgs dflt_cfg) g end); auto.
  rewrite do_ops_other by auto. rewrite node_at_emit. apply node_at_upd_node_other; auto.
Qed.

(* nothing but the scan itself counts a graph-level evaluation *)
Lemma do_op_evals i st opi o p g : n_evals (node_at p (do_op cfgs i st opi o g)) = n_evals (node_at p g).
Proof.
  destruct (Nat.eq_dec p i) as [->|Hp]; [|rewrite do_op_other; auto].
  unfold do_op. destruct (negb (g_err g =? 0)); auto. cbn zeta.
  assert (U : forall f g0, (forall x, n_evals (f x) = n_evals x) -> n_evals (node_at i (upd_node i f g0)) = n_evals (node_at i g0)).
  { intros f g0 Hf. unfold node_at, upd_node; simpl. destruct (Nat.lt_ge_cases i (length (g_nodes g0))).
    - rewrite nth_update_same by auto. apply Hf.
    - rewrite !nth_overflow; auto. rewrite update_length; auto. }
  destruct o.
  - destruct (c_sched _); auto. destruct (schedule _ _ _ _ _) as [s' q].
    rewrite node_at_emit, node_at_opt_schedule. apply U; auto.
  - destruct (c_sched _); auto. rewrite node_at_emit. apply U; auto.
  - destruct (c_sched _); auto. rewrite node_at_emit. apply U; auto.
  - destruct (c_sched _); auto. destruct (pop_tag _ _ _) as [s' w]. rewrite node_at_emit. apply U; auto.
  - destruct (c_sched _); auto. rewrite node_at_emit. apply U; auto.
  - destruct (_ && _); auto. rewrite node_at_emit, node_at_notify. apply U; auto.
  - apply f_equal. apply node_at_schedule_node.
  - reflexivity.
  - destruct (is_list_entry _ _); apply U; auto.
  - destruct (is_list_entry _ _); apply U; auto.
  - destruct (_ && _); auto. destruct (n_val (node_at i g)); auto.
    rewrite node_at_emit, node_at_notify. apply U; auto.
  - reflexivity.
Qed.

Lemma do_ops_evals i st os : forall opi p g, n_evals (node_at p (do_ops cfgs i st opi os g)) = n_evals (node_at p g).
Proof. induction os as [|o r IH]; intros opi p g; simpl; auto. rewrite IH. apply do_op_evals. Qed.

Lemma eval_node_evals i p g : n_evals (node_at p (eval_node cfgs beh i g)) = n_evals (node_at p g).
Proof.
  destruct (Nat.eq_dec p i) as [->|Hp]; [|rewrite eval_node_other; auto].
  unfold eval_node. destruct (negb (n_started (node_at i g))); auto. cbn zeta.
  assert (U : forall f g0, (forall x, n_evals (f x) = n_evals x) -> n_evals (node_at i (upd_node i f g0)) = n_evals (node_at i g0)).
  { intros f g0 Hf. unfold node_at, upd_node; simpl. destruct (Nat.lt_ge_cases i (length (g_nodes g0))).
    - rewrite nth_update_same by auto. apply Hf.
    - rewrite !nth_overflow; auto. rewrite update_length; auto. }
  assert (TAIL : forall g1 (b : bool),
     n_evals (node_at i (if negb (g_err g1 =? 0) then g1 else
        if c_sched (nth i cfgs dflt_cfg) then
          (if b then let '(s', push) := advance (g_now g) (n_sch (node_at i g1)) in opt_schedule i push (upd_node i (set_sch s') g1)
           else if is_scheduled (n_sch (node_at i g1)) then schedule_node i (next_scheduled_time (n_sch (node_at i g1))) g1 else g1)
        else g1)) = n_evals (node_at i g1)).
  { intros g1 b. destruct (negb (g_err g1 =? 0)); auto. destruct (c_sched _); auto. destruct b.
    - destruct (advance _ _) as [s' q]. rewrite node_at_opt_schedule. apply U; auto.
    - destruct (is_scheduled _); auto. apply f_equal. apply node_at_schedule_node. }
  rewrite TAIL.
  destruct (match c_ins (nth i cfgs dflt_cfg) with [] => true | _ => ready (nth i cfgs dflt_cfg) g end); auto.
  rewrite do_ops_evals. rewrite node_at_emit. apply U; auto.
Qed.

Lemma len_upd_node i f g : length (g_nodes (upd_node i f g)) = length (g_nodes g).
Proof. unfold upd_node; simpl. apply update_length. Qed.

Lemma len_schedule_node i w g : length (g_nodes (schedule_node i w g)) = length (g_nodes g).
Proof. destruct (schedule_node_spec i w g) as (_ & N & _). rewrite N. auto. Qed.

Lemma len_opt_schedule i q g : length (g_nodes (opt_schedule i q g)) = length (g_nodes g).
Proof. destruct q; simpl; auto. apply len_schedule_node. Qed.

Lemma len_notify l : forall j src g, length (g_nodes (notify_from l j src g)) = length (g_nodes g).
Proof. induction l as [|c r IH]; intros j src g; simpl; auto. rewrite IH. destruct (_ && _); auto. apply len_schedule_node. Qed.

Lemma len_do_op i st opi o g : length (g_nodes (do_op cfgs i st opi o g)) = length (g_nodes g).
Proof.
  unfold do_op. destruct (negb (g_err g =? 0)); auto. cbn zeta.
  destruct o.
  - destruct (c_sched _); auto. destruct (schedule _ _ _ _ _) as [s' q]. simpl. rewrite len_opt_schedule. apply len_upd_node.
  - destruct (c_sched _); auto. simpl. apply update_length.
  - destruct (c_sched _); auto. simpl. apply update_length.
  - destruct (c_sched _); auto. destruct (pop_tag _ _ _) as [s' w]. simpl. apply update_length.
  - destruct (c_sched _); auto. simpl. apply update_length.
  - destruct (_ && _); auto. simpl. rewrite len_notify. apply len_upd_node.
  - apply len_schedule_node.
  - reflexivity.
  - destruct (is_list_entry _ _); apply len_upd_node.
  - destruct (is_list_entry _ _); apply len_upd_node.
  - destruct (_ && _); auto. destruct (n_val (node_at i g)); auto. simpl. rewrite len_notify. apply len_upd_node.
  - reflexivity.
Qed.

Lemma len_do_ops i st os : forall opi g, length (g_nodes (do_ops cfgs i st opi os g)) = length (g_nodes g).
Proof. induction os as [|o r IH]; intros opi g; simpl; auto. rewrite IH. apply len_do_op. Qed.

Lemma len_eval_node i g : length (g_nodes (eval_node cfgs beh i g)) = length (g_nodes g).
Proof.
  unfold eval_node. destruct (negb (n_started (node_at i g))); auto. cbn zeta.
  assert (TAIL : forall g1 (b : bool),
     length (g_nodes (if negb (g_err g1 =? 0) then g1 else
        if c_sched (nth i cfgs dflt_cfg) then
          (if b then let '(s', push) := advance (g_now g) (n_sch (node_at i g1)) in opt_schedule i push (upd_node i (set_sch s') g1)
           else if is_scheduled (n_sch (node_at i g1)) then schedule_node i (next_scheduled_time (n_sch (node_at i g1))) g1 else g1)
        else g1)) = length (g_nodes g1)).
  { intros g1 b. destruct (negb (g_err g1 =? 0)); auto. destruct (c_sched _); auto. destruct b.
    - destruct (advance _ _) as [s' q]. rewrite len_opt_schedule. apply len_upd_node.
    - destruct (is_scheduled _); auto. apply len_schedule_node. }
  rewrite TAIL.
  destruct (match c_ins (nth i cfgs dflt_cfg) with [] => true | _ => ready (nth i cfgs dflt_cfg) g end); auto.
  rewrite len_do_ops. simpl. apply update_length.
Qed.

(* The scan from index k leaves every node before k untouched: a node that has had its
   turn keeps its state (output value, last-modified time, counters) to the end of the
   cycle - so what a later consumer reads is the producer's final value for the cycle. *)
Lemma scan_prefix_final m : forall k g p, (p < k)%nat -> node_at p (scan cfgs beh k m g) = node_at p g.
Proof.
  induction m as [|m IH]; intros k g p Hp; simpl; auto.
  destruct (negb (g_err g =? 0)); auto. rewrite IH by lia.
  destruct (slot_at k g =? g_now g).
  - rewrite eval_node_other by lia. rewrite node_at_upd_node_other by lia. reflexivity.
  - destruct (g_now g <? slot_at k g); auto. destruct (slot_at k g <? g_nst g); auto.
Qed.

(* and no node at or after k is counted more than once by the scan from k *)
Lemma scan_evals_le m : forall k g p,
  (p < length (g_nodes g))%nat ->
  n_evals (node_at p g) <= n_evals (node_at p (scan cfgs beh k m g)) <= n_evals (node_at p g) + (if (k <=? p)%nat then 1 else 0).
Proof.
  induction m as [|m IH]; intros k g p Hl; simpl.
  - destruct (k <=? p)%nat; lia.
  - destruct (negb (g_err g =? 0)); [destruct (k <=? p)%nat; lia|].
    set (g' := if slot_at k g =? g_now g then _ else _).
    assert (Hl' : (p < length (g_nodes g'))%nat).
    { unfold g'. destruct (slot_at k g =? g_now g).
      - rewrite len_eval_node. unfold upd_node; simpl. rewrite update_length. exact Hl.
      - destruct (g_now g <? slot_at k g); auto. destruct (slot_at k g <? g_nst g); auto. }
    specialize (IH (S k) g' p Hl').
    assert (E : n_evals (node_at p g') = n_evals (node_at p g) + (if (slot_at k g =? g_now g) && (p =? k)%nat then 1 else 0)).
    { unfold g'. destruct (slot_at k g =? g_now g) eqn:Es; simpl.
      - rewrite eval_node_evals. destruct (Nat.eq_dec p k) as [->|Hne].
        + rewrite Nat.eqb_refl. rewrite node_at_upd_same by (simpl; auto). simpl. reflexivity.
        + replace (p =? k)%nat with false by (symmetry; apply Nat.eqb_neq; auto).
          rewrite node_at_upd_node_other by auto. rewrite node_at_emit. lia.
      - destruct (g_now g <? slot_at k g); [destruct (slot_at k g <? g_nst g)|]; simpl; unfold node_at; simpl; lia. }
    destruct (Nat.leb_spec k p), (Nat.leb_spec (S k) p); destruct (slot_at k g =? g_now g); simpl in E;
      try (destruct (Nat.eqb_spec p k)); simpl in E; try lia.
Qed.
End ScanOrder.

(* ---- C01 statements in the shape the property file uses ---- *)
Lemma evaluated_at_most_once_l cfgs beh t g p :
  (p < length (g_nodes g))%nat ->
  n_evals (node_at p g) <= n_evals (node_at p (evaluate_graph cfgs beh t g)) <= n_evals (node_at p g) + 1.
Proof.
  intros H. unfold evaluate_graph.
  set (g0 := mkG t (g_slots g) MAX_DT (g_nodes g) ([10; t] :: g_log g) (g_err g)).
  pose proof (scan_evals_le cfgs beh (length cfgs) 0%nat g0 p H) as X.
  simpl in X. exact X.
Qed.

Lemma producers_final_l cfgs beh i s m g :
  well_ranked cfgs -> (i < length cfgs)%nat -> In s (c_ins (cfg cfgs i)) ->
  node_at (i_src s) (scan cfgs beh i m g) = node_at (i_src s) g.
Proof. intros WR Hi Hs. apply scan_prefix_final. apply (WR i s Hi Hs). Qed.

Lemma notify_only_later_l cfgs src g k :
  well_ranked cfgs -> slot_at k (notify_from cfgs 0 src g) <> slot_at k g -> (src < k)%nat.
Proof.
  intros WR H. destruct (notify_only_active cfgs 0%nat src g k H) as (m & c & A & B & s & a & C1 & C2 & C3).
  simpl in B. subst m. apply in_combine_l in C1.
  assert (Hk : (k < length cfgs)%nat) by (apply nth_error_Some; rewrite A; discriminate).
  assert (Hc : c = cfg cfgs k) by (unfold cfg; symmetry; apply nth_error_nth; auto).
  subst c. pose proof (WR k s Hk C1). lia.
Qed.


(* ------------------------------------------------------------------ *)
(* Why a node is evaluated in a cycle (C03, "exactly when")             *)
(* ------------------------------------------------------------------ *)
Section Cause.
Variable cfgs : list ncfg.
Variable beh : behaviour.
Notation n := (length cfgs).

(* node i has, right now, an active input bound to node p *)
Definition act_from (g : gst) (i p : nat) : bool :=
  existsb (fun sa => (i_src (fst sa) =? p)%nat && snd sa) (combine (c_ins (cfg cfgs i)) (n_act (node_at i g))).

(* effect of notify_from on the slots: exactly the started nodes with an active input from src become due now *)
Lemma notify_slots l : forall j src g k,
  length (g_slots g) = n ->
  (forall m c, nth_error l m = Some c -> (j + m < n)%nat /\ c = cfg cfgs (j + m)) ->
  slot_at k (notify_from l j src g) =
    if (j <=? k)%nat && (k <? j + length l)%nat && act_from g k src && n_started (node_at k g)
    then g_now g else slot_at k g.
Proof.
  induction l as [|c r IH]; intros j src g k Hlen Hl; simpl.
  - replace ((j <=? k)%nat && (k <? j + 0)%nat) with false by lia. reflexivity.
  - destruct (Hl 0%nat c eq_refl) as [Hj Hc]. rewrite Nat.add_0_r in Hj, Hc.
    set (g' := if _ && _ then schedule_node j (g_now g) g else g).
    assert (Nn : g_now g' = g_now g) by (unfold g'; destruct (_ && _); auto; apply schedule_node_now).
    assert (Nd : forall q, node_at q g' = node_at q g) by (intros q; unfold g'; destruct (_ && _); auto; apply node_at_schedule_node).
    assert (Nl : length (g_slots g') = n) by (unfold g'; destruct (_ && _); auto; rewrite schedule_node_len; auto).
    rewrite IH; auto.
    2:{ intros m c' Hm. destruct (Hl (S m) c' Hm) as [A B]. replace (S j + m)%nat with (j + S m)%nat by lia. auto. }
    unfold act_from. rewrite !Nd, Nn.
    destruct (Nat.eq_dec k j) as [->|Hne].
    + replace ((S j <=? j)%nat && (j <? S j + length r)%nat) with false by lia.
      replace ((j <=? j)%nat && (j <? j + S (length r))%nat) with true by lia. simpl.
      unfold g'. rewrite Hc.
      match goal with |- context [if ?b then schedule_node _ _ _ else _] => destruct b eqn:E end; auto.
      destruct (schedule_node_spec j (g_now g) g) as (_ & _ & _ & _ & N4). specialize (N4 ltac:(lia)).
      destruct N4 as (_ & Y & _). assert (AP : sn_applies j (g_now g) g = true) by (unfold sn_applies; lia).
      destruct (Y AP) as [YS _]. unfold slot_at. rewrite YS. apply slot_at_set_same. lia.
    + replace ((j <=? k)%nat && (k <? j + S (length r))%nat) with ((S j <=? k)%nat && (k <? S j + length r)%nat) by lia.
      assert (Sk : slot_at k g' = slot_at k g).
      { unfold g'. destruct (_ && _); auto. apply schedule_node_slot_other; auto. }
      rewrite Sk. reflexivity.
Qed.

Lemma notify_slots_all src g k :
  length (g_slots g) = n -> (k < n)%nat ->
  slot_at k (notify_from cfgs 0 src g) = if act_from g k src && n_started (node_at k g) then g_now g else slot_at k g.
Proof.
  intros Hl Hk. rewrite notify_slots; auto.
  - replace ((0 <=? k)%nat && (k <? 0 + n)%nat) with true by lia. reflexivity.
  - intros m c Hm. apply (cfgs_nth_error cfgs m c Hm).
Qed.

(* One operation of node i: another node's slot changes only by an emit, and then exactly as above.
   [w] records whether node i has written its output so far in this evaluation. *)
Definition wrote (g : gst) (i : nat) : bool := n_lmt (node_at i g) =? g_now g.

Lemma do_op_slot_other i opi o g k :
  length (g_slots g) = n -> length (g_nodes g) = n -> (i < n)%nat -> (k < n)%nat -> k <> i ->
  let g' := do_op cfgs i true opi o g in
  length (g_slots g') = n /\ length (g_nodes g') = n /\ node_at k g' = node_at k g /\
  ( (slot_at k g' = slot_at k g /\ wrote g' i = wrote g i) \/
    (wrote g' i = true /\ slot_at k g' = if act_from g k i && n_started (node_at k g) then g_now g else slot_at k g) ).
Proof.
  intros Hls Hln Hi Hk Hne. cbn zeta.
  assert (Hother : node_at k (do_op cfgs i true opi o g) = node_at k g) by (apply do_op_other; auto).
  assert (Hlen2 : length (g_nodes (do_op cfgs i true opi o g)) = n) by (rewrite len_do_op; auto).
  unfold do_op in *. destruct (negb (g_err g =? 0)); [repeat split; auto|]. cbn zeta in *.
  assert (SU : forall f, slot_at k (upd_node i f g) = slot_at k g) by reflexivity.
  assert (WS : forall s', wrote (upd_node i (set_sch s') g) i = wrote g i).
  { intros s'. unfold wrote. rewrite node_at_upd_same by lia. reflexivity. }
  destruct o.
  - (* OSchedule *)
    destruct (c_sched _); [|repeat split; auto].
    destruct (schedule _ _ _ _ _) as [s' q]. split; [|split; [auto|split; [auto|left]]].
    + simpl. destruct q; simpl; rewrite ?schedule_node_len; auto.
    + split.
      * unfold slot_at at 1. simpl g_slots. fold (slot_at k (opt_schedule i q (upd_node i (set_sch s') g))).
        destruct q; simpl; [rewrite schedule_node_slot_other by auto|]; apply SU.
      * unfold wrote. rewrite node_at_emit, node_at_opt_schedule. simpl g_now.
        destruct q; simpl; rewrite ?schedule_node_now; apply WS.
  - destruct (c_sched _); repeat split; auto. left. split; [reflexivity|]. unfold wrote. rewrite node_at_emit. apply WS.
  - destruct (c_sched _); repeat split; auto. left. split; [reflexivity|]. unfold wrote. rewrite node_at_emit. apply WS.
  - destruct (c_sched _); [|repeat split; auto]. destruct (pop_tag _ _ _) as [s' w]. repeat split; auto.
    left. split; [reflexivity|]. unfold wrote. rewrite node_at_emit. apply WS.
  - destruct (c_sched _); repeat split; auto. left. split; [reflexivity|]. unfold wrote. rewrite node_at_emit. apply WS.
  - (* OEmit *)
    destruct (c_out _ && true) eqn:Eo; [|repeat split; auto].
    set (v := a + sum_valid (read_inputs (nth i cfgs dflt_cfg) g)).
    set (g1 := upd_node i (set_out v (g_now g)) g).
    assert (L1 : length (g_slots g1) = n) by (unfold g1; auto).
    split; [|split; [auto|split; [auto|right]]].
    + unfold emit; simpl. clear - L1. assert (G : forall l j src g0, length (g_slots (notify_from l j src g0)) = length (g_slots g0)).
      { induction l as [|c r IH]; intros j src g0; simpl; auto. rewrite IH. destruct (_ && _); auto. apply schedule_node_len. }
      rewrite G. exact L1.
    + split.
      * unfold wrote. rewrite node_at_emit, node_at_notify. unfold g1. rewrite node_at_upd_same by lia. simpl.
        rewrite notify_from_now. simpl. lia.
      * unfold slot_at at 1. simpl g_slots. fold (slot_at k (notify_from cfgs 0 i g1)).
        rewrite notify_slots_all; auto. unfold act_from, g1. rewrite node_at_upd_node_other by auto. reflexivity.
  - (* ORaw *) split; [rewrite schedule_node_len; auto|]. split; [auto|]. split; [auto|left]. split.
    + apply schedule_node_slot_other; auto.
    + unfold wrote. rewrite node_at_schedule_node, schedule_node_now. reflexivity.
  - repeat split; auto.
  - (* OMakePassive *) destruct (is_list_entry _ _);
    (split; [auto|]; split; [auto|]; split; [auto|left]; split; [reflexivity|];
     unfold wrote; rewrite node_at_upd_same by lia; reflexivity).
  - destruct (is_list_entry _ _);
    (split; [auto|]; split; [auto|]; split; [auto|left]; split; [reflexivity|];
     unfold wrote; rewrite node_at_upd_same by lia; reflexivity).
  - (* OInvalidate: with a value it notifies exactly like a write *)
    destruct (c_out _ && true) eqn:Eo; [|repeat split; auto].
    destruct (n_val (node_at i g)) eqn:Ev; [|repeat split; auto].
    set (g1 := upd_node i (set_inv (g_now g)) g).
    assert (L1 : length (g_slots g1) = n) by (unfold g1; auto).
    split; [|split; [auto|split; [auto|right]]].
    + unfold emit; simpl. clear - L1. assert (G : forall l j src g0, length (g_slots (notify_from l j src g0)) = length (g_slots g0)).
      { induction l as [|c r IH]; intros j src g0; simpl; auto. rewrite IH. destruct (_ && _); auto. apply schedule_node_len. }
      rewrite G. exact L1.
    + split.
      * unfold wrote. rewrite node_at_emit, node_at_notify. unfold g1. rewrite node_at_upd_same by lia. simpl.
        rewrite notify_from_now. simpl. lia.
      * unfold slot_at at 1. simpl g_slots. fold (slot_at k (notify_from cfgs 0 i g1)).
        rewrite notify_slots_all; auto. unfold act_from, g1. rewrite node_at_upd_node_other by auto. reflexivity.
  - repeat split; auto.
Qed.

Lemma do_ops_slot_other i os : forall opi g k,
  length (g_slots g) = n -> length (g_nodes g) = n -> (i < n)%nat -> (k < n)%nat -> k <> i ->
  let A := act_from g k i && n_started (node_at k g) in
  (wrote g i = true -> A = true -> slot_at k g = g_now g) ->
  let gf := do_ops cfgs i true opi os g in
  length (g_slots gf) = n /\ length (g_nodes gf) = n /\ node_at k gf = node_at k g /\
  (wrote g i = true -> wrote gf i = true) /\
  slot_at k gf = (if wrote gf i && A then g_now g else slot_at k g).
Proof.
  induction os as [|o r IH]; intros opi g k Hls Hln Hi Hk Hne A HP gf; unfold gf; simpl.
  - repeat split; auto. destruct (wrote g i) eqn:W; simpl; auto. destruct A eqn:EA; auto.
  - destruct (do_op_slot_other i opi o g k Hls Hln Hi Hk Hne) as (L1 & L2 & Nk & D).
    set (g1 := do_op cfgs i true opi o g) in *.
    assert (Now1 : g_now g1 = g_now g) by apply do_op_now.
    assert (A1 : act_from g1 k i && n_started (node_at k g1) = A) by (unfold act_from; rewrite Nk; reflexivity).
    assert (HP1 : wrote g1 i = true -> act_from g1 k i && n_started (node_at k g1) = true -> slot_at k g1 = g_now g1).
    { rewrite A1, Now1. intros W1 EA. destruct D as [[S W]|[W S]].
      - rewrite S. apply HP; auto. rewrite <- W; auto.
      - rewrite S. fold A. rewrite EA. reflexivity. }
    destruct (IH (opi + 1) g1 k L1 L2 Hi Hk Hne HP1) as (M1 & M2 & M3 & M4 & M5).
    rewrite A1, Now1 in M5.
    split; auto. split; auto. split; [rewrite M3; auto|]. split.
    + intros W. apply M4. destruct D as [[_ W']|[W' _]]; [rewrite W'; auto|auto].
    + rewrite M5. destruct D as [[S W]|[W S]].
      * rewrite S. reflexivity.
      * rewrite (M4 W). simpl. rewrite S. fold A. destruct A; reflexivity.
Qed.

(* the evaluation of node i: any other node's slot becomes "now" exactly when i wrote and that node has an
   active input bound to i; otherwise it is untouched *)
Lemma eval_node_slot_other i g k :
  length (g_slots g) = n -> length (g_nodes g) = n -> (i < n)%nat -> (k < n)%nat -> k <> i ->
  wrote g i = false ->
  let gf := eval_node cfgs beh i g in
  length (g_slots gf) = n /\ length (g_nodes gf) = n /\ node_at k gf = node_at k g /\
  slot_at k gf = (if wrote gf i && act_from g k i && n_started (node_at k g) then g_now g else slot_at k g).
Proof.
  intros Hls Hln Hi Hk Hne W gf. unfold gf.
  assert (Nk : node_at k (eval_node cfgs beh i g) = node_at k g) by (apply eval_node_other; auto).
  assert (L2 : length (g_nodes (eval_node cfgs beh i g)) = n) by (rewrite len_eval_node; auto).
  unfold eval_node in *. destruct (negb (n_started (node_at i g))).
  { repeat split; auto. rewrite W. reflexivity. }
  cbn zeta in *.
  (* the tail (advance / re-arm) touches only node i's slot and scheduler state *)
  assert (TAIL : forall g1 (b : bool), length (g_slots g1) = n -> length (g_nodes g1) = n ->
     let gt := (if negb (g_err g1 =? 0) then g1 else
        if c_sched (nth i cfgs dflt_cfg) then
          (if b then let '(s', push) := advance (g_now g) (n_sch (node_at i g1)) in opt_schedule i push (upd_node i (set_sch s') g1)
           else if is_scheduled (n_sch (node_at i g1)) then schedule_node i (next_scheduled_time (n_sch (node_at i g1))) g1 else g1)
        else g1) in
     length (g_slots gt) = n /\ slot_at k gt = slot_at k g1 /\ wrote gt i = wrote g1 i).
  { intros g1 b H1 H2. cbn zeta. destruct (negb (g_err g1 =? 0)); [auto|]. destruct (c_sched _); [|auto]. destruct b.
    - destruct (advance (g_now g) (n_sch (node_at i g1))) as [s' q].
      assert (WU : wrote (upd_node i (set_sch s') g1) i = wrote g1 i).
      { unfold wrote. rewrite node_at_upd_same by lia. reflexivity. }
      destruct q; cbn [opt_schedule].
      + split; [rewrite schedule_node_len; auto|]. split; [rewrite schedule_node_slot_other by auto; reflexivity|].
        unfold wrote in *. rewrite node_at_schedule_node, schedule_node_now. exact WU.
      + split; [auto|]. split; [reflexivity|]. exact WU.
    - destruct (is_scheduled (n_sch (node_at i g1))); [|auto]. split; [rewrite schedule_node_len; auto|].
      split; [apply schedule_node_slot_other; auto|]. unfold wrote. rewrite node_at_schedule_node, schedule_node_now. reflexivity. }
  set (c := nth i cfgs dflt_cfg) in *.
  destruct (match c_ins c with [] => true | _ :: _ => ready c g end).
  - match goal with |- context [do_ops cfgs i true 0 ?o ?gb0] => set (ops := o) in *; set (gb := gb0) in * end.
    assert (Lb1 : length (g_slots gb) = n) by (unfold gb; auto).
    assert (Lb2 : length (g_nodes gb) = n) by (unfold gb; simpl; rewrite update_length; auto).
    assert (Wb : wrote gb i = false).
    { unfold wrote, gb. rewrite node_at_emit, node_at_upd_same by lia. exact W. }
    assert (Nkb : node_at k gb = node_at k g) by (unfold gb; rewrite node_at_emit; apply node_at_upd_node_other; auto).
    destruct (do_ops_slot_other i ops 0 gb k Lb1 Lb2 Hi Hk Hne) as (M1 & M2 & M3 & _ & M5).
    { rewrite Wb. discriminate. }
    set (g1 := do_ops cfgs i true 0 ops gb) in *.
    destruct (TAIL g1 (c_sched c && is_scheduled_now (g_now g) (n_sch (node_at i g))) M1 M2) as (T1 & T2 & T3).
    split; [exact T1|]. split; [exact L2|]. split; [exact Nk|].
    rewrite T2, T3, M5. unfold act_from. rewrite Nkb. rewrite Bool.andb_assoc. reflexivity.
  - destruct (TAIL g (c_sched c && is_scheduled_now (g_now g) (n_sch (node_at i g))) Hls Hln) as (T1 & T2 & T3).
    split; [exact T1|]. split; [exact L2|]. split; [exact Nk|].
    rewrite T2, T3, W. reflexivity.
Qed.

Lemma slen_opt_schedule i q g : length (g_slots (opt_schedule i q g)) = length (g_slots g).
Proof. destruct q; simpl; auto. apply schedule_node_len. Qed.

Lemma slen_notify l : forall j src g, length (g_slots (notify_from l j src g)) = length (g_slots g).
Proof. induction l as [|c r IH]; intros j src g; simpl; auto. rewrite IH. destruct (_ && _); auto. apply schedule_node_len. Qed.

Lemma slen_do_op i st opi o g : length (g_slots (do_op cfgs i st opi o g)) = length (g_slots g).
Proof.
  unfold do_op. destruct (negb (g_err g =? 0)); auto. cbn zeta.
  destruct o.
  - destruct (c_sched _); auto. destruct (schedule _ _ _ _ _) as [s' q]. simpl. rewrite slen_opt_schedule. reflexivity.
  - destruct (c_sched _); auto.
  - destruct (c_sched _); auto.
  - destruct (c_sched _); auto. destruct (pop_tag _ _ _) as [s' w]. reflexivity.
  - destruct (c_sched _); auto.
  - destruct (_ && _); auto. simpl. rewrite slen_notify. reflexivity.
  - apply schedule_node_len.
  - reflexivity.
  - destruct (is_list_entry _ _); reflexivity.
  - destruct (is_list_entry _ _); reflexivity.
  - destruct (_ && _); auto. destruct (n_val (node_at i g)); auto. simpl. rewrite slen_notify. reflexivity.
  - reflexivity.
Qed.

Lemma slen_do_ops i st os : forall opi g, length (g_slots (do_ops cfgs i st opi os g)) = length (g_slots g).
Proof. induction os as [|o r IH]; intros opi g; simpl; auto. rewrite IH. apply slen_do_op. Qed.

Lemma slen_eval_node i g : length (g_slots (eval_node cfgs beh i g)) = length (g_slots g).
Proof.
  unfold eval_node. destruct (negb (n_started (node_at i g))); auto. cbn zeta.
  assert (TAIL : forall g1 (b : bool),
     length (g_slots (if negb (g_err g1 =? 0) then g1 else
        if c_sched (nth i cfgs dflt_cfg) then
          (if b then let '(s', push) := advance (g_now g) (n_sch (node_at i g1)) in opt_schedule i push (upd_node i (set_sch s') g1)
           else if is_scheduled (n_sch (node_at i g1)) then schedule_node i (next_scheduled_time (n_sch (node_at i g1))) g1 else g1)
        else g1)) = length (g_slots g1)).
  { intros g1 b. destruct (negb (g_err g1 =? 0)); auto. destruct (c_sched _); auto. destruct b.
    - destruct (advance _ _) as [s' q]. rewrite slen_opt_schedule. reflexivity.
    - destruct (is_scheduled _); auto. apply schedule_node_len. }
  rewrite TAIL.
  destruct (match c_ins (nth i cfgs dflt_cfg) with [] => true | _ => ready (nth i cfgs dflt_cfg) g end); auto.
  rewrite slen_do_ops. reflexivity.
Qed.

(* ---- the scan: a node is due when the scan reaches it iff it was due at the start of the
   cycle or an earlier node wrote an output one of its active inputs is bound to ---- *)
Definition cause_b (g0 g : gst) (k j : nat) : bool :=
  existsb (fun p => wrote g p && act_from g0 j p) (seq 0 k) && n_started (node_at j g0).

Definition scan_inv (g0 : gst) (k : nat) (g : gst) : Prop :=
  length (g_slots g) = n /\ length (g_nodes g) = n /\ g_now g = g_now g0 /\
  (forall j, (k <= j < n)%nat -> node_at j g = node_at j g0 /\
             slot_at j g = (if cause_b g0 g k j then g_now g0 else slot_at j g0)).

Lemma cause_b_step g0 g g' k j :
  (forall p, (p < k)%nat -> wrote g' p = wrote g p) ->
  cause_b g0 g' (S k) j = cause_b g0 g k j || (wrote g' k && act_from g0 j k && n_started (node_at j g0)).
Proof.
  intros H. unfold cause_b. rewrite seq_S. simpl. rewrite existsb_app. simpl. rewrite orb_false_r.
  assert (E : existsb (fun p => wrote g' p && act_from g0 j p) (seq 0 k) = existsb (fun p => wrote g p && act_from g0 j p) (seq 0 k)).
  { clear - H. assert (G : forall l, (forall p, In p l -> (p < k)%nat) ->
        existsb (fun p => wrote g' p && act_from g0 j p) l = existsb (fun p => wrote g p && act_from g0 j p) l).
    { induction l as [|x r IH]; intros Hl; simpl; auto. rewrite H by (apply Hl; left; auto). rewrite IH; auto. intros; apply Hl; right; auto. }
    apply G. intros p Hp. apply in_seq in Hp. lia. }
  rewrite E. set (X := existsb (fun p => wrote g p && act_from g0 j p) (seq 0 k)).
  destruct X, (n_started (node_at j g0)), (wrote g' k), (act_from g0 j k); reflexivity.
Qed.

Lemma scan_cause m : forall k g0 g,
  (k + m = n)%nat -> scan_inv g0 k g ->
  (forall p, (p < n)%nat -> n_lmt (node_at p g0) < g_now g0) ->
  let gf := scan cfgs beh k m g in
  g_err gf = 0 ->
  forall i, (k <= i < n)%nat ->
    n_evals (node_at i gf) = n_evals (node_at i g0) +
      (if (slot_at i g0 =? g_now g0) || cause_b g0 gf i i then 1 else 0).
Proof.
  induction m as [|m IH]; intros k g0 g Hkm (L1 & L2 & Hnow & HJ) Hold gf Herr i Hi; unfold gf in *; simpl in *.
  - lia.
  - destruct (negb (g_err g =? 0)) eqn:E0; [lia|].
    assert (Hk : (k < n)%nat) by lia.
    destruct (HJ k ltac:(lia)) as [Nk Sk].
    assert (Wk : wrote g k = false).
    { unfold wrote. rewrite Nk, Hnow. specialize (Hold k Hk). lia. }
    set (g' := if slot_at k g =? g_now g then _ else _) in *.
    assert (Herr' : g_err g' = 0).
    { destruct (Z.eq_dec (g_err g') 0); auto. rewrite scan_err_sticky in Herr by auto. contradiction. }
    (* the step re-establishes the invariant at S k and decides node k *)
    assert (STEP : scan_inv g0 (S k) g' /\ (forall p, (p < k)%nat -> node_at p g' = node_at p g) /\
                   n_evals (node_at k g') = n_evals (node_at k g0) + (if slot_at k g =? g_now g then 1 else 0) /\
                   (forall p, (p <= k)%nat -> forall mm kk, (p < kk)%nat -> node_at p (scan cfgs beh kk mm g') = node_at p g')).
    { split; [|split; [|split]].
      - unfold g'. destruct (slot_at k g =? g_now g) eqn:Es.
        + set (gx := upd_node k inc_evals (emit [11; Z.of_nat k; g_now g] g)).
          assert (X1 : length (g_slots gx) = n) by (unfold gx; auto).
          assert (X2 : length (g_nodes gx) = n) by (unfold gx; simpl; rewrite update_length; auto).
          assert (Wx : wrote gx k = false).
          { unfold wrote, gx. rewrite node_at_upd_same by (simpl; lia). rewrite node_at_emit. exact Wk. }
          split; [|split; [|split]].
          * rewrite slen_eval_node; auto.
          * rewrite len_eval_node; auto.
          * rewrite eval_node_now. unfold gx. simpl. exact Hnow.
          * intros j Hj. destruct (eval_node_slot_other k gx j X1 X2 Hk ltac:(lia) ltac:(lia) Wx) as (_ & _ & Nj & Sj).
            assert (Njx : node_at j gx = node_at j g) by (unfold gx; rewrite node_at_upd_node_other by lia; apply node_at_emit).
            destruct (HJ j ltac:(lia)) as [Nj0 Sj0].
            split; [rewrite Nj, Njx; exact Nj0|].
            rewrite Sj. rewrite (cause_b_step g0 g (eval_node cfgs beh k gx) k j).
            2:{ intros p Hp. unfold wrote. rewrite eval_node_now. rewrite eval_node_other by lia.
                unfold gx. rewrite node_at_upd_node_other by lia. rewrite node_at_emit. reflexivity. }
            unfold act_from. rewrite Njx, Nj0.
            change (slot_at j gx) with (slot_at j g). change (g_now gx) with (g_now g). rewrite Sj0, Hnow.
            destruct (cause_b g0 g k j); simpl;
              repeat match goal with |- context [if ?b then _ else _] => destruct b end; reflexivity.
        + assert (SAME : forall gq, g_slots gq = g_slots g -> g_nodes gq = g_nodes g -> g_now gq = g_now g -> scan_inv g0 (S k) gq).
          { intros gq Q1 Q2 Q3. unfold scan_inv. rewrite Q1, Q2, Q3. split; auto. split; auto. split; auto.
            intros j Hj. destruct (HJ j ltac:(lia)) as [Nj0 Sj0].
            unfold node_at, slot_at in *. rewrite Q1, Q2. split; auto.
            fold (slot_at j g). unfold slot_at. rewrite Sj0.
            rewrite (cause_b_step g0 g gq k j).
            2:{ intros p Hp. unfold wrote, node_at. rewrite Q2, Q3. reflexivity. }
            assert (Wq : wrote gq k = false) by (unfold wrote, node_at; rewrite Q2, Q3; exact Wk).
            rewrite Wq. simpl. rewrite orb_false_r. reflexivity. }
          destruct (g_now g <? slot_at k g); [destruct (slot_at k g <? g_nst g)|]; apply SAME; reflexivity.
      - intros p Hp. unfold g'. destruct (slot_at k g =? g_now g).
        + rewrite eval_node_other by lia. rewrite node_at_upd_node_other by lia. apply node_at_emit.
        + destruct (g_now g <? slot_at k g); [destruct (slot_at k g <? g_nst g)|]; reflexivity.
      - unfold g'. destruct (slot_at k g =? g_now g).
        + rewrite eval_node_evals. rewrite node_at_upd_same by (simpl; lia). rewrite node_at_emit, Nk. reflexivity.
        + assert (E : forall gq, g_nodes gq = g_nodes g -> n_evals (node_at k gq) = n_evals (node_at k g0) + 0).
          { intros gq Q. assert (Hq : node_at k gq = node_at k g) by (unfold node_at; rewrite Q; reflexivity). rewrite Hq, Nk. lia. }
          destruct (g_now g <? slot_at k g); [destruct (slot_at k g <? g_nst g)|]; apply E; reflexivity.
      - intros p Hp mm kk Hlt. apply scan_prefix_final. exact Hlt. }
    destruct STEP as (INV' & PREV & EVK & FIN).
    destruct (Nat.eq_dec i k) as [->|Hne].
    + (* node k itself: decided now, untouched by the rest of the scan *)
      rewrite (FIN k (Nat.le_refl k) m (S k) ltac:(lia)). rewrite EVK.
      rewrite Sk, Hnow.
      assert (CB : cause_b g0 (scan cfgs beh (S k) m g') k k = cause_b g0 g k k).
      { unfold cause_b. f_equal.
        assert (G : forall l, (forall p, In p l -> (p < k)%nat) ->
            existsb (fun p => wrote (scan cfgs beh (S k) m g') p && act_from g0 k p) l = existsb (fun p => wrote g p && act_from g0 k p) l).
        { induction l as [|x r IHl]; intros Hl; simpl; auto.
          assert (Hx : (x < k)%nat) by (apply Hl; left; auto).
          assert (Wx : wrote (scan cfgs beh (S k) m g') x = wrote g x).
          { unfold wrote. rewrite scan_now. rewrite (FIN x ltac:(lia) m (S k) ltac:(lia)). rewrite (PREV x Hx).
            destruct INV' as (_ & _ & N' & _). rewrite N', Hnow. reflexivity. }
          rewrite Wx, IHl; auto. intros; apply Hl; right; auto. }
        apply G. intros p Hp. apply in_seq in Hp. lia. }
      rewrite CB.
      destruct (cause_b g0 g k k); [rewrite Z.eqb_refl, orb_true_r; reflexivity|].
      rewrite orb_false_r. reflexivity.
    + apply (IH (S k) g0 g' ltac:(lia) INV' Hold Herr i ltac:(lia)).
Qed.
End Cause.

(* C03, the evaluation gate: in the cycle at t a node is evaluated by the graph exactly when its slot
   held t at the start of the cycle (a wake-up it asked for: scheduler event, start request,
   raw request - or the stale slot of the recorded finding) or a node before it wrote, in this cycle,
   an output that one of its ACTIVE inputs is bound to. *)
Theorem evaluated_iff_cause cfgs beh t g :
  length (g_slots g) = length cfgs -> length (g_nodes g) = length cfgs ->
  (forall p, (p < length cfgs)%nat -> n_lmt (node_at p g) < t) ->
  let gf := evaluate_graph cfgs beh t g in
  g_err gf = 0 ->
  forall i, (i < length cfgs)%nat ->
    (n_evals (node_at i gf) = n_evals (node_at i g) + 1 <->
       slot_at i g = t \/
       (n_started (node_at i g) = true /\
        exists p, (p < i)%nat /\ n_lmt (node_at p gf) = t /\ act_from cfgs g i p = true)) /\
    (n_evals (node_at i gf) = n_evals (node_at i g) \/ n_evals (node_at i gf) = n_evals (node_at i g) + 1).
Proof.
  intros L1 L2 Hold gf Herr i Hi. unfold gf, evaluate_graph in *.
  set (g0 := mkG t (g_slots g) MAX_DT (g_nodes g) ([10; t] :: g_log g) (g_err g)) in *.
  assert (INV : scan_inv cfgs g0 0 g0).
  { split; [exact L1|]. split; [exact L2|]. split; [reflexivity|]. intros j Hj. split; auto. }
  pose proof (scan_cause cfgs beh (length cfgs) 0%nat g0 g0 ltac:(lia) INV Hold Herr i ltac:(lia)) as E.
  change (node_at i g0) with (node_at i g) in E. change (slot_at i g0) with (slot_at i g) in E. change (g_now g0) with t in E.
  set (gF := scan cfgs beh 0 (length cfgs) g0) in *.
  assert (CB : cause_b cfgs g0 gF i i = true <->
               (n_started (node_at i g) = true /\ exists p, (p < i)%nat /\ n_lmt (node_at p gF) = t /\ act_from cfgs g i p = true)).
  { unfold cause_b. rewrite andb_true_iff, existsb_exists. change (node_at i g0) with (node_at i g).
    assert (NowF : g_now gF = t) by (unfold gF; rewrite scan_now; reflexivity).
    split.
    - intros [[p [Hp Hw]] Hs]. split; auto. apply in_seq in Hp. apply andb_true_iff in Hw. destruct Hw as [W A].
      exists p. split; [lia|]. split; [unfold wrote in W; lia|]. exact A.
    - intros [Hs [p [Hp [W A]]]]. split; auto. exists p. split; [apply in_seq; lia|].
      apply andb_true_iff. split; [unfold wrote; lia|exact A]. }
  split.
  - rewrite E. destruct (slot_at i g =? t) eqn:Es; simpl.
    + split; [intros _; left; lia|lia].
    + destruct (cause_b cfgs g0 gF i i) eqn:Ec.
      * split; [intros _; right; apply CB; reflexivity|lia].
      * split; [lia|]. intros [H|H]; [lia|]. apply CB in H. discriminate.
  - rewrite E. destruct ((slot_at i g =? t) || cause_b cfgs g0 gF i i); [right|left]; lia.
Qed.

(* ------------------------------------------------------------------ *)
(* Termination: the fuel Z.to_nat (end - next) + 1 always suffices       *)
(* ------------------------------------------------------------------ *)
Section Termination.
Variable cfgs : list ncfg.
Variable beh : behaviour.

(* error 9 (out of fuel) is raised by run_loop alone *)
Lemma ne9_schedule_node i w g : g_err g <> 9 -> g_err (schedule_node i w g) <> 9.
Proof.
  intros H. unfold schedule_node. destruct (w <? g_now g); simpl; [lia|].
  destruct (_ || _); simpl; auto.
Qed.

Lemma ne9_opt_schedule i q g : g_err g <> 9 -> g_err (opt_schedule i q g) <> 9.
Proof. destruct q; simpl; auto. apply ne9_schedule_node. Qed.

Lemma ne9_notify l : forall j src g, g_err g <> 9 -> g_err (notify_from l j src g) <> 9.
Proof.
  induction l as [|c r IH]; intros j src g H; simpl; auto.
  apply IH. destruct (_ && _); auto. apply ne9_schedule_node; auto.
Qed.

Lemma ne9_do_op i st opi o g : g_err g <> 9 -> g_err (do_op cfgs i st opi o g) <> 9.
Proof.
  intros H. unfold do_op. destruct (negb (g_err g =? 0)); auto. cbn zeta.
  destruct o.
  - destruct (c_sched _); auto. destruct (schedule _ _ _ _ _) as [s' q]. simpl. apply ne9_opt_schedule. exact H.
  - destruct (c_sched _); auto.
  - destruct (c_sched _); auto.
  - destruct (c_sched _); auto. destruct (pop_tag _ _ _) as [s' w]. exact H.
  - destruct (c_sched _); auto.
  - destruct (_ && _); auto. simpl. apply ne9_notify. exact H.
  - apply ne9_schedule_node; auto.
  - simpl. lia.
  - destruct (is_list_entry _ _); exact H.
  - destruct (is_list_entry _ _); exact H.
  - destruct (_ && _); auto. destruct (n_val (node_at i g)); auto. simpl. apply ne9_notify. exact H.
  - exact H.
Qed.

Lemma ne9_do_ops i st os : forall opi g, g_err g <> 9 -> g_err (do_ops cfgs i st opi os g) <> 9.
Proof. induction os as [|o r IH]; intros opi g H; simpl; auto. apply IH, ne9_do_op; auto. Qed.

Lemma ne9_eval_node i g : g_err g <> 9 -> g_err (eval_node cfgs beh i g) <> 9.
Proof.
  intros H. unfold eval_node. destruct (negb (n_started (node_at i g))); auto. cbn zeta.
  match goal with |- context [if negb (g_err ?x =? 0) then _ else _] => set (g1 := x) end.
  assert (H1 : g_err g1 <> 9).
  { unfold g1. destruct (match c_ins (nth i cfgs dflt_cfg) with [] => true | _ => ready (nth i cfgs dflt_cfg) g end); auto.
    apply ne9_do_ops. exact H. }
  destruct (negb (g_err g1 =? 0)); auto.
  destruct (c_sched (nth i cfgs dflt_cfg)); auto. simpl andb.
  destruct (is_scheduled_now (g_now g) (n_sch (node_at i g))).
  - destruct (advance (g_now g) (n_sch (node_at i g1))) as [s' q]. apply ne9_opt_schedule. exact H1.
  - destruct (is_scheduled (n_sch (node_at i g1))); auto. apply ne9_schedule_node; auto.
Qed.

Lemma ne9_scan m : forall i g, g_err g <> 9 -> g_err (scan cfgs beh i m g) <> 9.
Proof.
  induction m as [|m IH]; intros i g H; simpl; auto.
  destruct (negb (g_err g =? 0)); auto. apply IH.
  destruct (slot_at i g =? g_now g).
  - apply ne9_eval_node. exact H.
  - destruct (g_now g <? slot_at i g); auto. destruct (slot_at i g <? g_nst g); auto.
Qed.

Lemma ne9_evaluate_graph t g : g_err g <> 9 -> g_err (evaluate_graph cfgs beh t g) <> 9.
Proof. intros H. unfold evaluate_graph. apply ne9_scan. exact H. Qed.

Lemma ne9_start_node i g : g_err g <> 9 -> g_err (start_node cfgs beh i g) <> 9.
Proof.
  intros H. unfold start_node. destruct (negb (g_err g =? 0)); auto. cbn zeta.
  match goal with |- context [do_ops cfgs i false 0 ?o ?ga] => set (ops := o); set (gA := ga) end.
  assert (HA : g_err gA <> 9) by exact H.
  assert (H1 : g_err (do_ops cfgs i false 0 ops gA) <> 9) by (apply ne9_do_ops; exact HA).
  destruct (negb (g_err (do_ops cfgs i false 0 ops gA) =? 0)); auto.
  destruct (c_sos (nth i cfgs dflt_cfg)); [apply ne9_schedule_node|]; exact H1.
Qed.

Lemma ne9_start_nodes m : forall i g, g_err g <> 9 -> g_err (start_nodes cfgs beh i m g) <> 9.
Proof. induction m as [|m IH]; intros i g H; simpl; auto. apply IH, ne9_start_node; auto. Qed.

Lemma ne9_start_graph start : g_err (start_graph cfgs beh start) <> 9.
Proof.
  unfold start_graph. set (g0 := mkG _ _ _ _ _ _).
  assert (H : g_err (start_nodes cfgs beh 0 (length cfgs) g0) <> 9) by (apply ne9_start_nodes; simpl; lia).
  destruct (negb (g_err _ =? 0)); auto.
Qed.

(* With the boundary invariant the cached next time strictly increases from cycle to cycle, so a
   run needs at most (end - next) cycles: given that much fuel (plus one) it never runs out. *)
Lemma run_loop_fuel_suffices end_ fuel : forall g,
  well_ranked cfgs -> end_ <= MAX_DT -> boundary cfgs g -> g_err g = 0 ->
  (Z.to_nat (end_ - g_nst g) < fuel)%nat ->
  g_err (run_loop cfgs beh end_ fuel g) <> 9.
Proof.
  induction fuel as [|f IH]; intros g WR HE B He Hf; [lia|]. simpl.
  rewrite He. simpl.
  destruct ((g_nst g =? MAX_DT) || (end_ <=? g_nst g)) eqn:Estop; [lia|].
  set (g' := evaluate_graph cfgs beh (g_nst g) g).
  assert (N9 : g_err g' <> 9) by (apply ne9_evaluate_graph; lia).
  destruct (Z.eq_dec (g_err g') 0) as [E0|E0].
  - assert (Hmax : g_nst g < MAX_DT) by lia.
    destruct (evaluate_graph_boundary cfgs beh g WR B He Hmax E0) as (B' & Hnow & Hgt). fold g' in B', Hnow, Hgt.
    apply IH; auto. lia.
  - destruct f; simpl; [|replace (negb (g_err g' =? 0)) with true by lia; exact N9].
    (* no fuel left but the state already carries a user error: run_loop reports 9 only when called with fuel 0 *)
    exfalso. lia.
Qed.

Theorem sim_run_terminates start end_ :
  well_ranked cfgs -> start_ops_ok beh start -> start <= MAX_DT -> end_ <= MAX_DT ->
  g_err (run_sim cfgs beh start end_ (Z.to_nat (end_ - start) + 1)) <> 9.
Proof.
  intros WR SO Hs He. unfold run_sim.
  set (g0 := start_graph cfgs beh start).
  destruct (Z.eq_dec (g_err g0) 0) as [E0|E0].
  - destruct (start_graph_boundary cfgs beh start SO Hs E0) as (B0 & Hnow & Hnst). fold g0 in B0, Hnow, Hnst.
    apply run_loop_fuel_suffices; auto. lia.
  - assert (N9 : g_err g0 <> 9).
    { apply ne9_start_graph. }
    replace (Z.to_nat (end_ - start) + 1)%nat with (S (Z.to_nat (end_ - start))) by lia. simpl.
    replace (negb (g_err g0 =? 0)) with true by lia. exact N9.
Qed.
End Termination.
