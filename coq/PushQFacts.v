(* PushQFacts.v — the statements of property C16 derived from the protocol invariant
   (PushQInv.v), and the equivalence of the executable history acceptor with the
   declarative statement on recorded histories. *)
Require Import Base PushQ PushQInv PushQInv2.
From Coq Require Import ZifyBool.

Local Open Scope nat_scope.

(* ------------------------------------------------------------------ *)
(* in every reachable state ... *)

Lemma reach_log pl c n ls : let s := reach pl c n ls in
  (exists rest, accepted s = flatd (delivered s) ++ rest) /\
  (accepting s = true -> accepted s = flatd (delivered s) ++ vals s) /\
  (accepting s = false -> vals s = []).
Proof.
  intros s. pose proof (i_log s (inv_reach pl c n ls)) as L. destruct (accepting s).
  - split; [exists (vals s); exact L|]. split; [intros _; exact L|discriminate].
  - destruct L as [L1 L2]. split; [exact L2|]. split; [discriminate|intros _; exact L1].
Qed.

Lemma reach_prefix pl c n ls : let s := reach pl c n ls in
  exists rest, map e_val (accepted s) = map e_val (flatd (delivered s)) ++ rest.
Proof.
  intros s. destruct (reach_log pl c n ls) as [[rest E] _]. fold s in E.
  exists (map e_val rest). rewrite E, map_app. reflexivity.
Qed.

Lemma reach_order pl c n ls : let s := reach pl c n ls in
  forall i j e1 e2, nth_error (flatd (delivered s)) i = Some e1 -> nth_error (flatd (delivered s)) j = Some e2 ->
    i < j -> e_pid e1 = e_pid e2 -> e_seq e1 < e_seq e2.
Proof.
  intros s. destruct (reach_log pl c n ls) as [[rest E] _]. fold s in E.
  pose proof (i_pps s (inv_reach pl c n ls)) as P. rewrite E in P. apply PPS_prefix in P.
  apply PPS_nth. exact P.
Qed.

Lemma reach_accept_order pl c n ls : let s := reach pl c n ls in
  forall i j e1 e2, nth_error (accepted s) i = Some e1 -> nth_error (accepted s) j = Some e2 ->
    i < j -> e_pid e1 = e_pid e2 -> e_seq e1 < e_seq e2.
Proof. intros s. apply PPS_nth. exact (i_pps s (inv_reach pl c n ls)). Qed.

Lemma reach_once pl c n ls : let s := reach pl c n ls in
  NoDup (flatd (delivered s)) /\
  increasingZ (map fst (delivered s)) /\
  forall tb, In tb (delivered s) -> snd tb <> [] /\ (fst tb <= now s)%Z /\ (pol s = Queue -> length (snd tb) = 1).
Proof.
  intros s. pose proof (inv_reach pl c n ls) as I. fold s in I.
  destruct (reach_log pl c n ls) as [[rest E] _]. fold s in E.
  pose proof (i_pps s I) as P. rewrite E in P. apply PPS_prefix in P. split; [apply PPS_NoDup; exact P|].
  destruct (i_time s I) as [T1 T2]. split; [exact T1|].
  intros tb Htb. destruct (T2 tb Htb) as (A & _ & B & C). auto.
Qed.

Lemma reach_capacity pl c n ls : let s := reach pl c n ls in
  cap s <> 0 ->
  length (vals s) <= cap s /\ length (accepted s) <= length (flatd (delivered s)) + cap s \/ accepting s = false.
Proof.
  intros s Hc. pose proof (inv_reach pl c n ls) as I. fold s in I.
  destruct (accepting s) eqn:A; [left|right; reflexivity].
  pose proof (i_cap s I Hc) as C. split; [exact C|].
  destruct (reach_log pl c n ls) as (_ & L & _). fold s in L. rewrite (L A), app_length. lia.
Qed.

Lemma reach_pending_le_cap pl c n ls : let s := reach pl c n ls in cap s <> 0 -> length (vals s) <= cap s.
Proof. intros s. exact (i_cap s (inv_reach pl c n ls)). Qed.

Lemma reach_full_exact pl c n ls : let s := reach pl c n ls in
  full s = true -> cap s <> 0 /\ length (vals s) = cap s.
Proof.
  intros s Hf. apply full_true in Hf. destruct Hf as (_ & H1 & H2). split; [exact H1|].
  pose proof (i_cap s (inv_reach pl c n ls) H1). fold s in H. lia.
Qed.

(* ---- refusals ---- *)
Definition stopped_for (p : nat) (s : state) : Prop :=
  handle (get_prod p s) <> epoch s \/ closing s = true \/ attached s = false \/ stop_req s = true \/ accepting s = false.

(* producer p's call is decided "refused / failed" in this step *)
Definition refusal_step (p : nat) (s s' : state) : Prop :=
  (pc (get_prod p s) = PEnter /\ pc (get_prod p s') = PIdle) \/
  (pc (get_prod p s) <> PLeave 0 /\ pc (get_prod p s') = PLeave 0).

Lemma get_prod_goto p x s : p < length (prods s) -> pc (get_prod p (goto p x s)) = x.
Proof. intros Hp. unfold goto. rewrite get_prod_upd. rewrite Nat.eqb_refl. destruct (Nat.ltb_spec p (length (prods s))); [reflexivity|lia]. Qed.

Lemma refusal_reason s p s' :
  step (LProd p) s = Some s' -> refusal_step p s s' ->
  stopped_for p s \/ (knd (get_prod p s) = KTry /\ full s = true).
Proof.
  cbn [step]. destruct (Nat.ltb_spec p (length (prods s))) as [Hp|]; [|discriminate].
  unfold prod_step. intros H R. unfold stopped_for. unfold refusal_step in R.
  destruct (pc (get_prod p s)) eqn:E; try discriminate.
  - (* PEnter *)
    destruct (negb (Nat.eqb (handle (get_prod p s)) (epoch s)) || closing s || negb (attached s)) eqn:Hb.
    + left. apply orb_true_iff in Hb. destruct Hb as [Hb|Hb]; [apply orb_true_iff in Hb; destruct Hb as [Hb|Hb]|].
      * left. apply negb_true_iff in Hb. apply Nat.eqb_neq in Hb. exact Hb.
      * right; left; exact Hb.
      * right; right; left. apply negb_true_iff in Hb. exact Hb.
    + inversion H; subst. destruct R as [[_ R]|[_ R]]; rewrite get_prod_goto in R by exact Hp; discriminate.
  - (* PStopChk *)
    destruct (stop_req s) eqn:Hs; [left; auto 6|].
    inversion H; subst. destruct R as [[R _]|[_ R]]; [discriminate|]. rewrite get_prod_goto in R by exact Hp. discriminate.
  - (* PAdmit *)
    inversion H; subst. clear H. unfold admission, push in R.
    destruct (accepting s) eqn:A; [|left; auto 6]. cbn [negb] in R.
    destruct (full s) eqn:F.
    + destruct (knd (get_prod p s)) eqn:K; [right; auto| |];
        destruct R as [[R _]|[_ R]]; try discriminate; rewrite get_prod_goto in R by exact Hp; discriminate.
    + destruct R as [[R _]|[_ R]]; [discriminate|]. unfold goto in R. rewrite get_prod_upd in R.
      cbn [prods set_accepted set_vals set_prods] in R. rewrite Nat.eqb_refl in R.
      destruct (Nat.ltb_spec p (length (prods s))); [|lia]. cbn [pc set_pc andb] in R. destruct (is_nil (vals s)); discriminate.
  - (* PWoken *)
    inversion H; subst. clear H. unfold admission, push in R.
    destruct (accepting s) eqn:A; [|left; auto 6]. cbn [negb] in R.
    destruct (full s) eqn:F.
    + destruct (knd (get_prod p s)) eqn:K; [right; auto| |];
        destruct R as [[R _]|[_ R]]; try discriminate; rewrite get_prod_goto in R by exact Hp; discriminate.
    + destruct R as [[R _]|[_ R]]; [discriminate|]. unfold goto in R. rewrite get_prod_upd in R.
      cbn [prods set_accepted set_vals set_prods] in R. rewrite Nat.eqb_refl in R.
      destruct (Nat.ltb_spec p (length (prods s))); [|lia]. cbn [pc set_pc andb] in R. destruct (is_nil (vals s)); discriminate.
  - (* PMark *)
    destruct (stop_req s); inversion H; subst; destruct R as [[R _]|[_ R]]; try discriminate;
      rewrite get_prod_goto in R by (unfold set_flag; cbn [prods]; exact Hp); discriminate.
  - (* PNotify *)
    inversion H; subst. destruct R as [[R _]|[_ R]]; [discriminate|].
    rewrite get_prod_goto in R; [discriminate|]. unfold notify_exec. destruct (cons s); exact Hp.
  - (* PLeave *)
    inversion H; subst. destruct R as [[R _]|[_ R]]; [discriminate|]. rewrite get_prod_upd in R.
    cbn [prods set_active] in R. rewrite Nat.eqb_refl in R. destruct (Nat.ltb_spec p (length (prods s))); [|lia].
    cbn [pc andb] in R. discriminate.
Qed.

(* ---- nothing is accepted after stop ---- *)
Ltac unf2 :=
  unfold goto, upd_prod, notify_exec, notify_all, notify_one, set_vals, set_accepting, set_flag, set_stop_req, set_stop_notifies, set_closing,
    set_attached, set_active, set_epoch, set_cons, set_now, set_prods, set_accepted, set_delivered in *;
  cbn [pol cap vals accepting flag stop_req stop_notifies closing attached active epoch cons now prods accepted delivered] in *.

Lemma step_after_stop l s s' :
  step l s = Some s' -> accepting s = false -> l <> LCStart ->
  accepted s' = accepted s /\ accepting s' = false.
Proof.
  intros H A Hl. destruct l as [p h|p v k|p|p| | |t|w| | | | | ]; cbn [step] in H; try congruence.
  - destruct (pc (get_prod p s)); try discriminate. destruct (p <? length (prods s)); inversion H; subst; unf2; auto.
  - destruct (pc (get_prod p s)); try discriminate. destruct (p <? length (prods s)); inversion H; subst; unf2; auto.
  - destruct (p <? length (prods s)); [|discriminate]. unfold prod_step, admission in H. rewrite A in H. cbn [negb] in H.
    destruct (pc (get_prod p s)); try discriminate;
      repeat match type of H with context [if ?b then _ else _] => destruct b end; inversion H; subst; unf2; auto;
      destruct (cons s); auto.
  - destruct (pc (get_prod p s)); try discriminate. inversion H; subst; unf2; auto.
  - destruct (cons s); try discriminate. destruct (flag s || stop_req s); inversion H; subst; unf2; auto.
  - destruct (cons s); try discriminate. inversion H; subst; unf2; auto.
  - destruct (cons s); try discriminate. destruct (now s <? t)%Z; inversion H; subst; unf2; auto.
  - unfold cons_step, pop in H.
    destruct (cons s) as [| | |pend|more|more| | | ]; try discriminate.
    + destruct pend; inversion H; subst; unf2; auto.
      destruct (pol s), (vals s); unf2; auto; pose proof A; discriminate.
    + inversion H; subst. destruct (pol s); unf2; auto.
      destruct (is_waiting (pc (get_prod w s))); unf2; auto.
    + destruct more; [destruct (stop_req s)|]; inversion H; subst; unf2; auto.
    + inversion H; subst; unf2; auto.
    + inversion H; subst; unf2; auto.
    + destruct (Nat.eqb (active s) 0); inversion H; subst; unf2; auto.
  - destruct (cons s); try discriminate. inversion H; subst; unf2; auto.
  - inversion H; subst; unf2; auto.
  - destruct (stop_notifies s); inversion H; subst. unf2. destruct (cons s); auto.
  - destruct (cons s); try discriminate. inversion H; subst; unf2; auto.
Qed.

Lemma run_after_stop ls s :
  accepting s = false -> (forall l, In l ls -> l <> LCStart) ->
  accepted (run ls s) = accepted s /\ accepting (run ls s) = false.
Proof.
  revert s. induction ls as [|l r IH]; intros s A Hl; simpl; [auto|].
  destruct (step l s) as [s1|] eqn:E.
  - assert (Hd : do_step s l = s1) by (unfold do_step; rewrite E; reflexivity). rewrite Hd.
    destruct (step_after_stop l s s1 E A (Hl l (or_introl eq_refl))) as [E1 E2].
    destruct (IH s1 E2 (fun l0 H0 => Hl l0 (or_intror H0))) as [E3 E4]. unfold run in *. split; congruence.
  - assert (Hd : do_step s l = s) by (unfold do_step; rewrite E; reflexivity). rewrite Hd.
    apply IH; [exact A|intros l0 H0; apply Hl; right; exact H0].
Qed.

(* a call begun after begin_close is turned away at the door *)
Lemma closed_refuses s p s' :
  closing s = true -> pc (get_prod p s) = PEnter -> step (LProd p) s = Some s' ->
  pc (get_prod p s') = PIdle /\ lastr (get_prod p s') = 0%Z /\ accepted s' = accepted s.
Proof.
  intros Hc E H. cbn [step] in H. destruct (Nat.ltb_spec p (length (prods s))) as [Hp|]; [|discriminate].
  unfold prod_step in H. rewrite E, Hc in H. rewrite orb_true_r in H. cbn [orb] in H. inversion H; subst.
  rewrite get_prod_upd, Nat.eqb_refl. destruct (Nat.ltb_spec p (length (prods s))); [|lia]. cbn. auto.
Qed.

(* ---- no lost wake-up ---- *)
Lemma cnt_pos_pc f x l : (forall y, f y = true -> y = x) -> cnt f l > 0 ->
  exists p, p < length l /\ pc (nth p l idle_prod) = x.
Proof.
  intros Hf H. destruct (cnt_pos_ex f l idle_prod H) as [p [Hp E]]. exists p. split; [exact Hp|apply Hf; exact E].
Qed.

Lemma reach_no_lost_wakeup pl c n ls : let s := reach pl c n ls in
  vals s <> [] -> stop_req s = false ->
  flag s = true \/ (exists p, p < length (prods s) /\ pc (get_prod p s) = PMark) \/ cons_rearming (cons s) = true.
Proof.
  intros s Hv Hs. destruct (i_wake s (inv_reach pl c n ls) Hv Hs) as [H|[H|H]]; auto.
  right; left. apply (cnt_pos_pc is_mark PMark); [intros y; destruct y; simpl; congruence|exact H].
Qed.

Lemma reach_no_lost_notification pl c n ls : let s := reach pl c n ls in
  cons s = CBlocked -> flag s = true \/ stop_req s = true ->
  (exists p, p < length (prods s) /\ pc (get_prod p s) = PNotify) \/ stop_notifies s > 0.
Proof.
  intros s Hc Hf. assert (Hb : flag s || stop_req s = true) by (destruct Hf as [-> | ->]; [reflexivity|apply orb_true_r]).
  destruct (i_note s (inv_reach pl c n ls) Hc Hb) as [H|H]; [left|right; exact H].
  apply (cnt_pos_pc is_notify PNotify); [intros y; destruct y; simpl; congruence|exact H].
Qed.

(* the evaluation thread never sleeps on pending work unless somebody is about to wake it *)
Lemma reach_consumer_not_stuck pl c n ls : let s := reach pl c n ls in
  cons s = CBlocked -> vals s <> [] -> stop_req s = false ->
  (exists p, p < length (prods s) /\ (pc (get_prod p s) = PMark \/ pc (get_prod p s) = PNotify)) \/ stop_notifies s > 0.
Proof.
  intros s Hc Hv Hs.
  destruct (reach_no_lost_wakeup pl c n ls Hv Hs) as [H|[[p [Hp E]]|H]].
  - destruct (reach_no_lost_notification pl c n ls Hc (or_introl H)) as [[p [Hp E]]|H2]; [left; exists p; auto|right; exact H2].
  - left. exists p. auto.
  - fold s in H. rewrite Hc in H. discriminate.
Qed.

(* when every producer is outside the marking window and the evaluation thread is between
   cycles, pending work means the flag is set: the next wait returns at once *)
Lemma reach_quiescent_flag pl c n ls : let s := reach pl c n ls in
  (forall p, p < length (prods s) -> pc (get_prod p s) <> PMark) ->
  cons s = CIdle \/ cons s = CBlocked ->
  vals s <> [] -> stop_req s = false -> flag s = true.
Proof.
  intros s Hq Hc Hv Hs.
  destruct (reach_no_lost_wakeup pl c n ls Hv Hs) as [H|[[p [Hp E]]|H]]; [exact H| |].
  - exfalso. exact (Hq p Hp E).
  - fold s in H. destruct Hc as [Hc|Hc]; rewrite Hc in H; discriminate.
Qed.

(* no blocked sender sleeps next to a free slot, or past a stop, without a notify on its way *)
Lemma reach_blocked_sender_not_stuck pl c n ls : let s := reach pl c n ls in
  (exists p, p < length (prods s) /\ pc (get_prod p s) = PWaiting) ->
  (accepting s = false -> cons s = CStopB) /\
  (accepting s = true -> cap s <> 0 /\
     ((pol s = Burst /\ is_popped (cons s) = true) \/
      cap s <= length (vals s) + cnt is_woken (prods s) + b2n (is_popped (cons s)))).
Proof.
  intros s [p [Hp E]]. pose proof (inv_reach pl c n ls) as I. fold s in I.
  assert (Hw : cnt is_waiting (prods s) > 0).
  { apply (cnt_ex_pos is_waiting (prods s) idle_prod p Hp). unfold get_prod in E. rewrite E. reflexivity. }
  split; [apply (i_cvs s I Hw)|apply (i_cva s I Hw)].
Qed.

(* nobody is ever inside a detached control block (the node's storage outlives every call) *)
Lemma reach_no_use_after_detach pl c n ls : let s := reach pl c n ls in
  forall p, p < length (prods s) -> inside (pc (get_prod p s)) = true -> attached s = true.
Proof.
  intros s p Hp Hin. pose proof (inv_reach pl c n ls) as I. fold s in I.
  destruct (attached s) eqn:A; [reflexivity|exfalso].
  pose proof (i_det s I A) as D. rewrite (i_act s I) in D.
  pose proof (cnt_ex_pos inside (prods s) idle_prod p Hp Hin). lia.
Qed.

(* ------------------------------------------------------------------ *)
(* bounded progress: with the evaluation thread running, n queued values take n cycles *)

Definition cycle (s : state) : state := run_cons 8 (do_step s (LCBegin (now s + 1))).
Fixpoint drain (n : nat) (s : state) : state := match n with O => s | S k => drain k (cycle s) end.

Lemma notify_one_fields w s :
  pol (notify_one w s) = pol s /\ vals (notify_one w s) = vals s /\ cons (notify_one w s) = cons s /\
  stop_req (notify_one w s) = stop_req s /\ flag (notify_one w s) = flag s /\ delivered (notify_one w s) = delivered s /\
  accepted (notify_one w s) = accepted s /\ now (notify_one w s) = now s.
Proof. unfold notify_one. destruct (is_waiting (pc (get_prod w s))); unf2; repeat split; reflexivity. Qed.

Lemma run_cons_S f s : run_cons (S f) s =
  match cons s with
  | CIdle | CStopped | CBlocked => s
  | CStopC => if Nat.eqb (active s) 0 then run_cons f (do_step s (LCons 0)) else s
  | _ => run_cons f (do_step s (LCons 0))
  end.
Proof. reflexivity. Qed.

Lemma cycle_queue s v r :
  pol s = Queue -> vals s = v :: r -> cons s = CIdle -> stop_req s = false -> flag s = true ->
  let s' := cycle s in
  pol s' = Queue /\ vals s' = r /\ cons s' = CIdle /\ stop_req s' = false /\ flag s' = negb (is_nil r) /\
  delivered s' = delivered s ++ [((now s + 1)%Z, [v])] /\ accepted s' = accepted s.
Proof.
  intros Hp Hv Hc Hs Hf. unfold cycle.
  assert (E1 : do_step s (LCBegin (now s + 1)) = set_cons (CReset true) (set_flag false (set_now (now s + 1)%Z s))).
  { unfold do_step. cbn [step]. rewrite Hc. destruct (Z.ltb_spec (now s) (now s + 1)); [rewrite Hf; reflexivity|lia]. }
  rewrite E1. clear E1.
  remember (set_cons (CReset true) (set_flag false (set_now (now s + 1)%Z s))) as s1 eqn:Es1.
  assert (P1 : pol s1 = Queue /\ vals s1 = v :: r /\ stop_req s1 = false /\ delivered s1 = delivered s /\ accepted s1 = accepted s /\ now s1 = (now s + 1)%Z /\ cons s1 = CReset true)
    by (rewrite Es1; cbn; repeat split; auto).
  destruct P1 as (P1a & P1b & P1c & P1d & P1e & P1f & P1g).
  assert (E2 : do_step s1 (LCons 0) =
               set_cons (CPopped (negb (is_nil r))) (set_delivered (delivered s1 ++ [(now s1, [v])]) (set_vals r s1))).
  { unfold do_step. cbn [step]. unfold cons_step. rewrite P1g. unfold pop. rewrite P1a, P1b. reflexivity. }
  remember (set_cons (CPopped (negb (is_nil r))) (set_delivered (delivered s1 ++ [(now s1, [v])]) (set_vals r s1))) as s2 eqn:Es2.
  assert (P2 : pol s2 = Queue /\ vals s2 = r /\ stop_req s2 = false /\ delivered s2 = delivered s ++ [((now s + 1)%Z, [v])] /\ accepted s2 = accepted s /\ cons s2 = CPopped (negb (is_nil r)))
    by (rewrite Es2; cbn; rewrite P1d, P1f; repeat split; auto).
  destruct P2 as (P2a & P2b & P2c & P2d & P2e & P2g).
  assert (E3 : do_step s2 (LCons 0) = set_cons (CRearm (negb (is_nil r))) (notify_one 0 s2)).
  { unfold do_step. cbn [step]. unfold cons_step. rewrite P2g, P2a. reflexivity. }
  remember (set_cons (CRearm (negb (is_nil r))) (notify_one 0 s2)) as s3 eqn:Es3.
  destruct (notify_one_fields 0 s2) as (N1 & N2 & N3 & N4 & N5 & N6 & N7 & N8).
  assert (P3 : pol s3 = Queue /\ vals s3 = r /\ stop_req s3 = false /\ delivered s3 = delivered s ++ [((now s + 1)%Z, [v])] /\ accepted s3 = accepted s /\ cons s3 = CRearm (negb (is_nil r)) /\ flag s3 = flag s2)
    by (rewrite Es3; cbn [pol vals stop_req delivered accepted cons flag set_cons]; rewrite N1, N2, N4, N5, N6, N7; repeat split; auto).
  destruct P3 as (P3a & P3b & P3c & P3d & P3e & P3g & P3f).
  assert (F2 : flag s2 = false) by (rewrite Es2, Es1; cbn; reflexivity).
  assert (E4 : do_step s3 (LCons 0) = if negb (is_nil r) then set_cons CIdle (set_flag true s3) else set_cons CIdle s3).
  { unfold do_step. cbn [step]. unfold cons_step. rewrite P3g. destruct (negb (is_nil r)); [rewrite P3c|]; reflexivity. }
  assert (R1 : run_cons 8 s1 = run_cons 7 (do_step s1 (LCons 0))) by (rewrite run_cons_S, P1g; reflexivity).
  assert (R2 : run_cons 7 s2 = run_cons 6 (do_step s2 (LCons 0))) by (rewrite run_cons_S, P2g; reflexivity).
  assert (R3 : run_cons 6 s3 = run_cons 5 (do_step s3 (LCons 0))) by (rewrite run_cons_S, P3g; reflexivity).
  rewrite R1, E2, R2, E3, R3, E4.
  destruct (negb (is_nil r)) eqn:Er.
  - assert (R4 : run_cons 5 (set_cons CIdle (set_flag true s3)) = set_cons CIdle (set_flag true s3)) by (rewrite run_cons_S; reflexivity).
    rewrite R4. cbn [pol vals cons stop_req flag delivered accepted set_cons set_flag]. repeat split; auto.
  - assert (R4 : run_cons 5 (set_cons CIdle s3) = set_cons CIdle s3) by (rewrite run_cons_S; reflexivity).
    rewrite R4. cbn [pol vals cons stop_req flag delivered accepted set_cons set_flag]. rewrite P3f, F2. repeat split; auto.
Qed.

Lemma drain_delivers_all vs : forall s,
  pol s = Queue -> vals s = vs -> cons s = CIdle -> stop_req s = false -> (vs <> [] -> flag s = true) ->
  let s' := drain (length vs) s in
  vals s' = [] /\ cons s' = CIdle /\ accepted s' = accepted s /\
  map snd (delivered s') = map snd (delivered s) ++ map (fun v => [v]) vs.
Proof.
  induction vs as [|v r IH]; intros s Hp Hv Hc Hs Hf; simpl.
  - rewrite app_nil_r. auto.
  - destruct (cycle_queue s v r Hp Hv Hc Hs (Hf ltac:(discriminate))) as (C1 & C2 & C3 & C4 & C5 & C6 & C7).
    destruct (IH (cycle s) C1 C2 C3 C4) as (D1 & D2 & D3 & D4).
    { intros Hr. rewrite C5. destruct r; [congruence|reflexivity]. }
    split; [exact D1|]. split; [exact D2|]. split; [congruence|].
    rewrite D4, C6, map_app. simpl. rewrite <- app_assoc. reflexivity.
Qed.

(* ------------------------------------------------------------------ *)
(* the acceptor decides the declarative statement *)

Local Open Scope Z_scope.

Lemma memz_In v l : memz v l = true <-> In v l.
Proof.
  induction l as [|x r IH]; simpl; [split; [discriminate|tauto]|].
  rewrite orb_true_iff, IH, Z.eqb_eq. tauto.
Qed.

Lemma nodupb_NoDup l : nodupb l = true <-> NoDup l.
Proof.
  induction l as [|x r IH]; simpl; [split; [constructor|reflexivity]|].
  rewrite andb_true_iff, negb_true_iff, IH. split.
  - intros [H1 H2]. constructor; [|exact H2]. intros Hin. apply memz_In in Hin. congruence.
  - intros H. inversion H; subst. split; [|assumption]. destruct (memz x r) eqn:E; [|reflexivity]. apply memz_In in E. contradiction.
Qed.

Lemma increasingb_ok l : increasingb l = true <-> increasing l.
Proof.
  induction l as [|a r IH]; simpl; [tauto|].
  rewrite andb_true_iff, IH. destruct r as [|b r']; [tauto|]. rewrite Z.ltb_lt. tauto.
Qed.

Lemma is_nil_true {A} (l : list A) : is_nil l = true <-> l = [].
Proof. destruct l; simpl; split; congruence. Qed.
Lemma is_nil_false {A} (l : list A) : negb (is_nil l) = true <-> l <> [].
Proof. destruct l; simpl; split; congruence. Qed.

Lemma chk_wf_ok h : chk_wf h = true <->
  (forall x, In x (h_sends h) -> s_b x < s_a x /\ (s_res x = 0 \/ s_res x = 1)) /\
  NoDup (map s_v (h_sends h)) /\ h_err h = false /\ h_stop_b h < h_stop_r h /\ h_stop_b h < h_stop_e h.
Proof.
  unfold chk_wf. rewrite !andb_true_iff, forallb_forall, nodupb_NoDup, negb_true_iff, !Z.ltb_lt.
  split.
  - intros ((((H1 & H2) & H3) & H4) & H5). repeat split; auto; specialize (H1 x H); lia.
  - intros (H1 & H2 & H3 & H4 & H5). repeat split; auto. intros x Hx. specialize (H1 x Hx). lia.
Qed.

Lemma chk_once_ok h : chk_once h = true <->
  NoDup (flat h) /\ forall v, In v (flat h) -> exists x, In x (h_sends h) /\ s_v x = v /\ s_res x = 1.
Proof.
  unfold chk_once. rewrite andb_true_iff, nodupb_NoDup, forallb_forall. split; intros [H1 H2]; (split; [exact H1|]); intros v Hv.
  - specialize (H2 v Hv). apply existsb_exists in H2. destruct H2 as [x [Hx E]]. exists x. split; [exact Hx|lia].
  - destruct (H2 v Hv) as [x [Hx E]]. apply existsb_exists. exists x. split; [exact Hx|lia].
Qed.

Lemma index_of_nonneg v l : 0 <= index_of v l.
Proof. induction l as [|x r IH]; cbn [index_of]; [lia|destruct (x =? v); lia]. Qed.

Lemma index_of_lt v l : index_of v l < zlen l <-> In v l.
Proof.
  unfold zlen. induction l as [|x r IH].
  - cbn. split; [lia|tauto].
  - cbn [index_of length In]. rewrite Nat2Z.inj_succ. pose proof (index_of_nonneg v r) as Hn.
    destruct (Z.eqb_spec x v) as [->|Hne].
    + split; [intros _; left; reflexivity|intros _; lia].
    + split.
      * intros H. right. apply IH. lia.
      * intros [H|H]; [congruence|]. apply IH in H. lia.
Qed.

Lemma chk_fifo_ok h : chk_fifo h = true <->
  forall x y, In x (acc_sends h) -> In y (acc_sends h) -> In (s_v y) (flat h) -> s_a x < s_b y ->
    (if is_confl (h_pol h) then In (s_v x) (flat h) -> index_of (s_v x) (flat h) < index_of (s_v y) (flat h)
     else index_of (s_v x) (flat h) < index_of (s_v y) (flat h)).
Proof.
  unfold chk_fifo. rewrite forallb_forall. split.
  - intros H x y Hx Hy Hin Hlt.
    assert (Hiy : In (y, index_of (s_v y) (flat h)) (map (fun x0 => (x0, index_of (s_v x0) (flat h))) (acc_sends h)))
      by (apply in_map_iff; exists y; auto).
    specialize (H _ Hiy). cbn [fst snd] in H.
    rewrite orb_true_iff, negb_true_iff, forallb_forall in H.
    destruct H as [H|H].
    + apply index_of_lt in Hin. lia.
    + assert (Hi : In (x, index_of (s_v x) (flat h)) (map (fun x0 => (x0, index_of (s_v x0) (flat h))) (acc_sends h)))
        by (apply in_map_iff; exists x; auto).
      specialize (H _ Hi). cbn [fst snd] in H. destruct (is_confl (h_pol h)).
      * intros Hinx. apply index_of_lt in Hinx. lia.
      * lia.
  - intros H yj Hyj. apply in_map_iff in Hyj. destruct Hyj as [y [<- Hy]]. cbn [fst snd].
    rewrite orb_true_iff, negb_true_iff, forallb_forall.
    destruct (Z.ltb_spec (index_of (s_v y) (flat h)) (zlen (flat h))) as [Hlt|Hge]; [right|left; reflexivity].
    intros xi Hxi. apply in_map_iff in Hxi. destruct Hxi as [x [<- Hx]]. cbn [fst snd].
    destruct (Z.ltb_spec (s_a x) (s_b y)) as [Hab|Hab]; [|reflexivity].
    specialize (H x y Hx Hy (proj1 (index_of_lt _ _) Hlt) Hab).
    destruct (is_confl (h_pol h)).
    + destruct (Z.ltb_spec (index_of (s_v x) (flat h)) (zlen (flat h))) as [Hx2|Hx2]; [|reflexivity].
      specialize (H (proj1 (index_of_lt _ _) Hx2)). lia.
    + lia.
Qed.

Lemma chk_times_ok h : chk_times h = true <->
  increasing (map d_t (h_delivs h)) /\ increasing (map d_cs (h_delivs h)) /\
  forall d, In d (h_delivs h) -> d_cs d < d_s d /\
    (if is_queue (h_pol h) || is_confl (h_pol h) then length (d_vals d) = 1%nat else d_vals d <> []).
Proof.
  unfold chk_times. rewrite !andb_true_iff, !increasingb_ok, forallb_forall. split.
  - intros [[H1 H2] H3]. split; [exact H1|]. split; [exact H2|]. intros d Hd. specialize (H3 d Hd).
    apply andb_true_iff in H3. destruct H3 as [H3 H4]. split; [lia|].
    destruct (is_queue (h_pol h) || is_confl (h_pol h)); [apply Nat.eqb_eq; exact H4|apply is_nil_false; exact H4].
  - intros (H1 & H2 & H3). split; [split; assumption|]. intros d Hd. destruct (H3 d Hd) as [H4 H5].
    apply andb_true_iff. split; [lia|].
    destruct (is_queue (h_pol h) || is_confl (h_pol h)); [apply Nat.eqb_eq; exact H5|apply is_nil_false; exact H5].
Qed.

Lemma chk_cap_ok h : chk_cap h = true <->
  (forall tn, In tn (h_samples h) -> snd tn <= (if is_confl (h_pol h) then 1 else h_cap h) \/ (h_cap h = 0 /\ is_confl (h_pol h) = false)) /\
  (h_cap h > 0 -> is_confl (h_pol h) = false -> forall x, In x (acc_sends h) -> undelivered_at_least h x <= h_cap h).
Proof.
  unfold chk_cap. rewrite andb_true_iff, forallb_forall. split.
  - intros [H1 H2]. split.
    + intros tn Htn. specialize (H1 tn Htn). destruct (is_confl (h_pol h)); simpl in *; lia.
    + intros Hc Hf x Hx. rewrite Hf in H2. rewrite !orb_true_iff, forallb_forall in H2.
      destruct H2 as [[H2|H2]|H2]; [lia|discriminate|]. specialize (H2 x Hx). lia.
  - intros [H1 H2]. split.
    + intros tn Htn. specialize (H1 tn Htn). destruct (is_confl (h_pol h)); simpl in *; lia.
    + rewrite !orb_true_iff, forallb_forall.
      destruct (Z.ltb_spec 0 (h_cap h)) as [Hc|Hc]; [|left; left; reflexivity].
      destruct (is_confl (h_pol h)) eqn:Ef; [left; right; reflexivity|right].
      intros x Hx. specialize (H2 ltac:(lia) eq_refl x Hx). lia.
Qed.

Lemma chk_refuse_ok h : chk_refuse h = true <->
  forall r, In r (h_sends h) -> s_res r = 0 ->
    h_stop_b h < s_a r \/
    (s_blk r = false /\ is_confl (h_pol h) = false /\ h_cap h > 0 /\ h_cap h <= queued_at_most h r).
Proof.
  unfold chk_refuse. rewrite forallb_forall. split.
  - intros H r Hr Hres. specialize (H r Hr).
    destruct (s_blk r), (is_confl (h_pol h)); simpl in *; lia.
  - intros H r Hr. specialize (H r Hr).
    destruct (Z.eqb_spec (s_res r) 0) as [E|E]; [|reflexivity]. specialize (H E).
    destruct (s_blk r), (is_confl (h_pol h)); simpl in *; lia.
Qed.

Lemma chk_after_stop_ok h : chk_after_stop h = true <->
  forall x, In x (h_sends h) -> h_stop_r h < s_b x -> s_res x = 0.
Proof.
  unfold chk_after_stop. rewrite forallb_forall. split; intros H x Hx; specialize (H x Hx); lia.
Qed.

Lemma chk_all_ok h : chk_all h = true <->
  (h_full_run h = true ->
   h_stalled h = false /\
   (if is_confl (h_pol h)
    then (acc_sends h <> [] -> flat h <> []) /\
         forall y x, In y (last_deliv_send h) -> In x (acc_sends h) -> ~ s_a y < s_b x
    else forall x, In x (acc_sends h) -> In (s_v x) (flat h))).
Proof.
  unfold chk_all. destruct (h_full_run h); cbn [negb orb]; [|split; [discriminate|reflexivity]].
  rewrite andb_true_iff, negb_true_iff. destruct (is_confl (h_pol h)).
  - rewrite andb_true_iff, orb_true_iff, is_nil_true, is_nil_false, forallb_forall. split.
    + intros [H1 [H2 H3]] _. split; [exact H1|]. split.
      * intros Hne. destruct H2 as [H2|H2]; [contradiction|exact H2].
      * intros y x Hy Hx. specialize (H3 y Hy). rewrite forallb_forall in H3. specialize (H3 x Hx). lia.
    + intros H. destruct (H eq_refl) as [H1 [H2 H3]]. split; [exact H1|]. split.
      * destruct (acc_sends h) eqn:E; [left; reflexivity|right; apply H2; discriminate].
      * intros y Hy. apply forallb_forall. intros x Hx. specialize (H3 y x Hy Hx). lia.
  - rewrite forallb_forall. split.
    + intros [H1 H2] _. split; [exact H1|]. intros x Hx. apply memz_In. apply H2. exact Hx.
    + intros H. destruct (H eq_refl) as [H1 H2]. split; [exact H1|]. intros x Hx. apply memz_In. apply H2. exact Hx.
Qed.

Lemma chk_latest_ok h : chk_latest h = true <->
  (is_confl (h_pol h) = true ->
   forall d y x, In d (h_delivs h) -> In y (acc_sends h) -> In (s_v y) (d_vals d) -> In x (acc_sends h) ->
   ~ (s_a y < s_b x /\ s_a x < d_cs d)).
Proof.
  unfold chk_latest. destruct (is_confl (h_pol h)); cbn [negb orb]; [|split; [discriminate|reflexivity]].
  rewrite forallb_forall. split.
  - intros H _ d y x Hd Hy Hin Hx. specialize (H d Hd). rewrite forallb_forall in H. specialize (H y Hy).
    apply orb_true_iff in H. destruct H as [H|H].
    + apply negb_true_iff in H. apply memz_In in Hin. congruence.
    + rewrite forallb_forall in H. specialize (H x Hx). lia.
  - intros H d Hd. apply forallb_forall. intros y Hy. apply orb_true_iff.
    destruct (memz (s_v y) (d_vals d)) eqn:E; [right|left; reflexivity].
    apply forallb_forall. intros x Hx. apply memz_In in E. specialize (H eq_refl d y x Hd Hy E Hx). lia.
Qed.

Lemma chk_batch_ok h : chk_batch h = true <->
  (is_confl (h_pol h) = false -> h_cap h > 0 -> forall d, In d (h_delivs h) -> zlen (d_vals d) <= h_cap h).
Proof.
  unfold chk_batch. rewrite !orb_true_iff, forallb_forall. split.
  - intros [[H|H]|H] Hc Hp d Hd; [congruence|lia|]. specialize (H d Hd). lia.
  - intros H. destruct (is_confl (h_pol h)); [left; left; reflexivity|].
    destruct (Z.ltb_spec 0 (h_cap h)) as [Hc|Hc]; [right|left; right; reflexivity].
    intros d Hd. specialize (H eq_refl ltac:(lia) d Hd). lia.
Qed.

Theorem history_ok_iff h : pushq_history_ok h = true <-> HistoryOK h.
Proof.
  unfold pushq_history_ok. rewrite !andb_true_iff.
  rewrite chk_wf_ok, chk_once_ok, chk_fifo_ok, chk_times_ok, chk_cap_ok, chk_refuse_ok, chk_after_stop_ok, chk_all_ok, chk_latest_ok, chk_batch_ok.
  split.
  - intros (((((((((H1 & H2) & H3) & H4) & H5) & H6) & H7) & H8) & H9) & H10). constructor; assumption.
  - intros [H1 H2 H3 H4 H5 HB H6 H7 H8 H9]. exact (conj (conj (conj (conj (conj (conj (conj (conj (conj H1 H2) H3) H4) H5) H6) H7) H8) H9) HB).
Qed.
