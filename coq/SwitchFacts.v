(* SwitchFacts.v — lemmas and proofs about Switch.v (property C12).

   Main result: the mirror of switch_node.cpp (two graph slots, parent and child
   schedule slots, push/pull delegation, sampling) refines the specification
   "the selected branch, alone" in lockstep, for every branch set, key history,
   input history and fuel ([refines]).  The remaining theorems are invariants of
   every reachable mirror state. *)
Require Import Base Sched SchedFacts Switch.
From Coq Require Import Sorted ZifyBool.
Notation SSorted := (StronglySorted ev_lt).

(* ------------------------------------------------------------------ *)
(*  select_branch                                                      *)
(* ------------------------------------------------------------------ *)
Lemma find_case_none k cs : find_case k cs = None <-> forall b, ~ In (k, b) cs.
Proof.
  induction cs as [|[k' b'] r IH]; simpl.
  - split; auto.
  - destruct (k' =? k) eqn:E.
    + split; [discriminate|]. intros H. exfalso. apply (H b'). left. f_equal. lia.
    + rewrite IH. split.
      * intros H b [Heq|Hin]; [inversion Heq; lia|]. exact (H b Hin).
      * intros H b Hin. apply (H b). right. exact Hin.
Qed.

Lemma select_branch_none sp k :
  select_branch sp k = None <-> (forall b, ~ In (k, b) (s_cases sp)) /\ s_default sp = None.
Proof.
  unfold select_branch. destruct (find_case k (s_cases sp)) eqn:E.
  - split; [discriminate|]. intros [H _]. pose proof (proj2 (find_case_none k (s_cases sp)) H). congruence.
  - pose proof (proj1 (find_case_none k (s_cases sp)) E) as E'. split; [intros H; split; auto|intros [_ H]; auto].
Qed.

(* ------------------------------------------------------------------ *)
(*  The body node's scheduler (untagged requests only)                 *)
(* ------------------------------------------------------------------ *)
Definition Wf (lo : Z) (s : sched) : Prop :=
  SSorted (events s) /\ Forall (fun e => lo < fst e < MAX_DT) (events s).

Definition hd_time (l : list ev) : option Z := match l with [] => None | e :: _ => Some (fst e) end.

Lemma wf_empty lo : Wf lo empty_sched.
Proof. split; simpl; constructor. Qed.

Lemma wf_weaken lo lo' s : lo' <= lo -> Wf lo s -> Wf lo' s.
Proof.
  intros Hle [Hs Hf]. split; auto. eapply Forall_impl; [|exact Hf]. simpl. intros; lia.
Qed.

Lemma schedule_tag0 now w s :
  schedule now true w 0 s =
  if w <=? now then (s, None)
  else (mkSched (ins (w, 0) (events s)) (tags s),
        if first_time MIN_DT (ins (w, 0) (events s)) <? first_time MAX_DT (events s)
        then Some (first_time MIN_DT (ins (w, 0) (events s))) else None).
Proof. unfold schedule. simpl. destruct (w <=? now); reflexivity. Qed.

Lemma wf_ins lo w s tg : Wf lo s -> lo < w < MAX_DT -> Wf lo (mkSched (ins (w, 0) (events s)) tg).
Proof.
  intros [Hs Hf] Hw. split; simpl.
  - apply sorted_ins; auto.
  - apply Forall_forall. intros x Hx. apply In_ins in Hx. destruct Hx as [->|Hx]; simpl; auto.
    rewrite Forall_forall in Hf. auto.
Qed.

Lemma hd_time_ins e l d : hd_time (ins e l) = Some (first_time d (ins e l)).
Proof.
  destruct (ins e l) eqn:E; simpl; auto.
  assert (H : In e (ins e l)) by (apply In_ins; auto). rewrite E in H. destruct H.
Qed.

Lemma drop_due_spec (P : ev -> Prop) now evs tg :
  SSorted evs -> Forall P evs ->
  SSorted (fst (drop_due now evs tg)) /\ Forall P (fst (drop_due now evs tg)) /\
  Forall (fun e => now < fst e) (fst (drop_due now evs tg)).
Proof.
  revert tg. induction evs as [|e r IH]; intros tg Hs Hp; simpl.
  - repeat split; constructor.
  - destruct (sorted_inv _ _ Hs) as [Hr He]. inversion Hp as [|? ? Pe Pr]; subst.
    destruct (fst e <=? now) eqn:E.
    + apply IH; auto.
    + simpl. repeat split; auto. constructor; [lia|].
      eapply Forall_impl; [|exact He]. intros x Hx. unfold ev_lt in Hx. lia.
Qed.

Lemma advance_post t s :
  Wf (t - 1) s ->
  Wf t (fst (advance t s)) /\ snd (advance t s) = hd_time (events (fst (advance t s))).
Proof.
  intros [Hs Hf]. unfold advance.
  destruct (drop_due_spec (fun e => t - 1 < fst e < MAX_DT) t (events s) (tags s) Hs Hf) as (A & B & C).
  destruct (drop_due t (events s) (tags s)) as [evs tg]; simpl in *.
  split; [split; auto|destruct evs; auto].
  apply Forall_forall. intros x Hx. rewrite Forall_forall in B, C. specialize (B x Hx). specialize (C x Hx). lia.
Qed.

Lemma not_now_wf t s : Wf (t - 1) s -> is_scheduled_now t s = false -> Wf t s.
Proof.
  intros [Hs Hf] Hn. split; auto. unfold is_scheduled_now in Hn.
  destruct (events s) as [|e r] eqn:E; [constructor|].
  apply Forall_forall. intros x Hx.
  pose proof (sorted_head_min e r x Hs Hx) as Hmin.
  rewrite Forall_forall in Hf. pose proof (Hf x Hx) as Hx'. pose proof (Hf e (or_introl eq_refl)) as He'.
  lia.
Qed.

Lemma now_first t s : is_scheduled_now t s = true -> exists e r, events s = e :: r /\ fst e = t.
Proof.
  unfold is_scheduled_now. destruct (events s) as [|e r]; [discriminate|]. intros H. exists e, r. split; auto. lia.
Qed.

(* a body never asks for a delay above D *)
Definition body_bounded (D : Z) (b : body) : Prop :=
  0 <= b_sd b <= D /\
  forall st wk ivs, match snd (b_step b st wk ivs) with Some d => d <= D | None => True end.

(* the tail of node.cpp evaluate_impl: advance when the timer fired, else re-arm *)
Definition tail (t : Z) (scheduled_now : bool) (s : sched) : sched * option Z :=
  if scheduled_now then advance t s
  else (s, if is_scheduled s then Some (next_scheduled_time s) else None).

Lemma tail_post t s :
  Wf (t - 1) s ->
  Wf t (fst (tail t (is_scheduled_now t s) s)) /\
  snd (tail t (is_scheduled_now t s) s) = hd_time (events (fst (tail t (is_scheduled_now t s) s))).
Proof.
  intros H. unfold tail. destruct (is_scheduled_now t s) eqn:E.
  - apply advance_post; auto.
  - simpl. split; [apply not_now_wf; auto|].
    unfold is_scheduled, next_scheduled_time. destruct (events s); auto.
Qed.

Ltac fin4 := simpl; split; [assumption|]; split; [reflexivity|]; split; [reflexivity|]; split; [reflexivity|].

Lemma node_eval_post t ivs i D :
  Wf (t - 1) (i_sch i) -> body_bounded D (br_body (i_br i)) -> t + D < MAX_DT ->
  let r := node_eval t ivs i in
  Wf t (i_sch (r_inst r)) /\
  i_br (r_inst r) = i_br i /\ i_id (r_inst r) = i_id i /\ i_samp (r_inst r) = i_samp i /\
  exists p1, r_push r = opt_list p1 ++ opt_list (hd_time (events (i_sch (r_inst r)))) /\
             (forall p, p1 = Some p -> hd_time (events (i_sch (r_inst r))) = Some p).
Proof.
  intros Hwf [_ Hb] HD r. subst r. unfold node_eval.
  set (sn := is_scheduled_now t (i_sch i)).
  destruct (match ivs with [] => true | _ :: _ => forallb v_valid ivs end).
  - pose proof (Hb (i_state i) sn ivs) as Hd.
    destruct (b_step (br_body (i_br i)) (i_state i) sn ivs) as [[st' em] wk] eqn:Estep. simpl in Hd.
    destruct wk as [d|].
    + rewrite schedule_tag0. destruct (t + d <=? t) eqn:Erej.
      * (* request ignored *)
        fold (tail t sn (i_sch i)). destruct (tail t sn (i_sch i)) as [s2 p2] eqn:Et.
        pose proof (tail_post t (i_sch i) Hwf) as [A B]. fold sn in A, B. rewrite Et in A, B. simpl in *.
        fin4. exists None. simpl. rewrite B. split; auto. discriminate.
      * (* request accepted *)
        set (s1 := mkSched (ins (t + d, 0) (events (i_sch i))) (tags (i_sch i))).
        assert (Hw1 : Wf (t - 1) s1) by (apply wf_ins; auto; lia).
        destruct sn eqn:Esn.
        -- (* the timer fired: the new request is not the earliest, advance re-arms *)
           destruct (now_first _ _ Esn) as (e0 & r0 & Eev & Ee0).
           assert (Ep : (first_time MIN_DT (ins (t + d, 0) (events (i_sch i))) <? first_time MAX_DT (events (i_sch i))) = false).
           { destruct Hwf as [Hs _]. rewrite (first_time_ins_le MIN_DT (t + d, 0) _ Hs). rewrite Eev. simpl. lia. }
           rewrite Ep.
           pose proof (advance_post t s1 Hw1) as [A B]. fold s1.
           destruct (advance t s1) as [s2 p2]. simpl in *.
           fin4. exists None. simpl. rewrite B. split; auto. discriminate.
        -- (* ran because an input ticked *)
           assert (Hw1' : Wf t s1).
           { apply wf_ins; [apply not_now_wf; auto|lia]. }
           fold s1. simpl.
           fin4.
           unfold is_scheduled, next_scheduled_time. simpl events.
           pose proof (hd_time_ins (t + d, 0) (events (i_sch i)) MIN_DT) as Hh.
           destruct (ins (t + d, 0) (events (i_sch i))) as [|e1 r1] eqn:Eins; [discriminate|].
           simpl in *.
           destruct (fst e1 <? first_time MAX_DT (events (i_sch i))).
           ++ exists (Some (fst e1)). split; auto.
           ++ exists None. split; auto. discriminate.
    + fold (tail t sn (i_sch i)). destruct (tail t sn (i_sch i)) as [s2 p2] eqn:Et.
      pose proof (tail_post t (i_sch i) Hwf) as [A B]. fold sn in A, B. rewrite Et in A, B. simpl in *.
      fin4. exists None. simpl. rewrite B. split; auto. discriminate.
  - fold (tail t sn (i_sch i)). destruct (tail t sn (i_sch i)) as [s2 p2] eqn:Et.
    pose proof (tail_post t (i_sch i) Hwf) as [A B]. fold sn in A, B. rewrite Et in A, B. simpl in *.
    fin4. exists None. simpl. rewrite B. split; auto. discriminate.
Qed.

(* ------------------------------------------------------------------ *)
(*  One branch graph                                                   *)
(* ------------------------------------------------------------------ *)

(* the child graph's slot / cache while it evaluates at t *)
Definition J (t : Z) (c : child) : Prop :=
  c_etime c = t /\ ((c_slot c <= t /\ c_nst c = MAX_DT) \/ (t < c_slot c /\ c_nst c = c_slot c)).

Lemma child_schedule_eval t w c :
  J t c -> t < w < MAX_DT ->
  exists c', child_schedule true t w c = (c', None, false) /\ J t c' /\
             c_inst c' = c_inst c /\ c_started c' = c_started c /\
             c_slot c' = (if c_slot c <=? t then w else Z.min (c_slot c) w).
Proof.
  intros [He Hs] Hw. unfold child_schedule. replace (Z.max w t) with w by lia. rewrite He.
  replace (w <? t) with false by lia. simpl negb. rewrite Bool.andb_false_r. simpl andb.
  rewrite Bool.orb_true_r.
  destruct ((c_slot c <=? t) || (w <? c_slot c)) eqn:E.
  - eexists. split; [reflexivity|]. unfold J; simpl. split; [split; auto|split; [auto|split; [auto|]]].
    + right. destruct Hs as [[A B]|[A B]]; rewrite B.
      * replace ((t <? w) && (w <? MAX_DT)) with true by lia. lia.
      * replace ((t <? w) && (w <? c_slot c)) with true by lia. lia.
    + destruct (c_slot c <=? t) eqn:F; lia.
  - eexists. split; [reflexivity|]. unfold J. split; [split; auto|split; [auto|split; [auto|]]].
    destruct (c_slot c <=? t) eqn:F; lia.
Qed.

Lemma push_all_post t c p1 hd :
  J t c -> c_slot c <= t ->
  (forall p, p1 = Some p -> hd = Some p) ->
  (forall f, hd = Some f -> t < f < MAX_DT) ->
  exists c', push_all t (opt_list p1 ++ opt_list hd) c = (c', false) /\
             c_inst c' = c_inst c /\ c_started c' = c_started c /\ c_etime c' = t /\
             match hd with
             | None => c_slot c' <= t /\ c_nst c' = MAX_DT
             | Some f => c_slot c' = f /\ c_nst c' = f
             end.
Proof.
  intros HJ Hsl Hp Hf. destruct hd as [f|].
  - specialize (Hf f eq_refl).
    assert (One : forall c0, J t c0 -> (c_slot c0 <= t \/ c_slot c0 = f) ->
              exists c', child_schedule true t f c0 = (c', None, false) /\ J t c' /\
                         c_inst c' = c_inst c0 /\ c_started c' = c_started c0 /\ c_slot c' = f).
    { intros c0 J0 S0. destruct (child_schedule_eval t f c0 J0 Hf) as (c' & E & J' & I' & St' & Sl').
      exists c'. split; [exact E|]. split; [exact J'|]. split; [exact I'|]. split; [exact St'|].
      rewrite Sl'. destruct S0; destruct (c_slot c0 <=? t) eqn:F; lia. }
    assert (Fin : forall c', J t c' -> c_slot c' = f -> c_etime c' = t /\ c_slot c' = f /\ c_nst c' = f).
    { intros c' [A [[B C]|[B C]]] S'; repeat split; auto; lia. }
    destruct p1 as [p|]; simpl.
    + assert (p = f) by (specialize (Hp p eq_refl); congruence). subst p.
      destruct (One c HJ (or_introl Hsl)) as (c1 & E1 & J1 & I1 & St1 & Sl1). rewrite E1.
      destruct (One c1 J1 (or_intror Sl1)) as (c2 & E2 & J2 & I2 & St2 & Sl2). rewrite E2.
      exists c2. destruct (Fin c2 J2 Sl2) as (A & B & C). repeat split; auto; congruence.
    + destruct (One c HJ (or_introl Hsl)) as (c1 & E1 & J1 & I1 & St1 & Sl1). rewrite E1.
      exists c1. destruct (Fin c1 J1 Sl1) as (A & B & C). repeat split; auto.
  - destruct p1 as [p|]; [specialize (Hp p eq_refl); discriminate|]. simpl.
    exists c. destruct HJ as [A [[B C]|[B C]]]; repeat split; auto; lia.
Qed.

(* the schedule state a branch graph must be in when its parent evaluates it at t:
   its node's slot says "now" exactly when the node is due *)
Definition pre_ok (t : Z) (dueb : bool) (c : child) : Prop :=
  c_started c = true /\ Wf (t - 1) (i_sch (c_inst c)) /\
  (dueb = false -> is_scheduled_now t (i_sch (c_inst c)) = false) /\
  if dueb then c_slot c = t
  else match events (i_sch (c_inst c)) with
       | [] => c_slot c < t
       | e :: _ => c_slot c = fst e
       end.

(* ... and the state it is left in *)
Definition post_ok (t : Z) (c : child) (push : option Z) : Prop :=
  c_started c = true /\ c_etime c = t /\ Wf t (i_sch (c_inst c)) /\
  match events (i_sch (c_inst c)) with
  | [] => c_slot c <= t /\ push = None
  | e :: _ => c_slot c = fst e /\ push = Some (fst e)
  end.

Definition eval_line (t id : Z) (l : line) : Prop :=
  exists k rest, l = k :: t :: id :: rest /\ 24 <= k <= 28.

Lemma node_eval_log t ivs i : Forall (eval_line t (i_id i)) (r_log (node_eval t ivs i)).
Proof.
  unfold node_eval.
  destruct (match ivs with [] => true | _ :: _ => forallb v_valid ivs end).
  - destruct (b_step (br_body (i_br i)) (i_state i) (is_scheduled_now t (i_sch i)) ivs) as [[st' em] wk].
    assert (L26 : eval_line t (i_id i) ([26; t; i_id i; i_state i; b2z (is_scheduled_now t (i_sch i))] ++ concat (map iv_line ivs))).
    { eexists 26, _. simpl. split; [reflexivity|lia]. }
    assert (L27 : Forall (eval_line t (i_id i)) (match em with Some v => [[27; t; i_id i; v]] | None => [] end)).
    { destruct em; constructor; [|constructor]. eexists 27, _. split; [reflexivity|lia]. }
    destruct wk as [d|].
    + destruct (schedule t true (t + d) 0 (i_sch i)) as [s' p].
      destruct (if is_scheduled_now t (i_sch i) then advance t s' else _) as [s2 p2]. simpl.
      constructor; auto. apply Forall_app. split; auto. constructor; [|constructor].
      eexists 28, _. split; [reflexivity|lia].
    + destruct (if is_scheduled_now t (i_sch i) then advance t (i_sch i) else _) as [s2 p2]. simpl.
      constructor; auto. rewrite app_nil_r. auto.
  - destruct (if is_scheduled_now t (i_sch i) then advance t (i_sch i) else _) as [s2 p2]. simpl. constructor.
Qed.

Lemma child_evaluate_post t ivs c dueb D :
  pre_ok t dueb c -> body_bounded D (br_body (i_br (c_inst c))) -> t + D < MAX_DT ->
  let r := child_evaluate t ivs c in
  cr_err r = 0 /\
  c_inst (cr_child r) = (if dueb then r_inst (node_eval t ivs (c_inst c)) else c_inst c) /\
  cr_emit r = (if dueb then r_emit (node_eval t ivs (c_inst c)) else None) /\
  post_ok t (cr_child r) (cr_push r) /\
  Forall (eval_line t (i_id (c_inst c))) (cr_log r).
Proof.
  intros (Hst & Hwf & Hnd & Hsl) Hb HD r. subst r. unfold child_evaluate. rewrite Hst. simpl negb. cbv iota.
  cbn [c_slot c_inst c_nst c_started c_etime].
  assert (L24 : eval_line t (i_id (c_inst c)) [24; t; i_id (c_inst c)]).
  { eexists 24, _. split; [reflexivity|lia]. }
  destruct dueb.
  - rewrite Hsl. rewrite Z.eqb_refl.
    destruct (node_eval_post t ivs (c_inst c) D Hwf Hb HD) as (Wf' & Ibr & Iid & Isamp & p1 & Ep & Hp1).
    set (r := node_eval t ivs (c_inst c)) in *.
    set (c1 := set_inst (r_inst r) (mkChild (c_inst c) true t MAX_DT t)).
    assert (J1 : J t c1) by (unfold J, c1; simpl; split; auto; left; split; [lia|auto]).
    assert (Hf : forall f, hd_time (events (i_sch (r_inst r))) = Some f -> t < f < MAX_DT).
    { intros f Hh. destruct Wf' as [_ Fa]. destruct (events (i_sch (r_inst r))) as [|e r0]; [discriminate|].
      inversion Hh; subst. inversion Fa; auto. }
    destruct (push_all_post t c1 p1 _ J1 (Z.le_refl t) Hp1 Hf) as (c2 & E2 & I2 & St2 & Et2 & Sl2).
    rewrite Ep. rewrite E2. cbn [cr_err cr_child cr_emit cr_push cr_log].
    split; [reflexivity|]. split; [rewrite I2; reflexivity|]. split; [reflexivity|].
    split.
    + unfold post_ok. rewrite St2, Et2, I2. unfold c1 at 1 2 3. simpl.
      split; [auto|split; [auto|split; [exact Wf'|]]].
      pose proof (proj2 Wf') as Fa.
      destruct (events (i_sch (r_inst r))) as [|e r0] eqn:Eev; simpl in Sl2.
      * destruct Sl2 as [A B]. rewrite B. split; auto.
      * destruct Sl2 as [A B]. rewrite A, B. inversion Fa; subst.
        replace (fst e <? MAX_DT) with true by lia. auto.
    + constructor; auto. constructor.
      * eexists 25, _. split; [reflexivity|lia].
      * apply node_eval_log.
  - specialize (Hnd eq_refl). pose proof (not_now_wf t _ Hwf Hnd) as Wf'.
    assert (Hne : (c_slot c =? t) = false).
    { destruct Wf' as [_ Fa]. destruct (events (i_sch (c_inst c))) as [|e r0]; [lia|]. inversion Fa; subst. lia. }
    rewrite Hne. cbn [cr_err cr_child cr_emit cr_push cr_log].
    split; [reflexivity|].
    destruct (events (i_sch (c_inst c))) as [|e r0] eqn:Eev.
    + replace ((t <? c_slot c) && (c_slot c <? MAX_DT)) with false by lia. simpl.
      split; [reflexivity|]. split; [reflexivity|]. split; [|constructor; auto].
      unfold post_ok. simpl. rewrite Eev. repeat split; auto; try lia. apply Wf'.  apply Wf'.
    + destruct Wf' as [Ws Fa]. rewrite Eev in Fa. inversion Fa; subst.
      replace ((t <? c_slot c) && (c_slot c <? MAX_DT)) with true by lia. simpl.
      split; [reflexivity|]. split; [reflexivity|]. split; [|constructor; auto].
      unfold post_ok. simpl. rewrite Eev. rewrite Hsl.
      replace (fst e <? MAX_DT) with true by lia.
      repeat split; auto. rewrite Eev. auto.
Qed.

(* ------------------------------------------------------------------ *)
(*  Abstraction of a mirror state to a specification state             *)
(* ------------------------------------------------------------------ *)
Definition is_rec (l : line) : bool := match l with k :: _ => (k =? 20) || (k =? 21) | [] => false end.
Definition outs_of (log : list line) : list line := filter is_rec log.
Definition cycles_of (log : list line) : list Z :=
  flat_map (fun l => match l with [k; t] => if k =? 10 then [t] else [] | _ => [] end) log.

Definition abs (m : mst) : sst :=
  mkS (m_now m) (m_srcs m)
      (match w_active (m_w m), w_akey (m_w m) with
       | Some a, Some k => match getg a (m_w m) with Some c => Some (k, c_inst c) | None => None end
       | _, _ => None
       end)
      (m_ninst m) (m_out m) (outs_of (m_log m)) (cycles_of (m_log m)) (m_err m).

(* lines that are neither cycle markers nor recorder lines *)
Definition quiet (l : line) : Prop := outs_of [l] = [] /\ cycles_of [l] = [].

Lemma outs_of_app a b : outs_of (a ++ b) = outs_of a ++ outs_of b.
Proof. unfold outs_of. apply filter_app. Qed.
Lemma cycles_of_app a b : cycles_of (a ++ b) = cycles_of a ++ cycles_of b.
Proof. unfold cycles_of. apply flat_map_app. Qed.

Lemma quiet_all l : Forall quiet l -> outs_of l = [] /\ cycles_of l = [].
Proof.
  induction l as [|x r IH]; intros F; [split; reflexivity|]. inversion F as [|? ? [Q1 Q2] Fr]; subst.
  destruct (IH Fr) as [I1 I2].
  change (x :: r) with ([x] ++ r). rewrite outs_of_app, cycles_of_app, Q1, Q2, I1, I2. split; reflexivity.
Qed.

Lemma quiet_app ls log :
  Forall quiet ls -> outs_of (rev ls ++ log) = outs_of log /\ cycles_of (rev ls ++ log) = cycles_of log.
Proof.
  intros H. assert (B : Forall quiet (rev ls)) by (apply Forall_rev; auto).
  destruct (quiet_all _ B) as [A1 A2]. rewrite outs_of_app, cycles_of_app, A1, A2. split; reflexivity.
Qed.

Lemma eval_line_quiet t id l : eval_line t id l -> quiet l.
Proof.
  intros (k & rest & -> & Hk). unfold quiet, outs_of, cycles_of, is_rec. simpl.
  replace ((k =? 20) || (k =? 21)) with false by lia.
  destruct rest as [|a [|b [|c r]]]; simpl; auto.
Qed.

Lemma quiet_lit k rest : k <> 10 -> k <> 20 -> k <> 21 -> quiet (k :: rest).
Proof.
  intros H1 H2 H3. unfold quiet, outs_of, cycles_of, is_rec. simpl.
  replace ((k =? 20) || (k =? 21)) with false by lia.
  destruct rest as [|a [|b r]]; simpl; auto.
  replace (k =? 10) with false by lia. auto.
Qed.

(* ------------------------------------------------------------------ *)
(*  The invariant of the mirror at cycle boundaries                    *)
(* ------------------------------------------------------------------ *)
Definition idle_ok (now pslot : Z) (c : child) : Prop :=
  c_started c = true /\ c_etime c = now /\ i_samp (c_inst c) <= now /\ Wf now (i_sch (c_inst c)) /\
  match events (i_sch (c_inst c)) with
  | [] => pslot <= now /\ c_slot c <= now
  | e :: _ => pslot = fst e /\ c_slot c = fst e
  end.

(* the slot that is not active holds nothing, or the stopped previous graph *)
Definition other_ok (w : swst) (a : bool) : Prop :=
  match getg (negb a) w with
  | None => w_prev w = None
  | Some c' => c_started c' = false /\ w_prev w = Some (negb a)
  end.

Definition srcs_ok (now : Z) (srcs : list srcv) : Prop :=
  exists s0 s1 s2, srcs = [s0; s1; s2] /\ snd s0 <= now /\ snd s1 <= now /\ snd s2 <= now.

Definition Good (D : Z) (m : mst) : Prop :=
  0 <= m_now m /\ m_err m = 0 /\ srcs_ok (m_now m) (m_srcs m) /\ o_lmt (m_out m) <= m_now m /\
  match w_active (m_w m) with
  | None => m_w m = empty_w /\ m_pslot m <= m_now m /\ fst (hd no_src (m_srcs m)) = None /\ m_out m = out0
  | Some a => exists c k, getg a (m_w m) = Some c /\ w_akey (m_w m) = Some k /\
                          idle_ok (m_now m) (m_pslot m) c /\ other_ok (m_w m) a /\
                          body_bounded D (br_body (i_br (c_inst c)))
  end.

Definition sp_bounded (D : Z) (sp : swspec) : Prop :=
  forall k br, select_branch sp k = Some br -> body_bounded D (br_body br).

(* ---- notifications ---- *)
Lemma child_schedule_idle now t c :
  c_started c = true -> c_etime c = now -> now < t -> (c_slot c <= now \/ t <= c_slot c) ->
  exists c', child_schedule false t t c = (c', Some t, false) /\
             c_inst c' = c_inst c /\ c_started c' = true /\ c_etime c' = now /\ c_slot c' = t.
Proof.
  intros Hst He Hlt Hsl. unfold child_schedule. rewrite Z.max_id, He, Hst. simpl negb. simpl andb. simpl orb.
  replace (t <? now) with false by lia.
  destruct ((c_slot c <=? now) || (t <? c_slot c)) eqn:E.
  - match goal with |- context [if ?b then set_nst _ _ else _] => destruct b end;
      (eexists; split; [reflexivity|]; simpl; repeat split; auto).
  - assert (c_slot c = t) by lia.
    match goal with |- context [if ?b then set_nst _ _ else _] => destruct b end;
      (eexists; split; [reflexivity|]; simpl; repeat split; auto).
Qed.

Lemma parent_schedule_now t srcs w p n o lg :
  parent_schedule t (mkM t srcs w p n o lg 0) = mkM t srcs w t n o lg 0.
Proof.
  unfold parent_schedule. simpl. rewrite Z.ltb_irrefl.
  replace ((p <=? t) || (t <? p)) with true by lia. reflexivity.
Qed.

Lemma setg_getg_id a w c : getg a w = Some c -> setg a (Some c) w = w.
Proof. destruct w, a; simpl; intros ->; reflexivity. Qed.

Lemma notify_phase sp t tks srcs' w n o lg a c now :
  getg a w = Some c -> other_ok w a ->
  c_started c = true -> c_etime c = now -> now < t -> (c_slot c <= now \/ t <= c_slot c) ->
  exists c2,
    notify_child sp t tks true (notify_child sp t tks false (mkM t srcs' w t n o lg 0)) =
      mkM t srcs' (setg a (Some c2) w) t n o lg 0 /\
    c_inst c2 = c_inst c /\ c_started c2 = true /\ c_etime c2 = now /\
    c_slot c2 = (if bound_ticked sp (i_br (c_inst c)) tks then t else c_slot c).
Proof.
  intros Hg Ho Hst He Hlt Hsl.
  destruct (child_schedule_idle now t c Hst He Hlt Hsl) as (c' & Ec & Ic & Sc & Etc & Slc).
  assert (Skip : forall b m, (match getg b (m_w m) with Some c0 => c_started c0 = false | None => True end) ->
                        notify_child sp t tks b m = m).
  { intros b m0 H. unfold notify_child. destruct (getg b (m_w m0)) as [c0|]; auto. rewrite H. reflexivity. }
  unfold other_ok in Ho.
  destruct a; simpl in Hg, Ho.
  - (* active graph in slot 1 *)
    rewrite (Skip false) by (simpl; destruct (w_g0 w) as [c0|]; [apply Ho|exact I]).
    unfold notify_child. simpl. rewrite Hg, Hst. simpl.
    destruct (bound_ticked sp (i_br (c_inst c)) tks).
    + rewrite Ec. simpl. unfold set_w. simpl. rewrite parent_schedule_now.
      exists c'. repeat split; auto.
    + exists c. split; [destruct w; simpl in *; rewrite Hg; reflexivity|repeat split; auto].
  - unfold notify_child at 2. simpl. rewrite Hg, Hst. simpl.
    destruct (bound_ticked sp (i_br (c_inst c)) tks).
    + rewrite Ec. simpl. unfold set_w. simpl. rewrite parent_schedule_now.
      rewrite (Skip true) by (simpl; destruct w; simpl in *; destruct w_g1 as [c0|]; [apply Ho|exact I]).
      exists c'. repeat split; auto.
    + rewrite (Skip true) by (simpl; destruct (w_g1 w) as [c0|]; [apply Ho|exact I]).
      exists c. split; [destruct w; simpl in *; rewrite Hg; reflexivity|repeat split; auto].
Qed.

(* ---- a freshly constructed branch graph: start + sampling ---- *)
Ltac proj := cbn [c_inst c_started c_slot c_nst c_etime i_br i_id i_state i_sch i_samp set_inst set_nst
                    fst snd negb andb orb events tags empty_sched b_sos br_body].

Lemma schedule_start t sd :
  0 <= sd -> t + sd < MAX_DT ->
  schedule t false (t + sd) 0 empty_sched = (mkSched [(t + sd, 0)] [], Some (t + sd)).
Proof.
  intros H0 H. unfold schedule. replace (t + sd <? t) with false by lia.
  change (0 =? 0) with true. cbn [negb events tags empty_sched ins first_time fst].
  replace (t + sd <? MAX_DT) with true by lia. reflexivity.
Qed.

Lemma child_start_new br id t :
  0 < t -> 0 <= b_sd (br_body br) -> t + b_sd (br_body br) < MAX_DT ->
  child_start t (new_child br id t) =
    mkChild (fst (inst_start t (fresh_inst br id t))) true
            (if b_sos (br_body br) then t + b_sd (br_body br) else MIN_DT)
            (if b_sos (br_body br) then t + b_sd (br_body br) else MAX_DT) t.
Proof.
  intros Ht H0 HM. unfold child_start, new_child, inst_start, fresh_inst. proj.
  destruct (b_sos (br_body br)).
  - rewrite schedule_start by lia. proj. set (sd := b_sd (br_body br)) in *.
    unfold child_schedule. proj. replace (Z.max (t + sd) t) with (t + sd) by lia.
    replace (t + sd <? t) with false by lia.
    replace (MIN_DT <=? t) with true by (unfold MIN_DT; lia). proj.
    replace (t <=? t + sd) with true by lia. replace (t + sd <? MAX_DT) with true by lia.
    destruct (t <? t + sd) eqn:E; proj; replace (t + sd <? MAX_DT) with true by lia; reflexivity.
  - proj. replace (t <=? MIN_DT) with false by (unfold MIN_DT; lia). reflexivity.
Qed.

Lemma sample_consumers_post t ivs c :
  c_started c = true -> c_etime c = t ->
  exists c2 ps, sample_consumers t ivs c = (c2, ps) /\ Forall (eq t) ps /\
                c_inst c2 = c_inst c /\ c_started c2 = true /\ c_etime c2 = t /\
                c_slot c2 = (if existsb v_valid ivs then t else c_slot c).
Proof.
  revert c. induction ivs as [|v r IH]; intros c Hst He; simpl.
  - exists c, []. repeat split; auto.
  - destruct (v_valid v); simpl.
    + assert (One : exists c1, child_schedule false t t c = (c1, Some t, false) /\ c_inst c1 = c_inst c /\
                               c_started c1 = true /\ c_etime c1 = t /\ c_slot c1 = t).
      { unfold child_schedule. rewrite Z.max_id, He, Hst, Z.ltb_irrefl. simpl.
        replace ((c_slot c <=? t) || (t <? c_slot c)) with true by lia. simpl.
        match goal with |- context [if ?b then set_nst _ _ else _] => destruct b end;
          (eexists; split; [reflexivity|]; simpl; repeat split; auto). }
      destruct One as (c1 & E1 & I1 & S1 & T1 & L1). rewrite E1.
      destruct (IH c1 S1 T1) as (c2 & ps & E2 & F2 & I2 & S2 & T2 & L2). rewrite E2.
      exists c2, (t :: ps). simpl. repeat split; auto; try congruence.
      rewrite L2. destruct (existsb v_valid r); auto.
    + apply IH; auto.
Qed.

Lemma views_fresh_exists t l :
  existsb (fun v => v_valid v && v_mod v) (map (view_of t t) l) = existsb v_valid (map (view_of t t) l).
Proof.
  induction l as [|s r IH]; simpl; auto. rewrite IH. f_equal.
  unfold view_of. destruct (fst s); simpl; auto. rewrite Z.eqb_refl. reflexivity.
Qed.

Lemma inst_start_fresh br id t :
  0 <= b_sd (br_body br) -> t + b_sd (br_body br) < MAX_DT ->
  fst (inst_start t (fresh_inst br id t)) =
    mkInst br id 0 (if b_sos (br_body br) then mkSched [(t + b_sd (br_body br), 0)] [] else empty_sched) t.
Proof.
  intros H0 Ht. unfold inst_start, fresh_inst. proj. destruct (b_sos (br_body br)); [|reflexivity].
  rewrite schedule_start by lia. reflexivity.
Qed.

Lemma fresh_child_post sp br id t srcs :
  0 < t -> 0 <= b_sd (br_body br) -> t + b_sd (br_body br) < MAX_DT ->
  let i' := fst (inst_start t (fresh_inst br id t)) in
  let c1 := child_start t (new_child br id t) in
  exists c2 ps, sample_consumers t (views sp t srcs (c_inst c1)) c1 = (c2, ps) /\ Forall (eq t) ps /\
                c_inst c1 = i' /\ c_inst c2 = i' /\ c_etime c2 = t /\
                pre_ok t (due t (views sp t srcs i') i') c2.
Proof.
  intros Ht H0 HM i' c1. unfold c1. rewrite (child_start_new br id t Ht H0 HM). fold i'. cbn [c_inst].
  set (c1' := mkChild i' true _ _ t).
  destruct (sample_consumers_post t (views sp t srcs i') c1' eq_refl eq_refl) as (c2 & ps & E & F & I2 & S2 & T2 & L2).
  exists c2, ps. split; [exact E|]. split; [exact F|]. split; [reflexivity|]. split; [exact I2|]. split; [exact T2|].
  set (sd := b_sd (br_body br)) in *.
  assert (Ei : i' = mkInst br id 0 (if b_sos (br_body br) then mkSched [(t + sd, 0)] [] else empty_sched) t).
  { unfold i'. apply inst_start_fresh; auto. }
  assert (Ev : existsb (fun v => v_valid v && v_mod v) (views sp t srcs i') = existsb v_valid (views sp t srcs i')).
  { unfold views. rewrite Ei. cbn [i_samp]. apply views_fresh_exists. }
  unfold pre_ok, due. rewrite Ev, I2, L2. unfold c1'. cbn [c_inst c_slot].
  split; [exact S2|].
  generalize (existsb v_valid (views sp t srcs i')). intros ev.
  rewrite Ei. cbn [i_sch]. destruct (b_sos (br_body br)).
  - split; [split; [constructor; constructor|constructor; [simpl; lia|constructor]]|].
    unfold is_scheduled_now. cbn [events]. cbn [fst].
    destruct (t + sd =? t) eqn:E0; cbn [orb].
    + split; [discriminate|]. destruct ev; lia.
    + split; [auto|]. destruct ev; reflexivity.
  - split; [apply wf_empty|]. unfold is_scheduled_now. cbn [events empty_sched orb].
    split; [reflexivity|]. destruct ev; [reflexivity|unfold MIN_DT; lia].
Qed.

Lemma parent_schedule_all_now t srcs w n o lg ps :
  Forall (eq t) ps ->
  parent_schedule_all ps (mkM t srcs w t n o lg 0) = mkM t srcs w t n o lg 0.
Proof.
  induction ps as [|p r IH]; intros F; simpl; auto. inversion F; subst.
  rewrite parent_schedule_now. auto.
Qed.

(* the storage a key tick may find: nothing yet, or one active graph and a retired one *)
Definition store_ok (t : Z) (w : swst) : Prop :=
  match w_active w with
  | None => w = empty_w
  | Some a => exists c, getg a w = Some c /\ c_started c = true /\ c_etime c <= t /\ other_ok w a
  end.

Lemma activate_post sp br k t srcs w n o lg :
  0 < t < MAX_DT -> 0 <= b_sd (br_body br) -> t + b_sd (br_body br) < MAX_DT -> store_ok t w ->
  let next := match w_active w with Some a => negb a | None => false end in
  let i' := fst (inst_start t (fresh_inst br n t)) in
  exists w' c2 lg',
    activate_branch sp br k t (mkM t srcs w t n o lg 0) =
      mkM t srcs w' t (n + 1) (match w_active w with Some _ => reset_out (s_set sp) t o | None => o end) (rev lg' ++ lg) 0 /\
    Forall quiet lg' /\
    w_active w' = Some next /\ w_akey w' = Some k /\ getg next w' = Some c2 /\ other_ok w' next /\
    c_inst c2 = i' /\ c_etime c2 = t /\ pre_ok t (due t (views sp t srcs i') i') c2.
Proof.
  intros Ht H0 HM Hs next i'.
  destruct (fresh_child_post sp br n t srcs (proj1 Ht) H0 HM) as (c2 & ps & Esc & Fps & Ic1 & Ic2 & Ec2 & Pre2).
  fold i' in Ic1, Ic2, Pre2.
  assert (Q22 : forall id b, quiet [22; t; id; b]) by (intros; apply quiet_lit; lia).
  assert (Q23 : forall id b, quiet [23; t; id; b]) by (intros; apply quiet_lit; lia).
  destruct w as [g0 g1 act prev akey]. unfold store_ok in Hs. simpl in Hs. unfold next. simpl w_active.
  destruct act as [a|].
  - destruct Hs as (c & Hg & Hst & Hec & Ho). unfold other_ok in Ho.
    destruct a; simpl in Hg, Ho; rewrite Hg in *; clear Hg.
    + (* active in slot 1, slot 0 is reused *)
      unfold activate_branch. simpl.
      assert (Hp : match prev with Some p => negb (eqb p false) | None => false end = false).
      { destruct g0 as [c'|]; [destruct Ho as [_ ->]|rewrite Ho]; reflexivity. }
      assert (Hr : match g0 with Some c1 => c_started c1 | None => false end = false).
      { destruct g0 as [c'|]; [destruct Ho as [-> _]|]; reflexivity. }
      rewrite Hp, Hr. unfold switch_teardown. simpl. unfold child_stop. rewrite Hst. simpl.
      replace (t <? c_etime c) with false by lia. simpl.
      rewrite Esc. unfold add_log, set_w, set_out. simpl. rewrite parent_schedule_all_now by exact Fps.
      eexists _, c2, [[23; t; i_id (c_inst c); 1]; [22; t; n; 0]]. split; [reflexivity|].
      split; [constructor; [apply Q23|constructor; [apply Q22|constructor]]|].
      simpl. unfold other_ok. simpl.
      split; [reflexivity|]. split; [reflexivity|]. split; [reflexivity|]. split; [split; reflexivity|].
      split; [exact Ic2|]. split; [exact Ec2|exact Pre2].
    + unfold activate_branch. simpl.
      assert (Hp : match prev with Some p => negb (eqb p true) | None => false end = false).
      { destruct g1 as [c'|]; [destruct Ho as [_ ->]|rewrite Ho]; reflexivity. }
      assert (Hr : match g1 with Some c1 => c_started c1 | None => false end = false).
      { destruct g1 as [c'|]; [destruct Ho as [-> _]|]; reflexivity. }
      rewrite Hp, Hr. unfold switch_teardown. simpl. unfold child_stop. rewrite Hst. simpl.
      replace (t <? c_etime c) with false by lia. simpl.
      rewrite Esc. unfold add_log, set_w, set_out. simpl. rewrite parent_schedule_all_now by exact Fps.
      eexists _, c2, [[23; t; i_id (c_inst c); 0]; [22; t; n; 1]]. split; [reflexivity|].
      split; [constructor; [apply Q23|constructor; [apply Q22|constructor]]|].
      simpl. unfold other_ok. simpl.
      split; [reflexivity|]. split; [reflexivity|]. split; [reflexivity|]. split; [split; reflexivity|].
      split; [exact Ic2|]. split; [exact Ec2|exact Pre2].
  - unfold empty_w in Hs. injection Hs as E0 E1 E2 E3. subst g0 g1 prev akey. unfold activate_branch. simpl. unfold switch_teardown. simpl.
    rewrite Esc. unfold add_log, set_w, set_out. simpl. rewrite parent_schedule_all_now by exact Fps.
    eexists _, c2, [[22; t; n; 0]]. split; [reflexivity|].
    split; [constructor; [apply Q22|constructor]|].
    simpl. unfold other_ok. simpl.
    split; [reflexivity|]. split; [reflexivity|]. split; [reflexivity|]. split; [reflexivity|].
    split; [exact Ic2|]. split; [exact Ec2|exact Pre2].
Qed.

Lemma parent_schedule_later t f srcs w n o lg :
  t < f -> parent_schedule f (mkM t srcs w t n o lg 0) = mkM t srcs w f n o lg 0.
Proof.
  intros H. unfold parent_schedule. simpl. replace (f <? t) with false by lia.
  rewrite Z.leb_refl. reflexivity.
Qed.

(* what the evaluation of the active branch graph leaves behind *)
Definition left_ok (t p : Z) (c : child) : Prop :=
  c_started c = true /\ c_etime c = t /\ Wf t (i_sch (c_inst c)) /\
  match events (i_sch (c_inst c)) with
  | [] => p = t /\ c_slot c <= t
  | e :: _ => p = fst e /\ c_slot c = fst e
  end.

Lemma eval_phase_post sp t srcs w n o lg a c dueb D :
  w_active w = Some a -> getg a w = Some c -> pre_ok t dueb c ->
  body_bounded D (br_body (i_br (c_inst c))) -> t + D < MAX_DT ->
  let r := node_eval t (views sp t srcs (c_inst c)) (c_inst c) in
  exists c' lg' p',
    eval_phase sp t (mkM t srcs w t n o lg 0) =
      mkM t srcs (setg a (Some c') w) p' n
          (if dueb then match r_emit r with Some v => emit_out (s_set sp) t v o | None => o end else o)
          (rev lg' ++ lg) 0 /\
    Forall (eval_line t (i_id (c_inst c))) lg' /\
    c_inst c' = (if dueb then r_inst r else c_inst c) /\
    left_ok t p' c'.
Proof.
  intros Ha Hg Hpre Hb HD r.
  destruct (child_evaluate_post t (views sp t srcs (c_inst c)) c dueb D Hpre Hb HD) as (Eerr & Einst & Eemit & Hpost & Hlog).
  unfold eval_phase. cbn [m_w m_srcs]. rewrite Ha, Hg.
  set (cr := child_evaluate t (views sp t srcs (c_inst c)) c) in *.
  rewrite Eerr. cbn [Z.eqb negb].
  destruct Hpost as (Pst & Pet & Pwf & Pev).
  exists (cr_child cr), (cr_log cr).
  assert (Out : match cr_emit cr with
                | Some v => set_out (emit_out (s_set sp) t v (m_out (add_log (cr_log cr) (set_w (setg a (Some (cr_child cr)) w) (mkM t srcs w t n o lg 0)))))
                                    (add_log (cr_log cr) (set_w (setg a (Some (cr_child cr)) w) (mkM t srcs w t n o lg 0)))
                | None => add_log (cr_log cr) (set_w (setg a (Some (cr_child cr)) w) (mkM t srcs w t n o lg 0))
                end = mkM t srcs (setg a (Some (cr_child cr)) w) t n
                          (if dueb then match r_emit r with Some v => emit_out (s_set sp) t v o | None => o end else o)
                          (rev (cr_log cr) ++ lg) 0).
  { rewrite Eemit. fold r. destruct dueb; [destruct (r_emit r)|]; reflexivity. }
  rewrite Out.
  destruct (events (i_sch (c_inst (cr_child cr)))) as [|e r0] eqn:Eev.
  - destruct Pev as [Psl Ppush]. rewrite Ppush. exists t. split; [reflexivity|]. split; [exact Hlog|]. split; [exact Einst|].
    unfold left_ok. rewrite Eev. repeat split; auto; apply Pwf.
  - destruct Pev as [Psl Ppush]. rewrite Ppush. exists (fst e).
    assert (t < fst e) by (destruct Pwf as [_ Fa]; rewrite Eev in Fa; inversion Fa; lia).
    cbn [parent_schedule_opt]. rewrite parent_schedule_later by lia.
    split; [reflexivity|]. split; [exact Hlog|]. split; [exact Einst|].
    unfold left_ok. rewrite Eev. repeat split; auto; apply Pwf.
Qed.

(* ---- slot algebra ---- *)
Lemma getg_setg a x w : getg a (setg a x w) = x.
Proof. destruct a, w; reflexivity. Qed.
Lemma getg_setg_other a x w : getg (negb a) (setg a x w) = getg (negb a) w.
Proof. destruct a, w; reflexivity. Qed.
Lemma active_setg a x w : w_active (setg a x w) = w_active w.
Proof. destruct a, w; reflexivity. Qed.
Lemma akey_setg a x w : w_akey (setg a x w) = w_akey w.
Proof. destruct a, w; reflexivity. Qed.
Lemma prev_setg a x w : w_prev (setg a x w) = w_prev w.
Proof. destruct a, w; reflexivity. Qed.

Lemma other_ok_setg a x w : other_ok w a -> other_ok (setg a x w) a.
Proof. unfold other_ok. rewrite getg_setg_other, prev_setg. auto. Qed.

Definition spec_se (sp : swspec) (t : Z) (s : sst) : sst :=
  let s1 := spec_switch sp t s in if negb (s_err s1 =? 0) then s1 else spec_rec sp t (spec_eval sp t s1).

Lemma spec_cycle_se sp h t s :
  spec_cycle sp h t s =
    spec_se sp t (mkS t (apply_ticks t (s_srcs s) (ticks_at sp h t)) (s_cur s) (s_ninst s) (s_out s) (s_outs s)
                      (t :: s_cycles s) (s_err s)).
Proof. reflexivity. Qed.

(* the recorder commutes with the abstraction *)
Lemma rec_commutes sp t m : m_err m = 0 -> abs (rec_phase sp t m) = spec_rec sp t (abs m).
Proof.
  intros E. unfold rec_phase, spec_rec. rewrite E. cbn [Z.eqb negb]. change (s_out (abs m)) with (m_out m).
  destruct (o_lmt (m_out m) =? t); [|reflexivity].
  unfold abs, add_log. cbn [m_w m_now m_srcs m_ninst m_out m_log m_err rev app s_now s_srcs s_cur s_ninst s_out s_outs s_cycles s_err].
  assert (Hr : is_rec (rec_line (s_set sp) t (m_out m)) = true).
  { unfold rec_line. destruct (s_set sp); reflexivity. }
  assert (Hc : cycles_of [rec_line (s_set sp) t (m_out m)] = []).
  { unfold rec_line, cycles_of. destruct (s_set sp); reflexivity. }
  change (rec_line (s_set sp) t (m_out m) :: m_log m) with ([rec_line (s_set sp) t (m_out m)] ++ m_log m).
  rewrite outs_of_app, cycles_of_app, Hc. unfold outs_of at 1. cbn [filter]. rewrite Hr. reflexivity.
Qed.

Lemma rec_phase_fields sp t m :
  m_now (rec_phase sp t m) = m_now m /\ m_srcs (rec_phase sp t m) = m_srcs m /\ m_w (rec_phase sp t m) = m_w m /\
  m_pslot (rec_phase sp t m) = m_pslot m /\ m_out (rec_phase sp t m) = m_out m /\ m_err (rec_phase sp t m) = m_err m /\
  m_ninst (rec_phase sp t m) = m_ninst m.
Proof.
  unfold rec_phase. destruct (negb (m_err m =? 0)); [repeat split|].
  destruct (o_lmt (m_out m) =? t); repeat split.
Qed.

Lemma good_rec sp D t m : Good D m -> Good D (rec_phase sp t m).
Proof.
  intros G. destruct (rec_phase_fields sp t m) as (A & B & C & E & F & H & _).
  unfold Good. rewrite A, B, C, E, F, H. exact G.
Qed.

Lemma emit_out_lmt sh t v o : o_lmt (emit_out sh t v o) = t.
Proof. unfold emit_out. destruct sh; reflexivity. Qed.

Lemma reset_out_lmt sh t o : o_lmt o <= t -> o_lmt (reset_out sh t o) <= t.
Proof. unfold reset_out. destruct sh; simpl; lia. Qed.

(* evaluation of the active graph and the recorder, from a state in which the
   active graph's slot says "now" exactly when its node is due *)
Lemma eval_rec_refines sp D t srcs w n o lg a c k :
  0 < t -> t + D < MAX_DT -> srcs_ok t srcs -> o_lmt o <= t ->
  w_active w = Some a -> getg a w = Some c -> w_akey w = Some k -> other_ok w a ->
  pre_ok t (due t (views sp t srcs (c_inst c)) (c_inst c)) c -> i_samp (c_inst c) <= t ->
  body_bounded D (br_body (i_br (c_inst c))) ->
  let m1 := mkM t srcs w t n o lg 0 in
  let m' := rec_phase sp t (eval_phase sp t m1) in
  abs m' = spec_rec sp t (spec_eval sp t (abs m1)) /\ Good D m'.
Proof.
  intros Ht HD Hsrcs Ho Ha Hg Hk Hoth Hpre Hsamp Hb m1 m'.
  set (dueb := due t (views sp t srcs (c_inst c)) (c_inst c)) in *.
  destruct (eval_phase_post sp t srcs w n o lg a c dueb D Ha Hg Hpre Hb HD) as (c' & lg' & p' & Eev & Hlg & Hinst & Hleft).
  set (r := node_eval t (views sp t srcs (c_inst c)) (c_inst c)) in *.
  assert (Hq : Forall quiet lg') by (eapply Forall_impl; [|exact Hlg]; intros l; apply eval_line_quiet).
  destruct (quiet_app lg' lg Hq) as [Qo Qc].
  assert (Habs1 : abs m1 = mkS t srcs (Some (k, c_inst c)) n o (outs_of lg) (cycles_of lg) 0).
  { unfold abs, m1. cbn [m_w m_now m_srcs m_ninst m_out m_log m_err]. rewrite Ha, Hk, Hg. reflexivity. }
  assert (Hsamp' : i_samp (c_inst c') <= t).
  { rewrite Hinst. destruct dueb; auto.
    destruct Hpre as (_ & Hwf & _). destruct (node_eval_post t (views sp t srcs (c_inst c)) (c_inst c) D Hwf Hb HD) as (_ & _ & _ & Es & _).
    fold r in Es. rewrite Es. auto. }
  assert (Hb' : body_bounded D (br_body (i_br (c_inst c')))).
  { rewrite Hinst. destruct dueb; auto.
    destruct Hpre as (_ & Hwf & _). destruct (node_eval_post t (views sp t srcs (c_inst c)) (c_inst c) D Hwf Hb HD) as (_ & Eb & _).
    fold r in Eb. rewrite Eb. auto. }
  assert (Hidle : idle_ok t p' c').
  { destruct Hleft as (A & B & C & E). unfold idle_ok. repeat split; auto; try apply C.
    destruct (events (i_sch (c_inst c'))); destruct E; split; auto; lia. }
  set (o' := if dueb then match r_emit r with Some v => emit_out (s_set sp) t v o | None => o end else o) in *.
  assert (Ho' : o_lmt o' <= t).
  { unfold o'. destruct dueb; [destruct (r_emit r)|]; auto. rewrite emit_out_lmt. lia. }
  assert (GoodE : Good D (eval_phase sp t m1)).
  { unfold m1. rewrite Eev. unfold Good. cbn [m_now m_err m_srcs m_w m_pslot m_out]. rewrite active_setg, Ha.
    split; [lia|]. split; [reflexivity|]. split; [exact Hsrcs|]. split; [exact Ho'|].
    exists c', k. rewrite getg_setg, akey_setg. split; [reflexivity|]. split; [exact Hk|].
    split; [exact Hidle|]. split; [apply other_ok_setg; exact Hoth|exact Hb']. }
  split; [|apply good_rec; exact GoodE].
  unfold m'. rewrite rec_commutes by (unfold m1; rewrite Eev; reflexivity). f_equal.
  rewrite Habs1. unfold m1. rewrite Eev. unfold spec_eval. cbn [s_cur s_srcs s_now s_ninst s_out s_outs s_cycles s_err].
  unfold alone_cycle. fold dueb. fold r.
  unfold abs. cbn [m_w m_now m_srcs m_ninst m_out m_log m_err].
  rewrite active_setg, akey_setg, Ha, Hk; cbv iota; rewrite getg_setg, Hinst, Qo, Qc.
  unfold o'. destruct dueb; [destruct (r_emit r)|]; reflexivity.
Qed.

(* activation followed by the evaluation of the new graph and the recorder *)
Lemma act_path sp D t srcs w n o lg k br :
  0 < t < MAX_DT -> t + D < MAX_DT -> srcs_ok t srcs -> o_lmt o <= t -> store_ok t w ->
  body_bounded D (br_body br) ->
  let m1 := activate_branch sp br k t (mkM t srcs w t n o lg 0) in
  let m' := rec_phase sp t (eval_phase sp t m1) in
  m_err m1 = 0 /\
  abs m' = spec_rec sp t (spec_eval sp t
             (mkS t srcs (Some (k, fst (inst_start t (fresh_inst br n t)))) (n + 1)
                  (match w_active w with Some _ => reset_out (s_set sp) t o | None => o end)
                  (outs_of lg) (cycles_of lg) 0)) /\
  Good D m'.
Proof.
  intros Ht HD Hsrcs Ho Hst Hb m1 m'.
  destruct (activate_post sp br k t srcs w n o lg Ht (proj1 (proj1 Hb)) ltac:(destruct Hb as [[? ?] _]; lia) Hst) as (w' & c2 & lga & Eact & Qa & Aact & Akey & Ag & Aoth & Ainst & Aet & Apre).
  unfold m', m1. rewrite Eact. split; [reflexivity|].
  set (i' := fst (inst_start t (fresh_inst br n t))) in *.
  set (o1 := match w_active w with Some _ => reset_out (s_set sp) t o | None => o end) in *.
  assert (Ho1 : o_lmt o1 <= t) by (unfold o1; destruct (w_active w); auto; apply reset_out_lmt; auto).
  assert (Ei : i' = mkInst br n 0 (if b_sos (br_body br) then mkSched [(t + b_sd (br_body br), 0)] [] else empty_sched) t).
  { unfold i'. destruct Hb as [[? ?] _]. apply inst_start_fresh; lia. }
  rewrite <- Ainst in Apre.
  assert (Hs2 : i_samp (c_inst c2) <= t) by (rewrite Ainst, Ei; simpl; lia).
  assert (Hb2 : body_bounded D (br_body (i_br (c_inst c2)))) by (rewrite Ainst, Ei; simpl; exact Hb).
  destruct (eval_rec_refines sp D t srcs w' (n + 1) o1 (rev lga ++ lg) _ c2 k (proj1 Ht) HD Hsrcs Ho1 Aact Ag Akey Aoth Apre Hs2 Hb2) as [Eabs HG].
  split; [|exact HG]. rewrite Eabs. f_equal. f_equal.
  unfold abs. cbn [m_w m_now m_srcs m_ninst m_out m_log m_err]. rewrite Aact, Akey, Ag, Ainst.
  destruct (quiet_app lga lg Qa) as [Qo Qc]. rewrite Qo, Qc. reflexivity.
Qed.

Lemma rec_phase_noop sp t srcs w p n o lg :
  o_lmt o < t -> rec_phase sp t (mkM t srcs w p n o lg 0) = mkM t srcs w p n o lg 0.
Proof.
  intros Ho. unfold rec_phase. cbn [m_err Z.eqb negb m_out].
  replace (o_lmt o =? t) with false by lia. reflexivity.
Qed.

Lemma spec_rec_noop sp t s : o_lmt (s_out s) < t -> spec_rec sp t s = s.
Proof. intros H. unfold spec_rec. replace (o_lmt (s_out s) =? t) with false by lia. reflexivity. Qed.

Lemma switch_refines sp D t srcs w n o lg :
  0 < t < MAX_DT -> t + D < MAX_DT -> sp_bounded D sp -> srcs_ok t srcs -> o_lmt o < t ->
  match w_active w with
  | None => w = empty_w /\ (forall k lm r, srcs = (Some k, lm) :: r -> lm = t) /\ o = out0
  | Some a => exists c k0, getg a w = Some c /\ w_akey w = Some k0 /\ other_ok w a /\ c_etime c <= t /\
                           pre_ok t (due t (views sp t srcs (c_inst c)) (c_inst c)) c /\
                           i_samp (c_inst c) <= t /\ body_bounded D (br_body (i_br (c_inst c)))
  end ->
  let m := mkM t srcs w t n o lg 0 in
  let m' := rec_phase sp t (switch_evaluate sp t m) in
  abs m' = spec_se sp t (abs m) /\ (m_err m' = 0 -> Good D m') /\ (m_err m' = 0 \/ m_err m' = 2).
Proof.
  intros Ht HD Hsp Hsrcs Ho Hw m m'.
  destruct Hsrcs as (s0 & s1 & s2 & Es & L0 & L1 & L2).
  assert (Hsrcs : srcs_ok t srcs) by (exists s0, s1, s2; auto).
  unfold m', switch_evaluate, spec_se.
  destruct (w_active w) as [a|] eqn:Ha.
  - (* an active branch exists *)
    destruct Hw as (c & k0 & Hg & Hk & Hoth & Het & Hpre & Hsamp & Hb).
    assert (Habs : abs m = mkS t srcs (Some (k0, c_inst c)) n o (outs_of lg) (cycles_of lg) 0).
    { unfold abs, m. cbn [m_w m_now m_srcs m_ninst m_log m_err]. rewrite Ha, Hk, Hg. reflexivity. }
    assert (Hstore : store_ok t w).
    { unfold store_ok. rewrite Ha. exists c. repeat split; auto. apply Hpre. }
    assert (NoSwitch : select_phase sp t m = m -> spec_switch sp t (abs m) = abs m ->
              abs (rec_phase sp t (if negb (m_err (select_phase sp t m) =? 0) then select_phase sp t m else eval_phase sp t (select_phase sp t m))) =
              (if negb (s_err (spec_switch sp t (abs m)) =? 0) then spec_switch sp t (abs m) else spec_rec sp t (spec_eval sp t (spec_switch sp t (abs m)))) /\
              (m_err (rec_phase sp t (if negb (m_err (select_phase sp t m) =? 0) then select_phase sp t m else eval_phase sp t (select_phase sp t m))) = 0 ->
               Good D (rec_phase sp t (if negb (m_err (select_phase sp t m) =? 0) then select_phase sp t m else eval_phase sp t (select_phase sp t m)))) /\
              (m_err (rec_phase sp t (if negb (m_err (select_phase sp t m) =? 0) then select_phase sp t m else eval_phase sp t (select_phase sp t m))) = 0 \/
               m_err (rec_phase sp t (if negb (m_err (select_phase sp t m) =? 0) then select_phase sp t m else eval_phase sp t (select_phase sp t m))) = 2)).
    { intros E1 E2. rewrite E1, E2. rewrite Habs. unfold m at 1 3 5 7. cbn [m_err s_err Z.eqb negb].
      destruct (eval_rec_refines sp D t srcs w n o lg a c k0 (proj1 Ht) HD Hsrcs (Z.lt_le_incl _ _ Ho) Ha Hg Hk Hoth Hpre Hsamp Hb) as [Eabs HG].
      fold m in Eabs, HG. rewrite Habs in Eabs.
      split; [exact Eabs|]. split; [intros _; exact HG|left; apply HG]. }
    subst srcs. destruct s0 as [[k|] lm].
    + destruct (lm =? t) eqn:Elm.
      * (* the key ticked *)
        assert (lm = t) by lia. subst lm.
        destruct (s_reload sp || negb (k =? k0)) eqn:Eneed.
        -- unfold select_phase. cbn [m_srcs m_w m]. rewrite Ha, Hk. rewrite Z.eqb_refl. cbn [orb is_some negb andb].
           rewrite Eneed.
           rewrite Habs. unfold spec_switch. cbn [s_srcs key_tick s_cur option_map fst need_switch s_ninst s_now s_out s_outs s_cycles s_err].
           rewrite Z.eqb_refl, Eneed.
           destruct (select_branch sp k) as [br|] eqn:Esel.
           ++ destruct (act_path sp D t ((Some k, t) :: [s1; s2]) w n o lg k br Ht HD Hsrcs (Z.lt_le_incl _ _ Ho) Hstore (Hsp k br Esel)) as (E0 & Eabs & HG).
              subst m.
              match goal with |- context [m_err ?X =? 0] => replace (m_err X) with 0 by (symmetry; exact E0) end.
              cbn [Z.eqb negb]. rewrite Ha in Eabs.
              split; [exact Eabs|]. split; [intros _; exact HG|left; apply HG].
           ++ unfold set_err, rec_phase. cbn [m_err Z.eqb negb]. unfold abs. cbn [m_w m_now m_srcs m_ninst m_log m_err m].
              rewrite Ha, Hk, Hg. split; [reflexivity|]. split; [discriminate|right; reflexivity].
        -- apply NoSwitch.
           ++ unfold select_phase. cbn [m_srcs m_w m]. rewrite Ha, Hk. rewrite Z.eqb_refl. cbn [orb is_some negb andb].
              rewrite Eneed. reflexivity.
           ++ rewrite Habs. unfold spec_switch. cbn [s_srcs key_tick s_cur option_map fst need_switch].
              rewrite Z.eqb_refl, Eneed. reflexivity.
      * apply NoSwitch.
        -- unfold select_phase. cbn [m_srcs m_w m]. rewrite Ha, Elm. reflexivity.
        -- rewrite Habs. unfold spec_switch. cbn [s_srcs key_tick]. rewrite Elm. reflexivity.
    + apply NoSwitch; [reflexivity|]. rewrite Habs. reflexivity.
  - (* no branch has been selected yet *)
    destruct Hw as (Ew & Hkey & Eo). subst w.
    assert (Habs : abs m = mkS t srcs None n o (outs_of lg) (cycles_of lg) 0) by reflexivity.
    subst srcs. destruct s0 as [[k|] lm].
    + assert (lm = t) by (eapply Hkey; reflexivity). subst lm.
      unfold select_phase. cbn [m_srcs m_w m empty_w w_active w_akey]. rewrite Z.eqb_refl. cbn [orb is_some negb andb].
      rewrite Habs. unfold spec_switch. cbn [s_srcs key_tick s_cur option_map fst need_switch s_ninst s_now s_out s_outs s_cycles s_err].
      rewrite Z.eqb_refl.
      destruct (select_branch sp k) as [br|] eqn:Esel.
      * destruct (act_path sp D t ((Some k, t) :: [s1; s2]) empty_w n o lg k br Ht HD Hsrcs (Z.lt_le_incl _ _ Ho) eq_refl (Hsp k br Esel)) as (E0 & Eabs & HG).
        subst m.
              match goal with |- context [m_err ?X =? 0] => replace (m_err X) with 0 by (symmetry; exact E0) end.
              cbn [Z.eqb negb].
        split; [exact Eabs|]. split; [intros _; exact HG|left; apply HG].
      * unfold set_err, rec_phase. cbn [m_err Z.eqb negb]. split; [reflexivity|]. split; [discriminate|right; reflexivity].
    + change (select_phase sp t m) with m. rewrite Habs. unfold spec_switch. cbn [s_srcs key_tick].
      subst m. cbn [m_err s_err Z.eqb negb]. unfold eval_phase, spec_eval. cbn [m_w empty_w w_active s_cur].
      rewrite rec_phase_noop by exact Ho. rewrite spec_rec_noop by exact Ho.
      split; [reflexivity|]. split; [|left; reflexivity]. intros _.
      unfold Good. cbn [m_now m_err m_srcs m_out m_w m_pslot empty_w w_active].
      split; [lia|]. split; [reflexivity|]. split; [exact Hsrcs|]. split; [lia|].
      split; [reflexivity|]. split; [lia|]. split; [reflexivity|exact Eo].
Qed.

(* ---- an input of an idle instance reads "modified" exactly when its source ticked ---- *)
Lemma view_tick t samp s tk :
  snd s < t -> samp < t ->
  v_valid (view_of t samp (apply_tick t s tk)) && v_mod (view_of t samp (apply_tick t s tk)) = is_some tk.
Proof.
  intros Hs Hsamp. destruct tk as [v|]; simpl.
  - unfold view_of. simpl. rewrite Z.eqb_refl. rewrite Bool.orb_true_r. reflexivity.
  - unfold view_of. destruct s as [[v|] lm]; simpl in *; auto.
    replace (samp =? t) with false by lia. replace (lm =? t) with false by lia. reflexivity.
Qed.

Lemma views_ticked sp t s0 s1 s2 k0 k1 k2 i :
  (s_nts sp <= 2)%nat -> snd s0 < t -> snd s1 < t -> snd s2 < t -> i_samp i < t ->
  existsb (fun v => v_valid v && v_mod v) (views sp t (apply_ticks t [s0; s1; s2] [k0; k1; k2]) i) =
  bound_ticked sp (i_br i) [k0; k1; k2].
Proof.
  intros Hn H0 H1 H2 Hs. unfold views, bound_srcs, bound_ticked. cbn [apply_ticks].
  pose proof (view_tick t (i_samp i) s0 k0 H0 Hs) as V0.
  pose proof (view_tick t (i_samp i) s1 k1 H1 Hs) as V1.
  pose proof (view_tick t (i_samp i) s2 k2 H2 Hs) as V2.
  destruct (s_nts sp) as [|[|[|n3]]]; [| | |lia];
    destruct (br_usekey (i_br i)); cbn [firstn skipn app map existsb]; rewrite ?V0, ?V1, ?V2; reflexivity.
Qed.

Lemma ticks_at_3 sp h t : exists k0 k1 k2, ticks_at sp h t = [k0; k1; k2].
Proof. unfold ticks_at. eauto. Qed.

Lemma cycle_refines sp h D t m :
  (s_nts sp <= 2)%nat -> sp_bounded D sp -> Good D m ->
  m_now m < t -> t < MAX_DT -> t + D < MAX_DT ->
  (existsb is_some (ticks_at sp h t) = true \/ m_pslot m = t) ->
  (forall a c, w_active (m_w m) = Some a -> getg a (m_w m) = Some c -> Wf (t - 1) (i_sch (c_inst c))) ->
  let m' := mirror_cycle sp h t m in
  abs m' = spec_cycle sp h t (abs m) /\ (m_err m' = 0 -> Good D m') /\ (m_err m' = 0 \/ m_err m' = 2).
Proof.
  intros Hn Hsp HG Hlt HtM HD Hwhy Hwf m'.
  destruct m as [now srcs w pslot n o lg err].
  destruct HG as (Hnow & Herr & (s0 & s1 & s2 & Es & L0 & L1 & L2) & Hout & Hact).
  cbn [m_now m_err m_srcs m_out m_w m_pslot] in *. subst err srcs.
  destruct (ticks_at_3 sp h t) as (k0 & k1 & k2 & Etk).
  rewrite spec_cycle_se. unfold m', mirror_cycle. cbn [m_srcs m_w m_pslot m_ninst m_out m_log m_err]. rewrite Etk.
  set (srcs' := apply_ticks t [s0; s1; s2] [k0; k1; k2]).
  assert (Hsrcs' : srcs_ok t srcs').
  { exists (apply_tick t s0 k0), (apply_tick t s1 k1), (apply_tick t s2 k2). split; [reflexivity|].
    destruct k0, k1, k2; simpl; lia. }
  assert (E1 : (if existsb is_some [k0; k1; k2]
                then parent_schedule t (mkM t srcs' w pslot n o ([10; t] :: lg) 0)
                else mkM t srcs' w pslot n o ([10; t] :: lg) 0) = mkM t srcs' w t n o ([10; t] :: lg) 0).
  { destruct (existsb is_some [k0; k1; k2]) eqn:Ea.
    - apply parent_schedule_now.
    - destruct Hwhy as [Hw|Hw]; [rewrite Etk in Hw; congruence|]. rewrite Hw. reflexivity. }
  rewrite E1. clear E1.
  assert (Ht : 0 < t < MAX_DT) by lia.
  assert (Ho : o_lmt o < t) by lia.
  destruct (w_active w) as [a|] eqn:Ha.
  - destruct Hact as (c & k & Hg & Hk & Hidle & Hoth & Hb).
    destruct Hidle as (Ist & Iet & Isamp & Iwf & Iev).
    specialize (Hwf a c eq_refl Hg).
    assert (Hsl : c_slot c <= now \/ t <= c_slot c).
    { destruct Hwf as [_ Fa]. destruct (events (i_sch (c_inst c))) as [|e r0]; [left; apply Iev|].
      right. destruct Iev as [_ ->]. inversion Fa; subst. lia. }
    destruct (notify_phase sp t [k0; k1; k2] srcs' w n o ([10; t] :: lg) a c now Hg Hoth Ist Iet Hlt Hsl) as (c2 & E2 & I2 & S2 & T2 & L2').
    rewrite E2. cbn [m_err Z.eqb negb m_pslot]. rewrite Z.eqb_refl.
    unfold add_log. cbn [rev app m_now m_srcs m_w m_pslot m_ninst m_out m_log m_err].
    assert (Hvt : existsb (fun v => v_valid v && v_mod v) (views sp t srcs' (c_inst c)) = bound_ticked sp (i_br (c_inst c)) [k0; k1; k2]).
    { apply views_ticked; auto; lia. }
    assert (Hpre : pre_ok t (due t (views sp t srcs' (c_inst c2)) (c_inst c2)) c2).
    { rewrite I2. unfold pre_ok, due. rewrite Hvt, I2, L2'. split; [exact S2|]. split; [exact Hwf|].
      split; [intros Hd; apply Bool.orb_false_iff in Hd; apply Hd|].
      destruct (bound_ticked sp (i_br (c_inst c)) [k0; k1; k2]).
      - rewrite Bool.orb_true_r. reflexivity.
      - rewrite Bool.orb_false_r. destruct (is_scheduled_now t (i_sch (c_inst c))) eqn:Esn.
        + destruct (now_first _ _ Esn) as (e & r0 & Eev & Ee). rewrite Eev in Iev. destruct Iev as [_ ->]. exact Ee.
        + destruct (events (i_sch (c_inst c))) as [|e r0]; [destruct Iev; lia|apply Iev]. }
    assert (Hmid : match w_active (setg a (Some c2) w) with
                   | None => setg a (Some c2) w = empty_w /\ (forall k lm r, srcs' = (Some k, lm) :: r -> lm = t) /\ o = out0
                   | Some a0 => exists c0 k0', getg a0 (setg a (Some c2) w) = Some c0 /\ w_akey (setg a (Some c2) w) = Some k0' /\
                                  other_ok (setg a (Some c2) w) a0 /\ c_etime c0 <= t /\
                                  pre_ok t (due t (views sp t srcs' (c_inst c0)) (c_inst c0)) c0 /\
                                  i_samp (c_inst c0) <= t /\ body_bounded D (br_body (i_br (c_inst c0)))
                   end).
    { rewrite active_setg, Ha. exists c2, k. rewrite getg_setg, akey_setg.
      split; [reflexivity|]. split; [exact Hk|]. split; [apply other_ok_setg; exact Hoth|].
      split; [lia|]. split; [exact Hpre|]. rewrite I2. split; [lia|exact Hb]. }
    destruct (switch_refines sp D t srcs' (setg a (Some c2) w) n o ([11; t] :: [10; t] :: lg) Ht HD Hsp Hsrcs' Ho Hmid) as (Eabs & HGood & Herr2).
    split; [|split; [exact HGood|exact Herr2]].
    etransitivity; [exact Eabs|]. f_equal.
    unfold abs. cbn [m_w m_now m_srcs m_ninst m_log m_err].
    rewrite active_setg, akey_setg, Ha, Hk. cbv iota. rewrite getg_setg, Hg, I2. reflexivity.
  - destruct Hact as (Ew & Hps & Hkey & Eo). subst w.
    unfold notify_child. cbn [m_w getg empty_w w_g0 w_g1 m_err Z.eqb negb m_pslot]. rewrite Z.eqb_refl.
    unfold add_log. cbn [rev app m_now m_srcs m_w m_pslot m_ninst m_out m_log m_err].
    assert (Hmid : match w_active empty_w with
                   | None => empty_w = empty_w /\ (forall k lm r, srcs' = (Some k, lm) :: r -> lm = t) /\ o = out0
                   | Some a0 => exists c0 k0', getg a0 empty_w = Some c0 /\ w_akey empty_w = Some k0' /\
                                  other_ok empty_w a0 /\ c_etime c0 <= t /\
                                  pre_ok t (due t (views sp t srcs' (c_inst c0)) (c_inst c0)) c0 /\
                                  i_samp (c_inst c0) <= t /\ body_bounded D (br_body (i_br (c_inst c0)))
                   end).
    { cbn [w_active empty_w]. split; [reflexivity|]. split; [|exact Eo]. intros kk lm r Hh. unfold srcs' in Hh. cbn [apply_ticks] in Hh.
      injection Hh as Hh _. destruct k0 as [v|]; simpl in Hh.
      - injection Hh as _ Hl. auto.
      - simpl in Hkey. rewrite Hh in Hkey. discriminate. }
    destruct (switch_refines sp D t srcs' empty_w n o ([11; t] :: [10; t] :: lg) Ht HD Hsp Hsrcs' Ho Hmid) as (Eabs & HGood & Herr2).
    split; [|split; [exact HGood|exact Herr2]].
    etransitivity; [exact Eabs|]. reflexivity.
Qed.

(* ------------------------------------------------------------------ *)
(*  The run loop                                                       *)
(* ------------------------------------------------------------------ *)
Definition tick_step (sp : swspec) (now : Z) (acc : Z) (e : Z * Z * Z) : Z :=
  let t := snd (fst e) in
  if wired sp (fst (fst e)) && (now <? t) && (t <? acc) then t else acc.

Lemma next_tick_fold sp now hfull l acc :
  incl l hfull ->
  (acc = MAX_DT \/ (now < acc < MAX_DT /\ exists k v, wired sp k = true /\ In (k, acc, v) hfull)) ->
  let r := fold_left (tick_step sp now) l acc in
  r = MAX_DT \/ (now < r < MAX_DT /\ exists k v, wired sp k = true /\ In (k, r, v) hfull).
Proof.
  revert acc. induction l as [|e l IH]; intros acc Hin Hacc; simpl; auto.
  apply IH; [intros x Hx; apply Hin; right; auto|].
  unfold tick_step. destruct e as [[k t] v]. simpl.
  destruct (wired sp k && (now <? t) && (t <? acc)) eqn:E; auto.
  right. split.
  - destruct Hacc as [->|[H _]]; lia.
  - exists k, v. split; [lia|]. apply Hin. left. reflexivity.
Qed.

Lemma tick_of_some sp h k t v : wired sp k = true -> In (k, t, v) h -> is_some (tick_of sp h k t) = true.
Proof.
  intros Hw Hin. unfold tick_of. rewrite Hw.
  destruct (find (fun e => (fst (fst e) =? k) && (snd (fst e) =? t)) h) eqn:E; auto.
  pose proof (find_none _ _ E _ Hin) as Hn. simpl in Hn. lia.
Qed.

Lemma next_tick_eq sp h now : next_tick sp h now = fold_left (tick_step sp now) h MAX_DT.
Proof. reflexivity. Qed.

Lemma next_tick_spec sp h now :
  (s_nts sp <= 2)%nat ->
  next_tick sp h now = MAX_DT \/
  (now < next_tick sp h now < MAX_DT /\ existsb is_some (ticks_at sp h (next_tick sp h now)) = true).
Proof.
  intros Hn. rewrite next_tick_eq.
  pose proof (next_tick_fold sp now h h MAX_DT (incl_refl h) (or_introl eq_refl)) as Hf. cbv zeta in Hf.
  set (r := fold_left (tick_step sp now) h MAX_DT) in *.
  destruct Hf as [E|(Hr & k & v & Hw & Hin)]; auto.
  right. split; auto.
  pose proof (tick_of_some sp h k r v Hw Hin) as Hs. clearbody r.
  unfold ticks_at. cbn [existsb].
  assert (Hk : k = 0 \/ k = 1 \/ k = 2) by (unfold wired in Hw; lia).
  destruct Hk as [->|[->| ->]]; rewrite Hs; rewrite ?Bool.orb_true_r; reflexivity.
Qed.

Lemma next_agree sp h D m :
  Good D m -> mirror_next sp h m = spec_next sp h (abs m).
Proof.
  intros (Hnow & Herr & Hsrcs & Hout & Hact). unfold mirror_next, spec_next, abs. cbn [s_now s_cur]. f_equal.
  destruct (w_active (m_w m)) as [a|].
  - destruct Hact as (c & k & Hg & Hk & (Ist & Iet & Isamp & Iwf & Iev) & _). rewrite Hk, Hg.
    unfold inst_wake. destruct Iwf as [_ Fa]. destruct (events (i_sch (c_inst c))) as [|e r0].
    + replace (m_now m <? m_pslot m) with false by lia. reflexivity.
    + destruct Iev as [-> _]. inversion Fa; subst. replace (m_now m <? fst e) with true by lia. reflexivity.
  - destruct Hact as (_ & Hp & _). replace (m_now m <? m_pslot m) with false by lia. reflexivity.
Qed.

Lemma next_ok sp h D m :
  (s_nts sp <= 2)%nat -> Good D m ->
  let t := mirror_next sp h m in
  t <> MAX_DT ->
  m_now m < t < MAX_DT /\
  (existsb is_some (ticks_at sp h t) = true \/ m_pslot m = t) /\
  (forall a c, w_active (m_w m) = Some a -> getg a (m_w m) = Some c -> Wf (t - 1) (i_sch (c_inst c))).
Proof.
  intros Hn (Hnow & Herr & Hsrcs & Hout & Hact) t Ht. unfold t, mirror_next in *.
  set (nt := next_tick sp h (m_now m)) in *.
  set (pw := if m_now m <? m_pslot m then m_pslot m else MAX_DT) in *.
  pose proof (next_tick_spec sp h (m_now m) Hn) as Hnt. fold nt in Hnt.
  assert (Hpw : pw = MAX_DT \/ (m_now m < pw < MAX_DT /\ pw = m_pslot m) \/ MAX_DT <= pw).
  { unfold pw. destruct (m_now m <? m_pslot m) eqn:E; auto. destruct (Z_lt_ge_dec (m_pslot m) MAX_DT); [right; left; lia|right; right; lia]. }
  assert (Hpw' : pw = MAX_DT \/ (m_now m < pw < MAX_DT /\ pw = m_pslot m)).
  { destruct Hpw as [H|[H|H]]; auto. unfold pw in H. destruct (m_now m <? m_pslot m) eqn:E; [|left; reflexivity].
    destruct (w_active (m_w m)) as [a|].
    - destruct Hact as (c & k & Hg & Hk & (Ist & Iet & Isamp & Iwf & Iev) & _).
      destruct Iwf as [_ Fa]. destruct (events (i_sch (c_inst c))) as [|e r0]; [lia|].
      destruct Iev as [Ep _]. inversion Fa; subst. lia.
    - destruct Hact as (_ & Hp & _). lia. }
  split; [destruct Hnt as [Hnt|[Hnt _]]; destruct Hpw' as [Hp|[Hp _]]; lia|].
  split.
  - destruct Hnt as [Hnt|[Hnt1 Hnt2]]; destruct Hpw' as [Hp|[Hp1 Hp2]]; try lia.
    + left. replace (Z.min nt pw) with nt by lia. exact Hnt2.
    + destruct (Z_le_gt_dec nt pw); [left; replace (Z.min nt pw) with nt by lia; exact Hnt2|right; lia].
  - intros a c Ha Hg. rewrite Ha in Hact. destruct Hact as (c' & k & Hg' & Hk & (Ist & Iet & Isamp & Iwf & Iev) & _).
    rewrite Hg in Hg'. injection Hg' as <-. destruct Iwf as [Hs Fa]. split; auto.
    apply Forall_forall. intros x Hx. rewrite Forall_forall in Fa. pose proof (Fa x Hx) as Hx'.
    destruct (events (i_sch (c_inst c))) as [|e r0] eqn:Eev; [destruct Hx|].
    destruct Iev as [Ep _]. pose proof (sorted_head_min e r0 x Hs Hx) as Hmin.
    assert (pw = fst e).
    { unfold pw. rewrite Ep. pose proof (Fa e (or_introl eq_refl)). replace (m_now m <? fst e) with true by lia. reflexivity. }
    lia.
Qed.

Lemma loop_refines sp h D end_ fuel :
  (s_nts sp <= 2)%nat -> sp_bounded D sp -> end_ <= MAX_DT -> end_ + D <= MAX_DT ->
  forall m, (m_err m = 0 -> Good D m) ->
  abs (mirror_loop sp h end_ fuel m) = spec_loop sp h end_ fuel (abs m).
Proof.
  intros Hn Hsp He HeD. induction fuel as [|f IH]; intros m HG.
  - reflexivity.
  - cbn [mirror_loop spec_loop]. change (s_err (abs m)) with (m_err m).
    destruct (m_err m =? 0) eqn:Eerr; cbn [negb]; [|reflexivity].
    assert (G : Good D m) by (apply HG; lia).
    rewrite <- (next_agree sp h D m G).
    set (t := mirror_next sp h m).
    destruct ((t =? MAX_DT) || (end_ <=? t)) eqn:Estop; [reflexivity|].
    assert (Ht : t <> MAX_DT) by lia.
    destruct (next_ok sp h D m Hn G Ht) as (Hlt & Hwhy & Hwf). fold t in Hlt, Hwhy, Hwf.
    destruct (cycle_refines sp h D t m Hn Hsp G (proj1 Hlt) (proj2 Hlt) ltac:(lia) Hwhy Hwf) as (Eabs & HG' & _).
    rewrite <- Eabs. apply IH. exact HG'.
Qed.

Lemma good_init D start : 1 <= start -> Good D (mirror_init start).
Proof.
  intros Hs. unfold Good, mirror_init. cbn [m_now m_err m_srcs m_out m_w m_pslot empty_w w_active].
  split; [lia|]. split; [reflexivity|]. split.
  - exists no_src, no_src, no_src. unfold init_srcs, no_src, MIN_DT. simpl. repeat split; lia.
  - unfold out0, no_src, MIN_DT. simpl. repeat split; lia.
Qed.

(* MAIN REFINEMENT: for every branch set, key history, input history, window and
   fuel, the mirror of switch_node.cpp is, observably, the selected branch alone. *)
Theorem refines sp h D start end_ fuel :
  (s_nts sp <= 2)%nat -> sp_bounded D sp -> 1 <= start -> end_ <= MAX_DT -> end_ + D <= MAX_DT ->
  abs (mirror_run sp h start end_ fuel) = spec_run sp h start end_ fuel.
Proof.
  intros Hn Hsp Hs He HeD. unfold mirror_run, spec_run.
  rewrite (loop_refines sp h D end_ fuel Hn Hsp He HeD); [reflexivity|].
  intros _. apply good_init. exact Hs.
Qed.

(* ------------------------------------------------------------------ *)
(*  Every reachable state                                              *)
(* ------------------------------------------------------------------ *)
(* the state after at most n cycles of the run (the same iteration as mirror_loop,
   without the fuel error) *)
Fixpoint steps (sp : swspec) (h : hist) (end_ : Z) (n : nat) (m : mst) : mst :=
  match n with
  | O => m
  | S k =>
      let m1 := steps sp h end_ k m in
      if negb (m_err m1 =? 0) then m1 else
      let t := mirror_next sp h m1 in
      if (t =? MAX_DT) || (end_ <=? t) then m1 else mirror_cycle sp h t m1
  end.

Definition reach (sp : swspec) (h : hist) (start end_ : Z) (n : nat) : mst :=
  steps sp h end_ n (mirror_init start).

(* a cycle is about to run from m *)
Definition cycle_due (sp : swspec) (h : hist) (end_ : Z) (m : mst) : Prop :=
  m_err m = 0 /\ mirror_next sp h m <> MAX_DT /\ mirror_next sp h m < end_.

Lemma cycle_from_good sp h D end_ m :
  (s_nts sp <= 2)%nat -> sp_bounded D sp -> end_ <= MAX_DT -> end_ + D <= MAX_DT ->
  Good D m -> cycle_due sp h end_ m ->
  let t := mirror_next sp h m in
  let m' := mirror_cycle sp h t m in
  abs m' = spec_cycle sp h t (abs m) /\ (m_err m' = 0 -> Good D m') /\ (m_err m' = 0 \/ m_err m' = 2).
Proof.
  intros Hn Hsp He HeD G (E0 & Hne & Hlt) t m'.
  destruct (next_ok sp h D m Hn G Hne) as (Hlt' & Hwhy & Hwf). fold t in Hlt', Hwhy, Hwf, Hlt.
  apply (cycle_refines sp h D t m Hn Hsp G (proj1 Hlt') (proj2 Hlt') ltac:(lia) Hwhy Hwf).
Qed.

Lemma steps_good sp h D end_ n m :
  (s_nts sp <= 2)%nat -> sp_bounded D sp -> end_ <= MAX_DT -> end_ + D <= MAX_DT ->
  Good D m ->
  (m_err (steps sp h end_ n m) = 0 -> Good D (steps sp h end_ n m)) /\
  (m_err (steps sp h end_ n m) = 0 \/ m_err (steps sp h end_ n m) = 2).
Proof.
  intros Hn Hsp He HeD G. induction n as [|k IH]; simpl.
  - split; auto. left. apply G.
  - destruct IH as [IH1 IH2].
    destruct (m_err (steps sp h end_ k m) =? 0) eqn:E; cbn [negb]; [|split; auto].
    assert (G1 : Good D (steps sp h end_ k m)) by (apply IH1; lia).
    destruct ((mirror_next sp h (steps sp h end_ k m) =? MAX_DT) || (end_ <=? mirror_next sp h (steps sp h end_ k m))) eqn:Es.
    + split; auto.
    + destruct (cycle_from_good sp h D end_ _ Hn Hsp He HeD G1) as (_ & A & B); auto.
      unfold cycle_due. repeat split; lia.
Qed.

Lemma reach_good sp h D start end_ n :
  (s_nts sp <= 2)%nat -> sp_bounded D sp -> 1 <= start -> end_ <= MAX_DT -> end_ + D <= MAX_DT ->
  (m_err (reach sp h start end_ n) = 0 -> Good D (reach sp h start end_ n)) /\
  (m_err (reach sp h start end_ n) = 0 \/ m_err (reach sp h start end_ n) = 2).
Proof. intros. apply steps_good; auto. apply good_init; auto. Qed.

(* ---- slot_protocol_safe ---- *)
(* the A/B protocol of the two fixed graph slots *)
Definition slots_ok (w : swst) : Prop :=
  match w_active w with
  | None => w = empty_w
  | Some a =>
      (exists c, getg a w = Some c /\ c_started c = true) /\
      match getg (negb a) w with
      | None => w_prev w = None
      | Some c' => c_started c' = false /\ w_prev w = Some (negb a)
      end
  end.

(* the slot activate_branch is about to reuse *)
Definition reuse_slot (w : swst) : bool := match w_active w with Some a => negb a | None => false end.

Lemma good_slots D m : Good D m -> slots_ok (m_w m).
Proof.
  intros (_ & _ & _ & _ & H). unfold slots_ok. destruct (w_active (m_w m)) as [a|].
  - destruct H as (c & k & Hg & _ & (Ist & _) & Ho & _). split; [exists c; auto|exact Ho].
  - apply H.
Qed.

Lemma slot_protocol_safe_gen sp h D start end_ n :
  (s_nts sp <= 2)%nat -> sp_bounded D sp -> 1 <= start -> end_ <= MAX_DT -> end_ + D <= MAX_DT ->
  let m := reach sp h start end_ n in
  m_err m <> 4 /\ m_err m <> 6 /\
  (m_err m = 0 ->
   slots_ok (m_w m) /\
   (* the slot that the next switch reuses holds no running graph, and is the
      slot recorded as previous whenever one is recorded *)
   match getg (reuse_slot (m_w m)) (m_w m) with Some c => c_started c = false | None => True end /\
   match w_prev (m_w m) with Some p => p = reuse_slot (m_w m) | None => True end).
Proof.
  intros Hn Hsp Hs He HeD m.
  destruct (reach_good sp h D start end_ n Hn Hsp Hs He HeD) as [HG Herr]. fold m in HG, Herr.
  split; [lia|]. split; [lia|]. intros E0. pose proof (good_slots D m (HG E0)) as Hsl.
  split; [exact Hsl|]. unfold slots_ok in Hsl. unfold reuse_slot.
  destruct (w_active (m_w m)) as [a|].
  - destruct Hsl as [_ Ho]. destruct (getg (negb a) (m_w m)) as [c'|].
    + destruct Ho as [A B]. rewrite B. auto.
    + rewrite Ho. auto.
  - rewrite Hsl. simpl. auto.
Qed.

(* ---- switch_follows_active ---- *)
Lemma follows_active_gen sp h D start end_ fuel :
  (s_nts sp <= 2)%nat -> sp_bounded D sp -> 1 <= start -> end_ <= MAX_DT -> end_ + D <= MAX_DT ->
  let m := mirror_run sp h start end_ fuel in
  let s := spec_run sp h start end_ fuel in
  outs_of (m_log m) = s_outs s /\ cycles_of (m_log m) = s_cycles s /\ m_err m = s_err s /\
  s_cur (abs m) = s_cur s /\ m_out m = s_out s.
Proof.
  intros Hn Hsp Hs He HeD m s.
  pose proof (refines sp h D start end_ fuel Hn Hsp Hs He HeD) as R. fold m s in R.
  rewrite <- R. repeat split; reflexivity.
Qed.

(* ---- facts about one specification cycle ---- *)
Definition active_inst (m : mst) : option (Z * inst) := s_cur (abs m).

Lemma spec_eval_err sp t s : s_err (spec_eval sp t s) = s_err s.
Proof. unfold spec_eval. destruct (s_cur s) as [[k i]|]; auto. destruct (alone_cycle sp t (s_srcs s) i). reflexivity. Qed.

Lemma spec_rec_err sp t s : s_err (spec_rec sp t s) = s_err s.
Proof. unfold spec_rec. destruct (o_lmt (s_out s) =? t); reflexivity. Qed.

Lemma abs_akey D m : Good D m -> option_map fst (s_cur (abs m)) = w_akey (m_w m).
Proof.
  intros (_ & _ & _ & _ & H). unfold abs. cbn [s_cur]. destruct (w_active (m_w m)) as [a|].
  - destruct H as (c & k & Hg & Hk & _). rewrite Hk, Hg. reflexivity.
  - destruct H as (-> & _). reflexivity.
Qed.

Lemma key_tick_ticked sp h t s0 s1 s2 k :
  tick_of sp h 0 t = Some k -> key_tick (apply_ticks t [s0; s1; s2] (ticks_at sp h t)) t = Some k.
Proof. intros H. unfold ticks_at. cbn [apply_ticks]. rewrite H. simpl. rewrite Z.eqb_refl. reflexivity. Qed.

Lemma key_tick_quiet sp h t s0 s1 s2 :
  tick_of sp h 0 t = None -> snd s0 < t -> key_tick (apply_ticks t [s0; s1; s2] (ticks_at sp h t)) t = None.
Proof.
  intros H Hl. unfold ticks_at. cbn [apply_ticks]. rewrite H. simpl. destruct s0 as [[v|] lm]; auto.
  simpl in Hl. replace (lm =? t) with false by lia. reflexivity.
Qed.

(* ---- unmatched_is_error ---- *)
Lemma unmatched_gen sp h D end_ m :
  (s_nts sp <= 2)%nat -> sp_bounded D sp -> end_ <= MAX_DT -> end_ + D <= MAX_DT ->
  Good D m -> cycle_due sp h end_ m ->
  let t := mirror_next sp h m in
  (m_err (mirror_cycle sp h t m) = 2 <->
   exists k, tick_of sp h 0 t = Some k /\ need_switch sp (w_akey (m_w m)) k = true /\
             (forall b, ~ In (k, b) (s_cases sp)) /\ s_default sp = None).
Proof.
  intros Hn Hsp He HeD G Hdue t.
  destruct (cycle_from_good sp h D end_ m Hn Hsp He HeD G Hdue) as (Eabs & _ & _). fold t in Eabs.
  change (m_err (mirror_cycle sp h t m)) with (s_err (abs (mirror_cycle sp h t m))). rewrite Eabs.
  pose proof (abs_akey D m G) as Hak.
  destruct (next_ok sp h D m Hn G (proj1 (proj2 Hdue))) as (Hlt & _ & _). fold t in Hlt.
  destruct G as (_ & Herr & (s0 & s1 & s2 & Es & L0 & _) & _).
  unfold spec_cycle, spec_switch. cbn [s_srcs s_cur s_err s_ninst s_now s_out s_outs s_cycles].
  change (s_srcs (abs m)) with (m_srcs m). change (s_err (abs m)) with (m_err m). rewrite Es, Herr, Hak.
  destruct (tick_of sp h 0 t) as [k|] eqn:Etk.
  - rewrite (key_tick_ticked sp h t s0 s1 s2 k Etk).
    destruct (need_switch sp (w_akey (m_w m)) k) eqn:Eneed.
    + destruct (select_branch sp k) as [br|] eqn:Esel.
      * cbn [s_err Z.eqb negb]. rewrite spec_rec_err, spec_eval_err. cbn [s_err]. split; [discriminate|].
        intros (k' & Hk' & _ & Hc & Hd). injection Hk' as <-.
        pose proof (proj2 (select_branch_none sp k) (conj Hc Hd)). congruence.
      * cbn [s_err Z.eqb negb]. split; auto. intros _. exists k.
        destruct (proj1 (select_branch_none sp k) Esel). auto.
    + cbn [s_err Z.eqb negb]. rewrite spec_rec_err, spec_eval_err. cbn [s_err]. split; [discriminate|].
      intros (k' & Hk' & Hn' & _). injection Hk' as <-. congruence.
  - match goal with |- context [key_tick ?a ?b] =>
      replace (key_tick a b) with (@None Z) by (symmetry; apply key_tick_quiet; [exact Etk|lia]) end.
    cbn [s_err Z.eqb negb]. rewrite spec_rec_err, spec_eval_err. cbn [s_err]. split; [discriminate|].
    intros (k' & Hk' & _). discriminate.
Qed.

(* ---- new_branch_fresh_and_sampled / reselect_is_new_instance ---- *)
Lemma new_branch_gen sp h D end_ m k br :
  (s_nts sp <= 2)%nat -> sp_bounded D sp -> end_ <= MAX_DT -> end_ + D <= MAX_DT ->
  Good D m -> cycle_due sp h end_ m ->
  let t := mirror_next sp h m in
  tick_of sp h 0 t = Some k -> need_switch sp (w_akey (m_w m)) k = true -> select_branch sp k = Some br ->
  let srcs' := apply_ticks t (m_srcs m) (ticks_at sp h t) in
  let m' := mirror_cycle sp h t m in
  let run := alone_cycle sp t srcs' (fst (inst_start t (fresh_inst br (m_ninst m) t))) in
  let emptied := match active_inst m with Some _ => reset_out (s_set sp) t (m_out m) | None => m_out m end in
  m_err m' = 0 /\ m_ninst m' = m_ninst m + 1 /\
  active_inst m' = Some (k, fst run) /\
  m_out m' = match snd run with Some v => emit_out (s_set sp) t v emptied | None => emptied end.
Proof.
  intros Hn Hsp He HeD G Hdue t Etk Eneed Esel srcs' m' run emptied.
  destruct (cycle_from_good sp h D end_ m Hn Hsp He HeD G Hdue) as (Eabs & _ & _). fold t m' in Eabs.
  pose proof (abs_akey D m G) as Hak.
  destruct G as (_ & Herr & (s0 & s1 & s2 & Es & _) & _).
  assert (E : abs m' = spec_rec sp t (spec_eval sp t
                         (mkS t srcs' (Some (k, fst (inst_start t (fresh_inst br (m_ninst m) t))))
                              (m_ninst m + 1) emptied (outs_of (m_log m)) (t :: cycles_of (m_log m)) 0))).
  { rewrite Eabs. unfold spec_cycle, spec_switch. cbn [s_srcs s_cur s_err s_ninst s_now s_out s_outs s_cycles].
    change (s_srcs (abs m)) with (m_srcs m). change (s_err (abs m)) with (m_err m).
    change (s_ninst (abs m)) with (m_ninst m). change (s_out (abs m)) with (m_out m).
    fold srcs'. unfold srcs'. rewrite Es, Herr, Hak.
    rewrite (key_tick_ticked sp h t s0 s1 s2 k Etk), Eneed, Esel. reflexivity. }
  unfold active_inst.
  change (m_err m') with (s_err (abs m')). change (m_ninst m') with (s_ninst (abs m')).
  change (m_out m') with (s_out (abs m')). rewrite E.
  unfold spec_rec, spec_eval. cbn [s_cur s_srcs s_out s_now s_ninst s_outs s_cycles s_err]. fold run.
  destruct run as [i' em]. cbn [fst snd s_out].
  match goal with |- context [if ?b then _ else _] => destruct b end; repeat split; reflexivity.
Qed.

(* the collection shape: after a selection the switch-owned set holds exactly what
   the NEW instance published at the switch time, whatever it held before *)
Lemma fresh_container_gen sp h D end_ m k br :
  (s_nts sp <= 2)%nat -> sp_bounded D sp -> end_ <= MAX_DT -> end_ + D <= MAX_DT ->
  Good D m -> cycle_due sp h end_ m ->
  let t := mirror_next sp h m in
  tick_of sp h 0 t = Some k -> need_switch sp (w_akey (m_w m)) k = true -> select_branch sp k = Some br ->
  s_set sp = true ->
  let srcs' := apply_ticks t (m_srcs m) (ticks_at sp h t) in
  let m' := mirror_cycle sp h t m in
  o_set (m_out m') = opt_list (snd (alone_cycle sp t srcs' (fst (inst_start t (fresh_inst br (m_ninst m) t))))) /\
  o_lmt (m_out m') = (if is_some (active_inst m) || is_some (snd (alone_cycle sp t srcs' (fst (inst_start t (fresh_inst br (m_ninst m) t)))))
                      then t else o_lmt (m_out m)) /\
  (* the delta the recorder reports at the switch time is taken against what the replaced instance had published *)
  (is_some (active_inst m) = true -> o_old (m_out m') = o_set (m_out m)).
Proof.
  intros Hn Hsp He HeD G Hdue t Etk Eneed Esel Hset srcs' m'.
  destruct (new_branch_gen sp h D end_ m k br Hn Hsp He HeD G Hdue Etk Eneed Esel) as (_ & _ & _ & Eo).
  fold t srcs' m' in Eo.
  destruct (next_ok sp h D m Hn G (proj1 (proj2 Hdue))) as (Hlt & _ & _). fold t in Hlt.
  assert (Hem : o_set (match active_inst m with Some _ => reset_out true t (m_out m) | None => m_out m end) = []).
  { unfold active_inst, abs. cbn [s_cur]. destruct G as (_ & _ & _ & _ & Hact).
    destruct (w_active (m_w m)) as [a|].
    - destruct Hact as (c & k0 & Hg & Hk & _). rewrite Hk, Hg. reflexivity.
    - destruct Hact as (_ & _ & _ & ->). reflexivity. }
  assert (Hlm : o_lmt (m_out m) < t) by (destruct G as (_ & _ & _ & Hl & _); lia).
  rewrite Eo, Hset. clear Eo. split; [|split].
  - destruct (snd (alone_cycle sp t srcs' _)) as [v|]; [|exact Hem].
    unfold emit_out. cbn [o_set]. unfold touch.
    match goal with |- context [if ?b then _ else _] => destruct b end; cbn [o_set]; rewrite Hem; reflexivity.
  - destruct (active_inst m); destruct (snd (alone_cycle sp t srcs' _)); cbn [is_some orb];
      unfold emit_out, reset_out, touch; cbn [o_lmt]; reflexivity.
  - intros Ha. destruct (active_inst m); [|discriminate].
    unfold reset_out at 1 2. unfold touch at 2 4. replace (o_lmt (m_out m) <? t) with true by lia.
    destruct (snd (alone_cycle sp t srcs' _)); [|reflexivity].
    unfold emit_out, touch. cbn [o_lmt o_old o_set o_val]. rewrite Z.ltb_irrefl. reflexivity.
Qed.

(* what a freshly selected instance is, and what it sees *)
Lemma fresh_sees_held sp br id t srcs :
  0 <= b_sd (br_body br) -> t + b_sd (br_body br) < MAX_DT ->
  let i0 := fst (inst_start t (fresh_inst br id t)) in
  i_state i0 = 0 /\ i_id i0 = id /\ i_br i0 = br /\ i_samp i0 = t /\
  events (i_sch i0) = (if b_sos (br_body br) then [(t + b_sd (br_body br), 0)] else []) /\
  views sp t srcs i0 = map (fun s => mkIv (is_some (fst s)) true (match fst s with Some v => v | None => 0 end))
                           (bound_srcs sp br srcs) /\
  due t (views sp t srcs i0) i0 =
    (b_sos (br_body br) && (b_sd (br_body br) =? 0)) || existsb (fun s => is_some (fst s)) (bound_srcs sp br srcs).
Proof.
  intros H0 Ht i0. unfold i0. rewrite (inst_start_fresh br id t H0 Ht). cbn [i_state i_id i_br i_samp i_sch].
  assert (V : forall l, map (view_of t t) l =
                        map (fun s => mkIv (is_some (fst s)) true (match fst s with Some v => v | None => 0 end)) l).
  { induction l as [|s r IH]; simpl; auto. rewrite IH. f_equal. unfold view_of. destruct (fst s); simpl; auto.
    all: rewrite Z.eqb_refl; reflexivity. }
  repeat split; auto.
  - destruct (b_sos (br_body br)); reflexivity.
  - unfold views. cbn [i_samp i_br]. apply V.
  - unfold due, views. cbn [i_samp i_br i_sch]. rewrite V. f_equal.
    + destruct (b_sos (br_body br)); unfold is_scheduled_now; simpl; auto.
      destruct (b_sd (br_body br) =? 0) eqn:E; lia.
    + induction (bound_srcs sp br srcs) as [|s r IH]; simpl; auto. rewrite IH. destruct (fst s); reflexivity.
Qed.

(* ---- instance identities: a selection always creates an instance with a new id ---- *)
Lemma node_eval_id t ivs i : i_id (r_inst (node_eval t ivs i)) = i_id i.
Proof.
  unfold node_eval. destruct (match ivs with [] => true | _ :: _ => forallb v_valid ivs end).
  - destruct (b_step (br_body (i_br i)) (i_state i) (is_scheduled_now t (i_sch i)) ivs) as [[st' em] wk].
    destruct wk as [d|].
    + destruct (schedule t true (t + d) 0 (i_sch i)) as [s' p].
      destruct (if is_scheduled_now t (i_sch i) then advance t s' else _) as [s2 p2]. reflexivity.
    + destruct (if is_scheduled_now t (i_sch i) then advance t (i_sch i) else _) as [s2 p2]. reflexivity.
  - destruct (if is_scheduled_now t (i_sch i) then advance t (i_sch i) else _) as [s2 p2]. reflexivity.
Qed.

Lemma inst_start_id t i : i_id (fst (inst_start t i)) = i_id i.
Proof. unfold inst_start. destruct (b_sos (br_body (i_br i))); auto. destruct (schedule t false _ 0 (i_sch i)). reflexivity. Qed.

Definition sid_ok (s : sst) : Prop :=
  match s_cur s with Some (_, i) => i_id i < s_ninst s | None => True end.

Lemma spec_rec_id sp t s : sid_ok s -> sid_ok (spec_rec sp t s).
Proof. unfold spec_rec, sid_ok. destruct (o_lmt (s_out s) =? t); auto. Qed.

Lemma spec_cycle_id sp h t s : sid_ok s -> sid_ok (spec_cycle sp h t s).
Proof.
  intros H. unfold spec_cycle.
  set (s0 := mkS t _ (s_cur s) (s_ninst s) (s_out s) (s_outs s) (t :: s_cycles s) (s_err s)).
  assert (H0 : sid_ok s0) by exact H.
  assert (H1 : sid_ok (spec_switch sp t s0)).
  { unfold spec_switch. destruct (key_tick (s_srcs s0) t) as [k|]; auto.
    destruct (need_switch sp (option_map fst (s_cur s0)) k); auto.
    destruct (select_branch sp k) as [br|]; auto.
    unfold sid_ok. cbn [s_cur s_ninst]. rewrite inst_start_id. simpl. lia. }
  destruct (negb (s_err (spec_switch sp t s0) =? 0)); auto.
  apply spec_rec_id.
  unfold spec_eval, sid_ok in *. destruct (s_cur (spec_switch sp t s0)) as [[k i]|] eqn:Ec; [|rewrite Ec; exact I].
  unfold alone_cycle. destruct (due t (views sp t (s_srcs (spec_switch sp t s0)) i) i); cbn [s_cur s_ninst fst]; auto.
  rewrite node_eval_id. exact H1.
Qed.

Lemma reach_id_ok sp h D start end_ n :
  (s_nts sp <= 2)%nat -> sp_bounded D sp -> 1 <= start -> end_ <= MAX_DT -> end_ + D <= MAX_DT ->
  sid_ok (abs (reach sp h start end_ n)).
Proof.
  intros Hn Hsp Hs He HeD. unfold reach. induction n as [|k IH]; simpl.
  - exact I.
  - destruct (steps_good sp h D end_ k (mirror_init start) Hn Hsp He HeD (good_init D start Hs)) as [G _].
    destruct (m_err (steps sp h end_ k (mirror_init start)) =? 0) eqn:E; cbn [negb]; auto.
    destruct ((mirror_next sp h (steps sp h end_ k (mirror_init start)) =? MAX_DT) ||
              (end_ <=? mirror_next sp h (steps sp h end_ k (mirror_init start)))) eqn:Es; auto.
    destruct (cycle_from_good sp h D end_ _ Hn Hsp He HeD (G ltac:(lia))) as (Eabs & _).
    { unfold cycle_due. repeat split; lia. }
    rewrite Eabs. apply spec_cycle_id. exact IH.
Qed.

(* ---- old_branch_silent: the started gate ---- *)
Lemma notify_stopped sp t tks b m c :
  getg b (m_w m) = Some c -> c_started c = false -> notify_child sp t tks b m = m.
Proof. intros Hg Hs. unfold notify_child. rewrite Hg, Hs. reflexivity. Qed.

Lemma child_evaluate_stopped t ivs c :
  c_started c = false ->
  cr_err (child_evaluate t ivs c) = 5 /\ cr_log (child_evaluate t ivs c) = [] /\
  cr_emit (child_evaluate t ivs c) = None /\ cr_push (child_evaluate t ivs c) = None.
Proof. intros H. unfold child_evaluate. rewrite H. simpl. auto. Qed.

Lemma m_w_parent_schedule_opt p m : m_w (parent_schedule_opt p m) = m_w m.
Proof.
  destruct p as [w|]; auto. unfold parent_schedule_opt, parent_schedule.
  destruct (w <? m_now m); auto. destruct ((m_pslot m <=? m_now m) || (w <? m_pslot m)); auto.
Qed.

Lemma eval_phase_other sp t m a :
  w_active (m_w m) = Some a -> getg (negb a) (m_w (eval_phase sp t m)) = getg (negb a) (m_w m).
Proof.
  intros Ha. unfold eval_phase. rewrite Ha. destruct (getg a (m_w m)) as [c|]; auto.
  set (r := child_evaluate t (views sp t (m_srcs m) (c_inst c)) c).
  assert (E : forall mm, m_w mm = setg a (Some (cr_child r)) (m_w m) ->
                getg (negb a) (m_w mm) = getg (negb a) (m_w m)).
  { intros mm ->. apply getg_setg_other. }
  destruct (negb (cr_err r =? 0)).
  - apply E. destruct (cr_emit r); reflexivity.
  - rewrite m_w_parent_schedule_opt. apply E. destruct (cr_emit r); reflexivity.
Qed.

Lemma old_silent_gen sp h D start end_ n :
  (s_nts sp <= 2)%nat -> sp_bounded D sp -> 1 <= start -> end_ <= MAX_DT -> end_ + D <= MAX_DT ->
  let m := reach sp h start end_ n in
  m_err m = 0 ->
  forall a, w_active (m_w m) = Some a ->
  forall c', getg (negb a) (m_w m) = Some c' ->
    (* the retired graph is stopped *)
    c_started c' = false /\
    (* so no tick of its inputs reaches it *)
    (forall t tks, notify_child sp t tks (negb a) m = m) /\
    (* evaluating the switch does not touch it (only the active slot is evaluated) *)
    (forall t, getg (negb a) (m_w (eval_phase sp t m)) = Some c') /\
    (* and the runtime would refuse to evaluate it *)
    (forall t ivs, cr_err (child_evaluate t ivs c') = 5 /\ cr_emit (child_evaluate t ivs c') = None).
Proof.
  intros Hn Hsp Hs He HeD m E0 a Ha c' Hg.
  destruct (reach_good sp h D start end_ n Hn Hsp Hs He HeD) as [HG _]. fold m in HG.
  pose proof (good_slots D m (HG E0)) as Hsl. unfold slots_ok in Hsl. rewrite Ha, Hg in Hsl.
  destruct Hsl as [_ [Hst _]].
  split; [exact Hst|]. split; [intros; eapply notify_stopped; eauto|].
  split; [intros; rewrite eval_phase_other; auto|].
  intros t ivs. destruct (child_evaluate_stopped t ivs c' Hst) as (A & _ & B & _). auto.
Qed.

(* ------------------------------------------------------------------ *)
(*  The theorems of Props/C12.v, over every reachable state            *)
(* ------------------------------------------------------------------ *)
Section Reachable.
  Variables (sp : swspec) (h : hist) (D start end_ : Z).
  Hypothesis Hn : (s_nts sp <= 2)%nat.
  Hypothesis Hsp : sp_bounded D sp.
  Hypothesis Hs : 1 <= start.
  Hypothesis He : end_ <= MAX_DT.
  Hypothesis HeD : end_ + D <= MAX_DT.

  Lemma reach_due_good n : cycle_due sp h end_ (reach sp h start end_ n) -> Good D (reach sp h start end_ n).
  Proof. intros Hd. apply (reach_good sp h D start end_ n Hn Hsp Hs He HeD). apply Hd. Qed.

  Lemma unmatched_reach n :
    let m := reach sp h start end_ n in
    cycle_due sp h end_ m ->
    let t := mirror_next sp h m in
    (m_err (mirror_cycle sp h t m) = 2 <->
     exists k, tick_of sp h 0 t = Some k /\ need_switch sp (w_akey (m_w m)) k = true /\
               (forall b, ~ In (k, b) (s_cases sp)) /\ s_default sp = None).
  Proof. intros m Hd. apply (unmatched_gen sp h D end_ m Hn Hsp He HeD (reach_due_good n Hd) Hd). Qed.

  Lemma new_branch_reach n k br :
    let m := reach sp h start end_ n in
    cycle_due sp h end_ m ->
    let t := mirror_next sp h m in
    tick_of sp h 0 t = Some k -> need_switch sp (w_akey (m_w m)) k = true -> select_branch sp k = Some br ->
    let srcs' := apply_ticks t (m_srcs m) (ticks_at sp h t) in
    let m' := mirror_cycle sp h t m in
    let run := alone_cycle sp t srcs' (fst (inst_start t (fresh_inst br (m_ninst m) t))) in
    let emptied := match active_inst m with Some _ => reset_out (s_set sp) t (m_out m) | None => m_out m end in
    m_err m' = 0 /\ m_ninst m' = m_ninst m + 1 /\
    active_inst m' = Some (k, fst run) /\
    m_out m' = match snd run with Some v => emit_out (s_set sp) t v emptied | None => emptied end.
  Proof. intros m Hd. apply (new_branch_gen sp h D end_ m k br Hn Hsp He HeD (reach_due_good n Hd) Hd). Qed.

  Lemma fresh_container_reach n k br :
    let m := reach sp h start end_ n in
    cycle_due sp h end_ m ->
    let t := mirror_next sp h m in
    tick_of sp h 0 t = Some k -> need_switch sp (w_akey (m_w m)) k = true -> select_branch sp k = Some br ->
    s_set sp = true ->
    let srcs' := apply_ticks t (m_srcs m) (ticks_at sp h t) in
    let m' := mirror_cycle sp h t m in
    let run := alone_cycle sp t srcs' (fst (inst_start t (fresh_inst br (m_ninst m) t))) in
    o_set (m_out m') = opt_list (snd run) /\
    o_lmt (m_out m') = (if is_some (active_inst m) || is_some (snd run) then t else o_lmt (m_out m)) /\
    (is_some (active_inst m) = true -> o_old (m_out m') = o_set (m_out m)).
  Proof. intros m Hd. apply (fresh_container_gen sp h D end_ m k br Hn Hsp He HeD (reach_due_good n Hd) Hd). Qed.

  Lemma reselect_reach n k br :
    let m := reach sp h start end_ n in
    cycle_due sp h end_ m ->
    let t := mirror_next sp h m in
    tick_of sp h 0 t = Some k -> need_switch sp (w_akey (m_w m)) k = true -> select_branch sp k = Some br ->
    let m' := mirror_cycle sp h t m in
    exists i', active_inst m' = Some (k, i') /\ i_id i' = m_ninst m /\
               (forall k0 i0, active_inst m = Some (k0, i0) -> i_id i0 < i_id i').
  Proof.
    intros m Hd t Etk Eneed Esel m'.
    destruct (new_branch_reach n k br Hd Etk Eneed Esel) as (_ & _ & Ea & _). fold m t m' in Ea.
    eexists. split; [exact Ea|].
    assert (Eid : i_id (fst (alone_cycle sp t (apply_ticks t (m_srcs m) (ticks_at sp h t))
                                 (fst (inst_start t (fresh_inst br (m_ninst m) t))))) = m_ninst m).
    { unfold alone_cycle. destruct (due _ _ _); cbn [fst]; rewrite ?node_eval_id, inst_start_id; reflexivity. }
    split; [exact Eid|]. intros k0 i0 H0. rewrite Eid.
    pose proof (reach_id_ok sp h D start end_ n Hn Hsp Hs He HeD) as Hid. fold m in Hid.
    unfold sid_ok in Hid. unfold active_inst in H0. rewrite H0 in Hid. exact Hid.
  Qed.
End Reachable.

(* the harness vocabulary satisfies the boundedness hypothesis *)
Lemma table_bounded D p : p_d p <= D -> 0 <= p_sd p <= D -> body_bounded D (table_body p).
Proof.
  intros H Hsd. split; [exact Hsd|]. intros st wk ivs. unfold table_body, table_step. cbn [b_step snd].
  match goal with |- context [if ?b then Some (p_d p) else None] => destruct b end; auto.
Qed.

Lemma spec_of_bounded D d :
  1 <= D -> Forall (fun p => p_d p <= D /\ 0 <= p_sd p <= D) (d_tab d) -> sp_bounded D (spec_of d).
Proof.
  intros H1 Hf k br Hsel.
  assert (Hnth : forall sl, p_d (nth (Z.to_nat sl) (d_tab d) dflt_bp) <= D /\
                            0 <= p_sd (nth (Z.to_nat sl) (d_tab d) dflt_bp) <= D).
  { intros sl. destruct (nth_in_or_default (Z.to_nat sl) (d_tab d) dflt_bp) as [Hin| ->]; [|simpl; lia].
    rewrite Forall_forall in Hf. auto. }
  assert (Hb : forall sl uk, body_bounded D (br_body (mk_branch d sl uk))).
  { intros. unfold mk_branch. cbn [br_body]. apply table_bounded; apply Hnth. }
  unfold select_branch, spec_of in Hsel. cbn [s_cases s_default] in Hsel.
  destruct (find_case k (map (fun e => (fst (fst e), mk_branch d (snd (fst e)) (snd e))) (d_ents d))) as [b|] eqn:Ef.
  - injection Hsel as <-. clear -Ef Hb. induction (d_ents d) as [|e r IH]; simpl in Ef; [discriminate|].
    destruct (fst (fst e) =? k); [injection Ef as <-; apply Hb|auto].
  - destruct (d_dflt d) as [[sl uk]|]; [injection Hsel as <-; apply Hb|discriminate].
Qed.

Lemma find_case_in k cs b : find_case k cs = Some b -> exists k', In (k', b) cs.
Proof.
  induction cs as [|[k' b'] r IH]; simpl; [discriminate|].
  destruct (k' =? k).
  - intros H. injection H as <-. exists k'. left. reflexivity.
  - intros H. destruct (IH H) as (k'' & Hin). exists k''. right. exact Hin.
Qed.

Lemma sp_bounded_intro D sp :
  Forall (fun kb => body_bounded D (br_body (snd kb))) (s_cases sp) ->
  match s_default sp with Some b => body_bounded D (br_body b) | None => True end ->
  sp_bounded D sp.
Proof.
  intros Hc Hd k br H. unfold select_branch in H.
  destruct (find_case k (s_cases sp)) as [b|] eqn:E.
  - injection H as <-. destruct (find_case_in k _ b E) as (k' & Hin).
    rewrite Forall_forall in Hc. apply (Hc (k', b) Hin).
  - rewrite H in Hd. exact Hd.
Qed.
