(* SwitchFacts.v — lemmas and proofs about Switch.v (property C12). *)
Require Import Base Sched SchedFacts Switch.
From Coq Require Import ZifyBool.

Lemma find_case_none k cs : find_case k cs = None <-> forall b, ~ In (k, b) cs.
Proof.
  induction cs as [|[k' b'] r IH]; simpl.
  - split; auto.
  - destruct (k' =? k) eqn:E.
    + split; [discriminate|]. intros H. exfalso. apply (H b'). left. f_equal. lia.
    + rewrite IH. split.
      * intros H b [Heq|Hin]; [inversion Heq; lia|]. exact (H b Hin).
      * intros H b Hin. apply (H b). right. exact Hin.
Qed.
