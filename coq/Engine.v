(* Engine.v — mirror model of the flat evaluation engine:
     src/hgraph/runtime/graph.cpp   schedule_node_impl, start_impl, evaluate_impl
     src/hgraph/runtime/node.cpp    start_impl, evaluate_impl, ready_to_evaluate,
                                    NodeRuntimeStorage::notify
     src/hgraph/runtime/executor.cpp run_storage + advance_simulation
   over native nodes with TS<int> ports.  User code is an arbitrary function
   [behaviour] from what a node can observe to a list of operations from the
   closed vocabulary [op]; the harness vocabulary (scripts) is one instance.
   Executable definitions only; the theorems are in EngineFacts.v. *)
Require Import Base Sched.

(* ---- static description of a graph ---- *)
(* One entry per bound TS<int> endpoint of the input bundle.  A plain slot is one entry.  A slot of type
   TSL<TS<int>,2> (non-peered list, its two elements bound to two producers) is TWO consecutive entries that
   name each other's producer in [i_mate]; they share activity, requiredness and [i_all].
   i_req : the slot is required valid (listed in schema.valid_inputs, or every slot by default) -
           a list slot is valid as soon as ONE element holds a value;
   i_all : the slot is listed in schema.all_valid_inputs - EVERY element must hold a value. *)
Record inspec := mkIn { i_src : nat; i_active : bool; i_req : bool; i_mate : option nat; i_all : bool }.

Record ncfg := mkCfg {
  c_sched : bool;           (* schema.uses_scheduler *)
  c_sos   : bool;           (* schema.schedule_on_start *)
  c_out   : bool;           (* has an output *)
  c_vmode : Z;              (* 0: every input must be valid; 1: those with i_req *)
  c_ins   : list inspec }.

(* ---- operations user code may perform ---- *)
Inductive op :=
| OSchedule (delta tag : Z)      (* sched.schedule(now + delta, tag) *)
| OUnschedTag (tag : Z)
| OUnschedFirst
| OPopTag (tag : Z)
| OReset
| OEmit (a : Z)                  (* out.set(a + sum of the valid inputs) *)
| ORaw (delta : Z)               (* graph.schedule_node(self, now + delta) *)
| OThrow
| OMakePassive (slot : Z)        (* input[slot].make_passive() *)
| OMakeActive (slot : Z)         (* input[slot].make_active() *)
| OInvalidate                    (* out.invalidate(): the producer withdraws its value *)
| ONop.

(* what user code sees of one input *)
Record inview := mkIv { v_valid : bool; v_mod : bool; v_val : Z; v_lmt : Z }.

(* user code: node, run index (-1 = the start hook), time, inputs, scheduler state -> ops *)
Definition behaviour := nat -> Z -> Z -> list inview -> sched -> list op.

(* ---- dynamic state ---- *)
(* n_lmt is the time of the last notification sent to the observers of the output (a write or an
   invalidation): it is what a bound input reports as its last_modified_time.  The producer's own
   last_modified_time is n_lmt while the output holds a value and MIN_DT otherwise (final_lines). *)
Record nst := mkN { n_started : bool; n_sch : sched; n_runs : Z; n_val : option Z; n_lmt : Z;
                     n_evals : Z (* times the graph evaluated the node: lifecycle before_node_evaluation *);
                     n_act : list bool (* per input slot: subscribed (make_active / make_passive at run time) *) }.

Record gst := mkG {
  g_now : Z;
  g_slots : list Z;          (* per-node scheduled time (graph_schedule) *)
  g_nst : Z;                 (* cached next_scheduled_time *)
  g_nodes : list nst;
  g_log : list line;         (* observations, newest first *)
  g_err : Z }.               (* 0 = running; otherwise the error kind that escaped *)

Definition init_n : nst := mkN false empty_sched 0 None MIN_DT 0 [].
Definition dflt_cfg : ncfg := mkCfg false false false 0 [].

Definition emit (l : line) (g : gst) : gst :=
  mkG (g_now g) (g_slots g) (g_nst g) (g_nodes g) (l :: g_log g) (g_err g).
Definition set_err (e : Z) (g : gst) : gst :=
  mkG (g_now g) (g_slots g) (g_nst g) (g_nodes g) (g_log g) e.
Definition upd_node (i : nat) (f : nst -> nst) (g : gst) : gst :=
  mkG (g_now g) (g_slots g) (g_nst g) (update i f (g_nodes g)) (g_log g) (g_err g).
Definition node_at (i : nat) (g : gst) : nst := nth i (g_nodes g) init_n.
Definition slot_at (i : nat) (g : gst) : Z := nth i (g_slots g) MIN_DT.

(* graph.cpp schedule_node_impl *)
Definition schedule_node (i : nat) (when : Z) (g : gst) : gst :=
  if when <? g_now g then set_err 3 g
  else
    let sc := slot_at i g in
    if (sc <=? g_now g) || (when <? sc) then
      mkG (g_now g) (set_nth i when (g_slots g))
          (if (g_now g <? when) && (when <? g_nst g) then when else g_nst g)
          (g_nodes g) (g_log g) (g_err g)
    else g.

Definition opt_schedule (i : nat) (w : option Z) (g : gst) : gst :=
  match w with Some t => schedule_node i t g | None => g end.

(* ---- reading inputs ---- *)
Definition read_input (g : gst) (s : inspec) : inview :=
  let p := node_at (i_src s) g in
  match n_val p with
  | Some v => mkIv true (n_lmt p =? g_now g) v (n_lmt p)
  | None => mkIv false (n_lmt p =? g_now g) 0 (n_lmt p)   (* invalidated in this cycle: the link was notified *)
  end.

Definition read_inputs (c : ncfg) (g : gst) : list inview := map (read_input g) (c_ins c).

(* node.cpp ready_to_evaluate: the valid selector (or every slot), then the all-valid selector *)
Definition has_val (g : gst) (p : nat) : bool :=
  match n_val (node_at p g) with Some _ => true | None => false end.

Definition slot_valid (g : gst) (s : inspec) : bool :=
  match i_mate s with
  | None => v_valid (read_input g s)
  | Some m => v_valid (read_input g s) || has_val g m
  end.

Definition ready (c : ncfg) (g : gst) : bool :=
  forallb (fun s => (if (c_vmode c =? 0) || i_req s then slot_valid g s else true) &&
                    (if i_all s then v_valid (read_input g s) else true)) (c_ins c).

(* ---- output write + notification of subscribed (active) inputs ---- *)
Fixpoint notify_from (cfgs : list ncfg) (j : nat) (src : nat) (g : gst) : gst :=
  match cfgs with
  | [] => g
  | c :: r =>
      let g' := if existsb (fun sa => (i_src (fst sa) =? src)%nat && snd sa) (combine (c_ins c) (n_act (node_at j g)))
                   && n_started (node_at j g)
                then schedule_node j (g_now g) g else g in
      notify_from r (S j) src g'
  end.

Definition sum_valid (ivs : list inview) : Z :=
  fold_left (fun a v => if v_valid v then a + v_val v else a) ivs 0.

(* ---- scheduler snapshot line (codes 13) ---- *)
Definition tagq (now t : Z) (s : sched) : line :=
  [b2z (has_tag t s); tag_time t MIN_DT s; b2z (tag_is_scheduled_now now t s)].

Definition snapshot (code : Z) (i : nat) (now k : Z) (s : sched) (extra : Z) : line :=
  [code; Z.of_nat i; now; k; next_scheduled_time s; b2z (is_scheduled s); b2z (is_scheduled_now now s)]
    ++ tagq now 1 s ++ tagq now 2 s ++ tagq now 3 s ++ [extra].

(* ---- one operation of user code ---- *)
Definition set_sch (s : sched) (n : nst) : nst := mkN (n_started n) s (n_runs n) (n_val n) (n_lmt n) (n_evals n) (n_act n).
Definition set_act (a : list bool) (n : nst) : nst := mkN (n_started n) (n_sch n) (n_runs n) (n_val n) (n_lmt n) (n_evals n) a.
Definition set_out (v now : Z) (n : nst) : nst := mkN (n_started n) (n_sch n) (n_runs n) (Some v) now (n_evals n) (n_act n).
Definition set_inv (now : Z) (n : nst) : nst := mkN (n_started n) (n_sch n) (n_runs n) None now (n_evals n) (n_act n).

Definition is_list_entry (c : ncfg) (sl : Z) : bool :=
  match i_mate (nth (Z.to_nat sl) (c_ins c) (mkIn 0 false false None false)) with Some _ => true | None => false end.

Definition do_op (cfgs : list ncfg) (i : nat) (started : bool) (opi : Z) (o : op) (g : gst) : gst :=
  if negb (g_err g =? 0) then g else
  let c := nth i cfgs dflt_cfg in
  let now := g_now g in
  let s := n_sch (node_at i g) in
  let snap s' extra g' := emit (snapshot 13 i now opi s' extra) g' in
  match o with
  | OSchedule d tag =>
      if c_sched c then
        let '(s', push) := schedule now started (now + d) tag s in
        snap s' 0 (opt_schedule i push (upd_node i (set_sch s') g))
      else g
  | OUnschedTag tag =>
      if c_sched c then let s' := un_schedule_tag tag s in snap s' 0 (upd_node i (set_sch s') g) else g
  | OUnschedFirst =>
      if c_sched c then let s' := un_schedule_first s in snap s' 0 (upd_node i (set_sch s') g) else g
  | OPopTag tag =>
      if c_sched c then let '(s', w) := pop_tag tag MIN_DT s in snap s' w (upd_node i (set_sch s') g) else g
  | OReset =>
      if c_sched c then let s' := reset s in snap s' 0 (upd_node i (set_sch s') g) else g
  | OEmit a =>
      if c_out c && started then
        let v := a + sum_valid (read_inputs c g) in
        let g1 := upd_node i (set_out v now) g in
        let g2 := notify_from cfgs 0 i g1 in
        emit [14; Z.of_nat i; now; v] g2
      else g
  | ORaw d => schedule_node i (now + d) g
  | OThrow => set_err 2 g
  | OMakePassive sl =>
      (* a list slot is (un)subscribed as a whole: the op names its FIRST entry, both entries change *)
      if is_list_entry c sl
      then upd_node i (set_act (set_nth (S (Z.to_nat sl)) false (set_nth (Z.to_nat sl) false (n_act (node_at i g))))) g
      else upd_node i (set_act (set_nth (Z.to_nat sl) false (n_act (node_at i g)))) g
  | OMakeActive sl =>
      if is_list_entry c sl
      then upd_node i (set_act (set_nth (S (Z.to_nat sl)) true (set_nth (Z.to_nat sl) true (n_act (node_at i g))))) g
      else upd_node i (set_act (set_nth (Z.to_nat sl) true (n_act (node_at i g)))) g
  | OInvalidate =>
      (* ts_data/base_view.cpp TSDataMutationView::invalidate: nothing without a current value; otherwise
         the observers are notified at the mutation time and the value is withdrawn *)
      if c_out c && started then
        match n_val (node_at i g) with
        | None => emit [16; Z.of_nat i; now; 0] g
        | Some _ =>
            let g1 := upd_node i (set_inv now) g in
            let g2 := notify_from cfgs 0 i g1 in
            emit [16; Z.of_nat i; now; 1] g2
        end
      else g
  | ONop => g
  end.

Fixpoint do_ops (cfgs : list ncfg) (i : nat) (started : bool) (opi : Z) (os : list op) (g : gst) : gst :=
  match os with
  | [] => g
  | o :: r => do_ops cfgs i started (opi + 1) r (do_op cfgs i started opi o g)
  end.

(* ---- node.cpp start_impl ---- *)
Definition set_started (n : nst) : nst := mkN true (n_sch n) (n_runs n) (n_val n) (n_lmt n) (n_evals n) (n_act n).

Definition start_node (cfgs : list ncfg) (beh : behaviour) (i : nat) (g : gst) : gst :=
  if negb (g_err g =? 0) then g else
  let c := nth i cfgs dflt_cfg in
  let g := upd_node i (set_act (map i_active (c_ins c))) g in      (* activate_input_slots *)
  let g1 := do_ops cfgs i false 0 (beh i (-1) (g_now g) (read_inputs c g) (n_sch (node_at i g))) g in
  if negb (g_err g1 =? 0) then g1 else
  let g2 := upd_node i set_started g1 in
  if c_sos c then schedule_node i (g_now g2) g2 else g2.

Fixpoint start_nodes (cfgs : list ncfg) (beh : behaviour) (i : nat) (k : nat) (g : gst) : gst :=
  match k with
  | O => g
  | S k' => start_nodes cfgs beh (S i) k' (start_node cfgs beh i g)
  end.

(* graph.cpp start_impl: the cache is seeded from the slots >= now *)
Definition seed_cache (g : gst) : gst :=
  mkG (g_now g) (g_slots g)
      (fold_left (fun acc sc => if (g_now g <=? sc) && (sc <? acc) then sc else acc) (g_slots g) MAX_DT)
      (g_nodes g) (g_log g) (g_err g).

Definition start_graph (cfgs : list ncfg) (beh : behaviour) (start : Z) : gst :=
  let n := length cfgs in
  let g0 := mkG start (repeat MIN_DT n) MAX_DT (repeat init_n n) [] 0 in
  let g1 := start_nodes cfgs beh 0 n g0 in
  if negb (g_err g1 =? 0) then g1 else seed_cache g1.

(* ---- node.cpp evaluate_impl ---- *)
Definition inc_runs (n : nst) : nst := mkN (n_started n) (n_sch n) (n_runs n + 1) (n_val n) (n_lmt n) (n_evals n) (n_act n).
Definition inc_evals (n : nst) : nst := mkN (n_started n) (n_sch n) (n_runs n) (n_val n) (n_lmt n) (n_evals n + 1) (n_act n).

Definition iv_line (v : inview) : line := [b2z (v_valid v); b2z (v_mod v); v_val v; v_lmt v].

Definition eval_node (cfgs : list ncfg) (beh : behaviour) (i : nat) (g : gst) : gst :=
  let c := nth i cfgs dflt_cfg in
  let n := node_at i g in
  if negb (n_started n) then g else
  let now := g_now g in
  let scheduled_now := c_sched c && is_scheduled_now now (n_sch n) in
  let do_eval := match c_ins c with [] => true | _ => ready c g end in
  let g1 :=
    if do_eval then
      let k := n_runs n in
      let ivs := read_inputs c g in
      let hdr := [12; Z.of_nat i; now; k] ++
                 (if c_sched c then [b2z (is_scheduled_now now (n_sch n)); next_scheduled_time (n_sch n)] else [0; 0]) ++
                 concat (map iv_line ivs) in
      let g' := emit hdr (upd_node i inc_runs g) in
      do_ops cfgs i true 0 (beh i k now ivs (n_sch n)) g'
    else g in
  if negb (g_err g1 =? 0) then g1 else
  if c_sched c then
    let s := n_sch (node_at i g1) in
    if scheduled_now then
      let '(s', push) := advance now s in
      opt_schedule i push (upd_node i (set_sch s') g1)
    else if is_scheduled s then schedule_node i (next_scheduled_time s) g1
    else g1
  else g1.

(* ---- graph.cpp evaluate_impl: the forward scan ---- *)
Fixpoint scan (cfgs : list ncfg) (beh : behaviour) (i : nat) (k : nat) (g : gst) : gst :=
  match k with
  | O => g
  | S k' =>
      if negb (g_err g =? 0) then g else
      let sc := slot_at i g in
      let g' :=
        if sc =? g_now g then eval_node cfgs beh i (upd_node i inc_evals (emit [11; Z.of_nat i; g_now g] g))
        else if g_now g <? sc then
          (if sc <? g_nst g then mkG (g_now g) (g_slots g) sc (g_nodes g) (g_log g) (g_err g) else g)
        else g in
      scan cfgs beh (S i) k' g'
  end.

Definition evaluate_graph (cfgs : list ncfg) (beh : behaviour) (t : Z) (g : gst) : gst :=
  let g0 := mkG t (g_slots g) MAX_DT (g_nodes g) ([10; t] :: g_log g) (g_err g) in
  scan cfgs beh 0 (length cfgs) g0.

(* ---- executor.cpp run_storage with advance_simulation ---- *)
Fixpoint run_loop (cfgs : list ncfg) (beh : behaviour) (end_ : Z) (fuel : nat) (g : gst) : gst :=
  match fuel with
  | O => set_err 9 g                                  (* out of fuel: excluded by theorem *)
  | S f =>
      if negb (g_err g =? 0) then g else
      let next := g_nst g in
      if (next =? MAX_DT) || (end_ <=? next) then g else
      run_loop cfgs beh end_ f (evaluate_graph cfgs beh next g)
  end.

Definition run_sim (cfgs : list ncfg) (beh : behaviour) (start end_ : Z) (fuel : nat) : gst :=
  let g := start_graph cfgs beh start in
  run_loop cfgs beh end_ fuel g.

(* =====================  wire format  ===================== *)

(* c = required + 2 * role + 8 * all_valid; role 1 / 2 = first / second element of a TSL<TS<int>,2> slot *)
Definition role_of (c : Z) : Z := (c / 2) mod 4.
Definition mate_of (c : Z) (prev : Z) (rest : list Z) : option nat :=
  if role_of c =? 1 then match rest with a' :: _ => Some (Z.to_nat a') | [] => None end
  else if role_of c =? 2 then Some (Z.to_nat prev) else None.

Fixpoint parse_ins_from (prev : Z) (n : nat) (l : list Z) : list inspec :=
  match n, l with
  | S k, a :: b :: c :: r =>
      mkIn (Z.to_nat a) (b =? 1) (z2b (c mod 2)) (mate_of c prev r) (z2b ((c / 8) mod 2)) :: parse_ins_from a k r
  | _, _ => []
  end.

Definition parse_ins (n : nat) (l : list Z) : list inspec := parse_ins_from 0 n l.

Definition parse_node (l : line) : option ncfg :=
  match l with
  | 2 :: _ :: us :: sos :: ho :: nin :: vm :: r =>
      Some (mkCfg (z2b us) (z2b sos) (z2b ho) vm (parse_ins (Z.to_nat nin) r))
  | _ => None
  end.

Fixpoint parse_cfgs (w : wire) : list ncfg :=
  match w with
  | [] => []
  | l :: r => match parse_node l with Some c => c :: parse_cfgs r | None => parse_cfgs r end
  end.

Definition decode_op (code a b : Z) : op :=
  if code =? 1 then OSchedule a b else
  if code =? 2 then OUnschedTag b else
  if code =? 3 then OUnschedFirst else
  if code =? 4 then OPopTag b else
  if code =? 5 then OReset else
  if code =? 6 then OEmit a else
  if code =? 7 then ORaw a else
  if code =? 8 then OThrow else
  if code =? 9 then OMakePassive a else
  if code =? 10 then OMakeActive a else
  if code =? 11 then OInvalidate else ONop.

(* script lines: 3 node k code a b *)
Definition script_ops (w : wire) (i : nat) (k : Z) : list op :=
  flat_map (fun l => match l with
                     | 3 :: n :: k' :: code :: a :: b :: _ =>
                         if (n =? Z.of_nat i) && (k' =? k) then [decode_op code a b] else []
                     | _ => [] end) w.

Definition has_script (w : wire) (i : nat) (k : Z) : bool :=
  existsb (fun l => match l with
                    | 3 :: n :: k' :: _ => (n =? Z.of_nat i) && (k' =? k)
                    | _ => false end) w.

(* the harness vocabulary: run k uses script k when present, else the default (-2) *)
Definition script_beh (w : wire) : behaviour :=
  fun i k _ _ _ => if has_script w i k then script_ops w i k
                   else if 0 <=? k then script_ops w i (-2) else [].

Definition window (w : wire) : Z * Z :=
  match find (fun l => match l with 1 :: _ => true | _ => false end) w with
  | Some (_ :: s :: e :: _) => (s, e)
  | _ => (1, 10)
  end.

Definition final_lines (cfgs : list ncfg) (g : gst) : wire :=
  flat_map (fun ic => let '(i, c) := ic in
              if c_out c then
                let n := node_at i g in
                [[15; Z.of_nat i; b2z (match n_val n with Some _ => true | None => false end);
                  match n_val n with Some v => v | None => 0 end;
                  match n_val n with Some _ => n_lmt n | None => MIN_DT end]]
              else [])
           (combine (seq 0 (length cfgs)) cfgs).

(* NodeBuilder::with_passive_inputs refuses markers that would deactivate every scheduled input *)
Fixpoint act_codes (n : nat) (l : list Z) : list Z :=
  match n, l with
  | S k, _ :: b :: _ :: r => b :: act_codes k r
  | _, _ => []
  end.

Definition bad_markers (w : wire) : bool :=
  existsb (fun l => match l with
                    | 2 :: _ :: _ :: _ :: _ :: nin :: _ :: r =>
                        let cs := act_codes (Z.to_nat nin) r in
                        existsb (fun b => (b =? 2) || (b =? 3)) cs &&
                        existsb (fun b => (b =? 1) || (b =? 2)) cs && negb (existsb (fun b => b =? 1) cs)
                    | _ => false end) w.

Definition run_core0 (w : wire) : wire :=
  let cfgs := parse_cfgs w in
  let '(s, e) := window w in
  let g := run_sim cfgs (script_beh w) s e (Z.to_nat (e - s) + 1) in
  rev (g_log g) ++ (if g_err g =? 0 then [] else [[19; g_err g]]) ++ final_lines cfgs g.

Definition run_core (w : wire) : wire :=
  if bad_markers w then [[18; 2]] else run_core0 w.
