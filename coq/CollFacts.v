(* CollFacts.v — lemmas and proofs about the mirror models of Coll.v (KeySlotStore, TSS, TSD).
   Style: stdlib only, explicit names, lia. *)
Require Import Base Coll.
From Coq Require Import ZifyBool Arith.

Local Open Scope nat_scope.

(* ------------------------------------------------------------------ lists *)
Lemma set_nth_length {A} i (v : A) l : length (set_nth i v l) = length l.
Proof. apply update_length. Qed.

Lemma nth_set_nth {A} i j (v : A) l d :
  nth j (set_nth i v l) d = if (j =? i) && (i <? length l) then v else nth j l d.
Proof.
  unfold set_nth.
  destruct (Nat.eqb_spec j i) as [E|E]; cbn [andb].
  - subst j. destruct (Nat.ltb_spec i (length l)) as [L|L].
    + apply nth_update_same; exact L.
    + revert i L. induction l as [|x r IH]; intros [|i] L; simpl in *; auto; try lia. apply IH; lia.
  - apply nth_update_other; auto.
Qed.

Lemma bit_set_nth i j b l : bit j (set_nth i b l) = if (j =? i) && (i <? length l) then b else bit j l.
Proof. unfold bit. apply nth_set_nth. Qed.

Lemma bit_overflow i l : length l <= i -> bit i l = false.
Proof. intros H. unfold bit. apply nth_overflow; exact H. Qed.

Lemma resize_length n l : length (resize n l) = n.
Proof. unfold resize. rewrite app_length, firstn_length, repeat_length. lia. Qed.

Lemma nth_firstn_lt {A} i n (l : list A) d : i < n -> nth i (firstn n l) d = nth i l d.
Proof.
  revert i l. induction n as [|n IH]; intros i l H; [lia|].
  destruct l as [|x r]; simpl; auto. destruct i; auto. apply IH; lia.
Qed.

Lemma bit_resize i n l : bit i (resize n l) = (i <? n) && bit i l.
Proof.
  unfold bit, resize.
  destruct (Nat.ltb_spec i n) as [L|L]; cbn [andb].
  - destruct (Nat.lt_ge_cases i (length l)) as [L2|L2].
    + rewrite app_nth1 by (rewrite firstn_length; lia).
      apply nth_firstn_lt; exact L.
    + rewrite app_nth2 by (rewrite firstn_length; lia).
      rewrite (nth_overflow l) by lia.
      destruct (nth_in_or_default (i - length (firstn n l)) (repeat false (n - length l)) false) as [H|H]; auto.
      apply repeat_spec in H; auto.
  - apply nth_overflow. rewrite app_length, firstn_length, repeat_length. lia.
Qed.

Lemma bit_resize_grow i n l : length l <= n -> bit i (resize n l) = bit i l.
Proof.
  intros H. rewrite bit_resize. destruct (Nat.ltb_spec i n) as [L|L]; auto.
  cbn [andb]. symmetry. apply bit_overflow; lia.
Qed.

Lemma clear_bits_length l : length (clear_bits l) = length l.
Proof. unfold clear_bits. apply map_length. Qed.

Lemma bit_clear i l : bit i (clear_bits l) = false.
Proof.
  unfold bit, clear_bits. revert i. induction l as [|x r IH]; intros [|i]; simpl; auto.
Qed.

Lemma NoDup_app_intro {A} (l1 l2 : list A) :
  NoDup l1 -> NoDup l2 -> (forall x, In x l1 -> In x l2 -> False) -> NoDup (l1 ++ l2).
Proof.
  induction l1 as [|x r IH]; intros N1 N2 D; simpl; auto.
  inversion N1; subst. constructor.
  - rewrite in_app_iff. intros [H|H]; auto. apply (D x); simpl; auto.
  - apply IH; auto. intros y Y1 Y2. apply (D y); simpl; auto.
Qed.

(* find_from *)
Lemma find_from_some {A} (p : A -> bool) n l i d :
  find_from p n l = Some i -> n <= i /\ i - n < length l /\ p (nth (i - n) l d) = true.
Proof.
  revert n. induction l as [|x r IH]; intros n H; simpl in H; [discriminate|].
  destruct (p x) eqn:E.
  - inversion H; subst i. replace (n - n) with 0 by lia. simpl. repeat split; auto; lia.
  - apply IH in H. destruct H as [H1 [H2 H3]]. repeat split; simpl; try lia.
    replace (i - n) with (S (i - S n)) by lia. exact H3.
Qed.

Lemma find_from_none {A} (p : A -> bool) n l d :
  find_from p n l = None -> forall j, j < length l -> p (nth j l d) = false.
Proof.
  revert n. induction l as [|x r IH]; intros n H j L; simpl in *; [lia|].
  destruct (p x) eqn:E; [discriminate|].
  destruct j; auto. apply (IH (S n)); auto; lia.
Qed.

Lemma find_from_first {A} (p : A -> bool) n l i d :
  find_from p n l = Some i -> forall j, j < i - n -> p (nth j l d) = false.
Proof.
  revert n. induction l as [|x r IH]; intros n H j L; simpl in H; [discriminate|].
  destruct (p x) eqn:E.
  - inversion H; subst. lia.
  - destruct j; simpl; auto. apply (IH (S n)); auto.
    apply find_from_some with (d := d) in H. lia.
Qed.

Lemma find_from_exists {A} (p : A -> bool) n l d j :
  j < length l -> p (nth j l d) = true -> exists i, find_from p n l = Some i.
Proof.
  revert n j. induction l as [|x r IH]; intros n j L H; simpl in *; [lia|].
  destruct (p x) eqn:E; [eauto|].
  destruct j; [congruence|]. apply (IH (S n) j); auto; lia.
Qed.

(* keys_where *)
Lemma keys_where_in f n l k :
  In k (keys_where f n l) <-> exists j, j < length l /\ f (n + j) (nth j l free_slot) = true /\ s_key (nth j l free_slot) = k.
Proof.
  revert n. induction l as [|x r IH]; intros n; simpl.
  - split; [tauto|]. intros [j [H _]]; lia.
  - destruct (f n x) eqn:E.
    + simpl. rewrite IH. split.
      * intros [H|[j [H1 [H2 H3]]]].
        -- exists 0. rewrite Nat.add_0_r. repeat split; auto; lia.
        -- exists (S j). replace (n + S j) with (S n + j) by lia. repeat split; auto; lia.
      * intros [[|j] [H1 [H2 H3]]]; [left; auto|].
        right. exists j. replace (S n + j) with (n + S j) by lia. repeat split; auto; lia.
    + rewrite IH. split.
      * intros [j [H1 [H2 H3]]]. exists (S j). replace (n + S j) with (S n + j) by lia. repeat split; auto; lia.
      * intros [[|j] [H1 [H2 H3]]].
        -- rewrite Nat.add_0_r in H2. congruence.
        -- exists j. replace (S n + j) with (n + S j) by lia. repeat split; auto; lia.
Qed.

(* counting *)
Definition count {A} (p : A -> bool) (l : list A) : nat := length (filter p l).

Lemma count_app {A} (p : A -> bool) l1 l2 : count p (l1 ++ l2) = count p l1 + count p l2.
Proof. unfold count. rewrite filter_app, app_length. reflexivity. Qed.

Lemma count_repeat_false {A} (p : A -> bool) x n : p x = false -> count p (repeat x n) = 0.
Proof. intros H. unfold count. induction n; simpl; auto. rewrite H. exact IHn. Qed.

Lemma count_set_nth {A} (p : A -> bool) i x l d :
  i < length l ->
  count p (set_nth i x l) + (if p (nth i l d) then 1 else 0) = count p l + (if p x then 1 else 0).
Proof.
  unfold count, set_nth. revert i. induction l as [|y r IH]; intros [|i] L; simpl in *; try lia.
  - destruct (p x), (p y); simpl; lia.
  - specialize (IH i ltac:(lia)). destruct (p y); simpl; lia.
Qed.

Lemma count_zero {A} (p : A -> bool) l d : count p l = 0 -> forall i, i < length l -> p (nth i l d) = false.
Proof.
  unfold count. induction l as [|x r IH]; intros H i L; simpl in *; [lia|].
  destruct (p x) eqn:E; simpl in H; [lia|].
  destruct i; auto. apply IH; auto; lia.
Qed.

(* ------------------------------------------------------------------ KeySlotStore *)
Lemma slot_at_overflow s i : ks_cap s <= i -> slot_at s i = free_slot.
Proof. intros H. unfold slot_at. apply nth_overflow. exact H. Qed.

Definition is_st (x : sstate) (s : slot) : Prop := s_st s = x.

Lemma constructed_iff s : constructed s = true <-> s_st s <> SFree.
Proof. unfold constructed. destruct (s_st s); simpl; split; intros; congruence. Qed.
Lemma live_iff s : live s = true <-> s_st s = SLive.
Proof. unfold live. destruct (s_st s); simpl; split; intros; congruence. Qed.
Lemma pend_iff s : pend s = true <-> s_st s = SPend.
Proof. unfold pend. destruct (s_st s); simpl; split; intros; congruence. Qed.

Record KInv (s : kstore) : Prop := mkKInv {
  ki_uniq : forall i j, constructed (slot_at s i) = true -> constructed (slot_at s j) = true ->
                        s_key (slot_at s i) = s_key (slot_at s j) -> i = j;
  ki_nodup : NoDup (ks_free s);
  ki_free : forall i, In i (ks_free s) <-> (i < ks_cap s /\ s_st (slot_at s i) = SFree);
  ki_pend : forall i, s_st (slot_at s i) = SPend -> In i (ks_pend s);
  ki_count : ks_pcount s = count pend (ks_slots s)
}.

Lemma kinv_empty : KInv k_empty.
Proof.
  constructor; simpl; try constructor.
  - intros i j H. unfold slot_at in H. simpl in H. destruct i; discriminate.
  - intros [].
  - intros [H _]. unfold ks_cap in H. simpl in H. lia.
  - intros i H. unfold slot_at in H. simpl in H. destruct i; discriminate.
Qed.

Lemma find_stored_some s k i :
  find_stored s k = Some i -> i < ks_cap s /\ constructed (slot_at s i) = true /\ s_key (slot_at s i) = k.
Proof.
  unfold find_stored. intros H. apply find_from_some with (d := free_slot) in H.
  destruct H as [_ [H2 H3]]. rewrite Nat.sub_0_r in *. unfold stored_p in H3.
  apply andb_true_iff in H3. destruct H3 as [H3 H4]. unfold ks_cap, slot_at. repeat split; auto. lia.
Qed.

Lemma find_stored_none s k i :
  find_stored s k = None -> constructed (slot_at s i) = true -> s_key (slot_at s i) <> k.
Proof.
  unfold find_stored. intros H C E.
  destruct (Nat.lt_ge_cases i (ks_cap s)) as [L|L].
  - pose proof (find_from_none _ _ _ free_slot H i L) as F. unfold stored_p in F.
    unfold slot_at in *. rewrite C in F. simpl in F. lia.
  - rewrite slot_at_overflow in C by exact L. discriminate.
Qed.

Lemma find_stored_uniq s k i :
  KInv s -> constructed (slot_at s i) = true -> s_key (slot_at s i) = k -> find_stored s k = Some i.
Proof.
  intros K C E.
  assert (L : i < ks_cap s).
  { destruct (Nat.lt_ge_cases i (ks_cap s)); auto. rewrite slot_at_overflow in C by auto. discriminate. }
  destruct (find_from_exists (stored_p k) 0 (ks_slots s) free_slot i L) as [j Hj].
  - unfold stored_p. unfold slot_at in *. rewrite C. simpl. lia.
  - unfold find_stored. rewrite Hj. f_equal.
    destruct (find_stored_some s k j Hj) as [_ [C2 E2]].
    apply (ki_uniq s K); auto. congruence.
Qed.

(* --- reserve *)
Lemma k_reserve_slot c s i : slot_at (k_reserve c s) i = slot_at s i.
Proof.
  unfold k_reserve. destruct (Nat.leb_spec c (ks_cap s)) as [L|L]; auto.
  unfold slot_at. simpl.
  destruct (Nat.lt_ge_cases i (ks_cap s)) as [L2|L2].
  - apply app_nth1. exact L2.
  - rewrite app_nth2 by exact L2. rewrite (nth_overflow (ks_slots s)) by exact L2.
    destruct (nth_in_or_default (i - length (ks_slots s)) (repeat free_slot (c - ks_cap s)) free_slot) as [H|H]; auto.
    apply repeat_spec in H; auto.
Qed.

Lemma k_reserve_cap c s : ks_cap (k_reserve c s) = Nat.max c (ks_cap s).
Proof.
  unfold k_reserve. destruct (Nat.leb_spec c (ks_cap s)) as [L|L]; [lia|].
  unfold ks_cap. simpl. rewrite app_length, repeat_length. unfold ks_cap in L. lia.
Qed.

Lemma k_reserve_inv c s : KInv s -> KInv (k_reserve c s).
Proof.
  intros K. pose proof (k_reserve_slot c s) as SL. pose proof (k_reserve_cap c s) as CP.
  unfold k_reserve in *. destruct (Nat.leb_spec c (ks_cap s)) as [L|L]; auto.
  constructor.
  - intros i j. rewrite !SL. apply (ki_uniq s K).
  - simpl. apply NoDup_app_intro.
    + apply seq_NoDup.
    + apply (ki_nodup s K).
    + intros x H1 H2. apply in_seq in H1. apply (ki_free s K) in H2. lia.
  - intros i. rewrite SL, CP. simpl. rewrite in_app_iff, in_seq, (ki_free s K).
    split.
    + intros [H|[H1 H2]]; split; try lia; auto.
      rewrite slot_at_overflow by lia. reflexivity.
    + intros [H1 H2]. destruct (Nat.lt_ge_cases i (ks_cap s)); [right; auto|left; lia].
  - intros i. rewrite SL. simpl. apply (ki_pend s K).
  - simpl. rewrite count_app, count_repeat_false by reflexivity. rewrite (ki_count s K). lia.
Qed.

(* --- pointwise reading of a slot update *)
Lemma slot_at_set_nth s i x j sl fr pd pc :
  sl = set_nth i x (ks_slots s) ->
  slot_at (mkK sl fr pd pc) j = if (j =? i) && (i <? ks_cap s) then x else slot_at s j.
Proof. intros ->. unfold slot_at, ks_cap. simpl. apply nth_set_nth. Qed.

Lemma slot_eta x : mkSlot (s_st x) (s_key x) = x.
Proof. destruct x; reflexivity. Qed.

Lemma slot_at_lt_of_constructed s i : constructed (slot_at s i) = true -> i < ks_cap s.
Proof.
  intros C. destruct (Nat.lt_ge_cases i (ks_cap s)); auto.
  rewrite slot_at_overflow in C by auto. discriminate.
Qed.

Lemma slot_at_lt_of_state s i : s_st (slot_at s i) <> SFree -> i < ks_cap s.
Proof. intros H. apply slot_at_lt_of_constructed. apply constructed_iff. exact H. Qed.

(* --- acquire *)
Lemma k_acquire_spec s f s1 :
  KInv s -> k_acquire s = (f, s1) ->
  (forall j, slot_at s1 j = slot_at s j) /\ ks_cap s <= ks_cap s1 /\ f < ks_cap s1 /\
  s_st (slot_at s f) = SFree /\ NoDup (f :: ks_free s1) /\
  (forall i, In i (f :: ks_free s1) <-> (i < ks_cap s1 /\ s_st (slot_at s1 i) = SFree)) /\
  ks_pend s1 = ks_pend s /\ ks_pcount s1 = ks_pcount s /\ count pend (ks_slots s1) = count pend (ks_slots s) /\
  ks_slots s1 = ks_slots s ++ repeat free_slot (ks_cap s1 - ks_cap s).
Proof.
  intros K H. unfold k_acquire in H.
  set (s0 := match ks_free s with
             | [] => k_reserve (Nat.max (ks_size s + 1) (Nat.max 8 (ks_cap s * 2))) s
             | _ :: _ => s end) in *.
  assert (K0 : KInv s0) by (unfold s0; destruct (ks_free s); auto using k_reserve_inv).
  assert (SL : forall j, slot_at s0 j = slot_at s j) by (intros j; unfold s0; destruct (ks_free s); auto using k_reserve_slot).
  assert (CP : ks_cap s <= ks_cap s0) by (unfold s0; destruct (ks_free s); auto; rewrite k_reserve_cap; lia).
  assert (PD : ks_pend s0 = ks_pend s /\ ks_pcount s0 = ks_pcount s /\
               ks_slots s0 = ks_slots s ++ repeat free_slot (ks_cap s0 - ks_cap s)).
  { unfold s0. destruct (ks_free s).
    - unfold k_reserve. destruct (Nat.leb_spec (Nat.max (ks_size s + 1) (Nat.max 8 (ks_cap s * 2))) (ks_cap s)) as [L|L].
      + rewrite Nat.sub_diag. simpl. rewrite app_nil_r. auto.
      + simpl. repeat split; auto. unfold ks_cap at 3. simpl. rewrite app_length, repeat_length.
        f_equal. f_equal. unfold ks_cap. lia.
    - rewrite Nat.sub_diag. simpl. rewrite app_nil_r. auto. }
  destruct PD as [PD1 [PD2 PD3]].
  assert (NE : ks_free s0 <> []).
  { unfold s0. destruct (ks_free s) eqn:E; [|rewrite E; discriminate].
    unfold k_reserve. destruct (Nat.leb_spec (Nat.max (ks_size s + 1) (Nat.max 8 (ks_cap s * 2))) (ks_cap s)) as [L|L]; [lia|].
    cbn [ks_free]. intros HH. apply (f_equal (@length nat)) in HH. rewrite app_length, seq_length, E in HH. cbn [length] in HH. lia. }
  destruct (ks_free s0) as [|f0 r] eqn:E0; [congruence|].
  inversion H; subst f s1; clear H.
  assert (SL1 : forall j, slot_at (mkK (ks_slots s0) r (ks_pend s0) (ks_pcount s0)) j = slot_at s j).
  { intros j. rewrite <- SL. reflexivity. }
  assert (CP1 : ks_cap (mkK (ks_slots s0) r (ks_pend s0) (ks_pcount s0)) = ks_cap s0) by reflexivity.
  pose proof (ki_free s0 K0) as FR. rewrite E0 in FR.
  pose proof (ki_nodup s0 K0) as ND. rewrite E0 in ND.
  split; [exact SL1|]. split; [rewrite CP1; exact CP|].
  split; [rewrite CP1; apply (FR f0); left; auto|].
  split; [rewrite <- SL; apply (FR f0); left; auto|].
  split; [exact ND|].
  split.
  { intros i. cbn [ks_free]. rewrite CP1, SL1, <- SL. apply FR. }
  split; [exact PD1|]. split; [exact PD2|].
  split.
  { cbn [ks_slots]. rewrite PD3. rewrite count_app, count_repeat_false by reflexivity. lia. }
  cbn [ks_slots]. rewrite CP1. exact PD3.
Qed.

(* --- insert *)
Lemma k_insert_spec k s r s' :
  KInv s -> k_insert k s = (r, s') ->
  KInv s' /\ ks_cap s <= ks_cap s' /\ ir_slot r < ks_cap s' /\
  (forall j, slot_at s' j = if j =? ir_slot r then mkSlot SLive k else slot_at s j) /\
  (ir_inserted r = false -> slot_at s (ir_slot r) = mkSlot SLive k /\ s' = s /\ ir_constructed r = false) /\
  (ir_inserted r = true -> ir_constructed r = false -> slot_at s (ir_slot r) = mkSlot SPend k) /\
  (ir_constructed r = true -> ir_inserted r = true /\ s_st (slot_at s (ir_slot r)) = SFree /\ find_stored s k = None) /\
  ks_slots s' = set_nth (ir_slot r) (mkSlot SLive k) (ks_slots s ++ repeat free_slot (ks_cap s' - ks_cap s)).
Proof.
  intros K H. unfold k_insert in H.
  destruct (find_stored s k) as [i|] eqn:F.
  - destruct (find_stored_some s k i F) as [L [C E]].
    destruct (pend (slot_at s i)) eqn:P.
    + (* resurrection of a pending-erase slot *)
      inversion H; subst r s'; clear H. cbn [ir_slot ir_inserted ir_constructed].
      apply pend_iff in P.
      assert (SL : forall j, slot_at (mkK (set_nth i (mkSlot SLive k) (ks_slots s)) (ks_free s)
                     (if ks_pcount s - 1 =? 0 then [] else ks_pend s) (ks_pcount s - 1)) j
                   = if j =? i then mkSlot SLive k else slot_at s j).
      { intros j. rewrite (slot_at_set_nth s i (mkSlot SLive k) j) by reflexivity.
        destruct (Nat.ltb_spec i (ks_cap s)); [|lia]. rewrite andb_true_r. reflexivity. }
      assert (CP : ks_cap (mkK (set_nth i (mkSlot SLive k) (ks_slots s)) (ks_free s)
                     (if ks_pcount s - 1 =? 0 then [] else ks_pend s) (ks_pcount s - 1)) = ks_cap s).
      { unfold ks_cap. cbn [ks_slots]. apply set_nth_length. }
      assert (CNT : count pend (set_nth i (mkSlot SLive k) (ks_slots s)) + 1 = count pend (ks_slots s)).
      { pose proof (count_set_nth pend i (mkSlot SLive k) (ks_slots s) free_slot L) as Q.
        fold (slot_at s i) in Q. replace (pend (slot_at s i)) with true in Q by (symmetry; apply pend_iff; exact P).
        cbn in Q. lia. }
      split.
      { constructor.
        - intros a b. rewrite !SL.
          destruct (Nat.eqb_spec a i) as [Ea|Ea], (Nat.eqb_spec b i) as [Eb|Eb]; cbn [s_key constructed s_st sstate_eqb negb]; intros Ca Cb Ek.
          + congruence.
          + exfalso. apply Eb. apply (ki_uniq s K); auto. congruence.
          + exfalso. apply Ea. apply (ki_uniq s K); auto. congruence.
          + apply (ki_uniq s K); auto.
        - exact (ki_nodup s K).
        - intros a. cbn [ks_free]. rewrite CP, SL, (ki_free s K a).
          destruct (Nat.eqb_spec a i) as [Ea|Ea]; [subst a|tauto].
          cbn [s_st]. rewrite P. split; intros [_ Q]; discriminate.
        - intros a. rewrite SL. cbn [ks_pend].
          destruct (Nat.eqb_spec a i) as [Ea|Ea]; cbn [s_st]; [discriminate|].
          intros Q. destruct (Nat.eqb_spec (ks_pcount s - 1) 0) as [Z|Z].
          + exfalso. rewrite (ki_count s K) in Z.
            assert (Z2 : count pend (set_nth i (mkSlot SLive k) (ks_slots s)) = 0) by lia.
            pose proof (count_zero pend _ free_slot Z2 a) as W. rewrite set_nth_length in W.
            rewrite nth_set_nth in W. destruct (Nat.eqb_spec a i); [lia|]. cbn [andb] in W.
            fold (slot_at s a) in W.
            assert (La : a < ks_cap s) by (apply slot_at_lt_of_state; rewrite Q; discriminate).
            specialize (W La). apply pend_iff in Q. congruence.
          + apply (ki_pend s K). exact Q.
        - cbn [ks_pcount ks_slots]. rewrite (ki_count s K). lia. }
      split; [rewrite CP; lia|]. split; [rewrite CP; exact L|]. split; [exact SL|].
      split; [discriminate|].
      split; [intros _ _; rewrite <- (slot_eta (slot_at s i)), P, E; reflexivity|].
      split; [discriminate|].
      cbn [ks_slots]. rewrite CP, Nat.sub_diag. cbn [repeat]. rewrite app_nil_r. reflexivity.
    + (* already live: nothing changes *)
      inversion H; subst r s'; clear H. cbn [ir_slot ir_inserted ir_constructed].
      assert (LV : slot_at s i = mkSlot SLive k).
      { rewrite <- (slot_eta (slot_at s i)), E. f_equal.
        apply constructed_iff in C. destruct (s_st (slot_at s i)) eqn:Q; auto; [congruence|].
        exfalso. assert (pend (slot_at s i) = true) by (apply pend_iff; exact Q). congruence. }
      split; [exact K|]. split; [lia|]. split; [exact L|].
      split; [intros j; destruct (Nat.eqb_spec j i); [subst; exact LV|reflexivity]|].
      split; [auto|]. split; [discriminate|]. split; [discriminate|].
      rewrite Nat.sub_diag. cbn [repeat]. rewrite app_nil_r.
      unfold set_nth.
      assert (G : forall (l : list slot) n, n < length l -> nth n l free_slot = mkSlot SLive k -> update n (fun _ => mkSlot SLive k) l = l).
      { induction l as [|x q IH]; intros [|n] Ln Hn; simpl in *; try lia; [congruence|]. f_equal. apply IH; auto; lia. }
      symmetry. apply G; auto.
  - (* a new key: take a free slot *)
    destruct (k_acquire s) as [f s1] eqn:A.
    destruct (k_acquire_spec s f s1 K A) as [SL1 [CP1 [Lf [Ff [ND [FR [PD1 [PD2 [CNT SLOTS]]]]]]]]].
    inversion H; subst r s'; clear H. cbn [ir_slot ir_inserted ir_constructed].
    assert (SL : forall j, slot_at (mkK (set_nth f (mkSlot SLive k) (ks_slots s1)) (ks_free s1) (ks_pend s1) (ks_pcount s1)) j
                 = if j =? f then mkSlot SLive k else slot_at s j).
    { intros j. rewrite (slot_at_set_nth s1 f (mkSlot SLive k) j) by reflexivity.
      destruct (Nat.ltb_spec f (ks_cap s1)); [|lia]. rewrite andb_true_r. rewrite SL1. reflexivity. }
    assert (CP : ks_cap (mkK (set_nth f (mkSlot SLive k) (ks_slots s1)) (ks_free s1) (ks_pend s1) (ks_pcount s1)) = ks_cap s1).
    { unfold ks_cap. cbn [ks_slots]. apply set_nth_length. }
    split.
    { constructor.
      - intros a b. rewrite !SL.
        destruct (Nat.eqb_spec a f) as [Ea|Ea], (Nat.eqb_spec b f) as [Eb|Eb]; cbn [s_key constructed s_st sstate_eqb negb]; intros Ca Cb Ek.
        + congruence.
        + exfalso. apply (find_stored_none s k b F Cb). auto.
        + exfalso. apply (find_stored_none s k a F Ca). auto.
        + apply (ki_uniq s K); auto.
      - cbn [ks_free]. inversion ND; auto.
      - intros a. cbn [ks_free]. rewrite CP, SL. specialize (FR a). rewrite SL1 in FR.
        inversion ND as [|x y NI ND2]; subst.
        destruct (Nat.eqb_spec a f) as [Ea|Ea]; cbn [s_st].
        + subst a. split; [tauto|]. intros [_ Q]; discriminate.
        + rewrite <- FR. simpl. split; [auto|]. intros [Q|Q]; [congruence|auto].
      - intros a. rewrite SL. cbn [ks_pend]. rewrite PD1.
        destruct (Nat.eqb_spec a f) as [Ea|Ea]; cbn [s_st]; [discriminate|]. apply (ki_pend s K).
      - cbn [ks_pcount ks_slots]. rewrite PD2, (ki_count s K), <- CNT.
        pose proof (count_set_nth pend f (mkSlot SLive k) (ks_slots s1) free_slot Lf) as Q.
        fold (slot_at s1 f) in Q. rewrite SL1 in Q.
        replace (pend (slot_at s f)) with false in Q by (unfold pend; rewrite Ff; reflexivity).
        cbn in Q. lia. }
    split; [rewrite CP; exact CP1|]. split; [rewrite CP; exact Lf|]. split; [exact SL|].
    split; [discriminate|]. split; [discriminate|].
    split; [auto|].
    cbn [ks_slots]. rewrite CP. rewrite SLOTS at 1. reflexivity.
Qed.

(* --- remove_slot *)
Lemma k_remove_slot_spec i s ok s' :
  KInv s -> k_remove_slot i s = (ok, s') ->
  (ok = false -> s' = s /\ live (slot_at s i) = false) /\
  (ok = true -> live (slot_at s i) = true /\ KInv s' /\ ks_cap s' = ks_cap s /\
     ks_slots s' = set_nth i (mkSlot SPend (s_key (slot_at s i))) (ks_slots s) /\
     forall j, slot_at s' j = if j =? i then mkSlot SPend (s_key (slot_at s i)) else slot_at s j).
Proof.
  intros K H. unfold k_remove_slot in H.
  destruct (live (slot_at s i)) eqn:LV; inversion H; subst ok s'; clear H.
  2:{ split; [auto|discriminate]. }
  split; [discriminate|]. intros _.
  assert (L : i < ks_cap s).
  { apply slot_at_lt_of_state. apply live_iff in LV. rewrite LV. discriminate. }
  set (x := mkSlot SPend (s_key (slot_at s i))).
  assert (SL : forall j, slot_at (mkK (set_nth i x (ks_slots s)) (ks_free s) (ks_pend s ++ [i]) (S (ks_pcount s))) j
               = if j =? i then x else slot_at s j).
  { intros j. rewrite (slot_at_set_nth s i x j) by reflexivity.
    destruct (Nat.ltb_spec i (ks_cap s)); [|lia]. rewrite andb_true_r. reflexivity. }
  assert (CP : ks_cap (mkK (set_nth i x (ks_slots s)) (ks_free s) (ks_pend s ++ [i]) (S (ks_pcount s))) = ks_cap s).
  { unfold ks_cap. cbn [ks_slots]. apply set_nth_length. }
  apply live_iff in LV.
  split; [reflexivity|]. split; [|split; [exact CP|split; [reflexivity|exact SL]]].
  constructor.
  - intros a b. rewrite !SL.
    assert (Ci : constructed (slot_at s i) = true) by (apply constructed_iff; rewrite LV; discriminate).
    destruct (Nat.eqb_spec a i) as [Ea|Ea], (Nat.eqb_spec b i) as [Eb|Eb]; unfold x; cbn [s_key constructed s_st sstate_eqb negb]; intros Ca Cb Ek.
    + congruence.
    + exfalso. apply Eb. apply (ki_uniq s K); auto.
    + exfalso. apply Ea. apply (ki_uniq s K); auto.
    + apply (ki_uniq s K); auto.
  - exact (ki_nodup s K).
  - intros a. cbn [ks_free]. rewrite CP, SL, (ki_free s K a).
    destruct (Nat.eqb_spec a i) as [Ea|Ea]; [subst a|tauto].
    unfold x. cbn [s_st]. rewrite LV. split; intros [_ Q]; discriminate.
  - intros a. rewrite SL. cbn [ks_pend]. rewrite in_app_iff.
    destruct (Nat.eqb_spec a i) as [Ea|Ea]; [subst; right; simpl; auto|].
    intros Q. left. apply (ki_pend s K). exact Q.
  - cbn [ks_pcount ks_slots]. rewrite (ki_count s K).
    pose proof (count_set_nth pend i x (ks_slots s) free_slot L) as Q.
    fold (slot_at s i) in Q. replace (pend (slot_at s i)) with false in Q by (unfold pend; rewrite LV; reflexivity).
    unfold x in Q at 2. cbn in Q. lia.
Qed.

(* --- erase_pending *)
Definition memb (i : nat) (l : list nat) : bool := existsb (Nat.eqb i) l.
Lemma memb_in i l : memb i l = true <-> In i l.
Proof.
  unfold memb. rewrite existsb_exists. split.
  - intros [x [H1 H2]]. apply Nat.eqb_eq in H2. subst. exact H1.
  - intros H. exists i. split; auto. apply Nat.eqb_refl.
Qed.

Lemma erase_list_spec l : forall slots free sl' fr',
  erase_list l slots free = (sl', fr') ->
  length sl' = length slots /\
  (forall i, nth i sl' free_slot = if memb i l && pend (nth i slots free_slot) then free_slot else nth i slots free_slot) /\
  (forall i, In i fr' <-> In i free \/ (In i l /\ pend (nth i slots free_slot) = true)) /\
  (NoDup free -> (forall i, In i free -> pend (nth i slots free_slot) = false) -> NoDup fr').
Proof.
  induction l as [|a r IH]; intros slots free sl' fr' H; simpl in H.
  - inversion H; subst. split; auto. split; [intros i; reflexivity|]. split; [intros i; simpl; tauto|auto].
  - destruct (pend (nth a slots free_slot)) eqn:P.
    + apply IH in H. destruct H as [H1 [H2 [H3 H4]]]. rewrite set_nth_length in H1.
      assert (La : a < length slots).
      { destruct (Nat.lt_ge_cases a (length slots)); auto. rewrite nth_overflow in P by auto. discriminate. }
      split; [exact H1|]. split; [|split].
      * intros i. rewrite H2. rewrite nth_set_nth. cbn [memb existsb].
        destruct (Nat.eqb_spec i a) as [E|E].
        -- subst i. destruct (Nat.ltb_spec a (length slots)); [|lia]. cbn [andb orb].
           rewrite P. destruct (memb a r); reflexivity.
        -- cbn [andb orb]. fold (memb i r). reflexivity.
      * intros i. rewrite H3. rewrite nth_set_nth. simpl.
        destruct (Nat.eqb_spec i a) as [E|E].
        -- subst i. split; [intros _|intros _; left; left; reflexivity]. right. split; auto.
        -- cbn [andb]. split.
           ++ intros [[Q|Q]|[Q1 Q2]]; [congruence|left; auto|right; split; auto].
           ++ intros [Q|[[Q|Q] Q2]]; [left; right; auto|congruence|right; auto].
      * intros ND NP. apply H4.
        -- constructor; auto. intros Q. apply NP in Q. congruence.
        -- intros i [Q|Q]; rewrite nth_set_nth.
           ++ subst i. rewrite Nat.eqb_refl. destruct (Nat.ltb_spec a (length slots)); [reflexivity|lia].
           ++ destruct (Nat.eqb_spec i a); [destruct (Nat.ltb_spec a (length slots)); [reflexivity|lia]|]. apply NP; auto.
    + apply IH in H. destruct H as [H1 [H2 [H3 H4]]].
      split; [exact H1|]. split; [|split; [|exact H4]].
      * intros i. rewrite H2. cbn [memb existsb]. fold (memb i r).
        destruct (Nat.eqb_spec i a) as [E|E]; cbn [orb]; [subst i; rewrite P, andb_false_r|]; reflexivity.
      * intros i. rewrite H3. simpl. split.
        -- intros [Q|[Q1 Q2]]; auto.
        -- intros [Q|[[Q|Q] Q2]]; auto. subst. congruence.
Qed.

Lemma k_erase_pending_spec s :
  KInv s ->
  KInv (k_erase_pending s) /\ ks_cap (k_erase_pending s) = ks_cap s /\
  forall i, slot_at (k_erase_pending s) i = if pend (slot_at s i) then free_slot else slot_at s i.
Proof.
  intros K. unfold k_erase_pending.
  destruct (Nat.eqb_spec (ks_pcount s) 0) as [Z|Z].
  - split; [exact K|]. split; [reflexivity|]. intros i.
    destruct (pend (slot_at s i)) eqn:P; auto.
    exfalso. rewrite (ki_count s K) in Z.
    assert (L : i < ks_cap s) by (apply slot_at_lt_of_state; apply pend_iff in P; rewrite P; discriminate).
    pose proof (count_zero pend _ free_slot Z i L) as Q. unfold slot_at in P. congruence.
  - destruct (erase_list (ks_pend s) (ks_slots s) (ks_free s)) as [sl fr] eqn:E.
    destruct (erase_list_spec _ _ _ _ _ E) as [H1 [H2 [H3 H4]]].
    assert (SL : forall i, slot_at (mkK sl fr [] 0) i = if pend (slot_at s i) then free_slot else slot_at s i).
    { intros i. unfold slot_at at 1. cbn [ks_slots]. rewrite H2. fold (slot_at s i).
      destruct (pend (slot_at s i)) eqn:P; [|rewrite andb_false_r; reflexivity].
      replace (memb i (ks_pend s)) with true; [reflexivity|].
      symmetry. apply memb_in. apply (ki_pend s K). apply pend_iff. exact P. }
    split; [|split; [unfold ks_cap; cbn [ks_slots]; exact H1|exact SL]].
    constructor.
    + intros a b. rewrite !SL.
      destruct (pend (slot_at s a)) eqn:Pa; [cbn; discriminate|].
      destruct (pend (slot_at s b)) eqn:Pb; [cbn; discriminate|]. apply (ki_uniq s K).
    + cbn [ks_free]. apply H4; [exact (ki_nodup s K)|].
      intros i Q. apply (ki_free s K) in Q. destruct Q as [_ Q]. fold (slot_at s i). unfold pend. rewrite Q. reflexivity.
    + intros i. cbn [ks_free]. rewrite H3, SL, (ki_free s K i). unfold ks_cap at 2. cbn [ks_slots]. rewrite H1.
      fold (ks_cap s). fold (slot_at s i).
      destruct (pend (slot_at s i)) eqn:P.
      * cbn [s_st free_slot]. split; [intros _|intros _; right; split; auto].
        -- split; auto. apply slot_at_lt_of_state. apply pend_iff in P. rewrite P. discriminate.
        -- apply (ki_pend s K). apply pend_iff. exact P.
      * split; [intros [Q|[_ Q]]; [exact Q|discriminate]|auto].
    + intros i. rewrite SL. destruct (pend (slot_at s i)) eqn:P; [cbn; discriminate|].
      intros Q. apply pend_iff in Q. congruence.
    + cbn [ks_pcount ks_slots]. symmetry.
      assert (G : forall i, i < length sl -> pend (nth i sl free_slot) = false).
      { intros i _. change (nth i sl free_slot) with (slot_at (mkK sl fr [] 0) i). rewrite SL.
        destruct (pend (slot_at s i)) eqn:P; auto. }
      clear - G. unfold count. induction sl as [|x q IH]; auto.
      simpl. pose proof (G 0 ltac:(simpl; lia)) as G0. simpl in G0. rewrite G0.
      apply IH. intros i Li. apply (G (S i)). simpl. lia.
Qed.

(* ------------------------------------------------------------------ TSS: pointwise view and invariant *)
Definition st (s : tss) (i : nat) : slot := slot_at (t_ks s) i.
Definition ab (s : tss) (i : nat) : bool := bit i (t_add s).
Definition rb (s : tss) (i : nat) : bool := bit i (t_rem s).

Record TInv (s : tss) : Prop := mkTInv {
  ti_k : KInv (t_ks s);
  ti_la : length (t_add s) = ks_cap (t_ks s);
  ti_lr : length (t_rem s) = ks_cap (t_ks s);
  ti_bits : forall i, match s_st (st s i) with
                      | SFree => ab s i = false /\ rb s i = false
                      | SLive => rb s i = false
                      | SPend => ab s i = false
                      end
}.

Lemma tinv_empty : TInv tss_empty.
Proof.
  constructor; try reflexivity; [apply kinv_empty|].
  intros i. unfold st, ab, rb, bit, slot_at. simpl. destruct i; simpl; auto.
Qed.

Lemma t_ensure_id s : length (t_add s) = ks_cap (t_ks s) -> t_ensure s = s.
Proof. intros H. unfold t_ensure. rewrite H, Nat.eqb_refl. reflexivity. Qed.

(* abstract sets read off the slots *)
Definition inV (s : tss) (k : Z) : Prop := exists i, st s i = mkSlot SLive k.
Definition inA (s : tss) (k : Z) : Prop := exists i, st s i = mkSlot SLive k /\ ab s i = true.
Definition inR (s : tss) (k : Z) : Prop := exists i, st s i = mkSlot SPend k /\ rb s i = true.
(* "was a member when the current delta window opened" *)
Definition inOld (s : tss) (k : Z) : Prop :=
  exists i, (st s i = mkSlot SLive k /\ ab s i = false) \/ (st s i = mkSlot SPend k /\ rb s i = true).

Lemma st_uniq s i j k x y : TInv s -> st s i = mkSlot x k -> st s j = mkSlot y k -> x <> SFree -> y <> SFree -> i = j.
Proof.
  intros T Hi Hj Hx Hy. apply (ki_uniq _ (ti_k s T)); fold (st s i); fold (st s j).
  - rewrite Hi. apply constructed_iff. exact Hx.
  - rewrite Hj. apply constructed_iff. exact Hy.
  - rewrite Hi, Hj. reflexivity.
Qed.

Lemma inA_iff s k : TInv s -> (inA s k <-> inV s k /\ ~ inOld s k).
Proof.
  intros T. split.
  - intros [i [H1 H2]]. split; [exists i; exact H1|].
    intros [j [[Q1 Q2]|[Q1 Q2]]].
    + assert (i = j) by (eapply st_uniq; eauto; discriminate). subst. congruence.
    + assert (i = j) by (eapply st_uniq; eauto; discriminate). subst. congruence.
  - intros [[i H1] N]. exists i. split; auto.
    destruct (ab s i) eqn:E; auto. exfalso. apply N. exists i. left. auto.
Qed.

Lemma inR_iff s k : TInv s -> (inR s k <-> inOld s k /\ ~ inV s k).
Proof.
  intros T. split.
  - intros [i [H1 H2]]. split; [exists i; right; auto|].
    intros [j Q]. assert (i = j) by (eapply st_uniq; eauto; discriminate). subst. congruence.
  - intros [[i [[Q1 Q2]|[Q1 Q2]]] N].
    + exfalso. apply N. exists i. exact Q1.
    + exists i. auto.
Qed.

(* reads *)
Lemma tss_value_in s k : In k (tss_value s) <-> inV s k.
Proof.
  unfold tss_value, live_keys. rewrite keys_where_in. unfold inV, st, slot_at. split.
  - intros [j [L [H1 H2]]]. exists j. rewrite <- (slot_eta (nth j _ _)). apply live_iff in H1. congruence.
  - intros [i H]. assert (L : i < ks_cap (t_ks s)).
    { apply slot_at_lt_of_state. unfold slot_at. rewrite H. discriminate. }
    exists i. rewrite H. repeat split; auto.
Qed.

Lemma tss_raw_added_in s k : TInv s -> (In k (tss_raw_added s) <-> inA s k).
Proof.
  intros T. unfold tss_raw_added. rewrite keys_where_in. unfold inA. split.
  - intros [j [L [H1 H2]]]. simpl in H1. exists j. split; [|exact H1].
    pose proof (ti_bits s T j) as B. unfold st, slot_at, ab in *.
    rewrite <- (slot_eta (nth j _ _)), H2.
    destruct (s_st (nth j (ks_slots (t_ks s)) free_slot)); [destruct B; congruence|reflexivity|congruence].
  - intros [i [H1 H2]]. assert (L : i < ks_cap (t_ks s)).
    { apply slot_at_lt_of_state. fold (st s i). rewrite H1. discriminate. }
    exists i. unfold st, slot_at in H1. rewrite H1. simpl. repeat split; auto.
Qed.

Lemma tss_raw_removed_in s k : TInv s -> (In k (tss_raw_removed s) <-> inR s k).
Proof.
  intros T. unfold tss_raw_removed. rewrite keys_where_in. unfold inR. split.
  - intros [j [L [H1 H2]]]. simpl in H1. exists j. split; [|exact H1].
    pose proof (ti_bits s T j) as B. unfold st, slot_at, rb in *.
    rewrite <- (slot_eta (nth j _ _)), H2.
    destruct (s_st (nth j (ks_slots (t_ks s)) free_slot)); [destruct B; congruence|congruence|reflexivity].
  - intros [i [H1 H2]]. assert (L : i < ks_cap (t_ks s)).
    { apply slot_at_lt_of_state. fold (st s i). rewrite H1. discriminate. }
    exists i. unfold st, slot_at in H1. rewrite H1. simpl. repeat split; auto.
Qed.

(* --- prepare_delta *)
Lemma t_prepare_same t s : TInv s -> (t <= t_dt s)%Z -> t_prepare t s = s.
Proof.
  intros T H. unfold t_prepare. destruct (Z.leb_spec t (t_dt s)); [|lia].
  apply t_ensure_id. apply (ti_la s T).
Qed.

Lemma t_prepare_roll t s :
  TInv s -> (t_dt s < t)%Z ->
  let s1 := t_prepare t s in
  TInv s1 /\ t_dt s1 = t /\ t_lmt s1 = t_lmt s /\
  (forall i, ab s1 i = false /\ rb s1 i = false) /\
  (forall i, st s1 i = if pend (st s i) then free_slot else st s i).
Proof.
  intros T H. unfold t_prepare. destruct (Z.leb_spec t (t_dt s)); [lia|].
  destruct (k_erase_pending_spec (t_ks s) (ti_k s T)) as [K1 [C1 S1]].
  rewrite t_ensure_id by (cbn [t_add t_ks]; rewrite clear_bits_length, C1; apply (ti_la s T)).
  cbn zeta. split; [|split; [reflexivity|split; [reflexivity|split]]].
  - constructor; cbn [t_ks t_add t_rem].
    + exact K1.
    + rewrite clear_bits_length, C1. apply (ti_la s T).
    + rewrite clear_bits_length, C1. apply (ti_lr s T).
    + intros i. unfold ab, rb. cbn [t_add t_rem]. rewrite !bit_clear.
      destruct (s_st _); auto.
  - intros i. unfold ab, rb. cbn [t_add t_rem]. rewrite !bit_clear. auto.
  - intros i. unfold st. cbn [t_ks]. apply S1.
Qed.

(* the part of insert_key / remove_key after prepare_delta *)
Definition t_insert_core (k : Z) (s1 : tss) : bool * tss :=
  let '(r, ks') := k_insert k (t_ks s1) in
  let s2 := t_ensure (mkT ks' (t_add s1) (t_rem s1) (t_dt s1) (t_lmt s1)) in
  if negb (ir_inserted r) then (false, s2)
  else if bit (ir_slot r) (t_rem s2)
       then (true, mkT (t_ks s2) (t_add s2) (set_nth (ir_slot r) false (t_rem s2)) (t_dt s2) (t_lmt s2))
       else (true, mkT (t_ks s2) (set_nth (ir_slot r) true (t_add s2)) (t_rem s2) (t_dt s2) (t_lmt s2)).
Lemma t_insert_key_eq t k s : t_insert_key t k s = t_insert_core k (t_prepare t s).
Proof. reflexivity. Qed.

Definition t_remove_core (k : Z) (s1 : tss) : bool * tss :=
  match find_live (t_ks s1) k with
  | None => (false, s1)
  | Some i =>
      let '(ok, ks') := k_remove_slot i (t_ks s1) in
      if negb ok then (false, s1)
      else
        let s2 := t_ensure (mkT ks' (t_add s1) (t_rem s1) (t_dt s1) (t_lmt s1)) in
        if bit i (t_add s2)
        then (true, mkT (t_ks s2) (set_nth i false (t_add s2)) (t_rem s2) (t_dt s2) (t_lmt s2))
        else (true, mkT (t_ks s2) (t_add s2) (set_nth i true (t_rem s2)) (t_dt s2) (t_lmt s2))
  end.
Lemma t_remove_key_eq t k s : t_remove_key t k s = t_remove_core k (t_prepare t s).
Proof. reflexivity. Qed.

(* ensure after growth keeps every bit *)
Lemma t_ensure_view ks' s :
  length (t_add s) = length (t_rem s) -> length (t_add s) <= ks_cap ks' ->
  let s2 := t_ensure (mkT ks' (t_add s) (t_rem s) (t_dt s) (t_lmt s)) in
  t_ks s2 = ks' /\ length (t_add s2) = ks_cap ks' /\ length (t_rem s2) = ks_cap ks' /\
  t_dt s2 = t_dt s /\ t_lmt s2 = t_lmt s /\
  (forall i, bit i (t_add s2) = bit i (t_add s)) /\ (forall i, bit i (t_rem s2) = bit i (t_rem s)).
Proof.
  intros E L. unfold t_ensure. cbn [t_ks t_add t_rem t_dt t_lmt].
  destruct (Nat.eqb_spec (length (t_add s)) (ks_cap ks')) as [Q|Q]; cbn zeta; cbn [t_ks t_add t_rem t_dt t_lmt].
  - repeat split; auto. congruence.
  - rewrite !resize_length. repeat split; auto; intros i; apply bit_resize_grow; lia.
Qed.

(* --- insert_key after the roll: one slot changes *)
Lemma t_insert_core_spec k s ch s' :
  TInv s -> t_insert_core k s = (ch, s') ->
  TInv s' /\ t_dt s' = t_dt s /\ t_lmt s' = t_lmt s /\
  exists i, st s' i = mkSlot SLive k /\
    (forall j, j <> i -> st s' j = st s j /\ ab s' j = ab s j /\ rb s' j = rb s j) /\
    ( (ch = false /\ st s i = mkSlot SLive k /\ ab s' i = ab s i /\ rb s' i = rb s i)
   \/ (ch = true /\ st s i = mkSlot SPend k /\ rb s i = true /\ ab s' i = false /\ rb s' i = false)
   \/ (ch = true /\ st s i = mkSlot SPend k /\ rb s i = false /\ ab s' i = true /\ rb s' i = false)
   \/ (ch = true /\ s_st (st s i) = SFree /\ find_stored (t_ks s) k = None /\ ab s' i = true /\ rb s' i = false) ).
Proof.
  intros T H. unfold t_insert_core in H.
  destruct (k_insert k (t_ks s)) as [r ks'] eqn:KI.
  destruct (k_insert_spec k (t_ks s) r ks' (ti_k s T) KI) as [K' [CP [Li [SL [Hno [Hres [Hnew _]]]]]]].
  destruct (t_ensure_view ks' s) as [E1 [E2 [E3 [E4 [E5 [E6 E7]]]]]].
  { rewrite (ti_la s T), (ti_lr s T). reflexivity. }
  { rewrite (ti_la s T). exact CP. }
  set (s2 := t_ensure (mkT ks' (t_add s) (t_rem s) (t_dt s) (t_lmt s))) in *.
  set (i := ir_slot r) in *.
  assert (B := ti_bits s T).
  assert (ST2 : forall j, st s2 j = if j =? i then mkSlot SLive k else st s j).
  { intros j. unfold st. rewrite E1. apply SL. }
  destruct (ir_inserted r) eqn:INS; cbn [negb] in H.
  - (* inserted *)
    assert (BI : (st s i = mkSlot SPend k /\ ab s i = false) \/
                 (s_st (st s i) = SFree /\ find_stored (t_ks s) k = None /\ ab s i = false /\ rb s i = false)).
    { destruct (ir_constructed r) eqn:CON.
      - right. destruct (Hnew eq_refl) as [_ [F1 F2]]. fold i in F1. fold (st s i) in F1.
        specialize (B i). rewrite F1 in B. tauto.
      - left. specialize (Hres eq_refl eq_refl). fold i in Hres. fold (st s i) in Hres.
        specialize (B i). rewrite Hres in B. cbn in B. auto. }
    destruct (bit i (t_rem s2)) eqn:RB; inversion H; subst ch s'; clear H.
    + (* remove-then-add cancels: the removed mark is dropped *)
      rewrite E7 in RB. fold (rb s i) in RB.
      destruct BI as [[P A0]|[F [_ [_ R0]]]]; [|congruence].
      split.
      { constructor; cbn [t_ks t_add t_rem].
        - rewrite E1. exact K'.
        - rewrite E1. exact E2.
        - rewrite set_nth_length, E1. exact E3.
        - intros j. unfold st, ab, rb. cbn [t_ks t_add t_rem]. fold (st s2 j). rewrite ST2, bit_set_nth, E6, E7.
          destruct (Nat.eqb_spec j i) as [Ej|Ej].
          + subst j. cbn [s_st andb]. destruct (i <? length (t_rem s2)) eqn:Q; auto.
            apply Nat.ltb_ge in Q. rewrite E3 in Q. lia.
          + cbn [andb]. apply (B j). }
      split; [exact E4|]. split; [exact E5|].
      exists i. split; [unfold st; cbn [t_ks]; fold (st s2 i); rewrite ST2, Nat.eqb_refl; reflexivity|].
      split.
      { intros j Ej. unfold st, ab, rb. cbn [t_ks t_add t_rem]. fold (st s2 j). rewrite ST2, bit_set_nth, E6, E7.
        destruct (Nat.eqb_spec j i); [contradiction|]. cbn [andb]. auto. }
      right. left. unfold ab, rb. cbn [t_add t_rem]. rewrite bit_set_nth, E6, Nat.eqb_refl.
      assert (Q : i <? length (t_rem s2) = true) by (apply Nat.ltb_lt; rewrite E3; exact Li).
      rewrite Q. cbn [andb]. fold (ab s i). auto.
    + (* a fresh element, or add after an add-then-remove that left no mark *)
      rewrite E7 in RB. fold (rb s i) in RB.
      split.
      { constructor; cbn [t_ks t_add t_rem].
        - rewrite E1. exact K'.
        - rewrite set_nth_length, E1. exact E2.
        - rewrite E1. exact E3.
        - intros j. unfold st, ab, rb. cbn [t_ks t_add t_rem]. fold (st s2 j). rewrite ST2, bit_set_nth, E6, E7.
          destruct (Nat.eqb_spec j i) as [Ej|Ej].
          + subst j. cbn [s_st andb]. exact RB.
          + cbn [andb]. apply (B j). }
      split; [exact E4|]. split; [exact E5|].
      exists i. split; [unfold st; cbn [t_ks]; fold (st s2 i); rewrite ST2, Nat.eqb_refl; reflexivity|].
      split.
      { intros j Ej. unfold st, ab, rb. cbn [t_ks t_add t_rem]. fold (st s2 j). rewrite ST2, bit_set_nth, E6, E7.
        destruct (Nat.eqb_spec j i); [contradiction|]. cbn [andb]. auto. }
      assert (Q : i <? length (t_add s2) = true) by (apply Nat.ltb_lt; rewrite E2; exact Li).
      assert (AB' : ab (mkT (t_ks s2) (set_nth i true (t_add s2)) (t_rem s2) (t_dt s2) (t_lmt s2)) i = true).
      { unfold ab. cbn [t_add]. rewrite bit_set_nth, Nat.eqb_refl, Q. reflexivity. }
      assert (RB' : rb (mkT (t_ks s2) (set_nth i true (t_add s2)) (t_rem s2) (t_dt s2) (t_lmt s2)) i = false).
      { unfold rb. cbn [t_rem]. rewrite E7. exact RB. }
      destruct BI as [[P A0]|[F [N _]]].
      * right. right. left. auto.
      * right. right. right. auto.
  - (* already a member *)
    inversion H; subst ch s'; clear H.
    destruct (Hno eq_refl) as [LV [EQ _]]. fold i in LV. fold (st s i) in LV.
    split.
    { constructor.
      - rewrite E1. exact K'.
      - rewrite E1. exact E2.
      - rewrite E1. exact E3.
      - intros j. unfold ab, rb. rewrite ST2, E6, E7.
        destruct (Nat.eqb_spec j i) as [Ej|Ej]; [|apply (B j)].
        subst j. specialize (B i). rewrite LV in B. exact B. }
    split; [exact E4|]. split; [exact E5|].
    exists i. split; [rewrite ST2, Nat.eqb_refl; reflexivity|].
    split.
    { intros j Ej. unfold ab, rb. rewrite ST2, E6, E7. destruct (Nat.eqb_spec j i); [contradiction|]. auto. }
    left. unfold ab, rb. rewrite E6, E7. auto.
Qed.

Lemma find_live_some s k i : find_live s k = Some i -> slot_at s i = mkSlot SLive k.
Proof.
  unfold find_live. destruct (find_stored s k) as [j|] eqn:F; [|discriminate].
  destruct (live (slot_at s j)) eqn:L; [|discriminate]. intros H; inversion H; subst j.
  destruct (find_stored_some s k i F) as [_ [_ E]]. apply live_iff in L.
  rewrite <- (slot_eta (slot_at s i)). congruence.
Qed.

Lemma find_live_none s k i : KInv s -> find_live s k = None -> slot_at s i <> mkSlot SLive k.
Proof.
  intros K. unfold find_live. destruct (find_stored s k) as [j|] eqn:F.
  - destruct (live (slot_at s j)) eqn:L; [discriminate|]. intros _ Q.
    assert (find_stored s k = Some i).
    { apply find_stored_uniq; auto; rewrite Q; reflexivity. }
    assert (i = j) by congruence. subst. rewrite Q in L. discriminate.
  - intros _ Q. apply (find_stored_none s k i F); rewrite Q; reflexivity.
Qed.

(* --- remove_key after the roll *)
Lemma t_remove_core_spec k s ch s' :
  TInv s -> t_remove_core k s = (ch, s') ->
  TInv s' /\ t_dt s' = t_dt s /\ t_lmt s' = t_lmt s /\
  ( (ch = false /\ s' = s /\ ~ inV s k)
 \/ (ch = true /\ exists i, st s i = mkSlot SLive k /\ st s' i = mkSlot SPend k /\
       (forall j, j <> i -> st s' j = st s j /\ ab s' j = ab s j /\ rb s' j = rb s j) /\
       ( (ab s i = true /\ ab s' i = false /\ rb s' i = false)
      \/ (ab s i = false /\ ab s' i = false /\ rb s' i = true) )) ).
Proof.
  intros T H. unfold t_remove_core in H.
  destruct (find_live (t_ks s) k) as [i|] eqn:F.
  2:{ inversion H; subst ch s'. split; [exact T|]. split; [reflexivity|]. split; [reflexivity|]. left.
      repeat split; auto. intros [j Q]. apply (find_live_none _ _ j (ti_k s T) F). exact Q. }
  pose proof (find_live_some _ _ _ F) as LV. fold (st s i) in LV.
  destruct (k_remove_slot i (t_ks s)) as [ok ks'] eqn:KR.
  destruct (k_remove_slot_spec i (t_ks s) ok ks' (ti_k s T) KR) as [Hf Ht].
  destruct ok; cbn [negb] in H.
  2:{ destruct (Hf eq_refl) as [_ Q]. fold (st s i) in Q. rewrite LV in Q. discriminate. }
  destruct (Ht eq_refl) as [_ [K' [CP [_ SL]]]].
  destruct (t_ensure_view ks' s) as [E1 [E2 [E3 [E4 [E5 [E6 E7]]]]]].
  { rewrite (ti_la s T), (ti_lr s T). reflexivity. }
  { rewrite (ti_la s T). lia. }
  set (s2 := t_ensure (mkT ks' (t_add s) (t_rem s) (t_dt s) (t_lmt s))) in *.
  assert (B := ti_bits s T).
  assert (Li : i < ks_cap ks').
  { rewrite CP. apply slot_at_lt_of_state. fold (st s i). rewrite LV. discriminate. }
  assert (ST2 : forall j, st s2 j = if j =? i then mkSlot SPend k else st s j).
  { intros j. unfold st. rewrite E1, SL. fold (st s i). rewrite LV. reflexivity. }
  assert (RI : rb s i = false) by (specialize (B i); rewrite LV in B; exact B).
  destruct (bit i (t_add s2)) eqn:AB; inversion H; subst ch s'; clear H.
  - (* add-then-remove cancels: the added mark is dropped, nothing else is recorded *)
    rewrite E6 in AB. fold (ab s i) in AB.
    split.
    { constructor; cbn [t_ks t_add t_rem].
      - rewrite E1. exact K'.
      - rewrite set_nth_length, E1. exact E2.
      - rewrite E1. exact E3.
      - intros j. unfold st, ab, rb. cbn [t_ks t_add t_rem]. fold (st s2 j). rewrite ST2, bit_set_nth, E6, E7.
        destruct (Nat.eqb_spec j i) as [Ej|Ej].
        + subst j. cbn [s_st andb]. destruct (i <? length (t_add s2)) eqn:Q; auto.
          apply Nat.ltb_ge in Q. rewrite E2 in Q. lia.
        + cbn [andb]. apply (B j). }
    split; [exact E4|]. split; [exact E5|]. right. split; [reflexivity|].
    exists i. split; [exact LV|].
    split; [unfold st; cbn [t_ks]; fold (st s2 i); rewrite ST2, Nat.eqb_refl; reflexivity|].
    split.
    { intros j Ej. unfold st, ab, rb. cbn [t_ks t_add t_rem]. fold (st s2 j). rewrite ST2, bit_set_nth, E6, E7.
      destruct (Nat.eqb_spec j i); [contradiction|]. cbn [andb]. auto. }
    left. unfold ab, rb. cbn [t_add t_rem]. rewrite bit_set_nth, E7, Nat.eqb_refl.
    assert (Q : i <? length (t_add s2) = true) by (apply Nat.ltb_lt; rewrite E2; exact Li).
    rewrite Q. cbn [andb]. fold (rb s i). auto.
  - rewrite E6 in AB. fold (ab s i) in AB.
    split.
    { constructor; cbn [t_ks t_add t_rem].
      - rewrite E1. exact K'.
      - rewrite E1. exact E2.
      - rewrite set_nth_length, E1. exact E3.
      - intros j. unfold st, ab, rb. cbn [t_ks t_add t_rem]. fold (st s2 j). rewrite ST2, bit_set_nth, E6, E7.
        destruct (Nat.eqb_spec j i) as [Ej|Ej].
        + subst j. cbn [s_st andb]. exact AB.
        + cbn [andb]. apply (B j). }
    split; [exact E4|]. split; [exact E5|]. right. split; [reflexivity|].
    exists i. split; [exact LV|].
    split; [unfold st; cbn [t_ks]; fold (st s2 i); rewrite ST2, Nat.eqb_refl; reflexivity|].
    split.
    { intros j Ej. unfold st, ab, rb. cbn [t_ks t_add t_rem]. fold (st s2 j). rewrite ST2, bit_set_nth, E6, E7.
      destruct (Nat.eqb_spec j i); [contradiction|]. cbn [andb]. auto. }
    right. unfold ab, rb. cbn [t_add t_rem]. rewrite bit_set_nth, E6, Nat.eqb_refl.
    assert (Q : i <? length (t_rem s2) = true) by (apply Nat.ltb_lt; rewrite E3; exact Li).
    rewrite Q. cbn [andb]. fold (ab s i). auto.
Qed.

(* --- what insert / remove do to the abstract sets *)
Lemma insert_core_abs k s ch s' :
  TInv s -> t_insert_core k s = (ch, s') ->
  TInv s' /\ t_dt s' = t_dt s /\ t_lmt s' = t_lmt s /\
  (forall k', inV s' k' <-> inV s k' \/ k' = k) /\
  (forall k', inOld s' k' <-> inOld s k') /\
  (ch = true <-> ~ inV s k).
Proof.
  intros T H. destruct (t_insert_core_spec k s ch s' T H) as [T' [D [M [i [Si [Oth Cases]]]]]].
  split; [exact T'|]. split; [exact D|]. split; [exact M|].
  assert (NF : forall j k' x, st s j = mkSlot x k' -> x <> SFree -> j <> i -> k' <> k).
  { intros j k' x Q Hx Ej Ek. subst k'.
    destruct (Oth j Ej) as [Q2 _]. rewrite <- Q2 in Q.
    apply Ej. eapply (st_uniq s' j i); eauto. discriminate. }
  split; [|split].
  - intros k'. split.
    + intros [j Q]. destruct (Nat.eq_dec j i) as [E|E].
      * subst j. right. congruence.
      * left. exists j. destruct (Oth j E) as [Q2 _]. congruence.
    + intros [[j Q]|E].
      * destruct (Nat.eq_dec j i) as [Ej|Ej].
        -- subst j. exists i. destruct Cases as [[_ [C _]]|[[_ [C _]]|[[_ [C _]]|[_ [C _]]]]]; try congruence.
           rewrite Q in C. discriminate.
        -- exists j. destruct (Oth j Ej) as [Q2 _]. congruence.
      * subst k'. exists i. exact Si.
  - intros k'. split.
    + intros [j Q]. destruct (Nat.eq_dec j i) as [E|E].
      * subst j. rewrite Si in Q.
        destruct Cases as [[_ [C [A R]]]|[[_ [C [R0 [A R]]]]|[[_ [C [R0 [A R]]]]|[_ [C [N [A R]]]]]]].
        -- exists i. destruct Q as [[Q1 Q2]|[Q1 Q2]]; [|discriminate]. left. split; congruence.
        -- exists i. destruct Q as [[Q1 Q2]|[Q1 Q2]]; [|discriminate]. right. split; congruence.
        -- destruct Q as [[Q1 Q2]|[Q1 Q2]]; [congruence|discriminate].
        -- destruct Q as [[Q1 Q2]|[Q1 Q2]]; [congruence|discriminate].
      * exists j. destruct (Oth j E) as [Q2 [Q3 Q4]]. rewrite <- Q2, <- Q3, <- Q4. exact Q.
    + intros [j Q]. destruct (Nat.eq_dec j i) as [E|E].
      * subst j. exists i. rewrite Si.
        destruct Cases as [[_ [C [A R]]]|[[_ [C [R0 [A R]]]]|[[_ [C [R0 [A R]]]]|[_ [C [N [A R]]]]]]].
        -- rewrite C in Q. destruct Q as [[Q1 Q2]|[Q1 Q2]]; [|discriminate]. left. split; congruence.
        -- rewrite C in Q. destruct Q as [[Q1 Q2]|[Q1 Q2]]; [discriminate|]. left. split; congruence.
        -- rewrite C in Q. destruct Q as [[Q1 Q2]|[Q1 Q2]]; [discriminate|congruence].
        -- destruct Q as [[Q1 Q2]|[Q1 Q2]]; rewrite Q1 in C; discriminate.
      * exists j. destruct (Oth j E) as [Q2 [Q3 Q4]]. rewrite Q2, Q3, Q4. exact Q.
  - split.
    + intros E [j Q]. subst ch.
      destruct Cases as [[C _]|[[_ [C _]]|[[_ [C _]]|[_ [C [N _]]]]]]; [discriminate| | |].
      * assert (j = i) by (apply (st_uniq s j i k SLive SPend T Q C); discriminate). subst. congruence.
      * assert (j = i) by (apply (st_uniq s j i k SLive SPend T Q C); discriminate). subst. congruence.
      * apply (find_stored_none _ _ j N); fold (st s j); rewrite Q; reflexivity.
    + intros N. destruct Cases as [[_ [C _]]|[[C _]|[[C _]|[C _]]]]; auto.
      exfalso. apply N. exists i. exact C.
Qed.

Lemma remove_core_abs k s ch s' :
  TInv s -> t_remove_core k s = (ch, s') ->
  TInv s' /\ t_dt s' = t_dt s /\ t_lmt s' = t_lmt s /\
  (forall k', inV s' k' <-> inV s k' /\ k' <> k) /\
  (forall k', inOld s' k' <-> inOld s k') /\
  (ch = true <-> inV s k).
Proof.
  intros T H. destruct (t_remove_core_spec k s ch s' T H) as [T' [D [M Cases]]].
  split; [exact T'|]. split; [exact D|]. split; [exact M|].
  destruct Cases as [[C [E N]]|[C [i [Si [Si' [Oth Bits]]]]]].
  - subst s' ch. split; [|split; [tauto|split; [discriminate|tauto]]].
    intros k'. split; [|tauto]. intros Q. split; auto. intros E. subst. auto.
  - subst ch. split; [|split].
    + intros k'. split.
      * intros [j Q]. destruct (Nat.eq_dec j i) as [E|E]; [subst; congruence|].
        destruct (Oth j E) as [Q2 _]. split; [exists j; congruence|].
        intros Ek. subst k'. rewrite Q2 in Q. apply E. eapply (st_uniq s j i); eauto; discriminate.
      * intros [[j Q] Nk]. destruct (Nat.eq_dec j i) as [E|E]; [subst; congruence|].
        exists j. destruct (Oth j E) as [Q2 _]. congruence.
    + intros k'. split.
      * intros [j Q]. destruct (Nat.eq_dec j i) as [E|E].
        -- subst j. rewrite Si' in Q. exists i. rewrite Si.
           destruct Bits as [[A [A' R']]|[A [A' R']]]; destruct Q as [[Q1 Q2]|[Q1 Q2]]; try discriminate; try congruence.
           left. split; congruence.
        -- exists j. destruct (Oth j E) as [Q2 [Q3 Q4]]. rewrite <- Q2, <- Q3, <- Q4. exact Q.
      * intros [j Q]. destruct (Nat.eq_dec j i) as [E|E].
        -- subst j. rewrite Si in Q. exists i. rewrite Si'.
           pose proof (ti_bits s T i) as B. rewrite Si in B. cbn in B.
           destruct Bits as [[A [A' R']]|[A [A' R']]]; destruct Q as [[Q1 Q2]|[Q1 Q2]]; try discriminate; try congruence.
           right. split; congruence.
        -- exists j. destruct (Oth j E) as [Q2 [Q3 Q4]]. rewrite Q2, Q3, Q4. exact Q.
    + split; [intros _; exists i; exact Si|reflexivity].
Qed.

(* ------------------------------------------------------------------ TSS: one engine cycle *)
Local Open Scope Z_scope.

(* V0 = membership when the cycle started.  [Fresh]: no mutation of this cycle has reached the storage
   yet (the delta window is still the previous one).  [Mid]: the window was rolled to t. *)
Definition Fresh (V0 : Z -> Prop) (t : Z) (s : tss) : Prop :=
  TInv s /\ t_dt s < t /\ t_lmt s < t /\ forall k, inV s k <-> V0 k.
Definition Mid (V0 : Z -> Prop) (t : Z) (s : tss) : Prop :=
  TInv s /\ t_dt s = t /\ t_lmt s <= t /\ forall k, inOld s k <-> V0 k.
Definition Rolled (V0 : Z -> Prop) (t : Z) (s : tss) : Prop := Mid V0 t s /\ t_lmt s = t.

Lemma prepare_step V0 t s :
  Fresh V0 t s \/ Mid V0 t s ->
  Mid V0 t (t_prepare t s) /\ (forall k, inV (t_prepare t s) k <-> inV s k).
Proof.
  intros [[T [D [M V]]]|[T [D [M O]]]].
  - destruct (t_prepare_roll t s T D) as [T1 [D1 [M1 [B1 S1]]]].
    assert (VV : forall k, inV (t_prepare t s) k <-> inV s k).
    { intros k. split; intros [i Q]; exists i.
      - rewrite S1 in Q. destruct (pend (st s i)); [discriminate|exact Q].
      - rewrite S1, Q. reflexivity. }
    split; [|exact VV].
    split; [exact T1|]. split; [exact D1|]. split; [lia|].
    intros k. rewrite <- V, <- VV. split.
    + intros [i [[Q1 Q2]|[Q1 Q2]]]; [exists i; exact Q1|]. destruct (B1 i). congruence.
    + intros [i Q]. exists i. left. split; auto. apply B1.
  - rewrite t_prepare_same by (auto; lia). split; [|tauto]. split; [exact T|]. split; [exact D|]. split; [exact M|exact O].
Qed.

Lemma view_mark t s i : st (t_mark t s) i = st s i /\ ab (t_mark t s) i = ab s i /\ rb (t_mark t s) i = rb s i.
Proof. unfold t_mark. destruct (t <=? t_lmt s); auto. Qed.

Lemma mark_step V0 t s : Mid V0 t s -> Rolled V0 t (t_mark t s) /\ (forall k, inV (t_mark t s) k <-> inV s k).
Proof.
  intros [T [D [M O]]].
  assert (E : t_mark t s = mkT (t_ks s) (t_add s) (t_rem s) (t_dt s) t).
  { unfold t_mark. destruct (Z.leb_spec t (t_lmt s)); auto. assert (t_lmt s = t) by lia. destruct s; simpl in *; congruence. }
  rewrite E. split; [|intros k; split; intros [i Q]; exists i; exact Q].
  split; [|reflexivity]. split.
  - destruct T as [T1 T2 T3 T4]. constructor; auto.
  - split; [exact D|]. split; [cbn; lia|]. intros k. rewrite <- O. split; intros [i Q]; exists i; exact Q.
Qed.

Lemma touch_mark_step V0 t s :
  Fresh V0 t s \/ Mid V0 t s ->
  Rolled V0 t (t_touch_mark t s) /\ (forall k, inV (t_touch_mark t s) k <-> inV s k).
Proof.
  intros H. destruct (prepare_step V0 t s H) as [M V].
  unfold t_touch_mark, t_touch.
  destruct (Z.eqb_spec (t_lmt (t_prepare t s)) t) as [E|E]; cbn [negb].
  - split; [split; auto|exact V].
  - destruct (mark_step V0 t _ M) as [R V2]. split; [exact R|]. intros k. rewrite V2. apply V.
Qed.

Lemma add_step V0 t k s ch s' :
  Fresh V0 t s \/ Mid V0 t s -> tss_add t k s = (ch, s') ->
  Rolled V0 t s' /\ (forall k', inV s' k' <-> inV s k' \/ k' = k) /\ (ch = true <-> ~ inV s k).
Proof.
  intros H A. destruct (prepare_step V0 t s H) as [[T [D [M O]]] V].
  unfold tss_add in A. rewrite t_insert_key_eq in A.
  destruct (t_insert_core k (t_prepare t s)) as [c s1] eqn:IC.
  destruct (insert_core_abs k _ c s1 T IC) as [T1 [D1 [M1 [V1 [O1 C1]]]]].
  assert (MID1 : Mid V0 t s1).
  { split; [exact T1|]. split; [congruence|]. split; [lia|]. intros k'. rewrite O1. apply O. }
  inversion A; subst ch s'; clear A.
  assert (G : forall x, Rolled V0 t x /\ (forall k', inV x k' <-> inV s1 k') ->
              Rolled V0 t x /\ (forall k', inV x k' <-> inV s k' \/ k' = k) /\ (c = true <-> ~ inV s k)).
  { intros x [R VX]. split; [exact R|]. split.
    - intros k'. rewrite VX, V1, V. reflexivity.
    - rewrite C1, V. reflexivity. }
  destruct c; apply G.
  - apply mark_step. exact MID1.
  - apply touch_mark_step. right. exact MID1.
Qed.

Lemma remove_step V0 t k s ch s' :
  Fresh V0 t s \/ Mid V0 t s -> tss_remove t k s = (ch, s') ->
  Rolled V0 t s' /\ (forall k', inV s' k' <-> inV s k' /\ k' <> k) /\ (ch = true <-> inV s k).
Proof.
  intros H A. destruct (prepare_step V0 t s H) as [[T [D [M O]]] V].
  unfold tss_remove in A. rewrite t_remove_key_eq in A.
  destruct (t_remove_core k (t_prepare t s)) as [c s1] eqn:IC.
  destruct (remove_core_abs k _ c s1 T IC) as [T1 [D1 [M1 [V1 [O1 C1]]]]].
  assert (MID1 : Mid V0 t s1).
  { split; [exact T1|]. split; [congruence|]. split; [lia|]. intros k'. rewrite O1. apply O. }
  inversion A; subst ch s'; clear A.
  assert (G : forall x, Rolled V0 t x /\ (forall k', inV x k' <-> inV s1 k') ->
              Rolled V0 t x /\ (forall k', inV x k' <-> inV s k' /\ k' <> k) /\ (c = true <-> inV s k)).
  { intros x [R VX]. split; [exact R|]. split.
    - intros k'. rewrite VX, V1, V. reflexivity.
    - rewrite C1, V. reflexivity. }
  destruct c; apply G.
  - apply mark_step. exact MID1.
  - apply touch_mark_step. right. exact MID1.
Qed.

Lemma fold_remove_step V0 t keys : forall s,
  Mid V0 t s ->
  let s' := fold_left (fun st k => snd (tss_remove t k st)) keys s in
  Mid V0 t s' /\ (t_lmt s = t -> t_lmt s' = t) /\ (forall k, inV s' k <-> inV s k /\ ~ In k keys).
Proof.
  induction keys as [|k r IH]; intros s M; cbn [fold_left].
  - split; [exact M|]. split; [auto|]. intros k. simpl. tauto.
  - destruct (tss_remove t k s) as [c s1] eqn:R. cbn [snd].
    destruct (remove_step V0 t k s c s1 (or_intror M) R) as [[M1 L1] [V1 _]].
    destruct (IH s1 M1) as [M2 [L2 V2]].
    split; [exact M2|]. split; [auto|].
    intros k'. rewrite V2, V1. simpl. split; [intros [[A B] C]; split; auto; intros [E|E]; auto|].
    intros [A B]. split; [split; auto|auto].
Qed.

Lemma clear_step V0 t s :
  Fresh V0 t s \/ Mid V0 t s ->
  Rolled V0 t (tss_clear t s) /\ (forall k, ~ inV (tss_clear t s) k).
Proof.
  intros H. destruct (prepare_step V0 t s H) as [M V].
  unfold tss_clear, t_touch.
  pose proof (fold_remove_step V0 t (live_keys (t_ks s)) (t_prepare t s) M) as F. cbn zeta in F.
  set (s2 := fold_left (fun st k => snd (tss_remove t k st)) (live_keys (t_ks s)) (t_prepare t s)) in *.
  destruct F as [M2 [L2 V2]].
  assert (NV : forall k, ~ inV s2 k).
  { intros k Q. apply V2 in Q. destruct Q as [Q1 Q2]. apply Q2. apply V in Q1.
    apply (tss_value_in s k). exact Q1. }
  destruct (Z.eqb_spec (t_lmt (t_prepare t s)) t) as [E|E]; cbn [negb].
  - split; [split; auto|exact NV].
  - destruct (mark_step V0 t s2 M2) as [R VM]. split; [exact R|]. intros k Q. apply VM in Q. exact (NV k Q).
Qed.

Lemma reserve_view c s :
  TInv s ->
  TInv (tss_reserve c s) /\ t_dt (tss_reserve c s) = t_dt s /\ t_lmt (tss_reserve c s) = t_lmt s /\
  forall i, st (tss_reserve c s) i = st s i /\ ab (tss_reserve c s) i = ab s i /\ rb (tss_reserve c s) i = rb s i.
Proof.
  intros T. unfold tss_reserve.
  destruct (t_ensure_view (k_reserve c (t_ks s)) s) as [E1 [E2 [E3 [E4 [E5 [E6 E7]]]]]].
  { rewrite (ti_la s T), (ti_lr s T). reflexivity. }
  { rewrite (ti_la s T), k_reserve_cap. lia. }
  set (s2 := t_ensure _) in *.
  assert (V : forall i, st s2 i = st s i /\ ab s2 i = ab s i /\ rb s2 i = rb s i).
  { intros i. unfold st, ab, rb. rewrite E1, E6, E7, k_reserve_slot. auto. }
  split; [|auto].
  constructor.
  - rewrite E1. apply k_reserve_inv. exact (ti_k s T).
  - rewrite E1. exact E2.
  - rewrite E1. exact E3.
  - intros i. destruct (V i) as [V1 [V2 V3]]. rewrite V1, V2, V3. apply (ti_bits s T).
Qed.

Lemma view_transfer (s s' : tss) :
  (forall i, st s' i = st s i /\ ab s' i = ab s i /\ rb s' i = rb s i) ->
  (forall k, inV s' k <-> inV s k) /\ (forall k, inOld s' k <-> inOld s k).
Proof.
  intros V. split; intros k; split; intros [i Q]; exists i; destruct (V i) as [V1 [V2 V3]].
  - congruence.
  - congruence.
  - rewrite <- V1, <- V2, <- V3. exact Q.
  - rewrite V1, V2, V3. exact Q.
Qed.

(* what each mutation means for the mathematical set *)
Definition spec_op (o : sop) (P : Z -> Prop) (k : Z) : Prop :=
  match o with
  | SAdd k0 => P k \/ k = k0
  | SRemove k0 => P k /\ k <> k0
  | SClear => False
  | _ => P k
  end.

Definition CInv (V0 : Z -> Prop) (t : Z) (s : tss) : Prop := Fresh V0 t s \/ Rolled V0 t s.

Lemma cinv_weak V0 t s : CInv V0 t s -> Fresh V0 t s \/ Mid V0 t s.
Proof. intros [F|[M _]]; auto. Qed.

Lemma op_step V0 t o s :
  CInv V0 t s ->
  CInv V0 t (snd (tss_op t o s)) /\ (forall k, inV (snd (tss_op t o s)) k <-> spec_op o (inV s) k).
Proof.
  intros C. pose proof (cinv_weak _ _ _ C) as W.
  destruct o as [k|k| |c| |]; cbn [tss_op spec_op].
  - destruct (tss_add t k s) as [ch s'] eqn:A. cbn [snd].
    destruct (add_step V0 t k s ch s' W A) as [R [V _]]. split; [right; exact R|exact V].
  - destruct (tss_remove t k s) as [ch s'] eqn:A. cbn [snd].
    destruct (remove_step V0 t k s ch s' W A) as [R [V _]]. split; [right; exact R|exact V].
  - cbn [snd]. destruct (clear_step V0 t s W) as [R V]. split; [right; exact R|]. intros k. split; [apply V|tauto].
  - cbn [snd].
    assert (T : TInv s) by (destruct C as [[T _]|[[T _] _]]; exact T).
    destruct (reserve_view c s T) as [T' [D' [M' VW]]].
    destruct (view_transfer s _ VW) as [VV VO].
    split; [|exact VV].
    destruct C as [[_ [D [M V]]]|[[_ [D [M O]]] L]].
    + left. split; [exact T'|]. split; [lia|]. split; [lia|]. intros k. rewrite VV. apply V.
    + right. split; [|congruence]. split; [exact T'|]. split; [congruence|]. split; [lia|]. intros k. rewrite VO. apply O.
  - cbn [snd]. destruct (touch_mark_step V0 t s W) as [R V]. split; [right; exact R|exact V].
  - cbn [snd]. split; [exact C|tauto].
Qed.

Definition spec_cycle (ops : list sop) (P : Z -> Prop) : Z -> Prop :=
  fold_left (fun Q o => spec_op o Q) ops P.

Lemma spec_op_ext o P Q : (forall k, P k <-> Q k) -> forall k, spec_op o P k <-> spec_op o Q k.
Proof. intros H k. destruct o; cbn [spec_op]; rewrite ?H; tauto. Qed.

Lemma spec_cycle_ext ops : forall P Q, (forall k, P k <-> Q k) -> forall k, spec_cycle ops P k <-> spec_cycle ops Q k.
Proof.
  induction ops as [|o r IH]; intros P Q H k; cbn [spec_cycle fold_left]; [apply H|].
  apply IH. apply spec_op_ext. exact H.
Qed.

Lemma cycle_step V0 t ops : forall s,
  CInv V0 t s ->
  CInv V0 t (tss_cycle t ops s) /\ (forall k, inV (tss_cycle t ops s) k <-> spec_cycle ops (inV s) k).
Proof.
  induction ops as [|o r IH]; intros s C; cbn [tss_cycle fold_left spec_cycle].
  - split; [exact C|tauto].
  - destruct (op_step V0 t o s C) as [C1 V1].
    destruct (IH _ C1) as [C2 V2]. split; [exact C2|].
    intros k. unfold tss_cycle in V2. rewrite V2. apply spec_cycle_ext. exact V1.
Qed.

(* the characterisation of the observed delta of a cycle: exactly the NET change of membership *)
Lemma cinv_char V0 t s :
  t <> MIN_DT -> CInv V0 t s ->
  (forall k, In k (tss_added t s) <-> inV s k /\ ~ V0 k) /\
  (forall k, In k (tss_removed t s) <-> V0 k /\ ~ inV s k) /\
  (tss_modified t s = false -> forall k, inV s k <-> V0 k).
Proof.
  intros NZ [[T [D [M V]]]|[[T [D [M O]]] L]].
  - assert (F : tss_modified t s = false).
    { unfold tss_modified. destruct (Z.eqb_spec (t_lmt s) t); [lia|]. apply andb_false_r. }
    unfold tss_added, tss_removed. rewrite F. simpl.
    split; [|split; [|auto]]; intros k; rewrite V; tauto.
  - assert (F : tss_modified t s = true).
    { unfold tss_modified. rewrite L, Z.eqb_refl. destruct (Z.eqb_spec t MIN_DT); [contradiction|reflexivity]. }
    unfold tss_added, tss_removed. rewrite F.
    split; [|split; [|discriminate]]; intros k.
    + rewrite (tss_raw_added_in s k T), (inA_iff s k T), O. reflexivity.
    + rewrite (tss_raw_removed_in s k T), (inR_iff s k T), O. reflexivity.
Qed.

Lemma cinv_next V0 t s t' : CInv V0 t s -> t < t' -> Fresh (inV s) t' s.
Proof.
  intros [[T [D [M V]]]|[[T [D [M O]]] L]] H; (split; [exact T|]); (split; [lia|]); (split; [lia|tauto]).
Qed.

(* histories: cycles at strictly increasing times after t0 *)
Fixpoint increasing (t0 : Z) (h : list (Z * list sop)) : Prop :=
  match h with
  | [] => True
  | (t, _) :: r => t0 < t /\ increasing t r
  end.

(* the cycles of a history: (state before, time, mutations, state after) *)
Fixpoint tss_trace (s : tss) (h : list (Z * list sop)) : list (tss * Z * list sop * tss) :=
  match h with
  | [] => []
  | (t, ops) :: r => let s' := tss_cycle t ops s in (s, t, ops, s') :: tss_trace s' r
  end.

Lemma trace_inv h : forall s t0 V0,
  CInv V0 t0 s -> MIN_DT <= t0 -> increasing t0 h ->
  forall a t ops b, In (a, t, ops, b) (tss_trace s h) ->
    MIN_DT < t /\ b = tss_cycle t ops a /\ Fresh (inV a) t a /\ CInv (inV a) t b.
Proof.
  induction h as [|[t1 ops1] r IH]; intros s t0 V0 C P I a t ops b H; simpl in H; [contradiction|].
  destruct I as [I1 I2].
  pose proof (cinv_next V0 t0 s t1 C I1) as F.
  destruct (cycle_step (inV s) t1 ops1 s (or_introl F)) as [C1 _].
  destruct H as [H|H].
  - inversion H; subst a t ops b. split; [lia|]. auto.
  - apply (IH (tss_cycle t1 ops1 s) t1 (inV s) C1 ltac:(lia) I2 a t ops b H).
Qed.

Lemma cinv_empty : CInv (fun _ => False) MIN_DT tss_empty.
Proof.
  right. split; [|reflexivity]. split; [apply tinv_empty|]. split; [reflexivity|]. split; [cbn; lia|].
  intros k. split; [|tauto]. intros [i [[Q _]|[Q _]]]; unfold st, slot_at in Q; simpl in Q; destruct i; discriminate.
Qed.

Lemma tss_value_empty : tss_value tss_empty = [].
Proof. reflexivity. Qed.

(* ------------------------------------------------------------------ TSS: the statements of C05 *)
Section TssTheorems.
  Variable h : list (Z * list sop).
  Hypothesis Hinc : increasing MIN_DT h.
  Variables (a : tss) (t : Z) (ops : list sop) (b : tss).
  Hypothesis Hin : In (a, t, ops, b) (tss_trace tss_empty h).

  Let V k := In k (tss_value a).
  Let V' k := In k (tss_value b).

  Lemma tss_facts :
    (forall k, In k (tss_added t b) <-> V' k /\ ~ V k) /\
    (forall k, In k (tss_removed t b) <-> V k /\ ~ V' k) /\
    (forall k, V' k <-> spec_cycle ops V k) /\
    (tss_modified t b = false -> forall k, V' k <-> V k).
  Proof.
    destruct (trace_inv h tss_empty MIN_DT _ cinv_empty ltac:(lia) Hinc a t ops b Hin) as [P [E [F C]]].
    destruct (cinv_char (inV a) t b ltac:(unfold MIN_DT in *; lia) C) as [A [R U]].
    unfold V, V'. split; [|split; [|split]].
    - intros k. rewrite A, !tss_value_in. reflexivity.
    - intros k. rewrite R, !tss_value_in. reflexivity.
    - intros k. subst b. destruct (cycle_step (inV a) t ops a (or_introl F)) as [_ S].
      rewrite tss_value_in, S. apply spec_cycle_ext. intros x. rewrite tss_value_in. reflexivity.
    - intros M k. rewrite !tss_value_in. apply U. exact M.
  Qed.

  Lemma tss_step_l : forall k, V' k <-> (V k /\ ~ In k (tss_removed t b)) \/ In k (tss_added t b).
  Proof.
    destruct tss_facts as [A [R _]]. intros k. rewrite A, R. unfold V, V'.
    destruct (in_dec Z.eq_dec k (tss_value a)) as [Y|N]; destruct (in_dec Z.eq_dec k (tss_value b)) as [Y'|N']; tauto.
  Qed.

  Lemma tss_disjoint_l : forall k, In k (tss_added t b) -> In k (tss_removed t b) -> False.
  Proof. destruct tss_facts as [A [R _]]. intros k HA HR. apply A in HA. apply R in HR. tauto. Qed.

  Lemma tss_added_present_l : forall k, In k (tss_added t b) -> V' k /\ ~ V k.
  Proof. destruct tss_facts as [A _]. intros k. apply A. Qed.

  Lemma tss_removed_l : forall k, In k (tss_removed t b) -> ~ V' k /\ V k.
  Proof. destruct tss_facts as [_ [R _]]. intros k HR. apply R in HR. tauto. Qed.
End TssTheorems.

Lemma abs_growth_invariant_l : forall c s, TInv s ->
  TInv (tss_reserve c s) /\
  forall i, st (tss_reserve c s) i = st s i /\ ab (tss_reserve c s) i = ab s i /\ rb (tss_reserve c s) i = rb s i.
Proof. intros c s T. destruct (reserve_view c s T) as [A [_ [_ B]]]. exact (conj A B). Qed.
