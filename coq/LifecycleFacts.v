(* LifecycleFacts.v — proofs about the lifecycle mirror model (property C14).
   Method: every graph of the tree has its own lifecycle automaton [astep]; the word of a graph is
   the projection of the event log on that graph.  A simulation invariant ties the flags the code
   keeps (node started, graph started) to the automaton state of every graph; each operation of
   the model preserves it.  The named properties are then read off the automaton. *)
Require Import Base Lifecycle.
From Coq Require Import ZifyBool Arith.
Local Open Scope nat_scope.

(* ------------------------------------------------------------------ paths *)
Lemma path_eqb_refl p : path_eqb p p = true.
Proof. induction p as [|x p IH]; simpl; auto. rewrite Nat.eqb_refl; auto. Qed.

Lemma path_eqb_eq a b : path_eqb a b = true <-> a = b.
Proof.
  revert b; induction a as [|x a IH]; intros [|y b]; simpl; split; intro H; try congruence; auto.
  - apply andb_prop in H as [H1 H2]. apply Nat.eqb_eq in H1. apply IH in H2. congruence.
  - inversion H; subst. rewrite Nat.eqb_refl. apply IH. reflexivity.
Qed.

Lemma path_eqb_neq a b : a <> b -> path_eqb a b = false.
Proof. intro H. destruct (path_eqb a b) eqn:E; auto. apply path_eqb_eq in E. contradiction. Qed.

Definition prefix (p q : path) : Prop := exists r, q = p ++ r.

Lemma prefix_refl p : prefix p p.
Proof. exists []. rewrite app_nil_r; auto. Qed.

Lemma prefix_app p r : prefix p (p ++ r).
Proof. exists r; auto. Qed.

Lemma prefix_trans a b c : prefix a b -> prefix b c -> prefix a c.
Proof. intros [r1 ->] [r2 ->]. exists (r1 ++ r2). rewrite app_assoc; auto. Qed.

Lemma not_prefix_child gp i : ~ prefix (gp ++ [i]) gp.
Proof.
  intros [r H]. apply (f_equal (@length nat)) in H. rewrite !app_length in H. simpl in H. lia.
Qed.

Lemma prefix_sibling gp i j r : prefix (gp ++ [i]) (gp ++ j :: r) -> i = j.
Proof.
  intros [s H]. rewrite <- app_assoc in H. apply app_inv_head in H. simpl in H. congruence.
Qed.

Lemma removelast_snoc (p : path) i : removelast (p ++ [i]) = p.
Proof. apply removelast_last. Qed.

Lemma last_snoc (p : path) i d : last (p ++ [i]) d = i.
Proof. apply last_last. Qed.

Lemma snoc_not_nil (p : path) i : path_eqb (p ++ [i]) [] = false.
Proof. destruct p; reflexivity. Qed.

(* ------------------------------------------------------------------ words *)
Lemma graph_word_app gq a b : graph_word gq (a ++ b) = graph_word gq a ++ graph_word gq b.
Proof. unfold graph_word. rewrite filter_app, map_app. reflexivity. Qed.

Lemma graph_word_cons gq e l : graph_word gq (e :: l) = graph_word gq [e] ++ graph_word gq l.
Proof. apply (graph_word_app gq [e] l). Qed.

Lemma graph_word_nil gq : graph_word gq [] = [].
Proof. reflexivity. Qed.

Lemma arun_app a w1 w2 : arun a (w1 ++ w2) = arun (arun a w1) w2.
Proof. unfold arun. apply fold_left_app. Qed.

(* a graph-level event *)
Lemma gw_graph_ev gq k t gp n :
  is_graph_kind k = true ->
  graph_word gq [Ev k t gp n] = if path_eqb gp gq then [SG k] else [].
Proof.
  intro Hk. unfold graph_word, well_addressed, owner, sym_of. simpl. rewrite Hk. simpl.
  destruct (path_eqb gp gq); simpl; rewrite ?Hk; reflexivity.
Qed.

(* a node-level event of node i of graph gp *)
Lemma gw_node_ev gq k t gp i n :
  is_graph_kind k = false ->
  graph_word gq [Ev k t (gp ++ [i]) n] = if path_eqb gp gq then [SN k i] else [].
Proof.
  intro Hk. unfold graph_word, well_addressed, owner, sym_of, index_of. simpl. rewrite Hk. simpl.
  rewrite snoc_not_nil, removelast_snoc. simpl.
  destruct (path_eqb gp gq); simpl; rewrite ?Hk, ?last_snoc; reflexivity.
Qed.

(* events that all live under p leave every word outside p untouched *)
Definition under (p : path) (ev : list event) : Prop :=
  forall e, In e ev -> well_addressed e = true /\ prefix p (owner e).

Lemma under_app p a b : under p a -> under p b -> under p (a ++ b).
Proof. intros Ha Hb e He. apply in_app_or in He as [He|He]; auto. Qed.

Lemma under_nil p : under p [].
Proof. intros e []. Qed.

Lemma under_word_nil p ev gq : under p ev -> ~ prefix p gq -> graph_word gq ev = [].
Proof.
  intros Hu Hn. unfold graph_word.
  induction ev as [|e ev IH]; simpl; auto.
  destruct (Hu e (or_introl eq_refl)) as [Hw Hp].
  destruct (path_eqb (owner e) gq) eqn:E.
  - apply path_eqb_eq in E. subst. contradiction.
  - rewrite andb_false_r. apply IH. intros e' He'. apply Hu. right; auto.
Qed.

Lemma under_graph_ev k t gp n : is_graph_kind k = true -> under gp [Ev k t gp n].
Proof.
  intros Hk e [<-|[]]. unfold well_addressed, owner. simpl. rewrite Hk. split; auto. apply prefix_refl.
Qed.

Lemma under_node_ev k t gp i n : is_graph_kind k = false -> under gp [Ev k t (gp ++ [i]) n].
Proof.
  intros Hk e [<-|[]]. unfold well_addressed, owner. simpl. rewrite Hk, snoc_not_nil, removelast_snoc.
  split; auto. apply prefix_refl.
Qed.

Lemma under_weaken p q ev : prefix p q -> under q ev -> under p ev.
Proof. intros Hp Hu e He. destruct (Hu e He) as [Hw Ho]. split; auto. eapply prefix_trans; eauto. Qed.

Lemma under_wa p ev : under p ev -> forallb well_addressed ev = true.
Proof. intro H. apply forallb_forall. intros e He. apply H; auto. Qed.

(* the automaton state of every graph after a log *)
Definition after (A : path -> ast) (ev : list event) : path -> ast :=
  fun gq => arun (A gq) (graph_word gq ev).

Lemma after_nil A : after A [] = A.
Proof. reflexivity. Qed.

Lemma after_app A a b gq : after A (a ++ b) gq = after (after A a) b gq.
Proof. unfold after. rewrite graph_word_app, arun_app. reflexivity. Qed.

Lemma after_cons A e l gq : after A (e :: l) gq = after (after A [e]) l gq.
Proof. apply (after_app A [e] l gq). Qed.

Lemma after_frame A p ev gq : under p ev -> ~ prefix p gq -> after A ev gq = A gq.
Proof. intros Hu Hn. unfold after. rewrite (under_word_nil p ev gq Hu Hn). reflexivity. Qed.

(* ------------------------------------------------------------------ induction over the tree *)
Lemma node_ind' (P : node -> Prop) :
  (forall per st nx cs ce cp, P (Plain per st nx cs ce cp)) ->
  (forall st gs gt ch, Forall P ch -> P (Nest st gs gt ch)) ->
  forall n, P n.
Proof.
  intros HP HN. fix IH 1. intros [per st nx cs ce cp|st gs gt ch].
  - apply HP.
  - apply HN. induction ch as [|c r IHr]; constructor; auto.
Qed.

Section ForallI.
  Variable P : nat -> node -> Prop.
  Fixpoint ForallI (i : nat) (l : list node) : Prop :=
    match l with [] => True | c :: r => P i c /\ ForallI (S i) r end.
End ForallI.

Lemma ForallI_impl (P Q : nat -> node -> Prop) l : forall i,
  (forall j c, i <= j -> In c l -> P j c -> Q j c) -> ForallI P i l -> ForallI Q i l.
Proof.
  induction l as [|c r IH]; simpl; intros i H HP; auto. destruct HP as [H1 H2]. split.
  - apply H; auto.
  - apply IH; auto. intros j c' Hj Hin. apply H; auto. lia.
Qed.

Lemma Forall_ForallI (P : node -> Prop) (Q : nat -> node -> Prop) l : forall i,
  Forall P l -> (forall j c, P c -> Q j c) -> ForallI Q i l.
Proof. induction l as [|c r IH]; simpl; intros i H HQ; auto. inversion H; subst. split; auto. Qed.

Lemma ForallI_Forall (R : node -> Prop) (P Q : nat -> node -> Prop) l : forall i,
  Forall R l -> (forall j c, R c -> P j c -> Q j c) -> ForallI P i l -> ForallI Q i l.
Proof.
  induction l as [|c r IH]; simpl; intros i HR H HP; auto. inversion HR; subst.
  destruct HP as [HP1 HP2]. split; eauto.
Qed.

(* ------------------------------------------------------------------ the simulation invariant *)
Fixpoint clean (n : node) : bool :=
  match n with
  | Plain _ st _ _ _ _ => negb st
  | Nest st gs _ ch => negb st && negb gs && forallb clean ch
  end.

Definition node_stopped (n : node) : bool := negb (node_started n).

Definition quiet (A : path -> ast) (p : path) : Prop := forall r, A (p ++ r) = AFresh.

(* the flags of one graph against the state of its automaton, between operations *)
Definition gstate_ok (A : path -> ast) (gp : path) (gs : bool) (ch : list node) : Prop :=
  if gs then A gp = AStarted (length ch) /\ forallb node_started ch = true
  else (ast_leaked (A gp) = true /\ forallb node_stopped ch = false)
       \/ (quiet A gp /\ forallb clean ch = true)
       \/ (ast_done (A gp) = true /\ forallb node_stopped ch = true).

Fixpoint SimN (A : path -> ast) (p : path) (n : node) : Prop :=
  match n with
  | Plain _ _ _ _ _ _ => quiet A p
  | Nest st gs _ ch =>
      st = gs /\ ForallI (fun i c => SimN A (p ++ [i]) c) 0 ch /\
      (forall i, length ch <= i -> quiet A (p ++ [i])) /\ gstate_ok A p gs ch
  end.

Definition SimL (A : path -> ast) (gp : path) (i : nat) (l : list node) : Prop :=
  ForallI (fun j c => SimN A (gp ++ [j]) c) i l.

Lemma quiet_ext A A' p : (forall r, A (p ++ r) = A' (p ++ r)) -> quiet A p -> quiet A' p.
Proof. intros H Q r. rewrite <- H. apply Q. Qed.

Lemma quiet_sub A p r : quiet A p -> quiet A (p ++ r).
Proof. intros Q s. rewrite <- app_assoc. apply Q. Qed.

Lemma SimN_ext n : forall A A' p, (forall r, A (p ++ r) = A' (p ++ r)) -> SimN A p n -> SimN A' p n.
Proof.
  induction n as [per st nx cs ce cp|st gs gt ch IH] using node_ind'; intros A A' p HA; simpl.
  - apply quiet_ext; auto.
  - intros (H1 & H2 & H3 & H4). split; auto. split; [|split].
    + eapply ForallI_Forall; [exact IH| |exact H2]. simpl. intros j c Hc Hs.
      eapply Hc; [|exact Hs]. intro s. rewrite <- !app_assoc. apply HA.
    + intros i Hi. eapply quiet_ext; [|apply H3; auto]. intro s. rewrite <- !app_assoc. apply HA.
    + unfold gstate_ok in *. pose proof (HA []) as H0. rewrite app_nil_r in H0. rewrite <- H0.
      destruct gs; auto. destruct H4 as [H4|[[H4 H5]|H4]]; auto. right; left. split; auto.
      eapply quiet_ext; eauto.
Qed.

Lemma SimL_ext A A' gp l : forall i,
  (forall j r, i <= j -> A (gp ++ j :: r) = A' (gp ++ j :: r)) -> SimL A gp i l -> SimL A' gp i l.
Proof.
  unfold SimL. induction l as [|c r IH]; simpl; auto. intros i HA [Hc Hr]. split.
  - eapply SimN_ext; [|exact Hc]. intro s. rewrite <- !app_assoc. apply HA. lia.
  - apply IH; auto. intros j s Hj. apply HA. lia.
Qed.

Lemma clean_quiet_SimN n : forall A p, clean n = true -> quiet A p -> SimN A p n.
Proof.
  induction n as [per st nx cs ce cp|st gs gt ch IH] using node_ind'; intros A p Hc Q; simpl in *; auto.
  apply andb_prop in Hc as [Hc Hch]. apply andb_prop in Hc as [Hst Hgs].
  destruct st, gs; try discriminate. split; auto. split; [|split].
  - rewrite forallb_forall in Hch. rewrite Forall_forall in IH.
    apply Forall_ForallI with (P := fun c => In c ch).
    + apply Forall_forall. auto.
    + intros j c Hin. apply IH; auto. apply quiet_sub; auto.
  - intros i _. apply quiet_sub; auto.
  - simpl. right; left. split; auto.
Qed.

(* no automaton under p is in the error state *)
Definition NoBad (A : path -> ast) (p : path) : Prop := forall r, ast_bad (A (p ++ r)) = false.

Lemma quiet_NoBad A p : quiet A p -> NoBad A p.
Proof. intros Q r. rewrite Q. reflexivity. Qed.

Lemma split_path_cases (r : path) : r = [] \/ exists i s, r = i :: s.
Proof. destruct r; eauto. Qed.

Lemma ForallI_nth (P : nat -> node -> Prop) l : forall i j c,
  ForallI P i l -> nth_error l j = Some c -> P (i + j) c.
Proof.
  induction l as [|x r IH]; intros i [|j] c H Hn; simpl in *; try discriminate.
  - inversion Hn; subst. rewrite Nat.add_0_r. tauto.
  - replace (i + S j) with (S i + j) by lia. apply IH; tauto.
Qed.

Lemma SimN_NoBad n : forall A p, SimN A p n -> NoBad A p.
Proof.
  induction n as [per st nx cs ce cp|st gs gt ch IH] using node_ind'; intros A p H; simpl in *.
  - apply quiet_NoBad; auto.
  - destruct H as (H1 & H2 & H3 & H4). intros r.
    destruct (split_path_cases r) as [->|(i & s & ->)].
    + rewrite app_nil_r. unfold gstate_ok in H4. destruct gs.
      * destruct H4 as [-> _]. reflexivity.
      * destruct H4 as [[H4 _]|[[H4 _]|[H4 _]]].
        -- destruct (A p); simpl in *; congruence.
        -- specialize (H4 []). rewrite app_nil_r in H4. rewrite H4. reflexivity.
        -- destruct (A p); simpl in *; congruence.
    + replace (p ++ i :: s) with ((p ++ [i]) ++ s) by (rewrite <- app_assoc; reflexivity).
      destruct (nth_error ch i) as [c|] eqn:E.
      * rewrite Forall_forall in IH. apply (IH c); [eapply nth_error_In; eauto|].
        apply (ForallI_nth _ _ 0 i c H2 E).
      * apply nth_error_None in E. rewrite (H3 i E). reflexivity.
Qed.

(* ------------------------------------------------------------------ locality of event lists *)
(* events of an operation on node i of graph gp: inside the node's own region, except for at
   most one user-hook event, which belongs to gp *)
Definition nloc (gp : path) (i : nat) (hk : ekind) (ev : list event) : Prop :=
  forallb well_addressed ev = true /\
  (forall gq, ~ prefix (gp ++ [i]) gq -> gq <> gp -> graph_word gq ev = []) /\
  (graph_word gp ev = [] \/ graph_word gp ev = [SN hk i]).

(* events of a loop of graph gp over nodes lo .. hi-1 *)
Definition gloc (gp : path) (lo hi : nat) (ev : list event) : Prop :=
  forallb well_addressed ev = true /\
  (forall gq, gq <> gp -> (forall j, lo <= j < hi -> ~ prefix (gp ++ [j]) gq) -> graph_word gq ev = []).

Lemma after_same A ev gq : graph_word gq ev = [] -> after A ev gq = A gq.
Proof. unfold after. intros ->. reflexivity. Qed.

Lemma gloc_nil gp lo hi : gloc gp lo hi [].
Proof. split; auto. Qed.

Lemma gloc_app gp lo hi a b : gloc gp lo hi a -> gloc gp lo hi b -> gloc gp lo hi (a ++ b).
Proof.
  intros [Ha1 Ha2] [Hb1 Hb2]. split.
  - rewrite forallb_app, Ha1, Hb1. reflexivity.
  - intros gq H1 H2. rewrite graph_word_app, Ha2, Hb2; auto.
Qed.

Lemma gloc_widen gp lo hi lo' hi' ev : lo' <= lo -> hi <= hi' -> gloc gp lo hi ev -> gloc gp lo' hi' ev.
Proof. intros H1 H2 [Ha Hb]. split; auto. intros gq Hq Hj. apply Hb; auto. intros j Hj'. apply Hj. lia. Qed.

Lemma gloc_node_ev gp lo hi k t i n : is_graph_kind k = false -> gloc gp lo hi [Ev k t (gp ++ [i]) n].
Proof.
  intro Hk. split.
  - simpl. unfold well_addressed. simpl. rewrite Hk, snoc_not_nil. reflexivity.
  - intros gq Hq _. rewrite gw_node_ev; auto. rewrite path_eqb_neq; auto.
Qed.

Lemma gloc_graph_ev gp lo hi k t n : is_graph_kind k = true -> gloc gp lo hi [Ev k t gp n].
Proof.
  intro Hk. split.
  - simpl. unfold well_addressed. simpl. rewrite Hk. reflexivity.
  - intros gq Hq _. rewrite gw_graph_ev; auto. rewrite path_eqb_neq; auto.
Qed.

Lemma gloc_opt_ev {X} gp lo hi (o : option X) k t i n :
  is_graph_kind k = false -> gloc gp lo hi (opt_ev o (Ev k t (gp ++ [i]) n)).
Proof. destruct o; simpl; intros; [apply gloc_node_ev; auto|apply gloc_nil]. Qed.

Lemma nloc_gloc gp i hk ev lo hi : lo <= i < hi -> nloc gp i hk ev -> gloc gp lo hi ev.
Proof.
  intros Hi (H1 & H2 & H3). split; [exact H1|]. intros gq Hq Hj. apply H2; auto.
Qed.

Lemma under_nloc gp i hk ev : under (gp ++ [i]) ev -> nloc gp i hk ev.
Proof.
  intro Hu. split; [|split].
  - eapply under_wa; eauto.
  - intros gq Hn _. eapply under_word_nil; eauto.
  - left. eapply under_word_nil; eauto. apply not_prefix_child.
Qed.

Lemma nloc_nil gp i hk : nloc gp i hk [].
Proof. split; [|split]; auto. Qed.

Lemma under_gloc gp lo hi ev : under gp ev -> lo = 0 -> gloc gp lo hi ev -> True.
Proof. auto. Qed.

(* a loop of graph gp lives under gp *)
Lemma gloc_frame A gp lo hi ev gq :
  gloc gp lo hi ev -> gq <> gp -> (forall j, lo <= j < hi -> ~ prefix (gp ++ [j]) gq) -> after A ev gq = A gq.
Proof. intros [_ H] H1 H2. apply after_same. apply H; auto. Qed.

Lemma child_region_neq (gp : path) i s : (gp ++ [i]) ++ s <> gp.
Proof.
  intro H. apply (f_equal (@length nat)) in H. rewrite !app_length in H. simpl in H. lia.
Qed.

Lemma child_region_other (gp : path) i j s : i <> j -> ~ prefix (gp ++ [j]) ((gp ++ [i]) ++ s).
Proof.
  intros Hij Hp. rewrite <- app_assoc in Hp. simpl in Hp. apply prefix_sibling in Hp. congruence.
Qed.

Lemma after_sandwich A ev1 X ev2 Y q :
  graph_word q X = [] -> graph_word q Y = [] ->
  after A (ev1 ++ X ++ ev2 ++ Y) q = after (after A ev1) ev2 q.
Proof.
  intros HX HY. unfold after. rewrite !graph_word_app, HX, HY, !arun_app. reflexivity.
Qed.

Lemma gw_opt_node_ev {X} (o : option X) gq k t gp i n :
  is_graph_kind k = false -> gq <> gp -> graph_word gq (opt_ev o (Ev k t (gp ++ [i]) n)) = [].
Proof.
  intros Hk Hq. destruct o; simpl; auto. rewrite gw_node_ev; auto. rewrite path_eqb_neq; auto.
Qed.

Lemma gw_node_ev_other gq k t gp i n :
  is_graph_kind k = false -> gq <> gp -> graph_word gq [Ev k t (gp ++ [i]) n] = [].
Proof. intros Hk Hq. rewrite gw_node_ev; auto. rewrite path_eqb_neq; auto. Qed.

Ltac aut := repeat (progress (simpl; rewrite ?Nat.eqb_refl, ?path_eqb_refl, ?orb_true_r, ?orb_false_r)); try reflexivity.

(* ------------------------------------------------------------------ stop *)
Definition stop_spec (stop1 : path -> Z -> node -> nres) (c : node) : Prop :=
  forall gp i t A c' ev f,
    SimN A (gp ++ [i]) c -> stop1 (gp ++ [i]) t c = (c', ev, f) ->
    nloc gp i HP ev /\ SimN (after A ev) (gp ++ [i]) c' /\ node_started c' = false /\
    (node_started c = true -> clean c' = true) /\
    (node_started c = false -> ev = [] /\ c' = c /\ f = None).

Lemma orb_first {X} (x : bool) (f1 f2 : option X) g :
  x || is_some (first_of f1 (option_map g f2)) = (x || is_some f1) || is_some f2.
Proof. destruct x, f1, f2; reflexivity. Qed.

Lemma stop_loop_spec stop1 root gp t m : forall l i A x l' ev f,
  Forall (stop_spec stop1) l ->
  SimL A gp i l -> forallb node_started l = true ->
  A gp = AStopping m (i + length l) x ->
  stop_loop stop1 root gp t i l = (l', ev, f) ->
  gloc gp i (i + length l) ev /\ SimL (after A ev) gp i l' /\ length l' = length l /\
  forallb clean l' = true /\ after A ev gp = AStopping m i (x || is_some f).
Proof.
  induction l as [|c r IH]; intros i A x l' ev f Hspec Hsim Hst HA Hrun;
    unfold SimL in *; cbn [stop_loop length forallb ForallI] in *.
  - inversion Hrun; subst. rewrite Nat.add_0_r in HA. rewrite orb_false_r.
    repeat split; auto.
  - destruct (stop_loop stop1 root gp t (S i) r) as [[r' ev1] f1] eqn:E1.
    destruct (stop1 (gp ++ [i]) t c) as [[c' ev2] f2] eqn:E2.
    inversion Hrun; subst; clear Hrun.
    inversion Hspec as [|? ? Hc Hr]; subst.
    destruct Hsim as [Hsc Hsr]. apply andb_prop in Hst as [Hstc Hstr].
    replace (i + S (length r)) with (S i + length r) in * by lia.
    destruct (IH (S i) A x r' ev1 f1 Hr Hsr Hstr HA E1) as (G1 & S1 & L1 & C1 & A1).
    set (A1f := after A ev1) in *.
    assert (Hsc1 : SimN A1f (gp ++ [i]) c).
    { eapply SimN_ext; [|exact Hsc]. intro s. symmetry. eapply gloc_frame; eauto.
      - apply child_region_neq.
      - intros j Hj. apply child_region_other. lia. }
    destruct (Hc gp i t A1f c' ev2 f2 Hsc1 E2) as (N2 & S2 & St2 & Cl2 & _).
    assert (G : gloc gp i (S i + length r)
                  (ev1 ++ [Ev BPN t (gp ++ [i]) 0] ++ ev2 ++ opt_ev f2 (Ev PNF t (gp ++ [i]) 0) ++ [Ev APN t (gp ++ [i]) 0])).
    { apply gloc_app; [eapply gloc_widen; [| |exact G1]; lia|].
      apply gloc_app; [apply gloc_node_ev; auto|].
      apply gloc_app; [eapply nloc_gloc; [|exact N2]; lia|].
      apply gloc_app; [apply gloc_opt_ev; auto|apply gloc_node_ev; auto]. }
    split; [exact G|]. split; [|split; [|split]].
    + split.
      * eapply SimN_ext; [|exact S2]. intro s.
        set (q := (gp ++ [i]) ++ s).
        assert (Hq : q <> gp) by apply child_region_neq.
        symmetry.
        apply (after_sandwich A ev1 [Ev BPN t (gp ++ [i]) 0] ev2
                 (opt_ev f2 (Ev PNF t (gp ++ [i]) 0) ++ [Ev APN t (gp ++ [i]) 0])).
        -- apply gw_node_ev_other; auto.
        -- rewrite graph_word_app. rewrite gw_opt_node_ev by auto. rewrite gw_node_ev_other by auto. reflexivity.
      * eapply SimL_ext; [|exact S1]. intros j s Hj.
        rewrite after_app. fold A1f. symmetry. apply after_same.
        assert (Hq : gp ++ j :: s <> gp).
        { replace (gp ++ j :: s) with ((gp ++ [j]) ++ s) by (rewrite <- app_assoc; reflexivity).
          apply child_region_neq. }
        destruct N2 as (_ & N2 & _).
        rewrite graph_word_cons, !graph_word_app. rewrite N2; auto.
        -- rewrite gw_opt_node_ev by auto. rewrite !gw_node_ev_other by auto. reflexivity.
        -- intro Hp. apply prefix_sibling in Hp. lia.
    + simpl. lia.
    + cbn [forallb]. rewrite Cl2, C1; auto.
    + rewrite orb_first. rewrite after_app. fold A1f.
      unfold after. rewrite A1. rewrite graph_word_cons, !graph_word_app, !gw_node_ev by auto. rewrite path_eqb_refl.
      destruct N2 as (_ & _ & [N2|N2]); rewrite N2; destruct f2; simpl;
        rewrite ?gw_node_ev by auto; rewrite ?path_eqb_refl; aut.
Qed.

Lemma gloc_nloc gp i hk lo hi ev : gloc (gp ++ [i]) lo hi ev -> nloc gp i hk ev.
Proof.
  intros [H1 H2]. split; [exact H1|]. split.
  - intros gq Hn _. apply H2.
    + intros ->. apply Hn. apply prefix_refl.
    + intros j _ Hp. apply Hn. eapply prefix_trans; [|exact Hp]. apply prefix_app.
  - left. apply H2.
    + intro H. symmetry in H. revert H. rewrite <- (app_nil_r (gp ++ [i])). apply child_region_neq.
    + intros j _ Hp. apply (not_prefix_child gp i). eapply prefix_trans; [|exact Hp]. apply prefix_app.
Qed.

Lemma clean_stopped c : clean c = true -> node_stopped c = true.
Proof.
  destruct c; simpl; unfold node_stopped; simpl; auto.
  intro H. apply andb_prop in H as [H _]. apply andb_prop in H as [H _]. exact H.
Qed.

Lemma forallb_impl {X} (f g : X -> bool) l : (forall x, f x = true -> g x = true) -> forallb f l = true -> forallb g l = true.
Proof. intros H. rewrite !forallb_forall. auto. Qed.

Lemma region_neq (gp : path) j s : gp ++ j :: s <> gp.
Proof.
  replace (gp ++ j :: s) with ((gp ++ [j]) ++ s) by (rewrite <- app_assoc; reflexivity).
  apply child_region_neq.
Qed.

Lemma SimL_after_graph_ev A gp i l k t n :
  is_graph_kind k = true -> SimL A gp i l -> SimL (after A [Ev k t gp n]) gp i l.
Proof.
  intros Hk. apply SimL_ext. intros j s _. symmetry. apply after_same.
  rewrite gw_graph_ev; auto. rewrite path_eqb_neq; auto. intro H. symmetry in H. revert H. apply region_neq.
Qed.

Lemma quiet_after_word A ev p : (forall r, graph_word (p ++ r) ev = []) -> quiet A p -> quiet (after A ev) p.
Proof. intros H Q r. rewrite after_same; auto. Qed.

Lemma gloc_out_of_range gp lo hi ev i r : gloc gp lo hi ev -> hi <= i -> graph_word ((gp ++ [i]) ++ r) ev = [].
Proof.
  intros [_ H] Hi. apply H.
  - apply child_region_neq.
  - intros j Hj. apply child_region_other. lia.
Qed.

Lemma stop_graph_spec stop1 root gp gs gt ch A gs' gt' ch' ev f :
  Forall (stop_spec stop1) ch ->
  SimL A gp 0 ch -> (forall i, length ch <= i -> quiet A (gp ++ [i])) -> gstate_ok A gp gs ch ->
  stop_graph_with stop1 root gp gs gt ch = (gs', gt', ch', ev, f) ->
  gloc gp 0 (length ch) ev /\ gs' = false /\ gt' = gt /\ length ch' = length ch /\
  SimL (after A ev) gp 0 ch' /\ (forall i, length ch' <= i -> quiet (after A ev) (gp ++ [i])) /\
  gstate_ok (after A ev) gp false ch' /\
  (gs = true -> forallb clean ch' = true /\ ast_done (after A ev gp) = true) /\
  (gs = false -> ev = [] /\ ch' = ch /\ f = None).
Proof.
  intros Hspec Hsim Hq Hok Hrun. unfold stop_graph_with in Hrun. destruct gs.
  - destruct (stop_loop stop1 root gp gt 0 ch) as [[l' ev1] f1] eqn:E1.
    inversion Hrun; subst; clear Hrun.
    destruct Hok as [HA Hst].
    set (A0 := after A [Ev BPG gt' gp 0]).
    assert (HA0 : A0 gp = AStopping (length ch) (0 + length ch) false).
    { unfold A0, after. rewrite gw_graph_ev by auto. rewrite path_eqb_refl, HA. reflexivity. }
    assert (Hsim0 : SimL A0 gp 0 ch) by (apply SimL_after_graph_ev; auto).
    destruct (stop_loop_spec stop1 root gp gt' (length ch) ch 0 A0 false ch' ev1 f Hspec Hsim0 Hst HA0 E1)
      as (G1 & S1 & L1 & C1 & A1).
    simpl in G1.
    assert (G : gloc gp 0 (length ch)
                  ([Ev BPG gt' gp 0] ++ ev1 ++ opt_ev f (Ev PGF gt' gp 0) ++ [Ev APG gt' gp 0])).
    { apply gloc_app; [apply gloc_graph_ev; auto|]. apply gloc_app; [exact G1|].
      apply gloc_app; [destruct f; simpl; [apply gloc_graph_ev; auto|apply gloc_nil]|apply gloc_graph_ev; auto]. }
    assert (Hend : after A ([Ev BPG gt' gp 0] ++ ev1 ++ opt_ev f (Ev PGF gt' gp 0) ++ [Ev APG gt' gp 0]) gp = ADone (length ch)).
    { rewrite after_app. fold A0. rewrite after_app. unfold after at 1. rewrite A1.
      rewrite graph_word_app. destruct f; simpl; rewrite !gw_graph_ev by auto; rewrite path_eqb_refl; reflexivity. }
    cbn [app] in G, Hend.
    split; [exact G|]. repeat split; auto.
    + eapply SimL_ext; [|exact S1]. intros j s _.
      rewrite after_cons. fold A0. rewrite after_app. symmetry. apply after_same.
      rewrite graph_word_app. destruct f; simpl; rewrite !gw_graph_ev by auto;
        rewrite path_eqb_neq; auto; intro H; symmetry in H; revert H; apply region_neq.
    + intros i Hi. apply quiet_after_word; [|apply Hq; lia].
      intro r. eapply gloc_out_of_range; eauto. lia.
    + unfold gstate_ok. right; right. rewrite Hend. split; auto.
      eapply forallb_impl; [|exact C1]. apply clean_stopped.
    + rewrite Hend. reflexivity.
    + discriminate.
    + discriminate.
    + discriminate.
  - inversion Hrun; subst. rewrite after_nil. repeat split; auto; try discriminate; try apply gloc_nil.
Qed.

Lemma stop_node_spec pl : forall n, stop_spec (stop_node pl) n.
Proof.
  induction n as [per st nx cs ce cp|st gs gt ch IH] using node_ind';
    intros gp i t A c' ev f Hsim Hrun; simpl in Hrun.
  - destruct st.
    + inversion Hrun; subst; clear Hrun. split; [|split; [|split; [|split]]]; auto; try discriminate.
      * split; [|split].
        -- simpl. unfold well_addressed. simpl. rewrite snoc_not_nil. reflexivity.
        -- intros gq _ Hq. apply gw_node_ev_other; auto.
        -- right. rewrite gw_node_ev; auto. rewrite path_eqb_refl. reflexivity.
      * simpl in *. apply quiet_after_word; auto. intro r. apply gw_node_ev_other; auto.
        apply child_region_neq.
    + inversion Hrun; subst. rewrite after_nil. repeat split; auto; try discriminate; try apply nloc_nil.
  - destruct Hsim as (Hst & Hsim & Hq & Hok). destruct st.
    + destruct (stop_graph_with (fun q u c => stop_node pl q u c) false (gp ++ [i]) gs gt ch)
        as [[[[gs' gt'] ch'] ev'] f'] eqn:E.
      inversion Hrun; subst; clear Hrun.
      assert (Hspec : Forall (stop_spec (fun q u c => stop_node pl q u c)) ch).
      { eapply Forall_impl; [|exact IH]. intros c Hc. exact Hc. }
      destruct (stop_graph_spec _ _ _ _ _ _ _ _ _ _ _ _ Hspec Hsim Hq Hok E)
        as (G & -> & -> & L & S1 & Q1 & Ok1 & Ht & _).
      destruct (Ht eq_refl) as [Cl Dn].
      split; [eapply gloc_nloc; eauto|].
      split. { simpl. repeat split; auto. }
      split. { reflexivity. }
      split. { intros _. simpl. exact Cl. }
      intro X; discriminate X.
    + inversion Hrun; subst. rewrite after_nil. repeat split; auto; try discriminate; try apply nloc_nil.
Qed.

(* ------------------------------------------------------------------ stepping the invariants over a segment *)
Lemma SimN_after_same A ev p n : (forall r, graph_word (p ++ r) ev = []) -> SimN A p n -> SimN (after A ev) p n.
Proof. intros H. apply SimN_ext. intro r. symmetry. apply after_same; auto. Qed.

Lemma SimN_after_app A a b p n : SimN (after (after A a) b) p n <-> SimN (after A (a ++ b)) p n.
Proof. split; apply SimN_ext; intro r; rewrite after_app; reflexivity. Qed.

Lemma SimL_after_app A a b gp i l : SimL (after (after A a) b) gp i l <-> SimL (after A (a ++ b)) gp i l.
Proof. split; apply SimL_ext; intros j r _; rewrite after_app; reflexivity. Qed.

Lemma quiet_after_app A a b p : quiet (after (after A a) b) p <-> quiet (after A (a ++ b)) p.
Proof. split; apply quiet_ext; intro r; rewrite after_app; reflexivity. Qed.

Lemma SimL_after_same A ev gp i l :
  (forall j r, i <= j -> graph_word (gp ++ j :: r) ev = []) -> SimL A gp i l -> SimL (after A ev) gp i l.
Proof. intros H. apply SimL_ext. intros j r Hj. symmetry. apply after_same; auto. Qed.

(* words of single events / sub-operations at regions that are not theirs *)
Lemma gw_node_ev_region k t (gp : path) i n j r :
  is_graph_kind k = false -> graph_word (gp ++ j :: r) [Ev k t (gp ++ [i]) n] = [].
Proof. intros Hk. apply gw_node_ev_other; auto. apply region_neq. Qed.

Lemma gw_graph_ev_region k t (gp : path) n j r :
  is_graph_kind k = true -> graph_word (gp ++ j :: r) [Ev k t gp n] = [].
Proof.
  intros Hk. rewrite gw_graph_ev; auto. rewrite path_eqb_neq; auto.
  intro H. symmetry in H. revert H. apply region_neq.
Qed.

Lemma nloc_region gp i hk ev j r : nloc gp i hk ev -> i <> j -> graph_word (gp ++ j :: r) ev = [].
Proof.
  intros (_ & H & _) Hij. apply H.
  - intro Hp. apply prefix_sibling in Hp. congruence.
  - apply region_neq.
Qed.

Lemma gloc_region gp lo hi ev j r : gloc gp lo hi ev -> (j < lo \/ hi <= j) -> graph_word (gp ++ j :: r) ev = [].
Proof.
  intros [_ H] Hj. apply H.
  - apply region_neq.
  - intros k Hk Hp. apply prefix_sibling in Hp. lia.
Qed.

Lemma app_snoc_region (gp : path) j r : (gp ++ [j]) ++ r = gp ++ j :: r.
Proof. rewrite <- app_assoc. reflexivity. Qed.

Lemma opt_ev_region {X} (o : option X) k t (gp : path) i n j r :
  is_graph_kind k = false -> graph_word (gp ++ j :: r) (opt_ev o (Ev k t (gp ++ [i]) n)) = [].
Proof. intro Hk. destruct o; simpl; auto. apply gw_node_ev_region; auto. Qed.

(* the word of graph gp itself for one node event *)
Lemma gw_node_self k t gp i n : is_graph_kind k = false -> graph_word gp [Ev k t (gp ++ [i]) n] = [SN k i].
Proof. intro Hk. rewrite gw_node_ev; auto. rewrite path_eqb_refl. reflexivity. Qed.

Lemma gw_graph_self k t gp n : is_graph_kind k = true -> graph_word gp [Ev k t gp n] = [SG k].
Proof. intro Hk. rewrite gw_graph_ev; auto. rewrite path_eqb_refl. reflexivity. Qed.

Lemma after_one A e gq : after A [e] gq = arun (A gq) (graph_word gq [e]).
Proof. reflexivity. Qed.

(* ------------------------------------------------------------------ start *)
Definition start_spec (start1 : path -> Z -> node -> nres) (c : node) : Prop :=
  forall gp i t A c' ev f,
    clean c = true -> quiet A (gp ++ [i]) ->
    start1 (gp ++ [i]) t c = (c', ev, f) ->
    nloc gp i HS ev /\ SimN (after A ev) (gp ++ [i]) c' /\
    node_started c' = negb (is_some f).

Definition start_post (A' : path -> ast) (gp : path) (i n : nat) (l' : list node)
           (fr : option (failure * bool)) : Prop :=
  match fr with
  | None => A' gp = AStarting (i + n) /\ forallb node_started l' = true
  | Some (_, false) => (exists m, A' gp = ARoll m i) /\ forallb node_stopped l' = true
  | Some (_, true) => exists m c, i <= c /\ A' gp = ARollAborted m c /\
                      (c = i -> forallb node_stopped l' = true) /\
                      (i < c -> forallb node_stopped l' = false)
  end.

Lemma arun_hook a hk i w a' :
  (w = [] \/ w = [SN hk i]) -> astep a (SN hk i) = a' -> arun a w = a \/ arun a w = a'.
Proof. intros [->| ->] H; simpl; auto. Qed.

Lemma quiet_region_after A ev gp j : (forall r, graph_word (gp ++ j :: r) ev = []) -> quiet A (gp ++ [j]) -> quiet (after A ev) (gp ++ [j]).
Proof. intros H. apply quiet_after_word. intro r. rewrite app_snoc_region. apply H. Qed.

Lemma SimN_region_after A ev gp j n : (forall r, graph_word (gp ++ j :: r) ev = []) -> SimN A (gp ++ [j]) n -> SimN (after A ev) (gp ++ [j]) n.
Proof. intros H. apply SimN_after_same. intro r. rewrite app_snoc_region. apply H. Qed.

Lemma clean_SimL A gp l : forall i,
  forallb clean l = true -> (forall j, i <= j -> quiet A (gp ++ [j])) -> SimL A gp i l.
Proof.
  unfold SimL. induction l as [|c r IH]; simpl; auto. intros i Hc Hq.
  apply andb_prop in Hc as [H1 H2]. split.
  - apply clean_quiet_SimN; auto.
  - apply IH; auto. intros j Hj. apply Hq. lia.
Qed.

Lemma clean_all_stopped l : forallb clean l = true -> forallb node_stopped l = true.
Proof. apply forallb_impl. apply clean_stopped. Qed.

Lemma start_loop_spec start1 stop1 root gp t :
  (forall c, stop_spec stop1 c) ->
  forall l i A l' ev fr,
  Forall (start_spec start1) l ->
  forallb clean l = true -> (forall j, i <= j -> quiet A (gp ++ [j])) -> A gp = AStarting i ->
  start_loop start1 stop1 root gp t i l = (l', ev, fr) ->
  gloc gp i (i + length l) ev /\ length l' = length l /\ SimL (after A ev) gp i l' /\
  start_post (after A ev) gp i (length l) l' fr.
Proof.
  intros Hstop. induction l as [|c r IH]; intros i A l' ev fr Hspec Hcl Hq HA Hrun;
    cbn [start_loop length forallb] in *.
  - inversion Hrun; subst. rewrite after_nil. repeat split; auto; try apply gloc_nil.
    rewrite Nat.add_0_r. exact HA.
  - apply andb_prop in Hcl as [Hclc Hclr]. inversion Hspec as [|? ? Hc Hr]; subst.
    destruct (start1 (gp ++ [i]) t c) as [[c1 ev1] f1] eqn:E1.
    set (p := gp ++ [i]) in *.
    set (A0 := after A [Ev BSN t p 0]).
    assert (HA0 : A0 gp = AInStart i false).
    { unfold A0. rewrite after_one. unfold p. rewrite gw_node_self by auto. rewrite HA. aut. }
    assert (Hq0 : forall j, i <= j -> quiet A0 (gp ++ [j])).
    { intros j Hj. apply quiet_region_after; auto. intro s. apply gw_node_ev_region; auto. }
    destruct (Hc gp i t A0 c1 ev1 f1 Hclc (Hq0 i (le_n i)) E1) as (N1 & S1 & St1).
    set (A1 := after A0 ev1) in *.
    assert (HA1 : exists h, A1 gp = AInStart i h).
    { unfold A1, after. rewrite HA0. destruct N1 as (_ & _ & [-> | ->]); simpl; rewrite ?Nat.eqb_refl; eauto. }
    destruct HA1 as [h HA1].
    assert (Hq1 : forall j, i < j -> quiet A1 (gp ++ [j])).
    { intros j Hj. apply quiet_region_after; [|apply Hq0; lia]. intro s. eapply nloc_region; eauto. lia. }
    assert (G1 : gloc gp i (i + S (length r)) ([Ev BSN t p 0] ++ ev1)).
    { apply gloc_app; [apply gloc_node_ev; auto|]. eapply nloc_gloc; [|exact N1]. lia. }
    destruct f1 as [f1|].
    + (* the start of node i fails *)
      inversion Hrun; subst; clear Hrun.
      set (A2 := after A1 [Ev SNF t p 0]).
      assert (Heq : forall q, after A (Ev BSN t p 0 :: ev1 ++ [Ev SNF t p 0]) q = A2 q).
      { intro q. rewrite after_cons, after_app. reflexivity. }
      split; [|split; [|split]].
      * change (gloc gp i (i + S (length r)) ([Ev BSN t p 0] ++ ev1 ++ [Ev SNF t p 0])).
        rewrite app_assoc. apply gloc_app; [exact G1|apply gloc_node_ev; auto].
      * reflexivity.
      * eapply SimL_ext; [intros j s _; symmetry; apply Heq|]. split.
        -- apply SimN_region_after; auto. intro s. apply gw_node_ev_region; auto.
        -- apply clean_SimL; auto. intros j Hj.
           apply quiet_region_after; [|apply Hq1; auto]. intro s. apply gw_node_ev_region; auto.
      * unfold start_post. rewrite Heq. split.
        -- exists i. unfold A2. rewrite after_one. unfold p. rewrite gw_node_self by auto. rewrite HA1.
           destruct h; aut.
        -- cbn [forallb]. unfold node_stopped at 1. rewrite St1. simpl. apply clean_all_stopped; auto.
    + (* node i started: go on with the rest *)
      destruct (start_loop start1 stop1 root gp t (S i) r) as [[r' ev2] f2] eqn:E2.
      set (A2 := after A1 [Ev ASN t p 0]).
      assert (HA2 : A2 gp = AStarting (S i)).
      { unfold A2. rewrite after_one. unfold p. rewrite gw_node_self by auto. rewrite HA1. destruct h; aut. }
      assert (Hq2 : forall j, S i <= j -> quiet A2 (gp ++ [j])).
      { intros j Hj. apply quiet_region_after; [|apply Hq1; auto]. intro s. apply gw_node_ev_region; auto. }
      destruct (IH (S i) A2 r' ev2 f2 Hr Hclr Hq2 HA2 E2) as (G2 & L2 & S2 & P2).
      set (A3 := after A2 ev2) in *.
      assert (S1c : SimN A3 p c1).
      { apply SimN_region_after; [intro s; eapply gloc_region; eauto; lia|].
        apply SimN_region_after; [intro s; apply gw_node_ev_region; auto|]. exact S1. }
      assert (G3 : gloc gp i (i + S (length r)) ([Ev BSN t p 0] ++ ev1 ++ [Ev ASN t p 0] ++ ev2)).
      { rewrite app_assoc. apply gloc_app; [exact G1|]. apply gloc_app; [apply gloc_node_ev; auto|].
        eapply gloc_widen; [| |exact G2]; lia. }
      assert (Heq3 : forall q, after A ([Ev BSN t p 0] ++ ev1 ++ [Ev ASN t p 0] ++ ev2) q = A3 q).
      { intro q. rewrite !after_app. reflexivity. }
      destruct f2 as [[f ab]|].
      * destruct ab.
        -- (* the rollback was already cut short further on *)
           inversion Hrun; subst; clear Hrun.
           split; [exact G3|]. split; [simpl; lia|]. split.
           ++ eapply SimL_ext; [intros j s _; symmetry; apply Heq3|]. split; auto.
           ++ unfold start_post in *. rewrite Heq3. destruct P2 as (m & c0 & Hc0 & HA3 & _ & _).
              exists m, c0. split; [lia|]. split; [exact HA3|]. split; [lia|].
              intros _. cbn [forallb]. unfold node_stopped at 1. rewrite St1. reflexivity.
        -- (* roll this node back *)
           destruct (stop1 p t c1) as [[c2 ev3] f3] eqn:E3.
           inversion Hrun; subst; clear Hrun.
           destruct P2 as [[m HA3] Hst3].
           set (A4 := after A3 [Ev BPN t p 0]).
           assert (S4 : SimN A4 p c1).
           { apply SimN_region_after; auto. intro s. apply gw_node_ev_region; auto. }
           destruct (Hstop c1 gp i t A4 c2 ev3 f3 S4 E3) as (N3 & S5 & St5 & _ & _).
           set (A5 := after A4 ev3) in *.
           set (tl := opt_ev f3 (Ev PNF t p 0) ++ [Ev APN t p 0]).
           set (A6 := after A5 tl).
           assert (Heq6 : forall q, after A ([Ev BSN t p 0] ++ ev1 ++ [Ev ASN t p 0] ++ ev2 ++ [Ev BPN t p 0] ++ ev3 ++ tl) q = A6 q).
           { intro q. rewrite !after_app. reflexivity. }
           assert (Htl : forall j s, graph_word (gp ++ j :: s) tl = []).
           { intros j s. unfold tl. rewrite graph_word_app. unfold p.
             rewrite opt_ev_region by auto. rewrite gw_node_ev_region by auto. reflexivity. }
           split; [|split; [|split]].
           ++ change (gloc gp i (i + S (length r))
                        ([Ev BSN t p 0] ++ ev1 ++ [Ev ASN t p 0] ++ ev2 ++ [Ev BPN t p 0] ++ ev3 ++ tl)).
              apply gloc_app; [apply gloc_node_ev; auto|].
              apply gloc_app; [eapply nloc_gloc; [|exact N1]; lia|].
              apply gloc_app; [apply gloc_node_ev; auto|].
              apply gloc_app; [eapply gloc_widen; [| |exact G2]; lia|].
              apply gloc_app; [apply gloc_node_ev; auto|].
              apply gloc_app; [eapply nloc_gloc; [|exact N3]; lia|].
              unfold tl. apply gloc_app; [apply gloc_opt_ev; auto|apply gloc_node_ev; auto].
           ++ simpl; lia.
           ++ eapply SimL_ext; [intros j s _; symmetry; apply Heq6|]. split.
              ** unfold A6. apply SimN_region_after; auto.
              ** unfold A6. apply SimL_after_same; [intros; apply Htl|].
                 apply SimL_after_same; [intros j s Hj; eapply nloc_region; eauto; lia|].
                 apply SimL_after_same; [intros j s Hj; apply gw_node_ev_region; auto|]. exact S2.
           ++ unfold start_post. rewrite Heq6.
              assert (HA4 : A4 gp = ARollIn m (S i) false false).
              { unfold A4. rewrite after_one. unfold p. rewrite gw_node_self by auto. rewrite HA3. aut. }
              assert (HA5 : exists h5, A5 gp = ARollIn m (S i) h5 false).
              { unfold A5, after. rewrite HA4. destruct N3 as (_ & _ & [-> | ->]); simpl; rewrite ?Nat.eqb_refl; eauto. }
              destruct HA5 as [h5 HA5].
              assert (Hall : forallb node_stopped (c2 :: r') = true).
              { cbn [forallb]. unfold node_stopped at 1. rewrite St5, Hst3. reflexivity. }
              unfold A6, after. rewrite HA5. unfold tl, p. rewrite graph_word_app.
              destruct f3 as [f3|]; simpl opt_ev; rewrite ?gw_node_self by auto.
              ** exists m, i. split; [lia|]. split; [destruct h5; aut|]. split; auto. intro; lia.
              ** split; auto. exists m. destruct h5; aut.
      * (* everything started *)
        inversion Hrun; subst; clear Hrun.
        split; [exact G3|]. split; [simpl; lia|]. split.
        -- eapply SimL_ext; [intros j s _; symmetry; apply Heq3|]. split; auto.
        -- unfold start_post in *. rewrite Heq3. destruct P2 as [HA3 Hst3]. split.
           ++ rewrite HA3. f_equal. lia.
           ++ cbn [forallb]. rewrite St1, Hst3. reflexivity.
Qed.

Lemma start_graph_spec start1 stop1 root gp gt ch t A gs' gt' ch' ev f :
  (forall c, stop_spec stop1 c) -> Forall (start_spec start1) ch ->
  forallb clean ch = true -> quiet A gp ->
  start_graph_with start1 stop1 root gp false gt ch t = (gs', gt', ch', ev, f) ->
  gloc gp 0 (length ch) ev /\ length ch' = length ch /\ gs' = negb (is_some f) /\
  SimL (after A ev) gp 0 ch' /\ (forall i, length ch' <= i -> quiet (after A ev) (gp ++ [i])) /\
  gstate_ok (after A ev) gp gs' ch'.
Proof.
  intros Hstop Hspec Hcl Hq Hrun. unfold start_graph_with in Hrun.
  destruct (start_loop start1 stop1 root gp t 0 ch) as [[l' ev1] fr] eqn:E1.
  set (A0 := after A [Ev BSG gt gp 0]).
  assert (HA0 : A0 gp = AStarting 0).
  { unfold A0. rewrite after_one, gw_graph_self by auto. specialize (Hq []). rewrite app_nil_r in Hq.
    rewrite Hq. reflexivity. }
  assert (Hq0 : forall j, 0 <= j -> quiet A0 (gp ++ [j])).
  { intros j _. apply quiet_region_after; [intro s; apply gw_graph_ev_region; auto|]. apply quiet_sub; auto. }
  destruct (start_loop_spec start1 stop1 root gp t Hstop ch 0 A0 l' ev1 fr Hspec Hcl Hq0 HA0 E1)
    as (G1 & L1 & S1 & P1).
  simpl in G1. set (A1 := after A0 ev1) in *.
  assert (Hout : forall e i, is_graph_kind (e_kind e) = true -> e_path e = gp -> length l' <= i ->
                 quiet (after A1 [e]) (gp ++ [i])).
  { intros [k te pe ne] i Hk Hp Hi. simpl in *. subst pe.
    apply quiet_region_after; [intro s; apply gw_graph_ev_region; auto|].
    apply quiet_region_after; [intro s; eapply gloc_region; eauto; lia|]. apply Hq0. lia. }
  destruct fr as [[f0 ab]|]; inversion Hrun; subst; clear Hrun.
  - (* start failed *)
    set (e := Ev SGF gt' gp 0).
    assert (Heq : forall q, after A (Ev BSG gt gp 0 :: ev1 ++ [e]) q = after A1 [e] q).
    { intro q. rewrite after_cons, after_app. reflexivity. }
    split; [|split; [|split; [|split; [|split]]]]; auto.
    + change (gloc gp 0 (length ch) ([Ev BSG gt gp 0] ++ ev1 ++ [e])).
      apply gloc_app; [apply gloc_graph_ev; auto|]. apply gloc_app; [exact G1|apply gloc_graph_ev; auto].
    + eapply SimL_ext; [intros j s _; symmetry; apply Heq|].
      apply SimL_after_same; auto. intros j s _. apply gw_graph_ev_region; auto.
    + intros i Hi. eapply quiet_ext; [intro s; symmetry; apply Heq|]. apply Hout; auto.
    + unfold gstate_ok. rewrite Heq. rewrite after_one. unfold e. rewrite gw_graph_self by auto.
      unfold start_post in P1. destruct ab.
      * destruct P1 as (m & c & _ & HA1 & Hz & Hnz). rewrite HA1. destruct c as [|c].
        -- right; right. split; auto.
        -- left. split; auto. apply Hnz. lia.
      * destruct P1 as [[m HA1] Hall]. rewrite HA1. right; right. split; auto.
  - (* started *)
    set (e := Ev ASG gt' gp 0).
    assert (Heq : forall q, after A (Ev BSG gt gp 0 :: ev1 ++ [e]) q = after A1 [e] q).
    { intro q. rewrite after_cons, after_app. reflexivity. }
    split; [|split; [|split; [|split; [|split]]]]; auto.
    + change (gloc gp 0 (length ch) ([Ev BSG gt gp 0] ++ ev1 ++ [e])).
      apply gloc_app; [apply gloc_graph_ev; auto|]. apply gloc_app; [exact G1|apply gloc_graph_ev; auto].
    + eapply SimL_ext; [intros j s _; symmetry; apply Heq|].
      apply SimL_after_same; auto. intros j s _. apply gw_graph_ev_region; auto.
    + intros i Hi. eapply quiet_ext; [intro s; symmetry; apply Heq|]. apply Hout; auto.
    + unfold gstate_ok. rewrite Heq. rewrite after_one. unfold e. rewrite gw_graph_self by auto.
      destruct P1 as [HA1 Hall]. rewrite HA1. simpl. rewrite L1. split; auto.
Qed.

Lemma clean_Nest_inv st gs gt ch : clean (Nest st gs gt ch) = true -> st = false /\ gs = false /\ forallb clean ch = true.
Proof.
  simpl. intro H. apply andb_prop in H as [H H3]. apply andb_prop in H as [H1 H2].
  destruct st, gs; try discriminate; auto.
Qed.

Lemma start_node_spec pl : forall n, start_spec (start_node pl) n.
Proof.
  induction n as [per st nx cs ce cp|st gs gt ch IH] using node_ind';
    intros gp i t A c' ev f Hcl Hq Hrun; simpl in Hrun.
  - simpl in Hcl. destruct st; [discriminate|].
    assert (Hn : forall k, nloc gp i HS [Ev HS t (gp ++ [i]) k]).
    { intro k. split; [|split].
      - simpl. unfold well_addressed. simpl. rewrite snoc_not_nil. reflexivity.
      - intros gq _ Hgq. apply gw_node_ev_other; auto.
      - right. apply gw_node_self; auto. }
    assert (Hqa : forall k, quiet (after A [Ev HS t (gp ++ [i]) k]) (gp ++ [i])).
    { intro k. apply quiet_region_after; auto. intro s. apply gw_node_ev_region; auto. }
    destruct (pl (gp ++ [i]) PStart cs); inversion Hrun; subst; clear Hrun; simpl; repeat split; auto;
      try apply Hn; try apply Hqa.
  - apply clean_Nest_inv in Hcl as (-> & -> & Hcl).
    destruct (start_graph_with (fun q u c => start_node pl q u c) (stop_node pl) false (gp ++ [i]) false gt ch t)
      as [[[[gs' gt'] ch'] ev'] f'] eqn:E.
    inversion Hrun; subst; clear Hrun.
    assert (Hspec : Forall (start_spec (fun q u c => start_node pl q u c)) ch).
    { eapply Forall_impl; [|exact IH]. intros c Hc. exact Hc. }
    destruct (start_graph_spec _ _ _ _ _ _ _ _ _ _ _ _ _ (stop_node_spec pl) Hspec Hcl Hq E)
      as (G & L & Hgs & S1 & Q1 & Ok1).
    split; [eapply gloc_nloc; eauto|]. split.
    + simpl. repeat split; auto.
    + simpl. reflexivity.
Qed.

(* ------------------------------------------------------------------ evaluate *)
Definition eval_spec (eval1 : path -> Z -> node -> nres) (c : node) : Prop :=
  forall gp i t A c' ev f,
    SimN A (gp ++ [i]) c -> node_started c = true ->
    eval1 (gp ++ [i]) t c = (c', ev, f) ->
    nloc gp i HE ev /\ SimN (after A ev) (gp ++ [i]) c' /\ node_started c' = true.

Lemma eval_loop_spec eval1 due1 root gp t m : forall l i A pos l' ev f,
  Forall (eval_spec eval1) l ->
  SimL A gp i l -> forallb node_started l = true ->
  A gp = ACycle m pos -> pos <= i -> i + length l <= m ->
  eval_loop eval1 due1 root gp t i l = (l', ev, f) ->
  gloc gp i (i + length l) ev /\ length l' = length l /\ SimL (after A ev) gp i l' /\
  forallb node_started l' = true /\ exists pos', after A ev gp = ACycle m pos' /\ pos' <= i + length l.
Proof.
  induction l as [|c r IH]; intros i A pos l' ev f Hspec Hsim Hst HA Hpos Hm Hrun;
    unfold SimL in *; cbn [eval_loop length forallb ForallI] in *.
  - inversion Hrun; subst. rewrite after_nil. repeat split; auto; try apply gloc_nil.
    exists pos. split; auto. lia.
  - inversion Hspec as [|? ? Hc Hr]; subst. destruct Hsim as [Hsc Hsr].
    apply andb_prop in Hst as [Hstc Hstr].
    set (p := gp ++ [i]) in *.
    destruct (due1 t c).
    + destruct (eval1 p t c) as [[c1 ev1] f1] eqn:E1.
      set (A0 := after A [Ev BEN t p 0]).
      assert (HA0 : A0 gp = AInEval m i false).
      { unfold A0. rewrite after_one. unfold p. rewrite gw_node_self by auto. rewrite HA. simpl.
        replace (pos <=? i) with true by (symmetry; apply Nat.leb_le; auto).
        replace (i <? m) with true by (symmetry; apply Nat.ltb_lt; lia). reflexivity. }
      assert (S0 : SimN A0 p c).
      { apply SimN_region_after; auto. intro s. apply gw_node_ev_region; auto. }
      destruct (Hc gp i t A0 c1 ev1 f1 S0 Hstc E1) as (N1 & S1 & St1).
      set (A1 := after A0 ev1) in *.
      assert (HA1 : exists h, A1 gp = AInEval m i h).
      { unfold A1, after. rewrite HA0. destruct N1 as (_ & _ & [-> | ->]); simpl; rewrite ?Nat.eqb_refl; eauto. }
      destruct HA1 as [h HA1].
      set (A2 := after A1 [Ev AEN t p 0]).
      assert (HA2 : A2 gp = ACycle m (S i)).
      { unfold A2. rewrite after_one. unfold p. rewrite gw_node_self by auto. rewrite HA1. destruct h; aut. }
      assert (S2 : SimN A2 p c1).
      { apply SimN_region_after; auto. intro s. apply gw_node_ev_region; auto. }
      assert (Sr2 : SimL A2 gp (S i) r).
      { apply SimL_after_same; [intros j s Hj; apply gw_node_ev_region; auto|].
        apply SimL_after_same; [intros j s Hj; eapply nloc_region; eauto; lia|].
        apply SimL_after_same; [intros j s Hj; apply gw_node_ev_region; auto|]. exact Hsr. }
      assert (G2 : gloc gp i (i + S (length r)) ([Ev BEN t p 0] ++ ev1 ++ [Ev AEN t p 0])).
      { apply gloc_app; [apply gloc_node_ev; auto|]. apply gloc_app; [|apply gloc_node_ev; auto].
        eapply nloc_gloc; [|exact N1]. lia. }
      assert (Heq2 : forall q, after A ([Ev BEN t p 0] ++ ev1 ++ [Ev AEN t p 0]) q = A2 q).
      { intro q. rewrite !after_app. reflexivity. }
      destruct f1 as [f1|].
      * inversion Hrun; subst; clear Hrun.
        split; [exact G2|]. split; [reflexivity|]. split; [|split].
        -- eapply SimL_ext; [intros j s _; symmetry; apply Heq2|]. split; auto.
        -- cbn [forallb]. rewrite St1, Hstr. reflexivity.
        -- exists (S i). split; [|lia]. rewrite <- HA2. apply Heq2.
      * destruct (eval_loop eval1 due1 root gp t (S i) r) as [[r' ev2] f2] eqn:E2.
        inversion Hrun; subst; clear Hrun.
        assert (Hm2 : S i + length r <= m) by lia.
        destruct (IH (S i) A2 (S i) r' ev2 f Hr Sr2 Hstr HA2 (le_n _) Hm2 E2) as (G3 & L3 & S3 & St3 & pos' & HA3 & Hp3).
        assert (Heq3 : forall q, after A ([Ev BEN t p 0] ++ ev1 ++ [Ev AEN t p 0] ++ ev2) q = after A2 ev2 q).
        { intro q. rewrite !after_app. reflexivity. }
        split; [|split; [|split; [|split]]].
        -- change (gloc gp i (i + S (length r)) ([Ev BEN t p 0] ++ ev1 ++ [Ev AEN t p 0] ++ ev2)).
           apply gloc_app; [apply gloc_node_ev; auto|].
           apply gloc_app; [eapply nloc_gloc; [|exact N1]; lia|].
           apply gloc_app; [apply gloc_node_ev; auto|]. eapply gloc_widen; [| |exact G3]; lia.
        -- simpl; lia.
        -- eapply SimL_ext; [intros j s _; symmetry; apply Heq3|]. split; auto.
           apply SimN_region_after; auto. intro s. eapply gloc_region; eauto; lia.
        -- cbn [forallb]. rewrite St1, St3. reflexivity.
        -- exists pos'. split; [|lia]. rewrite <- HA3. apply Heq3.
    + destruct (eval_loop eval1 due1 root gp t (S i) r) as [[r' ev2] f2] eqn:E2.
      inversion Hrun; subst; clear Hrun.
      assert (Hm2 : S i + length r <= m) by lia.
      assert (Hp2 : pos <= S i) by lia.
      destruct (IH (S i) A pos r' ev f Hr Hsr Hstr HA Hp2 Hm2 E2) as (G3 & L3 & S3 & St3 & pos' & HA3 & Hp3).
      split; [|split; [|split; [|split]]].
      * eapply gloc_widen; [| |exact G3]; lia.
      * simpl; lia.
      * split; auto. apply SimN_region_after; auto. intro s. eapply gloc_region; eauto; lia.
      * cbn [forallb]. rewrite Hstc, St3. reflexivity.
      * exists pos'. split; auto. lia.
Qed.

Lemma eval_graph_spec eval1 due1 root gp gt ch t A gs' gt' ch' ev f :
  Forall (eval_spec eval1) ch ->
  SimL A gp 0 ch -> (forall i, length ch <= i -> quiet A (gp ++ [i])) -> gstate_ok A gp true ch ->
  eval_graph_with eval1 due1 root gp true gt ch t = (gs', gt', ch', ev, f) ->
  gloc gp 0 (length ch) ev /\ length ch' = length ch /\ gs' = true /\
  SimL (after A ev) gp 0 ch' /\ (forall i, length ch' <= i -> quiet (after A ev) (gp ++ [i])) /\
  gstate_ok (after A ev) gp true ch'.
Proof.
  intros Hspec Hsim Hq [HA Hst] Hrun. unfold eval_graph_with in Hrun.
  destruct (eval_loop eval1 due1 root gp t 0 ch) as [[l' ev1] f1] eqn:E1.
  inversion Hrun; subst; clear Hrun.
  set (A0 := after A [Ev BGE gt' gp 0]).
  assert (HA0 : A0 gp = ACycle (length ch) 0).
  { unfold A0. rewrite after_one, gw_graph_self by auto. rewrite HA. reflexivity. }
  assert (S0 : SimL A0 gp 0 ch) by (apply SimL_after_graph_ev; auto).
  destruct (eval_loop_spec eval1 due1 root gp gt' (length ch) ch 0 A0 0 ch' ev1 f Hspec S0 Hst HA0 (le_n 0) (le_n _) E1)
    as (G1 & L1 & S1 & St1 & pos' & HA1 & _).
  simpl in G1. set (A1 := after A0 ev1) in *.
  set (e := Ev AGE gt' gp 0).
  assert (Heq : forall q, after A (Ev BGE gt' gp 0 :: ev1 ++ [e]) q = after A1 [e] q).
  { intro q. rewrite after_cons, after_app. reflexivity. }
  split; [|split; [|split; [|split; [|split]]]]; auto.
  - change (gloc gp 0 (length ch) ([Ev BGE gt' gp 0] ++ ev1 ++ [e])).
    apply gloc_app; [apply gloc_graph_ev; auto|]. apply gloc_app; [exact G1|apply gloc_graph_ev; auto].
  - eapply SimL_ext; [intros j s _; symmetry; apply Heq|].
    apply SimL_after_same; auto. intros j s _. apply gw_graph_ev_region; auto.
  - intros i Hi. eapply quiet_ext; [intro s; symmetry; apply Heq|].
    apply quiet_region_after; [intro s; apply gw_graph_ev_region; auto|].
    apply quiet_region_after; [intro s; eapply gloc_region; eauto; lia|].
    apply quiet_region_after; [intro s; apply gw_graph_ev_region; auto|]. apply Hq. lia.
  - unfold gstate_ok. rewrite Heq, after_one. unfold e. rewrite gw_graph_self by auto. rewrite HA1. simpl.
    rewrite L1. split; auto.
Qed.

Lemma eval_node_spec pl : forall n, eval_spec (eval_node pl) n.
Proof.
  induction n as [per st nx cs ce cp|st gs gt ch IH] using node_ind';
    intros gp i t A c' ev f Hsim Hst Hrun; simpl in Hrun, Hst; subst st.
  - assert (Hn : nloc gp i HE [Ev HE t (gp ++ [i]) ce]).
    { split; [|split].
      - simpl. unfold well_addressed. simpl. rewrite snoc_not_nil. reflexivity.
      - intros gq _ Hgq. apply gw_node_ev_other; auto.
      - right. apply gw_node_self; auto. }
    assert (Hqa : quiet (after A [Ev HE t (gp ++ [i]) ce]) (gp ++ [i])).
    { apply quiet_region_after; auto. intro s. apply gw_node_ev_region; auto. }
    destruct (pl (gp ++ [i]) PEval ce); inversion Hrun; subst; clear Hrun; simpl; repeat split; auto;
      try apply Hn; try apply Hqa.
  - destruct Hsim as (Hgs & Hsim & Hq & Hok). subst gs.
    destruct (eval_graph_with (fun q u c => eval_node pl q u c) due false (gp ++ [i]) true gt ch t)
      as [[[[gs' gt'] ch'] ev'] f'] eqn:E.
    inversion Hrun; subst; clear Hrun.
    assert (Hspec : Forall (eval_spec (fun q u c => eval_node pl q u c)) ch).
    { eapply Forall_impl; [|exact IH]. intros c Hc. exact Hc. }
    destruct (eval_graph_spec _ _ _ _ _ _ _ _ _ _ _ _ _ Hspec Hsim Hq Hok E)
      as (G & L & -> & S1 & Q1 & Ok1).
    split; [eapply gloc_nloc; eauto|]. split.
    + simpl. split; [reflexivity|]. split; [exact S1|]. split; [exact Q1|exact Ok1].
    + reflexivity.
Qed.

(* ------------------------------------------------------------------ the executor *)
Definition SimW (A : path -> ast) (w : world) : Prop :=
  SimL A [] 0 (w_nodes w) /\ (forall i, length (w_nodes w) <= i -> quiet A ([] ++ [i])) /\
  gstate_ok A [] (w_gs w) (w_nodes w).

Definition A0 : path -> ast := fun _ => AFresh.

Definition wloc (ev : list event) : Prop := forallb well_addressed ev = true.

Lemma gloc_wloc gp lo hi ev : gloc gp lo hi ev -> wloc ev.
Proof. intros [H _]. exact H. Qed.

Lemma wloc_app a b : wloc a -> wloc b -> wloc (a ++ b).
Proof. unfold wloc. intros Ha Hb. rewrite forallb_app, Ha, Hb. reflexivity. Qed.

Lemma SimW_ext A A' w : (forall q, A q = A' q) -> SimW A w -> SimW A' w.
Proof.
  intros H (H1 & H2 & H3). split; [|split].
  - eapply SimL_ext; [|exact H1]. intros; apply H.
  - intros i Hi. eapply quiet_ext; [|apply H2; auto]. intros; apply H.
  - unfold gstate_ok in *. rewrite <- (H []). destruct (w_gs w); auto.
    destruct H3 as [H3|[[H3 H4]|H3]]; auto. right; left. split; auto. eapply quiet_ext; [|exact H3]. intros; apply H.
Qed.

Lemma stop_world_spec pl A w w' ev f :
  SimW A w -> stop_world pl w = (w', ev, f) ->
  wloc ev /\ SimW (after A ev) w' /\ w_gs w' = false.
Proof.
  intros (H1 & H2 & H3) Hrun. unfold stop_world in Hrun.
  destruct (stop_graph_with (stop_node pl) true [] (w_gs w) (w_gt w) (w_nodes w)) as [[[[gs gt] ch] ev'] f'] eqn:E.
  inversion Hrun; subst; clear Hrun.
  assert (Hspec : Forall (stop_spec (stop_node pl)) (w_nodes w)).
  { apply Forall_forall. intros c _. apply stop_node_spec. }
  destruct (stop_graph_spec _ _ _ _ _ _ _ _ _ _ _ _ Hspec H1 H2 H3 E) as (G & -> & -> & L & S1 & Q1 & Ok1 & _).
  split; [eapply gloc_wloc; eauto|]. split; [|reflexivity]. split; [|split]; simpl; auto.
Qed.

Lemma eval_loop_root_note eval1 due1 gp t : forall l i l' ev fl,
  eval_loop eval1 due1 true gp t i l = (l', ev, Some fl) -> exists j, f_note fl = Some (j, PEval).
Proof.
  induction l as [|c r IH]; intros i l' ev fl E; simpl in E; [discriminate|].
  destruct (due1 t c).
  - destruct (eval1 (gp ++ [i]) t c) as [[c1 e1] g1]. destruct g1.
    + inversion E; subst. simpl. eauto.
    + destruct (eval_loop eval1 due1 true gp t (S i) r) as [[r' e2] g2] eqn:E2.
      inversion E; subst. eapply IH; eauto.
  - destruct (eval_loop eval1 due1 true gp t (S i) r) as [[r' e2] g2] eqn:E2.
    inversion E; subst. eapply IH; eauto.
Qed.

Lemma cycles_spec pl sp e : forall fuel lo A w w' ev f,
  SimW A w -> w_gs w = true -> cycles pl sp e fuel lo w = (w', ev, f) ->
  wloc ev /\ SimW (after A ev) w' /\ w_gs w' = true /\ (forall fl, f = Some fl -> exists i, f_note fl = Some (i, PEval)).
Proof.
  induction fuel as [|fuel IH]; intros lo A w w' ev f Hsim Hgs Hrun; simpl in Hrun.
  - inversion Hrun; subst. rewrite after_nil. split; [reflexivity|]. split; [exact Hsim|]. split; [exact Hgs|]. intros fl X; discriminate X.
  - destruct (min_next_list lo (w_nodes w)) as [nx|].
    2:{ inversion Hrun; subst. rewrite after_nil. split; [reflexivity|]. split; [exact Hsim|]. split; [exact Hgs|]. intros fl X; discriminate X. }
    destruct (e <=? nx)%Z.
    { inversion Hrun; subst. rewrite after_nil. split; [reflexivity|]. split; [exact Hsim|]. split; [exact Hgs|]. intros fl X; discriminate X. }
    destruct (eval_graph_with (eval_node pl) due true [] (w_gs w) (w_gt w) (w_nodes w) nx)
      as [[[[gs gt] ch] ev1] f1] eqn:E.
    destruct Hsim as (H1 & H2 & H3). rewrite Hgs in *.
    assert (Hspec : Forall (eval_spec (eval_node pl)) (w_nodes w)).
    { apply Forall_forall. intros c _. apply eval_node_spec. }
    destruct (eval_graph_spec _ _ _ _ _ _ _ _ _ _ _ _ _ Hspec H1 H2 H3 E) as (G & L & -> & S1 & Q1 & Ok1).
    assert (Hw1 : SimW (after A ev1) (W true gt ch)) by (split; [|split]; simpl; auto).
    destruct f1 as [x|].
    + inversion Hrun; subst; clear Hrun. split; [eapply gloc_wloc; eauto|]. split; auto. split; auto.
      intros fl Hfl. inversion Hfl; subst. clear - E.
      unfold eval_graph_with in E. destruct (eval_loop (eval_node pl) due true [] nx 0 (w_nodes w)) as [[l1 ev1'] f'] eqn:E1.
      inversion E; subst. eapply eval_loop_root_note; eauto.
    + destruct (stop_requested sp ev1).
      * inversion Hrun; subst; clear Hrun. split; [eapply gloc_wloc; eauto|]. split; [exact Hw1|]. split; [reflexivity|]. intros fl X; discriminate X.
      * destruct (cycles pl sp e fuel (nx + 1)%Z (W true gt ch)) as [[w2 ev2] f2] eqn:E2.
        inversion Hrun; subst; clear Hrun.
        destruct (IH _ _ _ _ _ _ Hw1 eq_refl E2) as (Wl & S2 & G2 & N2).
        split; [apply wloc_app; auto; eapply gloc_wloc; eauto|]. split; [|split; auto].
        eapply SimW_ext; [|exact S2]. intro q. rewrite after_app. reflexivity.
Qed.

Lemma quiet_A0 p : quiet A0 p.
Proof. intro r. reflexivity. Qed.

Lemma SimW_init w : w_gs w = false -> forallb clean (w_nodes w) = true -> SimW A0 w.
Proof.
  intros Hgs Hcl. split; [|split].
  - apply clean_SimL; auto. intros; apply quiet_A0.
  - intros; apply quiet_A0.
  - rewrite Hgs. right; left. split; auto. apply quiet_A0.
Qed.

Lemma run_spec pl sp cfg w w1 ev f :
  w_gs w = false -> forallb clean (w_nodes w) = true ->
  run pl sp cfg w = (w1, ev, f) ->
  wloc ev /\ SimW (after A0 ev) w1 /\
  (w_gs w1 = true -> c_cleanup cfg = false /\ exists fl i, f = Some fl /\ f_note fl = Some (i, PEval)).
Proof.
  intros Hgs Hcl Hrun. unfold run in Hrun.
  destruct (c_end cfg <=? c_start cfg)%Z.
  { inversion Hrun; subst. rewrite after_nil. split; [reflexivity|]. split; [apply SimW_init; auto|].
    intro H. congruence. }
  rewrite Hgs in Hrun.
  destruct (start_graph_with (start_node pl) (stop_node pl) true [] false (w_gt w) (w_nodes w) (c_start cfg))
    as [[[[gs gt] ch] ev0] f0] eqn:E0.
  assert (Hspec : Forall (start_spec (start_node pl)) (w_nodes w)).
  { apply Forall_forall. intros c _. apply start_node_spec. }
  destruct (start_graph_spec _ _ _ _ _ _ _ A0 _ _ _ _ _ (stop_node_spec pl) Hspec Hcl (quiet_A0 []) E0)
    as (G0 & L0 & Hgs0 & S0 & Q0 & Ok0).
  assert (Hw0 : SimW (after A0 ev0) (W gs gt ch)) by (split; [|split]; simpl; auto).
  destruct f0 as [f0|].
  - inversion Hrun; subst; clear Hrun. split; [eapply gloc_wloc; eauto|]. split; auto.
    simpl. intro H; discriminate H.
  - simpl in Hgs0. subst gs.
    destruct (cycles pl sp (c_end cfg) (c_fuel cfg) (c_start cfg) (W true gt ch)) as [[w1' ev1] f1] eqn:E1.
    destruct (cycles_spec _ _ _ _ _ _ _ _ _ _ Hw0 eq_refl E1) as (Wl1 & S1 & G1 & N1).
    assert (Hw1 : SimW (after A0 (ev0 ++ ev1)) w1').
    { eapply SimW_ext; [|exact S1]. intro q. rewrite after_app. reflexivity. }
    assert (Wl01 : wloc (ev0 ++ ev1)) by (apply wloc_app; auto; eapply gloc_wloc; eauto).
    destruct f1 as [f1|].
    + destruct (c_cleanup cfg) eqn:Ecl.
      * destruct (stop_world pl w1') as [[w2 ev2] f2] eqn:E2.
        inversion Hrun; subst; clear Hrun.
        destruct (stop_world_spec _ _ _ _ _ _ Hw1 E2) as (Wl2 & S2 & G2).
        split; [rewrite app_assoc; apply wloc_app; auto|]. split.
        -- eapply SimW_ext; [|exact S2]. intro q. rewrite app_assoc, after_app. reflexivity.
        -- intro H. congruence.
      * inversion Hrun; subst; clear Hrun. split; auto. split; auto. intros _. split; auto.
        destruct (N1 f1 eq_refl) as [i Hi]. eauto.
    + destruct (stop_world pl w1') as [[w2 ev2] f2] eqn:E2.
      inversion Hrun; subst; clear Hrun.
      destruct (stop_world_spec _ _ _ _ _ _ Hw1 E2) as (Wl2 & S2 & G2).
      split; [rewrite app_assoc; apply wloc_app; auto|]. split.
      * eapply SimW_ext; [|exact S2]. intro q. rewrite app_assoc, after_app. reflexivity.
      * intro H. congruence.
Qed.

(* ------------------------------------------------------------------ disposal *)
Definition dispose_spec (dispose1 : path -> node -> node * list event) (c : node) : Prop :=
  forall gp i A c' ev,
    SimN A (gp ++ [i]) c -> dispose1 (gp ++ [i]) c = (c', ev) ->
    wloc ev /\ (forall gq, ~ prefix (gp ++ [i]) gq -> graph_word gq ev = []) /\
    NoBad (after A ev) (gp ++ [i]) /\
    ((forall gl, ast_leaked (A gl) = false) -> node_started c = false ->
     ev = [] /\ forall r, ast_final (A ((gp ++ [i]) ++ r)) = true).

Lemma dispose_loop_spec dispose1 gp : forall l i A l' ev,
  Forall (dispose_spec dispose1) l -> SimL A gp i l ->
  dispose_loop dispose1 gp i l = (l', ev) ->
  wloc ev /\
  (forall gq, (forall j, i <= j < i + length l -> ~ prefix (gp ++ [j]) gq) -> graph_word gq ev = []) /\
  (forall j, i <= j < i + length l -> NoBad (after A ev) (gp ++ [j])) /\
  ((forall gl, ast_leaked (A gl) = false) -> forallb node_stopped l = true ->
   ev = [] /\ forall j r, i <= j < i + length l -> ast_final (A ((gp ++ [j]) ++ r)) = true).
Proof.
  induction l as [|c r IH]; intros i A l' ev Hspec Hsim Hrun; unfold SimL in *;
    cbn [dispose_loop length ForallI forallb] in *.
  - inversion Hrun; subst. split; [reflexivity|]. split; [auto|]. split; [intros; lia|]. intros _ _. split; auto. intros; lia.
  - inversion Hspec as [|? ? Hc Hr]; subst. destruct Hsim as [Hsc Hsr].
    destruct (dispose_loop dispose1 gp (S i) r) as [r' ev1] eqn:E1.
    destruct (dispose1 (gp ++ [i]) c) as [c' ev2] eqn:E2.
    inversion Hrun; subst; clear Hrun.
    destruct (IH (S i) A r' ev1 Hr Hsr E1) as (W1 & F1 & B1 & C1).
    assert (Hsc1 : SimN (after A ev1) (gp ++ [i]) c).
    { apply SimN_after_same; auto. intro s. apply F1. intros j Hj. apply child_region_other. lia. }
    destruct (Hc gp i (after A ev1) c' ev2 Hsc1 E2) as (W2 & F2 & B2 & C2).
    split; [apply wloc_app; auto|]. split; [|split].
    + intros gq Hgq. rewrite graph_word_app, F1, F2; auto.
      * apply Hgq. lia.
      * intros j Hj. apply Hgq. lia.
    + intros j Hj s. rewrite after_app.
      destruct (Nat.eq_dec j i) as [->|Hne].
      * apply B2.
      * rewrite after_same; [apply B1; lia|]. apply F2. apply child_region_other. auto.
    + intros Hnl Hst. apply andb_prop in Hst as [Hstc Hstr].
      destruct (C1 Hnl Hstr) as [-> Hf1]. rewrite after_nil in *.
      unfold node_stopped in Hstc. apply negb_true_iff in Hstc.
      destruct (C2 Hnl Hstc) as [-> Hf2]. split; auto.
      intros j s Hj. destruct (Nat.eq_dec j i) as [->|Hne]; [apply Hf2|apply Hf1; lia].
Qed.

Lemma gloc_outside gp lo hi ev gq : gloc gp lo hi ev -> ~ prefix gp gq -> graph_word gq ev = [].
Proof.
  intros [_ H] Hn. apply H.
  - intros ->. apply Hn. apply prefix_refl.
  - intros j _ Hp. apply Hn. eapply prefix_trans; [|exact Hp]. apply prefix_app.
Qed.

Lemma gstate_rest_final A gp ch :
  gstate_ok A gp false ch -> (forall gl, ast_leaked (A gl) = false) ->
  ast_final (A gp) = true /\ forallb node_stopped ch = true.
Proof.
  intros [[H _]|[[H Hc]|[H Hs]]] Hnl.
  - rewrite Hnl in H. discriminate.
  - specialize (H []). rewrite app_nil_r in H. rewrite H. split; auto. apply clean_all_stopped; auto.
  - split; auto. destruct (A gp); simpl in *; congruence.
Qed.

Lemma dispose_node_spec pl : forall n, dispose_spec (dispose_node pl) n.
Proof.
  induction n as [per st nx cs ce cp|st gs gt ch IH] using node_ind';
    intros gp i A c' ev Hsim Hrun; simpl in Hrun.
  - inversion Hrun; subst. rewrite after_nil. split; [reflexivity|]. split; [auto|]. split.
    + apply quiet_NoBad. exact Hsim.
    + intros _ _. split; auto. intro r. rewrite (Hsim r). reflexivity.
  - destruct Hsim as (Hst & Hsim & Hq & Hok). subst st. destruct gs.
    + destruct (stop_graph_with (stop_node pl) false (gp ++ [i]) true gt ch) as [[[[gs' gt'] ch'] ev'] f'] eqn:E.
      inversion Hrun; subst; clear Hrun.
      assert (Hspec : Forall (stop_spec (stop_node pl)) ch).
      { apply Forall_forall. intros c _. apply stop_node_spec. }
      destruct (stop_graph_spec _ _ _ _ _ _ _ _ _ _ _ _ Hspec Hsim Hq Hok E) as (G & -> & -> & L & S1 & Q1 & Ok1 & _).
      split; [eapply gloc_wloc; eauto|]. split; [intros gq Hgq; eapply gloc_outside; eauto|]. split.
      * apply (SimN_NoBad (Nest false false gt ch')). simpl. repeat split; auto.
      * intros _ H. discriminate H.
    + destruct (dispose_loop (fun q c => dispose_node pl q c) (gp ++ [i]) 0 ch) as [ch' ev'] eqn:E.
      inversion Hrun; subst; clear Hrun.
      assert (Hspec : Forall (dispose_spec (fun q c => dispose_node pl q c)) ch).
      { eapply Forall_impl; [|exact IH]. intros c Hc. exact Hc. }
      destruct (dispose_loop_spec _ _ _ _ _ _ _ Hspec Hsim E) as (W1 & F1 & B1 & C1).
      split; auto. split; [|split].
      * intros gq Hgq. apply F1. intros j _ Hp. apply Hgq. eapply prefix_trans; [|exact Hp]. apply prefix_app.
      * intro r. destruct (split_path_cases r) as [->|(j & s & ->)].
        -- rewrite app_nil_r. rewrite after_same.
           ++ assert (Hb : NoBad A (gp ++ [i])).
              { apply (SimN_NoBad (Nest false false gt ch)). simpl. repeat split; auto. }
              specialize (Hb []). rewrite app_nil_r in Hb. exact Hb.
           ++ apply F1. intros j _. apply not_prefix_child.
        -- rewrite <- app_snoc_region. destruct (lt_dec j (length ch)) as [Hj|Hj].
           ++ apply B1. lia.
           ++ rewrite after_same.
              ** rewrite (Hq j); [reflexivity|lia].
              ** apply F1. intros k Hk. apply child_region_other. lia.
      * intros Hnl _. destruct (gstate_rest_final _ _ _ Hok Hnl) as [Hf Hs].
        destruct (C1 Hnl Hs) as [-> Hfin]. split; auto.
        intro r. destruct (split_path_cases r) as [->|(j & s & ->)].
        -- rewrite app_nil_r. exact Hf.
        -- rewrite <- app_snoc_region. destruct (lt_dec j (length ch)) as [Hj|Hj].
           ++ apply Hfin. lia.
           ++ rewrite (Hq j); [reflexivity|lia].
Qed.

(* ------------------------------------------------------------------ the whole life of an executor *)
Definition Aof (L : list event) : path -> ast := after A0 L.

Lemma Aof_eq L gq : Aof L gq = arun AFresh (graph_word gq L).
Proof. reflexivity. Qed.

Lemma root_region (j : nat) (s : path) : ([] ++ [j]) ++ s = j :: s.
Proof. reflexivity. Qed.

Lemma SimW_NoBad A w : SimW A w -> w_gs w = false -> forall gq, ast_bad (A gq) = false.
Proof.
  intros (H1 & H2 & H3) Hgs gq. rewrite Hgs in H3.
  assert (Hb : NoBad A []).
  { apply (SimN_NoBad (Nest false false 0%Z (w_nodes w))). simpl. repeat split; auto. }
  apply (Hb gq).
Qed.

Lemma rest_final pl A w l' ev :
  SimW A w -> w_gs w = false -> (forall gl, ast_leaked (A gl) = false) ->
  dispose_loop (dispose_node pl) [] 0 (w_nodes w) = (l', ev) ->
  ev = [] /\ forall gq, ast_final (A gq) = true.
Proof.
  intros (H1 & H2 & H3) Hgs Hnl E. rewrite Hgs in H3.
  assert (Hspec : Forall (dispose_spec (dispose_node pl)) (w_nodes w)).
  { apply Forall_forall. intros c _. apply dispose_node_spec. }
  destruct (dispose_loop_spec _ _ _ _ _ _ _ Hspec H1 E) as (_ & _ & _ & C1).
  destruct (gstate_rest_final _ _ _ H3 Hnl) as [Hf Hs].
  destruct (C1 Hnl Hs) as [-> Hfin]. split; auto.
  intros [|j s]; [exact Hf|].
  destruct (lt_dec j (length (w_nodes w))) as [Hj|Hj].
  - rewrite <- root_region. apply Hfin. lia.
  - rewrite <- root_region. rewrite (H2 j); [reflexivity|lia].
Qed.

Lemma leaked_sticky m c w : ast_bad (arun (ALeaked m c) w) = false -> w = [].
Proof.
  destruct w as [|s w]; auto. simpl. intro H. exfalso.
  assert (Hb : forall w', arun ABad w' = ABad) by (induction w'; simpl; auto).
  destruct s; simpl in H; rewrite Hb in H; discriminate.
Qed.

Lemma release_spec pl A w w' ev :
  SimW A w -> release pl w = (w', ev) ->
  wloc ev /\ (forall gq, ast_bad (after A ev gq) = false) /\
  ((forall gl, ast_leaked (after A ev gl) = false) -> forall gq, ast_final (after A ev gq) = true) /\
  (w_gs w = false -> (forall gl, ast_leaked (A gl) = false) -> ev = [] /\ forall gq, ast_final (A gq) = true).
Proof.
  intros Hsim Hrun. unfold release in Hrun.
  destruct (stop_world pl w) as [[w1 ev1] f1] eqn:E1.
  destruct (dispose_loop (dispose_node pl) [] 0 (w_nodes w1)) as [ch ev2] eqn:E2.
  inversion Hrun; subst; clear Hrun.
  destruct (stop_world_spec _ _ _ _ _ _ Hsim E1) as (W1 & S1 & G1).
  assert (Hspec : Forall (dispose_spec (dispose_node pl)) (w_nodes w1)).
  { apply Forall_forall. intros c _. apply dispose_node_spec. }
  destruct S1 as (H1 & H2 & H3).
  destruct (dispose_loop_spec _ _ _ _ _ _ _ Hspec H1 E2) as (W2 & F2 & B2 & C2).
  assert (Hnb : forall gq, ast_bad (after A (ev1 ++ ev2) gq) = false).
  { intro gq. rewrite after_app. destruct gq as [|j s].
    - rewrite after_same; [apply (SimW_NoBad _ w1); auto; split; auto|]. apply F2.
      intros j _. apply (not_prefix_child [] j).
    - destruct (lt_dec j (length (w_nodes w1))) as [Hj|Hj].
      + rewrite <- root_region. apply B2. lia.
      + rewrite after_same.
        * rewrite <- root_region. rewrite (H2 j); [reflexivity|lia].
        * apply F2. intros k Hk. change (j :: s) with (([] ++ [j]) ++ s). apply child_region_other. lia. }
  split; [apply wloc_app; auto|]. split; [exact Hnb|]. split.
  - intros Hnl2.
    assert (Hnl : forall gl, ast_leaked (after A ev1 gl) = false).
    { intro gl. destruct (ast_leaked (after A ev1 gl)) eqn:El; auto.
      specialize (Hnl2 gl). rewrite after_app in Hnl2. unfold after at 1 in Hnl2.
      destruct (after A ev1 gl) eqn:Eg; try discriminate.
      pose proof (Hnb gl) as Hb. rewrite after_app in Hb. unfold after at 1 in Hb. rewrite Eg in Hb.
      apply leaked_sticky in Hb. rewrite Hb in Hnl2. simpl in Hnl2. discriminate. }
    destruct (rest_final pl _ w1 _ _ (conj H1 (conj H2 H3)) G1 Hnl E2) as [-> Hf].
    intro gq. rewrite app_nil_r. apply Hf.
  - intros Hgs Hnl.
    assert (Hev1 : ev1 = [] /\ w1 = w).
    { unfold stop_world in E1. unfold stop_graph_with in E1. rewrite Hgs in E1. inversion E1; subst.
      destruct w; simpl in *; subst; auto. }
    destruct Hev1 as [-> ->]. rewrite after_nil in *.
    destruct (rest_final pl A w _ _ Hsim Hgs Hnl E2) as [-> Hf]. split; auto.
Qed.

Definition fresh_world (w : world) : Prop := w_gs w = false /\ forallb clean (w_nodes w) = true.

Theorem life_facts pl sp cfg w ev1 f w1 ev2 w2 :
  fresh_world w ->
  life pl sp cfg w = (ev1, f, w1, ev2, w2) ->
  wloc (ev1 ++ ev2) /\
  (forall gq, ast_bad (Aof (ev1 ++ ev2) gq) = false) /\
  ((forall gl, ast_leaked (Aof (ev1 ++ ev2) gl) = false) -> forall gq, ast_final (Aof (ev1 ++ ev2) gq) = true) /\
  ((c_cleanup cfg = true \/ (forall fl i, f = Some fl -> f_note fl <> Some (i, PEval))) ->
   (forall gl, ast_leaked (Aof ev1 gl) = false) ->
   ev2 = [] /\ forall gq, ast_final (Aof ev1 gq) = true).
Proof.
  intros [Hgs Hcl] Hlife. unfold life in Hlife.
  destruct (run pl sp cfg w) as [[w1' ev1'] f'] eqn:E1.
  destruct (release pl w1') as [w2' ev2'] eqn:E2.
  inversion Hlife; subst; clear Hlife.
  destruct (run_spec _ _ _ _ _ _ _ Hgs Hcl E1) as (W1 & S1 & T1).
  destruct (release_spec _ _ _ _ _ S1 E2) as (W2 & B2 & C2 & R2).
  split; [apply wloc_app; auto|]. split; [|split].
  - intro gq. unfold Aof. rewrite after_app. apply B2.
  - intros Hnl gq. unfold Aof. rewrite after_app. apply C2. intro gl. specialize (Hnl gl).
    unfold Aof in Hnl. rewrite after_app in Hnl. exact Hnl.
  - intros Hc Hnl. apply R2; auto.
    destruct (w_gs w1) eqn:Eg; auto. destruct (T1 eq_refl) as (Hcu & fl & i & -> & Hn).
    destruct Hc as [Hc|Hc]; [congruence|]. exfalso. eapply Hc; eauto.
Qed.

(* ================================================================== what the automaton guarantees *)
Definition ekind_eqb (a b : ekind) : bool := (kind_code a =? kind_code b)%Z.

Lemma ekind_eqb_refl k : ekind_eqb k k = true.
Proof. unfold ekind_eqb. apply Z.eqb_refl. Qed.

(* indices of the nodes for which a given notification occurs in a graph's word, in order *)
Definition sel (k : ekind) (s : sym) : list nat :=
  match s with SN k' i => if ekind_eqb k' k then [i] else [] | SG _ => [] end.
Definition idxs (k : ekind) (w : list sym) : list nat := flat_map (sel k) w.

Lemma idxs_app k a b : idxs k (a ++ b) = idxs k a ++ idxs k b.
Proof. unfold idxs. apply flat_map_app. Qed.

Definition m_of (a : ast) : nat :=
  match a with
  | AFresh | ABad => 0
  | AStarting m | AInStart m _ | ARoll m _ | ARollIn m _ _ _ | ARollAborted m _ | AStarted m
  | ACycle m _ | AInEval m _ _ | AStopping m _ _ | AStopIn m _ _ _ _ | AStopFailed m | ADone m | ALeaked m _ => m
  end.

(* nodes c_of a .. m-1 have had their stop attempt *)
Definition c_of (a : ast) : nat :=
  match a with
  | AFresh | ABad => 0
  | AStarting m | AInStart m _ | AStarted m | ACycle m _ | AInEval m _ _ => m
  | ARoll _ c | ARollAborted _ c | AStopping _ c _ | ALeaked _ c => c
  | ARollIn _ c _ _ | AStopIn _ c _ _ _ => pred c
  | AStopFailed _ | ADone _ => 0
  end.

Definition aux_ok (a : ast) : Prop :=
  match a with
  | ARollIn _ c _ _ | AStopIn _ c _ _ _ => 0 < c
  | AInEval m i _ => i < m
  | _ => True
  end.

Definition AI (a : ast) (w : list sym) : Prop :=
  idxs ASN w = seq 0 (m_of a) /\ idxs BPN w = rev (seq (c_of a) (m_of a - c_of a)) /\
  c_of a <= m_of a /\ aux_ok a.

Lemma rev_seq_snoc c m : S c <= m -> rev (seq (S c) (m - S c)) ++ [c] = rev (seq c (m - c)).
Proof.
  intro H. replace (m - c) with (S (m - S c)) by lia. simpl. reflexivity.
Qed.

Lemma AI_step a s w : AI a w -> ast_bad (astep a s) = false -> AI (astep a s) (w ++ [s]).
Proof.
  unfold AI. intros (Ha & Hb & Hc & Hd) Hnb. rewrite !idxs_app.
  destruct a; destruct s as [k|k j]; destruct k; simpl in Hnb; try discriminate;
    repeat match goal with
      | H : context[match ?x with _ => _ end] |- _ =>
          first [is_var x; destruct x | match x with Nat.eqb ?i ?j => destruct (Nat.eqb_spec i j); subst end
                | destruct x eqn:?]; simpl in H; try discriminate
      end;
    simpl in *; rewrite ?app_nil_r, ?Nat.eqb_refl; simpl;
    repeat match goal with |- context[if ?b then _ else _] => destruct b eqn:?; simpl end;
    rewrite ?Ha, ?Hb, ?Nat.sub_diag, ?Nat.sub_0_r; simpl; rewrite ?app_nil_r;
    try (repeat split; auto; try lia; fail).
  - change (0 :: seq 1 m) with (seq 0 (S m)). rewrite seq_S. repeat split; auto.
  - change (0 :: seq 1 m) with (seq 0 (S m)). rewrite seq_S. repeat split; auto.
  - repeat split; auto; try lia. apply rev_seq_snoc. lia.
  - repeat split; auto; try lia. apply rev_seq_snoc. lia.
Qed.

Lemma arun_bad w : arun ABad w = ABad.
Proof. induction w; simpl; auto. Qed.

Lemma arun_snoc a w s : arun a (w ++ [s]) = astep (arun a w) s.
Proof. rewrite arun_app. reflexivity. Qed.

Lemma prefix_not_bad a w1 w2 : ast_bad (arun a (w1 ++ w2)) = false -> ast_bad (arun a w1) = false.
Proof.
  rewrite arun_app. destruct (arun a w1); auto. rewrite arun_bad. auto.
Qed.

Lemma AI_run w : ast_bad (arun AFresh w) = false -> AI (arun AFresh w) w.
Proof.
  induction w as [|s w IH] using rev_ind; intro H.
  - simpl. repeat split; auto.
  - rewrite arun_snoc in *. apply AI_step; auto. apply IH.
    destruct (arun AFresh w); auto.
Qed.

(* nodes start in evaluation order: the completed starts are 0,1,..,m-1 in this order;
   stops are attempted in the reverse order, from the last started node downwards *)
Lemma word_order w : ast_bad (arun AFresh w) = false ->
  exists m c, c <= m /\ idxs ASN w = seq 0 m /\ idxs BPN w = rev (seq c (m - c)).
Proof.
  intro H. destruct (AI_run w H) as (H1 & H2 & H3 & _). eauto.
Qed.

(* at rest after the end, the nodes whose start completed are exactly those stopped, once each *)
Lemma word_closed w : ast_final (arun AFresh w) = true ->
  exists m, idxs ASN w = seq 0 m /\ idxs BPN w = rev (seq 0 m).
Proof.
  intro H. assert (Hb : ast_bad (arun AFresh w) = false) by (destruct (arun AFresh w); auto; discriminate).
  destruct (AI_run w Hb) as (H1 & H2 & _). exists (m_of (arun AFresh w)).
  destruct (arun AFresh w); simpl in *; try discriminate; auto.
  rewrite Nat.sub_0_r in H2. auto.
Qed.

(* the states of a rollback, and of a stop pass, keep the number of started nodes *)
Definition rollfam (m : nat) (a : ast) : Prop :=
  match a with
  | ARoll m' _ | ARollIn m' _ _ _ | ARollAborted m' _ | ADone m' | ALeaked m' _ => m' = m
  | _ => False
  end.

Definition stopfam (m : nat) (a : ast) : Prop :=
  match a with
  | AStopping m' _ _ | AStopIn m' _ _ _ _ | AStopFailed m' | ADone m' => m' = m
  | _ => False
  end.

Ltac step_cases a s :=
  destruct a; destruct s as [k|k j]; destruct k; simpl in *; try contradiction; try discriminate;
  repeat match goal with
    | H : context[match ?x with _ => _ end] |- _ =>
        first [is_var x; destruct x | match x with Nat.eqb ?i ?j => destruct (Nat.eqb_spec i j); subst end
              | destruct x eqn:?]; simpl in H; try discriminate
    | |- context[match ?x with _ => _ end] =>
        first [is_var x; destruct x | match x with Nat.eqb ?i ?j => destruct (Nat.eqb_spec i j); subst end
              | destruct x eqn:?]; simpl; try discriminate
    end; auto.

Ltac crush_step H :=
  simpl in H; try discriminate;
  repeat match type of H with
    | context[match ?x with _ => _ end] =>
        first [is_var x; destruct x | match x with Nat.eqb ?i ?j => destruct (Nat.eqb_spec i j); subst end
              | destruct x eqn:?]; simpl in H; try discriminate
    end.

Lemma rollfam_step m a s : rollfam m a -> ast_bad (astep a s) = false -> rollfam m (astep a s).
Proof. intros H Hb. step_cases a s; simpl; auto. Qed.

Lemma stopfam_step m a s : stopfam m a -> ast_bad (astep a s) = false -> stopfam m (astep a s).
Proof. intros H Hb. step_cases a s; simpl; auto. Qed.

Lemma rollfam_run m : forall w a, rollfam m a -> ast_bad (arun a w) = false -> rollfam m (arun a w).
Proof.
  induction w as [|s w IH]; simpl; auto. intros a H Hb. apply IH; auto. apply rollfam_step; auto.
  destruct (astep a s); auto. rewrite arun_bad in Hb. discriminate.
Qed.

Lemma stopfam_run m : forall w a, stopfam m a -> ast_bad (arun a w) = false -> stopfam m (arun a w).
Proof.
  induction w as [|s w IH]; simpl; auto. intros a H Hb. apply IH; auto. apply stopfam_step; auto.
  destruct (astep a s); auto. rewrite arun_bad in Hb. discriminate.
Qed.

Lemma seq_app_nil m l : seq 0 m ++ l = seq 0 m -> l = [].
Proof. intro H. rewrite <- (app_nil_r (seq 0 m)) in H at 2. apply app_inv_head in H. auto. Qed.

(* a failed start: nothing was stopped before it; afterwards exactly the started prefix k-1..0 is
   stopped, in reverse (down to c; c = 0 unless a stop failed during the rollback) *)
Lemma word_failed_start w1 k w2 :
  ast_bad (arun AFresh (w1 ++ SN SNF k :: w2)) = false ->
  idxs ASN w1 = seq 0 k /\ idxs BPN w1 = [] /\ idxs ASN w2 = [] /\
  exists c, c <= k /\ idxs BPN w2 = rev (seq c (k - c)) /\
            (ast_final (arun AFresh (w1 ++ SN SNF k :: w2)) = true -> c = 0).
Proof.
  intro H. pose proof (prefix_not_bad _ _ _ H) as H1.
  pose proof (AI_run _ H1) as (A1 & B1 & _).
  assert (H2 : ast_bad (arun AFresh (w1 ++ [SN SNF k])) = false).
  { replace (w1 ++ SN SNF k :: w2) with ((w1 ++ [SN SNF k]) ++ w2) in H by (rewrite <- app_assoc; reflexivity).
    eapply prefix_not_bad; eauto. }
  rewrite arun_snoc in H2.
  assert (Ha : exists h, arun AFresh w1 = AInStart k h).
  { destruct (arun AFresh w1); crush_step H2; eauto. }
  destruct Ha as [h Ha]. rewrite Ha in *. simpl in A1, B1. rewrite Nat.sub_diag in B1. simpl in B1.
  assert (Hf : rollfam k (arun AFresh (w1 ++ SN SNF k :: w2))).
  { replace (w1 ++ SN SNF k :: w2) with ((w1 ++ [SN SNF k]) ++ w2) in * by (rewrite <- app_assoc; reflexivity).
    rewrite arun_app in *. apply rollfam_run; auto. rewrite arun_snoc, Ha. simpl. rewrite Nat.eqb_refl.
    destruct h; reflexivity. }
  pose proof (AI_run _ H) as (A2 & B2 & C2 & _).
  assert (Hm : m_of (arun AFresh (w1 ++ SN SNF k :: w2)) = k).
  { destruct (arun AFresh (w1 ++ SN SNF k :: w2)); simpl in Hf; try contradiction; auto. }
  rewrite Hm in *. rewrite idxs_app in A2, B2. simpl in A2, B2. rewrite A1 in A2. rewrite B1 in B2. simpl in B2.
  apply seq_app_nil in A2. repeat split; auto.
  exists (c_of (arun AFresh (w1 ++ SN SNF k :: w2))). repeat split; auto.
  intro Hfin. destruct (arun AFresh (w1 ++ SN SNF k :: w2)); simpl in *; try discriminate; try contradiction; auto.
Qed.

Lemma done_sticky m w : ast_bad (arun (ADone m) w) = false -> w = [].
Proof.
  destruct w as [|s w]; auto. simpl. intro H. exfalso.
  destruct s as [k|k j]; destruct k; simpl in H; rewrite arun_bad in H; discriminate.
Qed.

Lemma stop_pass_ends m : forall w a,
  stopfam m a -> In (SG APG) w -> ast_bad (arun a w) = false -> arun a w = ADone m.
Proof.
  induction w as [|s w IH]; intros a Hf Hin Hb; [destruct Hin|]. simpl in *.
  assert (Hs : ast_bad (astep a s) = false).
  { destruct (astep a s); auto. rewrite arun_bad in Hb. discriminate. }
  destruct Hin as [->|Hin].
  - assert (Hd : astep a (SG APG) = ADone m).
    { destruct a; simpl in Hf; try contradiction; crush_step Hs; subst; reflexivity. }
    rewrite Hd in *. apply done_sticky in Hb. subst. reflexivity.
  - apply IH; auto. apply stopfam_step; auto.
Qed.

(* a stop pass, once begun, attempts every started node m-1..0, however many of the stops fail *)
Lemma word_stop_pass w1 w2 :
  ast_bad (arun AFresh (w1 ++ SG BPG :: w2)) = false ->
  exists m, idxs ASN w1 = seq 0 m /\ idxs BPN w1 = [] /\
            (In (SG APG) w2 -> idxs BPN w2 = rev (seq 0 m)).
Proof.
  intro H. pose proof (prefix_not_bad _ _ _ H) as H1.
  pose proof (AI_run _ H1) as (A1 & B1 & _).
  assert (H2 : ast_bad (arun AFresh (w1 ++ [SG BPG])) = false).
  { replace (w1 ++ SG BPG :: w2) with ((w1 ++ [SG BPG]) ++ w2) in H by (rewrite <- app_assoc; reflexivity).
    eapply prefix_not_bad; eauto. }
  rewrite arun_snoc in H2.
  assert (Ha : exists m, arun AFresh w1 = AStarted m).
  { destruct (arun AFresh w1); crush_step H2; eauto. }
  destruct Ha as [m Ha]. rewrite Ha in *. simpl in A1, B1. rewrite Nat.sub_diag in B1. simpl in B1.
  exists m. repeat split; auto. intro Hin.
  replace (w1 ++ SG BPG :: w2) with ((w1 ++ [SG BPG]) ++ w2) in * by (rewrite <- app_assoc; reflexivity).
  assert (Hf : stopfam m (arun AFresh ((w1 ++ [SG BPG]) ++ w2))).
  { rewrite arun_app in *. apply stopfam_run; auto. rewrite arun_snoc, Ha. reflexivity. }
  pose proof (AI_run _ H) as (A2 & B2 & C2 & _).
  (* after "after stop graph" the automaton can only be in ADone *)
  assert (Hd : arun AFresh ((w1 ++ [SG BPG]) ++ w2) = ADone m).
  { rewrite arun_app in *. eapply stop_pass_ends; eauto. rewrite arun_snoc, Ha. reflexivity. }
  rewrite Hd in *. simpl in A2, B2. rewrite Nat.sub_0_r in B2.
  rewrite !idxs_app in B2. simpl in B2. rewrite B1 in B2. simpl in B2. exact B2.
Qed.

(* no evaluation outside the lifetime: when node i is evaluated (observer bracket or user code),
   its start has completed and no stop of it has been attempted *)
Lemma word_eval_in_lifetime w1 k i w2 :
  (k = BEN \/ k = HE) ->
  ast_bad (arun AFresh (w1 ++ SN k i :: w2)) = false ->
  In i (idxs ASN w1) /\ ~ In i (idxs BPN w1).
Proof.
  intros Hk H. pose proof (prefix_not_bad _ _ _ H) as H1.
  pose proof (AI_run _ H1) as (A1 & B1 & _ & X1).
  assert (H2 : ast_bad (arun AFresh (w1 ++ [SN k i])) = false).
  { replace (w1 ++ SN k i :: w2) with ((w1 ++ [SN k i]) ++ w2) in H by (rewrite <- app_assoc; reflexivity).
    eapply prefix_not_bad; eauto. }
  rewrite arun_snoc in H2.
  assert (Ha : exists m, m_of (arun AFresh w1) = m /\ c_of (arun AFresh w1) = m /\ i < m).
  { destruct Hk as [-> | ->]; destruct (arun AFresh w1) eqn:Ea; simpl in X1; crush_step H2.
    - exists m. repeat split; auto. apply Nat.ltb_lt. destruct (i <? m); auto.
      rewrite andb_false_r in Heqb. discriminate.
    - exists m. simpl. auto. }
  destruct Ha as (m & Hm & Hc & Hi). rewrite Hm, Hc in *. rewrite Nat.sub_diag in B1. simpl in B1.
  rewrite A1, B1. split; [apply in_seq; lia|auto].
Qed.

(* ================================================================== the executable acceptor *)
Lemma existsb_path_in p l : existsb (path_eqb p) l = true <-> In p l.
Proof.
  rewrite existsb_exists. split.
  - intros (x & Hx & He). apply path_eqb_eq in He. subst; auto.
  - intro H. exists p. split; auto. apply path_eqb_refl.
Qed.

Lemma nodup_paths_in p l : In p (nodup_paths l) <-> In p l.
Proof.
  induction l as [|x r IH]; simpl; [tauto|].
  destruct (existsb (path_eqb x) r) eqn:E.
  - rewrite IH. apply existsb_path_in in E. split; auto. intros [->|H]; auto.
  - simpl. rewrite IH. tauto.
Qed.

Lemma graph_word_no_owner gq L : ~ In gq (map owner L) -> graph_word gq L = [].
Proof.
  unfold graph_word. induction L as [|e L IH]; simpl; auto. intro H.
  destruct (path_eqb (owner e) gq) eqn:E.
  - apply path_eqb_eq in E. exfalso. apply H. auto.
  - rewrite andb_false_r. apply IH. tauto.
Qed.

(* declarative reading of the acceptor: every event is addressed to a graph, and the word of
   EVERY graph path is a prefix of a lifecycle / a complete lifecycle *)
Definition LogWf (L : list event) : Prop :=
  (forall e, In e L -> well_addressed e = true) /\ forall gq, ast_bad (Aof L gq) = false.
Definition LogClosed (L : list event) : Prop := forall gq, ast_final (Aof L gq) = true.

Lemma log_wf_iff L : log_wf L = true <-> LogWf L.
Proof.
  unfold log_wf, LogWf. rewrite andb_true_iff, !forallb_forall. split.
  - intros [H1 H2]. split; auto. intro gq. rewrite Aof_eq.
    destruct (in_dec (list_eq_dec Nat.eq_dec) gq (map owner L)) as [Hin|Hn].
    + apply negb_true_iff. apply H2. unfold owners. apply nodup_paths_in. auto.
    + rewrite graph_word_no_owner; auto.
  - intros [H1 H2]. split; auto. intros gq _. apply negb_true_iff. apply H2.
Qed.

Lemma log_closed_iff L : log_closed L = true <-> LogClosed L.
Proof.
  unfold log_closed, LogClosed. rewrite forallb_forall. split.
  - intros H gq. rewrite Aof_eq.
    destruct (in_dec (list_eq_dec Nat.eq_dec) gq (map owner L)) as [Hin|Hn].
    + apply H. unfold owners. apply nodup_paths_in. auto.
    + rewrite graph_word_no_owner; auto.
  - intros H gq _. apply H.
Qed.

Lemma lifecycle_ok_iff L : lifecycle_ok L = true <-> LogWf L /\ LogClosed L.
Proof. unfold lifecycle_ok. rewrite andb_true_iff, log_wf_iff, log_closed_iff. tauto. Qed.

(* ================================================================== when nothing can leak *)
(* which notification kinds an operation can emit *)
Definition emits (K : ekind -> bool) (ev : list event) : Prop := forallb (fun e => K (e_kind e)) ev = true.

Lemma emits_nil K : emits K [].
Proof. reflexivity. Qed.
Lemma emits_app K a b : emits K a -> emits K b -> emits K (a ++ b).
Proof. unfold emits. intros Ha Hb. rewrite forallb_app, Ha, Hb. reflexivity. Qed.
Lemma emits_one K k t p n : K k = true -> emits K [Ev k t p n].
Proof. unfold emits. simpl. intros ->. reflexivity. Qed.
Lemma emits_opt {X} K (o : option X) k t p n : (o <> None -> K k = true) -> emits K (opt_ev o (Ev k t p n)).
Proof. destruct o; simpl; intro H; [apply emits_one; apply H; discriminate|apply emits_nil]. Qed.
Lemma emits_weaken (K K' : ekind -> bool) ev : (forall k, K k = true -> K' k = true) -> emits K ev -> emits K' ev.
Proof. unfold emits. intros H. apply forallb_impl. intros e. apply H. Qed.

Definition KS0 (k : ekind) : bool := match k with BPG | APG | BPN | APN | HP => true | _ => false end.
Definition KS (k : ekind) : bool := match k with BPG | APG | PGF | BPN | APN | PNF | HP => true | _ => false end.
Definition KE (k : ekind) : bool := match k with BGE | AGE | BEN | AEN | HE => true | _ => false end.
Definition KT0 (k : ekind) : bool := match k with BSG | ASG | BSN | ASN | HS => true | _ => false end.
Definition KTA (k : ekind) : bool :=
  match k with BSG | ASG | SGF | BSN | ASN | SNF | HS | BPN | APN | HP => true | _ => false end.
Definition KTS (k : ekind) : bool := KT0 k || KS k.

Definition no_stop_faults (pl : plan) : Prop := forall p k, pl p PStop k = false.
Definition no_start_faults (pl : plan) : Prop := forall p k, pl p PStart k = false.

Lemma emits_cons K e l : K (e_kind e) = true -> emits K l -> emits K (e :: l).
Proof. unfold emits. simpl. intros -> ->. reflexivity. Qed.

Ltac emk := repeat first [ apply emits_nil | assumption | apply emits_cons; [solve [auto]|]
                         | apply emits_app | apply emits_one; solve [auto] ].

Ltac em := repeat first [apply emits_nil | apply emits_app | (apply emits_one; reflexivity)
                         | (apply emits_opt; intro; try reflexivity; try congruence)].

(* stop: generic in the kind set K that the per-node operation respects *)
Lemma stop_loop_emits stop1 root gp t K (strict : bool) :
  K BPN = true -> K APN = true -> (strict = false -> K PNF = true) ->
  forall l i l' ev f,
  Forall (fun c => forall p u c' e g, stop1 p u c = (c', e, g) -> emits K e /\ (strict = true -> g = None)) l ->
  stop_loop stop1 root gp t i l = (l', ev, f) -> emits K ev /\ (strict = true -> f = None).
Proof.
  intros K1 K2 K3. induction l as [|c r IH]; intros i l' ev f Hs Hrun; simpl in Hrun.
  - inversion Hrun; subst. split; auto. apply emits_nil.
  - inversion Hs as [|? ? Hc Hr]; subst.
    destruct (stop_loop stop1 root gp t (S i) r) as [[r' ev1] f1] eqn:E1.
    destruct (stop1 (gp ++ [i]) t c) as [[c' ev2] f2] eqn:E2.
    inversion Hrun; subst; clear Hrun.
    destruct (IH _ _ _ _ Hr E1) as [M1 N1]. destruct (Hc _ _ _ _ _ E2) as [M2 N2].
    split.
    + emk. apply emits_opt. intro Hne.
      destruct strict; [rewrite N2 in Hne; auto; congruence|auto].
    + intro Hst. rewrite N1, N2; auto.
Qed.

Lemma stop_node_emits pl K (strict : bool) :
  K BPN = true -> K APN = true -> K BPG = true -> K APG = true -> K HP = true ->
  (strict = false -> K PNF = true /\ K PGF = true) -> (strict = true -> no_stop_faults pl) ->
  forall n p t c' ev f, stop_node pl p t n = (c', ev, f) -> emits K ev /\ (strict = true -> f = None).
Proof.
  intros K1 K2 K3 K4 K5 K6 Hns.
  induction n as [per st nx cs ce cp|st gs gt ch IH] using node_ind'; intros p t c' ev f Hrun; simpl in Hrun.
  - destruct st; inversion Hrun; subst; clear Hrun.
    + split; [apply emits_one; auto|]. intro Hs. rewrite (Hns Hs). reflexivity.
    + split; auto. apply emits_nil.
  - destruct st; [|inversion Hrun; subst; split; auto; apply emits_nil].
    unfold stop_graph_with in Hrun. destruct gs.
    + destruct (stop_loop (fun q u c => stop_node pl q u c) false p gt 0 ch) as [[l' ev1] f1] eqn:E1.
      inversion Hrun; subst; clear Hrun.
      assert (Hs : Forall (fun c => forall p u c' e g, stop_node pl p u c = (c', e, g) -> emits K e /\ (strict = true -> g = None)) ch).
      { eapply Forall_impl; [|exact IH]. intros c Hc. exact Hc. }
      destruct (stop_loop_emits _ false p gt K strict K1 K2 (fun H => proj1 (K6 H)) _ _ _ _ _ Hs E1) as [M1 N1].
      split; auto. emk. apply emits_opt. intro Hne.
      destruct strict; [rewrite N1 in Hne; auto; congruence|apply K6; auto].
    + inversion Hrun; subst. split; auto. apply emits_nil.
Qed.

Lemma eval_loop_emits eval1 due1 root gp t : forall l i l' ev f,
  Forall (fun c => forall p u c' e g, eval1 p u c = (c', e, g) -> emits KE e) l ->
  eval_loop eval1 due1 root gp t i l = (l', ev, f) -> emits KE ev.
Proof.
  induction l as [|c r IH]; intros i l' ev f Hs Hrun; simpl in Hrun.
  - inversion Hrun; subst. apply emits_nil.
  - inversion Hs as [|? ? Hc Hr]; subst. destruct (due1 t c).
    + destruct (eval1 (gp ++ [i]) t c) as [[c1 ev1] f1] eqn:E1. pose proof (Hc _ _ _ _ _ E1) as M1.
      destruct f1.
      * inversion Hrun; subst. emk.
      * destruct (eval_loop eval1 due1 root gp t (S i) r) as [[r' ev2] f2] eqn:E2.
        inversion Hrun; subst. pose proof (IH _ _ _ _ Hr E2). emk.
    + destruct (eval_loop eval1 due1 root gp t (S i) r) as [[r' ev2] f2] eqn:E2.
      inversion Hrun; subst. eapply IH; eauto.
Qed.

Lemma eval_node_emits pl : forall n p t c' ev f, eval_node pl p t n = (c', ev, f) -> emits KE ev.
Proof.
  induction n as [per st nx cs ce cp|st gs gt ch IH] using node_ind'; intros p t c' ev f Hrun; simpl in Hrun.
  - destruct st; [destruct (pl p PEval ce)|]; inversion Hrun; subst; emk.
  - destruct st; [|inversion Hrun; subst; emk].
    unfold eval_graph_with in Hrun. destruct gs; [|inversion Hrun; subst; emk].
    destruct (eval_loop (fun q u c => eval_node pl q u c) due false p t 0 ch) as [[l' ev1] f1] eqn:E1.
    assert (M : emits KE ev1).
    { eapply eval_loop_emits; [|exact E1]. eapply Forall_impl; [|exact IH]. intros c Hc. exact Hc. }
    inversion Hrun; subst. emk.
Qed.

(* start: K must contain the start kinds; failing starts need SNF/SGF and the rollback's kinds *)
Lemma start_loop_emits start1 stop1 root gp t K (strict : bool) :
  K BSN = true -> K ASN = true ->
  (strict = false -> K SNF = true /\ K BPN = true /\ K APN = true /\ (forall c p u c' e g, stop1 p u c = (c', e, g) -> emits K e /\ (g <> None -> K PNF = true))) ->
  forall l i l' ev f,
  Forall (fun c => forall p u c' e g, start1 p u c = (c', e, g) -> emits K e /\ (strict = true -> g = None)) l ->
  start_loop start1 stop1 root gp t i l = (l', ev, f) -> emits K ev /\ (strict = true -> f = None).
Proof.
  intros K1 K2 K3. induction l as [|c r IH]; intros i l' ev f Hs Hrun; simpl in Hrun.
  - inversion Hrun; subst. split; auto. apply emits_nil.
  - inversion Hs as [|? ? Hc Hr]; subst.
    destruct (start1 (gp ++ [i]) t c) as [[c1 ev1] f1] eqn:E1. destruct (Hc _ _ _ _ _ E1) as [M1 N1].
    destruct f1 as [f1|].
    + inversion Hrun; subst; clear Hrun. destruct strict; [discriminate (N1 eq_refl)|].
      destruct (K3 eq_refl) as (K4 & _). split; [|discriminate]. emk.
    + destruct (start_loop start1 stop1 root gp t (S i) r) as [[r' ev2] f2] eqn:E2.
      destruct (IH _ _ _ _ Hr E2) as [M2 N2].
      destruct f2 as [[f2 ab]|].
      * destruct strict; [discriminate (N2 eq_refl)|]. destruct (K3 eq_refl) as (K4 & K5 & K6 & K7).
        destruct ab.
        -- inversion Hrun; subst. split; [emk|discriminate].
        -- destruct (stop1 (gp ++ [i]) t c1) as [[c2 ev3] f3] eqn:E3. destruct (K7 _ _ _ _ _ _ E3) as [M3 N3].
           inversion Hrun; subst. split; [|discriminate]. emk. apply emits_opt. exact N3.
      * inversion Hrun; subst. split; [emk|auto].
Qed.

Lemma start_graph_emits start1 stop1 root gp gs gt ch t K (strict : bool) gs' gt' ch' ev f :
  K BSN = true -> K ASN = true -> K BSG = true -> K ASG = true ->
  (strict = false -> K SGF = true /\ K SNF = true /\ K BPN = true /\ K APN = true /\
                     (forall c p u c' e g, stop1 p u c = (c', e, g) -> emits K e /\ (g <> None -> K PNF = true))) ->
  Forall (fun c => forall p u c' e g, start1 p u c = (c', e, g) -> emits K e /\ (strict = true -> g = None)) ch ->
  start_graph_with start1 stop1 root gp gs gt ch t = (gs', gt', ch', ev, f) ->
  emits K ev /\ (strict = true -> f = None).
Proof.
  intros K1 K2 K3 K4 K5 Hs Hrun. unfold start_graph_with in Hrun.
  destruct gs; [inversion Hrun; subst; split; auto; apply emits_nil|].
  destruct (start_loop start1 stop1 root gp t 0 ch) as [[l' ev1] fr] eqn:E1.
  assert (K5' : strict = false -> K SNF = true /\ K BPN = true /\ K APN = true /\
                (forall c p u c' e g, stop1 p u c = (c', e, g) -> emits K e /\ (g <> None -> K PNF = true))).
  { intro H. destruct (K5 H) as (_ & H1 & H2 & H3 & H4). auto. }
  destruct (start_loop_emits _ _ root gp t K strict K1 K2 K5' _ _ _ _ _ Hs E1) as [M1 N1].
  destruct fr as [[f0 ab]|]; inversion Hrun; subst.
  - destruct strict; [discriminate (N1 eq_refl)|]. destruct (K5 eq_refl) as (K6 & _).
    split; [emk|discriminate].
  - split; [emk|auto].
Qed.

Lemma start_node_emits pl K (strict : bool) :
  K BSN = true -> K ASN = true -> K BSG = true -> K ASG = true -> K HS = true ->
  (strict = true -> no_start_faults pl) ->
  (strict = false -> K SGF = true /\ K SNF = true /\ K BPN = true /\ K APN = true /\
                     (forall c p u c' e g, stop_node pl p u c = (c', e, g) -> emits K e /\ (g <> None -> K PNF = true))) ->
  forall n p t c' ev f, start_node pl p t n = (c', ev, f) -> emits K ev /\ (strict = true -> f = None).
Proof.
  intros K1 K2 K3 K4 K5 Hns K6.
  induction n as [per st nx cs ce cp|st gs gt ch IH] using node_ind'; intros p t c' ev f Hrun; simpl in Hrun.
  - destruct st; [inversion Hrun; subst; split; auto; apply emits_nil|].
    destruct (pl p PStart cs) eqn:Ep; inversion Hrun; subst; clear Hrun.
    + split; [emk|]. intro Hs. rewrite (Hns Hs) in Ep. discriminate.
    + split; [emk|auto].
  - destruct st; [inversion Hrun; subst; split; auto; apply emits_nil|].
    destruct (start_graph_with (fun q u c => start_node pl q u c) (stop_node pl) false p gs gt ch t)
      as [[[[gs' gt'] ch'] ev'] f'] eqn:E.
    inversion Hrun; subst; clear Hrun.
    eapply start_graph_emits; try exact E; auto.
Qed.

Lemma dispose_loop_emits dispose1 gp K : forall l i l' ev,
  Forall (fun c => forall p c' e, dispose1 p c = (c', e) -> emits K e) l ->
  dispose_loop dispose1 gp i l = (l', ev) -> emits K ev.
Proof.
  induction l as [|c r IH]; intros i l' ev Hs Hrun; simpl in Hrun.
  - inversion Hrun; subst. apply emits_nil.
  - inversion Hs as [|? ? Hc Hr]; subst.
    destruct (dispose_loop dispose1 gp (S i) r) as [r' ev1] eqn:E1.
    destruct (dispose1 (gp ++ [i]) c) as [c' ev2] eqn:E2.
    inversion Hrun; subst. pose proof (IH _ _ _ Hr E1). pose proof (Hc _ _ _ E2). emk.
Qed.

Lemma dispose_node_emits pl K :
  (forall n p u c' e g, stop_node pl p u n = (c', e, g) -> emits K e) ->
  K BPG = true -> K APG = true -> K BPN = true -> K APN = true -> (K PNF = true /\ K PGF = true \/ no_stop_faults pl) ->
  forall n p c' ev, dispose_node pl p n = (c', ev) -> emits K ev.
Proof.
  intros Hstop K1 K2 K3 K4 K5.
  induction n as [per st nx cs ce cp|st gs gt ch IH] using node_ind'; intros p c' ev Hrun; simpl in Hrun.
  - inversion Hrun; subst. apply emits_nil.
  - destruct gs.
    + destruct (stop_graph_with (stop_node pl) false p true gt ch) as [[[[gs' gt'] ch'] ev'] f'] eqn:E.
      inversion Hrun; subst; clear Hrun.
      (* a stop of the child graph = the stop of a started nested node *)
      assert (Hn : stop_node pl p 0%Z (Nest true true gt ch) = (Nest false gs' gt' ch', ev, f')).
      { cbn [stop_node]. change (fun q u c => stop_node pl q u c) with (stop_node pl). rewrite E. reflexivity. }
      eapply Hstop; eauto.
    + destruct (dispose_loop (fun q c => dispose_node pl q c) p 0 ch) as [ch' ev'] eqn:E.
      inversion Hrun; subst. eapply dispose_loop_emits; [|exact E].
      eapply Forall_impl; [|exact IH]. intros c Hc. exact Hc.
Qed.

Definition allbut (K : ekind -> bool) : Prop :=
  forall k, k <> SNF -> k <> PNF -> K k = true.

Section LifeEmits.
  Variable pl : plan.
  Variable K : ekind -> bool.
  Hypothesis Kall : allbut K.
  Hypothesis HnoT : K SNF = false -> no_start_faults pl.
  Hypothesis HnoP : K PNF = false -> no_stop_faults pl.

  Lemma Kk k : k <> SNF -> k <> PNF -> K k = true.
  Proof. apply Kall. Qed.

  Lemma stop_node_K : forall n p u c' e g, stop_node pl p u n = (c', e, g) -> emits K e /\ (g <> None -> K PNF = true).
  Proof.
    intros n p u c' e g H.
    assert (K6 : negb (K PNF) = false -> K PNF = true /\ K PGF = true).
    { intro Hs. apply negb_false_iff in Hs. split; auto. apply Kk; discriminate. }
    assert (K7 : negb (K PNF) = true -> no_stop_faults pl).
    { intro Hs. apply negb_true_iff in Hs. auto. }
    destruct (stop_node_emits pl K (negb (K PNF)) (Kk BPN ltac:(discriminate) ltac:(discriminate))
                (Kk APN ltac:(discriminate) ltac:(discriminate)) (Kk BPG ltac:(discriminate) ltac:(discriminate))
                (Kk APG ltac:(discriminate) ltac:(discriminate)) (Kk HP ltac:(discriminate) ltac:(discriminate))
                K6 K7 n p u c' e g H) as [M N].
    split; auto. intro Hne. destruct (K PNF) eqn:E; auto; exfalso; apply Hne; apply N; reflexivity.
  Qed.

  Lemma start_node_K : forall n p u c' e g, start_node pl p u n = (c', e, g) -> emits K e.
  Proof.
    intros n p u c' e g H.
    assert (K6 : negb (K SNF) = true -> no_start_faults pl).
    { intro Hs. apply negb_true_iff in Hs. auto. }
    assert (K7 : negb (K SNF) = false -> K SGF = true /\ K SNF = true /\ K BPN = true /\ K APN = true /\
                 (forall c p u c' e g, stop_node pl p u c = (c', e, g) -> emits K e /\ (g <> None -> K PNF = true))).
    { intro Hs. apply negb_false_iff in Hs. split; [apply Kk; discriminate|]. split; auto.
      split; [apply Kk; discriminate|]. split; [apply Kk; discriminate|]. apply stop_node_K. }
    destruct (start_node_emits pl K (negb (K SNF)) (Kk BSN ltac:(discriminate) ltac:(discriminate))
                (Kk ASN ltac:(discriminate) ltac:(discriminate)) (Kk BSG ltac:(discriminate) ltac:(discriminate))
                (Kk ASG ltac:(discriminate) ltac:(discriminate)) (Kk HS ltac:(discriminate) ltac:(discriminate))
                K6 K7 n p u c' e g H) as [M N].
    exact M.
  Qed.

  Lemma eval_node_K : forall n p u c' e g, eval_node pl p u n = (c', e, g) -> emits K e.
  Proof.
    intros. eapply emits_weaken; [|eapply eval_node_emits; eauto].
    intros k Hk. apply Kk; destruct k; simpl in Hk; discriminate.
  Qed.

  Lemma stop_world_K w w' ev f : stop_world pl w = (w', ev, f) -> emits K ev.
  Proof.
    unfold stop_world. intro H.
    destruct (stop_graph_with (stop_node pl) true [] (w_gs w) (w_gt w) (w_nodes w)) as [[[[gs gt] ch] ev'] f'] eqn:E.
    inversion H; subst; clear H. unfold stop_graph_with in E. destruct (w_gs w); [|inversion E; subst; apply emits_nil].
    destruct (stop_loop (stop_node pl) true [] (w_gt w) 0 (w_nodes w)) as [[l' ev1] f1] eqn:E1.
    assert (MN : emits K ev1 /\ (negb (K PNF) = true -> f1 = None)).
    { eapply (stop_loop_emits (stop_node pl) true [] (w_gt w) K (negb (K PNF))); [| | | |exact E1];
        try (apply Kk; discriminate).
      - intro Hs. apply negb_false_iff in Hs. auto.
      - apply Forall_forall. intros c _ p u c' e g Hc. destruct (stop_node_K _ _ _ _ _ _ Hc) as [Me Ne].
        split; auto. intro Hs. apply negb_true_iff in Hs. destruct g; auto. rewrite Ne in Hs; discriminate. }
    destruct MN as [M N]. inversion E; subst; clear E.
    assert (K BPG = true) by (apply Kk; discriminate). assert (K APG = true) by (apply Kk; discriminate).
    emk. apply emits_opt. intro Hne. apply Kk; discriminate.
  Qed.

  Lemma cycles_K sp e : forall fuel lo w w' ev f, cycles pl sp e fuel lo w = (w', ev, f) -> emits K ev.
  Proof.
    induction fuel as [|fuel IH]; intros lo w w' ev f H; simpl in H; [inversion H; apply emits_nil|].
    destruct (min_next_list lo (w_nodes w)); [|inversion H; apply emits_nil].
    destruct (e <=? z)%Z; [inversion H; apply emits_nil|].
    destruct (eval_graph_with (eval_node pl) due true [] (w_gs w) (w_gt w) (w_nodes w) z) as [[[[gs gt] ch] ev1] f1] eqn:E.
    assert (M1 : emits K ev1).
    { unfold eval_graph_with in E. destruct (w_gs w); [|inversion E; apply emits_nil].
      destruct (eval_loop (eval_node pl) due true [] z 0 (w_nodes w)) as [[l' ev0] f0] eqn:E0.
      inversion E; subst.
      assert (emits KE ev0).
      { eapply eval_loop_emits; [|exact E0]. apply Forall_forall. intros c _ p u c' e0 g Hc. eapply eval_node_emits; eauto. }
      assert (emits K ev0) by (eapply emits_weaken; [|eauto]; intros k Hk; apply Kk; destruct k; simpl in Hk; discriminate).
      assert (K BGE = true) by (apply Kk; discriminate). assert (K AGE = true) by (apply Kk; discriminate). emk. }
    destruct f1; [inversion H; subst; auto|].
    destruct (stop_requested sp ev1); [inversion H; subst; auto|].
    destruct (cycles pl sp e fuel (z + 1)%Z (W gs gt ch)) as [[w2 ev2] f2] eqn:E2.
    inversion H; subst. apply emits_app; auto. eapply IH; eauto.
  Qed.

  Lemma life_K sp cfg w : emits K (full_log pl sp cfg w).
  Proof.
    unfold full_log, life. destruct (run pl sp cfg w) as [[w1 ev1] f] eqn:E1.
    destruct (release pl w1) as [w2 ev2] eqn:E2.
    apply emits_app.
    - unfold run in E1. destruct (c_end cfg <=? c_start cfg)%Z; [inversion E1; apply emits_nil|].
      destruct (start_graph_with (start_node pl) (stop_node pl) true [] (w_gs w) (w_gt w) (w_nodes w) (c_start cfg))
        as [[[[gs gt] ch] ev0] f0] eqn:E0.
      assert (M0 : emits K ev0).
      { destruct (start_graph_emits (start_node pl) (stop_node pl) true [] (w_gs w) (w_gt w) (w_nodes w) (c_start cfg) K (negb (K SNF)) gs gt ch ev0 f0)
          as [M N]; auto; try (apply Kk; discriminate).
        - intro Hs. apply negb_false_iff in Hs. split; [apply Kk; discriminate|]. split; auto.
          split; [apply Kk; discriminate|]. split; [apply Kk; discriminate|]. intros c. apply stop_node_K.
        - apply Forall_forall. intros c _ p u c' e g Hc. split; [eapply start_node_K; eauto|].
          intro Hs. apply negb_true_iff in Hs.
          destruct (start_node_emits pl K true) with (n := c) (p := p) (t := u) (c' := c') (ev := e) (f := g) as [_ N];
            auto; try (apply Kk; discriminate). intro X; discriminate X. }
      destruct f0; [inversion E1; subst; auto|].
      destruct (cycles pl sp (c_end cfg) (c_fuel cfg) (c_start cfg) (W gs gt ch)) as [[w1' ev1'] f1] eqn:Ec.
      pose proof (cycles_K _ _ _ _ _ _ _ _ Ec) as Mc.
      destruct f1.
      + destruct (c_cleanup cfg).
        * destruct (stop_world pl w1') as [[w2' ev2'] f2] eqn:Es. inversion E1; subst.
          pose proof (stop_world_K _ _ _ _ Es). emk.
        * inversion E1; subst. emk.
      + destruct (stop_world pl w1') as [[w2' ev2'] f2] eqn:Es. inversion E1; subst.
        pose proof (stop_world_K _ _ _ _ Es). emk.
    - unfold release in E2. destruct (stop_world pl w1) as [[w1' ev1'] f1] eqn:Es.
      destruct (dispose_loop (dispose_node pl) [] 0 (w_nodes w1')) as [ch ev3] eqn:Ed.
      inversion E2; subst. pose proof (stop_world_K _ _ _ _ Es). apply emits_app; auto.
      eapply dispose_loop_emits; [|exact Ed]. apply Forall_forall. intros c _ p c' e Hc.
      eapply dispose_node_emits; [| | | | | |exact Hc]; try (apply Kk; discriminate).
      + intros n q u c0 e0 g Hs. eapply stop_node_K; eauto.
      + destruct (K PNF) eqn:E; [left; split; auto; apply Kk; discriminate|right; auto].
  Qed.
End LifeEmits.

(* symbols of a graph word come from events of that kind *)
Lemma graph_word_kind gq L k i : In (SN k i) (graph_word gq L) -> exists e, In e L /\ e_kind e = k.
Proof.
  unfold graph_word. rewrite in_map_iff. intros (e & He & Hin). apply filter_In in Hin as [Hin _].
  exists e. split; auto. unfold sym_of in He. destruct (is_graph_kind (e_kind e)); inversion He; auto.
Qed.

Lemma emits_not_kind K L k : emits K L -> K k = false -> forall e, In e L -> e_kind e <> k.
Proof.
  unfold emits. rewrite forallb_forall. intros H Hk e He Heq. specialize (H e He). rewrite Heq in H. congruence.
Qed.

(* the automaton can reach a leaked state only through "stop node failed" and through
   "start node failed" *)
Definition leakpath (a : ast) : bool :=
  match a with ARollIn _ _ _ true | ARollAborted _ _ | ALeaked _ _ => true | _ => false end.
Definition rollpath (a : ast) : bool :=
  match a with ARoll _ _ | ARollIn _ _ _ _ | ARollAborted _ _ | ALeaked _ _ => true | _ => false end.

Lemma leakpath_step a s : leakpath a = false -> (forall i, s <> SN PNF i) -> leakpath (astep a s) = false.
Proof.
  intros H Hs. destruct a; destruct s as [k|k j]; destruct k; simpl in *; try discriminate; auto;
    try (exfalso; eapply Hs; reflexivity);
    repeat match goal with |- context[match ?x with _ => _ end] => destruct x; simpl; auto end.
Qed.

Lemma rollpath_step a s : rollpath a = false -> (forall i, s <> SN SNF i) -> rollpath (astep a s) = false.
Proof.
  intros H Hs. destruct a; destruct s as [k|k j]; destruct k; simpl in *; try discriminate; auto;
    try (exfalso; eapply Hs; reflexivity);
    repeat match goal with |- context[match ?x with _ => _ end] => destruct x; simpl; auto end.
Qed.

Lemma no_pnf_no_leak : forall w a, leakpath a = false -> (forall i, ~ In (SN PNF i) w) -> leakpath (arun a w) = false.
Proof.
  induction w as [|s w IH]; simpl; auto. intros a Ha Hw. apply IH.
  - apply leakpath_step; auto. intros i ->. apply (Hw i). auto.
  - intros i Hi. apply (Hw i). auto.
Qed.

Lemma no_snf_no_leak : forall w a, rollpath a = false -> (forall i, ~ In (SN SNF i) w) -> rollpath (arun a w) = false.
Proof.
  induction w as [|s w IH]; simpl; auto. intros a Ha Hw. apply IH.
  - apply rollpath_step; auto. intros i ->. apply (Hw i). auto.
  - intros i Hi. apply (Hw i). auto.
Qed.

Definition KnoPNF (k : ekind) : bool := match k with PNF => false | _ => true end.
Definition KnoSNF (k : ekind) : bool := match k with SNF => false | _ => true end.

Theorem never_leaks pl sp cfg w :
  no_stop_faults pl \/ no_start_faults pl ->
  forall gl, ast_leaked (Aof (full_log pl sp cfg w) gl) = false.
Proof.
  intros [H|H] gl; rewrite Aof_eq.
  - assert (E : emits KnoPNF (full_log pl sp cfg w)).
    { apply life_K; auto; [intros k H1 H2; destruct k; auto; congruence|intro X; discriminate X]. }
    assert (L : leakpath (arun AFresh (graph_word gl (full_log pl sp cfg w))) = false).
    { apply no_pnf_no_leak; auto. intros i Hi. apply graph_word_kind in Hi as (e & He & Hk).
      eapply emits_not_kind in He; eauto; reflexivity. }
    destruct (arun AFresh _); simpl in *; auto; discriminate.
  - assert (E : emits KnoSNF (full_log pl sp cfg w)).
    { apply life_K; auto; [intros k H1 H2; destruct k; auto; congruence|intro X; discriminate X]. }
    assert (L : rollpath (arun AFresh (graph_word gl (full_log pl sp cfg w))) = false).
    { apply no_snf_no_leak; auto. intros i Hi. apply graph_word_kind in Hi as (e & He & Hk).
      eapply emits_not_kind in He; eauto; reflexivity. }
    destruct (arun AFresh _); simpl in *; auto; discriminate.
Qed.

(* ================================================================== the error that reaches the caller *)
Definition hook_phase (k : ekind) : option phase :=
  match k with HS => Some PStart | HE => Some PEval | HP => Some PStop | _ => None end.

(* the user hook entered by this event throws *)
Definition is_fired (pl : plan) (e : event) : bool :=
  match hook_phase (e_kind e) with Some ph => pl (e_path e) ph (e_k e) | None => false end.

Definition fired (pl : plan) (ev : list event) : list event := filter (is_fired pl) ev.

Lemma fired_app pl a b : fired pl (a ++ b) = fired pl a ++ fired pl b.
Proof. apply filter_app. Qed.

Lemma fired_obs pl k t p n : hook_phase k = None -> fired pl [Ev k t p n] = [].
Proof. unfold fired, is_fired. simpl. intros ->. reflexivity. Qed.

Lemma fired_opt {X} pl (o : option X) k t p n : hook_phase k = None -> fired pl (opt_ev o (Ev k t p n)) = [].
Proof. destruct o; simpl; auto. apply fired_obs. Qed.

(* what a failure returned by an operation on (a node / a graph at) p in phase ph looks like:
   it is the FIRST fault that fired during the operation.  [lg]: the operation may also report
   "graph must be started before evaluation" (excluded separately) *)
Definition FE (pl : plan) (lg : bool) (ph : phase) (p : path) (ev : list event) (f : option failure) : Prop :=
  match f with
  | None => fired pl ev = []
  | Some fl =>
      (lg = true /\ f_exn fl = XLogic /\ fired pl ev = []) \/
      exists p' k e0 rest, f_exn fl = XFault p' ph k /\ prefix p p' /\ fired pl ev = e0 :: rest /\
                           e_path e0 = p' /\ e_k e0 = k /\ hook_phase (e_kind e0) = Some ph
  end.

Lemma FE_weaken pl lg ph p q ev f : prefix q p -> FE pl lg ph p ev f -> FE pl lg ph q ev f.
Proof.
  intros Hp. unfold FE. destruct f as [fl|]; auto. intros [H|(p' & k & e0 & rest & H1 & H2 & H3)]; auto.
  right. exists p', k, e0, rest. split; auto. split; auto. eapply prefix_trans; eauto.
Qed.

Lemma FE_annot pl lg ph p ev root i ph' f : FE pl lg ph p ev f -> FE pl lg ph p ev (option_map (annotate root i ph') f).
Proof. destruct f as [fl|]; simpl; auto. unfold annotate. destruct root; auto. Qed.

Ltac fired_simpl :=
  repeat (rewrite ?fired_app, ?fired_obs, ?fired_opt by reflexivity; simpl).

Lemma stop_loop_FE pl stop1 root gp t : forall l i l' ev f,
  Forall (fun c => forall j c' e g, stop1 (gp ++ [j]) t c = (c', e, g) -> FE pl false PStop (gp ++ [j]) e g) l ->
  stop_loop stop1 root gp t i l = (l', ev, f) -> FE pl false PStop gp ev f.
Proof.
  induction l as [|c r IH]; intros i l' ev f Hs Hrun; simpl in Hrun.
  - inversion Hrun; subst. reflexivity.
  - inversion Hs as [|? ? Hc Hr]; subst.
    destruct (stop_loop stop1 root gp t (S i) r) as [[r' ev1] f1] eqn:E1.
    destruct (stop1 (gp ++ [i]) t c) as [[c' ev2] f2] eqn:E2.
    inversion Hrun; subst; clear Hrun.
    pose proof (IH _ _ _ _ Hr E1) as F1.
    pose proof (FE_weaken _ _ _ _ gp _ _ (prefix_app gp [i]) (Hc _ _ _ _ E2)) as F2.
    apply (FE_annot _ _ _ _ _ root i PStop) in F2.
    destruct f1 as [fl1|]; simpl.
    + destruct F1 as [[H1 _]|(p' & k & e0 & rest & H1 & H2 & H3 & H4)]; [discriminate|].
      right. exists p', k, e0, (rest ++ fired pl ev2). split; auto. split; auto. split; auto.
      fired_simpl. rewrite H3. fired_simpl. rewrite app_nil_r. reflexivity.
    + unfold FE in F1. destruct (option_map (annotate root i PStop) f2) as [fl2|] eqn:E.
      * destruct F2 as [[H1 _]|(p' & k & e0 & rest & H1 & H2 & H3 & H4)]; [discriminate|].
        right. exists p', k, e0, rest. split; auto. split; auto. split; auto.
        fired_simpl. rewrite F1, H3. simpl. rewrite app_nil_r. reflexivity.
      * unfold FE in F2. fired_simpl. rewrite F1, F2. reflexivity.
Qed.

Lemma fired_hook pl k t p n ph : hook_phase k = Some ph -> fired pl [Ev k t p n] = if pl p ph n then [Ev k t p n] else [].
Proof. unfold fired, is_fired. simpl. intros ->. destruct (pl p ph n); reflexivity. Qed.

Lemma stop_node_FE pl : forall n p t c' ev f, stop_node pl p t n = (c', ev, f) -> FE pl false PStop p ev f.
Proof.
  induction n as [per st nx cs ce cp|st gs gt ch IH] using node_ind'; intros p t c' ev f Hrun; simpl in Hrun.
  - destruct st; inversion Hrun; subst; clear Hrun; [|reflexivity].
    unfold FE. rewrite (fired_hook pl HP t p cp PStop eq_refl). destruct (pl p PStop cp); auto.
    right. exists p, cp, (Ev HP t p cp), []. repeat split; auto. apply prefix_refl.
  - destruct st; [|inversion Hrun; subst; reflexivity].
    unfold stop_graph_with in Hrun. destruct gs; [|inversion Hrun; subst; reflexivity].
    destruct (stop_loop (fun q u c => stop_node pl q u c) false p gt 0 ch) as [[l' ev1] f1] eqn:E1.
    inversion Hrun; subst; clear Hrun.
    assert (F1 : FE pl false PStop p ev1 f).
    { eapply stop_loop_FE; [|exact E1]. eapply Forall_impl; [|exact IH]. intros c Hc j c0 e g. apply Hc. }
    unfold FE in *. destruct f as [fl|].
    + destruct F1 as [[H1 _]|(p' & k & e0 & rest & H1 & H2 & H3 & H4)]; [discriminate|].
      right. exists p', k, e0, rest. split; auto. split; auto. split; auto.
      fired_simpl. rewrite H3. rewrite app_nil_r. reflexivity.
    + fired_simpl. rewrite F1. reflexivity.
Qed.

Lemma start_loop_FE pl start1 stop1 root gp t : forall l i l' ev fr,
  Forall (fun c => forall j c' e g, start1 (gp ++ [j]) t c = (c', e, g) -> FE pl false PStart (gp ++ [j]) e g) l ->
  start_loop start1 stop1 root gp t i l = (l', ev, fr) -> FE pl false PStart gp ev (option_map fst fr).
Proof.
  induction l as [|c r IH]; intros i l' ev fr Hs Hrun; simpl in Hrun.
  - inversion Hrun; subst. reflexivity.
  - inversion Hs as [|? ? Hc Hr]; subst.
    destruct (start1 (gp ++ [i]) t c) as [[c1 ev1] f1] eqn:E1.
    pose proof (FE_weaken _ _ _ _ gp _ _ (prefix_app gp [i]) (Hc _ _ _ _ E1)) as F1.
    destruct f1 as [f1|].
    + inversion Hrun; subst; clear Hrun. simpl.
      apply (FE_annot _ _ _ _ _ root i PStart) in F1. simpl in F1.
      destruct F1 as [[H1 _]|(p' & k & e0 & rest & H1 & H2 & H3 & H4)]; [discriminate|].
      right. exists p', k, e0, rest. split; auto. split; auto. split; auto.
      fired_simpl. rewrite H3. rewrite app_nil_r. reflexivity.
    + unfold FE in F1.
      destruct (start_loop start1 stop1 root gp t (S i) r) as [[r' ev2] f2] eqn:E2.
      pose proof (IH _ _ _ _ Hr E2) as F2.
      destruct f2 as [[f2 ab]|].
      * simpl in F2. destruct F2 as [[H1 _]|(p' & k & e0 & rest & H1 & H2 & H3 & H4)]; [discriminate|].
        destruct ab.
        -- inversion Hrun; subst; clear Hrun. simpl. right. exists p', k, e0, rest.
           split; auto. split; auto. split; auto. fired_simpl. rewrite F1, H3. reflexivity.
        -- destruct (stop1 (gp ++ [i]) t c1) as [[c2 ev3] f3] eqn:E3.
           inversion Hrun; subst; clear Hrun. simpl. right. exists p', k, e0, (rest ++ fired pl ev3).
           split; auto. split; auto. split; auto. fired_simpl. rewrite F1, H3. simpl.
           rewrite app_nil_r. reflexivity.
      * inversion Hrun; subst; clear Hrun. simpl in *. fired_simpl. rewrite F1, F2. reflexivity.
Qed.

Lemma start_node_FE pl : forall n p t c' ev f, start_node pl p t n = (c', ev, f) -> FE pl false PStart p ev f.
Proof.
  induction n as [per st nx cs ce cp|st gs gt ch IH] using node_ind'; intros p t c' ev f Hrun; simpl in Hrun.
  - destruct st; [inversion Hrun; subst; reflexivity|].
    destruct (pl p PStart cs) eqn:Ep; inversion Hrun; subst; clear Hrun; unfold FE;
      rewrite (fired_hook pl HS t p cs PStart eq_refl), Ep; auto.
    right. exists p, cs, (Ev HS t p cs), []. repeat split; auto. apply prefix_refl.
  - destruct st; [inversion Hrun; subst; reflexivity|].
    unfold start_graph_with in Hrun. destruct gs; [inversion Hrun; subst; reflexivity|].
    destruct (start_loop (fun q u c => start_node pl q u c) (stop_node pl) false p t 0 ch) as [[l' ev1] fr] eqn:E1.
    assert (F1 : FE pl false PStart p ev1 (option_map fst fr)).
    { eapply start_loop_FE; [|exact E1]. eapply Forall_impl; [|exact IH]. intros c Hc j c0 e g. apply Hc. }
    destruct fr as [[f0 ab]|]; inversion Hrun; subst; clear Hrun; simpl in F1; unfold FE.
    + destruct F1 as [[H1 _]|(p' & k & e0 & rest & H1 & H2 & H3 & H4)]; [discriminate|].
      right. exists p', k, e0, rest. split; auto. split; auto. split; auto.
      fired_simpl. rewrite H3. rewrite app_nil_r. reflexivity.
    + fired_simpl. rewrite F1. reflexivity.
Qed.

Lemma eval_loop_FE pl eval1 due1 root gp t : forall l i l' ev f,
  Forall (fun c => forall j c' e g, eval1 (gp ++ [j]) t c = (c', e, g) -> FE pl true PEval (gp ++ [j]) e g) l ->
  eval_loop eval1 due1 root gp t i l = (l', ev, f) -> FE pl true PEval gp ev f.
Proof.
  induction l as [|c r IH]; intros i l' ev f Hs Hrun; simpl in Hrun.
  - inversion Hrun; subst. reflexivity.
  - inversion Hs as [|? ? Hc Hr]; subst. destruct (due1 t c).
    + destruct (eval1 (gp ++ [i]) t c) as [[c1 ev1] f1] eqn:E1.
      pose proof (FE_weaken _ _ _ _ gp _ _ (prefix_app gp [i]) (Hc _ _ _ _ E1)) as F1.
      destruct f1 as [f1|].
      * inversion Hrun; subst; clear Hrun.
        apply (FE_annot _ _ _ _ _ root i PEval) in F1. simpl in F1. unfold FE.
        destruct F1 as [(H0 & H1 & H2)|(p' & k & e0 & rest & H1 & H2 & H3 & H4)].
        -- left. split; auto. split; auto. fired_simpl. rewrite H2. reflexivity.
        -- right. exists p', k, e0, rest. split; auto. split; auto. split; auto.
           fired_simpl. rewrite H3. rewrite app_nil_r. reflexivity.
      * destruct (eval_loop eval1 due1 root gp t (S i) r) as [[r' ev2] f2] eqn:E2.
        inversion Hrun; subst; clear Hrun. pose proof (IH _ _ _ _ Hr E2) as F2. unfold FE in *.
        destruct f as [fl|].
        -- destruct F2 as [(H0 & H1 & H2)|(p' & k & e0 & rest & H1 & H2 & H3 & H4)].
           ++ left. split; auto. split; auto. fired_simpl. rewrite F1, H2. reflexivity.
           ++ right. exists p', k, e0, rest. split; auto. split; auto. split; auto.
              fired_simpl. rewrite F1, H3. reflexivity.
        -- fired_simpl. rewrite F1, F2. reflexivity.
    + destruct (eval_loop eval1 due1 root gp t (S i) r) as [[r' ev2] f2] eqn:E2.
      inversion Hrun; subst; clear Hrun. eapply IH; eauto.
Qed.

Lemma eval_node_FE pl : forall n p t c' ev f, eval_node pl p t n = (c', ev, f) -> FE pl true PEval p ev f.
Proof.
  induction n as [per st nx cs ce cp|st gs gt ch IH] using node_ind'; intros p t c' ev f Hrun; simpl in Hrun.
  - destruct st; [|inversion Hrun; subst; reflexivity].
    destruct (pl p PEval ce) eqn:Ep; inversion Hrun; subst; clear Hrun; unfold FE;
      rewrite (fired_hook pl HE t p ce PEval eq_refl), Ep; auto.
    right. exists p, ce, (Ev HE t p ce), []. repeat split; auto. apply prefix_refl.
  - destruct st; [|inversion Hrun; subst; reflexivity].
    unfold eval_graph_with in Hrun. destruct gs.
    + destruct (eval_loop (fun q u c => eval_node pl q u c) due false p t 0 ch) as [[l' ev1] f1] eqn:E1.
      assert (F1 : FE pl true PEval p ev1 f1).
      { eapply eval_loop_FE; [|exact E1]. eapply Forall_impl; [|exact IH]. intros c Hc j c0 e g. apply Hc. }
      inversion Hrun; subst; clear Hrun. unfold FE in *. destruct f as [fl|].
      * destruct F1 as [(H0 & H1 & H2)|(p' & k & e0 & rest & H1 & H2 & H3 & H4)].
        -- left. split; auto. split; auto. fired_simpl. rewrite H2. reflexivity.
        -- right. exists p', k, e0, rest. split; auto. split; auto. split; auto.
           fired_simpl. rewrite H3. rewrite app_nil_r. reflexivity.
      * fired_simpl. rewrite F1. reflexivity.
    + inversion Hrun; subst. left. auto.
Qed.

(* the annotation added at the root boundary names the root node the fault lies under *)
Definition NP (op : path -> Z -> node -> nres) (t : Z) (c : node) : Prop :=
  forall j c' e gl, op [j] t c = (c', e, Some gl) ->
  forall p' ph k, f_exn gl = XFault p' ph k -> prefix [j] p'.

Lemma FE_NP pl lg ph (op : path -> Z -> node -> nres) t c :
  (forall p c' e g, op p t c = (c', e, g) -> FE pl lg ph p e g) -> NP op t c.
Proof.
  intros H j c' e gl Hop p' ph' k Hx. specialize (H _ _ _ _ Hop). simpl in H.
  destruct H as [(_ & H & _)|(p'' & k' & e0 & rest & H1 & H2 & _)]; [congruence|].
  rewrite H1 in Hx. inversion Hx; subst. exact H2.
Qed.

Definition note_names (fl : failure) (ph : phase) : Prop :=
  exists j, f_note fl = Some (j, ph) /\ forall p' ph' k, f_exn fl = XFault p' ph' k -> prefix [j] p'.

Lemma stop_loop_note stop1 t : forall l i l' ev fl,
  Forall (NP stop1 t) l -> stop_loop stop1 true [] t i l = (l', ev, Some fl) -> note_names fl PStop.
Proof.
  induction l as [|c r IH]; intros i l' ev fl Hs Hrun; simpl in Hrun; [discriminate|].
  inversion Hs as [|? ? Hc Hr]; subst.
  destruct (stop_loop stop1 true [] t (S i) r) as [[r' ev1] f1] eqn:E1.
  destruct (stop1 [i] t c) as [[c' ev2] f2] eqn:E2.
  injection Hrun as Hl Hev Hf. destruct f1 as [fl1|]; simpl in Hf.
  - inversion Hf; subst. eapply IH; eauto.
  - destruct f2 as [g|]; simpl in Hf; [|discriminate]. inversion Hf; subst. exists i. split; auto.
    simpl. intros p' ph' k Hx. eapply Hc; eauto.
Qed.

Lemma start_loop_note start1 stop1 t : forall l i l' ev fl ab,
  Forall (NP start1 t) l -> start_loop start1 stop1 true [] t i l = (l', ev, Some (fl, ab)) -> note_names fl PStart.
Proof.
  induction l as [|c r IH]; intros i l' ev fl ab Hs Hrun; simpl in Hrun; [discriminate|].
  inversion Hs as [|? ? Hc Hr]; subst.
  destruct (start1 [i] t c) as [[c1 ev1] f1] eqn:E1. destruct f1 as [g|].
  - inversion Hrun; subst. exists i. split; auto. simpl. intros p' ph' k Hx. eapply Hc; eauto.
  - destruct (start_loop start1 stop1 true [] t (S i) r) as [[r' ev2] f2] eqn:E2.
    destruct f2 as [[f2 ab2]|]; [|discriminate]. destruct ab2.
    + inversion Hrun; subst. eapply IH; eauto.
    + destruct (stop1 [i] t c1) as [[c2 ev3] f3]. inversion Hrun; subst. eapply IH; eauto.
Qed.

Lemma eval_loop_note eval1 due1 t : forall l i l' ev fl,
  Forall (NP eval1 t) l -> eval_loop eval1 due1 true [] t i l = (l', ev, Some fl) -> note_names fl PEval.
Proof.
  induction l as [|c r IH]; intros i l' ev fl Hs Hrun; simpl in Hrun; [discriminate|].
  inversion Hs as [|? ? Hc Hr]; subst. destruct (due1 t c).
  - destruct (eval1 [i] t c) as [[c1 ev1] f1] eqn:E1. destruct f1 as [g|].
    + inversion Hrun; subst. exists i. split; auto. simpl. intros p' ph' k Hx. eapply Hc; eauto.
    + destruct (eval_loop eval1 due1 true [] t (S i) r) as [[r' ev2] f2] eqn:E2.
      inversion Hrun; subst. eapply IH; eauto.
  - destruct (eval_loop eval1 due1 true [] t (S i) r) as [[r' ev2] f2] eqn:E2.
    inversion Hrun; subst. eapply IH; eauto.
Qed.

(* "graph must be started before evaluation" cannot happen: a started node has everything
   below it started *)
Fixpoint deep_started (n : node) : bool :=
  match n with
  | Plain _ st _ _ _ _ => st
  | Nest st gs _ ch => st && gs && forallb deep_started ch
  end.

Lemma start_loop_deep start1 stop1 root gp t : forall l i l' ev,
  Forall (fun c => forall p c' e, start1 p t c = (c', e, None) -> deep_started c' = true) l ->
  start_loop start1 stop1 root gp t i l = (l', ev, None) -> forallb deep_started l' = true.
Proof.
  induction l as [|c r IH]; intros i l' ev Hs Hrun; simpl in Hrun.
  - inversion Hrun; subst. reflexivity.
  - inversion Hs as [|? ? Hc Hr]; subst.
    destruct (start1 (gp ++ [i]) t c) as [[c1 ev1] f1] eqn:E1. destruct f1; [discriminate|].
    destruct (start_loop start1 stop1 root gp t (S i) r) as [[r' ev2] f2] eqn:E2.
    destruct f2 as [[f2 ab]|].
    + destruct ab; [discriminate|]. destruct (stop1 (gp ++ [i]) t c1) as [[c2 ev3] f3]. discriminate.
    + inversion Hrun; subst. simpl. rewrite (Hc _ _ _ E1), (IH _ _ _ Hr E2). reflexivity.
Qed.

Lemma start_node_deep pl : forall n p t c' ev, clean n = true -> start_node pl p t n = (c', ev, None) -> deep_started c' = true.
Proof.
  induction n as [per st nx cs ce cp|st gs gt ch IH] using node_ind'; intros p t c' ev Hcl Hrun; simpl in Hrun.
  - simpl in Hcl. destruct st; [discriminate|]. destruct (pl p PStart cs); inversion Hrun; subst. reflexivity.
  - apply clean_Nest_inv in Hcl as (-> & -> & Hcl). unfold start_graph_with in Hrun.
    destruct (start_loop (fun q u c => start_node pl q u c) (stop_node pl) false p t 0 ch) as [[l' ev1] fr] eqn:E1.
    destruct fr as [[f0 ab]|]; inversion Hrun; subst; clear Hrun. simpl.
    (* the loop must see clean nodes: restrict the Forall to the members *)
    assert (H : forallb deep_started l' = true).
    { clear - IH Hcl E1. revert E1. generalize 0 as i. revert l' ev1.
      induction ch as [|c r IHr]; intros l' ev1 i E1; simpl in E1.
      - inversion E1; subst. reflexivity.
      - simpl in Hcl. apply andb_prop in Hcl as [Hc Hr]. inversion IH as [|? ? IHc IHr']; subst.
        destruct (start_node pl (p ++ [i]) t c) as [[c1 e1] f1] eqn:Ec. destruct f1; [discriminate|].
        destruct (start_loop (fun q u c => start_node pl q u c) (stop_node pl) false p t (S i) r) as [[r' e2] f2] eqn:E2.
        destruct f2 as [[f2 ab]|].
        + destruct ab; [discriminate|]. destruct (stop_node pl (p ++ [i]) t c1) as [[c2 e3] f3]. discriminate.
        + inversion E1; subst. simpl. rewrite (IHc _ _ _ _ Hc Ec). rewrite (IHr IHr' Hr _ _ _ E2). reflexivity. }
    rewrite H. reflexivity.
Qed.

Lemma eval_loop_deep eval1 due1 root gp t : forall l i l' ev f,
  Forall (fun c => deep_started c = true -> forall p c' e g, eval1 p t c = (c', e, g) ->
                   deep_started c' = true /\ forall fl, g = Some fl -> f_exn fl <> XLogic) l ->
  forallb deep_started l = true ->
  eval_loop eval1 due1 root gp t i l = (l', ev, f) ->
  forallb deep_started l' = true /\ forall fl, f = Some fl -> f_exn fl <> XLogic.
Proof.
  induction l as [|c r IH]; intros i l' ev f Hs Hd Hrun; simpl in Hrun.
  - inversion Hrun; subst. split; auto. intros fl X; discriminate X.
  - inversion Hs as [|? ? Hc Hr]; subst. simpl in Hd. apply andb_prop in Hd as [Hdc Hdr]. destruct (due1 t c).
    + destruct (eval1 (gp ++ [i]) t c) as [[c1 ev1] f1] eqn:E1. destruct (Hc Hdc _ _ _ _ E1) as [D1 N1].
      destruct f1 as [g|].
      * inversion Hrun; subst. split; [simpl; rewrite D1, Hdr; reflexivity|].
        intros fl X. inversion X; subst. unfold annotate. destruct root; simpl; apply N1; auto.
      * destruct (eval_loop eval1 due1 root gp t (S i) r) as [[r' ev2] f2] eqn:E2.
        inversion Hrun; subst. destruct (IH _ _ _ _ Hr Hdr E2) as [D2 N2]. split; auto.
        simpl. rewrite D1, D2. reflexivity.
    + destruct (eval_loop eval1 due1 root gp t (S i) r) as [[r' ev2] f2] eqn:E2.
      inversion Hrun; subst. destruct (IH _ _ _ _ Hr Hdr E2) as [D2 N2]. split; auto.
      simpl. rewrite Hdc, D2. reflexivity.
Qed.

Lemma eval_node_deep pl : forall n, deep_started n = true -> forall p t c' ev f, eval_node pl p t n = (c', ev, f) ->
  deep_started c' = true /\ forall fl, f = Some fl -> f_exn fl <> XLogic.
Proof.
  induction n as [per st nx cs ce cp|st gs gt ch IH] using node_ind'; intros Hd p t c' ev f Hrun; simpl in Hrun, Hd.
  - subst st. destruct (pl p PEval ce); inversion Hrun; subst; split; auto; intros fl X; inversion X; subst; discriminate.
  - apply andb_prop in Hd as [Hd Hch]. apply andb_prop in Hd as [-> ->].
    unfold eval_graph_with in Hrun.
    destruct (eval_loop (fun q u c => eval_node pl q u c) due false p t 0 ch) as [[l' ev1] f1] eqn:E1.
    inversion Hrun; subst; clear Hrun.
    assert (Hs : Forall (fun c => deep_started c = true -> forall p c' e g, eval_node pl p t c = (c', e, g) ->
                   deep_started c' = true /\ forall fl, g = Some fl -> f_exn fl <> XLogic) ch).
    { eapply Forall_impl; [|exact IH]. intros c Hc Hdc q c0 e g. apply Hc; auto. }
    destruct (eval_loop_deep _ _ _ _ _ _ _ _ _ _ Hs Hch E1) as [D N]. split; auto.
Qed.

Lemma cycles_deep pl sp e : forall fuel lo w w' ev f,
  w_gs w = true -> forallb deep_started (w_nodes w) = true ->
  cycles pl sp e fuel lo w = (w', ev, f) -> forall fl, f = Some fl -> f_exn fl <> XLogic.
Proof.
  induction fuel as [|fuel IH]; intros lo w w' ev f Hgs Hd Hrun; simpl in Hrun; [inversion Hrun; intros fl X; discriminate X|].
  destruct (min_next_list lo (w_nodes w)); [|inversion Hrun; intros fl X; discriminate X].
  destruct (e <=? z)%Z; [inversion Hrun; intros fl X; discriminate X|].
  unfold eval_graph_with in Hrun. rewrite Hgs in Hrun.
  destruct (eval_loop (eval_node pl) due true [] z 0 (w_nodes w)) as [[l' ev1] f1] eqn:E1.
  assert (Hs : Forall (fun c => deep_started c = true -> forall p c' e0 g, eval_node pl p z c = (c', e0, g) ->
                 deep_started c' = true /\ forall fl, g = Some fl -> f_exn fl <> XLogic) (w_nodes w)).
  { apply Forall_forall. intros c _ Hdc q c0 e0 g. apply eval_node_deep; auto. }
  destruct (eval_loop_deep _ _ _ _ _ _ _ _ _ _ Hs Hd E1) as [D N].
  destruct f1 as [g|]; [inversion Hrun; subst; auto|].
  destruct (stop_requested sp _); [inversion Hrun; intros fl X; discriminate X|].
  destruct (cycles pl sp e fuel (z + 1)%Z (W true z l')) as [[w2 ev2] f2] eqn:E2.
  inversion Hrun; subst. eapply IH; [| |exact E2]; auto.
Qed.

(* the failure [fl] is the first fault that fired in [ev], and its annotation names the root
   node that fault lies under and the phase it was thrown in *)
Definition reported (pl : plan) (ev : list event) (fl : failure) : Prop :=
  exists p' ph k e0 rest j,
    f_exn fl = XFault p' ph k /\ fired pl ev = e0 :: rest /\ e_path e0 = p' /\ e_k e0 = k /\
    hook_phase (e_kind e0) = Some ph /\ pl p' ph k = true /\ f_note fl = Some (j, ph) /\ prefix [j] p'.

Lemma fired_head_true pl ev e0 rest : fired pl ev = e0 :: rest -> is_fired pl e0 = true.
Proof.
  intro H. assert (In e0 (fired pl ev)) by (rewrite H; left; auto).
  unfold fired in H0. apply filter_In in H0. tauto.
Qed.

Lemma mk_reported pl ph ev fl :
  FE pl false ph [] ev (Some fl) -> note_names fl ph -> reported pl ev fl.
Proof.
  intros [[H _]|(p' & k & e0 & rest & H1 & H2 & H3 & H4 & H5 & H6)] [j [Hn Hp]]; [discriminate|].
  exists p', ph, k, e0, rest, j. repeat split; auto.
  - pose proof (fired_head_true _ _ _ _ H3) as Hf. unfold is_fired in Hf. rewrite H6, H4, H5 in Hf. exact Hf.
  - eapply Hp; eauto.
Qed.

Lemma FE_drop_logic pl ph p ev fl :
  FE pl true ph p ev (Some fl) -> f_exn fl <> XLogic -> FE pl false ph p ev (Some fl).
Proof. intros [(_ & H & _)|H] Hn; [contradiction|right; exact H]. Qed.

Lemma cycles_FE pl sp e : forall fuel lo w w' ev f,
  w_gs w = true -> forallb deep_started (w_nodes w) = true ->
  cycles pl sp e fuel lo w = (w', ev, f) ->
  match f with None => fired pl ev = [] | Some fl => reported pl ev fl end.
Proof.
  induction fuel as [|fuel IH]; intros lo w w' ev f Hgs Hd Hrun.
  { simpl in Hrun. inversion Hrun; subst. reflexivity. }
  pose proof (cycles_deep _ _ _ _ _ _ _ _ _ Hgs Hd Hrun) as Hnl. simpl in Hrun.
  destruct (min_next_list lo (w_nodes w)); [|inversion Hrun; subst; reflexivity].
  destruct (e <=? z)%Z; [inversion Hrun; subst; reflexivity|].
  unfold eval_graph_with in Hrun. rewrite Hgs in Hrun.
  destruct (eval_loop (eval_node pl) due true [] z 0 (w_nodes w)) as [[l' ev1] f1] eqn:E1.
  assert (F1 : FE pl true PEval [] ev1 f1).
  { eapply eval_loop_FE; [|exact E1]. apply Forall_forall. intros c _ j c' e0 g Hc. eapply eval_node_FE; eauto. }
  assert (Hs : Forall (fun c => deep_started c = true -> forall p c' e0 g, eval_node pl p z c = (c', e0, g) ->
                 deep_started c' = true /\ forall fl, g = Some fl -> f_exn fl <> XLogic) (w_nodes w)).
  { apply Forall_forall. intros c _ Hdc q c0 e0 g. apply eval_node_deep; auto. }
  destruct (eval_loop_deep _ _ _ _ _ _ _ _ _ _ Hs Hd E1) as [D N].
  destruct f1 as [g|].
  - inversion Hrun; subst; clear Hrun.
    assert (Hn : note_names g PEval).
    { eapply eval_loop_note; [|exact E1]. apply Forall_forall. intros c _.
      eapply (FE_NP pl true PEval). intros p c' e0 g0 Hc. eapply eval_node_FE; eauto. }
    apply (mk_reported pl PEval); auto.
    apply FE_drop_logic in F1; [|apply N; auto].
    destruct F1 as [[X _]|(p' & k & e0 & rest & H1 & H2 & H3 & H4)]; [discriminate|].
    right. exists p', k, e0, rest. split; auto. split; auto. split; auto.
    fired_simpl. rewrite H3. rewrite app_nil_r. reflexivity.
  - unfold FE in F1.
    assert (Fc : fired pl (Ev BGE z [] 0 :: ev1 ++ [Ev AGE z [] 0]) = []).
    { change (fired pl ([Ev BGE z [] 0] ++ ev1 ++ [Ev AGE z [] 0]) = []). fired_simpl. rewrite F1. reflexivity. }
    destruct (stop_requested sp _); [inversion Hrun; subst; exact Fc|].
    destruct (cycles pl sp e fuel (z + 1)%Z (W true z l')) as [[w2 ev2] f2] eqn:E2.
    inversion Hrun; subst; clear Hrun.
    pose proof (IH _ (W true z l') _ _ _ eq_refl D E2) as F2. destruct f as [fl|].
    + destruct F2 as (p' & ph & k & e0 & rest & j & H1 & H2 & H3).
      exists p', ph, k, e0, rest, j. split; auto. split; auto.
      change (fired pl ((Ev BGE z [] 0 :: ev1 ++ [Ev AGE z [] 0]) ++ ev2) = e0 :: rest).
      rewrite fired_app, Fc, H2. reflexivity.
    + change (fired pl ((Ev BGE z [] 0 :: ev1 ++ [Ev AGE z [] 0]) ++ ev2) = []).
      rewrite fired_app, Fc, F2. reflexivity.
Qed.

Lemma stop_world_FE pl w w' ev f : stop_world pl w = (w', ev, f) ->
  match f with None => fired pl ev = [] | Some fl => reported pl ev fl end.
Proof.
  unfold stop_world, stop_graph_with. intro H. destruct (w_gs w); [|inversion H; subst; reflexivity].
  destruct (stop_loop (stop_node pl) true [] (w_gt w) 0 (w_nodes w)) as [[l' ev1] f1] eqn:E1.
  assert (F1 : FE pl false PStop [] ev1 f1).
  { eapply stop_loop_FE; [|exact E1]. apply Forall_forall. intros c _ j c' e0 g Hc. eapply stop_node_FE; eauto. }
  inversion H; subst; clear H. destruct f as [fl|].
  - apply (mk_reported pl PStop).
    + destruct F1 as [[X _]|(p' & k & e0 & rest & H1 & H2 & H3 & H4)]; [discriminate|].
      right. exists p', k, e0, rest. split; auto. split; auto. split; auto.
      change (fired pl ([Ev BPG (w_gt w) [] 0] ++ ev1 ++ opt_ev (Some fl) (Ev PGF (w_gt w) [] 0) ++ [Ev APG (w_gt w) [] 0]) = e0 :: rest).
      fired_simpl. rewrite H3. rewrite app_nil_r. reflexivity.
    + eapply stop_loop_note; [|exact E1]. apply Forall_forall. intros c _.
      eapply (FE_NP pl false PStop). intros p c' e0 g0 Hc. eapply stop_node_FE; eauto.
  - unfold FE in F1.
    change (fired pl ([Ev BPG (w_gt w) [] 0] ++ ev1 ++ [] ++ [Ev APG (w_gt w) [] 0]) = []).
    fired_simpl. rewrite F1. reflexivity.
Qed.

Theorem first_error pl sp cfg w w1 ev f :
  fresh_world w -> (c_start cfg < c_end cfg)%Z -> run pl sp cfg w = (w1, ev, f) ->
  match f with None => fired pl ev = [] | Some fl => reported pl ev fl end.
Proof.
  intros [Hgs Hcl] Ht Hrun. unfold run in Hrun.
  replace (c_end cfg <=? c_start cfg)%Z with false in Hrun by (symmetry; apply Z.leb_gt; auto).
  rewrite Hgs in Hrun. unfold start_graph_with in Hrun.
  destruct (start_loop (start_node pl) (stop_node pl) true [] (c_start cfg) 0 (w_nodes w)) as [[l' ev0] fr] eqn:E0.
  assert (F0 : FE pl false PStart [] ev0 (option_map fst fr)).
  { eapply start_loop_FE; [|exact E0]. apply Forall_forall. intros c _ j c' e0 g Hc. eapply start_node_FE; eauto. }
  destruct fr as [[f0 ab]|].
  - inversion Hrun; subst; clear Hrun. apply (mk_reported pl PStart).
    + simpl in F0. destruct F0 as [[X _]|(p' & k & e0 & rest & H1 & H2 & H3 & H4)]; [discriminate|].
      right. exists p', k, e0, rest. split; auto. split; auto. split; auto.
      change (fired pl ([Ev BSG (w_gt w) [] 0] ++ ev0 ++ [Ev SGF (c_start cfg) [] 0]) = e0 :: rest).
      fired_simpl. rewrite H3. rewrite app_nil_r. reflexivity.
    + eapply start_loop_note; [|exact E0]. apply Forall_forall. intros c _.
      eapply (FE_NP pl false PStart). intros p c' e0 g0 Hc. eapply start_node_FE; eauto.
  - simpl in F0.
    assert (Fs : fired pl (Ev BSG (w_gt w) [] 0 :: ev0 ++ [Ev ASG (c_start cfg) [] 0]) = []).
    { change (fired pl ([Ev BSG (w_gt w) [] 0] ++ ev0 ++ [Ev ASG (c_start cfg) [] 0]) = []). fired_simpl. rewrite F0. reflexivity. }
    assert (Hd : forallb deep_started l' = true).
    { eapply start_loop_deep; [|exact E0]. apply Forall_forall. intros c Hin p c' e0 Hc.
      eapply start_node_deep; eauto. rewrite forallb_forall in Hcl. auto. }
    destruct (cycles pl sp (c_end cfg) (c_fuel cfg) (c_start cfg) (W true (c_start cfg) l')) as [[w1' ev1] f1] eqn:E1.
    pose proof (cycles_FE _ _ _ _ _ (W true (c_start cfg) l') _ _ _ eq_refl Hd E1) as F1.
    destruct f1 as [fl1|].
    + assert (R : forall ev2, reported pl ((Ev BSG (w_gt w) [] 0 :: ev0 ++ [Ev ASG (c_start cfg) [] 0]) ++ ev1 ++ ev2) fl1).
      { intro ev2. destruct F1 as (p' & ph & k & e0 & rest & j & H1 & H2 & H3).
        exists p', ph, k, e0, (rest ++ fired pl ev2), j. split; auto. split; auto.
        rewrite !fired_app, Fs, H2. reflexivity. }
      destruct (c_cleanup cfg).
      * destruct (stop_world pl w1') as [[w2 ev2] f2]. inversion Hrun; subst. apply R.
      * inversion Hrun; subst. specialize (R []). rewrite app_nil_r in R. exact R.
    + destruct (stop_world pl w1') as [[w2 ev2] f2] eqn:E2. inversion Hrun; subst; clear Hrun.
      pose proof (stop_world_FE _ _ _ _ _ E2) as F2. destruct f as [fl|].
      * destruct F2 as (p' & ph & k & e0 & rest & j & H1 & H2 & H3).
        exists p', ph, k, e0, rest, j. split; auto. split; auto.
        change (fired pl ((Ev BSG (w_gt w) [] 0 :: ev0 ++ [Ev ASG (c_start cfg) [] 0]) ++ ev1 ++ ev2) = e0 :: rest).
        rewrite !fired_app, Fs, F1, H2. reflexivity.
      * change (fired pl ((Ev BSG (w_gt w) [] 0 :: ev0 ++ [Ev ASG (c_start cfg) [] 0]) ++ ev1 ++ ev2) = []).
        rewrite !fired_app, Fs, F1, F2. reflexivity.
Qed.

(* ================================================================== every before has its after or failed *)
Definition gsel (k : ekind) (s : sym) : nat := match s with SG k' => if ekind_eqb k' k then 1 else 0 | SN _ _ => 0 end.
Definition gcnt (k : ekind) (w : list sym) : nat := list_sum (map (gsel k) w).

Lemma gcnt_app k a b : gcnt k (a ++ b) = gcnt k a + gcnt k b.
Proof. unfold gcnt. rewrite map_app, list_sum_app. reflexivity. Qed.

Definition open_s (a : ast) : list nat := match a with AInStart m _ => [m] | _ => [] end.
Definition open_e (a : ast) : list nat := match a with AInEval _ i _ => [i] | _ => [] end.
Definition open_p (a : ast) : list nat := match a with ARollIn _ c _ _ | AStopIn _ c _ _ _ => [pred c] | _ => [] end.
Definition pre_fail (a : ast) : bool := match a with AFresh | AStarting _ | AInStart _ _ => true | _ => false end.
Definition gopen_s (a : ast) : nat :=
  match a with AStarting _ | AInStart _ _ | ARoll _ _ | ARollIn _ _ _ _ | ARollAborted _ _ => 1 | _ => 0 end.
Definition gopen_e (a : ast) : nat := match a with ACycle _ _ | AInEval _ _ _ => 1 | _ => 0 end.
Definition gopen_p (a : ast) : nat := match a with AStopping _ _ _ | AStopIn _ _ _ _ _ | AStopFailed _ => 1 | _ => 0 end.

Definition BAL (a : ast) (w : list sym) : Prop :=
  idxs BSN w = idxs ASN w ++ idxs SNF w ++ open_s a /\
  (pre_fail a = true -> idxs SNF w = []) /\
  idxs BEN w = idxs AEN w ++ open_e a /\
  idxs BPN w = idxs APN w ++ open_p a /\
  gcnt BSG w = gcnt ASG w + gcnt SGF w + gopen_s a /\
  gcnt BGE w = gcnt AGE w + gopen_e a /\
  gcnt BPG w = gcnt APG w + gopen_p a.

Lemma BAL_step a s w : BAL a w -> ast_bad (astep a s) = false -> BAL (astep a s) (w ++ [s]).
Proof.
  unfold BAL. intros (H1 & H2 & H3 & H4 & H5 & H6 & H7) Hnb. rewrite !idxs_app, !gcnt_app.
  unfold gcnt in *.
  destruct a; destruct s as [k|k j]; destruct k; simpl in Hnb; try discriminate;
    repeat match goal with
      | H : context[match ?x with _ => _ end] |- _ =>
          first [is_var x; destruct x | match x with Nat.eqb ?i ?j => destruct (Nat.eqb_spec i j); subst end
                | destruct x eqn:?]; simpl in H; try discriminate
      end;
    simpl in *; rewrite ?Nat.eqb_refl; simpl;
    repeat match goal with |- context[if ?b then _ else _] => destruct b eqn:?; simpl end;
    rewrite ?app_nil_r in *;
    try (rewrite ?H1, ?H3, ?H4; try rewrite H2 by reflexivity; rewrite ?app_nil_r, <- ?app_assoc; simpl;
         repeat split; auto; try lia; try discriminate; fail).
Qed.

Lemma BAL_run w : ast_bad (arun AFresh w) = false -> BAL (arun AFresh w) w.
Proof.
  induction w as [|s w IH] using rev_ind; intro H.
  - simpl. repeat split; auto.
  - rewrite arun_snoc in *. apply BAL_step; auto. apply IH. destruct (arun AFresh w); auto.
Qed.

(* when a graph is at rest (never started, started and idle, stopped, or leaked), every "before"
   notification of that graph and of its nodes has had its "after" or "failed" *)
Definition ast_rest (a : ast) : bool :=
  match a with AFresh | AStarted _ | ADone _ | ALeaked _ _ => true | _ => false end.

Lemma word_balanced w : ast_rest (arun AFresh w) = true ->
  idxs BSN w = idxs ASN w ++ idxs SNF w /\ idxs BEN w = idxs AEN w /\ idxs BPN w = idxs APN w /\
  gcnt BSG w = gcnt ASG w + gcnt SGF w /\ gcnt BGE w = gcnt AGE w /\ gcnt BPG w = gcnt APG w.
Proof.
  intro H. assert (Hb : ast_bad (arun AFresh w) = false) by (destruct (arun AFresh w); auto; discriminate).
  destruct (BAL_run w Hb) as (H1 & _ & H3 & H4 & H5 & H6 & H7).
  destruct (arun AFresh w); simpl in *; try discriminate; rewrite ?app_nil_r, ?Nat.add_0_r in *; auto 10.
Qed.

(* ================================================================== the property, on the log of a whole executor life *)
Definition starts_of (gp : path) (L : list event) : list nat := idxs ASN (graph_word gp L).
Definition stops_of (gp : path) (L : list event) : list nat := idxs BPN (graph_word gp L).
Definition no_leak (L : list event) : Prop := forall gl, ast_leaked (Aof L gl) = false.

Lemma full_log_life pl sp cfg w : exists ev1 f w1 ev2 w2,
  life pl sp cfg w = (ev1, f, w1, ev2, w2) /\ full_log pl sp cfg w = ev1 ++ ev2.
Proof.
  unfold full_log. destruct (life pl sp cfg w) as [[[[ev1 f] w1] ev2] w2]. exists ev1, f, w1, ev2, w2. auto.
Qed.

Lemma full_log_wf pl sp cfg w : fresh_world w -> LogWf (full_log pl sp cfg w).
Proof.
  intro Hf. destruct (full_log_life pl sp cfg w) as (ev1 & f & w1 & ev2 & w2 & Hl & ->).
  destruct (life_facts _ _ _ _ _ _ _ _ _ Hf Hl) as (W & B & _). split; auto.
  intros e He. unfold wloc in W. rewrite forallb_forall in W. auto.
Qed.

Lemma full_log_closed pl sp cfg w : fresh_world w -> no_leak (full_log pl sp cfg w) -> LogClosed (full_log pl sp cfg w).
Proof.
  intros Hf Hn. destruct (full_log_life pl sp cfg w) as (ev1 & f & w1 & ev2 & w2 & Hl & E).
  rewrite E in *. destruct (life_facts _ _ _ _ _ _ _ _ _ Hf Hl) as (_ & _ & C & _). unfold LogClosed. apply C. exact Hn.
Qed.

Lemma order_thm pl sp cfg w : fresh_world w -> forall gp,
  exists m c, c <= m /\ starts_of gp (full_log pl sp cfg w) = seq 0 m /\
              stops_of gp (full_log pl sp cfg w) = rev (seq c (m - c)).
Proof. intros Hf gp. apply word_order. apply (full_log_wf pl sp cfg w Hf). Qed.

Lemma once_thm pl sp cfg w : fresh_world w -> no_leak (full_log pl sp cfg w) -> forall gp,
  exists m, starts_of gp (full_log pl sp cfg w) = seq 0 m /\ stops_of gp (full_log pl sp cfg w) = rev (seq 0 m).
Proof. intros Hf Hn gp. apply word_closed. apply (full_log_closed pl sp cfg w Hf Hn). Qed.

Lemma once_static_thm pl sp cfg w : fresh_world w -> no_stop_faults pl \/ no_start_faults pl -> forall gp,
  exists m, starts_of gp (full_log pl sp cfg w) = seq 0 m /\ stops_of gp (full_log pl sp cfg w) = rev (seq 0 m).
Proof. intros Hf Hs. apply once_thm; auto. intro gl. apply never_leaks; auto. Qed.

Lemma leak_persists ev1 ev2 gl :
  ast_bad (Aof (ev1 ++ ev2) gl) = false -> ast_leaked (Aof ev1 gl) = true -> ast_leaked (Aof (ev1 ++ ev2) gl) = true.
Proof.
  unfold Aof. rewrite after_app. intros Hb Hl.
  assert (E : after (after A0 ev1) ev2 gl = arun (after A0 ev1 gl) (graph_word gl ev2)) by reflexivity.
  rewrite E in *. destruct (after A0 ev1 gl); try discriminate. apply leaked_sticky in Hb. rewrite Hb. reflexivity.
Qed.

(* ... no later than the return of run, unless clean-up on error is off and an evaluation error
   escaped: then at the release of the executor *)
Lemma by_return_thm pl sp cfg w ev1 f w1 ev2 w2 :
  fresh_world w -> life pl sp cfg w = (ev1, f, w1, ev2, w2) -> no_leak (ev1 ++ ev2) ->
  c_cleanup cfg = true \/ (forall fl i, f = Some fl -> f_note fl <> Some (i, PEval)) ->
  ev2 = [] /\ forall gp, exists m, starts_of gp ev1 = seq 0 m /\ stops_of gp ev1 = rev (seq 0 m).
Proof.
  intros Hf Hl Hn Hc. destruct (life_facts _ _ _ _ _ _ _ _ _ Hf Hl) as (_ & B & _ & T).
  assert (Hn1 : forall gl, ast_leaked (Aof ev1 gl) = false).
  { intro gl. destruct (ast_leaked (Aof ev1 gl)) eqn:E; auto.
    pose proof (leak_persists ev1 ev2 gl (B gl) E) as X. rewrite (Hn gl) in X. discriminate X. }
  destruct (T Hc Hn1) as [-> Hfin]. split; auto. intro gp. apply word_closed. apply Hfin.
Qed.

Lemma rollback_thm pl sp cfg w : fresh_world w -> forall gp w1 k w2,
  graph_word gp (full_log pl sp cfg w) = w1 ++ SN SNF k :: w2 ->
  idxs ASN w1 = seq 0 k /\ idxs BPN w1 = [] /\ idxs ASN w2 = [] /\
  exists c, c <= k /\ idxs BPN w2 = rev (seq c (k - c)) /\ (no_leak (full_log pl sp cfg w) -> c = 0).
Proof.
  intros Hf gp w1 k w2 E. pose proof (full_log_wf pl sp cfg w Hf) as [_ B]. specialize (B gp).
  rewrite Aof_eq, E in B. destruct (word_failed_start _ _ _ B) as (H1 & H2 & H3 & c & H4 & H5 & H6).
  repeat split; auto. exists c. repeat split; auto. intro Hn. apply H6. rewrite <- E, <- Aof_eq.
  apply (full_log_closed pl sp cfg w Hf Hn).
Qed.

Lemma word_stop_pass_final w1 w2 :
  ast_final (arun AFresh (w1 ++ SG BPG :: w2)) = true ->
  exists m, idxs ASN w1 = seq 0 m /\ idxs BPN w1 = [] /\ idxs BPN w2 = rev (seq 0 m).
Proof.
  intro Hfin. assert (H : ast_bad (arun AFresh (w1 ++ SG BPG :: w2)) = false).
  { destruct (arun AFresh (w1 ++ SG BPG :: w2)); auto; discriminate. }
  destruct (word_stop_pass _ _ H) as (m & A1 & B1 & _). exists m. repeat split; auto.
  pose proof (prefix_not_bad _ _ _ H) as H1.
  assert (Ha : arun AFresh w1 = AStarted m).
  { pose proof (AI_run _ H1) as (A1' & _). rewrite A1 in A1'.
    assert (H2 : ast_bad (arun AFresh (w1 ++ [SG BPG])) = false).
    { replace (w1 ++ SG BPG :: w2) with ((w1 ++ [SG BPG]) ++ w2) in H by (rewrite <- app_assoc; reflexivity).
      eapply prefix_not_bad; eauto. }
    rewrite arun_snoc in H2. destruct (arun AFresh w1); crush_step H2. simpl in A1'.
    f_equal. apply (f_equal (@length nat)) in A1'. rewrite !seq_length in A1'. auto. }
  replace (w1 ++ SG BPG :: w2) with ((w1 ++ [SG BPG]) ++ w2) in * by (rewrite <- app_assoc; reflexivity).
  assert (Hf : stopfam m (arun AFresh ((w1 ++ [SG BPG]) ++ w2))).
  { rewrite arun_app in *. apply stopfam_run; auto. rewrite arun_snoc, Ha. reflexivity. }
  pose proof (AI_run _ H) as (A2 & B2 & _).
  destruct (arun AFresh ((w1 ++ [SG BPG]) ++ w2)); simpl in Hf, Hfin; try contradiction; try discriminate.
  subst. simpl in B2. rewrite Nat.sub_0_r in B2. rewrite !idxs_app in B2. simpl in B2. rewrite B1 in B2. exact B2.
Qed.

Lemma stop_pass_thm pl sp cfg w : fresh_world w -> forall gp w1 w2,
  graph_word gp (full_log pl sp cfg w) = w1 ++ SG BPG :: w2 ->
  exists m, idxs ASN w1 = seq 0 m /\ idxs BPN w1 = [] /\
            (In (SG APG) w2 \/ no_leak (full_log pl sp cfg w) -> idxs BPN w2 = rev (seq 0 m)).
Proof.
  intros Hf gp w1 w2 E. pose proof (full_log_wf pl sp cfg w Hf) as [_ B]. specialize (B gp).
  rewrite Aof_eq, E in B. destruct (word_stop_pass _ _ B) as (m & H1 & H2 & H3).
  exists m. repeat split; auto. intros [Hin|Hn]; auto.
  assert (Hfin : ast_final (arun AFresh (w1 ++ SG BPG :: w2)) = true).
  { rewrite <- E, <- Aof_eq. apply (full_log_closed pl sp cfg w Hf Hn). }
  destruct (word_stop_pass_final _ _ Hfin) as (m' & H1' & _ & H3').
  rewrite H1 in H1'. apply (f_equal (@length nat)) in H1'. rewrite !seq_length in H1'. subst. exact H3'.
Qed.

Lemma lifetime_thm pl sp cfg w : fresh_world w -> forall gp w1 k i w2,
  k = BEN \/ k = HE ->
  graph_word gp (full_log pl sp cfg w) = w1 ++ SN k i :: w2 ->
  In i (idxs ASN w1) /\ ~ In i (idxs BPN w1).
Proof.
  intros Hf gp w1 k i w2 Hk E. pose proof (full_log_wf pl sp cfg w Hf) as [_ B]. specialize (B gp).
  rewrite Aof_eq, E in B. eapply word_eval_in_lifetime; eauto.
Qed.

Lemma balanced_thm pl sp cfg w : fresh_world w -> no_leak (full_log pl sp cfg w) -> forall gp,
  let W := graph_word gp (full_log pl sp cfg w) in
  idxs BSN W = idxs ASN W ++ idxs SNF W /\ idxs BEN W = idxs AEN W /\ idxs BPN W = idxs APN W /\
  gcnt BSG W = gcnt ASG W + gcnt SGF W /\ gcnt BGE W = gcnt AGE W /\ gcnt BPG W = gcnt APG W.
Proof.
  intros Hf Hn gp. apply word_balanced. pose proof (full_log_closed pl sp cfg w Hf Hn gp) as H.
  rewrite Aof_eq in H. destruct (arun AFresh _); simpl in *; auto; discriminate.
Qed.

Lemma accepts_thm pl sp cfg w : fresh_world w ->
  log_wf (full_log pl sp cfg w) = true /\
  (no_leak (full_log pl sp cfg w) -> lifecycle_ok (full_log pl sp cfg w) = true).
Proof.
  intro Hf. split.
  - apply log_wf_iff. apply full_log_wf; auto.
  - intro Hn. apply lifecycle_ok_iff. split; [apply full_log_wf|apply full_log_closed]; auto.
Qed.
