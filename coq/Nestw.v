(* Nestw.v — acceptor of the wiring-level nested-vs-inlined check (family nestw, PIPE mode): the input is the
   case, a line [-1], then the implementation's observation lines; the answer is [[1]] iff every variant
   (0 inlined, 1 nested_<G>, 2 nested_<Wrap<G>>) completed and the three sink streams are equal. *)
Require Import Base.

Fixpoint after_marker (w : wire) : wire :=
  match w with
  | [] => []
  | l :: r => match l with (-1) :: _ => r | _ => after_marker r end
  end.

Definition stream_of (v : Z) (out : wire) : list (Z * Z) :=
  flat_map (fun l => match l with
                     | [30; v'; t; x] => if v' =? v then [(t, x)] else []
                     | _ => [] end) out.

Definition completed (v : Z) (out : wire) : bool :=
  existsb (fun l => match l with [31; v'] => v' =? v | _ => false end) out.

Fixpoint stream_eqb (a b : list (Z * Z)) : bool :=
  match a, b with
  | [], [] => true
  | (t, x) :: r, (t', x') :: r' => (t =? t') && (x =? x') && stream_eqb r r'
  | _, _ => false
  end.

(* variants 3 / 4: the body of a switch_ branch wired inline / wrapped in nested_<> (a nested node that starts
   mid-run); they are optional, but run (or fail) together *)
Definition accept (out : wire) : bool :=
  completed 0 out && completed 1 out && completed 2 out
  && stream_eqb (stream_of 1 out) (stream_of 0 out) && stream_eqb (stream_of 2 out) (stream_of 0 out)
  && Bool.eqb (completed 3 out) (completed 4 out) && stream_eqb (stream_of 4 out) (stream_of 3 out).

Definition run_nestw (w : wire) : wire := if accept (after_marker w) then [[1]] else [[0]].
