(* RankFacts.v — proofs about the mirror model of build_ranked_graph (Rank.v):
   the loop invariant of the Kahn pass, soundness, completeness (cycle <-> rejection),
   and the equivalence of the boolean acceptor with the declarative notion of a ranking. *)
Require Import Base Rank RankLemmas.
From Coq Require Import Arith Permutation Lia.
Local Open Scope nat_scope.

(* ------------------------------------------------------------------ pending in-edges *)
(* number of edges (p, v) whose producer p is not yet in [out] *)
Fixpoint pend (es : list (nat * nat)) (out : list nat) (v : nat) : nat :=
  match es with
  | [] => 0
  | (p, c) :: r => (if (c =? v) && negb (memb p out) then 1 else 0) + pend r out v
  end.

Definition cons_of (es : list (nat * nat)) (x : nat) : list nat :=
  map snd (filter (fun e => fst e =? x) es).

Lemma consumers_cons_of g p : consumers g p = cons_of (rg_edges g) p.
Proof. reflexivity. Qed.

Lemma pend_nil es v : pend es [] v = cnt_into es v.
Proof.
  induction es as [|[p c] r IH]; simpl; auto.
  rewrite andb_true_r, IH. reflexivity.
Qed.

Lemma in_cons_of es x c : In c (cons_of es x) <-> In (x, c) es.
Proof.
  unfold cons_of. rewrite in_map_iff. split.
  - intros ([p c'] & Hc & Hin). simpl in Hc. subst c'. apply filter_In in Hin.
    destruct Hin as [Hin Hp]. simpl in Hp. apply Nat.eqb_eq in Hp. subst p. exact Hin.
  - intros Hin. exists (x, c). split; auto. apply filter_In. split; auto. simpl. apply Nat.eqb_refl.
Qed.

Lemma pend_snoc es out x v :
  ~ In x out -> pend es (out ++ [x]) v + cnt v (cons_of es x) = pend es out v.
Proof.
  intros Hx. induction es as [|[p c] r IH]; [reflexivity|].
  unfold cons_of in *. cbn [pend filter fst].
  rewrite memb_app. cbn [memb]. rewrite orb_false_r.
  destruct (Nat.eq_dec p x) as [Heq|Hne].
  - subst p. rewrite Nat.eqb_refl.
    assert (Hm : memb x out = false) by (apply memb_false; exact Hx).
    rewrite Hm. cbn [map snd cnt orb negb]. rewrite andb_false_r.
    destruct (c =? v); cbn [andb]; lia.
  - assert (E1 : (p =? x) = false) by (apply Nat.eqb_neq; exact Hne).
    assert (E2 : (x =? p) = false) by (apply Nat.eqb_neq; congruence).
    rewrite E1, E2, orb_false_r.
    destruct ((c =? v) && negb (memb p out)); lia.
Qed.

Lemma pend_zero es out v : pend es out v = 0 -> forall p, In (p, v) es -> In p out.
Proof.
  induction es as [|[p c] r IH]; simpl; intros H q Hq; [tauto|].
  destruct Hq as [Hq|Hq].
  - injection Hq as -> ->. rewrite Nat.eqb_refl in H. simpl in H.
    destruct (memb q out) eqn:E; [apply memb_In; exact E | simpl in H; lia].
  - apply IH; auto. lia.
Qed.

Lemma pend_pos_ex es out v : 0 < pend es out v -> exists p, In (p, v) es /\ ~ In p out.
Proof.
  induction es as [|[p c] r IH]; simpl; intros H; [lia|].
  destruct ((c =? v) && negb (memb p out)) eqn:E.
  - apply andb_true_iff in E. destruct E as [E1 E2].
    apply Nat.eqb_eq in E1. subst c. apply negb_true_iff, memb_false in E2.
    exists p. split; auto.
  - destruct IH as (q & Hq & Hn); [lia|]. exists q. split; auto.
Qed.

Lemma cnt_into_pos es p c : In (p, c) es -> 0 < cnt_into es c.
Proof.
  induction es as [|[p' c'] r IH]; simpl; intros H; [tauto|].
  destruct H as [H|H].
  - injection H as -> ->. rewrite Nat.eqb_refl. lia.
  - specialize (IH H). lia.
Qed.

Lemma cnt_into_zero es c : cnt_into es c = 0 -> forall p, ~ In (p, c) es.
Proof. intros H p Hin. apply cnt_into_pos in Hin. lia. Qed.

(* ------------------------------------------------------------------ one node leaves a queue *)
Lemma relax_out g st c : k_out (relax g st c) = k_out st.
Proof. unfold relax. destruct (_ =? 1); [destruct (is_push g c)|]; reflexivity. Qed.

Lemma fold_relax_out g cs : forall st, k_out (fold_left (relax g) cs st) = k_out st.
Proof. induction cs as [|c r IH]; intros st; simpl; auto. rewrite IH. apply relax_out. Qed.

Lemma process_out g v st : k_out (process g v st) = k_out st ++ [v].
Proof. unfold process. rewrite fold_relax_out. reflexivity. Qed.

Lemma relax_fields g st c :
  is_push g c = false ->
  k_deg (relax g st c) = update c Nat.pred (k_deg st) /\
  k_qp (relax g st c) = k_qp st /\
  k_q (relax g st c) = (if nth c (k_deg st) 0 =? 1 then k_q st ++ [c] else k_q st).
Proof.
  intros Hp. unfold relax. rewrite Hp. destruct (_ =? 1); simpl; auto.
Qed.

Lemma relax_fold g cs : forall st,
  (forall c, cnt c cs <= nth c (k_deg st) 0) ->
  (forall c, In c cs -> is_push g c = false) ->
  k_qp (fold_left (relax g) cs st) = k_qp st /\
  length (k_deg (fold_left (relax g) cs st)) = length (k_deg st) /\
  (forall c, nth c (k_deg (fold_left (relax g) cs st)) 0 = nth c (k_deg st) 0 - cnt c cs) /\
  exists nq, k_q (fold_left (relax g) cs st) = k_q st ++ nq /\ NoDup nq /\
             (forall c, In c nq <-> In c cs /\ nth c (k_deg st) 0 = cnt c cs).
Proof.
  induction cs as [|c0 cs IH]; intros st Hle Hnp.
  - simpl. repeat split; auto.
    + intros c. lia.
    + exists []. rewrite app_nil_r. repeat split; try constructor; try tauto.
      simpl in H; tauto.
  - cbn [fold_left].
    assert (Hp0 : is_push g c0 = false) by (apply Hnp; left; reflexivity).
    destruct (relax_fields g st c0 Hp0) as (Hd & Hqp & Hq).
    set (st1 := relax g st c0) in *.
    assert (Hdeg1 : forall c, nth c (k_deg st1) 0 = if c =? c0 then Nat.pred (nth c (k_deg st) 0) else nth c (k_deg st) 0).
    { intros c. rewrite Hd. apply nth_update_pred. }
    assert (Hcnt : forall c, cnt c (c0 :: cs) = (if c0 =? c then 1 else 0) + cnt c cs) by reflexivity.
    assert (Hle1 : forall c, cnt c cs <= nth c (k_deg st1) 0).
    { intros c. rewrite Hdeg1. specialize (Hle c). rewrite Hcnt in Hle.
      destruct (c =? c0) eqn:E.
      - apply Nat.eqb_eq in E. subst c. rewrite Nat.eqb_refl in Hle. lia.
      - lia. }
    assert (Hnp1 : forall c, In c cs -> is_push g c = false) by (intros c Hc; apply Hnp; right; exact Hc).
    destruct (IH st1 Hle1 Hnp1) as (Hqp' & Hlen' & Hdeg' & nq & Hq' & Hnd & Hmem).
    split; [congruence|].
    split; [rewrite Hlen', Hd; apply update_length|].
    split.
    { intros c. rewrite Hdeg', Hdeg1, Hcnt. specialize (Hle c). rewrite Hcnt in Hle.
      destruct (c =? c0) eqn:E.
      - apply Nat.eqb_eq in E. subst c. rewrite Nat.eqb_refl in *. lia.
      - rewrite Nat.eqb_sym, E. lia. }
    pose proof (Hle c0) as Hle0. rewrite Hcnt, Nat.eqb_refl in Hle0.
    destruct (nth c0 (k_deg st) 0 =? 1) eqn:E1.
    + apply Nat.eqb_eq in E1.
      assert (Hc0 : cnt c0 cs = 0) by lia.
      exists (c0 :: nq). split; [rewrite Hq', Hq, <- app_assoc; reflexivity|].
      split.
      { apply NoDup_cons_iff. split; auto. intros Hin. apply Hmem in Hin. destruct Hin as [Hin _].
        apply cnt_pos_In in Hin. lia. }
      intros c. cbn [In]. rewrite Hmem, Hdeg1, Hcnt.
      destruct (Nat.eq_dec c c0) as [->|Hne].
      * rewrite Nat.eqb_refl. split; [intros _; split; [auto | lia] | auto].
      * assert (E : (c =? c0) = false) by (apply Nat.eqb_neq; exact Hne).
        assert (E' : (c0 =? c) = false) by (apply Nat.eqb_neq; congruence).
        rewrite E, E'. simpl. split.
        -- intros [H|[H1 H2]]; [congruence | split; auto].
        -- intros [[H|H] H2]; [congruence | right; split; auto].
    + apply Nat.eqb_neq in E1.
      exists nq. split; [rewrite Hq', Hq; reflexivity|]. split; auto.
      intros c. rewrite Hmem, Hdeg1, Hcnt.
      destruct (Nat.eq_dec c c0) as [->|Hne].
      * rewrite Nat.eqb_refl. split.
        -- intros [H1 H2]. split; [right; exact H1 | lia].
        -- intros [_ H2]. assert (Hpos : 0 < cnt c0 cs) by lia.
           split; [apply cnt_pos_In; exact Hpos | lia].
      * assert (E : (c =? c0) = false) by (apply Nat.eqb_neq; exact Hne).
        assert (E' : (c0 =? c) = false) by (apply Nat.eqb_neq; congruence).
        rewrite E, E'. simpl. split.
        -- intros [H1 H2]. split; auto.
        -- intros [[H|H] H2]; [congruence | split; auto].
Qed.

(* ------------------------------------------------------------------ the loop invariant *)
Record Inv (g : rgraph) (st : kst) : Prop := {
  inv_len : length (k_deg st) = rg_n g;
  inv_nd_out : NoDup (k_out st);
  inv_nd_qp : NoDup (k_qp st);
  inv_nd_q : NoDup (k_q st);
  inv_disj : forall v, In v (k_out st) -> ~ In v (k_qp st) /\ ~ In v (k_q st);
  inv_bound : forall v, In v (k_out st) \/ In v (k_qp st) \/ In v (k_q st) -> v < rg_n g;
  inv_deg : forall v, v < rg_n g -> nth v (k_deg st) 0 = pend (rg_edges g) (k_out st) v;
  inv_zero : forall v, v < rg_n g ->
             ((In v (k_out st) \/ In v (k_qp st) \/ In v (k_q st)) <-> nth v (k_deg st) 0 = 0);
  inv_ranked : forall l1 c l2, k_out st = l1 ++ c :: l2 -> forall p, In (p, c) (rg_edges g) -> In p l1;
  inv_qp_push : forall v, In v (k_qp st) -> is_push g v = true;
  inv_q_nopush : forall v, In v (k_q st) -> is_push g v = false;
  inv_pp : push_prefix g (k_out st);
  inv_pp2 : k_qp st <> [] -> forall v, In v (k_out st) -> is_push g v = true;
  inv_allpush : forall v, v < rg_n g -> is_push g v = true -> In v (k_out st) \/ In v (k_qp st)
}.

Definition no_push_dep (g : rgraph) : Prop := forall p c, In (p, c) (rg_edges g) -> is_push g c = false.

Lemma snoc_split {A} (out l1 l2 : list A) (v c : A) :
  out ++ [v] = l1 ++ c :: l2 ->
  (l2 = [] /\ l1 = out /\ c = v) \/ (exists l2', l2 = l2' ++ [v] /\ out = l1 ++ c :: l2').
Proof.
  intros H. destruct l2 as [|y l2 _] using rev_ind.
  - left. change (l1 ++ [c]) with (l1 ++ [c]) in H. apply app_inj_tail in H. destruct H; auto.
  - right.
    assert (H' : out ++ [v] = (l1 ++ c :: l2) ++ [y]) by (rewrite H, <- app_assoc; reflexivity).
    apply app_inj_tail in H'. destruct H' as [H1 H2]. subst y. exists l2. split; auto.
Qed.

Lemma process_inv g deg qp0 q0 qp q out v :
  rg_wf g -> no_push_dep g ->
  Inv g {| k_deg := deg; k_qp := qp0; k_q := q0; k_out := out |} ->
  ((qp0 = v :: qp /\ q0 = q) \/ (qp0 = [] /\ qp = [] /\ q0 = v :: q)) ->
  Inv g (process g v {| k_deg := deg; k_qp := qp; k_q := q; k_out := out |}).
Proof.
  intros [Hwl Hwe] Hnpd I Hcase.
  destruct I as [Ilen Indo Indqp Indq Idisj Ibound Ideg Izero Iranked Iqpp Iqnp Ipp Ipp2 Iall].
  cbn [k_deg k_qp k_q k_out] in *.
  (* facts about v *)
  assert (Hvq : In v qp0 \/ In v q0) by (destruct Hcase as [[-> _]|(_ & _ & ->)]; [left|right]; left; reflexivity).
  assert (Hvn : v < rg_n g) by (apply Ibound; tauto).
  assert (Hvout : ~ In v out).
  { intros Hin. destruct (Idisj v Hin) as [H1 H2]. tauto. }
  assert (Hvdeg : nth v deg 0 = 0) by (apply Izero; auto; tauto).
  assert (Hqp_sub : forall x, In x qp -> In x qp0).
  { destruct Hcase as [[-> _]|(_ & -> & _)]; intros x Hx; [right; exact Hx | destruct Hx]. }
  assert (Hq_sub : forall x, In x q -> In x q0).
  { destruct Hcase as [[_ ->]|(_ & _ & ->)]; intros x Hx; [exact Hx | right; exact Hx]. }
  assert (Hvqp : ~ In v qp).
  { destruct Hcase as [[-> _]|(_ & -> & _)]; [apply NoDup_cons_iff in Indqp; tauto | tauto]. }
  assert (Hvq' : ~ In v q).
  { destruct Hcase as [[-> ->]|(_ & _ & ->)].
    - intros Hin. specialize (Iqnp v Hin). specialize (Iqpp v (or_introl eq_refl)). congruence.
    - apply NoDup_cons_iff in Indq; tauto. }
  assert (Hold : forall x, In x out \/ In x qp0 \/ In x q0 -> x = v \/ In x out \/ In x qp \/ In x q).
  { intros x Hx. destruct Hcase as [[-> ->]|(-> & -> & ->)]; simpl in Hx; intuition auto. }
  (* the relaxation of v's consumers *)
  unfold process. cbn [k_deg k_qp k_q k_out].
  set (cs := consumers g v).
  set (st1 := {| k_deg := deg; k_qp := qp; k_q := q; k_out := out ++ [v] |}).
  assert (Hcs_in : forall c, In c cs <-> In (v, c) (rg_edges g)) by (intros c; apply in_cons_of).
  assert (Hcs_n : forall c, In c cs -> c < rg_n g) by (intros c Hc; apply Hcs_in, Hwe in Hc; tauto).
  assert (Hle : forall c, cnt c cs <= nth c (k_deg st1) 0).
  { intros c. cbn [st1 k_deg]. destruct (Nat.lt_ge_cases c (rg_n g)) as [Hc|Hc].
    - rewrite (Ideg c Hc). rewrite <- (pend_snoc (rg_edges g) out v c Hvout).
      unfold cs. rewrite consumers_cons_of. lia.
    - assert (Hz : cnt c cs = 0) by (apply cnt_zero_notin; intros Hin; apply Hcs_n in Hin; lia). lia. }
  assert (Hnp : forall c, In c cs -> is_push g c = false) by (intros c Hc; apply Hcs_in in Hc; eapply Hnpd; eauto).
  destruct (relax_fold g cs st1 Hle Hnp) as (Fqp & Flen & Fdeg & nq & Fq & Fnd & Fmem).
  pose proof (fold_relax_out g cs st1) as Fout.
  set (st' := fold_left (relax g) cs st1) in *.
  cbn [st1 k_deg k_qp k_q k_out] in Fqp, Flen, Fdeg, Fq, Fout, Fmem.
  assert (Hnew : forall c, In c nq -> c < rg_n g /\ nth c deg 0 <> 0 /\ is_push g c = false).
  { intros c Hc. apply Fmem in Hc. destruct Hc as [Hc1 Hc2]. repeat split; auto.
    apply cnt_pos_In in Hc1. lia. }
  assert (Hnew_old : forall c, In c nq -> ~ (In c out \/ In c qp0 \/ In c q0)).
  { intros c Hc Hin. destruct (Hnew c Hc) as (Hcn & Hcd & _). apply Hcd. apply Izero; auto. }
  constructor.
  - rewrite Flen. exact Ilen.
  - rewrite Fout. apply NoDup_app_intro; auto.
    + constructor; [simpl; tauto | constructor].
    + intros x Hx [Hv|[]]. subst x. tauto.
  - rewrite Fqp. destruct Hcase as [[-> _]|(_ & -> & _)]; [apply NoDup_cons_iff in Indqp; tauto | constructor].
  - rewrite Fq. apply NoDup_app_intro; auto.
    + destruct Hcase as [[_ ->]|(_ & _ & ->)]; [auto | apply NoDup_cons_iff in Indq; tauto].
    + intros x Hx Hn. apply (Hnew_old x Hn). right; right. apply Hq_sub; exact Hx.
  - rewrite Fout, Fqp, Fq. intros x Hx. apply in_app_iff in Hx. destruct Hx as [Hx|[Hx|[]]].
    + destruct (Idisj x Hx) as [H1 H2]. split.
      * intros H; apply H1, Hqp_sub, H.
      * rewrite in_app_iff. intros [H|H]; [apply H2, Hq_sub, H | apply (Hnew_old x H); tauto].
    + subst x. split; auto. rewrite in_app_iff. intros [H|H]; [tauto | apply (Hnew_old v H); tauto].
  - rewrite Fout, Fqp, Fq. intros x Hx. rewrite !in_app_iff in Hx. simpl in Hx.
    destruct Hx as [[Hx|[Hx|[]]]|[Hx|[Hx|Hx]]].
    + apply Ibound; tauto.
    + subst x; exact Hvn.
    + apply Ibound. right; left. apply Hqp_sub, Hx.
    + apply Ibound. right; right. apply Hq_sub, Hx.
    + apply Hnew, Hx.
  - intros c Hc. rewrite Fdeg, Fout, (Ideg c Hc).
    rewrite <- (pend_snoc (rg_edges g) out v c Hvout). unfold cs. rewrite consumers_cons_of. lia.
  - intros c Hc. rewrite Fdeg, Fout, Fqp, Fq. rewrite !in_app_iff. simpl. specialize (Hle c). cbn [st1 k_deg] in Hle.
    split.
    + intros [[H|[H|[]]]|[H|[H|H]]].
      * assert (nth c deg 0 = 0) by (apply Izero; auto). lia.
      * subst c. lia.
      * assert (nth c deg 0 = 0) by (apply Izero; auto; right; left; apply Hqp_sub, H). lia.
      * assert (nth c deg 0 = 0) by (apply Izero; auto; right; right; apply Hq_sub, H). lia.
      * apply Fmem in H. lia.
    + intros Hz. assert (Heq : nth c deg 0 = cnt c cs) by lia.
      destruct (Nat.eq_dec (nth c deg 0) 0) as [H0|H0].
      * apply Izero in H0; auto. apply Hold in H0. intuition auto.
      * right; right; right. apply Fmem. split; auto. apply cnt_pos_In. lia.
  - rewrite Fout. intros l1 c l2 Hsplit p Hp. apply snoc_split in Hsplit.
    destruct Hsplit as [(-> & -> & ->)|(l2' & -> & Ho)].
    + apply (pend_zero (rg_edges g) out v); auto. rewrite <- (Ideg v Hvn). exact Hvdeg.
    + eapply Iranked; eauto.
  - rewrite Fqp. intros x Hx. apply Iqpp, Hqp_sub, Hx.
  - rewrite Fq. intros x Hx. apply in_app_iff in Hx. destruct Hx as [Hx|Hx]; [apply Iqnp, Hq_sub, Hx | apply Hnew, Hx].
  - rewrite Fout. destruct Ipp as (a & b & Hab & Ha & Hb).
    destruct (is_push g v) eqn:Epv.
    + assert (Hall : forall x, In x out -> is_push g x = true).
      { destruct Hcase as [[-> _]|(_ & _ & ->)].
        - apply Ipp2. discriminate.
        - specialize (Iqnp v (or_introl eq_refl)). congruence. }
      exists (out ++ [v]), []. rewrite app_nil_r. repeat split; auto.
      * intros x Hx. apply in_app_iff in Hx. destruct Hx as [Hx|[Hx|[]]]; [auto | subst x; auto].
      * intros x [].
    + exists a, (b ++ [v]). rewrite Hab, app_assoc. repeat split; auto.
      intros x Hx. apply in_app_iff in Hx. destruct Hx as [Hx|[Hx|[]]]; [auto | subst x; auto].
  - rewrite Fqp, Fout. intros Hne x Hx.
    destruct Hcase as [[-> _]|(_ & -> & _)]; [|congruence].
    apply in_app_iff in Hx. destruct Hx as [Hx|[Hx|[]]].
    + apply Ipp2; [discriminate | exact Hx].
    + subst x. apply Iqpp. left; reflexivity.
  - rewrite Fout, Fqp. intros x Hxn Hxp. rewrite in_app_iff. simpl.
    destruct (Iall x Hxn Hxp) as [H|H]; [tauto|].
    destruct Hcase as [[-> _]|(-> & _ & _)]; [|destruct H].
    destruct H as [H|H]; [subst x; tauto | tauto].
Qed.

(* ------------------------------------------------------------------ push-source check, initial state *)
Lemma push_dep_true g : rg_wf g -> (push_dep g = true <-> has_push_dep g).
Proof.
  intros [Hwl Hwe]. unfold push_dep, has_push_dep. rewrite existsb_exists. split.
  - intros (v & Hv & Hb). apply andb_true_iff in Hb. destruct Hb as [Hp Hc].
    apply negb_true_iff, Nat.eqb_neq in Hc.
    assert (Hpos : 0 < pend (rg_edges g) [] v) by (rewrite pend_nil; lia).
    apply pend_pos_ex in Hpos. destruct Hpos as (p & Hin & _). exists p, v. auto.
  - intros (p & c & Hin & Hp). exists c. split.
    + apply in_seq. apply Hwe in Hin. lia.
    + rewrite Hp. simpl. apply negb_true_iff, Nat.eqb_neq. apply cnt_into_pos in Hin. lia.
Qed.

Lemma push_dep_false g : rg_wf g -> push_dep g = false -> no_push_dep g.
Proof.
  intros Hwf Hpd p c Hin. destruct (is_push g c) eqn:E; auto.
  assert (H : push_dep g = true) by (apply push_dep_true; auto; exists p, c; auto). congruence.
Qed.

Lemma init_inv g : rg_wf g -> no_push_dep g -> Inv g (init_st g).
Proof.
  intros [Hwl Hwe] Hnpd.
  assert (Hd : forall v, v < rg_n g -> nth v (indeg_init g) 0 = cnt_into (rg_edges g) v).
  { intros v Hv. unfold indeg_init. apply nth_map_seq. exact Hv. }
  unfold init_st. constructor; cbn [k_deg k_qp k_q k_out].
  - unfold indeg_init. rewrite map_length, seq_length. reflexivity.
  - constructor.
  - apply NoDup_filter, seq_NoDup.
  - apply NoDup_filter, seq_NoDup.
  - intros v [].
  - intros v [[]|[H|H]]; apply filter_In in H; destruct H as [H _]; apply in_seq in H; lia.
  - intros v Hv. rewrite pend_nil. apply Hd, Hv.
  - intros v Hv. rewrite !filter_In, in_seq. split.
    + intros [[]|[[_ H]|[_ H]]]; apply andb_true_iff in H; destruct H as [_ H]; apply Nat.eqb_eq in H; exact H.
    + intros Hz. destruct (is_push g v) eqn:E; [right; left | right; right];
        (split; [lia | rewrite Hz; reflexivity]).
  - intros l1 c l2 H. destruct l1; discriminate.
  - intros v H. apply filter_In in H. destruct H as [_ H]. apply andb_true_iff in H. tauto.
  - intros v H. apply filter_In in H. destruct H as [_ H]. apply andb_true_iff in H. destruct H as [H _].
    apply negb_true_iff in H. exact H.
  - exists [], []. repeat split; intros v [].
  - intros _ v [].
  - intros v Hv Hp. right. apply filter_In. split; [apply in_seq; lia|].
    rewrite Hp. simpl. apply Nat.eqb_eq. rewrite (Hd v Hv).
    destruct (cnt_into (rg_edges g) v) eqn:E; auto.
    assert (Hpos : 0 < pend (rg_edges g) [] v) by (rewrite pend_nil; lia).
    apply pend_pos_ex in Hpos. destruct Hpos as (p & Hin & _).
    specialize (Hnpd p v Hin). congruence.
Qed.

(* ------------------------------------------------------------------ the loop *)
Lemma kstep_inv g st st' : rg_wf g -> no_push_dep g -> Inv g st -> kstep g st = Some st' ->
  Inv g st' /\ length (k_out st') = S (length (k_out st)).
Proof.
  intros Hwf Hnpd I Hs. unfold kstep in Hs. destruct st as [deg qp0 q0 out]. cbn [k_deg k_qp k_q k_out] in *.
  destruct qp0 as [|v qp].
  - destruct q0 as [|v q]; [discriminate|]. injection Hs as <-. split.
    + eapply process_inv; eauto.
    + rewrite process_out. cbn [k_out]. rewrite app_length. simpl. lia.
  - injection Hs as <-. split.
    + eapply process_inv; eauto.
    + rewrite process_out. cbn [k_out]. rewrite app_length. simpl. lia.
Qed.

Lemma inv_total_length g st : Inv g st -> length (k_out st) + length (k_qp st) + length (k_q st) <= rg_n g.
Proof.
  intros I. rewrite <- !app_length. apply NoDup_bounded_length.
  - apply NoDup_app_intro.
    + apply NoDup_app_intro; [apply (inv_nd_out _ _ I) | apply (inv_nd_qp _ _ I) |].
      intros x Hx. apply (inv_disj _ _ I x Hx).
    + apply (inv_nd_q _ _ I).
    + intros x Hx Hq. apply in_app_iff in Hx. destruct Hx as [Hx|Hx].
      * apply (inv_disj _ _ I x Hx). exact Hq.
      * pose proof (inv_qp_push _ _ I x Hx). pose proof (inv_q_nopush _ _ I x Hq). congruence.
  - intros v Hv. rewrite !in_app_iff in Hv. apply (inv_bound _ _ I). tauto.
Qed.

Lemma kloop_final g : rg_wf g -> no_push_dep g -> forall fuel st,
  Inv g st -> rg_n g <= fuel + length (k_out st) ->
  Inv g (kloop g fuel st) /\ k_qp (kloop g fuel st) = [] /\ k_q (kloop g fuel st) = [].
Proof.
  intros Hwf Hnpd. induction fuel as [|f IH]; intros st I Hf; cbn [kloop].
  - split; auto. pose proof (inv_total_length g st I) as Ht.
    destruct (k_qp st); destruct (k_q st); simpl in *; auto; lia.
  - destruct (kstep g st) as [st'|] eqn:E.
    + destruct (kstep_inv g st st' Hwf Hnpd I E) as [I' Hl]. apply IH; auto. lia.
    + split; auto. unfold kstep in E. destruct (k_qp st); [|discriminate]. destruct (k_q st); [auto|discriminate].
Qed.

(* ------------------------------------------------------------------ soundness *)
Lemma kahn_run g : rg_wf g -> push_dep g = false ->
  let st := kloop g (rg_n g) (init_st g) in Inv g st /\ k_qp st = [] /\ k_q st = [].
Proof.
  intros Hwf Hpd. apply kloop_final; auto using push_dep_false, init_inv.
  unfold init_st. simpl. lia.
Qed.

Lemma kahn_sound g o : rg_wf g -> kahn g = KOk o -> is_ranking g o.
Proof.
  intros Hwf H. unfold kahn in H. destruct (push_dep g) eqn:Hpd; [discriminate|].
  destruct (kahn_run g Hwf Hpd) as (I & Hqp & Hq).
  set (st := kloop g (rg_n g) (init_st g)) in *.
  destruct (length (k_out st) =? rg_n g) eqn:El; [|discriminate]. injection H as <-.
  apply Nat.eqb_eq in El.
  assert (Hperm : Permutation (k_out st) (seq 0 (rg_n g))).
  { apply full_perm; auto; [apply (inv_nd_out _ _ I) | intros v Hv; apply (inv_bound _ _ I); tauto]. }
  split; [exact Hperm|]. split; [|apply (inv_pp _ _ I)].
  intros p c Hin.
  assert (Hc : In c (k_out st)).
  { apply Permutation_in with (l := seq 0 (rg_n g)); [apply Permutation_sym; exact Hperm|].
    apply in_seq. destruct Hwf as [_ Hwe]. apply Hwe in Hin. lia. }
  apply in_split in Hc. destruct Hc as (l1 & l2 & Hs).
  pose proof (inv_ranked _ _ I l1 c l2 Hs p Hin) as Hp.
  pose proof (inv_nd_out _ _ I) as Hnd. rewrite Hs in Hnd |- *.
  apply NoDup_app_inv in Hnd. destruct Hnd as (_ & _ & Hd).
  rewrite pos_app_in by exact Hp.
  rewrite pos_app_notin by (intros Hc; apply (Hd c Hc); left; reflexivity).
  simpl. rewrite Nat.eqb_refl. apply pos_lt_In in Hp. lia.
Qed.

(* ------------------------------------------------------------------ completeness *)
Lemma tcr_trans R a b c : tcr R a b -> tcr R b c -> tcr R a c.
Proof.
  intros H. revert c. induction H as [a b H|a b c0 H _ IH]; intros c Hc.
  - eapply tcr_step; eauto.
  - eapply tcr_step; eauto.
Qed.

(* every element of a non-empty finite set has a predecessor in the set => there is a cycle *)
Lemma pred_closed_cycle (l : list nat) : forall (R : nat -> nat -> Prop),
  l <> [] -> (forall v, In v l -> exists p, In p l /\ R p v) -> exists v, tcr R v v.
Proof.
  induction l as [|x l IH]; intros R Hne Hpred; [congruence|].
  destruct (Hpred x (or_introl eq_refl)) as (px & Hpx & Rpx).
  destruct (Nat.eq_dec px x) as [->|Hpxne].
  - exists x. apply tcr_one. exact Rpx.
  - assert (Hpxl : In px l) by (destruct Hpx; [congruence | auto]).
    set (R' := fun p v => R p v \/ (R p x /\ R x v)).
    assert (Hc : exists v, tcr R' v v).
    { apply IH.
      - intros ->. destruct Hpxl.
      - intros v Hv. destruct (Hpred v (or_intror Hv)) as (p & Hp & Rp).
        destruct (Nat.eq_dec p x) as [->|Hpne].
        + exists px. split; auto. right. auto.
        + exists p. split; [destruct Hp; [congruence | auto] | left; exact Rp]. }
    destruct Hc as (v & Hv). exists v.
    assert (Hgen : forall a b, tcr R' a b -> tcr R a b).
    { intros a b Ht. induction Ht as [a b [H|[H1 H2]]|a b c [H|[H1 H2]] _ IHt].
      - apply tcr_one; auto.
      - eapply tcr_step; [exact H1 | apply tcr_one; exact H2].
      - eapply tcr_step; eauto.
      - eapply tcr_step; [exact H1 | eapply tcr_step; eauto]. }
    apply Hgen, Hv.
Qed.

Lemma ranking_orders_tc g o : (forall p c, In (p, c) (rg_edges g) -> pos p o < pos c o) ->
  forall a b, tc (rg_edges g) a b -> pos a o < pos b o.
Proof.
  intros He a b H. induction H as [a b H|a b c H _ IH].
  - apply He, H.
  - specialize (He a b H). lia.
Qed.

Lemma ranking_acyclic g o : is_ranking g o -> ~ cyclic g.
Proof.
  intros (_ & He & _) (v & Hv). pose proof (ranking_orders_tc g o He v v Hv). lia.
Qed.

Lemma kahn_cycle_found g : rg_wf g -> kahn g = KCycle -> cyclic g.
Proof.
  intros Hwf H. unfold kahn in H. destruct (push_dep g) eqn:Hpd; [discriminate|].
  destruct (kahn_run g Hwf Hpd) as (I & Hqp & Hq).
  set (st := kloop g (rg_n g) (init_st g)) in *.
  destruct (length (k_out st) =? rg_n g) eqn:El; [discriminate|]. clear H.
  apply Nat.eqb_neq in El.
  pose proof (inv_total_length g st I) as Ht.
  assert (Hlt : length (k_out st) < rg_n g) by lia.
  destruct (missing_exists _ _ Hlt) as (v0 & Hv0 & Hv0out).
  set (l := filter (fun v => negb (memb v (k_out st))) (seq 0 (rg_n g))).
  assert (Hl : forall v, In v l <-> v < rg_n g /\ ~ In v (k_out st)).
  { intros v. unfold l. rewrite filter_In, in_seq, negb_true_iff, memb_false. split; intros [H1 H2]; split; auto; lia. }
  unfold cyclic, tc. apply pred_closed_cycle with (l := l).
  - intros E. assert (Hin : In v0 l) by (apply Hl; auto). rewrite E in Hin. destruct Hin.
  - intros v Hv. apply Hl in Hv. destruct Hv as [Hvn Hvo].
    assert (Hdz : nth v (k_deg st) 0 <> 0).
    { intros Hz. apply (inv_zero _ _ I v Hvn) in Hz. rewrite Hqp, Hq in Hz. simpl in Hz. tauto. }
    rewrite (inv_deg _ _ I v Hvn) in Hdz.
    destruct (pend_pos_ex (rg_edges g) (k_out st) v) as (p & Hp & Hpo); [lia|].
    exists p. split; auto. apply Hl. split; auto. destruct Hwf as [_ Hwe]. apply Hwe in Hp. tauto.
Qed.

Lemma kahn_complete g : rg_wf g -> (kahn g = KCycle <-> cyclic g /\ ~ has_push_dep g).
Proof.
  intros Hwf. split.
  - intros H. split; [apply kahn_cycle_found; auto|].
    intros Hp. apply push_dep_true in Hp; auto. unfold kahn in H. rewrite Hp in H. discriminate.
  - intros [Hc Hnp]. destruct (kahn g) as [o| |] eqn:E; auto.
    + exfalso. apply (ranking_acyclic g o); auto. apply kahn_sound; auto.
    + exfalso. apply Hnp. apply push_dep_true; auto. unfold kahn in E.
      destruct (push_dep g); auto. destruct (_ =? _); discriminate.
Qed.

Lemma kahn_push_dep g : rg_wf g -> (kahn g = KPushDep <-> has_push_dep g).
Proof.
  intros Hwf. rewrite <- push_dep_true by exact Hwf. unfold kahn.
  destruct (push_dep g); [tauto|]. destruct (_ =? _); split; discriminate.
Qed.

(* accepted iff acyclic and no push source has a rank dependency *)
Lemma kahn_accepts g : rg_wf g -> ((exists o, kahn g = KOk o) <-> ~ cyclic g /\ ~ has_push_dep g).
Proof.
  intros Hwf. split.
  - intros (o & Ho). split.
    + apply (ranking_acyclic g o). apply kahn_sound; auto.
    + intros Hp. apply kahn_push_dep in Hp; auto. congruence.
  - intros [Hnc Hnp]. destruct (kahn g) as [o| |] eqn:E.
    + eauto.
    + exfalso. apply Hnc. apply kahn_complete in E; tauto.
    + exfalso. apply Hnp. apply kahn_push_dep; auto.
Qed.

(* ------------------------------------------------------------------ the acceptor *)
Lemma rg_wfb_spec g : rg_wfb g = true <-> rg_wf g.
Proof.
  unfold rg_wfb, rg_wf. rewrite andb_true_iff, Nat.eqb_eq, forallb_forall. split.
  - intros [Hl He]. split; auto. intros p c Hin. specialize (He _ Hin). simpl in He.
    apply andb_true_iff in He. rewrite !Nat.ltb_lt in He. exact He.
  - intros [Hl He]. split; auto. intros [p c] Hin. simpl. apply andb_true_iff. rewrite !Nat.ltb_lt. auto.
Qed.

Lemma valid_ranking_accepts g o : valid_ranking g o = true <-> is_ranking g o.
Proof.
  unfold valid_ranking, is_ranking. rewrite !andb_true_iff, Nat.eqb_eq, !forallb_forall, nodupb_NoDup, prefixb_spec.
  split.
  - intros ((((Hl & Hb) & Hnd) & He) & Hp). split; [|split].
    + apply full_perm; auto. intros v Hv. apply Nat.ltb_lt. apply Hb, Hv.
    + intros p c Hin. specialize (He _ Hin). simpl in He. apply Nat.ltb_lt. exact He.
    + destruct Hp as (a & b & Hab & Ha & Hb'). apply map_eq_app in Hab.
      destruct Hab as (l1 & l2 & -> & <- & <-). exists l1, l2. repeat split.
      * intros v Hv. apply Ha. apply in_map. exact Hv.
      * intros v Hv. apply Hb'. apply in_map. exact Hv.
  - intros (Hperm & He & (a & b & -> & Ha & Hb)).
    repeat split.
    + apply Permutation_length in Hperm. rewrite seq_length in Hperm. exact Hperm.
    + intros v Hv. apply Nat.ltb_lt. apply (Permutation_in _ Hperm) in Hv. apply in_seq in Hv. lia.
    + apply (Permutation_NoDup (Permutation_sym Hperm)). apply seq_NoDup.
    + intros [p c] Hin. simpl. apply Nat.ltb_lt. apply He, Hin.
    + exists (map (is_push g) a), (map (is_push g) b). rewrite map_app. repeat split.
      * intros x Hx. apply in_map_iff in Hx. destruct Hx as (v & <- & Hv). auto.
      * intros x Hx. apply in_map_iff in Hx. destruct Hx as (v & <- & Hv). auto.
Qed.

(* THE order of build_ranked_graph is accepted by the acceptor: requiring the implementation's order to
   equal [kahn]'s (the documented insertion-order tie-break) is a strengthening of the validity check, so
   every theorem about accepted orders applies to it. *)
Lemma kahn_order_accepted g o : rg_wf g -> kahn g = KOk o -> valid_ranking g o = true.
Proof. intros Hwf H. apply valid_ranking_accepts. apply kahn_sound; auto. Qed.
