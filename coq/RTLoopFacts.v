(* RTLoopFacts.v — lemmas about the real-time loop model (RTLoop.v): invariants of
   every run, by induction on the label list. *)
Require Import Base RTLoop.
From Coq Require Import ZifyBool.

Local Arguments Z.max : simpl never.
Local Arguments Z.min : simpl never.
Local Arguments Z.add : simpl never.
Local Arguments Z.sub : simpl never.
Local Arguments Z.leb : simpl never.
Local Arguments Z.ltb : simpl never.
Local Arguments Z.eqb : simpl never.
Local Arguments Z.le : simpl never.
Local Arguments Z.lt : simpl never.
Local Arguments Z.of_nat : simpl never.
Local Arguments Z.to_nat : simpl never.
Local Arguments target_of : simpl never.
Local Arguments eval_time : simpl never.
Local Arguments advance_result : simpl never.
Local Arguments drain_cut : simpl never.
Local Arguments pend_add : simpl never.
Local Arguments pend_after : simpl never.
Local Arguments pend_min : simpl never.
Local Arguments sched_eff : simpl never.
Local Arguments req_reads : simpl never.

(* validate_times: end_time after start_time; the builder's default end is MAX_ET *)
Definition wfc (c : cfg) : Prop := c_start c < c_end c /\ c_end c <= MAX_DT.

(* ------------------------------------------------------------------ *)
(* the pending set *)
Lemma zmin_list_le : forall d l p, In p l -> zmin_list d l <= p.
Proof. induction l as [|x r IH]; simpl; intros p H; [tauto|]. destruct H as [->|H]; [lia|]. specialize (IH _ H). lia. Qed.

Lemma zmin_list_le_d : forall d l, zmin_list d l <= d.
Proof. induction l as [|x r IH]; simpl; lia. Qed.

Lemma zmin_list_lb : forall d l b, b <= d -> (forall p, In p l -> b <= p) -> b <= zmin_list d l.
Proof.
  induction l as [|x r IH]; simpl; intros b Hd H; [lia|].
  assert (b <= x) by (apply H; auto). assert (b <= zmin_list d r) by (apply IH; auto). lia.
Qed.

Lemma pend_min_le : forall l p, In p l -> pend_min l <= p.
Proof. intros; apply zmin_list_le; auto. Qed.

Lemma pend_add_in : forall x l p, In p (pend_add x l) <-> p = x \/ In p l.
Proof.
  intros x l p; unfold pend_add. destruct (existsb (Z.eqb x) l) eqn:E.
  - apply existsb_exists in E. destruct E as [y [Hy Hxy]]. assert (x = y) by lia. subst y.
    split; [tauto|]. intros [->|H]; auto.
  - simpl. split; intros [H|H]; auto.
Qed.

Lemma pend_after_in : forall t l p, In p (pend_after t l) <-> In p l /\ t < p.
Proof. intros; unfold pend_after; rewrite filter_In. cbv beta. split; intros [H1 H2]; split; auto; lia. Qed.

(* the target is below every pending time and below end, and above any common lower bound *)
Lemma target_le_end : forall c s, target_of c s <= c_end c.
Proof. intros; unfold target_of; lia. Qed.

Lemma target_le_pend : forall c s p, c_end c <= MAX_DT -> In p (pend s) -> target_of c s <= p.
Proof.
  intros c s p Hm H. unfold target_of. pose proof (pend_min_le _ _ H).
  destruct ((pend_min (pend s) =? MAX_DT) || (c_end c <=? pend_min (pend s))) eqn:E; lia.
Qed.

Lemma target_lb : forall c s b, c_end c <= MAX_DT -> b <= c_end c -> (forall p, In p (pend s) -> b <= p) -> b <= target_of c s.
Proof.
  intros c s b Hm Hb H. unfold target_of.
  destruct ((pend_min (pend s) =? MAX_DT) || (c_end c <=? pend_min (pend s))) eqn:E; [lia|].
  assert (b <= pend_min (pend s)); [|lia].
  unfold pend_min. apply zmin_list_lb; [lia | auto].
Qed.

(* ------------------------------------------------------------------ *)
(* NodeScheduler::schedule *)
Lemma sched_abs_started_gt : forall now w when onwall e, sched_abs true now w when onwall = Some e -> now < e.
Proof.
  unfold sched_abs, MIN_TD; intros now w when onwall e H. destruct onwall.
  - destruct (when <=? Z.max now w) eqn:E; inversion H; subst; lia.
  - destruct (when <=? now) eqn:E; inversion H; subst; lia.
Qed.

Lemma sched_abs_start_ge : forall now w when onwall e, sched_abs false now w when onwall = Some e -> now <= e.
Proof.
  unfold sched_abs; intros now w when onwall e H. destruct onwall.
  - destruct (when <? Z.max now w) eqn:E; inversion H; subst; lia.
  - destruct (when <? now) eqn:E; inversion H; subst; lia.
Qed.

Lemma sched_eff_started_gt : forall now k a w1 w2 e, sched_eff true now k a w1 w2 = Some e -> now < e.
Proof.
  unfold sched_eff; intros now k a w1 w2 e H.
  destruct (k =? 1); [eapply sched_abs_started_gt; eauto|].
  destruct (k =? 2); [eapply sched_abs_started_gt; eauto|].
  destruct (k =? 3); [eapply sched_abs_started_gt; eauto|].
  destruct (k =? 4); [eapply sched_abs_started_gt; eauto|discriminate].
Qed.

Lemma sched_eff_start_ge : forall now k a w1 w2 e, sched_eff false now k a w1 w2 = Some e -> now <= e.
Proof.
  unfold sched_eff; intros now k a w1 w2 e H.
  destruct (k =? 1); [eapply sched_abs_start_ge; eauto|].
  destruct (k =? 2); [eapply sched_abs_start_ge; eauto|].
  destruct (k =? 3); [eapply sched_abs_start_ge; eauto|].
  destruct (k =? 4); [eapply sched_abs_start_ge; eauto|discriminate].
Qed.

(* a wall-clock alarm is never ignored; one that is already due is entered for
   max(now + MIN_TD, wall), which is after the current cycle *)
Lemma wall_alarm_never_dropped : forall started now w when,
  exists e, sched_abs started now w when true = Some e.
Proof.
  intros started now w when; unfold sched_abs. destruct started.
  - destruct (when <=? Z.max now w); eauto.
  - destruct (when <? Z.max now w); eauto.
Qed.

Lemma wall_alarm_due : forall now w when,
  when <= Z.max now w -> sched_abs true now w when true = Some (Z.max (now + MIN_TD) w).
Proof.
  intros now w when H; unfold sched_abs, MIN_TD. destruct (when <=? Z.max now w) eqn:E; [|lia]. f_equal; lia.
Qed.

Lemma wall_alarm_future : forall now w when,
  Z.max now w < when -> sched_abs true now w when true = Some when.
Proof. intros now w when H; unfold sched_abs. destruct (when <=? Z.max now w) eqn:E; [lia|auto]. Qed.

(* ------------------------------------------------------------------ *)
(* the cycle time rule *)
Lemma eval_time_le_target : forall tgt w prev, eval_time tgt w prev <= tgt.
Proof. intros; unfold eval_time; lia. Qed.

Lemma eval_time_not_early : forall tgt w prev, eval_time tgt w prev <= Z.max w (prev + MIN_TD).
Proof. intros; unfold eval_time; lia. Qed.

Lemma eval_time_advances : forall tgt w prev, prev + MIN_TD <= tgt -> prev + MIN_TD <= eval_time tgt w prev.
Proof. intros; unfold eval_time; lia. Qed.

(* ------------------------------------------------------------------ *)
(* what is true of one recorded advance *)
Definition cyc_ok (c : cfg) (a : cyc) : Prop :=
  ctgt a <= c_end c /\
  (cw a < ctgt a -> cwk a = true) /\
  (ct a = eval_time (ctgt a) (cw a) (cprev a) \/
   (ct a = c_end c /\ c_end c <= cw a /\ eval_time (ctgt a) (cw a) (cprev a) <= cprev a + MIN_TD)).

(* the recorded advances, newest first: each starts from the time the one before produced *)
Fixpoint chain (c : cfg) (l : list cyc) : Prop :=
  match l with
  | [] => True
  | a :: rest =>
      cyc_ok c a /\
      match rest with
      | [] => cprev a = c_start c /\ c_start c <= ct a
      | b :: _ => cprev a = ct b /\ ct b < ct a
      end /\ chain c rest
  end.

(* below every pending time and every target outside an evaluation *)
Definition lowb (s : st) : Z := match cycles s with [] => ev s | _ => ev s + MIN_TD end.

Definition adv_inv (c : cfg) (s : st) (tgt : Z) : Prop :=
  tgt = target_of c s /\ (forall p, In p (pend s) -> lowb s <= p) /\ ev s < c_end c /\ cut s = false.

Definition phase_inv (c : cfg) (s : st) : Prop :=
  match ph s with
  | PStart => cycles s = [] /\ (forall p, In p (pend s) -> ev s <= p) /\ cut s = false
  | PTop => (forall p, In p (pend s) -> lowb s <= p) /\ ev s < c_end c /\ cut s = false
  | PRead tgt => adv_inv c s tgt
  | PWait tgt _ => adv_inv c s tgt
  | PCheck tgt w _ brk => adv_inv c s tgt /\ (brk = true -> wake_requested s = true)
  | PWoke tgt b => adv_inv c s tgt /\ (b = true -> wake_requested s = true)
  | PAdv prev t =>
      t = ev s /\ (exists a rest, cycles s = a :: rest /\ cprev a = prev) /\
      (cut s = false -> forall p, In p (pend s) -> t <= p) /\ (cut s = true -> t = c_end c)
  | PEvalPre t => t = ev s /\ t < c_end c /\ cycles s <> [] /\ (forall p, In p (pend s) -> t <= p) /\ cut s = false
  | PEval t => t = ev s /\ t < c_end c /\ cycles s <> [] /\ (forall p, In p (pend s) -> t <= p) /\ cut s = false
  | PDone => stop s = false -> cut s = false -> forall p, In p (pend s) -> c_end c <= p
  end.

Definition Inv (c : cfg) (s : st) : Prop :=
  phase_inv c s /\
  ev s = match cycles s with [] => c_start c | a :: _ => ct a end /\
  chain c (cycles s).

Lemma Inv_init : forall c w0, Inv c (init c w0).
Proof. intros; unfold Inv, init, phase_inv; simpl. repeat split; auto; intros; tauto. Qed.

Lemma adv_target_lb : forall c s tgt, c_end c <= MAX_DT -> adv_inv c s tgt -> lowb s <= tgt /\ tgt <= c_end c /\ forall p, In p (pend s) -> tgt <= p.
Proof.
  intros c s tgt Hm (-> & Hp & He & _). split; [|split].
  - apply target_lb; auto. unfold lowb, MIN_TD. destruct (cycles s); lia.
  - apply target_le_end.
  - intros; apply target_le_pend; auto.
Qed.

Ltac inv_some H := first [discriminate H | injection H as H; match type of H with _ = ?v => subst v end].

(* requests keep the lower bound *)
Lemma do_req_pend : forall st0 s k a w1 w2 e s' b,
  do_req st0 s k a w1 w2 e = Some s' ->
  (forall e', sched_eff st0 (ev s) k a w1 w2 = Some e' -> b <= e') ->
  (forall p, In p (pend s) -> b <= p) ->
  (forall p, In p (pend s') -> b <= p) /\
  ev s' = ev s /\ push s' = push s /\ stop s' = stop s /\ consec s' = consec s /\ ph s' = ph s /\
  notif s' = notif s /\ cycles s' = cycles s /\ cut s' = cut s /\ wall s <= wall s'.
Proof.
  intros st0 s k a w1 w2 e s' b H He Hp. unfold do_req in H.
  set (okw := if req_reads k =? 0 then true else if req_reads k =? 1 then wall s <=? w1 else (wall s <=? w1) && (w1 <=? w2)) in *.
  destruct okw eqn:Eo; simpl in H; [|discriminate].
  assert (Hw : wall s <= (if req_reads k =? 0 then wall s else if req_reads k =? 1 then w1 else w2)).
  { subst okw. destruct (req_reads k =? 0); [lia|]. destruct (req_reads k =? 1); lia. }
  destruct (sched_eff st0 (ev s) k a w1 w2) as [e'|] eqn:Es.
  - destruct (e' =? e) eqn:Ee; [|discriminate]. inv_some H. simpl. repeat split; auto.
    intros p Hin. apply pend_add_in in Hin. destruct Hin as [->|Hin]; auto.
  - destruct (e =? 0); [|discriminate]. inv_some H. simpl. repeat split; auto.
Qed.

Lemma Inv_step : forall c s l s', wfc c -> Inv c s -> gstep c s l = Some s' -> Inv c s'.
Proof.
  intros c s l s' [Hse Hem] (HP & HE & HC) H.
  destruct s as [ev0 pend0 push0 stop0 consec0 ph0 wall0 notif0 cycles0 cut0].
  unfold gstep in H. destruct (step c _ l) as [s1|] eqn:Hs; [|discriminate].
  unfold step in Hs. destruct (is_other l) eqn:Ho.
  - (* another thread: flags and the notify count only *)
    assert (s' = s1) by (simpl in H; destruct ph0; destruct l; simpl in Ho; try discriminate; inv_some H; auto).
    subst s1. clear H.
    unfold Inv, phase_inv, adv_inv, lowb, wake_requested in *; simpl in *.
    destruct l; simpl in Ho; try discriminate; simpl in Hs.
    + destruct (lock_held ph0); [discriminate|]. destruct stop0; inv_some Hs; simpl; auto.
      destruct ph0; simpl in *; intuition.
    + destruct (0 <? notif0); inv_some Hs; simpl. destruct ph0; simpl in *; intuition.
    + destruct (lock_held ph0); [discriminate|]. inv_some Hs; simpl.
      destruct ph0; simpl in *; intuition; rewrite Bool.orb_true_r; auto.
    + destruct (0 <? notif0); inv_some Hs; simpl. destruct ph0; simpl in *; intuition.
  - 
    unfold Inv, phase_inv in *; simpl in *.
    destruct ph0; destruct l; simpl in Ho; try discriminate; simpl in Hs; try discriminate.
    + (* PStart, request *)
      inv_some H. destruct HP as (Hc & Hp & Hcut).
      destruct (do_req_pend false _ _ _ _ _ _ _ ev0 Hs) as (Hp' & E1 & E2 & E3 & E4 & E5 & E6 & E7 & E8 & E9).
      { intros e' He'. apply sched_eff_start_ge in He'. simpl in He'. exact He'. }
      { exact Hp. }
      simpl in *. rewrite E5, E7, E8, E1. subst cycles0. simpl. repeat split; auto.
    + (* PStart, clock read *)
      destruct (wall0 <=? w); inv_some Hs. inv_some H. simpl. auto.
    + inv_some Hs. inv_some H. simpl. auto.
    + (* PStart -> PTop *)
      inv_some Hs. inv_some H. simpl. destruct HP as (Hc & Hp & Hcut). subst cycles0. unfold lowb; simpl.
      repeat split; auto; try (simpl in HE; lia).
    + (* PTop, LTop *)
      destruct stop0; inv_some Hs. inv_some H. simpl. destruct HP as (Hp & He & Hcut).
      unfold adv_inv; simpl. repeat split; auto.
    + (* PTop, LExit *)
      destruct stop0; inv_some Hs. inv_some H. simpl. repeat split; auto. discriminate.
    + (* PRead, LRead *)
      destruct (wall0 <=? w); inv_some Hs. inv_some H. simpl. unfold adv_inv, lowb in *; simpl in *.
      repeat split; try tauto. discriminate.
    + (* PCheck, LWaitBefore *)
      destruct (negb brk && (w <? tgt) && negb (wake_requested _)); inv_some Hs. inv_some H. simpl.
      unfold adv_inv, lowb in *; simpl in *. tauto.
    + (* PCheck, LAdv: the cycle time *)
      destruct HP as (HA & Hbrk). pose proof (adv_target_lb _ _ _ Hem HA) as (Hlb & Hte & Htp).
      destruct HA as (Etgt & Hp & Hev & Hcut). simpl in *. subst cut0.
      match type of Hs with (if ?b then _ else _) = _ => destruct b eqn:Ewait end; [discriminate|].
      destruct (t =? advance_result c _ tgt w) eqn:Et; inv_some Hs. inv_some H. simpl.
      assert (Et' : t = advance_result c (mkSt ev0 pend0 push0 stop0 consec0 (PCheck tgt w locked brk) wall0 notif0 cycles0 false) tgt w) by lia.
      clear Et. unfold advance_result in Et'; simpl in Et'.
      set (s0 := mkSt ev0 pend0 push0 stop0 consec0 (PCheck tgt w locked brk) wall0 notif0 cycles0 false) in *.
      assert (Hwk : w < tgt -> wake_requested s0 = true).
      { intros Hlt. destruct brk; [apply Hbrk; auto|]. simpl in Ewait.
        destruct (wake_requested s0); auto. simpl in Ewait. lia. }
      unfold lowb in Hlb; simpl in Hlb.
      assert (Hlow : (match cycles0 with [] => ev0 | _ => ev0 + MIN_TD end) <= t /\ t <= c_end c /\
                     (drain_cut c s0 tgt w = false -> t = eval_time tgt w ev0) /\
                     (drain_cut c s0 tgt w = true -> t = c_end c /\ c_end c <= w /\ eval_time tgt w ev0 <= ev0 + MIN_TD)).
      { unfold drain_cut in *; simpl in *.
        destruct ((c_end c <=? w) && (eval_time tgt w ev0 <=? ev0 + MIN_TD) && (MAX_DRAIN <=? consec0)) eqn:Ed.
        - subst t. unfold MIN_TD in *. repeat split; try lia; try discriminate; destruct cycles0; lia.
        - subst t. unfold eval_time, MIN_TD in *. repeat split; try lia; try discriminate; destruct cycles0; lia. }
      destruct Hlow as (Hl1 & Hl2 & Hl3 & Hl4).
      repeat split; auto.
      * eauto.
      * intros Hc p Hin. destruct (drain_cut c s0 tgt w) eqn:Ed; [discriminate|].
        rewrite (Hl3 eq_refl). specialize (Htp _ Hin). pose proof (eval_time_le_target tgt w ev0). lia.
      * intros Hc. destruct (drain_cut c s0 tgt w) eqn:Ed; [|discriminate]. apply Hl4; auto.
      * unfold cyc_ok; simpl. repeat split; auto.
        destruct (drain_cut c s0 tgt w) eqn:Ed; [right; apply Hl4; auto | left; apply Hl3; auto].
      * destruct cycles0 as [|b r]; simpl in *; unfold MIN_TD in *; split; try lia.
    + (* PWait, LWaitAfter *)
      inv_some Hs. inv_some H. simpl. unfold adv_inv, lowb in *; simpl in *. tauto.
    + (* PWoke, LRead *)
      destruct (wall0 <=? w); inv_some Hs. inv_some H. simpl. unfold adv_inv, lowb in *; simpl in *. tauto.
    + (* PAdv, LEvalBegin *)
      match type of Hs with (if ?b then _ else _) = _ => destruct b eqn:Ebrk end; [discriminate|].
      destruct (t0 =? t) eqn:Et; inv_some Hs. inv_some H. simpl.
      destruct HP as (Hev & (a & rest & Hcy & Hpr) & Hpc & Hcc).
      assert (t < c_end c) by lia.
      assert (cut0 = false) by (destruct cut0; auto; specialize (Hcc eq_refl); lia).
      subst cut0. repeat split; auto. rewrite Hcy; discriminate.
    + (* PAdv, LExit: without a stop request the end has been reached, and no pending time was passed *)
      match type of Hs with (if ?b then _ else _) = _ => destruct b eqn:Ebrk end; inv_some Hs. inv_some H. simpl.
      destruct HP as (Hev & _ & Hpc & _). repeat split; auto.
      intros Hst Hcu p Hin. subst stop0. specialize (Hpc Hcu p Hin). simpl in Ebrk. unfold MAX_DT in *. lia.
    + (* PEvalPre, LNode *)
      destruct push0; inv_some Hs. inv_some H. simpl. tauto.
    + (* PEvalPre, LPushNode *)
      destruct push0; inv_some Hs. inv_some H. simpl. tauto.
    + (* PEvalPre, LEvalEnd *)
      destruct push0; inv_some Hs. inv_some H. simpl. destruct HP as (Hev & Hte & Hcy & Hp & Hcut).
      unfold lowb; simpl. repeat split; auto; try lia.
      intros p Hin. apply pend_after_in in Hin. destruct cycles0; [tauto|]. unfold MIN_TD. lia.
    + (* PEval, request *)
      inv_some H. destruct HP as (Hev & Hte & Hcy & Hp & Hcut).
      destruct (do_req_pend true _ _ _ _ _ _ _ t Hs) as (Hp' & E1 & E2 & E3 & E4 & E5 & E6 & E7 & E8 & E9).
      { intros e' He'. apply sched_eff_started_gt in He'. simpl in He'. lia. }
      { exact Hp. }
      simpl in *. rewrite E5, E7, E8, E1. repeat split; auto.
    + destruct (wall0 <=? w); inv_some Hs. inv_some H. simpl. tauto.
    + inv_some Hs. inv_some H. simpl. tauto.
    + (* PEval, LEvalEnd *)
      inv_some Hs. inv_some H. simpl. destruct HP as (Hev & Hte & Hcy & Hp & Hcut).
      unfold lowb; simpl. repeat split; auto; try lia.
      intros p Hin. apply pend_after_in in Hin. destruct cycles0; [tauto|]. unfold MIN_TD. lia.
Qed.

Lemma Inv_exec : forall c ls s s', wfc c -> Inv c s -> exec c s ls = Some s' -> Inv c s'.
Proof.
  induction ls as [|l r IH]; simpl; intros s s' Hw HI H; [inv_some H; auto|].
  destruct (gstep c s l) as [s1|] eqn:E; [|discriminate]. apply (IH s1 s' Hw); [eapply Inv_step; eauto | exact H].
Qed.

Definition run (c : cfg) (w0 : Z) (ls : list label) (s : st) : Prop := exec c (init c w0) ls = Some s.

Lemma run_Inv : forall c w0 ls s, wfc c -> run c w0 ls s -> Inv c s.
Proof. intros; eapply Inv_exec; eauto using Inv_init. Qed.

(* ================================================================== *)
(* The recorded advances strictly increase. *)
Lemma chain_forall : forall c l, chain c l -> Forall (cyc_ok c) l.
Proof. induction l as [|a r IH]; simpl; intros H; constructor; tauto. Qed.

Fixpoint decreasing (l : list Z) : Prop :=
  match l with
  | a :: r => match r with b :: _ => b < a | [] => True end /\ decreasing r
  | [] => True
  end.

Lemma chain_decreasing : forall c l, chain c l ->
  decreasing (map ct l) /\ Forall (fun a => c_start c <= ct a) l.
Proof.
  induction l as [|a r IH]; simpl; intros H; [split; auto|].
  destruct H as (_ & Hr & Hc). destruct (IH Hc) as (Hd & Hf). destruct r as [|b r'].
  - simpl. repeat split; auto. constructor; [lia|auto].
  - simpl in *. repeat split; try tauto; try lia. constructor; auto. inversion Hf; subst. lia.
Qed.

(* ================================================================== *)
(* Second invariant: the consecutive-immediate-cycle counter counts what it says,
   every evaluated cycle obeys the cycle time rule exactly, and the drain cut is
   taken only after MAX_DRAIN consecutive smallest steps with the wall clock past end. *)
Definition exact (a : cyc) : Prop := ct a = eval_time (ctgt a) (cw a) (cprev a).
Definition step1 (a : cyc) : Prop := ct a = cprev a + MIN_TD.
Definition run1 (n : Z) (l : list cyc) : Prop :=
  0 <= n /\ n <= Z.of_nat (length l) /\ Forall step1 (firstn (Z.to_nat n) l).
(* the advances that were evaluated as cycles: all but one still being tested by the run loop *)
Definition evald (s : st) : list cyc := match ph s with PAdv _ _ => tl (cycles s) | _ => cycles s end.
Definition cut_fact (c : cfg) (s : st) : Prop :=
  exists a rest, cycles s = a :: rest /\ ct a = c_end c /\ c_end c <= cw a /\
    eval_time (ctgt a) (cw a) (cprev a) <= cprev a + MIN_TD /\ run1 MAX_DRAIN rest.
Definition Inv2 (c : cfg) (s : st) : Prop :=
  (match ph s with PDone => True | _ => run1 (consec s) (evald s) end) /\
  Forall exact (tl (cycles s)) /\ (cut s = false -> Forall exact (cycles s)) /\ (cut s = true -> cut_fact c s).

Lemma run1_0 : forall l, run1 0 l.
Proof. intros; unfold run1; simpl. repeat split; auto; lia. Qed.

Lemma run1_succ : forall n a l, step1 a -> run1 n l -> run1 (n + 1) (a :: l).
Proof.
  unfold run1; intros n a l Ha (H0 & Hl & Hf). repeat split; [lia | simpl length; lia |].
  replace (Z.to_nat (n + 1)) with (S (Z.to_nat n)) by lia. simpl. constructor; auto.
Qed.

Lemma Forall_firstn_le : forall {A} (P : A -> Prop) m n l, (m <= n)%nat -> Forall P (firstn n l) -> Forall P (firstn m l).
Proof.
  intros A P m; induction m as [|m IH]; intros n l Hmn H; [simpl; constructor|].
  destruct n as [|n]; [lia|]. destruct l as [|x l]; simpl in *; [constructor|].
  inversion H; subst. constructor; auto. apply (IH n); auto; lia.
Qed.

Lemma run1_le : forall m n l, 0 <= m -> m <= n -> run1 n l -> run1 m l.
Proof.
  unfold run1; intros m n l Hm Hmn (H0 & Hl & Hf). repeat split; try lia.
  apply (Forall_firstn_le _ (Z.to_nat m) (Z.to_nat n)); auto; lia.
Qed.

Lemma do_req_frame : forall st0 s k a w1 w2 e s',
  do_req st0 s k a w1 w2 e = Some s' ->
  ev s' = ev s /\ push s' = push s /\ stop s' = stop s /\ consec s' = consec s /\ ph s' = ph s /\
  notif s' = notif s /\ cycles s' = cycles s /\ cut s' = cut s /\
  (forall p, In p (pend s) -> In p (pend s')) /\ (e <> 0 -> In e (pend s')).
Proof.
  intros st0 s k a w1 w2 e s' H. unfold do_req in H.
  match type of H with (if negb ?b then _ else _) = _ => destruct b end; simpl in H; [|discriminate].
  destruct (sched_eff st0 (ev s) k a w1 w2) as [e'|] eqn:Es.
  - destruct (e' =? e) eqn:Ee; [|discriminate]. inv_some H. simpl. repeat split; auto.
    + intros p Hin. apply pend_add_in; auto.
    + intros _. apply pend_add_in. left; lia.
  - destruct (e =? 0) eqn:Ee; [|discriminate]. inv_some H. simpl. repeat split; auto. lia.
Qed.

Lemma Inv2_init : forall c w0, Inv2 c (init c w0).
Proof. intros; unfold Inv2, init, evald; simpl. repeat split; auto; try discriminate; try apply run1_0. Qed.

Lemma Inv2_step : forall c s l s', wfc c -> Inv c s -> Inv2 c s -> gstep c s l = Some s' -> Inv2 c s'.
Proof.
  intros c s l s' Hw (HP & HE & HC) (H1 & H2 & H3 & H4) H.
  destruct s as [ev0 pend0 push0 stop0 consec0 ph0 wall0 notif0 cycles0 cut0].
  unfold gstep in H. destruct (step c _ l) as [s1|] eqn:Hs; [|discriminate].
  unfold step in Hs. destruct (is_other l) eqn:Ho.
  - assert (s' = s1) by (simpl in H; destruct ph0; destruct l; simpl in Ho; try discriminate; inv_some H; auto).
    subst s1. clear H. unfold Inv2, evald, cut_fact in *; simpl in *.
    destruct l; simpl in Ho; try discriminate; simpl in Hs.
    + destruct (lock_held ph0); [discriminate|]. destruct stop0; inv_some Hs; simpl; auto.
    + destruct (0 <? notif0); inv_some Hs; simpl. destruct ph0; simpl in *; auto.
    + destruct (lock_held ph0); [discriminate|]. inv_some Hs; simpl; auto.
    + destruct (0 <? notif0); inv_some Hs; simpl. destruct ph0; simpl in *; auto.
  - unfold Inv2, evald, cut_fact, phase_inv in *; simpl in *.
    destruct ph0; destruct l; simpl in Ho; try discriminate; simpl in Hs; try discriminate;
    try (match type of Hs with do_req _ _ _ _ _ _ _ = Some _ =>
           destruct (do_req_frame _ _ _ _ _ _ _ _ Hs) as (E1 & E2 & E3 & E4 & E5 & E6 & E7 & E8 & _);
           simpl in *; inv_some H; rewrite E4, E5, E7, E8; simpl; auto end);
    try (match type of Hs with (if ?b then _ else _) = _ => destruct b eqn:Eb end; try discriminate).
    all: try solve [inv_some Hs; inv_some H; simpl; auto].
    + (* PCheck, LAdv *)
      destruct (t =? advance_result c _ tgt w) eqn:Et; inv_some Hs. inv_some H. simpl.
      destruct HP as ((_ & _ & _ & Hcut) & _). simpl in Hcut. subst cut0. simpl.
      set (s0 := mkSt ev0 pend0 push0 stop0 consec0 (PCheck tgt w locked brk) wall0 notif0 cycles0 false) in *.
      assert (Et' : t = advance_result c s0 tgt w) by lia. clear Et.
      unfold advance_result in Et'. specialize (H3 eq_refl).
      split; [exact H1|]. split; [exact H3|]. split.
      * intros Hd. rewrite Hd in Et'. constructor; auto.
      * intros Hd. rewrite Hd in Et'. unfold drain_cut in Hd; simpl in Hd.
        exists (mkCyc t w tgt ev0 (wake_requested s0)), cycles0. simpl.
        split; [reflexivity|]. split; [exact Et'|]. split; [lia|]. split; [lia|].
        apply run1_le with consec0; auto; unfold MAX_DRAIN in *; lia.
    + (* PAdv, LEvalBegin *)
      destruct (t0 =? t) eqn:Et; inv_some Hs. inv_some H. simpl.
      destruct HP as (Hev & (a & rest & Hcy & Hpr) & _). subst cycles0. simpl in *.
      split; [|tauto].
      destruct (t =? prev + MIN_TD) eqn:E1; [|apply run1_0].
      apply run1_succ; auto. unfold step1. lia.
Qed.

Lemma Inv2_exec : forall c ls s s', wfc c -> Inv c s -> Inv2 c s -> exec c s ls = Some s' -> Inv2 c s'.
Proof.
  induction ls as [|l r IH]; simpl; intros s s' Hw HI H2 H; [inv_some H; auto|].
  destruct (gstep c s l) as [s1|] eqn:E; [|discriminate].
  apply (IH s1 s' Hw); [eapply Inv_step; eauto | eapply Inv2_step; eauto | exact H].
Qed.

Lemma run_Inv2 : forall c w0 ls s, wfc c -> run c w0 ls s -> Inv2 c s.
Proof. intros; eapply Inv2_exec; eauto using Inv_init, Inv2_init. Qed.
