(* RTLoopFacts.v — lemmas about the real-time loop model (RTLoop.v): invariants of
   every run, by induction on the label list. *)
Require Import Base RTLoop.
From Coq Require Import ZifyBool.

Local Arguments Z.max : simpl never.
Local Arguments Z.min : simpl never.
Local Arguments Z.add : simpl never.
Local Arguments Z.sub : simpl never.
Local Arguments Z.leb : simpl never.
Local Arguments Z.ltb : simpl never.
Local Arguments Z.eqb : simpl never.
Local Arguments Z.le : simpl never.
Local Arguments Z.lt : simpl never.
Local Arguments Z.of_nat : simpl never.
Local Arguments Z.to_nat : simpl never.
Local Arguments target_of : simpl never.
Local Arguments eval_time : simpl never.
Local Arguments advance_result : simpl never.
Local Arguments drain_cut : simpl never.
Local Arguments pend_add : simpl never.
Local Arguments pend_after : simpl never.
Local Arguments pend_min : simpl never.
Local Arguments sched_eff : simpl never.
Local Arguments req_reads : simpl never.

(* validate_times: end_time after start_time; the builder's default end is MAX_ET *)
Definition wfc (c : cfg) : Prop := c_start c < c_end c /\ c_end c <= MAX_DT.

(* ------------------------------------------------------------------ *)
(* the pending set *)
Lemma zmin_list_le : forall d l p, In p l -> zmin_list d l <= p.
Proof. induction l as [|x r IH]; simpl; intros p H; [tauto|]. destruct H as [->|H]; [lia|]. specialize (IH _ H). lia. Qed.

Lemma zmin_list_le_d : forall d l, zmin_list d l <= d.
Proof. induction l as [|x r IH]; simpl; lia. Qed.

Lemma zmin_list_lb : forall d l b, b <= d -> (forall p, In p l -> b <= p) -> b <= zmin_list d l.
Proof.
  induction l as [|x r IH]; simpl; intros b Hd H; [lia|].
  assert (b <= x) by (apply H; auto). assert (b <= zmin_list d r) by (apply IH; auto). lia.
Qed.

Lemma pend_min_le : forall l p, In p l -> pend_min l <= p.
Proof. intros; apply zmin_list_le; auto. Qed.

Lemma pend_add_in : forall x l p, In p (pend_add x l) <-> p = x \/ In p l.
Proof.
  intros x l p; unfold pend_add. destruct (existsb (Z.eqb x) l) eqn:E.
  - apply existsb_exists in E. destruct E as [y [Hy Hxy]]. assert (x = y) by lia. subst y.
    split; [tauto|]. intros [->|H]; auto.
  - simpl. split; intros [H|H]; auto.
Qed.

Lemma pend_after_in : forall t l p, In p (pend_after t l) <-> In p l /\ t < p.
Proof. intros; unfold pend_after; rewrite filter_In. cbv beta. split; intros [H1 H2]; split; auto; lia. Qed.

(* the target is below every pending time and below end, and above any common lower bound *)
Lemma target_le_end : forall c s, target_of c s <= c_end c.
Proof. intros; unfold target_of; lia. Qed.

Lemma target_le_pend : forall c s p, c_end c <= MAX_DT -> In p (pend s) -> target_of c s <= p.
Proof.
  intros c s p Hm H. unfold target_of. pose proof (pend_min_le _ _ H).
  destruct ((pend_min (pend s) =? MAX_DT) || (c_end c <=? pend_min (pend s))) eqn:E; lia.
Qed.

Lemma target_lb : forall c s b, c_end c <= MAX_DT -> b <= c_end c -> (forall p, In p (pend s) -> b <= p) -> b <= target_of c s.
Proof.
  intros c s b Hm Hb H. unfold target_of.
  destruct ((pend_min (pend s) =? MAX_DT) || (c_end c <=? pend_min (pend s))) eqn:E; [lia|].
  assert (b <= pend_min (pend s)); [|lia].
  unfold pend_min. apply zmin_list_lb; [lia | auto].
Qed.

(* ------------------------------------------------------------------ *)
(* NodeScheduler::schedule *)
Lemma sched_abs_started_gt : forall now w when onwall e, sched_abs true now w when onwall = Some e -> now < e.
Proof.
  unfold sched_abs, MIN_TD; intros now w when onwall e H. destruct onwall.
  - destruct (when <=? Z.max now w) eqn:E; inversion H; subst; lia.
  - destruct (when <=? now) eqn:E; inversion H; subst; lia.
Qed.

Lemma sched_abs_start_ge : forall now w when onwall e, sched_abs false now w when onwall = Some e -> now <= e.
Proof.
  unfold sched_abs; intros now w when onwall e H. destruct onwall.
  - destruct (when <? Z.max now w) eqn:E; inversion H; subst; lia.
  - destruct (when <? now) eqn:E; inversion H; subst; lia.
Qed.

Lemma sched_eff_started_gt : forall now k a w1 w2 e, sched_eff true now k a w1 w2 = Some e -> now < e.
Proof.
  unfold sched_eff; intros now k a w1 w2 e H.
  destruct (k =? 1); [eapply sched_abs_started_gt; eauto|].
  destruct (k =? 2); [eapply sched_abs_started_gt; eauto|].
  destruct (k =? 3); [eapply sched_abs_started_gt; eauto|].
  destruct (k =? 4); [eapply sched_abs_started_gt; eauto|].
  destruct (k =? 8); [eapply sched_abs_started_gt; eauto|discriminate].
Qed.

Lemma sched_eff_start_ge : forall now k a w1 w2 e, sched_eff false now k a w1 w2 = Some e -> now <= e.
Proof.
  unfold sched_eff; intros now k a w1 w2 e H.
  destruct (k =? 1); [eapply sched_abs_start_ge; eauto|].
  destruct (k =? 2); [eapply sched_abs_start_ge; eauto|].
  destruct (k =? 3); [eapply sched_abs_start_ge; eauto|].
  destruct (k =? 4); [eapply sched_abs_start_ge; eauto|].
  destruct (k =? 8); [eapply sched_abs_start_ge; eauto|discriminate].
Qed.

(* a wall-clock alarm is never ignored; one that is already due is entered for
   max(now + MIN_TD, wall), which is after the current cycle *)
Lemma wall_alarm_never_dropped : forall started now w when,
  exists e, sched_abs started now w when true = Some e.
Proof.
  intros started now w when; unfold sched_abs. destruct started.
  - destruct (when <=? Z.max now w); eauto.
  - destruct (when <? Z.max now w); eauto.
Qed.

Lemma wall_alarm_due : forall now w when,
  when <= Z.max now w -> sched_abs true now w when true = Some (Z.max (now + MIN_TD) w).
Proof.
  intros now w when H; unfold sched_abs, MIN_TD. destruct (when <=? Z.max now w) eqn:E; [|lia]. f_equal; lia.
Qed.

Lemma wall_alarm_future : forall now w when,
  Z.max now w < when -> sched_abs true now w when true = Some when.
Proof. intros now w when H; unfold sched_abs. destruct (when <=? Z.max now w) eqn:E; [lia|auto]. Qed.

(* ------------------------------------------------------------------ *)
(* the cycle time rule *)
Lemma eval_time_le_target : forall tgt w prev, eval_time tgt w prev <= tgt.
Proof. intros; unfold eval_time; lia. Qed.

Lemma eval_time_not_early : forall tgt w prev, eval_time tgt w prev <= Z.max w (prev + MIN_TD).
Proof. intros; unfold eval_time; lia. Qed.

Lemma eval_time_advances : forall tgt w prev, prev + MIN_TD <= tgt -> prev + MIN_TD <= eval_time tgt w prev.
Proof. intros; unfold eval_time; lia. Qed.

(* ------------------------------------------------------------------ *)
(* what is true of one recorded advance *)
Definition cyc_ok (c : cfg) (a : cyc) : Prop :=
  ctgt a <= c_end c /\
  (cw a < ctgt a -> cwk a = true) /\
  (ct a = eval_time (ctgt a) (cw a) (cprev a) \/
   (ct a = c_end c /\ c_end c <= cw a /\ eval_time (ctgt a) (cw a) (cprev a) <= cprev a + MIN_TD)).

(* the recorded advances, newest first: each starts from the time the one before produced *)
Fixpoint chain (c : cfg) (l : list cyc) : Prop :=
  match l with
  | [] => True
  | a :: rest =>
      cyc_ok c a /\
      match rest with
      | [] => cprev a = c_start c /\ c_start c <= ct a
      | b :: _ => cprev a = ct b /\ ct b < ct a
      end /\ chain c rest
  end.

(* below every pending time and every target outside an evaluation *)
Definition lowb (s : st) : Z := match cycles s with [] => ev s | _ => ev s + MIN_TD end.

Definition adv_inv (c : cfg) (s : st) (tgt : Z) : Prop :=
  tgt = target_of c s /\ (forall p, In p (pend s) -> lowb s <= p) /\ ev s < c_end c /\ cut s = false.

Definition phase_inv (c : cfg) (s : st) : Prop :=
  match ph s with
  | PStart => cycles s = [] /\ (forall p, In p (pend s) -> ev s <= p) /\ cut s = false
  | PTop => (forall p, In p (pend s) -> lowb s <= p) /\ ev s < c_end c /\ cut s = false
  | PRead tgt => adv_inv c s tgt
  | PWait tgt _ => adv_inv c s tgt
  | PCheck tgt w _ brk => adv_inv c s tgt /\ (brk = true -> wake_requested s = true)
  | PWoke tgt b => adv_inv c s tgt /\ (b = true -> wake_requested s = true)
  | PAdv prev t =>
      t = ev s /\ (exists a rest, cycles s = a :: rest /\ cprev a = prev) /\
      (cut s = false -> forall p, In p (pend s) -> t <= p) /\ (cut s = true -> t = c_end c)
  | PEvalPre t => t = ev s /\ t < c_end c /\ cycles s <> [] /\ (forall p, In p (pend s) -> t <= p) /\ cut s = false
  | PEval t => t = ev s /\ t < c_end c /\ cycles s <> [] /\ (forall p, In p (pend s) -> t <= p) /\ cut s = false
  | PDone => (cut s = false -> forall p, In p (pend s) -> ev s <= p) /\ (stop s = false -> c_end c <= ev s)
  end.

Definition Inv (c : cfg) (s : st) : Prop :=
  phase_inv c s /\
  ev s = match cycles s with [] => c_start c | a :: _ => ct a end /\
  chain c (cycles s).

Lemma Inv_init : forall c w0, Inv c (init c w0).
Proof. intros; unfold Inv, init, phase_inv; simpl. repeat split; auto; intros; tauto. Qed.

Lemma adv_target_lb : forall c s tgt, c_end c <= MAX_DT -> adv_inv c s tgt -> lowb s <= tgt /\ tgt <= c_end c /\ forall p, In p (pend s) -> tgt <= p.
Proof.
  intros c s tgt Hm (-> & Hp & He & _). split; [|split].
  - apply target_lb; auto. unfold lowb, MIN_TD. destruct (cycles s); lia.
  - apply target_le_end.
  - intros; apply target_le_pend; auto.
Qed.

Ltac inv_some H := first [discriminate H | injection H as H; match type of H with _ = ?v => subst v end].

(* requests keep the lower bound *)
Lemma do_req_pend : forall st0 s k a w1 w2 e s' b,
  do_req st0 s k a w1 w2 e = Some s' ->
  (forall e', sched_eff st0 (ev s) k a w1 w2 = Some e' -> b <= e') ->
  (forall p, In p (pend s) -> b <= p) ->
  (forall p, In p (pend s') -> b <= p) /\
  ev s' = ev s /\ push s' = push s /\ stop s' = stop s /\ consec s' = consec s /\ ph s' = ph s /\
  notif s' = notif s /\ cycles s' = cycles s /\ cut s' = cut s /\ wall s <= wall s'.
Proof.
  intros st0 s k a w1 w2 e s' b H He Hp. unfold do_req in H.
  set (okw := if req_reads k =? 0 then true else if req_reads k =? 1 then wall s <=? w1 else (wall s <=? w1) && (w1 <=? w2)) in *.
  destruct okw eqn:Eo; simpl in H; [|discriminate].
  assert (Hw : wall s <= (if req_reads k =? 0 then wall s else if req_reads k =? 1 then w1 else w2)).
  { subst okw. destruct (req_reads k =? 0); [lia|]. destruct (req_reads k =? 1); lia. }
  destruct (sched_eff st0 (ev s) k a w1 w2) as [e'|] eqn:Es.
  - destruct (e' =? e) eqn:Ee; [|discriminate]. inv_some H. simpl. repeat split; auto.
    intros p Hin. apply pend_add_in in Hin. destruct Hin as [->|Hin]; auto.
  - destruct (e =? 0); [|discriminate]. inv_some H. simpl. repeat split; auto.
Qed.

Lemma Inv_step : forall c s l s', wfc c -> Inv c s -> gstep c s l = Some s' -> Inv c s'.
Proof.
  intros c s l s' [Hse Hem] (HP & HE & HC) H.
  destruct s as [ev0 pend0 push0 stop0 consec0 ph0 wall0 notif0 cycles0 cut0].
  unfold gstep in H. destruct (step c _ l) as [s1|] eqn:Hs; [|discriminate].
  unfold step in Hs. destruct (is_other l) eqn:Ho.
  - (* another thread: flags and the notify count only *)
    assert (s' = s1) by (simpl in H; destruct ph0; destruct l; simpl in Ho; try discriminate; inv_some H; auto).
    subst s1. clear H.
    unfold Inv, phase_inv, adv_inv, lowb, wake_requested in *; simpl in *.
    destruct l; simpl in Ho; try discriminate; simpl in Hs.
    + destruct (lock_held ph0); [discriminate|]. destruct stop0; inv_some Hs; simpl; auto.
      destruct ph0; simpl in *; intuition.
    + destruct (0 <? notif0); inv_some Hs; simpl. destruct ph0; simpl in *; intuition.
    + destruct (lock_held ph0); [discriminate|]. inv_some Hs; simpl.
      destruct ph0; simpl in *; intuition; rewrite Bool.orb_true_r; auto.
    + destruct (0 <? notif0); inv_some Hs; simpl. destruct ph0; simpl in *; intuition.
  - 
    unfold Inv, phase_inv in *; simpl in *.
    destruct ph0; destruct l; simpl in Ho; try discriminate; simpl in Hs; try discriminate.
    + (* PStart, request *)
      inv_some H. destruct HP as (Hc & Hp & Hcut).
      destruct (do_req_pend false _ _ _ _ _ _ _ ev0 Hs) as (Hp' & E1 & E2 & E3 & E4 & E5 & E6 & E7 & E8 & E9).
      { intros e' He'. apply sched_eff_start_ge in He'. simpl in He'. exact He'. }
      { exact Hp. }
      simpl in *. rewrite E5, E7, E8, E1. subst cycles0. simpl. repeat split; auto.
    + (* PStart, clock read *)
      destruct (wall0 <=? w); inv_some Hs. inv_some H. simpl. auto.
    + inv_some Hs. inv_some H. simpl. auto.
    + (* PStart -> PTop *)
      inv_some Hs. inv_some H. simpl. destruct HP as (Hc & Hp & Hcut). subst cycles0. unfold lowb; simpl.
      repeat split; auto; try (simpl in HE; lia).
    + (* PTop, LTop *)
      destruct stop0; inv_some Hs. inv_some H. simpl. destruct HP as (Hp & He & Hcut).
      unfold adv_inv; simpl. repeat split; auto.
    + (* PTop, LExit *)
      destruct stop0; inv_some Hs. inv_some H. simpl. destruct HP as (Hp & He & Hcut). unfold lowb in Hp; simpl in Hp.
      repeat split; auto; try discriminate.
      intros _ p Hin. specialize (Hp _ Hin). unfold MIN_TD in *. destruct cycles0; lia.
    + (* PRead, LRead *)
      destruct (wall0 <=? w); inv_some Hs. inv_some H. simpl. unfold adv_inv, lowb in *; simpl in *.
      repeat split; try tauto. discriminate.
    + (* PCheck, LWaitBefore *)
      destruct (negb brk && (w <? tgt) && negb (wake_requested _)); inv_some Hs. inv_some H. simpl.
      unfold adv_inv, lowb in *; simpl in *. tauto.
    + (* PCheck, LAdv: the cycle time *)
      destruct HP as (HA & Hbrk). pose proof (adv_target_lb _ _ _ Hem HA) as (Hlb & Hte & Htp).
      destruct HA as (Etgt & Hp & Hev & Hcut). simpl in *. subst cut0.
      match type of Hs with (if ?b then _ else _) = _ => destruct b eqn:Ewait end; [discriminate|].
      destruct (t =? advance_result c _ tgt w) eqn:Et; inv_some Hs. inv_some H. simpl.
      assert (Et' : t = advance_result c (mkSt ev0 pend0 push0 stop0 consec0 (PCheck tgt w locked brk) wall0 notif0 cycles0 false) tgt w) by lia.
      clear Et. unfold advance_result in Et'; simpl in Et'.
      set (s0 := mkSt ev0 pend0 push0 stop0 consec0 (PCheck tgt w locked brk) wall0 notif0 cycles0 false) in *.
      assert (Hwk : w < tgt -> wake_requested s0 = true).
      { intros Hlt. destruct brk; [apply Hbrk; auto|]. simpl in Ewait.
        destruct (wake_requested s0); auto. simpl in Ewait. lia. }
      unfold lowb in Hlb; simpl in Hlb.
      assert (Hlow : (match cycles0 with [] => ev0 | _ => ev0 + MIN_TD end) <= t /\ t <= c_end c /\
                     (drain_cut c s0 tgt w = false -> t = eval_time tgt w ev0) /\
                     (drain_cut c s0 tgt w = true -> t = c_end c /\ c_end c <= w /\ eval_time tgt w ev0 <= ev0 + MIN_TD)).
      { unfold drain_cut in *; simpl in *.
        destruct ((c_end c <=? w) && (eval_time tgt w ev0 <=? ev0 + MIN_TD) && (MAX_DRAIN <=? consec0)) eqn:Ed.
        - subst t. unfold MIN_TD in *. repeat split; try lia; try discriminate; destruct cycles0; lia.
        - subst t. unfold eval_time, MIN_TD in *. repeat split; try lia; try discriminate; destruct cycles0; lia. }
      destruct Hlow as (Hl1 & Hl2 & Hl3 & Hl4).
      repeat split; auto.
      * eauto.
      * intros Hc p Hin. destruct (drain_cut c s0 tgt w) eqn:Ed; [discriminate|].
        rewrite (Hl3 eq_refl). specialize (Htp _ Hin). pose proof (eval_time_le_target tgt w ev0). lia.
      * intros Hc. destruct (drain_cut c s0 tgt w) eqn:Ed; [|discriminate]. apply Hl4; auto.
      * unfold cyc_ok; simpl. repeat split; auto.
        destruct (drain_cut c s0 tgt w) eqn:Ed; [right; apply Hl4; auto | left; apply Hl3; auto].
      * destruct cycles0 as [|b r]; simpl in *; unfold MIN_TD in *; split; try lia.
    + (* PWait, LWaitAfter *)
      inv_some Hs. inv_some H. simpl. unfold adv_inv, lowb in *; simpl in *. tauto.
    + (* PWoke, LRead *)
      destruct (wall0 <=? w); inv_some Hs. inv_some H. simpl. unfold adv_inv, lowb in *; simpl in *. tauto.
    + (* PAdv, LEvalBegin *)
      match type of Hs with (if ?b then _ else _) = _ => destruct b eqn:Ebrk end; [discriminate|].
      destruct (t0 =? t) eqn:Et; inv_some Hs. inv_some H. simpl.
      destruct HP as (Hev & (a & rest & Hcy & Hpr) & Hpc & Hcc).
      assert (t < c_end c) by lia.
      assert (cut0 = false) by (destruct cut0; auto; specialize (Hcc eq_refl); lia).
      subst cut0. repeat split; auto. rewrite Hcy; discriminate.
    + (* PAdv, LExit: without a stop request the end has been reached, and no pending time was passed *)
      match type of Hs with (if ?b then _ else _) = _ => destruct b eqn:Ebrk end; inv_some Hs. inv_some H. simpl.
      destruct HP as (Hev & _ & Hpc & _). repeat split; auto.
      * intros Hcu p Hin. specialize (Hpc Hcu p Hin). lia.
      * intros Hst. subst stop0. simpl in Ebrk. unfold MAX_DT in *. lia.
    + (* PEvalPre, LNode *)
      destruct push0; inv_some Hs. inv_some H. simpl. tauto.
    + (* PEvalPre, LPushNode *)
      destruct push0; inv_some Hs. inv_some H. simpl. tauto.
    + (* PEvalPre, LEvalEnd *)
      destruct push0; inv_some Hs. inv_some H. simpl. destruct HP as (Hev & Hte & Hcy & Hp & Hcut).
      unfold lowb; simpl. repeat split; auto; try lia.
      intros p Hin. apply pend_after_in in Hin. destruct cycles0; [tauto|]. unfold MIN_TD. lia.
    + (* PEval, request *)
      inv_some H. destruct HP as (Hev & Hte & Hcy & Hp & Hcut).
      destruct (do_req_pend true _ _ _ _ _ _ _ t Hs) as (Hp' & E1 & E2 & E3 & E4 & E5 & E6 & E7 & E8 & E9).
      { intros e' He'. apply sched_eff_started_gt in He'. simpl in He'. lia. }
      { exact Hp. }
      simpl in *. rewrite E5, E7, E8, E1. repeat split; auto.
    + destruct (wall0 <=? w); inv_some Hs. inv_some H. simpl. tauto.
    + inv_some Hs. inv_some H. simpl. tauto.
    + (* PEval, LEvalEnd *)
      inv_some Hs. inv_some H. simpl. destruct HP as (Hev & Hte & Hcy & Hp & Hcut).
      unfold lowb; simpl. repeat split; auto; try lia.
      intros p Hin. apply pend_after_in in Hin. destruct cycles0; [tauto|]. unfold MIN_TD. lia.
Qed.

Lemma Inv_exec : forall c ls s s', wfc c -> Inv c s -> exec c s ls = Some s' -> Inv c s'.
Proof.
  induction ls as [|l r IH]; simpl; intros s s' Hw HI H; [inv_some H; auto|].
  destruct (gstep c s l) as [s1|] eqn:E; [|discriminate]. apply (IH s1 s' Hw); [eapply Inv_step; eauto | exact H].
Qed.

Definition run (c : cfg) (w0 : Z) (ls : list label) (s : st) : Prop := exec c (init c w0) ls = Some s.

Lemma run_Inv : forall c w0 ls s, wfc c -> run c w0 ls s -> Inv c s.
Proof. intros; eapply Inv_exec; eauto using Inv_init. Qed.

(* ================================================================== *)
(* The recorded advances strictly increase. *)
Lemma chain_forall : forall c l, chain c l -> Forall (cyc_ok c) l.
Proof. induction l as [|a r IH]; simpl; intros H; constructor; tauto. Qed.

Fixpoint decreasing (l : list Z) : Prop :=
  match l with
  | a :: r => match r with b :: _ => b < a | [] => True end /\ decreasing r
  | [] => True
  end.

Lemma chain_decreasing : forall c l, chain c l ->
  decreasing (map ct l) /\ Forall (fun a => c_start c <= ct a) l.
Proof.
  induction l as [|a r IH]; simpl; intros H; [split; auto|].
  destruct H as (_ & Hr & Hc). destruct (IH Hc) as (Hd & Hf). destruct r as [|b r'].
  - simpl. repeat split; auto. constructor; [lia|auto].
  - simpl in *. repeat split; try tauto; try lia. constructor; auto. inversion Hf; subst. lia.
Qed.

(* ================================================================== *)
(* Second invariant: the consecutive-immediate-cycle counter counts what it says,
   every evaluated cycle obeys the cycle time rule exactly, and the drain cut is
   taken only after MAX_DRAIN consecutive smallest steps with the wall clock past end. *)
Definition exact (a : cyc) : Prop := ct a = eval_time (ctgt a) (cw a) (cprev a).
Definition step1 (a : cyc) : Prop := ct a = cprev a + MIN_TD.
Definition run1 (n : Z) (l : list cyc) : Prop :=
  0 <= n /\ n <= Z.of_nat (length l) /\ Forall step1 (firstn (Z.to_nat n) l).
(* the advances that were evaluated as cycles: all but one still being tested by the run loop *)
Definition evald (s : st) : list cyc := match ph s with PAdv _ _ => tl (cycles s) | _ => cycles s end.
Definition cut_fact (c : cfg) (s : st) : Prop :=
  exists a rest, cycles s = a :: rest /\ ct a = c_end c /\ c_end c <= cw a /\
    eval_time (ctgt a) (cw a) (cprev a) <= cprev a + MIN_TD /\ run1 MAX_DRAIN rest.
Definition Inv2 (c : cfg) (s : st) : Prop :=
  (match ph s with PDone => True | _ => run1 (consec s) (evald s) end) /\
  Forall exact (tl (cycles s)) /\ (cut s = false -> Forall exact (cycles s)) /\ (cut s = true -> cut_fact c s).

Lemma run1_0 : forall l, run1 0 l.
Proof. intros; unfold run1; simpl. repeat split; auto; lia. Qed.

Lemma run1_succ : forall n a l, step1 a -> run1 n l -> run1 (n + 1) (a :: l).
Proof.
  unfold run1; intros n a l Ha (H0 & Hl & Hf). repeat split; [lia | simpl length; lia |].
  replace (Z.to_nat (n + 1)) with (S (Z.to_nat n)) by lia. simpl. constructor; auto.
Qed.

Lemma Forall_firstn_le : forall {A} (P : A -> Prop) m n l, (m <= n)%nat -> Forall P (firstn n l) -> Forall P (firstn m l).
Proof.
  intros A P m; induction m as [|m IH]; intros n l Hmn H; [simpl; constructor|].
  destruct n as [|n]; [lia|]. destruct l as [|x l]; simpl in *; [constructor|].
  inversion H; subst. constructor; auto. apply (IH n); auto; lia.
Qed.

Lemma run1_le : forall m n l, 0 <= m -> m <= n -> run1 n l -> run1 m l.
Proof.
  unfold run1; intros m n l Hm Hmn (H0 & Hl & Hf). repeat split; try lia.
  apply (Forall_firstn_le _ (Z.to_nat m) (Z.to_nat n)); auto; lia.
Qed.

Lemma do_req_frame : forall st0 s k a w1 w2 e s',
  do_req st0 s k a w1 w2 e = Some s' ->
  ev s' = ev s /\ push s' = push s /\ stop s' = stop s /\ consec s' = consec s /\ ph s' = ph s /\
  notif s' = notif s /\ cycles s' = cycles s /\ cut s' = cut s /\
  (forall p, In p (pend s) -> In p (pend s')) /\ (e <> 0 -> In e (pend s')).
Proof.
  intros st0 s k a w1 w2 e s' H. unfold do_req in H.
  match type of H with (if negb ?b then _ else _) = _ => destruct b end; simpl in H; [|discriminate].
  destruct (sched_eff st0 (ev s) k a w1 w2) as [e'|] eqn:Es.
  - destruct (e' =? e) eqn:Ee; [|discriminate]. inv_some H. simpl. repeat split; auto.
    + intros p Hin. apply pend_add_in; auto.
    + intros _. apply pend_add_in. left; lia.
  - destruct (e =? 0) eqn:Ee; [|discriminate]. inv_some H. simpl. repeat split; auto. lia.
Qed.

Lemma Inv2_init : forall c w0, Inv2 c (init c w0).
Proof. intros; unfold Inv2, init, evald; simpl. repeat split; auto; try discriminate; try apply run1_0. Qed.

Lemma Inv2_step : forall c s l s', wfc c -> Inv c s -> Inv2 c s -> gstep c s l = Some s' -> Inv2 c s'.
Proof.
  intros c s l s' Hw (HP & HE & HC) (H1 & H2 & H3 & H4) H.
  destruct s as [ev0 pend0 push0 stop0 consec0 ph0 wall0 notif0 cycles0 cut0].
  unfold gstep in H. destruct (step c _ l) as [s1|] eqn:Hs; [|discriminate].
  unfold step in Hs. destruct (is_other l) eqn:Ho.
  - assert (s' = s1) by (simpl in H; destruct ph0; destruct l; simpl in Ho; try discriminate; inv_some H; auto).
    subst s1. clear H. unfold Inv2, evald, cut_fact in *; simpl in *.
    destruct l; simpl in Ho; try discriminate; simpl in Hs.
    + destruct (lock_held ph0); [discriminate|]. destruct stop0; inv_some Hs; simpl; auto.
    + destruct (0 <? notif0); inv_some Hs; simpl. destruct ph0; simpl in *; auto.
    + destruct (lock_held ph0); [discriminate|]. inv_some Hs; simpl; auto.
    + destruct (0 <? notif0); inv_some Hs; simpl. destruct ph0; simpl in *; auto.
  - unfold Inv2, evald, cut_fact, phase_inv in *; simpl in *.
    destruct ph0; destruct l; simpl in Ho; try discriminate; simpl in Hs; try discriminate;
    try (match type of Hs with do_req _ _ _ _ _ _ _ = Some _ =>
           destruct (do_req_frame _ _ _ _ _ _ _ _ Hs) as (E1 & E2 & E3 & E4 & E5 & E6 & E7 & E8 & _);
           simpl in *; inv_some H; rewrite E4, E5, E7, E8; simpl; auto end);
    try (match type of Hs with (if ?b then _ else _) = _ => destruct b eqn:Eb end; try discriminate).
    all: try solve [inv_some Hs; inv_some H; simpl; auto].
    + (* PCheck, LAdv *)
      destruct (t =? advance_result c _ tgt w) eqn:Et; inv_some Hs. inv_some H. simpl.
      destruct HP as ((_ & _ & _ & Hcut) & _). simpl in Hcut. subst cut0. simpl.
      set (s0 := mkSt ev0 pend0 push0 stop0 consec0 (PCheck tgt w locked brk) wall0 notif0 cycles0 false) in *.
      assert (Et' : t = advance_result c s0 tgt w) by lia. clear Et.
      unfold advance_result in Et'. specialize (H3 eq_refl).
      split; [exact H1|]. split; [exact H3|]. split.
      * intros Hd. rewrite Hd in Et'. constructor; auto.
      * intros Hd. rewrite Hd in Et'. unfold drain_cut in Hd; simpl in Hd.
        exists (mkCyc t w tgt ev0 (wake_requested s0)), cycles0. simpl.
        split; [reflexivity|]. split; [exact Et'|]. split; [lia|]. split; [lia|].
        apply run1_le with consec0; auto; unfold MAX_DRAIN in *; lia.
    + (* PAdv, LEvalBegin *)
      destruct (t0 =? t) eqn:Et; inv_some Hs. inv_some H. simpl.
      destruct HP as (Hev & (a & rest & Hcy & Hpr) & _). subst cycles0. simpl in *.
      split; [|tauto].
      destruct (t =? prev + MIN_TD) eqn:E1; [|apply run1_0].
      apply run1_succ; auto. unfold step1. lia.
Qed.

Lemma Inv2_exec : forall c ls s s', wfc c -> Inv c s -> Inv2 c s -> exec c s ls = Some s' -> Inv2 c s'.
Proof.
  induction ls as [|l r IH]; simpl; intros s s' Hw HI H2 H; [inv_some H; auto|].
  destruct (gstep c s l) as [s1|] eqn:E; [|discriminate].
  apply (IH s1 s' Hw); [eapply Inv_step; eauto | eapply Inv2_step; eauto | exact H].
Qed.

Lemma run_Inv2 : forall c w0 ls s, wfc c -> run c w0 ls s -> Inv2 c s.
Proof. intros; eapply Inv2_exec; eauto using Inv_init, Inv2_init. Qed.

(* ================================================================== *)
(* Third invariant: the wait protocol.  A flag is set under the mutex before its
   notify_all, and the wait tests the flags under the same mutex before blocking:
   whenever the loop is blocked in wait_for with a push or a stop flagged, a
   notify_all is still owed or has already reached the waiter. *)
Definition Inv3 (s : st) : Prop :=
  0 <= notif s /\
  match ph s with
  | PWait _ sg => wake_requested s = true -> 0 < notif s \/ sg = true
  | _ => True
  end.

Lemma Inv3_init : forall c w0, Inv3 (init c w0).
Proof. intros; unfold Inv3, init; simpl. split; [lia|auto]. Qed.

Lemma Inv3_step : forall c s l s', Inv3 s -> gstep c s l = Some s' -> Inv3 s'.
Proof.
  intros c s l s' (Hn & Hw) H.
  destruct s as [ev0 pend0 push0 stop0 consec0 ph0 wall0 notif0 cycles0 cut0].
  unfold gstep in H. destruct (step c _ l) as [s1|] eqn:Hs; [|discriminate].
  unfold step in Hs. destruct (is_other l) eqn:Ho.
  - assert (s' = s1) by (simpl in H; destruct ph0; destruct l; simpl in Ho; try discriminate; inv_some H; auto).
    subst s1. clear H. unfold Inv3, wake_requested in *; simpl in *.
    destruct l; simpl in Ho; try discriminate; simpl in Hs.
    + destruct (lock_held ph0); [discriminate|]. destruct stop0; inv_some Hs; simpl; auto.
      split; [lia|]. destruct ph0; auto. intros _. left; lia.
    + destruct (0 <? notif0) eqn:E0; inv_some Hs; simpl. split; [lia|].
      destruct ph0; simpl; auto. unfold wake_requested; simpl. intros Hf. right. rewrite Hf. apply Bool.orb_true_r.
    + destruct (lock_held ph0); [discriminate|]. inv_some Hs; simpl.
      split; [lia|]. destruct ph0; auto. intros _. left; lia.
    + destruct (0 <? notif0) eqn:E0; inv_some Hs; simpl. split; [lia|].
      destruct ph0; simpl; auto. unfold wake_requested; simpl. intros Hf. right. rewrite Hf. apply Bool.orb_true_r.
  - unfold Inv3, wake_requested in *; simpl in *.
    destruct ph0; destruct l; simpl in Ho; try discriminate; simpl in Hs; try discriminate;
    try (match type of Hs with do_req _ _ _ _ _ _ _ = Some _ =>
           destruct (do_req_frame _ _ _ _ _ _ _ _ Hs) as (E1 & E2 & E3 & E4 & E5 & E6 & E7 & E8 & _);
           simpl in *; inv_some H; rewrite E5, E6; simpl; auto end);
    try (match type of Hs with (if ?b then _ else _) = _ => destruct b eqn:Eb end; try discriminate).
    all: try solve [inv_some Hs; inv_some H; simpl; auto].
    + (* LWaitBefore: the predicate is false when the loop blocks *)
      inv_some Hs. inv_some H. simpl. split; auto. intros Hf. unfold wake_requested in Eb; simpl in Eb.
      rewrite Hf in Eb. rewrite Bool.andb_false_r in Eb. discriminate.
    + (* LAdv *)
      destruct (t =? advance_result c _ tgt w); inv_some Hs. inv_some H. simpl. auto.
    + (* LEvalBegin *)
      destruct (t0 =? t); inv_some Hs. inv_some H. simpl. auto.
Qed.

Lemma Inv3_exec : forall c ls s s', Inv3 s -> exec c s ls = Some s' -> Inv3 s'.
Proof.
  induction ls as [|l r IH]; simpl; intros s s' HI H; [inv_some H; auto|].
  destruct (gstep c s l) as [s1|] eqn:E; [|discriminate].
  apply (IH s1 s'); [eapply Inv3_step; eauto | exact H].
Qed.

(* ================================================================== *)
(* stop requests *)
Definition loop_label (l : label) : bool := negb (is_other l).

(* own steps of the loop thread from a phase to the exit, once a stop is flagged
   (phases of graph code are excluded: they end when the evaluation returns) *)
Definition togo (p : phase) : Z :=
  match p with
  | PTop => 1 | PRead _ => 3 | PCheck _ _ _ _ => 2 | PWait _ _ => 4 | PWoke _ _ => 3 | PAdv _ _ => 1
  | _ => 0
  end.
Definition in_loop_code (p : phase) : bool :=
  match p with PTop | PRead _ | PCheck _ _ _ _ | PWait _ _ | PWoke _ _ | PAdv _ _ => true | _ => false end.

Lemma gstep_stop : forall c s l s',
  gstep c s l = Some s' -> stop s = true ->
  stop s' = true /\
  l <> LTop /\ l <> LWaitBefore /\ (forall t, l <> LEvalBegin t) /\
  (loop_label l = false -> ph s' = ph s \/ exists tgt a b, ph s = PWait tgt a /\ ph s' = PWait tgt b) /\
  (loop_label l = true -> in_loop_code (ph s) = true ->
     togo (ph s') + 1 = togo (ph s) /\ (in_loop_code (ph s') = true \/ ph s' = PDone)) /\
  (loop_label l = true -> in_loop_code (ph s) = false ->
     ph s' = PTop \/ in_loop_code (ph s') = false).
Proof.
  intros c s l s' H Hst.
  destruct s as [ev0 pend0 push0 stop0 consec0 ph0 wall0 notif0 cycles0 cut0]. simpl in Hst. subst stop0.
  unfold gstep in H. destruct (step c _ l) as [s1|] eqn:Hs; [|discriminate].
  unfold step in Hs. unfold loop_label. destruct (is_other l) eqn:Ho.
  - assert (s' = s1) by (simpl in H; destruct ph0; destruct l; simpl in Ho; try discriminate; inv_some H; auto).
    subst s1. clear H. simpl.
    destruct l; simpl in Ho; try discriminate; simpl in Hs.
    + destruct (lock_held ph0); [discriminate|]. inv_some Hs; simpl.
      repeat split; auto; try discriminate.
    + destruct (0 <? notif0); inv_some Hs; simpl. repeat split; auto; try discriminate.
      intros _. destruct ph0; simpl; auto. right; eauto.
    + destruct (lock_held ph0); [discriminate|]. inv_some Hs; simpl. repeat split; auto; try discriminate.
    + destruct (0 <? notif0); inv_some Hs; simpl. repeat split; auto; try discriminate.
      intros _. destruct ph0; simpl; auto. right; eauto.
  - simpl.
    destruct ph0; destruct l; simpl in Ho; try discriminate; simpl in Hs; try discriminate;
    try (match type of Hs with do_req _ _ _ _ _ _ _ = Some _ =>
           destruct (do_req_frame _ _ _ _ _ _ _ _ Hs) as (E1 & E2 & E3 & E4 & E5 & E6 & E7 & E8 & _);
           simpl in *; inv_some H; rewrite E3, E5; simpl;
           repeat split; auto; try discriminate end);
    try (match type of Hs with (if ?b then _ else _) = _ => destruct b eqn:Eb end; try discriminate).
    all: try solve [inv_some Hs; inv_some H; simpl; repeat split; auto; try discriminate].
    + (* LWaitBefore is not enabled *)
      unfold wake_requested in Eb; simpl in Eb. rewrite Bool.orb_true_r in Eb. simpl in Eb.
      rewrite Bool.andb_false_r in Eb. discriminate.
    + destruct (t =? advance_result c _ tgt w); inv_some Hs. inv_some H. simpl.
      repeat split; auto; try discriminate.
Qed.

Fixpoint loop_len (ls : list label) : Z :=
  match ls with [] => 0 | l :: r => (if loop_label l then 1 else 0) + loop_len r end.

Lemma loop_len_nonneg : forall ls, 0 <= loop_len ls.
Proof. induction ls as [|l r IH]; simpl; [lia|]. destruct (loop_label l); lia. Qed.

Lemma gstep_done : forall c s l s', gstep c s l = Some s' -> ph s = PDone -> loop_label l = false /\ ph s' = PDone.
Proof.
  intros c s l s' H Hd.
  destruct s as [ev0 pend0 push0 stop0 consec0 ph0 wall0 notif0 cycles0 cut0]. simpl in Hd. subst ph0.
  unfold gstep in H. destruct (step c _ l) as [s1|] eqn:Hs; [|discriminate].
  unfold step in Hs. unfold loop_label. destruct (is_other l) eqn:Ho.
  - simpl in H. inv_some H. split; auto.
    destruct l; simpl in Ho; try discriminate; simpl in Hs.
    + destruct stop0; inv_some Hs; auto.
    + destruct (0 <? notif0); inv_some Hs; auto.
    + inv_some Hs; auto.
    + destruct (0 <? notif0); inv_some Hs; auto.
  - destruct l; simpl in Ho; try discriminate; simpl in Hs; discriminate.
Qed.

Lemma exec_done : forall c ls s s', exec c s ls = Some s' -> ph s = PDone -> loop_len ls = 0 /\ ph s' = PDone.
Proof.
  induction ls as [|l r IH]; simpl; intros s s' H Hd; [inv_some H; auto|].
  destruct (gstep c s l) as [s1|] eqn:E; [|discriminate].
  destruct (gstep_done _ _ _ _ E Hd) as (Hl & Hd1). rewrite Hl. destruct (IH _ _ H Hd1). split; auto; lia.
Qed.

(* once a stop is flagged: it stays flagged; the loop body is not entered again, no
   wait is begun, no cycle is begun *)
Lemma stop_exec : forall c ls s s', exec c s ls = Some s' -> stop s = true ->
  stop s' = true /\ ~ In LTop ls /\ ~ In LWaitBefore ls /\ (forall t, ~ In (LEvalBegin t) ls).
Proof.
  induction ls as [|l r IH]; simpl; intros s s' H Hst; [inv_some H; repeat split; auto|].
  destruct (gstep c s l) as [s1|] eqn:E; [|discriminate].
  destruct (gstep_stop _ _ _ _ E Hst) as (Hs1 & N1 & N2 & N3 & _).
  destruct (IH _ _ H Hs1) as (Hs' & M1 & M2 & M3).
  repeat split; auto; try (intros [Hx|Hx]; [congruence|tauto]).
  intros t [Hx|Hx]; [apply (N3 t); congruence | apply (M3 t); auto].
Qed.

(* ... and the loop thread is out after at most togo(phase) <= 4 steps of its own *)
Lemma stop_exits_within : forall c ls s s', exec c s ls = Some s' -> stop s = true -> in_loop_code (ph s) = true ->
  loop_len ls <= togo (ph s) /\ (loop_len ls = togo (ph s) -> ph s' = PDone).
Proof.
  induction ls as [|l r IH]; simpl; intros s s' H Hst Hin.
  - inv_some H. destruct (ph s); simpl in *; try discriminate; split; intros; lia.
  - destruct (gstep c s l) as [s1|] eqn:E; [|discriminate].
    destruct (gstep_stop _ _ _ _ E Hst) as (Hs1 & _ & _ & _ & Ho & Hl & _).
    destruct (loop_label l) eqn:El.
    + destruct (Hl eq_refl Hin) as (Ht & Hn). destruct Hn as [Hn|Hn].
      * destruct (IH _ _ H Hs1 Hn) as (B1 & B2). split; [lia|]. intros Heq. apply B2. lia.
      * destruct (exec_done _ _ _ _ H Hn) as (L0 & Hd). rewrite Hn in Ht. simpl in Ht. split; [lia|auto].
    + destruct (Ho eq_refl) as [Hp|(tgt & a & b & Hp & Hp')].
      * rewrite <- Hp in *. destruct (IH _ _ H Hs1 Hin) as (B1 & B2). split; [lia|]. intros; apply B2; lia.
      * rewrite Hp in *. assert (Hin1 : in_loop_code (ph s1) = true) by (rewrite Hp'; auto).
        destruct (IH _ _ H Hs1 Hin1) as (B1 & B2). rewrite Hp' in *. simpl in *. split; [lia|]. intros; apply B2; lia.
Qed.

(* reaching the end: an advance that returns end_time or later is followed by the exit only *)
Lemma end_reached_exits : forall c s l s' prev t,
  gstep c s l = Some s' -> ph s = PAdv prev t -> c_end c <= t -> loop_label l = true -> l = LExit /\ ph s' = PDone.
Proof.
  intros c s l s' prev t H Hp Ht Hl.
  destruct s as [ev0 pend0 push0 stop0 consec0 ph0 wall0 notif0 cycles0 cut0]. simpl in Hp. subst ph0.
  unfold gstep in H. destruct (step c _ l) as [s1|] eqn:Hs; [|discriminate].
  unfold step in Hs. unfold loop_label in Hl. destruct (is_other l) eqn:Ho; [discriminate|].
  destruct l; simpl in Ho; try discriminate; simpl in Hs; try discriminate.
  - match type of Hs with (if ?b then _ else _) = _ => destruct b eqn:Eb end; [discriminate|]. lia.
  - match type of Hs with (if ?b then _ else _) = _ => destruct b eqn:Eb end; inv_some Hs. inv_some H. auto.
Qed.

(* ================================================================== *)
(* pushes *)
Lemma gstep_push : forall c s l s', gstep c s l = Some s' -> push s = true -> l <> LPushNode ->
  push s' = true /\ l <> LWaitBefore.
Proof.
  intros c s l s' H Hpu Hl.
  destruct s as [ev0 pend0 push0 stop0 consec0 ph0 wall0 notif0 cycles0 cut0]. simpl in Hpu. subst push0.
  unfold gstep in H. destruct (step c _ l) as [s1|] eqn:Hs; [|discriminate].
  unfold step in Hs. destruct (is_other l) eqn:Ho.
  - assert (s' = s1) by (simpl in H; destruct ph0; destruct l; simpl in Ho; try discriminate; inv_some H; auto).
    subst s1. clear H.
    destruct l; simpl in Ho; try discriminate; simpl in Hs.
    + destruct (lock_held ph0); [discriminate|]. destruct stop0; inv_some Hs; simpl; split; auto; discriminate.
    + destruct (0 <? notif0); inv_some Hs; simpl; split; auto; discriminate.
    + destruct (lock_held ph0); [discriminate|]. inv_some Hs; simpl; split; auto; discriminate.
    + destruct (0 <? notif0); inv_some Hs; simpl; split; auto; discriminate.
  - destruct ph0; destruct l; simpl in Ho; try discriminate; simpl in Hs; try discriminate; try congruence;
    try (match type of Hs with do_req _ _ _ _ _ _ _ = Some _ =>
           destruct (do_req_frame _ _ _ _ _ _ _ _ Hs) as (E1 & E2 & E3 & E4 & E5 & E6 & E7 & E8 & _);
           simpl in *; inv_some H; rewrite E2; split; auto; discriminate end);
    try (match type of Hs with (if ?b then _ else _) = _ => destruct b eqn:Eb end; try discriminate).
    all: try solve [inv_some Hs; inv_some H; simpl; split; auto; discriminate].
    + unfold wake_requested in Eb; simpl in Eb. rewrite Bool.andb_false_r in Eb. discriminate.
    + destruct (t =? advance_result c _ tgt w); inv_some Hs. inv_some H. simpl. split; auto; discriminate.
    + destruct (t0 =? t); inv_some Hs. inv_some H. simpl. split; auto; discriminate.
Qed.

(* a flagged push stays flagged, and the loop cannot go to wait, until the push sources are evaluated *)
Lemma push_exec : forall c ls s s', exec c s ls = Some s' -> push s = true -> ~ In LPushNode ls ->
  push s' = true /\ ~ In LWaitBefore ls.
Proof.
  induction ls as [|l r IH]; simpl; intros s s' H Hpu Hn; [inv_some H; auto|].
  destruct (gstep c s l) as [s1|] eqn:E; [|discriminate].
  assert (Hl : l <> LPushNode) by (intros ->; apply Hn; auto).
  destruct (gstep_push _ _ _ _ E Hpu Hl) as (Hp1 & Hw).
  destruct (IH _ _ H Hp1) as (Hp' & Hw'); [tauto|]. split; auto. intros [Hx|Hx]; [congruence|tauto].
Qed.

(* a cycle that begins with a push flagged evaluates the push sources *)
Lemma push_cycle_delivers : forall c s l s' t,
  gstep c s l = Some s' -> ph s = PEvalPre t -> push s = true -> loop_label l = true -> l = LPushNode /\ push s' = false.
Proof.
  intros c s l s' t H Hp Hpu Hl.
  destruct s as [ev0 pend0 push0 stop0 consec0 ph0 wall0 notif0 cycles0 cut0]. simpl in Hp, Hpu. subst ph0 push0.
  unfold gstep in H. destruct (step c _ l) as [s1|] eqn:Hs; [|discriminate].
  unfold step in Hs. unfold loop_label in Hl. destruct (is_other l) eqn:Ho; [discriminate|].
  destruct l; simpl in Ho; try discriminate; simpl in Hs; try discriminate.
  inv_some Hs. inv_some H. auto.
Qed.

(* ================================================================== *)
(* a pending time leaves the pending set only by being evaluated, at exactly that time *)
Lemma gstep_pend_removed : forall c s l s' p, wfc c -> Inv c s -> gstep c s l = Some s' ->
  In p (pend s) -> ~ In p (pend s') ->
  l = LEvalEnd /\ ev s = p /\ (ph s = PEval p \/ ph s = PEvalPre p).
Proof.
  intros c s l s' p Hw (HP & _) H Hin Hout.
  destruct s as [ev0 pend0 push0 stop0 consec0 ph0 wall0 notif0 cycles0 cut0].
  unfold gstep in H. destruct (step c _ l) as [s1|] eqn:Hs; [|discriminate].
  unfold step in Hs. destruct (is_other l) eqn:Ho.
  - assert (s' = s1) by (simpl in H; destruct ph0; destruct l; simpl in Ho; try discriminate; inv_some H; auto).
    subst s1. clear H. exfalso. apply Hout. simpl in *.
    destruct l; simpl in Ho; try discriminate; simpl in Hs.
    + destruct (lock_held ph0); [discriminate|]. destruct stop0; inv_some Hs; auto.
    + destruct (0 <? notif0); inv_some Hs; auto.
    + destruct (lock_held ph0); [discriminate|]. inv_some Hs; auto.
    + destruct (0 <? notif0); inv_some Hs; auto.
  - unfold phase_inv in HP; simpl in *.
    destruct ph0; destruct l; simpl in Ho; try discriminate; simpl in Hs; try discriminate;
    try (match type of Hs with do_req _ _ _ _ _ _ _ = Some _ =>
           destruct (do_req_frame _ _ _ _ _ _ _ _ Hs) as (_ & _ & _ & _ & _ & _ & _ & _ & Hk & _);
           simpl in *; inv_some H; exfalso; apply Hout; apply Hk; auto end);
    try (match type of Hs with (if ?b then _ else _) = _ => destruct b eqn:Eb end; try discriminate).
    all: try solve [inv_some Hs; inv_some H; simpl in *; exfalso; apply Hout; auto].
    + destruct (t =? advance_result c _ tgt w); inv_some Hs. inv_some H. simpl in *. exfalso; apply Hout; auto.
    + destruct (t0 =? t); inv_some Hs. inv_some H. simpl in *. exfalso; apply Hout; auto.
    + (* PEvalPre, LEvalEnd *)
      inv_some Hs. inv_some H. simpl in *. destruct HP as (Hev & _ & _ & Hp & _).
      assert (~ t < p) by (intros Hlt; apply Hout; apply pend_after_in; auto).
      specialize (Hp _ Hin). assert (p = t) by lia. subst p. subst t. auto.
    + inv_some Hs. inv_some H. simpl in *. destruct HP as (Hev & _ & _ & Hp & _).
      assert (~ t < p) by (intros Hlt; apply Hout; apply pend_after_in; auto).
      specialize (Hp _ Hin). assert (p = t) by lia. subst p. subst t. auto.
Qed.

Lemma exec_app : forall c a b s, exec c s (a ++ b) = match exec c s a with Some s1 => exec c s1 b | None => None end.
Proof. induction a as [|l r IH]; simpl; intros b s; auto. destruct (gstep c s l); auto. Qed.

Lemma exec_pend_removed : forall c ls s s' p, wfc c -> Inv c s -> exec c s ls = Some s' ->
  In p (pend s) -> ~ In p (pend s') ->
  exists la sm lb, ls = la ++ LEvalEnd :: lb /\ exec c s la = Some sm /\ ev sm = p /\ (ph sm = PEval p \/ ph sm = PEvalPre p).
Proof.
  induction ls as [|l r IH]; simpl; intros s s' p Hw HI H Hin Hout; [inv_some H; tauto|].
  destruct (gstep c s l) as [s1|] eqn:E; [|discriminate].
  destruct (in_dec Z.eq_dec p (pend s1)) as [Hin1|Hout1].
  - destruct (IH s1 s' p Hw (Inv_step _ _ _ _ Hw HI E) H Hin1 Hout) as (la & sm & lb & -> & Hla & Hev & Hph).
    exists (l :: la), sm, lb. simpl. rewrite E. auto.
  - destruct (gstep_pend_removed _ _ _ _ _ Hw HI E Hin Hout1) as (-> & Hev & Hph).
    exists [], s, r. simpl. auto.
Qed.

(* ================================================================== *)
(* the acceptor of recorded histories is the transition function itself *)
Lemma exec_ix_spec : forall c ls s i s',
  fst (exec_ix c s ls i) = -1 -> 0 <= i -> snd (exec_ix c s ls i) = s' -> exec c s ls = Some s'.
Proof.
  induction ls as [|l r IH]; simpl; intros s i s' H Hi Hs; [congruence|].
  destruct (gstep c s l) as [s1|] eqn:E; [apply (IH s1 (i + 1)); auto; lia | simpl in H; lia].
Qed.

Lemma exec_ix_complete : forall c ls s i s', exec c s ls = Some s' -> exec_ix c s ls i = (-1, s').
Proof.
  induction ls as [|l r IH]; simpl; intros s i s' H; [congruence|].
  destruct (gstep c s l) as [s1|] eqn:E; [auto|discriminate].
Qed.

(* the arithmetic a free-running observer checks of one cycle holds of every cycle the model can
   produce, whatever the unobserved reading was: w is the reading the loop used, wlast an earlier
   reading, wobs a later one *)
Lemma fr_cycle_sound : forall (first : bool) start endt prev wlast tgt w wobs t,
  t = eval_time tgt w prev -> wlast <= w -> w <= wobs -> t < endt ->
  (if first then start <= tgt /\ prev = start else prev < tgt) ->
  fr_cycle_ok first start endt prev wlast tgt t wobs = true.
Proof.
  intros first start endt prev wlast tgt w wobs t -> H1 H2 H3 H4.
  unfold fr_cycle_ok, eval_time, MIN_TD in *. destruct first; lia.
Qed.

(* ================================================================== *)
(* never skipped: outside the drain cut, evaluation time never passes a pending wake-up time *)
Lemma Inv_ev_le_pend : forall c s, Inv c s -> cut s = false -> forall p, In p (pend s) -> ev s <= p.
Proof.
  intros c s (HP & _) Hc p Hin. unfold phase_inv, adv_inv, lowb, MIN_TD in HP.
  destruct (ph s); try (destruct HP as ((_ & Hp & _) & _); specialize (Hp _ Hin); destruct (cycles s); lia).
  - destruct HP as (_ & Hp & _). auto.
  - destruct HP as (Hp & _). specialize (Hp _ Hin). destruct (cycles s); lia.
  - destruct HP as (_ & Hp & _). specialize (Hp _ Hin). destruct (cycles s); lia.
  - destruct HP as (_ & Hp & _). specialize (Hp _ Hin). destruct (cycles s); lia.
  - destruct HP as (He & _ & Hp & _). specialize (Hp Hc _ Hin). lia.
  - destruct HP as (He & _ & _ & Hp & _). specialize (Hp _ Hin). lia.
  - destruct HP as (He & _ & _ & Hp & _). specialize (Hp _ Hin). lia.
  - destruct HP as (Hp & _). auto.
Qed.

(* a cycle is begun only at the time the latest advance returned *)
Lemma evalbegin_latest : forall c s t s', Inv c s -> gstep c s (LEvalBegin t) = Some s' ->
  exists a rest, cycles s = a :: rest /\ ct a = t /\ ph s' = PEvalPre t /\ cycles s' = cycles s.
Proof.
  intros c s t s' (HP & HE & _) H.
  destruct s as [ev0 pend0 push0 stop0 consec0 ph0 wall0 notif0 cycles0 cut0].
  unfold gstep in H. destruct (step c _ (LEvalBegin t)) as [s1|] eqn:Hs; [|discriminate].
  unfold step in Hs; simpl in Hs. unfold phase_inv in HP; simpl in *.
  destruct ph0; try discriminate.
  match type of Hs with (if ?b then _ else _) = _ => destruct b eqn:Eb end; [discriminate|].
  destruct (t =? t0) eqn:Et; inv_some Hs. inv_some H. simpl.
  destruct HP as (Hev & (a & rest & Hcy & _) & _). subst cycles0. exists a, rest. repeat split; auto; try lia.
  f_equal; lia.
Qed.

(* a request made during an evaluation is entered for a time after the current cycle, and is pending *)
Lemma req_enters_pending : forall c s k a w1 w2 e s' t,
  gstep c s (LReq k a w1 w2 e) = Some s' -> ph s = PEval t -> e <> 0 ->
  sched_eff true (ev s) k a w1 w2 = Some e /\ ev s < e /\ In e (pend s') /\ ev s' = ev s.
Proof.
  intros c s k a w1 w2 e s' t H Hp He.
  destruct s as [ev0 pend0 push0 stop0 consec0 ph0 wall0 notif0 cycles0 cut0]. simpl in Hp. subst ph0.
  unfold gstep in H. destruct (step c _ _) as [s1|] eqn:Hs; [|discriminate].
  unfold step in Hs; simpl in Hs. inv_some H.
  destruct (do_req_frame _ _ _ _ _ _ _ _ Hs) as (E1 & _ & _ & _ & _ & _ & _ & _ & _ & Hin).
  unfold do_req in Hs. match type of Hs with (if negb ?b then _ else _) = _ => destruct b end; simpl in Hs; [|discriminate].
  simpl in *. destruct (sched_eff true ev0 k a w1 w2) as [e'|] eqn:Es.
  - destruct (e' =? e) eqn:Ee; [|discriminate]. assert (e' = e) by lia. subst e'.
    repeat split; auto. eapply sched_eff_started_gt; eauto.
  - destruct (e =? 0) eqn:Ee; [lia|discriminate].
Qed.

(* ================================================================== *)
(* The statements of Props/C17.v *)
Lemma rt_times_strict_l : forall c w0 ls s, wfc c -> run c w0 ls s ->
  decreasing (map ct (cycles s)) /\ Forall (fun a => c_start c <= ct a) (cycles s).
Proof. intros c w0 ls s Hw Hr. destruct (run_Inv _ _ _ _ Hw Hr) as (_ & _ & Hc). apply chain_decreasing; auto. Qed.

Lemma rt_cycle_is_latest_advance_l : forall c w0 ls s t s', wfc c -> run c w0 ls s ->
  gstep c s (LEvalBegin t) = Some s' ->
  exists a rest, cycles s = a :: rest /\ ct a = t /\ ph s' = PEvalPre t /\ cycles s' = cycles s.
Proof. intros c w0 ls s t s' Hw Hr H. eapply evalbegin_latest; eauto using run_Inv. Qed.

Lemma eval_time_formula_l : forall c w0 ls s, wfc c -> run c w0 ls s ->
  Forall (fun a => ct a = Z.min (ctgt a) (Z.max (cw a) (cprev a + MIN_TD))) (tl (cycles s)) /\
  (cut s = false -> Forall (fun a => ct a = Z.min (ctgt a) (Z.max (cw a) (cprev a + MIN_TD))) (cycles s)) /\
  Forall (fun a => ctgt a <= c_end c /\ (cw a < ctgt a -> cwk a = true)) (cycles s).
Proof.
  intros c w0 ls s Hw Hr. destruct (run_Inv2 _ _ _ _ Hw Hr) as (_ & H2 & H3 & _).
  destruct (run_Inv _ _ _ _ Hw Hr) as (_ & _ & Hc). apply chain_forall in Hc.
  split; [exact H2|]. split; [exact H3|].
  eapply Forall_impl; [|exact Hc]. intros a (A1 & A2 & _). auto.
Qed.

Lemma rt_never_early_l : forall c w0 ls s a, wfc c -> run c w0 ls s ->
  In a (tl (cycles s)) \/ (cut s = false /\ In a (cycles s)) ->
  ct a <= ctgt a /\ ct a <= Z.max (cw a) (cprev a + MIN_TD) /\
  (cprev a + MIN_TD < ct a -> ct a <= cw a) /\
  (ctgt a <= cw a -> cprev a < ctgt a -> ct a = ctgt a).
Proof.
  intros c w0 ls s a Hw Hr Ha. destruct (run_Inv2 _ _ _ _ Hw Hr) as (_ & H2 & H3 & _).
  assert (He : exact a).
  { destruct Ha as [Ha|(Hc & Ha)]; [rewrite Forall_forall in H2; auto|].
    specialize (H3 Hc). rewrite Forall_forall in H3; auto. }
  unfold exact, eval_time, MIN_TD in *. lia.
Qed.

Lemma rt_never_skips_l : forall c w0 ls s p, wfc c -> run c w0 ls s -> cut s = false ->
  In p (pend s) -> ev s <= p.
Proof. intros c w0 ls s p Hw Hr Hc Hin. eapply Inv_ev_le_pend; eauto using run_Inv. Qed.

Lemma rt_evaluated_at_exactly_its_time_l : forall c w0 ls s l s' p, wfc c -> run c w0 ls s ->
  gstep c s l = Some s' -> In p (pend s) -> ~ In p (pend s') ->
  l = LEvalEnd /\ ev s = p /\ (ph s = PEval p \/ ph s = PEvalPre p).
Proof. intros c w0 ls s l s' p Hw Hr H Hin Hout. eapply gstep_pend_removed; eauto using run_Inv. Qed.

Lemma Inv_no_drop : forall c s p, Inv c s -> ph s = PDone -> stop s = false -> cut s = false -> In p (pend s) -> c_end c <= p.
Proof.
  intros c s p (HP & _) Hd Hs Hc Hin. unfold phase_inv in HP. rewrite Hd in HP. destruct HP as (H1 & H2).
  specialize (H1 Hc _ Hin). specialize (H2 Hs). lia.
Qed.

Lemma rt_no_drop_l : forall c w0 ls s p, wfc c -> run c w0 ls s ->
  ph s = PDone -> stop s = false -> cut s = false -> In p (pend s) -> c_end c <= p.
Proof. intros c w0 ls s p Hw Hr. apply Inv_no_drop. eapply run_Inv; eauto. Qed.

Lemma rt_every_due_wakeup_evaluated_l : forall c w0 ls1 s1 ls2 s2 p, wfc c ->
  run c w0 ls1 s1 -> exec c s1 ls2 = Some s2 ->
  In p (pend s1) -> p < c_end c -> ph s2 = PDone -> stop s2 = false -> cut s2 = false ->
  exists la sm lb, ls2 = la ++ LEvalEnd :: lb /\ exec c s1 la = Some sm /\ ev sm = p /\
                   (ph sm = PEval p \/ ph sm = PEvalPre p).
Proof.
  intros c w0 ls1 s1 ls2 s2 p Hw Hr1 H2 Hin Hlt Hd Hs Hc.
  pose proof (run_Inv _ _ _ _ Hw Hr1) as HI1. pose proof (Inv_exec _ _ _ _ Hw HI1 H2) as HI2.
  apply (exec_pend_removed c ls2 s1 s2 p Hw HI1 H2 Hin).
  intros Hin2. pose proof (Inv_no_drop _ _ _ HI2 Hd Hs Hc Hin2). lia.
Qed.

Lemma drain_cut_only_then_l : forall c w0 ls s, wfc c -> run c w0 ls s -> cut s = true ->
  exists a rest, cycles s = a :: rest /\ ct a = c_end c /\ c_end c <= cw a /\
    Z.min (ctgt a) (Z.max (cw a) (cprev a + MIN_TD)) <= cprev a + MIN_TD /\
    (1024 <= length rest)%nat /\ Forall (fun b => ct b = cprev b + MIN_TD) (firstn 1024 rest).
Proof.
  intros c w0 ls s Hw Hr Hc. destruct (run_Inv2 _ _ _ _ Hw Hr) as (_ & _ & _ & H4).
  destruct (H4 Hc) as (a & rest & E & A1 & A2 & A3 & (R0 & R1 & R2)).
  exists a, rest. repeat split; auto;
    first [ unfold MAX_DRAIN in R1; lia
          | replace 1024%nat with (Z.to_nat MAX_DRAIN) by (unfold MAX_DRAIN; lia); exact R2 ].
Qed.

Lemma already_due_alarm_l : forall now w when,
  (exists e, sched_abs true now w when true = Some e) /\
  (when <= Z.max now w -> sched_abs true now w when true = Some (Z.max (now + MIN_TD) w)) /\
  (Z.max now w < when -> sched_abs true now w when true = Some when).
Proof.
  intros; split; [apply wall_alarm_never_dropped|]. split; [apply wall_alarm_due | apply wall_alarm_future].
Qed.

Lemma request_enters_pending_l : forall c w0 ls s k a w1 w2 e s' t, run c w0 ls s ->
  gstep c s (LReq k a w1 w2 e) = Some s' -> ph s = PEval t -> e <> 0 ->
  sched_eff true (ev s) k a w1 w2 = Some e /\ ev s < e /\ In e (pend s') /\ ev s' = ev s.
Proof. intros c w0 ls s k a w1 w2 e s' t _. apply req_enters_pending. Qed.

Lemma stop_ends_after_current_l : forall c w0 ls s ls' s', run c w0 ls s -> stop s = true ->
  exec c s ls' = Some s' ->
  stop s' = true /\ ~ In LTop ls' /\ ~ In LWaitBefore ls' /\ (forall t, ~ In (LEvalBegin t) ls').
Proof. intros c w0 ls s ls' s' _ Hs H. eapply stop_exec; eauto. Qed.

Lemma stop_exits_within_l : forall c w0 ls s ls' s', run c w0 ls s -> stop s = true ->
  in_loop_code (ph s) = true -> exec c s ls' = Some s' ->
  loop_len ls' <= togo (ph s) /\ togo (ph s) <= 4 /\ (loop_len ls' = togo (ph s) -> ph s' = PDone).
Proof.
  intros c w0 ls s ls' s' _ Hs Hin H. destruct (stop_exits_within _ _ _ _ H Hs Hin) as (A & B).
  repeat split; auto. destruct (ph s); simpl; lia.
Qed.

Lemma no_missed_l : forall c w0 ls s tgt sg, run c w0 ls s ->
  ph s = PWait tgt sg -> wake_requested s = true -> 0 < notif s \/ sg = true.
Proof.
  intros c w0 ls s tgt sg Hr Hp Hf. pose proof (Inv3_exec _ _ _ _ (Inv3_init c w0) Hr) as (_ & H).
  rewrite Hp in H. auto.
Qed.

Lemma wait_only_without_flags_l : forall c s s', gstep c s LWaitBefore = Some s' -> wake_requested s = false.
Proof.
  intros c s s' H. unfold gstep in H. destruct (step c s LWaitBefore) as [s1|] eqn:Hs; [|discriminate].
  unfold step in Hs; simpl in Hs. destruct (ph s); try discriminate.
  match type of Hs with (if ?b then _ else _) = _ => destruct b eqn:Eb end; [|discriminate].
  destruct (wake_requested s); auto. rewrite Bool.andb_false_r in Eb. discriminate.
Qed.

Lemma acceptor_sound_l : forall c ls s s', exec_ix c s ls 0 = (-1, s') <-> exec c s ls = Some s'.
Proof.
  intros c ls s s'; split; intros H.
  - apply (exec_ix_spec c ls s 0 s'); [rewrite H; auto | lia | rewrite H; auto].
  - apply exec_ix_complete; auto.
Qed.

(* ================================================================== *)
(* Trace-level form of "evaluation time strictly increases": the times of the
   LEvalBegin labels of a run, in order. *)
Definition eval_times (ls : list label) : list Z :=
  flat_map (fun l => match l with LEvalBegin t => [t] | _ => [] end) ls.

Lemma advance_result_lb : forall c s tgt w lk brk, wfc c -> Inv c s -> ph s = PCheck tgt w lk brk ->
  lowb s <= advance_result c s tgt w.
Proof.
  intros c s tgt w lk brk [Hse Hem] (HP & _) Hp. unfold phase_inv in HP. rewrite Hp in HP. destruct HP as (HA & _).
  pose proof (adv_target_lb _ _ _ Hem HA) as (Hlb & Hte & _). destruct HA as (_ & _ & Hev & _).
  unfold advance_result. destruct (drain_cut c s tgt w).
  - unfold lowb, MIN_TD in *. destruct (cycles s); lia.
  - unfold eval_time, lowb, MIN_TD in *. destruct (cycles s); lia.
Qed.

(* E: the cycle times so far, newest first *)
Definition K (E : list Z) (s : st) : Prop :=
  decreasing E /\ (forall t, In t E -> t <= ev s) /\ (E <> [] -> cycles s <> []) /\
  (forall prev t', ph s = PAdv prev t' -> (forall t, In t E -> t <= prev) /\ (E <> [] -> prev < t')).

Lemma K_step : forall c s l s' E, wfc c -> Inv c s -> K E s -> gstep c s l = Some s' ->
  K (match l with LEvalBegin t => t :: E | _ => E end) s'.
Proof.
  intros c s l s' E Hw HI (K1 & K2 & K3 & K4) H.
  pose proof (Inv_step _ _ _ _ Hw HI H) as HI'.
  destruct (match l with LEvalBegin _ => true | LAdv _ => true | _ => false end) eqn:El.
  - destruct l; try discriminate.
    + (* LAdv *)
      pose proof HI as (HP & HE & HC).
      assert (exists tgt w lk brk, ph s = PCheck tgt w lk brk /\ t = advance_result c s tgt w /\
                ph s' = PAdv (ev s) t /\ ev s' = t /\ cycles s' <> []) as (tgt & w & lk & brk & Hp & Ht & Hp' & He' & Hc').
      { destruct s as [ev0 pend0 push0 stop0 consec0 ph0 wall0 notif0 cycles0 cut0].
        unfold gstep in H. destruct (step c _ (LAdv t)) as [s1|] eqn:Hs; [|discriminate].
        unfold step in Hs; simpl in Hs. destruct ph0; try discriminate.
        match type of Hs with (if ?b then _ else _) = _ => destruct b end; [discriminate|].
        destruct (t =? advance_result c _ tgt w) eqn:Et; inv_some Hs. inv_some H. simpl.
        exists tgt, w, locked, brk. repeat split; auto; try lia. discriminate. }
      pose proof (advance_result_lb _ _ _ _ _ _ Hw HI Hp) as Hlb. rewrite <- Ht in Hlb.
      unfold K. rewrite He'. split; [exact K1|]. split; [|split].
      * intros t0 Hin. specialize (K2 _ Hin). unfold lowb, MIN_TD in Hlb. destruct (cycles s); lia.
      * intros _. exact Hc'.
      * intros prev t' Hq. rewrite Hp' in Hq. injection Hq as <- <-. split; [exact K2|].
        intros HE0. specialize (K3 HE0). unfold lowb, MIN_TD in Hlb. destruct (cycles s); [tauto|lia].
    + (* LEvalBegin *)
      destruct HI as (HP & HE & HC).
      assert (exists prev, ph s = PAdv prev t /\ ev s = t /\ ev s' = t /\ ph s' = PEvalPre t /\ cycles s' = cycles s)
        as (prev & Hp & He & He' & Hp' & Hc').
      { destruct s as [ev0 pend0 push0 stop0 consec0 ph0 wall0 notif0 cycles0 cut0].
        unfold gstep in H. destruct (step c _ (LEvalBegin t)) as [s1|] eqn:Hs; [|discriminate].
        unfold step in Hs; simpl in Hs. destruct ph0; try discriminate.
        match type of Hs with (if ?b then _ else _) = _ => destruct b end; [discriminate|].
        destruct (t =? t0) eqn:Et; inv_some Hs. inv_some H. simpl.
        unfold phase_inv in HP; simpl in HP. destruct HP as (Hev & _).
        exists prev. assert (Htt : t0 = t) by lia. rewrite Htt in *. repeat split; auto; try lia. }
      destruct (K4 _ _ Hp) as (K5 & K6).
      unfold K. rewrite He'. split; [|split; [|split]].
      * simpl. destruct E as [|b r]; [auto|]. split; [|exact K1].
        assert (b <= prev) by (apply K5; left; auto). assert (prev < t) by (apply K6; discriminate). lia.
      * intros t0 [<-|Hin]; [lia|]. specialize (K2 _ Hin). lia.
      * intros _. rewrite Hc'. unfold phase_inv in HP. rewrite Hp in HP.
        destruct HP as (_ & (a & rest & Hcy & _) & _). rewrite Hcy. discriminate.
      * intros prev' t' Hq. rewrite Hp' in Hq. discriminate.
  - (* every other label: evaluation_time and the cycle record do not change, and PAdv is not entered *)
    assert (Hfr : ev s' = ev s /\ cycles s' = cycles s /\ (forall prev t', ph s' = PAdv prev t' -> ph s = PAdv prev t')).
    { destruct s as [ev0 pend0 push0 stop0 consec0 ph0 wall0 notif0 cycles0 cut0].
      unfold gstep in H. destruct (step c _ l) as [s1|] eqn:Hs; [|discriminate].
      unfold step in Hs. destruct (is_other l) eqn:Ho.
      - assert (s' = s1) by (simpl in H; destruct ph0; destruct l; simpl in Ho; try discriminate; inv_some H; auto).
        subst s1. clear H.
        destruct l; simpl in Ho; try discriminate; simpl in Hs.
        + destruct (lock_held ph0); [discriminate|]. destruct stop0; inv_some Hs; simpl; auto.
        + destruct (0 <? notif0); inv_some Hs; simpl. repeat split; auto. destruct ph0; simpl; auto; discriminate.
        + destruct (lock_held ph0); [discriminate|]. inv_some Hs; simpl; auto.
        + destruct (0 <? notif0); inv_some Hs; simpl. repeat split; auto. destruct ph0; simpl; auto; discriminate.
      - destruct ph0; destruct l; simpl in Ho; try discriminate; simpl in El; try discriminate; simpl in Hs; try discriminate;
        try (match type of Hs with do_req _ _ _ _ _ _ _ = Some _ =>
               destruct (do_req_frame _ _ _ _ _ _ _ _ Hs) as (E1 & E2 & E3 & E4 & E5 & E6 & E7 & E8 & _);
               simpl in *; inv_some H; rewrite E1, E5, E7; repeat split; auto; discriminate end);
        try (match type of Hs with (if ?b then _ else _) = _ => destruct b eqn:Eb end; try discriminate).
        all: try solve [inv_some Hs; inv_some H; simpl; repeat split; auto; discriminate]. }
    destruct Hfr as (He & Hc & Hq).
    assert (Hm : (match l with LEvalBegin t => t :: E | _ => E end) = E) by (destruct l; auto; discriminate).
    rewrite Hm. unfold K. rewrite He, Hc. split; [exact K1|]. split; [exact K2|]. split; [exact K3|].
    intros prev t' Hp'. apply (K4 _ _ (Hq _ _ Hp')).
Qed.

Lemma K_exec : forall c ls s s' E, wfc c -> Inv c s -> K E s -> exec c s ls = Some s' ->
  K (rev (eval_times ls) ++ E) s'.
Proof.
  induction ls as [|l r IH]; simpl; intros s s' E Hw HI HK H; [inv_some H; auto|].
  destruct (gstep c s l) as [s1|] eqn:Eg; [|discriminate].
  pose proof (K_step _ _ _ _ _ Hw HI HK Eg) as HK1. pose proof (Inv_step _ _ _ _ Hw HI Eg) as HI1.
  specialize (IH _ _ _ Hw HI1 HK1 H).
  destruct l; simpl; try exact IH. rewrite <- app_assoc. simpl. exact IH.
Qed.

Lemma eval_times_bounds : forall c ls s0 s, wfc c -> Inv c s0 -> exec c s0 ls = Some s ->
  forall t, In t (eval_times ls) -> c_start c <= t /\ t < c_end c.
Proof.
  induction ls as [|l r IH]; simpl; intros s0 s Hw HI Hr t Hin; [tauto|].
  destruct (gstep c s0 l) as [s1|] eqn:Eg; [|discriminate].
  pose proof (Inv_step _ _ _ _ Hw HI Eg) as HI1.
  apply in_app_or in Hin. destruct Hin as [Hin|Hin]; [|apply (IH _ _ Hw HI1 Hr _ Hin)].
  destruct l; simpl in Hin; try tauto. destruct Hin as [Ht|[]]. subst t0.
  destruct (evalbegin_latest _ _ _ _ HI Eg) as (a & rest & Hcy & Hct & Hp' & _).
  destruct HI as (_ & _ & HC). rewrite Hcy in HC. pose proof (chain_decreasing _ _ HC) as (_ & Hf).
  inversion Hf; subst. split; auto.
  destruct HI1 as (HP1 & _). unfold phase_inv in HP1. rewrite Hp' in HP1. tauto.
Qed.

Lemma cycle_times_strict_l : forall c w0 ls s, wfc c -> run c w0 ls s ->
  decreasing (rev (eval_times ls)) /\ (forall t, In t (eval_times ls) -> c_start c <= t /\ t < c_end c).
Proof.
  intros c w0 ls s Hw Hr.
  assert (HK0 : K [] (init c w0)).
  { unfold K; simpl. split; [auto|]. split; [tauto|]. split; [tauto|]. intros prev t' Hq; discriminate. }
  pose proof (K_exec _ _ _ _ _ Hw (Inv_init c w0) HK0 Hr) as (K1 & _). rewrite app_nil_r in K1. split; auto.
  eapply eval_times_bounds; eauto using Inv_init.
Qed.

(* ================================================================== *)
(* A stop requested during the start phase (after run_storage's reset): no cycle at all. *)
Definition stopped_before_loop (s : st) : Prop :=
  stop s = true /\ cycles s = [] /\ (ph s = PStart \/ ph s = PTop \/ ph s = PDone).

Lemma stopped_before_loop_step : forall c s l s', gstep c s l = Some s' -> stopped_before_loop s -> stopped_before_loop s'.
Proof.
  intros c s l s' H (Hst & Hcy & Hph).
  destruct s as [ev0 pend0 push0 stop0 consec0 ph0 wall0 notif0 cycles0 cut0]. simpl in Hst, Hcy, Hph. subst stop0 cycles0.
  unfold gstep in H. destruct (step c _ l) as [s1|] eqn:Hs; [|discriminate].
  unfold step in Hs. unfold stopped_before_loop. destruct (is_other l) eqn:Ho.
  - assert (s' = s1) by (simpl in H; destruct ph0; destruct l; simpl in Ho; try discriminate; inv_some H; auto).
    subst s1. clear H.
    destruct l; simpl in Ho; try discriminate; simpl in Hs.
    + destruct (lock_held ph0); [discriminate|]. inv_some Hs; simpl; auto.
    + destruct (0 <? notif0); inv_some Hs; simpl. repeat split; auto.
      destruct Hph as [->|[->| ->]]; simpl; auto.
    + destruct (lock_held ph0); [discriminate|]. inv_some Hs; simpl; auto.
    + destruct (0 <? notif0); inv_some Hs; simpl. repeat split; auto.
      destruct Hph as [->|[->| ->]]; simpl; auto.
  - destruct Hph as [->|[->| ->]]; destruct l; simpl in Ho; try discriminate; simpl in Hs; try discriminate;
    try (match type of Hs with do_req _ _ _ _ _ _ _ = Some _ =>
           destruct (do_req_frame _ _ _ _ _ _ _ _ Hs) as (E1 & E2 & E3 & E4 & E5 & E6 & E7 & E8 & _);
           simpl in *; inv_some H; rewrite E3, E5, E7; auto end);
    try (match type of Hs with (if ?b then _ else _) = _ => destruct b eqn:Eb end; try discriminate).
    all: try solve [inv_some Hs; inv_some H; simpl; auto 6].
Qed.

Lemma stopped_before_loop_exec : forall c ls s s', exec c s ls = Some s' -> stopped_before_loop s ->
  stopped_before_loop s' /\ (forall t, ~ In (LAdv t) ls).
Proof.
  induction ls as [|l r IH]; simpl; intros s s' H HS; [inv_some H; auto|].
  destruct (gstep c s l) as [s1|] eqn:E; [|discriminate].
  destruct (IH _ _ H (stopped_before_loop_step _ _ _ _ E HS)) as (HS' & Hn). split; auto.
  intros t [Hl|Hin]; [|apply (Hn t); auto]. subst l.
  destruct HS as (_ & _ & Hph). unfold gstep in E.
  destruct (step c s (LAdv t)) as [s2|] eqn:Hs; [|discriminate].
  unfold step in Hs; simpl in Hs. destruct Hph as [Hp|[Hp|Hp]]; rewrite Hp in Hs; discriminate.
Qed.

Lemma stop_during_start_l : forall c w0 ls s ls' s', wfc c -> run c w0 ls s -> ph s = PStart -> stop s = true ->
  exec c s ls' = Some s' ->
  stop s' = true /\ cycles s' = [] /\ (ph s' = PStart \/ ph s' = PTop \/ ph s' = PDone) /\
  ~ In LTop ls' /\ (forall t, ~ In (LEvalBegin t) ls') /\ (forall t, ~ In (LAdv t) ls').
Proof.
  intros c w0 ls s ls' s' Hw Hr Hp Hst H.
  assert (HS : stopped_before_loop s).
  { destruct (run_Inv _ _ _ _ Hw Hr) as (HP & _). unfold phase_inv in HP. rewrite Hp in HP.
    unfold stopped_before_loop. tauto. }
  destruct (stopped_before_loop_exec _ _ _ _ H HS) as ((A & B & C) & D).
  destruct (stop_exec _ _ _ _ H Hst) as (_ & N1 & _ & N3). repeat split; auto.
Qed.

(* ================================================================== *)
(* the acceptor with reports of the cached next_scheduled_time: an accepted history is a run of the model,
   and every reported value is the minimum of the pending set (-1 when empty) at that point *)
Lemma accept_ix_run : forall c os s i s', fst (accept_ix c s os i) = -1 -> 0 <= i -> snd (accept_ix c s os i) = s' ->
  exec c s (labels_of os) = Some s'.
Proof.
  induction os as [|o r IH]; simpl; intros s i s' H Hi Hs; [congruence|].
  destruct o as [l|nx]; simpl.
  - destruct (gstep c s l) as [s1|] eqn:E; [apply (IH s1 (i + 1)); auto; lia | simpl in H; lia].
  - destruct (nx =? next_obs s); [apply (IH s (i + 1)); auto; lia | simpl in H; lia].
Qed.

(* ================================================================== *)
(* The root scan: the cached next_scheduled_time it leaves is at or below every future slot, of the
   push-source prefix as of the ordinary nodes, whether or not the node was evaluated in the cycle. *)
Local Arguments schedule_node_rule : simpl never.
Local Arguments fold_slot : simpl never.

Definition below_future (t next : Z) (slots : list Z) : Prop :=
  forall s, In s slots -> t < s -> s < MAX_DT -> next <= s.

Lemma schedule_node_rule_ok : forall t w slot next slot' next',
  schedule_node_rule t w (slot, next) = (slot', next') ->
  next' <= next /\ ((t < slot -> slot < MAX_DT -> next <= slot) -> (t < slot' -> slot' < MAX_DT -> next' <= slot')).
Proof.
  intros t w slot next slot' next' H. unfold schedule_node_rule in H.
  destruct ((slot <=? t) || (w <? slot)) eqn:E.
  - destruct ((t <? w) && (w <? next)) eqn:E2; inversion H; subst; split; intros; lia.
  - inversion H; subst. split; auto; lia.
Qed.

Lemma schedule_reqs_ok : forall t ws slot next slot' next',
  fold_left (fun sn w => schedule_node_rule t w sn) ws (slot, next) = (slot', next') ->
  next' <= next /\ ((t < slot -> slot < MAX_DT -> next <= slot) -> (t < slot' -> slot' < MAX_DT -> next' <= slot')).
Proof.
  induction ws as [|w r IH]; simpl; intros slot next slot' next' H.
  - inversion H; subst. split; auto; lia.
  - destruct (schedule_node_rule t w (slot, next)) as [s1 n1] eqn:E.
    try rewrite E in H.
    destruct (schedule_node_rule_ok _ _ _ _ _ _ E) as (A1 & A2). destruct (IH _ _ _ _ H) as (B1 & B2).
    split; [lia|]. intros J. apply B2. apply A2. exact J.
Qed.

Lemma fold_slot_ok : forall t slot next, fold_slot t slot next <= next /\ (t < slot -> slot < MAX_DT -> fold_slot t slot next <= slot).
Proof. intros; unfold fold_slot. destruct ((t <? slot) && (slot <? next)) eqn:E; split; intros; lia. Qed.

Lemma scan_push_ok : forall t pushp beh slots i next slots' next',
  scan_push t pushp beh i slots next = (slots', next') ->
  next' <= next /\ below_future t next' slots'.
Proof.
  induction slots as [|sl r IH]; simpl; intros i next slots' next' H.
  - inversion H; subst. split; [lia|]. intros s [].
  - destruct (if pushp || (sl =? t)
              then fold_left (fun sn w => schedule_node_rule t w sn) (beh i) (if sl =? t then MIN_DT else sl, next)
              else (sl, next)) as [sl1 next1] eqn:E1.
    destruct (scan_push t pushp beh (S i) r (fold_slot t sl1 next1)) as [r' n'] eqn:E2.
    inversion H; subst. destruct (IH _ _ _ _ E2) as (B1 & B2).
    destruct (fold_slot_ok t sl1 next1) as (F1 & F2).
    assert (N1 : next1 <= next).
    { destruct (pushp || (sl =? t)); [apply schedule_reqs_ok in E1; tauto | inversion E1; lia]. }
    split; [lia|]. intros s [<-|Hin] Hs Hm; [|apply B2; auto]. specialize (F2 Hs Hm). lia.
Qed.

Lemma scan_norm_ok : forall t beh slots i next slots' next',
  scan_norm t beh i slots next = (slots', next') ->
  next' <= next /\ below_future t next' slots'.
Proof.
  induction slots as [|sl r IH]; simpl; intros i next slots' next' H.
  - inversion H; subst. split; [lia|]. intros s [].
  - destruct (if sl =? t then fold_left (fun sn w => schedule_node_rule t w sn) (beh i) (sl, next)
              else (sl, fold_slot t sl next)) as [sl1 next1] eqn:E1.
    destruct (scan_norm t beh (S i) r next1) as [r' n'] eqn:E2.
    inversion H; subst. destruct (IH _ _ _ _ E2) as (B1 & B2).
    assert (N1 : next1 <= next /\ (t < sl1 -> sl1 < MAX_DT -> next1 <= sl1)).
    { destruct (sl =? t) eqn:Ed.
      - destruct (schedule_reqs_ok _ _ _ _ _ _ E1) as (A1 & A2). split; auto. apply A2. lia.
      - inversion E1; subst. apply fold_slot_ok. }
    destruct N1 as (N1 & N2). split; [lia|]. intros s [<-|Hin] Hs Hm; [|apply B2; auto]. specialize (N2 Hs Hm). lia.
Qed.

Lemma root_scan_next_le_future_slots_l : forall t pushp beh prefix rest slots' next',
  root_scan t pushp beh prefix rest = (slots', next') -> below_future t next' slots'.
Proof.
  intros t pushp beh prefix rest slots' next' H. unfold root_scan in H.
  destruct (scan_push t pushp beh 0 prefix MAX_DT) as [p' n1] eqn:E1.
  destruct (scan_norm t beh (length prefix) rest n1) as [r' n2] eqn:E2. inversion H; subst.
  destruct (scan_push_ok _ _ _ _ _ _ _ _ E1) as (_ & P). destruct (scan_norm_ok _ _ _ _ _ _ _ E2) as (N & R).
  intros s Hin Hs Hm. apply in_app_or in Hin. destruct Hin as [Hin|Hin]; [specialize (P s Hin Hs Hm); lia | apply R; auto].
Qed.
