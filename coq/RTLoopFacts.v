(* RTLoopFacts.v — lemmas about the real-time loop model (RTLoop.v). *)
Require Import Base RTLoop.
From Coq Require Import ZifyBool.

Lemma eval_time_le_target : forall tgt w prev, eval_time tgt w prev <= tgt.
Proof. intros; unfold eval_time; lia. Qed.
