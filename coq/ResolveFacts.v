(* ResolveFacts.v — lemmas and proofs about the mirror model Resolve.v (property C19).

   Part A: the selection step (collect / stable sort / decide): outcome is a function of
           the multiset of surviving candidates; characterisation of each outcome.
   Part B: the matchers: a successful match extends the resolution map, never changes an
           existing binding, and the final map instantiates the pattern to the argument
           (one substitution for all positions).
   Part C: rank accumulator: total independent of the traversal order of its map. *)
Require Import Base Resolve.
From Coq Require Import ZifyBool Permutation.

(* ========================================================================= *)
(* Part A — selection                                                        *)
(* ========================================================================= *)

Definition rank_is (r : Z) (s : surv) : bool := s_rank s =? r.

(* r is the least rank occurring in l *)
Definition is_min (r : Z) (l : list surv) : Prop :=
  (exists x, In x l /\ s_rank x = r) /\ forall x, In x l -> r <= s_rank x.

Lemma is_min_unique r r' l : is_min r l -> is_min r' l -> r = r'.
Proof.
  intros [[x [Hx Hxr]] Hle] [[y [Hy Hyr]] Hle'].
  specialize (Hle y Hy). specialize (Hle' x Hx). lia.
Qed.

Lemma is_min_perm r l l' : Permutation l l' -> is_min r l -> is_min r l'.
Proof.
  intros HP [[x [Hx Hxr]] Hle]. split.
  - exists x. split; auto. eapply Permutation_in; eauto.
  - intros y Hy. apply Hle. eapply Permutation_in; [apply Permutation_sym; eauto | auto].
Qed.

Lemma insert_s_perm x l : Permutation (x :: l) (insert_s x l).
Proof.
  induction l as [|y r IH]; cbn [insert_s]; auto.
  destruct (s_rank x <=? s_rank y); auto.
  eapply perm_trans; [apply perm_swap | apply perm_skip; exact IH].
Qed.

Lemma sort_s_perm l : Permutation l (sort_s l).
Proof.
  induction l as [|x r IH]; cbn [sort_s fold_right]; auto.
  eapply perm_trans; [apply perm_skip; exact IH | apply insert_s_perm].
Qed.

Inductive sorted_s : list surv -> Prop :=
| sorted_nil : sorted_s []
| sorted_cons x l : (forall y, In y l -> s_rank x <= s_rank y) -> sorted_s l -> sorted_s (x :: l).

Lemma insert_s_sorted x l : sorted_s l -> sorted_s (insert_s x l).
Proof.
  induction 1 as [|y r Hy Hs IH]; cbn [insert_s].
  - constructor; [intros y [] | constructor].
  - destruct (s_rank x <=? s_rank y) eqn:E.
    + constructor; [|constructor; auto].
      intros z [->|Hz]; [lia|]. specialize (Hy z Hz). lia.
    + constructor; auto.
      intros z Hz. apply (Permutation_in _ (Permutation_sym (insert_s_perm x r))) in Hz.
      destruct Hz as [->|Hz]; [lia | auto].
Qed.

Lemma sort_s_sorted l : sorted_s (sort_s l).
Proof. induction l; cbn [sort_s fold_right]; [constructor | apply insert_s_sorted; auto]. Qed.

(* stability: the sort keeps the registration order among candidates of one rank *)
Lemma insert_s_stable r x l :
  filter (rank_is r) (insert_s x l) = filter (rank_is r) (x :: l).
Proof.
  induction l as [|y t IH]; cbn [insert_s]; auto.
  destruct (s_rank x <=? s_rank y) eqn:E; auto.
  cbn [filter] in *. rewrite IH. unfold rank_is.
  destruct (s_rank x =? r) eqn:Ex; destruct (s_rank y =? r) eqn:Ey; auto. lia.
Qed.

Lemma sort_s_stable r l : filter (rank_is r) (sort_s l) = filter (rank_is r) l.
Proof.
  induction l as [|x t IH]; cbn [sort_s fold_right]; auto.
  fold (sort_s t). rewrite insert_s_stable. cbn [filter]. rewrite IH. auto.
Qed.

(* what resolve decides, stated on the unsorted survivor list *)
Definition decide_spec (r : Z) (l : list surv) : outcome :=
  match filter (rank_is r) l with
  | [s] => OSel s
  | t => OAmb t
  end.

Lemma filter_all_gt r l : (forall y, In y l -> r < s_rank y) -> filter (rank_is r) l = [].
Proof.
  induction l as [|y t IH]; intros H; cbn [filter]; auto.
  unfold rank_is at 1. destruct (s_rank y =? r) eqn:E.
  - specialize (H y (or_introl eq_refl)). lia.
  - apply IH. intros z Hz. apply H. right; auto.
Qed.

Lemma decide_sorted l x t :
  sort_s l = x :: t -> is_min (s_rank x) l /\ decide (sort_s l) = decide_spec (s_rank x) l.
Proof.
  intros E. pose proof (sort_s_sorted l) as Hs. pose proof (sort_s_perm l) as Hp.
  rewrite E in Hs, Hp. inversion Hs as [|x' t' Hle Hst]; subst.
  split.
  - split.
    + exists x. split; auto. eapply Permutation_in; [apply Permutation_sym; eauto | left; auto].
    + intros y Hy. apply (Permutation_in _ Hp) in Hy. destruct Hy as [->|Hy]; [lia | auto].
  - unfold decide_spec. rewrite <- (sort_s_stable (s_rank x) l). rewrite E. cbn [decide].
    destruct t as [|y t2].
    + cbn [filter]. unfold rank_is. rewrite Z.eqb_refl. auto.
    + destruct (s_rank x =? s_rank y) eqn:Exy.
      * cbn [filter]. unfold rank_is at 1 2. rewrite Z.eqb_refl.
        replace (s_rank y =? s_rank x) with true by lia. auto.
      * fold (rank_is (s_rank x)). cbn [filter]. unfold rank_is at 1 2. rewrite Z.eqb_refl.
        replace (s_rank y =? s_rank x) with false by lia.
        rewrite filter_all_gt; auto.
        inversion Hst as [|y' t2' Hle2 _]; subst.
        intros z Hz. specialize (Hle y (or_introl eq_refl)). specialize (Hle2 z Hz). lia.
Qed.

Lemma sort_s_nil l : sort_s l = [] -> l = [].
Proof.
  intros E. pose proof (sort_s_perm l) as Hp. rewrite E in Hp.
  apply Permutation_sym, Permutation_nil in Hp. auto.
Qed.

Lemma decide_sort_cases l :
  (l = [] /\ decide (sort_s l) = ONoMatch) \/
  (exists r, is_min r l /\ decide (sort_s l) = decide_spec r l).
Proof.
  destruct (sort_s l) as [|x t] eqn:E.
  - left. split; [apply sort_s_nil; auto | reflexivity].
  - right. exists (s_rank x). rewrite <- E. eapply decide_sorted; eauto.
Qed.

Lemma filter_perm {A} (f : A -> bool) l l' : Permutation l l' -> Permutation (filter f l) (filter f l').
Proof.
  induction 1; cbn [filter]; auto.
  - destruct (f x); auto.
  - destruct (f x); destruct (f y); auto. apply perm_swap.
  - eapply perm_trans; eauto.
Qed.

Definition outcome_equiv (a b : outcome) : Prop :=
  match a, b with
  | OSel s, OSel s' => s = s'
  | ONoMatch, ONoMatch => True
  | OAmb t, OAmb t' => Permutation t t'
  | OErr, OErr => True
  | _, _ => False
  end.

Lemma decide_spec_perm r l l' :
  Permutation l l' -> outcome_equiv (decide_spec r l) (decide_spec r l').
Proof.
  intros HP. unfold decide_spec.
  pose proof (filter_perm (rank_is r) _ _ HP) as HF.
  destruct (filter (rank_is r) l) as [|a [|b t]] eqn:E1.
  - apply Permutation_nil in HF. rewrite HF. cbn. auto.
  - apply Permutation_length_1_inv in HF. rewrite HF. cbn. auto.
  - destruct (filter (rank_is r) l') as [|a' [|b' t']] eqn:E2.
    + apply Permutation_sym, Permutation_nil in HF. discriminate.
    + apply Permutation_sym, Permutation_length_1_inv in HF. discriminate.
    + cbn. auto.
Qed.

Lemma decide_sort_perm l l' :
  Permutation l l' -> outcome_equiv (decide (sort_s l)) (decide (sort_s l')).
Proof.
  intros HP.
  destruct (decide_sort_cases l) as [[-> E]|[r [Hm E]]]; rewrite E.
  - apply Permutation_nil in HP. subst. cbn. auto.
  - destruct (decide_sort_cases l') as [[-> E']|[r' [Hm' E']]]; rewrite E'.
    + apply Permutation_sym, Permutation_nil in HP. subst. destruct Hm as [[x [[] _]] _].
    + assert (r = r') by (eapply is_min_unique; [eapply is_min_perm; eauto | auto]). subst.
      apply decide_spec_perm; auto.
Qed.

(* the candidate loop: survivors of a permuted family are a permutation of the survivors *)
Definition collect_rel (a b : option (list surv)) : Prop :=
  match a, b with
  | Some l, Some l' => Permutation l l'
  | None, None => True
  | _, _ => False
  end.

Lemma collect_rel_refl a : collect_rel a a.
Proof. destruct a; cbn; auto. Qed.

Lemma collect_rel_trans a b c : collect_rel a b -> collect_rel b c -> collect_rel a c.
Proof.
  destruct a, b, c; cbn; intros; auto; try contradiction. eapply perm_trans; eauto.
Qed.

Lemma collect_perm q cs cs' : Permutation cs cs' -> collect_rel (collect cs q) (collect cs' q).
Proof.
  induction 1 as [| c l l' HP IH | c d l | l l' l'' _ IH1 _ IH2].
  - cbn; auto.
  - cbn [collect]. destruct (try_match c q); auto; try (cbn; auto; fail).
    destruct (collect l q), (collect l' q); cbn in *; auto.
  - cbn [collect].
    destruct (try_match c q) eqn:Ec; destruct (try_match d q) eqn:Ed;
      try (cbn; auto; fail); try apply collect_rel_refl;
      destruct (collect l q); cbn; auto. apply perm_swap.
  - eapply collect_rel_trans; eauto.
Qed.

Theorem resolve_perm_invariant_lemma : forall cs cs' q,
  Permutation cs cs' -> outcome_equiv (resolve cs q) (resolve cs' q).
Proof.
  intros cs cs' q HP. unfold resolve.
  pose proof (collect_perm q _ _ HP) as HC.
  destruct (collect cs q), (collect cs' q); cbn in HC; try contradiction; cbn; auto.
  apply decide_sort_perm; auto.
Qed.

(* ---- characterisation of the candidate loop ---- *)

Lemma collect_none cs q : collect cs q = None <-> exists c, In c cs /\ try_match c q = TMErr.
Proof.
  induction cs as [|c r IH]; cbn [collect].
  - split; [discriminate | intros [c [[] _]]].
  - destruct (try_match c q) eqn:E.
    + split; auto. intros _. exists c. split; [left|]; auto.
    + rewrite IH. split; intros [d [Hd Ed]]; exists d; split; auto; [right; auto|].
      destruct Hd as [->|Hd]; auto. congruence.
    + destruct (collect r q) eqn:Er; cbn [option_map].
      * split; [discriminate|]. intros [d [[->|Hd] Ed]]; [congruence|].
        assert (Some l = None) by (apply IH; exists d; auto). discriminate.
      * split; auto. intros _. destruct (proj1 IH eq_refl) as [d [Hd Ed]]. exists d. split; [right|]; auto.
Qed.

Lemma collect_in cs q l :
  collect cs q = Some l ->
  forall s, In s l <-> (In (s_cand s) cs /\ try_match (s_cand s) q = TMOk (s_map s) (s_rank s)).
Proof.
  revert l. induction cs as [|c r IH]; cbn [collect]; intros l E s.
  - inversion E; subst. split; [intros [] | intros [[] _]].
  - destruct (try_match c q) eqn:Ec; [discriminate | |].
    + rewrite (IH l E s). split; intros [H1 H2]; split; auto; [right; auto|].
      destruct H1 as [->|H1]; auto. congruence.
    + destruct (collect r q) as [l0|] eqn:Er; cbn [option_map] in E; [|discriminate].
      inversion E; subst. cbn [In]. rewrite (IH l0 eq_refl s).
      split.
      * intros [<-|[H1 H2]]; cbn [s_cand s_map s_rank fst snd]; [split; [left|]; auto | split; [right|]; auto].
      * intros [[->|H1] H2].
        -- left. rewrite Ec in H2. inversion H2. destruct s as [[c' m'] k']. cbn in *. subst. auto.
        -- right. auto.
Qed.

Lemma collect_nil cs q : collect cs q = Some [] <-> forall c, In c cs -> try_match c q = TMRej.
Proof.
  induction cs as [|c r IH]; cbn [collect].
  - split; [intros _ c [] | auto].
  - destruct (try_match c q) eqn:E.
    + split; [discriminate|]. intros H. specialize (H c (or_introl eq_refl)). congruence.
    + rewrite IH. split; intros H d Hd; [destruct Hd as [->|Hd]; auto | apply H; right; auto].
    + split.
      * destruct (collect r q); cbn [option_map]; discriminate.
      * intros H. specialize (H c (or_introl eq_refl)). congruence.
Qed.

Lemma decide_nomatch l : decide (sort_s l) = ONoMatch <-> l = [].
Proof.
  split.
  - destruct (sort_s l) as [|x [|y t]] eqn:E; cbn [decide]; intros H.
    + apply sort_s_nil; auto.
    + discriminate.
    + destruct (s_rank x =? s_rank y); discriminate.
  - intros ->. reflexivity.
Qed.

Theorem nomatch_iff_none_matches_lemma : forall cs q,
  resolve cs q = ONoMatch <-> forall c, In c cs -> try_match c q = TMRej.
Proof.
  intros cs q. rewrite <- collect_nil. unfold resolve.
  destruct (collect cs q) as [l|]; [|split; discriminate].
  rewrite decide_nomatch. split; [intros ->; auto | intros H; inversion H; auto].
Qed.

Theorem error_iff_some_candidate_raises_lemma : forall cs q,
  resolve cs q = OErr <-> exists c, In c cs /\ try_match c q = TMErr.
Proof.
  intros cs q. rewrite <- collect_none. unfold resolve.
  destruct (collect cs q) as [l|]; [|split; auto].
  split; [|discriminate].
  destruct (sort_s l) as [|x [|y t]]; cbn [decide]; try discriminate.
  destruct (s_rank x =? s_rank y); discriminate.
Qed.

(* a list has exactly one element satisfying f, at a known position *)
Lemma filter_singleton {A} (f : A -> bool) l s :
  filter f l = [s] -> exists l1 l2, l = l1 ++ s :: l2 /\ f s = true /\ forall x, In x (l1 ++ l2) -> f x = false.
Proof.
  induction l as [|y t IH]; cbn [filter]; [discriminate|].
  destruct (f y) eqn:E.
  - intros H. inversion H; subst. exists [], t. cbn. split; auto. split; auto.
    intros x Hx. destruct (f x) eqn:Ex; auto.
    assert (In x (filter f t)) by (apply filter_In; auto). rewrite H2 in H0. destruct H0.
  - intros H. destruct (IH H) as [l1 [l2 [-> [Hs Hall]]]]. exists (y :: l1), l2. cbn. split; auto. split; auto.
    intros x [->|Hx]; auto.
Qed.

Lemma filter_singleton_conv {A} (f : A -> bool) l1 l2 s :
  f s = true -> (forall x, In x (l1 ++ l2) -> f x = false) -> filter f (l1 ++ s :: l2) = [s].
Proof.
  intros Hs Hall. rewrite filter_app. cbn [filter]. rewrite Hs.
  assert (forall l, (forall x, In x l -> f x = false) -> filter f l = []) as Hnil.
  { induction l as [|y t IH]; cbn [filter]; auto. intros H. rewrite (H y (or_introl eq_refl)). apply IH.
    intros x Hx. apply H. right; auto. }
  rewrite (Hnil l1), (Hnil l2); auto; intros x Hx; apply Hall; apply in_or_app; auto.
Qed.

Theorem selects_unique_min_rank_lemma : forall cs q s,
  resolve cs q = OSel s <->
  exists l l1 l2, collect cs q = Some l /\ l = l1 ++ s :: l2 /\ forall x, In x (l1 ++ l2) -> s_rank s < s_rank x.
Proof.
  intros cs q s. unfold resolve. destruct (collect cs q) as [l|].
  2:{ split; [discriminate | intros [l [l1 [l2 [H _]]]]; discriminate]. }
  destruct (decide_sort_cases l) as [[-> E]|[r [Hm E]]]; rewrite E.
  - split; [discriminate|]. intros [l [l1 [l2 [H [H2 _]]]]]. inversion H; subst. destruct l1; discriminate.
  - unfold decide_spec. split.
    + destruct (filter (rank_is r) l) as [|a [|b t]] eqn:EF; try discriminate.
      intros H. inversion H; subst a.
      destruct (filter_singleton _ _ _ EF) as [l1 [l2 [-> [Hs Hall]]]].
      exists (l1 ++ s :: l2), l1, l2. split; auto. split; auto.
      intros x Hx. specialize (Hall x Hx). unfold rank_is in *.
      destruct Hm as [_ Hle]. assert (In x (l1 ++ s :: l2)) as Hin.
      { apply in_app_or in Hx. apply in_or_app. destruct Hx; [left | right; right]; auto. }
      specialize (Hle x Hin). lia.
    + intros [l' [l1 [l2 [H [-> Hlt]]]]]. inversion H; subst l.
      assert (r = s_rank s).
      { destruct Hm as [[x [Hx Hxr]] Hle].
        assert (In s (l1 ++ s :: l2)) as Hs by (apply in_or_app; right; left; auto).
        specialize (Hle s Hs).
        apply in_app_or in Hx. destruct Hx as [Hx|[->|Hx]]; auto;
          [specialize (Hlt x (in_or_app _ _ _ (or_introl Hx))) | specialize (Hlt x (in_or_app _ _ _ (or_intror Hx)))]; lia. }
      subst r. rewrite filter_singleton_conv; auto.
      * unfold rank_is. lia.
      * intros x Hx. specialize (Hlt x Hx). unfold rank_is. lia.
Qed.

Theorem ambiguous_iff_best_shared_lemma : forall cs q tied,
  resolve cs q = OAmb tied <->
  exists l r, collect cs q = Some l /\ is_min r l /\ tied = filter (rank_is r) l /\ (2 <= length tied)%nat.
Proof.
  intros cs q tied. unfold resolve. destruct (collect cs q) as [l|].
  2:{ split; [discriminate | intros [l [r [H _]]]; discriminate]. }
  destruct (decide_sort_cases l) as [[-> E]|[r [Hm E]]]; rewrite E.
  - split; [discriminate|]. intros [l [r [H [[[x [Hx _]] _] _]]]]. inversion H; subst. destruct Hx.
  - unfold decide_spec. split.
    + intros H. exists l, r. split; auto. split; auto.
      destruct (filter (rank_is r) l) as [|a [|b t]] eqn:EF; inversion H; subst.
      * exfalso. destruct Hm as [[x [Hx Hxr]] _].
        assert (In x (filter (rank_is r) l)) as Hin by (apply filter_In; split; auto; unfold rank_is; lia).
        rewrite EF in Hin. destruct Hin.
      * split; auto. cbn. lia.
    + intros [l' [r' [H [Hm' [-> Hlen]]]]]. inversion H; subst l'.
      assert (r = r') by (eapply is_min_unique; eauto). subst r'.
      destruct (filter (rank_is r) l) as [|a [|b t]]; cbn in Hlen; auto; lia.
Qed.

(* ========================================================================= *)
(* Part C — rank accumulator                                                 *)
(* ========================================================================= *)

Lemma fold_sum_shift (l : list ((Z * Z) * Z)) a :
  fold_left (fun s kv => s + snd kv) l a = a + fold_left (fun s kv => s + snd kv) l 0.
Proof.
  revert a. induction l as [|x t IH]; intros a; cbn [fold_left]; [lia|].
  rewrite (IH (a + snd x)), (IH (0 + snd x)). lia.
Qed.

(* RankAccumulator::total iterates an unordered_map: any iteration order gives the same total *)
Theorem rank_total_order_independent_lemma : forall st vs vs',
  Permutation vs vs' -> racc_total (mkA st vs) = racc_total (mkA st vs').
Proof.
  intros st vs vs' HP. unfold racc_total. cbn [ra_vars ra_struct].
  revert st. induction HP; intros st; cbn [fold_left]; auto.
  - f_equal. lia.
  - rewrite IHHP1. auto.
Qed.

(* a selection is one of the registered candidates, with the map and rank its own match produced *)
Lemma resolve_sel_in cs q s :
  resolve cs q = OSel s -> In (s_cand s) cs /\ try_match (s_cand s) q = TMOk (s_map s) (s_rank s).
Proof.
  intros H. apply selects_unique_min_rank_lemma in H. destruct H as [l [l1 [l2 [Hc [-> _]]]]].
  apply (collect_in _ _ _ Hc s). apply in_or_app. right. left. auto.
Qed.

Lemma resolve_amb_in cs q tied s :
  resolve cs q = OAmb tied -> In s tied -> In (s_cand s) cs /\ try_match (s_cand s) q = TMOk (s_map s) (s_rank s).
Proof.
  intros H Hs. apply ambiguous_iff_best_shared_lemma in H. destruct H as [l [r [Hc [_ [-> _]]]]].
  apply filter_In in Hs. destruct Hs as [Hs _]. apply (collect_in _ _ _ Hc s). auto.
Qed.

(* the loop carries nothing from one candidate to the next: wherever a candidate stands in the
   registration order, its own verdict is what enters the survivor list *)
Lemma collect_local cs1 cs2 c q l :
  collect (cs1 ++ c :: cs2) q = Some l ->
  forall m k, try_match c q = TMOk m k -> In (c, m, k) l.
Proof.
  intros H m k HT. apply (collect_in _ _ _ H (c, m, k)). cbn [s_cand s_map s_rank fst snd].
  split; auto. apply in_or_app. right. left. auto.
Qed.
