(* ResolveInheritFacts.v — Part F: nominal bundle inheritance (TypeRegistry::bundle_inheritance_distance,
   bundle_is_a; they feed input_accepts_output_schema and input_adaptation_rank).

   [bdist b c] is the length of the SHORTEST chain of parent edges from c up to the bundle named b, and it
   does not depend on the order in which any bundle of the ancestry declares its parents. *)
Require Import Base Resolve ResolveMatchFacts.
From Coq Require Import ZifyBool Permutation.

Definition olist_min (l : list (option nat)) : option nat := fold_right omin None l.

Lemma fold_omin_map {A} (f : A -> option nat) l :
  fold_right (fun p acc => omin (f p) acc) None l = olist_min (map f l).
Proof. induction l as [|x r IH]; cbn; auto. rewrite IH. auto. Qed.

Lemma omin_comm a b : omin a b = omin b a.
Proof. destruct a, b; cbn; auto. f_equal. lia. Qed.

Lemma omin_assoc a b c : omin a (omin b c) = omin (omin a b) c.
Proof. destruct a, b, c; cbn; auto. f_equal. lia. Qed.

Lemma olist_min_perm l l' : Permutation l l' -> olist_min l = olist_min l'.
Proof.
  induction 1; cbn [olist_min fold_right] in *; auto.
  - fold (olist_min l). fold (olist_min l'). rewrite IHPermutation. auto.
  - fold (olist_min l). rewrite !omin_assoc, (omin_comm y x). auto.
  - congruence.
Qed.

Lemma olist_min_in l : forall k, olist_min l = Some k -> In (Some k) l.
Proof.
  induction l as [|x r IH]; intros k; cbn [olist_min fold_right]; [discriminate|]. fold (olist_min r).
  destruct x as [a|], (olist_min r) as [m|] eqn:E; cbn [omin]; intros H; inversion H; subst.
  - destruct (Nat.min_dec a m) as [Hm|Hm]; rewrite Hm; [left; auto | right; apply IH; auto].
  - left; auto.
  - right. apply IH. auto.
Qed.

Lemma olist_min_le l x : In (Some x) l -> exists m, olist_min l = Some m /\ (m <= x)%nat.
Proof.
  induction l as [|y r IH]; intros H; [destruct H|]. cbn [olist_min fold_right]. fold (olist_min r).
  destruct H as [->|H].
  - destruct (olist_min r) as [m|]; cbn [omin]; eexists; split; eauto; lia.
  - destruct (IH H) as [m [E Hm]]. rewrite E. destruct y as [a|]; cbn [omin]; eexists; split; eauto; lia.
Qed.

Lemma bdist_bundle b id ps :
  bdist b (SBundle id ps) =
  if id =? b then Some O else olist_min (map (fun p => option_map S (bdist b p)) ps).
Proof. cbn [bdist]. rewrite fold_omin_map. auto. Qed.

(* ---- independence of the parent declaration order ---- *)

(* the same hierarchy up to the order in which each bundle lists its parents *)
Inductive hsame : sty -> sty -> Prop :=
| hs_refl s : hsame s s
| hs_bundle id ps qs ps' : Forall2 hsame ps qs -> Permutation qs ps' -> hsame (SBundle id ps) (SBundle id ps').

Lemma bdist_hsame b c : forall c', hsame c c' -> bdist b c = bdist b c'.
Proof.
  induction c as [a | l IH | e IH | e IH | k v IHk IHv | id ps IH] using sty_ind'; intros c' H;
    inversion H; subst; auto.
  rewrite !bdist_bundle. destruct (id =? b); auto.
  rewrite <- (olist_min_perm _ _ (Permutation_map (fun p => option_map S (bdist b p)) H4)).
  f_equal. clear H H4. revert qs H2. induction IH as [|p r Hp _ IHr]; intros qs H2; inversion H2; subst; cbn [map]; auto.
  rewrite (Hp _ H1). f_equal. apply IHr. auto.
Qed.

Theorem inheritance_distance_order_independent_lemma : forall b c c',
  hsame c c' ->
  bdist b c = bdist b c' /\
  (forall base, bundle_id base = Some b -> bundle_is_a c base = bundle_is_a c' base /\
                                            bundle_distance c base = bundle_distance c' base).
Proof.
  intros b c c' H. pose proof (bdist_hsame b c c' H) as E. split; auto.
  intros base Hb. destruct base; cbn in Hb; try discriminate. inversion Hb; subst.
  inversion H; subst; auto. cbn [bundle_is_a bundle_distance]. rewrite E. auto.
Qed.

(* ---- it is the shortest path ---- *)

Inductive bpath (b : Z) : nat -> sty -> Prop :=
| bp_here ps : bpath b 0 (SBundle b ps)
| bp_up id ps p k : In p ps -> bpath b k p -> bpath b (S k) (SBundle id ps).

Lemma bdist_is_path b c : forall k, bdist b c = Some k -> bpath b k c.
Proof.
  induction c as [a | l IH | e IH | e IH | kk v IHk IHv | id ps IH] using sty_ind'; intros k; try (cbn [bdist]; discriminate).
  rewrite bdist_bundle. destruct (id =? b) eqn:E.
  - intros H; inversion H; subst. assert (id = b) by lia. subst. constructor.
  - intros H. apply olist_min_in in H. apply in_map_iff in H. destruct H as [p [Hp Hin]].
    destruct (bdist b p) as [k'|] eqn:Ep; cbn [option_map] in Hp; [|discriminate]. inversion Hp; subst.
    econstructor; eauto. rewrite Forall_forall in IH. apply IH; auto.
Qed.

Lemma path_bounds_bdist b j c : bpath b j c -> exists k, bdist b c = Some k /\ (k <= j)%nat.
Proof.
  induction 1 as [ps | id ps p k Hin Hp IH].
  - rewrite bdist_bundle, Z.eqb_refl. exists O. auto.
  - rewrite bdist_bundle. destruct (id =? b); [exists O; split; auto; lia|].
    destruct IH as [k' [E Hk]].
    destruct (olist_min_le (map (fun p => option_map S (bdist b p)) ps) (S k')) as [m [Em Hm]].
    + apply in_map_iff. exists p. rewrite E. auto.
    + exists m. split; auto. lia.
Qed.

Theorem inheritance_distance_is_shortest_path_lemma : forall b c,
  (forall k, bdist b c = Some k -> bpath b k c /\ forall j, bpath b j c -> (k <= j)%nat) /\
  (bdist b c = None -> forall j, ~ bpath b j c).
Proof.
  intros b c. split.
  - intros k H. split; [apply bdist_is_path; auto|]. intros j Hj.
    destruct (path_bounds_bdist _ _ _ Hj) as [k' [E Hk]]. rewrite H in E. inversion E; subst. auto.
  - intros H j Hj. destruct (path_bounds_bdist _ _ _ Hj) as [k' [E _]]. congruence.
Qed.
