(* RankLemmas.v — list lemmas used by RankFacts.v (nothing about the code here). *)
Require Import Base Rank.
From Coq Require Import Arith Permutation Lia.
Local Open Scope nat_scope.

Lemma memb_In v l : memb v l = true <-> In v l.
Proof.
  induction l as [|x r IH]; simpl.
  - split; [discriminate | tauto].
  - rewrite orb_true_iff, IH, Nat.eqb_eq. tauto.
Qed.

Lemma memb_false v l : memb v l = false <-> ~ In v l.
Proof.
  rewrite <- memb_In. destruct (memb v l); split; intro H; try congruence.
Qed.

Lemma memb_app v a b : memb v (a ++ b) = memb v a || memb v b.
Proof. induction a as [|x r IH]; simpl; auto. rewrite IH, orb_assoc. reflexivity. Qed.

Lemma nodupb_NoDup l : nodupb l = true <-> NoDup l.
Proof.
  induction l as [|x r IH]; simpl.
  - split; intros; [constructor | reflexivity].
  - rewrite andb_true_iff, negb_true_iff, memb_false, IH, NoDup_cons_iff. tauto.
Qed.

Lemma NoDup_app_intro {A} (a b : list A) :
  NoDup a -> NoDup b -> (forall x, In x a -> ~ In x b) -> NoDup (a ++ b).
Proof.
  induction a as [|x r IH]; simpl; intros Ha Hb Hd; auto.
  apply NoDup_cons_iff in Ha. destruct Ha as [Hx Hr].
  apply NoDup_cons_iff. split.
  - rewrite in_app_iff. intros [H|H]; [tauto | exact (Hd x (or_introl eq_refl) H)].
  - apply IH; auto.
Qed.

Lemma NoDup_app_inv {A} (a b : list A) :
  NoDup (a ++ b) -> NoDup a /\ NoDup b /\ (forall x, In x a -> ~ In x b).
Proof.
  induction a as [|x r IH]; simpl; intros H.
  - repeat split; auto. constructor.
  - apply NoDup_cons_iff in H. destruct H as [Hx Hr].
    destruct (IH Hr) as (Ha & Hb & Hd).
    rewrite in_app_iff in Hx.
    repeat split; auto.
    + apply NoDup_cons_iff; tauto.
    + intros y [Hy|Hy]; [subst; tauto | auto].
Qed.

(* ---- pos *)
Lemma pos_lt_In v l : pos v l < length l <-> In v l.
Proof.
  induction l as [|x r IH]; simpl.
  - split; [lia | tauto].
  - destruct (x =? v) eqn:E.
    + apply Nat.eqb_eq in E. split; [auto | lia].
    + apply Nat.eqb_neq in E. rewrite <- Nat.succ_lt_mono, IH. split; [auto | intros [H|H]; [congruence | auto]].
Qed.

Lemma pos_le v l : pos v l <= length l.
Proof. induction l as [|x r IH]; simpl; auto. destruct (x =? v); lia. Qed.

Lemma pos_app_in v a b : In v a -> pos v (a ++ b) = pos v a.
Proof.
  induction a as [|x r IH]; simpl; [tauto|]. intros H.
  destruct (x =? v) eqn:E; auto. apply Nat.eqb_neq in E. f_equal. apply IH. destruct H; [congruence | auto].
Qed.

Lemma pos_app_notin v a b : ~ In v a -> pos v (a ++ b) = length a + pos v b.
Proof.
  induction a as [|x r IH]; simpl; auto. intros H.
  destruct (x =? v) eqn:E.
  - apply Nat.eqb_eq in E. tauto.
  - f_equal. apply IH. tauto.
Qed.

Lemma pos_nth v l : In v l -> nth (pos v l) l 0 = v.
Proof.
  induction l as [|x r IH]; simpl; [tauto|]. intros H.
  destruct (x =? v) eqn:E.
  - apply Nat.eqb_eq in E. auto.
  - apply Nat.eqb_neq in E. apply IH. destruct H; [congruence | auto].
Qed.

(* ---- counting occurrences in a list of nat *)
Fixpoint cnt (v : nat) (l : list nat) : nat :=
  match l with [] => 0 | x :: r => (if x =? v then 1 else 0) + cnt v r end.

Lemma cnt_pos_In v l : 0 < cnt v l <-> In v l.
Proof.
  induction l as [|x r IH]; simpl.
  - split; [lia | tauto].
  - destruct (x =? v) eqn:E.
    + apply Nat.eqb_eq in E. split; [auto | lia].
    + apply Nat.eqb_neq in E. simpl. rewrite IH. split; [auto | intros [H|H]; [congruence | auto]].
Qed.

Lemma cnt_zero_notin v l : cnt v l = 0 <-> ~ In v l.
Proof. rewrite <- cnt_pos_In. lia. Qed.

(* ---- the in-degree vector *)
Lemma nth_update_pred m c (l : list nat) :
  nth m (update c Nat.pred l) 0 = if m =? c then Nat.pred (nth m l 0) else nth m l 0.
Proof.
  revert m c; induction l as [|x r IH]; intros m c.
  - destruct c; simpl; destruct m; simpl; try destruct (_ =? _); reflexivity.
  - destruct c as [|c]; destruct m as [|m]; simpl; auto.
Qed.

Lemma nth_map_seq {A} (f : nat -> A) n v d : v < n -> nth v (map f (seq 0 n)) d = f v.
Proof.
  intros H. rewrite nth_indep with (d' := f 0) by (rewrite map_length, seq_length; exact H).
  rewrite map_nth. rewrite seq_nth by exact H. reflexivity.
Qed.

(* a list of distinct numbers below n has at most n elements *)
Lemma NoDup_bounded_length (l : list nat) n : NoDup l -> (forall v, In v l -> v < n) -> length l <= n.
Proof.
  intros Hnd Hb. rewrite <- (seq_length n 0). apply NoDup_incl_length; auto.
  intros v Hv. apply in_seq. specialize (Hb v Hv). lia.
Qed.

Lemma full_perm (l : list nat) n : NoDup l -> (forall v, In v l -> v < n) -> length l = n -> Permutation l (seq 0 n).
Proof.
  intros Hnd Hb Hl. apply NoDup_Permutation_bis; auto.
  - rewrite seq_length. lia.
  - intros v Hv. apply in_seq. specialize (Hb v Hv). lia.
Qed.

(* some number below n is missing from a short list *)
Lemma missing_exists (l : list nat) n : length l < n -> exists v, v < n /\ ~ In v l.
Proof.
  intros Hl.
  destruct (forallb (fun v => memb v l) (seq 0 n)) eqn:E.
  - exfalso. rewrite forallb_forall in E.
    assert (Hle : length (seq 0 n) <= length l).
    { apply NoDup_incl_length; [apply seq_NoDup|]. intros v Hv. apply memb_In. apply E. exact Hv. }
    rewrite seq_length in Hle. lia.
  - assert (Hex : existsb (fun v => negb (memb v l)) (seq 0 n) = true).
    { clear Hl. induction (seq 0 n) as [|x r IH]; simpl in *; [discriminate|].
      destruct (memb x l); simpl in *; auto. }
    apply existsb_exists in Hex. destruct Hex as (v & Hv & Hm).
    exists v. apply in_seq in Hv. apply negb_true_iff, memb_false in Hm. split; [lia | exact Hm].
Qed.

(* ---- prefixb *)
Lemma existsb_id_false l : existsb (fun x : bool => x) l = false <-> forall b, In b l -> b = false.
Proof.
  induction l as [|x r IH]; simpl.
  - split; auto. intros; tauto.
  - rewrite orb_false_iff, IH. split.
    + intros [Hx Hr] b [Hb|Hb]; [congruence | auto].
    + intros H. split; [apply H; auto | intros b Hb; apply H; auto].
Qed.

Lemma prefixb_spec l :
  prefixb l = true <-> exists a b, l = a ++ b /\ (forall x, In x a -> x = true) /\ (forall x, In x b -> x = false).
Proof.
  induction l as [|x r IH]; simpl.
  - split; auto. intros _. exists [], []. simpl. repeat split; intros; tauto.
  - rewrite andb_true_iff, IH. split.
    + intros [Hx (a & b & -> & Ha & Hb)].
      destruct x.
      * exists (true :: a), b. simpl. repeat split; auto. intros y [Hy|Hy]; auto.
      * simpl in Hx. apply negb_true_iff in Hx. rewrite existsb_id_false in Hx.
        exists [], (false :: a ++ b). simpl. repeat split; [tauto|]. intros y [Hy|Hy]; auto.
    + intros (a & b & E & Ha & Hb).
      destruct a as [|y a'].
      * simpl in E. subst b. split.
        -- assert (x = false) as -> by (apply Hb; left; reflexivity). simpl.
           apply negb_true_iff, existsb_id_false. intros c Hc. apply Hb. right; exact Hc.
        -- exists [], r. simpl. repeat split; [tauto|]. intros c Hc. apply Hb. right; exact Hc.
      * simpl in E. injection E as -> ->. split.
        -- rewrite (Ha y) by (left; reflexivity). reflexivity.
        -- exists a', b. repeat split; auto. intros c Hc. apply Ha. right; exact Hc.
Qed.
