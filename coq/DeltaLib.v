(* DeltaLib.v — finite sets of Z as strictly sorted lists and finite maps Z -> A as
   key-sorted association lists: definitions (their algebra is in DeltaLibFacts.v).  Used by Delta.v
   (the C20 model) so that "same value" is Leibniz equality and printing is
   canonical.  Nothing here is about hgraph. *)
Require Import Base.
From Coq Require Import ZifyBool.

(* ------------------------------------------------------------------ sets *)
Fixpoint mem (k : Z) (l : list Z) : bool :=
  match l with [] => false | x :: r => (k =? x) || mem k r end.

Fixpoint ins (k : Z) (l : list Z) : list Z :=
  match l with
  | [] => [k]
  | x :: r => if k <? x then k :: l else if k =? x then l else x :: ins k r
  end.

Fixpoint del (k : Z) (l : list Z) : list Z :=
  match l with
  | [] => []
  | x :: r => if k =? x then r else x :: del k r
  end.

Fixpoint sorted (l : list Z) : Prop :=
  match l with
  | [] => True
  | x :: r => (match r with [] => True | y :: _ => x < y end) /\ sorted r
  end.

Definition lb (x : Z) (l : list Z) : Prop := forall y, mem y l = true -> x < y.

(* ------------------------------------------------------------------ maps *)
Section Maps.
  Context {A : Type}.

  Fixpoint get (k : Z) (l : list (Z * A)) : option A :=
    match l with [] => None | (x, v) :: r => if k =? x then Some v else get k r end.

  Fixpoint put (k : Z) (v : A) (l : list (Z * A)) : list (Z * A) :=
    match l with
    | [] => [(k, v)]
    | (x, w) :: r => if k <? x then (k, v) :: l else if k =? x then (k, v) :: r else (x, w) :: put k v r
    end.

  Fixpoint drop (k : Z) (l : list (Z * A)) : list (Z * A) :=
    match l with
    | [] => []
    | (x, w) :: r => if k =? x then r else (x, w) :: drop k r
    end.

  Definition keys (l : list (Z * A)) : list Z := map fst l.
  Definition ksorted (l : list (Z * A)) : Prop := sorted (keys l).
  Definition has (k : Z) (l : list (Z * A)) : bool := match get k l with Some _ => true | None => false end.
End Maps.
