(* MapFacts.v — theorems about the specification model MapSpec (property C10):
   the key set is mirrored, keys are isolated, a re-added key is fresh.  They hold for every body
   family, every key universe and every history. *)
Require Import Base MapSpec.
From Coq Require Import ZifyBool.

Section Facts.
Context {S : Type}.

(* ------------------------------------------------------------------ the product is key-wise *)
Lemma kget_next_cycle (B : Z -> body S) t bc ops (st : mstate S) j :
  kget j (next_state (cycle B t bc ops st)) =
  option_map (fun ks => fst (key_step (B j) t (bc j) j ks (ops_on j ops))) (kget j st).
Proof.
  induction st as [|[k ks] r IH]; cbn [cycle next_state map kget fst snd option_map]; [reflexivity|].
  destruct (k =? j) eqn:E.
  - assert (k = j) by lia. subst k. reflexivity.
  - exact IH.
Qed.

Definition ev_of (j : Z) (evs : list (Z * kev)) : option kev :=
  option_map snd (find (fun p => fst p =? j) evs).

Lemma ev_of_cycle (B : Z -> body S) t bc ops (st : mstate S) j :
  ev_of j (events (cycle B t bc ops st)) =
  option_map (fun ks => snd (key_step (B j) t (bc j) j ks (ops_on j ops))) (kget j st).
Proof.
  unfold ev_of. induction st as [|[k ks] r IH]; cbn [cycle events map find kget fst snd option_map]; [reflexivity|].
  destruct (k =? j) eqn:E.
  - assert (k = j) by lia. subst k. reflexivity.
  - exact IH.
Qed.

(* the trace of one key: per cycle (newest first) the time and what happened to the key *)
Definition key_trace (j : Z) (log : list (Z * bool * list (Z * kev))) : list (Z * option kev) :=
  map (fun te => (fst (fst te), ev_of j (snd te))) log.

(* ------------------------------------------------------------------ the dictionaries, defined globally *)
Definition dicts := nat -> Z -> option Z.
Definition dset (d : nat) (k : Z) (v : option Z) (D : dicts) : dicts :=
  fun d' k' => if Nat.eqb d' d && (k' =? k) then v else D d' k'.
Definition apply_dop (D : dicts) (o : nat * Z * Z * Z) : dicts :=
  match o with (d, c, k, v) => if c =? 1 then dset d k (Some v) D else if c =? 2 then dset d k None D else D end.
Definition dicts_after (h : list cyc) : dicts :=
  fold_left (fun D c => fold_left apply_dop (c_ops c) D) h (fun _ _ => None).

Lemma apply_ops_global i j ops : forall (D : dicts) m,
  fst (apply_ops i (ops_on j ops) (D i j, m)) = fold_left apply_dop ops D i j.
Proof.
  induction ops as [|[[[d c] k] v] r IH]; intros D m; [reflexivity|].
  unfold ops_on. cbn [map filter fst snd].
  destruct (k =? j) eqn:Ek.
  - cbn [map fst snd apply_ops fold_left apply_dop].
    destruct (Nat.eqb d i) eqn:Ed.
    + apply Nat.eqb_eq in Ed. subst d. assert (k = j) by lia. subst k.
      destruct (c =? 1) eqn:E1.
      * specialize (IH (dset i j (Some v) D) true). unfold dset at 1 in IH.
        rewrite Nat.eqb_refl, Z.eqb_refl in IH. cbn [andb] in IH. exact IH.
      * destruct (c =? 2) eqn:E2.
        -- specialize (IH (dset i j None D) false). unfold dset at 1 in IH.
           rewrite Nat.eqb_refl, Z.eqb_refl in IH. cbn [andb] in IH. exact IH.
        -- apply IH.
    + fold (ops_on j r).
      assert (Hsame : forall D', (forall x, D' i x = D i x) \/ True -> True) by auto.
      destruct (c =? 1) eqn:E1; [|destruct (c =? 2) eqn:E2].
      * rewrite <- (IH (dset d k (Some v) D) m). unfold dset. rewrite Nat.eqb_sym, Ed. reflexivity.
      * rewrite <- (IH (dset d k None D) m). unfold dset. rewrite Nat.eqb_sym, Ed. reflexivity.
      * apply IH.
  - cbn [fold_left apply_dop]. fold (ops_on j r).
    destruct (c =? 1) eqn:E1; [|destruct (c =? 2) eqn:E2].
    + rewrite <- (IH (dset d k (Some v) D) m). unfold dset.
      replace (j =? k) with false by lia. rewrite andb_false_r. reflexivity.
    + rewrite <- (IH (dset d k None D) m). unfold dset.
      replace (j =? k) with false by lia. rewrite andb_false_r. reflexivity.
    + apply IH.
Qed.

Lemma new_vals_global j ops (D : dicts) : forall n i vals,
  (forall x, (x < length vals)%nat -> nth x vals None = D (i + x)%nat j) ->
  length vals = n ->
  forall x, (x < n)%nat -> nth x (map fst (new_vals i vals (ops_on j ops))) None = fold_left apply_dop ops D (i + x)%nat j.
Proof.
  induction n as [|n IH]; intros i vals Hv Hl x Hx; [lia|].
  destruct vals as [|v r]; [discriminate|]. cbn [new_vals map].
  destruct x as [|x].
  - cbn [nth]. rewrite Nat.add_0_r. specialize (Hv 0%nat). cbn in Hv. rewrite Nat.add_0_r in Hv.
    rewrite Hv by lia. apply apply_ops_global.
  - cbn [nth]. replace (i + Datatypes.S x)%nat with (Datatypes.S i + x)%nat by lia.
    apply IH; [|cbn in Hl; lia|lia].
    intros y Hy. replace (Datatypes.S i + y)%nat with (i + Datatypes.S y)%nat by lia.
    rewrite <- Hv by (cbn; lia). reflexivity.
Qed.

Lemma new_vals_length i (vals : list (option Z)) ops : length (new_vals i vals ops) = length vals.
Proof. revert i; induction vals as [|v r IH]; intros i; cbn; auto. Qed.

Ltac ks_cases :=
  unfold key_step;
  repeat match goal with
         | |- context [match ?x with _ => _ end] => destruct x eqn:?
         end.

Lemma key_step_vals (B : body S) t bc j ks ops :
  k_vals (fst (key_step B t bc j ks ops)) = map fst (new_vals 0 (k_vals ks) ops).
Proof. ks_cases; reflexivity. Qed.

(* ------------------------------------------------------------------ per-key invariant *)
Definition bound_somewhere (vals : list (option Z)) : bool := existsb is_some vals.

Definition kinv (ks : kstate S) : Prop :=
  is_some (k_inst ks) = bound_somewhere (k_vals ks) /\ (k_valid ks = true -> is_some (k_inst ks) = true).

Lemma any_bound_map (nv : list (option Z * bool)) : any_bound nv = bound_somewhere (map fst nv).
Proof. unfold any_bound, bound_somewhere. induction nv as [|p r IH]; cbn; [reflexivity|]. rewrite IH. reflexivity. Qed.

Lemma key_step_kinv (B : body S) t bc j ks ops : kinv (fst (key_step B t bc j ks ops)).
Proof.
  unfold kinv. rewrite key_step_vals, <- any_bound_map.   ks_cases; cbn [fst k_inst k_valid is_some]; split; try reflexivity; try discriminate; auto.
Qed.

(* ------------------------------------------------------------------ reachable states *)
Lemma kget_start ndict keys j ks :
  kget j (r_st (start_state (S:=S) ndict keys)) = Some ks -> ks = kinit ndict.
Proof.
  cbn [start_state r_st]. induction keys as [|k r IH]; cbn [map kget]; [discriminate|].
  destruct (k =? j); [intros H; inversion H; reflexivity|exact IH].
Qed.

Lemma kinv_init ndict : kinv (kinit (S:=S) ndict).
Proof.
  unfold kinv, kinit. cbn [k_inst k_vals k_valid is_some]. split; [|discriminate].
  unfold bound_somewhere. induction ndict; cbn; auto.
Qed.

Lemma run_snoc (B : Z -> body S) r h c : run B r (h ++ [c]) = run_cycle B (run B r h) c.
Proof. unfold run. rewrite fold_left_app. reflexivity. Qed.

Lemma kget_run_cycle (B : Z -> body S) r c j :
  kget j (r_st (run_cycle B r c)) =
  option_map (fun ks => fst (key_step (B j) (c_t c) (c_bc c j) j ks (ops_on j (c_ops c)))) (kget j (r_st r)).
Proof. cbn [run_cycle r_st]. apply kget_next_cycle. Qed.

(* Every key of every reachable state satisfies the invariant. *)
Lemma reach_kinv (B : Z -> body S) ndict keys h j ks :
  kget j (r_st (run B (start_state ndict keys) h)) = Some ks -> kinv ks.
Proof.
  revert ks. induction h as [|c h IH] using rev_ind; intros ks H.
  - apply kget_start in H. subst ks. apply kinv_init.
  - rewrite run_snoc, kget_run_cycle in H.
    destruct (kget j (r_st (run B (start_state ndict keys) h))) as [ks0|]; [|discriminate].
    cbn [option_map] in H. inversion H. apply key_step_kinv.
Qed.

(* The per-key element values are the global dictionaries' entries for that key. *)
Lemma reach_vals (B : Z -> body S) ndict keys h j ks :
  kget j (r_st (run B (start_state ndict keys) h)) = Some ks ->
  length (k_vals ks) = ndict /\ forall i, (i < ndict)%nat -> nth i (k_vals ks) None = dicts_after h i j.
Proof.
  revert ks. induction h as [|c h IH] using rev_ind; intros ks H.
  - apply kget_start in H. subst ks. unfold kinit. cbn [k_vals]. split; [apply repeat_length|].
    intros i Hi. unfold dicts_after. cbn [fold_left].
    clear Hi. revert i. induction ndict as [|n IHn]; intros [|i]; cbn; auto.
  - rewrite run_snoc, kget_run_cycle in H.
    destruct (kget j (r_st (run B (start_state ndict keys) h))) as [ks0|] eqn:E0; [|discriminate].
    cbn [option_map] in H. inversion H as [H1]. clear H H1.
    destruct (IH ks0 eq_refl) as [Hl Hv].
    rewrite key_step_vals. split; [rewrite map_length, new_vals_length; exact Hl|].
    intros i Hi. unfold dicts_after. rewrite fold_left_app. cbn [fold_left].
    fold (dicts_after h).
    replace i with (0 + i)%nat at 2 by lia.
    apply new_vals_global with (n := ndict); auto.
    intros x Hx. cbn. apply Hv. lia.
Qed.

Lemma bound_somewhere_spec (vals : list (option Z)) :
  bound_somewhere vals = true <-> exists i, (i < length vals)%nat /\ nth i vals None <> None.
Proof.
  unfold bound_somewhere. induction vals as [|v r IH]; cbn [existsb length].
  - split; [discriminate|intros [i [H _]]; lia].
  - rewrite orb_true_iff, IH. split.
    + intros [H|[i [Hi Hn]]].
      * exists 0%nat. split; [lia|]. cbn. destruct v; [discriminate|discriminate H].
      * exists (Datatypes.S i). split; [lia|exact Hn].
    + intros [[|i] [Hi Hn]].
      * left. cbn in Hn. destruct v; [reflexivity|congruence].
      * right. exists i. split; [lia|exact Hn].
Qed.

(* map_keyset_mirrors: in every reachable state, a key has a live instance exactly when it is a key
   of some multiplexed dictionary, and it is an output element only if it has a live instance. *)
Lemma keyset_mirrors (B : Z -> body S) ndict keys h j ks :
  kget j (r_st (run B (start_state ndict keys) h)) = Some ks ->
  (is_some (k_inst ks) = true <-> exists i, (i < ndict)%nat /\ dicts_after h i j <> None) /\
  (k_valid ks = true -> is_some (k_inst ks) = true).
Proof.
  intros H. destruct (reach_kinv _ _ _ _ _ _ H) as [Hl Hv]. destruct (reach_vals _ _ _ _ _ _ H) as [Hn Hd].
  split; [|exact Hv]. rewrite Hl, bound_somewhere_spec, Hn.
  split; intros [i [Hi Hx]]; exists i; (split; [exact Hi|]).
  - rewrite <- Hd by exact Hi. exact Hx.
  - rewrite Hd by exact Hi. exact Hx.
Qed.

(* the output elements are exactly the keys whose instance has produced an output since it was started *)
Lemma out_makes_valid (B : body S) t bc j ks ops v :
  ev_out (snd (key_step B t bc j ks ops)) = Some v ->
  k_valid (fst (key_step B t bc j ks ops)) = true /\ is_some (k_inst (fst (key_step B t bc j ks ops))) = true.
Proof.
  ks_cases; cbn [fst snd ev_out no_ev k_valid k_inst is_some]; try discriminate; auto.
Qed.

(* ------------------------------------------------------------------ isolation *)
(* two cycles look the same to key j *)
Definition same_for (j : Z) (c1 c2 : cyc) : Prop :=
  c_t c1 = c_t c2 /\ c_bc c1 j = c_bc c2 j /\ ops_on j (c_ops c1) = ops_on j (c_ops c2).

(* two run states look the same to key j *)
Definition agree_on (j : Z) (r1 r2 : run_state S) : Prop :=
  kget j (r_st r1) = kget j (r_st r2).

Lemma run_cycle_agree (B1 B2 : Z -> body S) j r1 r2 c1 c2 :
  B1 j = B2 j -> agree_on j r1 r2 -> same_for j c1 c2 ->
  agree_on j (run_cycle B1 r1 c1) (run_cycle B2 r2 c2) /\
  ev_of j (snd (hd (0, false, []) (r_log (run_cycle B1 r1 c1)))) =
  ev_of j (snd (hd (0, false, []) (r_log (run_cycle B2 r2 c2)))).
Proof.
  intros HB Hk [Ht [Hc Ho]]. unfold agree_on in *. split.
  - rewrite !kget_run_cycle, HB, Hk, Ht, Hc, Ho. reflexivity.
  - cbn [run_cycle r_log hd snd]. rewrite !ev_of_cycle, HB, Hk, Ht, Hc, Ho. reflexivity.
Qed.

Lemma run_cycle_log (B : Z -> body S) r c :
  exists p evs, r_log (run_cycle B r c) = (c_t c, p, evs) :: r_log r.
Proof. cbn [run_cycle r_log]. eauto. Qed.

(* Isolation, general form: from run states that agree on key j, under body families that agree at j,
   along histories that look the same to j (same cycle times, same broadcast, same operations ON j; the
   operations on every other key, the other keys' bodies, states and failures are arbitrary), key j's
   state and key j's trace stay the same. *)
Lemma isolated_gen (B1 B2 : Z -> body S) j : forall h1 h2 r1 r2,
  B1 j = B2 j -> agree_on j r1 r2 -> Forall2 (same_for j) h1 h2 ->
  key_trace j (r_log r1) = key_trace j (r_log r2) ->
  agree_on j (run B1 r1 h1) (run B2 r2 h2) /\
  key_trace j (r_log (run B1 r1 h1)) = key_trace j (r_log (run B2 r2 h2)).
Proof.
  intros h1 h2 r1 r2 HB Ha HF. revert r1 r2 Ha.
  induction HF as [|c1 c2 h1 h2 Hc HF IH]; intros r1 r2 Ha Htr; [split; assumption|].
  cbn [run fold_left]. destruct (run_cycle_agree B1 B2 j r1 r2 c1 c2 HB Ha Hc) as [Ha' He].
  apply IH; [exact Ha'|].
  destruct (run_cycle_log B1 r1 c1) as [p1 [e1 L1]]. destruct (run_cycle_log B2 r2 c2) as [p2 [e2 L2]].
  rewrite L1, L2 in He |- *. cbn [hd snd] in He. unfold key_trace in *. cbn [map fst snd]. rewrite He, Htr.
  destruct Hc as [Ht _]. rewrite Ht. reflexivity.
Qed.

(* a cycle that does not concern key j (no operation on j, no broadcast tick, no wake-up of j due) leaves
   j's state alone and produces no event for j: other keys' cycles are invisible to j *)
Lemma new_vals_nil i (vals : list (option Z)) : new_vals i vals [] = map (fun v => (v, false)) vals.
Proof. revert i; induction vals as [|v r IH]; intros i; cbn; [reflexivity|]. rewrite IH. reflexivity. Qed.

Lemma untouched_cycle_identity (B : body S) t bc j ks :
  kinv ks ->
  any_mod bc = false ->
  match k_inst ks with Some s => wake_due B s t = false | None => True end ->
  key_step B t bc j ks [] = (ks, no_ev).
Proof.
  intros [Hl Hv] Hbc Hw. unfold key_step. rewrite new_vals_nil.
  assert (Hfst : map fst (map (fun v : option Z => (v, false)) (k_vals ks)) = k_vals ks).
  { rewrite map_map. cbn. apply map_id. }
  assert (Hb : any_bound (map (fun v : option Z => (v, false)) (k_vals ks)) = bound_somewhere (k_vals ks)).
  { rewrite any_bound_map, Hfst. reflexivity. }
  rewrite Hb, Hfst.
  assert (Hm : any_mod (map (fun v : option Z => (v, false)) (k_vals ks) ++ bc) = false).
  { unfold any_mod in *. rewrite existsb_app.
    assert (E : existsb (fun p : option Z * bool => is_some (fst p) && snd p) (map (fun v : option Z => (v, false)) (k_vals ks)) = false).
    { clear. induction (k_vals ks) as [|v r IH]; [reflexivity|]. cbn [map existsb fst snd]. rewrite IH, andb_false_r. reflexivity. }
    rewrite E. exact Hbc. }
  destruct ks as [vals inst valid]. cbn [k_vals k_inst k_valid] in *.
  destruct inst as [s|]; cbn [is_some] in Hl.
  - rewrite <- Hl. cbn [is_some negb orb]. rewrite Hm, Hw. cbn [orb]. reflexivity.
  - rewrite <- Hl. destruct valid; [specialize (Hv eq_refl); discriminate|]. reflexivity.
Qed.

(* ------------------------------------------------------------------ a re-added key is fresh *)
(* while a key is absent nothing of it is kept: its state is literally the initial one *)
Lemma absent_is_initial (B : Z -> body S) ndict keys h j ks :
  kget j (r_st (run B (start_state ndict keys) h)) = Some ks ->
  k_inst ks = None -> ks = kinit ndict.
Proof.
  intros H Hn. destruct (reach_kinv _ _ _ _ _ _ H) as [Hl Hv]. destruct (reach_vals _ _ _ _ _ _ H) as [Hlen _].
  destruct ks as [vals inst valid]. cbn [k_inst k_vals k_valid] in *. subst inst. cbn [is_some] in *.
  unfold kinit. f_equal.
  - clear Hv H. revert ndict Hlen. induction vals as [|v r IH]; intros n Hlen; cbn in Hlen; subst n; [reflexivity|].
    cbn [repeat]. unfold bound_somewhere in Hl. cbn [existsb] in Hl. symmetry in Hl. apply orb_false_iff in Hl. destruct Hl as [Hv0 Hr].
    destruct v; [discriminate|]. f_equal. apply IH; [symmetry; exact Hr|reflexivity].
  - destruct valid; [specialize (Hv eq_refl); discriminate|reflexivity].
Qed.

Lemma kget_run_none (B : Z -> body S) j h : forall r,
  kget j (r_st r) = None -> kget j (r_st (run B r h)) = None.
Proof.
  induction h as [|c h IH]; intros r H; [exact H|]. cbn [run fold_left]. apply IH.
  rewrite kget_run_cycle, H. reflexivity.
Qed.

Lemma same_for_refl j h : Forall2 (same_for j) h h.
Proof. induction h; constructor; [repeat split|assumption]. Qed.

Definition clear_log (r : run_state S) : run_state S := mkR (r_st r) (r_primed r) [].
Definition fresh_state (ndict : nat) (keys : list Z) : run_state S :=
  mkR (map (fun k => (k, kinit ndict)) keys) false [].

(* readd_is_fresh: once key j is absent (after ANY history h1), everything that happens to j afterwards -
   under ANY continuation h2 - is exactly what happens to j in a map that has just been created:
   no state, validity or schedule of the earlier life survives. *)
Lemma readd_fresh (B : Z -> body S) ndict keys h1 h2 j ks :
  kget j (r_st (run B (start_state ndict keys) h1)) = Some ks -> k_inst ks = None ->
  let r1 := clear_log (run B (start_state ndict keys) h1) in
  key_trace j (r_log (run B r1 h2)) = key_trace j (r_log (run B (fresh_state ndict keys) h2)).
Proof.
  intros Hk Hn r1.
  assert (Hinit : ks = kinit ndict) by (eapply absent_is_initial; eassumption). subst ks.
  assert (Hfresh : kget j (r_st (fresh_state ndict keys)) = Some (kinit ndict)).
  { destruct (kget j (r_st (fresh_state ndict keys))) as [x|] eqn:E.
    - apply (kget_start ndict keys j x) in E. subst x. reflexivity.
    - exfalso. assert (E' : kget j (r_st (start_state (S:=S) ndict keys)) = None) by exact E.
      apply (kget_run_none B j h1) in E'. congruence. }
  apply (isolated_gen B B j h2 h2 r1 (fresh_state ndict keys)); [reflexivity| |apply same_for_refl|reflexivity].
  unfold agree_on. cbn [r1 clear_log r_st]. rewrite Hk, Hfresh. reflexivity.
Qed.

(* ------------------------------------------------------------------ "as if run alone" *)
(* the history as key j sees it: only the operations on j *)
Definition restrict_to (j : Z) (c : cyc) : cyc :=
  mkCyc (c_t c) (c_bc c) (filter (fun o => snd (fst o) =? j) (c_ops c)).

Lemma ops_on_restrict j ops : ops_on j (filter (fun o : nat * Z * Z * Z => snd (fst o) =? j) ops) = ops_on j ops.
Proof.
  unfold ops_on. induction ops as [|[[[d c] k] v] r IH]; [reflexivity|]. cbn [filter fst snd map].
  destruct (k =? j) eqn:E; cbn [filter fst snd map]; rewrite ?E; cbn [map]; [f_equal|]; exact IH.
Qed.

Lemma same_for_restrict j h : Forall2 (same_for j) h (map (restrict_to j) h).
Proof.
  induction h as [|c r IH]; cbn [map]; constructor; [|exact IH].
  unfold same_for, restrict_to. cbn [c_t c_bc c_ops]. repeat split. symmetry. apply ops_on_restrict.
Qed.

(* runs_alone: key j's trace in the map - whatever the other keys, their bodies and their histories are -
   is its trace in a map whose key universe is {j} alone, fed only the operations on j. *)
Lemma runs_alone (B : Z -> body S) ndict keys h j :
  In j keys ->
  key_trace j (r_log (run B (start_state ndict keys) h)) =
  key_trace j (r_log (run B (start_state ndict [j]) (map (restrict_to j) h))).
Proof.
  intros Hin.
  apply (isolated_gen B B j h (map (restrict_to j) h) (start_state ndict keys) (start_state ndict [j]));
    [reflexivity| |apply same_for_restrict|reflexivity].
  unfold agree_on. cbn [start_state r_st map kget fst]. rewrite Z.eqb_refl.
  induction keys as [|k r IH]; [destruct Hin|]. cbn [map kget fst snd].
  destruct (k =? j) eqn:E; [reflexivity|]. apply IH. destruct Hin as [->|H]; [lia|exact H].
Qed.

End Facts.
